// Package hx: helpers shared by all property harnesses (PRNG, Coq literals, result files).
package hx

import (
	"bufio"
	"encoding/hex"
	"encoding/json"
	"flag"
	"fmt"
	"os"
	"path/filepath"
	"sort"
	"strings"
)

// ---- one seeded PRNG (splitmix64); every random choice derives from it ----
type Rng struct{ s uint64 }

// NewRng scrambles the seed before using it as the splitmix counter: with a counter of seed*G the
// streams of seeds s and s+1 would be the same stream shifted by one draw.
func NewRng(seed uint64) *Rng {
	z := seed*0x9E3779B97F4A7C15 + 0x1234567
	z = (z ^ (z >> 30)) * 0xBF58476D1CE4E5B9
	z = (z ^ (z >> 27)) * 0x94D049BB133111EB
	return &Rng{s: z ^ (z >> 31)}
}
func (r *Rng) U64() uint64 {
	r.s += 0x9E3779B97F4A7C15
	z := r.s
	z = (z ^ (z >> 30)) * 0xBF58476D1CE4E5B9
	z = (z ^ (z >> 27)) * 0x94D049BB133111EB
	return z ^ (z >> 31)
}
func (r *Rng) Intn(n int) int {
	if n <= 0 {
		return 0
	}
	return int(r.U64() % uint64(n))
}
func (r *Rng) Bool() bool { return r.U64()&1 == 1 }
func (r *Rng) Bytes(n int) []byte {
	b := make([]byte, n)
	for i := range b {
		b[i] = byte(r.U64())
	}
	return b
}
func (r *Rng) Fork() *Rng { return NewRng(r.U64()) }

// ---- command line ----
type Args struct {
	Seed   uint64
	N      int
	Tier   string
	Out    string
	Replay string
}

func ParseArgs() Args {
	var a Args
	flag.Uint64Var(&a.Seed, "seed", 1, "seed")
	flag.IntVar(&a.N, "n", 500, "number of generated cases")
	flag.StringVar(&a.Tier, "tier", "quick", "quick|thorough")
	flag.StringVar(&a.Out, "out", ".", "output directory")
	flag.StringVar(&a.Replay, "replay", "", "replay file")
	flag.Parse()
	return a
}

// ---- Coq literals ----
func CoqHex(b []byte) string { return "\"" + hex.EncodeToString(b) + "\"" }
func CoqN(n uint64) string   { return fmt.Sprintf("%d%%N", n) }
func CoqZ(s string) string   { return "(" + s + ")%Z" }
func CoqBool(b bool) string {
	if b {
		return "true"
	}
	return "false"
}
func CoqList(items []string) string { return "[" + strings.Join(items, "; ") + "]" }
func CoqStr(s string) string        { return "\"" + strings.ReplaceAll(s, "\"", "\"\"") + "\"" }

// ---- result file ----
type Violation struct {
	Key   string      `json:"key"`
	What  string      `json:"what"`
	Input interface{} `json:"input"`
}

type Result struct {
	Evaluations        int            `json:"evaluations"`
	DistinctNontrivial int            `json:"distinct_nontrivial"`
	Rule               string         `json:"rule"`
	Samples            []interface{}  `json:"samples"`
	Histogram          map[string]int `json:"histogram"`
	Violations         []Violation    `json:"violations"`
	ModelCases         int            `json:"model_cases"`
	Exhaustive         bool           `json:"exhaustive"`
	Notes              []string       `json:"notes"`
	distinct           map[string]bool
	violKeys           map[string]int
}

func NewResult(rule string) *Result {
	return &Result{Rule: rule, Histogram: map[string]int{}, distinct: map[string]bool{}, violKeys: map[string]int{}, Violations: []Violation{}, Samples: []interface{}{}, Notes: []string{}}
}

// Count one evaluation. class = outcome class for the histogram; id = canonical identity of
// the case (for distinctness); nontrivial as decided by the property's stated rule.
func (r *Result) Count(class string, id string, nontrivial bool) {
	r.Evaluations++
	r.Histogram[class]++
	if nontrivial && !r.distinct[id] {
		r.distinct[id] = true
		r.DistinctNontrivial++
	}
}
func (r *Result) Sample(s interface{}) {
	if len(r.Samples) < 8 {
		r.Samples = append(r.Samples, s)
	}
}

// Violate records a direct property failure on the implementation (at most 5 per key are kept).
func (r *Result) Violate(key, what string, input interface{}) {
	r.violKeys[key]++
	if r.violKeys[key] <= 5 {
		r.Violations = append(r.Violations, Violation{key, what, input})
	}
}
func (r *Result) Note(s string) { r.Notes = append(r.Notes, s) }
func (r *Result) Write(dir string) {
	keys := make([]string, 0, len(r.violKeys))
	for k := range r.violKeys {
		keys = append(keys, k)
	}
	sort.Strings(keys)
	for _, k := range keys {
		r.Histogram["violation:"+k] = r.violKeys[k]
	}
	b, _ := json.MarshalIndent(r, "", " ")
	if err := os.WriteFile(filepath.Join(dir, "result.json"), b, 0644); err != nil {
		panic(err)
	}
}

// ---- cases files: cases_<shard>.v (Coq) + cases.jsonl (for replay lookup) ----
type Cases struct {
	dir    string
	name   string
	header string // Coq prelude: Requires + definition of `check : case -> bool`... see Begin
	per    int
	shard  int
	count  int
	total  int
	w      *bufio.Writer
	f      *os.File
	jl     *bufio.Writer
	jf     *os.File
	caseTy string
	evalFn string
}

// NewCases: header = Require lines; caseTy = Coq type of one case (without the index);
// evalFn = Coq function `caseTy -> bool` returning true when model and implementation agree.
func NewCases(dir, header, caseTy, evalFn string, perShard int) *Cases {
	return NewCasesNamed(dir, "", header, caseTy, evalFn, perShard)
}

// NewCasesNamed: a second, independent family of case files (cases_<name>NNN.v, cases_<name>.jsonl)
// for harnesses that compare more than one kind of observation.
func NewCasesNamed(dir, name, header, caseTy, evalFn string, perShard int) *Cases {
	jn := "cases.jsonl"
	if name != "" {
		jn = "cases_" + name + ".jsonl"
	}
	jf, err := os.Create(filepath.Join(dir, jn))
	if err != nil {
		panic(err)
	}
	return &Cases{dir: dir, name: name, header: header, per: perShard, caseTy: caseTy, evalFn: evalFn, jf: jf, jl: bufio.NewWriter(jf)}
}
func (c *Cases) open() {
	f, err := os.Create(filepath.Join(c.dir, fmt.Sprintf("cases_%s%03d.v", c.name, c.shard)))
	if err != nil {
		panic(err)
	}
	c.f, c.w = f, bufio.NewWriterSize(f, 1<<20)
	fmt.Fprintf(c.w, "%s\nFrom Coq Require Import List NArith ZArith String.\nImport ListNotations.\nOpen Scope string_scope.\nDefinition cases : list (N * (%s)) := [\n", c.header, c.caseTy)
	c.count = 0
}
func (c *Cases) close() {
	if c.f == nil {
		return
	}
	fmt.Fprintf(c.w, "].\nDefinition mismatches : list N := Eval vm_compute in map fst (filter (fun c => negb (%s (snd c))) cases).\nPrint mismatches.\n", c.evalFn)
	c.w.Flush()
	c.f.Close()
	c.f = nil
	c.shard++
}

// Add one case: term = Coq term of type caseTy; js = JSON-able description for replay.
func (c *Cases) Add(term string, js interface{}) int {
	if c.f == nil {
		c.open()
	}
	if c.count > 0 {
		c.w.WriteString(";\n")
	}
	fmt.Fprintf(c.w, " (%d%%N, %s)", c.total, term)
	b, _ := json.Marshal(map[string]interface{}{"i": c.total, "case": js})
	c.jl.Write(b)
	c.jl.WriteByte('\n')
	c.count++
	c.total++
	if c.count >= c.per {
		c.close()
	}
	return c.total - 1
}
func (c *Cases) Total() int { return c.total }
func (c *Cases) Close() {
	c.close()
	c.jl.Flush()
	c.jf.Close()
}
