// C09 harness: the protobuf wire codecs of blocks / headers / transactions / groups
// (src/middleware/types/serialization.go) against the Coq model coq/C09, plus direct evaluation of the
// property on the implementation:
//
//	total        every parser call runs under recover(); a panic is a violation (key C09/total:<function>)
//	roundtrip    node-producible values: Marshal -> UnMarshal gives the same content and the same GenHash
//	fixed-point  arbitrary in-memory values and values obtained by parsing hostile bytes: one
//	             serialise/parse pass reaches a value that the next pass reproduces (content and GenHash)
//
// Model cases (see coq/C09/Harness.v): the access-mode table re-extracted from the sources this binary
// was built from; pb structs (every subset of optional scalars absent, hostile byte fields, pb structs the
// real wire decoder produced from mutated bytes) with the outcome of the real PbTo* functions; node values
// with the pb structs the real *ToPb functions produced; time.Time binary encodings.
package main

import (
	"bytes"
	"crypto/sha256"
	"encoding/hex"
	"encoding/json"
	"fmt"
	"go/ast"
	"go/parser"
	"go/token"
	"io"
	"math/big"
	"os"
	"path/filepath"
	"reflect"
	"runtime"
	"strconv"
	"strings"
	"sync"
	"time"

	"com.tuntun.rangers/node/src/common"
	"com.tuntun.rangers/node/src/core"
	pb "com.tuntun.rangers/node/src/middleware/pb"
	"com.tuntun.rangers/node/src/middleware/types"
	"github.com/gogo/protobuf/proto"
	"verif/harness/c09ext"
	"verif/harness/hx"
)

const unixToInternal int64 = 62135596800

// ---------------------------------------------------------------- Coq terms

func cB(b []byte) string {
	if b == nil {
		return "Nil"
	}
	return "(B " + hx.CoqHex(b) + ")"
}
func cU(b []byte) string   { return "(U " + hx.CoqHex(b) + ")" }
func cStr(s string) string { return cU([]byte(s)) }
func cS(s *string) string {
	if s == nil {
		return "None"
	}
	return "(St " + hx.CoqHex([]byte(*s)) + ")"
}
func cN(p *uint64) string {
	if p == nil {
		return "None"
	}
	return fmt.Sprintf("(Some %d%%N)", *p)
}
func cZ32(p *int32) string {
	if p == nil {
		return "None"
	}
	return fmt.Sprintf("(Some (%d)%%Z)", *p)
}

func cPbTx(p *pb.Transaction) string {
	return "(mk_pb_tx " + strings.Join([]string{cS(p.Data), cN(p.Nonce), cB(p.Source), cS(p.Target), cZ32(p.Type), cB(p.Hash),
		cB(p.ExtraData), cZ32(p.ExtraDataType), cB(p.Sign), cS(p.Time), cN(p.RequestId), cS(p.SocketRequestId),
		cB(p.SubTransactions), cB(p.SubHash), cS(p.ChainId)}, " ") + ")"
}

func subJSON(s []types.UserData) []byte {
	b, _ := json.Marshal(s)
	return b
}
func reqJSON(m map[string]uint64) []byte {
	b, _ := json.Marshal(m)
	return b
}

// a signature as its three integers (read through GetR/GetS, not through the wire image Bytes())
func cSign(s *common.Sign) string {
	if s == nil {
		return "None"
	}
	r, ss := s.GetR(), s.GetS()
	img := s.Bytes()
	return fmt.Sprintf("(Some (%s, %s, %d)%%N)", r.String(), ss.String(), img[len(img)-1])
}

func leftPad32(z big.Int) []byte {
	b := z.Bytes()
	if len(b) >= 32 {
		return b
	}
	return append(make([]byte, 32-len(b)), b...)
}

// Sign.Bytes() must be r || s || recid with r and s RIGHT-aligned in their 32-byte words, and BytesToSign must invert it
func signDefect(a *common.Sign) string {
	if a == nil {
		return ""
	}
	img := a.Bytes()
	if len(img) != 65 {
		return fmt.Sprintf("Sign.Bytes() has %d bytes", len(img))
	}
	want := append(append(leftPad32(a.GetR()), leftPad32(a.GetS())...), img[64])
	if !bytes.Equal(img, want) {
		return "Sign.Bytes() = " + hexs(img) + " is not leftpad32(r) || leftpad32(s) || recid = " + hexs(want)
	}
	back := common.BytesToSign(img)
	if back == nil {
		return "BytesToSign(Sign.Bytes()) is nil"
	}
	br, bs, ar, as := back.GetR(), back.GetS(), a.GetR(), a.GetS()
	if br.Cmp(&ar) != 0 || bs.Cmp(&as) != 0 || back.GetHexString() != a.GetHexString() {
		return "BytesToSign(Sign.Bytes()) is a different signature: r " + ar.String() + " -> " + br.String() + ", s " + as.String() + " -> " + bs.String()
	}
	return ""
}

func signDiff(a, b *common.Sign) string {
	if (a == nil) != (b == nil) {
		return "signature present on one side only"
	}
	if a == nil {
		return ""
	}
	ar, as, br, bs := a.GetR(), a.GetS(), b.GetR(), b.GetS()
	ai, bi := a.Bytes(), b.Bytes()
	switch {
	case ar.Cmp(&br) != 0:
		return "r " + ar.String() + " -> " + br.String()
	case as.Cmp(&bs) != 0:
		return "s " + as.String() + " -> " + bs.String()
	case ai[len(ai)-1] != bi[len(bi)-1]:
		return "recid changed"
	case !bytes.Equal(ai, bi) || a.GetHexString() != b.GetHexString():
		return "Bytes()/hex image changed"
	}
	return ""
}

// signatures with structured words: leading zero bytes in r, in s, in both; small integers; all-zero; maximal
func (g *gen) structuredSign() *common.Sign {
	word := func() []byte {
		w := make([]byte, 32)
		switch g.r.Intn(9) {
		case 0: // one leading zero byte (1/256 of honest signatures per word)
			copy(w, g.r.Bytes(32))
			w[0] = 0
		case 1: // several
			copy(w, g.r.Bytes(32))
			for i := 0; i < 1+g.r.Intn(30); i++ {
				w[i] = 0
			}
		case 2:
			w[31] = 1
		case 3:
			w[31] = 255
		case 4:
			w[30] = 1 // 256
		case 5: // zero word
		case 6:
			for i := range w {
				w[i] = 0xff
			}
		default:
			copy(w, g.r.Bytes(32))
			if w[0] == 0 {
				w[0] = 1
			}
		}
		return w
	}
	b := append(append(word(), word()...), byte(g.r.Intn(4)))
	if g.r.Intn(6) == 0 {
		b[64] = byte(27 + g.r.Intn(2))
	}
	return common.BytesToSign(b)
}

func cTx(t *types.Transaction) string {
	return "(mk_tx bytes " + strings.Join([]string{cStr(t.Source), cStr(t.Target), fmt.Sprintf("(%d)%%Z", t.Type), cStr(t.Time),
		cStr(t.Data), cStr(t.ExtraData), fmt.Sprintf("(%d)%%Z", t.ExtraDataType), cU(subJSON(t.SubTransactions)),
		cU(t.SubHash.Bytes()), cU(t.Hash.Bytes()), cSign(t.Sign), fmt.Sprintf("%d%%N", t.Nonce), fmt.Sprintf("%d%%N", t.RequestId),
		cStr(t.SocketRequestId), cStr(t.ChainId)}, " ") + ")"
}

func cTime(t time.Time) string {
	sec := t.Unix() + unixToInternal // wraps like Go's own arithmetic
	off := "None"
	if t.Location() != time.UTC {
		_, o := t.Zone()
		off = fmt.Sprintf("(Some (%d)%%Z)", o)
	}
	return fmt.Sprintf("(mk_time (%d)%%Z (%d)%%Z %s)", sec, t.Nanosecond(), off)
}

func cBig(z *big.Int) string {
	if z == nil {
		return "None"
	}
	return "(Some (" + z.String() + ")%Z)"
}

func cPbHdr(h *pb.BlockHeader) string {
	txh := []string{}
	for _, e := range h.Transactions {
		if e == nil {
			txh = append(txh, "(mk_pb_txhash Nil Nil)") // never reached: nil elements are kept out of model cases
			continue
		}
		txh = append(txh, "(mk_pb_txhash "+cB(e.Hash)+" "+cB(e.SubHash)+")")
	}
	ev := "None"
	if h.EvictedTxs != nil {
		l := []string{}
		for _, e := range h.EvictedTxs.Hashes {
			l = append(l, cU(e))
		}
		ev = "(Some " + hx.CoqList(l) + ")"
	}
	return "(mk_pb_hdr " + strings.Join([]string{cB(h.Hash), cN(h.Height), cB(h.PreHash), cB(h.PreTime), cB(h.ProveValue), cN(h.TotalQN),
		cB(h.CurTime), cB(h.Castor), cB(h.GroupId), cB(h.Signature), cN(h.Nonce), hx.CoqList(txh), cB(h.TxTree), cB(h.ReceiptTree),
		cB(h.StateTree), cB(h.ExtraData), cB(h.Random), ev, cB(h.RequestIds)}, " ") + ")"
}

func cHdr(h *types.BlockHeader) string {
	txs := "None"
	if h.Transactions != nil {
		l := []string{}
		for _, e := range h.Transactions {
			l = append(l, "("+cU(e[0].Bytes())+", "+cU(e[1].Bytes())+")")
		}
		txs = "(Some " + hx.CoqList(l) + ")"
	}
	ev := "None"
	if h.EvictedTxs != nil {
		l := []string{}
		for _, e := range h.EvictedTxs {
			l = append(l, cU(e.Bytes()))
		}
		ev = "(Some " + hx.CoqList(l) + ")"
	}
	return "(mk_hdr bytes " + strings.Join([]string{cU(h.Hash.Bytes()), fmt.Sprintf("%d%%N", h.Height), cU(h.PreHash.Bytes()), cTime(h.PreTime),
		cBig(h.ProveValue), fmt.Sprintf("%d%%N", h.TotalQN), cTime(h.CurTime), cB(h.Castor), cB(h.GroupId), cB(h.Signature),
		fmt.Sprintf("%d%%N", h.Nonce), cU(reqJSON(h.RequestIds)), txs, cU(h.TxTree.Bytes()), cU(h.ReceiptTree.Bytes()),
		cU(h.StateTree.Bytes()), cB(h.ExtraData), cB(h.Random), ev}, " ") + ")"
}

func cOHdr(h *types.BlockHeader) string {
	if h == nil {
		return "None"
	}
	return "(Some " + cHdr(h) + ")"
}

func cPbGhdr(g *pb.GroupHeader) string {
	if g == nil {
		return "None"
	}
	return "(Some (mk_pb_ghdr " + strings.Join([]string{cB(g.Hash), cB(g.Parent), cB(g.PreGroup), cB(g.CreateBlockHash), cB(g.BeginTime),
		cB(g.MemberRoot), cN(g.CreateHeight), cS(g.Extends)}, " ") + "))"
}

func cMembers(m [][]byte) string {
	l := []string{}
	for _, e := range m {
		l = append(l, cU(e))
	}
	return hx.CoqList(l)
}

func cPbGroup(g *pb.Group) string {
	return "(mk_pb_group " + strings.Join([]string{cPbGhdr(g.Header), cB(g.Id), cB(g.PubKey), cB(g.Signature), cMembers(g.Members), cN(g.GroupHeight)}, " ") + ")"
}

func cGhdr(g *types.GroupHeader) string {
	if g == nil {
		return "None"
	}
	return "(Some (mk_ghdr " + strings.Join([]string{cU(g.Hash.Bytes()), cB(g.Parent), cB(g.PreGroup), cB(g.CreateBlockHash), cTime(g.BeginTime),
		cU(g.MemberRoot.Bytes()), fmt.Sprintf("%d%%N", g.CreateHeight), fmt.Sprintf("%d%%N", g.ReadyHeight), fmt.Sprintf("%d%%N", g.WorkHeight),
		fmt.Sprintf("%d%%N", g.DismissHeight), cStr(g.Extends)}, " ") + "))"
}

func cGroup(g *types.Group) string {
	return "(mk_group " + strings.Join([]string{cGhdr(g.Header), cB(g.Id), cB(g.PubKey), cB(g.Signature), cMembers(g.Members), fmt.Sprintf("%d%%N", g.GroupHeight)}, " ") + ")"
}

func cTbl(t [][2][]byte) string {
	l := []string{}
	for _, e := range t {
		l = append(l, "("+hx.CoqHex(e[0])+", "+hx.CoqHex(e[1])+")")
	}
	return hx.CoqList(l)
}

// ---------------------------------------------------------------- running the implementation

func guard(f func()) (panicked bool, msg string) {
	defer func() {
		if r := recover(); r != nil {
			panicked = true
			msg = fmt.Sprint(r)
		}
	}()
	f()
	return
}

// JSON behaviour of encoding/json on the inputs of one case (the model's decoder table)
func subOracle(b []byte) []byte {
	var s []types.UserData
	json.Unmarshal(b, &s)
	return subJSON(s)
}
func reqOracle(b []byte) []byte {
	var m map[string]uint64
	json.Unmarshal(b, &m)
	return reqJSON(m)
}

// ---------------------------------------------------------------- generators

type gen struct{ r *hx.Rng }

var byteLens = []int{0, 1, 5, 20, 31, 32, 32, 32, 33, 40, 64, 65, 65, 66}

func (g *gen) bytesField() []byte {
	switch g.r.Intn(8) {
	case 0:
		return nil
	case 1:
		return []byte{}
	}
	b := g.r.Bytes(byteLens[g.r.Intn(len(byteLens))])
	if len(b) > 0 && g.r.Intn(3) == 0 {
		b[0] = 0
	}
	return b
}
func (g *gen) hashBytes() []byte {
	if g.r.Intn(4) == 0 {
		return g.bytesField()
	}
	b := g.r.Bytes(32)
	if g.r.Intn(4) == 0 {
		b[0] = 0
	}
	return b
}
func (g *gen) str() string {
	switch g.r.Intn(6) {
	case 0:
		return ""
	case 1:
		return "0x" + hex.EncodeToString(g.r.Bytes(20))
	case 2:
		return string(g.r.Bytes(g.r.Intn(12))) // arbitrary bytes, possibly invalid UTF-8
	case 3:
		return "{\"k\":\"" + hex.EncodeToString(g.r.Bytes(3)) + "\"}"
	}
	return hex.EncodeToString(g.r.Bytes(1 + g.r.Intn(6)))
}
func (g *gen) u64() uint64 {
	switch g.r.Intn(6) {
	case 0:
		return 0
	case 1:
		return ^uint64(0)
	case 2:
		return uint64(g.r.Intn(300))
	case 3:
		return 1 << 63
	}
	return g.r.U64()
}
func (g *gen) i32() int32 {
	switch g.r.Intn(6) {
	case 0:
		return 0
	case 1:
		return -1
	case 2:
		return 2147483647
	case 3:
		return -2147483648
	case 4:
		return int32(g.r.Intn(700))
	}
	return int32(g.r.U64())
}

func (g *gen) userData() []types.UserData {
	switch g.r.Intn(4) {
	case 0:
		return nil
	case 1:
		return []types.UserData{}
	}
	n := 1 + g.r.Intn(3)
	l := make([]types.UserData, n)
	for i := range l {
		l[i].Address = g.u64()
		if g.r.Bool() {
			l[i].Balance = fmt.Sprint(g.r.Intn(1000))
		}
		if g.r.Bool() {
			l[i].Coin = map[string]string{"ETH.ETH": "1.5", hex.EncodeToString(g.r.Bytes(2)): "2"}
		}
		if g.r.Intn(3) == 0 {
			l[i].FT = map[string]string{}
		}
		if g.r.Bool() {
			l[i].Assets = map[string]string{"a<b>&": "é\u2028" + hex.EncodeToString(g.r.Bytes(3)), "z": "y"}
		}
	}
	return l
}

func (g *gen) subBytes() []byte {
	switch g.r.Intn(8) {
	case 0:
		return nil
	case 1:
		return []byte{}
	case 2:
		return []byte("null")
	case 3:
		return []byte("[]")
	case 4:
		return g.r.Bytes(1 + g.r.Intn(10))
	case 5:
		return []byte(`[{"address":7,"balance":"1"},{"address":"bad"}]`)
	case 6:
		return []byte(`[{"address":1,"Assets":{"k":"v"},"coin":{}},{"ft":{"a":"b"}}] trailing`)
	}
	return subJSON(g.userData())
}

func (g *gen) sign() []byte {
	switch g.r.Intn(6) {
	case 0:
		return nil
	case 1:
		return []byte{}
	case 2:
		return g.r.Bytes(64 + g.r.Intn(3))
	}
	b := g.r.Bytes(65)
	switch g.r.Intn(4) {
	case 0:
		for i := 0; i < 4; i++ {
			b[i], b[32+i] = 0, 0
		}
	case 1: // words with leading zeros / small integers / extremes, written here (not through Sign.Bytes())
		sg := g.structuredSign()
		r, s2 := sg.GetR(), sg.GetS()
		b = append(append(leftPad32(r), leftPad32(s2)...), b[64])
	}
	return b
}

// pb transaction; mask bit i set = optional scalar i absent
func (g *gen) pbTx(mask int) *pb.Transaction {
	p := &pb.Transaction{Source: g.bytesField(), Hash: g.hashBytes(), ExtraData: g.bytesField(), Sign: g.sign(),
		SubTransactions: g.subBytes(), SubHash: g.hashBytes()}
	set := func(i int) bool { return mask&(1<<uint(i)) == 0 }
	if set(0) {
		p.Data = proto.String(g.str())
	}
	if set(1) {
		p.Nonce = proto.Uint64(g.u64())
	}
	if set(2) {
		p.Target = proto.String(g.str())
	}
	if set(3) {
		p.Type = proto.Int32(g.i32())
	}
	if set(4) {
		p.ExtraDataType = proto.Int32(g.i32())
	}
	if set(5) {
		p.Time = proto.String(g.str())
	}
	if set(6) {
		p.RequestId = proto.Uint64(g.u64())
	}
	if set(7) {
		p.SocketRequestId = proto.String(g.str())
	}
	if set(8) {
		p.ChainId = proto.String(g.str())
	}
	return p
}

var zoneOffsets = []int{0, 8 * 3600, -5 * 3600, 5*3600 + 1800, 3600 + 7, 1, 59, 12*3600 + 59, -3600, 14 * 3600}

// a time the node can produce: UTC, Local, fixed zones (whole-minute, and positive second-granular offsets)
func (g *gen) nodeTime() time.Time {
	sec := int64(1600000000 + g.r.Intn(200000000))
	ns := int64(0)
	switch g.r.Intn(4) {
	case 0:
		ns = int64(g.r.Intn(1000000000))
	case 1:
		ns = 999999999
	case 2:
		ns = int64(g.r.Intn(1000)) * 1000000
	}
	t := time.Unix(sec, ns)
	switch g.r.Intn(5) {
	case 0:
		return t.UTC()
	case 1:
		return t // Local
	case 2:
		return time.Date(2021, 12, 7, 0, 0, 0, 0, time.UTC)
	}
	return t.In(time.FixedZone("z", zoneOffsets[g.r.Intn(len(zoneOffsets))]))
}

// any in-memory time, including zones whose binary form Go does not reproduce
func (g *gen) anyTime() time.Time {
	switch g.r.Intn(6) {
	case 0:
		return time.Time{}
	case 1:
		offs := []int{-30, -3601, -59, -61, -60, 40000 * 60, -7*3600 - 45, 18*3600 + 1}
		return time.Unix(int64(g.r.Intn(2000000000)), int64(g.r.Intn(1000000000))).In(time.FixedZone("w", offs[g.r.Intn(len(offs))]))
	case 2:
		return time.Unix(int64(g.r.U64()>>uint(g.r.Intn(40))), int64(g.r.Intn(1000000000))).UTC()
	case 3:
		return time.Unix(-int64(g.r.U64()>>uint(20+g.r.Intn(30))), 0)
	}
	return g.nodeTime()
}

func (g *gen) timeBytes() []byte {
	switch g.r.Intn(12) {
	case 0:
		return nil
	case 1:
		return []byte{}
	case 2:
		return g.r.Bytes(1 + g.r.Intn(20))
	case 3: // right shape, hostile content (negative nanoseconds, huge seconds, odd offsets)
		b := g.r.Bytes(15)
		b[0] = 1
		return b
	case 4:
		b := g.r.Bytes(16)
		b[0] = 2
		return b
	case 5:
		b := g.r.Bytes(16)
		b[0] = 2
		b[13], b[14] = 0xff, 0xff // offset minutes -1 with a seconds byte
		if g.r.Bool() {
			b[15] = 0
		}
		return b
	case 6:
		b, _ := g.anyTime().MarshalBinary()
		if len(b) > 0 && g.r.Bool() {
			b[0] = byte(g.r.Intn(4))
		}
		return b
	case 7:
		b, _ := g.nodeTime().MarshalBinary()
		if g.r.Bool() {
			b = append(b, 0)
		} else if len(b) > 0 {
			b = b[:len(b)-1]
		}
		return b
	}
	b, _ := g.anyTime().MarshalBinary()
	return b
}

func (g *gen) reqBytes() []byte {
	switch g.r.Intn(8) {
	case 0:
		return nil
	case 1:
		return []byte{}
	case 2:
		return []byte("null")
	case 3:
		return []byte("{}")
	case 4:
		return g.r.Bytes(1 + g.r.Intn(8))
	case 5:
		return []byte(`{"a":1,"b":"x","c":3}`)
	case 6:
		return []byte(`{"fixed":18446744073709551615,"a<>&":0,"é":7}`)
	}
	return reqJSON(g.reqMap())
}

func (g *gen) reqMap() map[string]uint64 {
	switch g.r.Intn(4) {
	case 0:
		return nil
	case 1:
		return map[string]uint64{}
	}
	m := map[string]uint64{}
	n := 1 + g.r.Intn(4)
	for i := 0; i < n; i++ {
		k := "0x" + hex.EncodeToString(g.r.Bytes(1+g.r.Intn(3)))
		if g.r.Intn(5) == 0 {
			k = "fixed"
		}
		if g.r.Intn(7) == 0 {
			k = "k\"<" + k + ">\\"
		}
		m[k] = g.u64()
	}
	return m
}

func (g *gen) proveBytes() []byte {
	switch g.r.Intn(6) {
	case 0:
		return nil
	case 1:
		return []byte{}
	case 2:
		return []byte{0, 0, byte(g.r.Intn(256))}
	case 3:
		return []byte{0}
	}
	return g.r.Bytes(1 + g.r.Intn(40))
}

func (g *gen) pbHdr(mask int, goodTimes bool) *pb.BlockHeader {
	h := &pb.BlockHeader{Hash: g.hashBytes(), PreHash: g.hashBytes(), PreTime: g.timeBytes(), ProveValue: g.proveBytes(), CurTime: g.timeBytes(),
		Castor: g.bytesField(), GroupId: g.bytesField(), Signature: g.bytesField(), TxTree: g.hashBytes(), ReceiptTree: g.hashBytes(),
		StateTree: g.hashBytes(), ExtraData: g.bytesField(), Random: g.bytesField(), RequestIds: g.reqBytes()}
	if goodTimes {
		for {
			h.PreTime, _ = g.anyTime().MarshalBinary()
			h.CurTime, _ = g.anyTime().MarshalBinary()
			if h.PreTime != nil && h.CurTime != nil {
				break
			}
		}
		if g.r.Intn(3) == 0 {
			h.CurTime = g.timeBytes()
		}
	}
	if mask&1 == 0 {
		h.Height = proto.Uint64(g.u64())
	}
	if mask&2 == 0 {
		h.Nonce = proto.Uint64(g.u64())
	}
	if mask&4 == 0 {
		h.TotalQN = proto.Uint64(g.u64())
	}
	if mask&8 == 0 {
		n := g.r.Intn(4)
		hs := &pb.Hashes{}
		for i := 0; i < n; i++ {
			hs.Hashes = append(hs.Hashes, g.hashBytes())
			if hs.Hashes[i] == nil {
				hs.Hashes[i] = []byte{}
			}
		}
		h.EvictedTxs = hs
	}
	n := g.r.Intn(4)
	for i := 0; i < n; i++ {
		h.Transactions = append(h.Transactions, &pb.TransactionHash{Hash: g.hashBytes(), SubHash: g.hashBytes()})
	}
	return h
}

func (g *gen) pbGhdr(mask int) *pb.GroupHeader {
	h := &pb.GroupHeader{Hash: g.hashBytes(), Parent: g.bytesField(), PreGroup: g.bytesField(), CreateBlockHash: g.bytesField(),
		BeginTime: g.timeBytes(), MemberRoot: g.hashBytes()}
	if mask&1 == 0 {
		h.CreateHeight = proto.Uint64(g.u64())
	}
	if mask&2 == 0 {
		h.Extends = proto.String(g.str())
	}
	return h
}

func (g *gen) members() [][]byte {
	n := g.r.Intn(4)
	var m [][]byte
	for i := 0; i < n; i++ {
		b := g.bytesField()
		if b == nil {
			b = []byte{}
		}
		m = append(m, b)
	}
	return m
}

func (g *gen) pbGroup(mask int) *pb.Group {
	p := &pb.Group{Id: g.bytesField(), PubKey: g.bytesField(), Signature: g.bytesField(), Members: g.members()}
	if mask&4 == 0 {
		p.Header = g.pbGhdr(mask)
	}
	if mask&8 == 0 {
		p.GroupHeight = proto.Uint64(g.u64())
	}
	return p
}

// ---- node values

func (g *gen) hash() common.Hash {
	var h common.Hash
	switch g.r.Intn(5) {
	case 0:
		return h
	case 1:
		copy(h[:], g.r.Bytes(32))
		h[0] = 0
		return h
	}
	copy(h[:], g.r.Bytes(32))
	return h
}

func (g *gen) goBytes() []byte {
	switch g.r.Intn(5) {
	case 0:
		return nil
	case 1:
		return []byte{}
	}
	return g.r.Bytes(1 + g.r.Intn(40))
}

func (g *gen) tx() *types.Transaction {
	t := &types.Transaction{Source: g.str(), Target: g.str(), Type: g.i32(), Time: g.str(), Data: g.str(), ExtraData: g.str(),
		ExtraDataType: g.i32(), SubTransactions: g.userData(), SubHash: g.hash(), Hash: g.hash(), Nonce: g.u64(), RequestId: g.u64(), ChainId: g.str()}
	if g.r.Intn(4) > 0 {
		t.Sign = common.BytesToSign(g.r.Bytes(65))
		if g.r.Intn(3) > 0 {
			t.Sign = g.structuredSign()
		}
	}
	if g.r.Intn(4) == 0 {
		t.SocketRequestId = g.str()
	}
	return t
}

func (g *gen) prove(any bool) *big.Int {
	switch g.r.Intn(5) {
	case 0:
		return nil
	case 1:
		return big.NewInt(0)
	case 2:
		b := g.r.Bytes(32)
		b[0] = 0 // a VRF output with a leading zero byte
		return new(big.Int).SetBytes(b)
	}
	z := new(big.Int).SetBytes(g.r.Bytes(1 + g.r.Intn(33)))
	if any && g.r.Intn(3) == 0 {
		z.Neg(z)
	}
	return z
}

// node = true: as the node's own constructors build headers (non-nil hash lists, non-negative prove value,
// times whose zone offset survives Go's binary time form); false: any in-memory value
func (g *gen) header(node bool) *types.BlockHeader {
	h := &types.BlockHeader{Hash: g.hash(), Height: g.u64(), PreHash: g.hash(), ProveValue: g.prove(!node), TotalQN: g.u64(),
		Castor: g.goBytes(), GroupId: g.goBytes(), Signature: g.goBytes(), Nonce: g.u64(), RequestIds: g.reqMap(), TxTree: g.hash(),
		ReceiptTree: g.hash(), StateTree: g.hash(), ExtraData: g.goBytes(), Random: g.goBytes()}
	if node {
		h.PreTime, h.CurTime = g.nodeTime(), g.nodeTime()
	} else {
		h.PreTime, h.CurTime = g.anyTime(), g.anyTime()
	}
	if node || g.r.Intn(3) > 0 {
		h.Transactions = make([]common.Hashes, 0)
		h.EvictedTxs = make([]common.Hash, 0)
	}
	n := g.r.Intn(4)
	for i := 0; i < n; i++ {
		h.Transactions = append(h.Transactions, common.Hashes{g.hash(), g.hash()})
	}
	n = g.r.Intn(3)
	for i := 0; i < n; i++ {
		h.EvictedTxs = append(h.EvictedTxs, g.hash())
	}
	return h
}

func (g *gen) group(node bool) *types.Group {
	gh := &types.GroupHeader{Hash: g.hash(), Parent: g.goBytes(), PreGroup: g.goBytes(), CreateBlockHash: g.goBytes(), MemberRoot: g.hash(),
		CreateHeight: g.u64(), Extends: g.str()}
	if node {
		gh.BeginTime = g.nodeTime()
	} else {
		gh.BeginTime = g.anyTime()
		gh.WorkHeight, gh.DismissHeight, gh.ReadyHeight = g.u64(), g.u64(), g.u64()
	}
	return &types.Group{Header: gh, Id: g.goBytes(), PubKey: g.goBytes(), Signature: g.goBytes(), Members: g.members(), GroupHeight: g.u64()}
}

// ---------------------------------------------------------------- wire mutation

func mutate(r *hx.Rng, b []byte) []byte {
	c := append([]byte{}, b...)
	switch r.Intn(9) {
	case 0:
		if len(c) > 0 {
			c = c[:r.Intn(len(c))]
		}
	case 1:
		if len(c) > 0 {
			c[r.Intn(len(c))] ^= 1 << uint(r.Intn(8))
		}
	case 2:
		if len(c) > 0 {
			c[r.Intn(len(c))] = byte(r.U64())
		}
	case 3: // drop one top-level field
		c = dropField(r, c)
	case 4: // duplicate one top-level field (last one wins / repeated grows / messages merge)
		fs := splitFields(c)
		if len(fs) > 0 {
			f := fs[r.Intn(len(fs))]
			c = append(c, f...)
		}
	case 5:
		c = append(c, r.Bytes(1+r.Intn(4))...)
	case 6: // unknown field
		c = append(c, 0xf8, 0x07, byte(r.Intn(128)))
	case 7:
		for i := 0; i < 2; i++ {
			c = dropField(r, c)
		}
	case 8:
		if len(c) > 2 {
			i := r.Intn(len(c) - 1)
			c = append(c[:i], c[i+1:]...)
		}
	}
	return c
}

// top-level fields of a well-formed message (best effort; returns nil on malformed input)
func splitFields(b []byte) [][]byte {
	var fs [][]byte
	for len(b) > 0 {
		tag, n := proto.DecodeVarint(b)
		if n == 0 {
			return fs
		}
		l := n
		switch tag & 7 {
		case 0:
			_, m := proto.DecodeVarint(b[n:])
			if m == 0 {
				return fs
			}
			l += m
		case 2:
			ln, m := proto.DecodeVarint(b[n:])
			if m == 0 || uint64(len(b)-n-m) < ln {
				return fs
			}
			l += m + int(ln)
		case 1:
			l += 8
		case 5:
			l += 4
		default:
			return fs
		}
		if l > len(b) {
			return fs
		}
		fs = append(fs, b[:l])
		b = b[l:]
	}
	return fs
}

func dropField(r *hx.Rng, b []byte) []byte {
	fs := splitFields(b)
	if len(fs) == 0 {
		return b
	}
	k := r.Intn(len(fs))
	var c []byte
	for i, f := range fs {
		if i != k {
			c = append(c, f...)
		}
	}
	return c
}

// ---------------------------------------------------------------- purity of the codec calls

type heldBytes struct {
	kind     string
	b, copy  []byte
	value    string
	hash     string
	reported bool
}

func (x *H) purity(rounds int) {
	if rounds < 4 {
		rounds = 4
	}
	g := x.g
	var held []*heldBytes
	hold := func(kind string, b []byte, err error, value, hash string) {
		if err == nil && len(b) > 0 {
			held = append(held, &heldBytes{kind: kind, b: b, copy: append([]byte{}, b...), value: value, hash: hash})
		}
	}
	recheck := func(after string) {
		for _, h := range held {
			x.res.Count("pure:held-"+h.kind, "p"+h.kind+hexs(h.copy), true)
			if h.reported {
				continue
			}
			what := ""
			if !bytes.Equal(h.b, h.copy) {
				what = "the bytes " + h.kind + " returned were overwritten in place by a later codec call (" + after + ")"
			} else {
				// the held bytes must still parse to the same object
				switch h.kind {
				case "MarshalBlockHeader":
					var v *types.BlockHeader
					pan, _ := guard(func() { v, _ = types.UnMarshalBlockHeader(h.b) })
					if pan || v == nil || v.GenHash().Hex() != h.hash || cHdr(v) != h.value {
						what = "the held header bytes no longer parse to the header that was serialised (" + after + ")"
					}
				case "MarshalTransaction":
					var v types.Transaction
					var err error
					pan, _ := guard(func() { v, err = types.UnMarshalTransaction(h.b) })
					if pan || err != nil || v.GenHash().Hex() != h.hash {
						what = "the held transaction bytes no longer parse to the transaction that was serialised (" + after + ")"
					}
				}
			}
			if what != "" {
				h.reported = true
				x.res.Violate("C09/pure:marshal-result-mutated-by-later-call", what,
					map[string]interface{}{"kind": h.kind, "value": h.value, "bytes_at_return": hexs(h.copy), "bytes_now": hexs(h.b), "after": after})
			}
		}
	}
	for r := 0; r < rounds; r++ {
		// the order core.insertBlock uses: header bytes held across one MarshalTransaction per executed transaction
		h := g.header(true)
		b, err := types.MarshalBlockHeader(h)
		hold("MarshalBlockHeader", b, err, cHdr(h), h.GenHash().Hex())
		var txs []*types.Transaction
		for j := 0; j < 3; j++ {
			t := g.tx()
			nt := normTx(*t)
			txs = append(txs, t)
			b, err = types.MarshalTransaction(t)
			hold("MarshalTransaction", b, err, cTx(&nt), t.GenHash().Hex())
		}
		recheck("MarshalTransaction calls on the same goroutine")
		blk := &types.Block{Header: g.header(true), Transactions: txs}
		b, err = types.MarshalBlock(blk)
		hold("MarshalBlock", b, err, cHdr(blk.Header), "")
		gr := g.group(true)
		b, err = types.MarshalGroup(gr)
		hold("MarshalGroup", b, err, cGroup(gr), "")
		b, err = types.MarshalTransactions(txs)
		hold("MarshalTransactions", b, err, "", "")
		b, err = types.MarshalMember(&types.Member{Id: g.r.Bytes(8), PubKey: g.r.Bytes(16)})
		hold("MarshalMember", b, err, "", "")
		h2 := g.header(true)
		b, err = types.MarshalBlockHeader(h2)
		hold("MarshalBlockHeader", b, err, cHdr(h2), h2.GenHash().Hex())
		recheck("Marshal* calls of other objects on the same goroutine")
		// parsers in between
		for _, hb := range held {
			c := append([]byte{}, hb.copy...)
			guard(func() { types.UnMarshalBlock(c); types.UnMarshalGroup(c); types.UnMarshalTransaction(c) })
		}
		recheck("UnMarshal* calls on the same goroutine")
		// other goroutines serialise while the results are held (values prepared here: one PRNG)
		var work [][]*types.Block
		for k := 0; k < 4; k++ {
			var l []*types.Block
			for j := 0; j < 6; j++ {
				l = append(l, &types.Block{Header: g.header(true), Transactions: []*types.Transaction{g.tx(), g.tx()}})
			}
			work = append(work, l)
		}
		var wg sync.WaitGroup
		for k := range work {
			wg.Add(1)
			go func(l []*types.Block) {
				defer wg.Done()
				for _, bl := range l {
					guard(func() {
						types.MarshalBlock(bl)
						types.MarshalBlockHeader(bl.Header)
						for _, t := range bl.Transactions {
							types.MarshalTransaction(t)
						}
					})
				}
			}(work[k])
		}
		wg.Wait()
		recheck("Marshal* calls on other goroutines")
		if len(held) > 40 {
			held = held[len(held)-20:]
		}
	}

	// parsed objects must not alias the input: scribble over the input after parsing
	scribble := func(b []byte) {
		for i := range b {
			b[i] ^= 0xa5
		}
	}
	alias := func(kind string, src []byte, before, after string) {
		x.res.Count("pure:input-"+kind, "a"+kind+hexs(src), true)
		if before != after {
			x.res.Violate("C09/pure:parsed-object-aliases-input", "the object "+kind+" returned changed when the caller reused the input buffer",
				map[string]interface{}{"kind": kind, "bytes": hexs(src), "before": before, "after": after})
		}
	}
	for r := 0; r < rounds; r++ {
		hv := g.header(true)
		if src, err := types.MarshalBlockHeader(hv); err == nil && len(src) > 0 {
			in := append([]byte{}, src...)
			v, _ := types.UnMarshalBlockHeader(in)
			if v != nil {
				d1 := cHdr(v) + v.GenHash().Hex()
				scribble(in)
				alias("UnMarshalBlockHeader", src, d1, cHdr(v)+v.GenHash().Hex())
			}
		}
		tv := g.tx()
		if src, err := types.MarshalTransaction(tv); err == nil {
			in := append([]byte{}, src...)
			v, e := types.UnMarshalTransaction(in)
			if e == nil {
				d1 := cTx(&v) + v.GenHash().Hex()
				scribble(in)
				alias("UnMarshalTransaction", src, d1, cTx(&v)+v.GenHash().Hex())
			}
		}
		gv := g.group(true)
		if src, err := types.MarshalGroup(gv); err == nil {
			in := append([]byte{}, src...)
			v, e := types.UnMarshalGroup(in)
			if e == nil && v != nil && v.Header != nil {
				d1 := cGroup(v)
				scribble(in)
				alias("UnMarshalGroup", src, d1, cGroup(v))
			}
		}
		bl := &types.Block{Header: g.header(true), Transactions: []*types.Transaction{g.tx()}}
		if src, err := types.MarshalBlock(bl); err == nil && len(src) > 0 {
			in := append([]byte{}, src...)
			v, e := types.UnMarshalBlock(in)
			if e == nil && v != nil && v.Header != nil && len(v.Transactions) == 1 {
				d1 := cHdr(v.Header) + cTx(v.Transactions[0])
				scribble(in)
				alias("UnMarshalBlock", src, d1, cHdr(v.Header)+cTx(v.Transactions[0]))
			}
		}
	}
}

// ---------------------------------------------------------------- capacity boundaries and cached headers

// integer constant [name] of a Go source file of the tree under test (the producers' limits are read from the code)
func srcConst(root, rel, name string, dflt int) (int, bool) {
	f, err := parser.ParseFile(token.NewFileSet(), filepath.Join(root, rel), nil, 0)
	if err != nil {
		return dflt, false
	}
	found, val := false, dflt
	ast.Inspect(f, func(n ast.Node) bool {
		vs, ok := n.(*ast.ValueSpec)
		if !ok {
			return true
		}
		for i, id := range vs.Names {
			if id.Name == name && i < len(vs.Values) {
				if lit, ok := vs.Values[i].(*ast.BasicLit); ok {
					if v, e := strconv.Atoi(lit.Value); e == nil {
						found, val = true, v
					}
				}
			}
		}
		return true
	})
	return val, found
}

func (x *H) capacity(root string) {
	g := x.g
	limit, ok := srcConst(root, "src/service/transaction_pool.go", "txCountPerBlock", 200)
	gmax, ok2 := srcConst(root, "src/consensus/model/param.go", "GROUP_MAX_MEMBERS", 10)
	gmin, ok3 := srcConst(root, "src/consensus/model/param.go", "GROUP_MIN_MEMBERS", 5)
	x.res.Note(fmt.Sprintf("capacity limits read from the source: txCountPerBlock=%d (%v) GROUP_MAX_MEMBERS=%d (%v) GROUP_MIN_MEMBERS=%d (%v)", limit, ok, gmax, ok2, gmin, ok3))
	smallTx := func(i int) *types.Transaction {
		t := &types.Transaction{Source: "0x01", Target: "0x02", Type: 1, Nonce: uint64(i), Time: "t", ChainId: "9500"}
		t.Hash = t.GenHash()
		return t
	}
	for _, k := range []int{0, 1, limit - 1, limit, limit + 1, 2 * limit, 5 * limit} {
		if k < 0 {
			continue
		}
		h := g.header(true)
		blk := &types.Block{Header: h, Transactions: []*types.Transaction{}}
		h.Transactions = make([]common.Hashes, 0)
		h.EvictedTxs = make([]common.Hash, 0)
		for i := 0; i < k; i++ {
			t := smallTx(i)
			blk.Transactions = append(blk.Transactions, t)
			h.Transactions = append(h.Transactions, common.Hashes{t.Hash, t.SubHash})
			if i%2 == 0 {
				h.EvictedTxs = append(h.EvictedTxs, t.Hash)
			}
		}
		h.Hash = h.GenHash()
		id := fmt.Sprintf("cap-block-%d", k)
		x.res.Count("capacity:block", id, true)
		why := ""
		b, err := types.MarshalBlock(blk)
		if err != nil || len(b) == 0 {
			why = fmt.Sprintf("MarshalBlock fails (%v)", err)
		} else {
			var v *types.Block
			pan, msg := guard(func() { v, err = types.UnMarshalBlock(append([]byte{}, b...)) })
			switch {
			case pan:
				why = "UnMarshalBlock panics: " + msg
			case err != nil:
				why = "the node's own block does not parse back: " + err.Error()
			case v == nil || v.Header == nil || len(v.Transactions) != k:
				why = "parsed block has a different number of transactions"
			case cHdr(v.Header) != cHdr(h) || v.Header.GenHash() != h.Hash:
				why = "header content / GenHash changed"
			default:
				for i := range v.Transactions {
					if cTx(v.Transactions[i]) != cTx(blk.Transactions[i]) {
						why = fmt.Sprintf("transaction %d changed", i)
						break
					}
				}
			}
		}
		if why == "" { // the header alone, with as many transaction / evicted hashes
			hb, err := types.MarshalBlockHeader(h)
			var hv *types.BlockHeader
			pan, _ := guard(func() { hv, err = types.UnMarshalBlockHeader(hb) })
			if pan || err != nil || hv == nil || cHdr(hv) != cHdr(h) || hv.GenHash() != h.Hash {
				why = "header with this many transaction hashes does not survive MarshalBlockHeader/UnMarshalBlockHeader"
			}
			var tl []*types.Transaction
			tb, err := types.MarshalTransactions(blk.Transactions)
			pan, _ = guard(func() { tl, err = types.UnMarshalTransactions(tb) })
			if why == "" && (pan || err != nil || len(tl) != k) {
				why = "transaction list of this length does not survive MarshalTransactions/UnMarshalTransactions"
			}
		}
		if why != "" {
			x.res.Violate("C09/roundtrip:block:capacity", fmt.Sprintf("block with %d transactions (pool limit txCountPerBlock = %d): %s", k, limit, why),
				map[string]interface{}{"transactions": k, "txCountPerBlock": limit, "bytes_len": len(b), "bytes_prefix": hexs(b[:minInt(len(b), 200)]), "how": "header = gen.header(true); transactions i=0..k-1: Transaction{Source 0x01, Target 0x02, Type 1, Nonce i, Time t, ChainId 9500}"})
		}
	}
	for _, k := range []int{0, 1, gmin - 1, gmin, gmax - 1, gmax, gmax + 1, 2 * gmax, 2*gmax + 1, 100, 1000} {
		if k < 0 {
			continue
		}
		gr := g.group(true)
		gr.Members = nil
		for i := 0; i < k; i++ {
			gr.Members = append(gr.Members, g.r.Bytes(32))
		}
		x.res.Count("capacity:group", fmt.Sprintf("cap-group-%d", k), true)
		b, err := types.MarshalGroup(gr)
		var v *types.Group
		pan, msg := guard(func() { v, err = types.UnMarshalGroup(b) })
		if pan || err != nil || v == nil || v.Header == nil || cGroup(normGrp(v)) != cGroup(normGrp(gr)) || v.Header.GenHash() != gr.Header.GenHash() {
			x.res.Violate("C09/roundtrip:group:capacity", fmt.Sprintf("group with %d members does not survive MarshalGroup/UnMarshalGroup (%v %s %v)", k, pan, msg, err),
				map[string]interface{}{"members": k, "bytes_len": len(b)})
		}
	}
}

func minInt(a, b int) int {
	if a < b {
		return a
	}
	return b
}

// header objects that were stored and are held by a cache must keep their bytes and hash while the chain goes on:
// the request-id bookkeeping of CastBlock (core.getRequestIdFromTransactions, reached through the verif hook) is run on
// the cached header's own map, as CastBlock does with chain.latestBlock.RequestIds
func (x *H) relay(rounds int) {
	g := x.g
	for r := 0; r < rounds; r++ {
		hN := g.header(true)
		fixed := uint64(g.r.Intn(1000))
		switch r % 4 {
		case 0:
			hN.RequestIds = map[string]uint64{"fixed": fixed}
		case 1:
			hN.RequestIds = map[string]uint64{"fixed": fixed, "0xaa": 7}
		case 2:
			hN.RequestIds = map[string]uint64{}
		case 3:
			hN.RequestIds = nil
		}
		hN.Hash = hN.GenHash()
		stored, err := types.MarshalBlockHeader(hN) // what insertBlock writes to the store
		if err != nil || len(stored) == 0 {
			continue
		}
		stored = append([]byte{}, stored...)
		before := cHdr(hN)
		// the proposer prepares block N+1 on top of the cached header N
		var txs []*types.Transaction
		for j := 0; j < 1+g.r.Intn(3); j++ {
			t := g.tx()
			switch g.r.Intn(3) {
			case 0:
				t.RequestId = 0
			case 1:
				t.RequestId = fixed + 1 + uint64(g.r.Intn(50)) // a client request with a larger id
			default:
				t.RequestId = uint64(g.r.Intn(int(fixed) + 1))
			}
			txs = append(txs, t)
		}
		var next map[string]uint64
		pan, msg := guard(func() { next = core.VerifC09RequestIds(txs, hN.RequestIds) })
		hN1 := g.header(true)
		hN1.RequestIds = next
		hN1.PreHash = hN.Hash
		guard(func() { types.MarshalBlockHeader(hN1); hN1.GenHash() })
		// header N is now served from the cache (chain piece / QueryBlockHeaderByHeight(h, true))
		relayed, _ := types.MarshalBlockHeader(hN)
		x.res.Count("relay:cached-header", "r"+before, true)
		if pan || !bytes.Equal(relayed, stored) || hN.GenHash() != hN.Hash || cHdr(hN) != before {
			x.res.Violate("C09/relay:cached-header-mutated", "preparing the next block changed the cached header it builds on: header N relayed from the cache differs from its stored bytes (GenHash "+hN.GenHash().Hex()+" vs Hash "+hN.Hash.Hex()+") "+msg,
				map[string]interface{}{"header_before": before, "header_after": cHdr(hN), "stored": hexs(stored), "relayed": hexs(relayed), "next_request_ids": string(reqJSON(next))})
		}
		// and the two headers must not share one map
		if next != nil && hN.RequestIds != nil && len(next) > 0 {
			next["__probe"] = 1
			_, shared := hN.RequestIds["__probe"]
			delete(next, "__probe")
			if shared {
				x.res.Violate("C09/relay:cached-header-mutated", "block N+1 and the cached header N share one RequestIds map", map[string]interface{}{"header": before})
			}
		}
	}
}

// ---------------------------------------------------------------- main

type H struct {
	res *hx.Result
	cs  *hx.Cases
	g   *gen
}

func hexs(b []byte) string { return hex.EncodeToString(b) }

func noNilElems(h *pb.BlockHeader) bool {
	for _, e := range h.Transactions {
		if e == nil {
			return false
		}
	}
	if h.EvictedTxs != nil {
		for _, e := range h.EvictedTxs.Hashes {
			if e == nil {
				return false
			}
		}
	}
	return true
}

// one pb transaction through the real pbToTransaction (via PbToTransactions) and into a model case
func (x *H) caseTx(p *pb.Transaction, origin string, model bool) (*types.Transaction, bool) {
	var out []*types.Transaction
	pan, msg := guard(func() { out = types.PbToTransactions([]*pb.Transaction{p}) })
	wire, _ := proto.Marshal(p)
	id := "tx:" + cPbTx(p)
	if pan {
		x.res.Count("tx:panic", id, true)
		x.res.Violate("C09/total:pbToTransaction", "pbToTransaction panics on a message with absent optional fields: "+msg,
			map[string]interface{}{"origin": origin, "wire": hexs(wire), "pb": p.String()})
	} else {
		x.res.Count("tx:ok", id, true)
	}
	if model {
		tbl := [][2][]byte{}
		if p.SubTransactions != nil {
			tbl = append(tbl, [2][]byte{p.SubTransactions, subOracle(p.SubTransactions)})
		}
		o := "Panic"
		if !pan {
			o = "(Ok " + cTx(out[0]) + ")"
		}
		x.cs.Add("CTx "+cTbl(tbl)+" "+cPbTx(p)+" "+o, map[string]interface{}{"kind": "pbToTransaction", "origin": origin, "wire": hexs(wire), "panic": pan})
	}
	if pan {
		return nil, false
	}
	return out[0], true
}

func (x *H) caseHdr(p *pb.BlockHeader, origin string, model bool) (*types.BlockHeader, bool) {
	var out *types.BlockHeader
	pan, msg := guard(func() { out = types.PbToBlockHeader(p) })
	wire, _ := proto.Marshal(p)
	id := "hdr:" + cPbHdr(p)
	switch {
	case pan:
		x.res.Count("hdr:panic", id, true)
		x.res.Violate("C09/total:PbToBlockHeader", "PbToBlockHeader panics on a message with absent optional fields: "+msg,
			map[string]interface{}{"origin": origin, "wire": hexs(wire), "pb": p.String()})
	case out == nil:
		x.res.Count("hdr:nil(time error)", id, true)
	default:
		x.res.Count("hdr:ok", id, true)
	}
	if model && noNilElems(p) {
		tbl := [][2][]byte{}
		if p.RequestIds != nil {
			tbl = append(tbl, [2][]byte{p.RequestIds, reqOracle(p.RequestIds)})
		}
		o := "Panic"
		if !pan {
			o = "(Ok " + cOHdr(out) + ")"
		}
		x.cs.Add("CHdr "+cTbl(tbl)+" "+cPbHdr(p)+" "+o, map[string]interface{}{"kind": "PbToBlockHeader", "origin": origin, "wire": hexs(wire), "panic": pan})
	}
	return out, !pan
}

func (x *H) caseGrp(p *pb.Group, origin string, model bool) (*types.Group, bool) {
	var out *types.Group
	pan, msg := guard(func() { out = types.PbToGroup(p) })
	id := "grp:" + cPbGroup(p)
	if pan {
		x.res.Count("grp:panic", id, true)
		x.res.Violate("C09/total:PbToGroup", "PbToGroup/PbToGroupHeader panics on a message with absent fields: "+msg,
			map[string]interface{}{"origin": origin, "pb": p.String()})
	} else {
		x.res.Count("grp:ok", id, true)
	}
	if model {
		o := "Panic"
		if !pan {
			o = "(Ok " + cGroup(out) + ")"
		}
		x.cs.Add("CGrp "+cPbGroup(p)+" "+o, map[string]interface{}{"kind": "PbToGroup", "origin": origin, "pb": p.String(), "panic": pan})
	}
	return out, !pan
}

func (x *H) caseBlk(p *pb.Block, origin string) {
	var out *types.Block
	pan, msg := guard(func() { out = types.PbToBlock(p) })
	if p.Header != nil && !noNilElems(p.Header) {
		return
	}
	id := "blk:" + p.String()
	if pan {
		x.res.Count("blk:panic", id, true)
		x.res.Violate("C09/total:PbToBlock", "PbToBlock panics: "+msg, map[string]interface{}{"origin": origin, "pb": p.String()})
	} else {
		x.res.Count("blk:ok", id, true)
	}
	tbl := [][2][]byte{}
	if p.Header != nil && p.Header.RequestIds != nil {
		tbl = append(tbl, [2][]byte{p.Header.RequestIds, reqOracle(p.Header.RequestIds)})
	}
	txs := []string{}
	for _, t := range p.Transactions {
		if t.SubTransactions != nil {
			// one table serves both decoders: keep the inputs apart
			if p.Header != nil && bytes.Equal(t.SubTransactions, p.Header.RequestIds) && !bytes.Equal(subOracle(t.SubTransactions), reqOracle(t.SubTransactions)) {
				return
			}
			tbl = append(tbl, [2][]byte{t.SubTransactions, subOracle(t.SubTransactions)})
		}
		txs = append(txs, cPbTx(t))
	}
	hd := "None"
	if p.Header != nil {
		hd = "(Some " + cPbHdr(p.Header) + ")"
	}
	o := "Panic"
	if !pan {
		l := []string{}
		for _, t := range out.Transactions {
			l = append(l, cTx(t))
		}
		o = "(Ok (mk_block bytes bytes " + cOHdr(out.Header) + " (Some " + hx.CoqList(l) + ")))"
	}
	x.cs.Add("CBlk "+cTbl(tbl)+" (mk_pb_block "+hd+" "+hx.CoqList(txs)+") "+o, map[string]interface{}{"kind": "PbToBlock", "origin": origin, "pb": p.String(), "panic": pan})
}

// a parser that returns err == nil must hand back an object its consumers can use: required sub-objects present,
// serialising it again and computing its hashes must not panic (core and consensus do exactly that, without recover)
func (x *H) usable(kind string, b []byte, origin string, tv *types.Transaction, tl []*types.Transaction, hv *types.BlockHeader, isHdr bool, bv *types.Block, isBlk bool, gv *types.Group, isGrp bool) {
	bad := ""
	chk := func(what string, f func()) {
		if bad != "" {
			return
		}
		if pan, msg := guard(f); pan {
			bad = what + " panics: " + msg
		}
	}
	switch {
	case tv != nil:
		chk("MarshalTransaction of the parsed transaction", func() { types.MarshalTransaction(tv) })
		chk("Transaction.GenHash", func() { tv.GenHash(); tv.GenHashes() })
	case tl != nil:
		for _, t := range tl {
			if t == nil {
				bad = "a nil transaction in the parsed list"
			}
		}
		chk("MarshalTransactions of the parsed list", func() { types.MarshalTransactions(tl) })
	case isHdr:
		if hv == nil {
			bad = "nil header and nil error"
		}
		chk("MarshalBlockHeader of the parsed header", func() { types.MarshalBlockHeader(hv) })
		chk("BlockHeader.GenHash", func() { hv.GenHash(); hv.ToString() })
	case isBlk:
		if bv == nil || bv.Header == nil {
			bad = "block without header and nil error"
		} else {
			for _, t := range bv.Transactions {
				if t == nil {
					bad = "nil transaction in the parsed block"
				}
			}
		}
		chk("MarshalBlock of the parsed block", func() { types.MarshalBlock(bv) })
		chk("block.Header.GenHash", func() { bv.Header.GenHash() })
	case isGrp:
		if gv == nil || gv.Header == nil {
			bad = "group without header and nil error"
		}
		chk("MarshalGroup of the parsed group", func() { types.MarshalGroup(gv) })
		chk("group.Header.GenHash", func() { gv.Header.GenHash() })
	default:
		return
	}
	x.res.Count("usable:"+kind, "u"+kind+hexs(b), true)
	if bad != "" {
		x.res.Violate("C09/total:parsed-object-unusable:"+kind, kind+" returned err == nil for "+hexs(b)+" but the result cannot be used: "+bad,
			map[string]interface{}{"origin": origin, "bytes": hexs(b), "defect": bad})
	}
}

// parse bytes with one of the UnMarshal* entry points under recover; class = ok / err / panic
func (x *H) wire(kind string, b []byte, origin string) {
	var err error
	var pan bool
	var msg string
	var hv *types.BlockHeader
	var tv *types.Transaction
	var gv *types.Group
	var bv *types.Block
	var tl []*types.Transaction
	switch kind {
	case "UnMarshalTransaction":
		pan, msg = guard(func() {
			t, e := types.UnMarshalTransaction(b)
			err = e
			if e == nil {
				tv = &t
			}
		})
	case "UnMarshalTransactions":
		pan, msg = guard(func() { tl, err = types.UnMarshalTransactions(b) })
	case "UnMarshalBlockHeader":
		pan, msg = guard(func() { hv, err = types.UnMarshalBlockHeader(b) })
	case "UnMarshalBlock":
		pan, msg = guard(func() { bv, err = types.UnMarshalBlock(b) })
	case "UnMarshalGroup":
		pan, msg = guard(func() { gv, err = types.UnMarshalGroup(b) })
	case "UnMarshalMember":
		pan, msg = guard(func() { _, err = types.UnMarshalMember(b) })
	}
	id := kind + ":" + hexs(b)
	switch {
	case pan:
		x.res.Count("wire:"+kind+":panic", id, true)
		x.res.Violate("C09/total:"+kind, kind+" panics on "+hexs(b)+": "+msg, map[string]interface{}{"origin": origin, "bytes": hexs(b)})
	case err != nil:
		x.res.Count("wire:"+kind+":error", id, true)
	default:
		x.res.Count("wire:"+kind+":ok", id, true)
	}
	if pan || err != nil {
		return
	}
	x.usable(kind, b, origin, tv, tl, hv, kind == "UnMarshalBlockHeader", bv, kind == "UnMarshalBlock", gv, kind == "UnMarshalGroup")
	// fixed point of values obtained by parsing
	switch {
	case tv != nil:
		x.fixedTx(tv, "parsed:"+origin, b)
	case hv != nil:
		x.fixedHdr(hv, "parsed:"+origin, b)
	case gv != nil && gv.Header != nil:
		x.fixedGrp(gv, "parsed:"+origin, b)
	case bv != nil && bv.Header != nil:
		x.fixedHdr(bv.Header, "parsed-block:"+origin, b)
	}
}

func normTx(t types.Transaction) types.Transaction { t.SocketRequestId = ""; return t }

func (x *H) fixedTx(v *types.Transaction, origin string, src []byte) {
	b1, e1 := types.MarshalTransaction(v)
	if e1 != nil {
		x.res.Count("fixed:tx:marshal-error", "f"+cTx(v), false)
		return
	}
	var v1 types.Transaction
	pan, msg := guard(func() { v1, e1 = types.UnMarshalTransaction(b1) })
	if pan || e1 != nil {
		x.res.Violate("C09/fixed-point:tx:reparse", fmt.Sprintf("own encoding does not parse (%v %s %v)", pan, msg, e1), map[string]interface{}{"origin": origin, "src": hexs(src), "bytes": hexs(b1)})
		return
	}
	nv := normTx(*v)
	x.res.Count("fixed:tx", "f"+cTx(v), true)
	if d := signDiff(v.Sign, v1.Sign); d != "" {
		x.res.Violate("C09/fixed-point:tx:sign", "the signature of a parsed transaction changes under serialise/parse: "+d, map[string]interface{}{"origin": origin, "src": hexs(src), "before": cTx(&nv), "after": cTx(&v1)})
	} else if cTx(&nv) != cTx(&v1) || v.GenHash() != v1.GenHash() {
		x.res.Violate("C09/fixed-point:tx", "a parsed transaction changes under serialise/parse", map[string]interface{}{"origin": origin, "src": hexs(src), "before": cTx(&nv), "after": cTx(&v1)})
	}
}

func negSecOffset(t time.Time) bool {
	if t.Location() == time.UTC {
		return false
	}
	_, o := t.Zone()
	return o%60 < 0
}

func (x *H) fixedHdr(v *types.BlockHeader, origin string, src []byte) {
	b1, e1 := types.MarshalBlockHeader(v)
	if e1 != nil || len(b1) == 0 {
		// BlockHeaderToPb returned nil: a time with a zone offset outside the binary form
		x.res.Count("fixed:hdr:unmarshalable-zone", "f"+cHdr(v), false)
		return
	}
	var v1 *types.BlockHeader
	pan, msg := guard(func() { v1, e1 = types.UnMarshalBlockHeader(b1) })
	if pan || e1 != nil || v1 == nil {
		x.res.Violate("C09/fixed-point:header:reparse", fmt.Sprintf("own encoding does not parse (%v %s %v)", pan, msg, e1), map[string]interface{}{"origin": origin, "src": hexs(src), "bytes": hexs(b1)})
		return
	}
	x.res.Count("fixed:hdr", "f"+cHdr(v), true)
	if cHdr(v) != cHdr(v1) || v.GenHash() != v1.GenHash() {
		key := "C09/fixed-point:header"
		if negSecOffset(v.PreTime) || negSecOffset(v.CurTime) {
			key = "C09/fixed-point:header:time-negative-second-offset"
		}
		x.res.Violate(key, "a parsed header changes under serialise/parse (GenHash "+v.GenHash().Hex()+" -> "+v1.GenHash().Hex()+")",
			map[string]interface{}{"origin": origin, "src": hexs(src), "before": cHdr(v), "after": cHdr(v1)})
	}
}

func normGrp(g *types.Group) *types.Group {
	c := *g
	h := *g.Header
	h.ReadyHeight, h.WorkHeight, h.DismissHeight = 0, 0, 0
	c.Header = &h
	if len(c.Members) == 0 {
		c.Members = nil
	}
	return &c
}

func (x *H) fixedGrp(v *types.Group, origin string, src []byte) {
	b1, e1 := types.MarshalGroup(v)
	if e1 != nil {
		x.res.Count("fixed:grp:marshal-error", "f"+cGroup(v), false)
		return
	}
	var v1 *types.Group
	pan, msg := guard(func() { v1, e1 = types.UnMarshalGroup(b1) })
	if pan || e1 != nil {
		x.res.Violate("C09/fixed-point:group:reparse", fmt.Sprintf("own encoding does not parse (%v %s %v)", pan, msg, e1), map[string]interface{}{"origin": origin, "src": hexs(src), "bytes": hexs(b1)})
		return
	}
	x.res.Count("fixed:grp", "f"+cGroup(v), true)
	if cGroup(normGrp(v)) != cGroup(normGrp(v1)) || v.Header.GenHash() != v1.Header.GenHash() {
		key := "C09/fixed-point:group"
		if negSecOffset(v.Header.BeginTime) {
			key = "C09/fixed-point:group:time-negative-second-offset"
		}
		x.res.Violate(key, "a parsed group changes under serialise/parse", map[string]interface{}{"origin": origin, "src": hexs(src), "before": cGroup(v), "after": cGroup(v1)})
	}
}

// ---------------------------------------------------------------- wire layer (proto.Unmarshal / proto.Marshal) vs model

var kindNames = []string{"Transaction", "TransactionSlice", "BlockHeader", "Block", "Group"}

func wireErrCode(err error) int {
	if err == nil {
		return 0
	}
	if err == io.ErrUnexpectedEOF {
		return 1
	}
	if _, ok := err.(*proto.RequiredNotSetError); ok {
		return 3
	}
	if strings.Contains(err.Error(), "can't skip unknown wire type") {
		return 2
	}
	if strings.Contains(err.Error(), "illegal tag 0") {
		return 4
	}
	return 8
}

func cPbTxs(l []*pb.Transaction) string {
	ts := []string{}
	for _, t := range l {
		ts = append(ts, cPbTx(t))
	}
	return hx.CoqList(ts)
}

func cPbBlock(p *pb.Block) string {
	hd := "None"
	if p.Header != nil {
		hd = "(Some " + cPbHdr(p.Header) + ")"
	}
	return "(mk_pb_block " + hd + " " + cPbTxs(p.Transactions) + ")"
}

// proto.Unmarshal of b into the pb type of [kind]; returns the Coq observation term, the error code and the message
func wireObserve(kind int, b []byte) (string, int, proto.Message) {
	var m proto.Message
	switch kind {
	case 0:
		m = new(pb.Transaction)
	case 1:
		m = new(pb.TransactionSlice)
	case 2:
		m = new(pb.BlockHeader)
	case 3:
		m = new(pb.Block)
	case 4:
		m = new(pb.Group)
	}
	code := wireErrCode(proto.Unmarshal(b, m))
	if code != 0 {
		return fmt.Sprintf("(WE %d%%N %d%%N)", kind, code), code, m
	}
	switch v := m.(type) {
	case *pb.Transaction:
		return "(WTx " + cPbTx(v) + ")", 0, m
	case *pb.TransactionSlice:
		return "(WTxs " + cPbTxs(v.Transactions) + ")", 0, m
	case *pb.BlockHeader:
		return "(WHdr " + cPbHdr(v) + ")", 0, m
	case *pb.Block:
		return "(WBlk " + cPbBlock(v) + ")", 0, m
	case *pb.Group:
		return "(WGrp " + cPbGroup(v) + ")", 0, m
	}
	return "", 8, m
}

var wireClass = []string{"ok", "unexpected-EOF", "unknown-wire-type", "required-not-set", "illegal-tag-0", "", "", "", "other-error"}

// one byte string through the real wire decoder and into a model case; e2e also through types.UnMarshalX
func (x *H) wireCase(kind int, b []byte, origin string, e2e bool) {
	if len(b) > 1400 {
		return
	}
	term, code, m := wireObserve(kind, b)
	id := fmt.Sprintf("w%d:%s", kind, hexs(b))
	x.res.Count("pbwire:"+kindNames[kind]+":"+wireClass[code], id, true)
	if code == 8 {
		x.res.Note("unclassified decoder error on " + hexs(b))
	}
	x.cs.Add("CWire "+hx.CoqHex(b)+" "+term, map[string]interface{}{"kind": "proto.Unmarshal " + kindNames[kind], "origin": origin, "bytes": hexs(b), "class": wireClass[code]})
	if e2e && code == 0 {
		x.wire([]string{"UnMarshalTransaction", "UnMarshalTransactions", "UnMarshalBlockHeader", "UnMarshalBlock", "UnMarshalGroup"}[kind], b, "wire-"+origin)
	}
	if !e2e || kind == 1 {
		return
	}
	tbl := [][2][]byte{}
	addTx := func(t *pb.Transaction) {
		if t != nil && t.SubTransactions != nil {
			tbl = append(tbl, [2][]byte{t.SubTransactions, subOracle(t.SubTransactions)})
		}
	}
	addHdr := func(h *pb.BlockHeader) {
		if h != nil && h.RequestIds != nil {
			tbl = append(tbl, [2][]byte{h.RequestIds, reqOracle(h.RequestIds)})
		}
	}
	o := fmt.Sprintf("(UE %d%%N)", kind)
	var pan bool
	switch v := m.(type) {
	case *pb.Transaction:
		addTx(v)
		var t types.Transaction
		var err error
		pan, _ = guard(func() { t, err = types.UnMarshalTransaction(b) })
		if !pan && err == nil {
			o = "(UTx " + cTx(&t) + ")"
		}
	case *pb.BlockHeader:
		addHdr(v)
		var h *types.BlockHeader
		var err error
		pan, _ = guard(func() { h, err = types.UnMarshalBlockHeader(b) })
		if !pan && err == nil {
			if h == nil {
				o = "UNilHdr"
			} else {
				o = "(UHdr " + cHdr(h) + ")"
			}
		}
	case *pb.Block:
		addHdr(v.Header)
		for _, t := range v.Transactions {
			addTx(t)
			if v.Header != nil && t.SubTransactions != nil && bytes.Equal(t.SubTransactions, v.Header.RequestIds) {
				return
			}
		}
		var bl *types.Block
		var err error
		pan, _ = guard(func() { bl, err = types.UnMarshalBlock(b) })
		if !pan && err == nil {
			l := []string{}
			for _, t := range bl.Transactions {
				l = append(l, cTx(t))
			}
			o = "(UBlk (mk_block bytes bytes " + cOHdr(bl.Header) + " (Some " + hx.CoqList(l) + ")))"
		}
	case *pb.Group:
		var g *types.Group
		var err error
		pan, _ = guard(func() { g, err = types.UnMarshalGroup(b) })
		if !pan && err == nil {
			o = "(UGrp " + cGroup(g) + ")"
		}
	}
	if pan {
		return // reported by the totality search
	}
	x.cs.Add("CUn "+cTbl(tbl)+" "+hx.CoqHex(b)+" "+o, map[string]interface{}{"kind": "types.UnMarshal" + kindNames[kind], "origin": origin, "bytes": hexs(b)})
}

// proto.Marshal of a pb struct vs the model encoder
func (x *H) encCase(m proto.Message) []byte {
	b, err := proto.Marshal(m)
	o := "None"
	if err == nil {
		o = "(Some " + hx.CoqHex(b) + ")"
	} else if _, ok := err.(*proto.RequiredNotSetError); !ok {
		return nil
	}
	var term string
	switch v := m.(type) {
	case *pb.Transaction:
		term = "(WTx " + cPbTx(v) + ")"
	case *pb.TransactionSlice:
		term = "(WTxs " + cPbTxs(v.Transactions) + ")"
	case *pb.BlockHeader:
		if !noNilElems(v) {
			return nil
		}
		term = "(WHdr " + cPbHdr(v) + ")"
	case *pb.Block:
		if v.Header != nil && !noNilElems(v.Header) {
			return nil
		}
		term = "(WBlk " + cPbBlock(v) + ")"
	case *pb.Group:
		term = "(WGrp " + cPbGroup(v) + ")"
	}
	x.res.Count("pbwire:marshal", "e"+term, true)
	x.cs.Add("CEnc "+term+" "+o, map[string]interface{}{"kind": "proto.Marshal", "pb": m.String()})
	if err != nil {
		return nil
	}
	return b
}

func vi(x uint64) []byte { return proto.EncodeVarint(x) }
func cat(bs ...[]byte) []byte {
	var r []byte
	for _, b := range bs {
		r = append(r, b...)
	}
	return r
}
func ld(num uint64, payload []byte) []byte { return cat(vi(num<<3|2), vi(uint64(len(payload))), payload) }

// hand-built hostile inputs: varints at and beyond the limits, lengths beyond the input, groups, wrong and
// unknown wire types, repeated scalars, merged messages, missing required fields at depth
func hostileWire() [][]byte {
	ten := []byte{0xff, 0xff, 0xff, 0xff, 0xff, 0xff, 0xff, 0xff, 0xff}
	utc := []byte{1, 0, 0, 0, 0, 0, 0, 0, 0, 0, 0, 0, 0, 0xff, 0xff}
	hd := cat(ld(4, utc), ld(7, utc))
	l := [][]byte{
		{0x10}, {0x10, 0x80}, cat([]byte{0x10}, ten, []byte{0x01}), cat([]byte{0x10}, ten, []byte{0x02}), cat([]byte{0x10}, ten, []byte{0x7f}),
		cat([]byte{0x10}, ten, []byte{0x81, 0x00}), {0x10, 0x80, 0x80, 0x80, 0x80, 0x80, 0x80, 0x80, 0x80, 0x80, 0x00}, {0x10, 0x81, 0x00}, {0x10, 0x80, 0x00, 0x28, 0x01},
		{0x28, 0xff, 0xff, 0xff, 0xff, 0x0f}, {0x28, 0xff, 0xff, 0xff, 0xff, 0xff, 0xff, 0xff, 0xff, 0xff, 0x01}, {0x28, 0x80, 0x80, 0x80, 0x80, 0x08}, {0x28, 0x80, 0x80, 0x80, 0x80, 0x10},
		cat([]byte{0x28, 0x01, 0x0a}, ten, []byte{0x01}), cat([]byte{0x28, 0x01, 0x0a}, []byte{0x80, 0x80, 0x80, 0x80, 0x80, 0x80, 0x80, 0x80, 0x80, 0x01}), {0x28, 0x01, 0x0a, 0x05, 1, 2}, {0x28, 0x01, 0x0a, 0x00}, {0x28, 0x01, 0x0a},
		{0x28, 0x01, 0x0b, 0x0c}, {0x28, 0x01, 0x0b, 0x08, 0x01, 0x0c}, {0x28, 0x01, 0x0b, 0x0b, 0x0c, 0x12, 0x01, 0x00, 0x0c}, {0x28, 0x01, 0x0b, 0x0b, 0x0c}, {0x28, 0x01, 0x0b}, {0x28, 0x01, 0x0b, 0x0e, 0x0c}, {0x28, 0x01, 0x0b, 0x0d, 1, 2, 3, 4, 0x09, 1, 2, 3, 4, 5, 6, 7, 8, 0x0c},
		{0x28, 0x01, 0x0c}, {0x28, 0x01, 0x0e}, {0x28, 0x01, 0x0f, 0x00}, {0x28, 0x01, 0x0d, 1, 2, 3}, {0x28, 0x01, 0x0d, 1, 2, 3, 4}, {0x28, 0x01, 0x09, 1, 2, 3, 4, 5, 6, 7}, {0x28, 0x01, 0x09, 1, 2, 3, 4, 5, 6, 7, 8},
		{0x28, 0x01, 0x08, 0x05}, {0x28, 0x01, 0x12, 0x01, 0x41}, {0x28, 0x01, 0x15, 1, 2, 3, 4}, {0x2a, 0x01, 0x01, 0x28, 0x02}, {0x2d, 1, 2, 3, 4}, {0x28, 0x01, 0x28, 0x02, 0x10, 0x03, 0x10, 0x04, 0x0a, 0x01, 0x61, 0x0a, 0x01, 0x62},
		{0x00, 0x01, 0x28, 0x01}, {0x02, 0x00, 0x28, 0x01}, {0xf8, 0xff, 0xff, 0xff, 0xff, 0xff, 0xff, 0xff, 0xff, 0x01, 0x05, 0x28, 0x01}, {0x80, 0x01, 0x05, 0x28, 0x01}, {0x28, 0x01, 0x7a, 0x00, 0x7a, 0x01, 0x78},
		// blocks / headers / groups
		ld(1, hd), cat(ld(1, hd), ld(1, cat(vi(2<<3), vi(7)))), cat(ld(1, cat(hd, ld(19, ld(1, []byte{1})))), ld(1, ld(19, ld(1, []byte{2, 3})))), cat(ld(1, hd), ld(2, []byte{0x28, 0x01}), ld(2, []byte{0x28, 0x02, 0x10})),
		cat(ld(1, hd), ld(2, []byte{0x10, 0x01})), ld(2, []byte{0x28, 0x01}), cat(ld(1, hd), []byte{0x12, 0x05, 0x28}), cat([]byte{0x08, 0x01}, ld(1, hd)), cat([]byte{0x0d, 1, 2, 3, 4}, ld(1, hd)),
		ld(1, cat(ld(6, []byte{9}), vi(7<<3), vi(5))), ld(1, ld(6, []byte{9})), ld(1, vi(7<<3|0)), cat(ld(1, cat(ld(6, []byte{9}), vi(7<<3), vi(5))), ld(5, []byte{1}), ld(5, []byte{}), ld(5, []byte{2, 3}), vi(6<<3), vi(1), vi(6<<3), vi(2)),
		cat(ld(1, ld(6, []byte{9})), ld(1, cat(vi(7<<3), vi(5)))), ld(12, ld(1, []byte{7})), cat(ld(12, []byte{}), ld(12, ld(2, []byte{}))), ld(19, []byte{}), ld(19, cat(ld(1, []byte{}), ld(1, []byte{1}))), ld(18, []byte{1, 2}), cat(vi(18<<3), vi(1)),
	}
	return l
}

// ---- round trips of values

func (x *H) rtTx(v *types.Transaction, model bool) []byte {
	b, err := types.MarshalTransaction(v)
	if err != nil {
		x.res.Violate("C09/roundtrip:tx:marshal", "MarshalTransaction fails: "+err.Error(), cTx(v))
		return nil
	}
	var v1 types.Transaction
	pan, msg := guard(func() { v1, err = types.UnMarshalTransaction(b) })
	nv := normTx(*v)
	x.res.Count("roundtrip:tx", "v"+cTx(v), true)
	switch {
	case pan || err != nil:
		x.res.Violate("C09/roundtrip:tx:parse", fmt.Sprintf("own encoding does not parse (%v %s %v)", pan, msg, err), map[string]interface{}{"value": cTx(v), "bytes": hexs(b)})
	case signDefect(v.Sign) != "":
		x.res.Violate("C09/roundtrip:tx:sign", "the wire image of the transaction's signature is wrong: "+signDefect(v.Sign), map[string]interface{}{"transaction": cTx(&nv), "bytes": hexs(b)})
	case signDiff(v.Sign, v1.Sign) != "":
		x.res.Violate("C09/roundtrip:tx:sign", "the signature of a transaction changes across Marshal/UnMarshal: "+signDiff(v.Sign, v1.Sign), map[string]interface{}{"before": cTx(&nv), "after": cTx(&v1), "bytes": hexs(b)})
	case cTx(&nv) != cTx(&v1):
		x.res.Violate("C09/roundtrip:tx:content", "transaction content changes across Marshal/UnMarshal", map[string]interface{}{"before": cTx(&nv), "after": cTx(&v1), "bytes": hexs(b)})
	case v.GenHash() != v1.GenHash():
		x.res.Violate("C09/roundtrip:tx:hash", "Transaction.GenHash changes across Marshal/UnMarshal", map[string]interface{}{"value": cTx(v), "bytes": hexs(b)})
	}
	if model {
		ps := types.TransactionsToPb([]*types.Transaction{v})
		x.cs.Add("CTxPb "+cTx(v)+" "+cPbTx(ps[0]), map[string]interface{}{"kind": "transactionToPb", "value": cTx(v)})
	}
	return b
}

func (x *H) rtHdr(v *types.BlockHeader, model bool) []byte {
	b, err := types.MarshalBlockHeader(v)
	if err != nil || len(b) == 0 {
		x.res.Violate("C09/roundtrip:header:marshal", fmt.Sprintf("MarshalBlockHeader of a node-producible header yields nothing (%v)", err), cHdr(v))
		return nil
	}
	var v1 *types.BlockHeader
	pan, msg := guard(func() { v1, err = types.UnMarshalBlockHeader(b) })
	x.res.Count("roundtrip:hdr", "v"+cHdr(v), true)
	switch {
	case pan || err != nil || v1 == nil:
		x.res.Violate("C09/roundtrip:header:parse", fmt.Sprintf("own encoding does not parse (%v %s %v)", pan, msg, err), map[string]interface{}{"value": cHdr(v), "bytes": hexs(b)})
	case cHdr(v) != cHdr(v1):
		x.res.Violate("C09/roundtrip:header:content", "header content changes across Marshal/UnMarshal", map[string]interface{}{"before": cHdr(v), "after": cHdr(v1), "bytes": hexs(b)})
	case v.GenHash() != v1.GenHash():
		x.res.Violate("C09/hash-stable:header", "BlockHeader.GenHash changes across Marshal/UnMarshal: "+v.GenHash().Hex()+" -> "+v1.GenHash().Hex(), map[string]interface{}{"value": cHdr(v), "bytes": hexs(b)})
	}
	if model {
		x.hdrPbCase(v)
	}
	return b
}

func (x *H) hdrPbCase(v *types.BlockHeader) {
	p := types.BlockHeaderToPb(v)
	o := "None"
	if p != nil {
		o = "(Some " + cPbHdr(p) + ")"
	}
	x.cs.Add("CHdrPb "+cHdr(v)+" "+o, map[string]interface{}{"kind": "BlockHeaderToPb", "value": cHdr(v)})
}

func (x *H) rtGrp(v *types.Group, model bool) []byte {
	b, err := types.MarshalGroup(v)
	if err != nil {
		x.res.Violate("C09/roundtrip:group:marshal", "MarshalGroup fails: "+err.Error(), cGroup(v))
		return nil
	}
	var v1 *types.Group
	pan, msg := guard(func() { v1, err = types.UnMarshalGroup(b) })
	x.res.Count("roundtrip:grp", "v"+cGroup(v), true)
	switch {
	case pan || err != nil || v1 == nil || v1.Header == nil:
		x.res.Violate("C09/roundtrip:group:parse", fmt.Sprintf("own encoding does not parse (%v %s %v)", pan, msg, err), map[string]interface{}{"value": cGroup(v), "bytes": hexs(b)})
	case cGroup(normGrp(v)) != cGroup(normGrp(v1)):
		x.res.Violate("C09/roundtrip:group:content", "group content changes across Marshal/UnMarshal", map[string]interface{}{"before": cGroup(normGrp(v)), "after": cGroup(normGrp(v1)), "bytes": hexs(b)})
	case v.Header.GenHash() != v1.Header.GenHash():
		x.res.Violate("C09/hash-stable:group", "GroupHeader.GenHash changes across Marshal/UnMarshal", map[string]interface{}{"value": cGroup(v), "bytes": hexs(b)})
	}
	if model {
		x.grpPbCase(v)
	}
	return b
}

func (x *H) grpPbCase(v *types.Group) {
	var p *pb.Group
	pan, _ := guard(func() { p = types.GroupToPb(v) })
	o := "Panic"
	if !pan {
		o = "(Ok " + cPbGroup(p) + ")"
	}
	vv := *v
	x.cs.Add("CGrpPb "+cGroup(&vv)+" "+o, map[string]interface{}{"kind": "GroupToPb", "value": cGroup(v)})
}

func (x *H) rtBlock(v *types.Block) []byte {
	b, err := types.MarshalBlock(v)
	if err != nil || len(b) == 0 {
		x.res.Violate("C09/roundtrip:block:marshal", fmt.Sprintf("MarshalBlock fails (%v)", err), cHdr(v.Header))
		return nil
	}
	var v1 *types.Block
	pan, msg := guard(func() { v1, err = types.UnMarshalBlock(b) })
	x.res.Count("roundtrip:block", "vb"+cHdr(v.Header)+fmt.Sprint(len(v.Transactions)), true)
	if pan || err != nil || v1 == nil || v1.Header == nil {
		x.res.Violate("C09/roundtrip:block:parse", fmt.Sprintf("own encoding does not parse (%v %s %v)", pan, msg, err), map[string]interface{}{"bytes": hexs(b)})
		return b
	}
	same := cHdr(v.Header) == cHdr(v1.Header) && len(v.Transactions) == len(v1.Transactions)
	if same {
		for i := range v.Transactions {
			nv := normTx(*v.Transactions[i])
			if cTx(&nv) != cTx(v1.Transactions[i]) || v.Transactions[i].GenHash() != v1.Transactions[i].GenHash() {
				same = false
			}
		}
	}
	if !same {
		x.res.Violate("C09/roundtrip:block:content", "block content changes across Marshal/UnMarshal", map[string]interface{}{"bytes": hexs(b)})
	} else if v.Header.GenHash() != v1.Header.GenHash() {
		x.res.Violate("C09/hash-stable:block", "block header GenHash changes across Marshal/UnMarshal", map[string]interface{}{"bytes": hexs(b)})
	}
	return b
}

// the preimage of BlockHeader.GenHash, rebuilt here from a mirror of the unexported `header` struct and
// held against the real GenHash on every header (so the mirror cannot drift unnoticed)
type hdrMirror struct {
	Height       uint64
	PreHash      common.Hash
	PreTime      time.Time
	ProveValue   *big.Int
	TotalQN      uint64
	CurTime      time.Time
	Castor       []byte
	GroupId      []byte
	Nonce        uint64
	RequestId    map[string]uint64
	Transactions []common.Hashes
	TxTree       common.Hash
	ReceiptTree  common.Hash
	StateTree    common.Hash
	ExtraData    []byte
	ProveRoot    common.Hash
	EvictedTxs   []common.Hash
}

func preimage(h *types.BlockHeader) ([]byte, bool) {
	m := &hdrMirror{Height: h.Height, PreHash: h.PreHash, PreTime: h.PreTime, ProveValue: h.ProveValue, TotalQN: h.TotalQN, CurTime: h.CurTime,
		Castor: h.Castor, Nonce: h.Nonce, RequestId: h.RequestIds, Transactions: h.Transactions, TxTree: h.TxTree, ReceiptTree: h.ReceiptTree,
		StateTree: h.StateTree, ExtraData: h.ExtraData, EvictedTxs: h.EvictedTxs}
	b, _ := json.Marshal(m)
	s := sha256.Sum256(b)
	return b, common.BytesToHash(s[:]) == h.GenHash()
}

func repoRoot() string {
	if r := os.Getenv("VERIF_REPO"); r != "" {
		return r
	}
	// the file this binary's types package was compiled from
	f, _ := runtime.FuncForPC(reflect.ValueOf(types.UnMarshalTransaction).Pointer()).FileLine(0)
	if i := strings.Index(f, "/src/middleware/types/"); i > 0 {
		return f[:i]
	}
	return "/repo"
}

func main() {
	a := hx.ParseArgs()
	rng := hx.NewRng(a.Seed)
	time.Local = time.FixedZone("CST", 8*3600) // the zone the node's operators run in; Local times must survive too
	os.MkdirAll("logs", 0755)
	types.InitSerialzation()

	res := hx.NewResult("a case counts when it is a distinct input (pb struct, wire bytes or node value) run through the real conversion functions; all generated cases are nontrivial except inputs the encoder itself rejects")
	cs := hx.NewCases(a.Out, "From V.Base Require Import Hex.\nFrom V.C09 Require Import Modes Model Harness.", "case", "check", 150)
	x := &H{res: res, cs: cs, g: &gen{rng}}
	g := x.g
	thorough := a.Tier == "thorough"

	// ---- 0. the access-mode table of the sources under test vs coq/C09/Gen.v
	root := repoRoot()
	ext, err := c09ext.Scan(root)
	if err != nil {
		res.Violate("C09/gen:extract", "access-mode extractor fails on "+root+": "+err.Error(), root)
	} else {
		cSites, cRecvs := c09ext.CoqLists(ext)
		cs.Add("CGen "+cSites+" "+cRecvs, map[string]interface{}{"kind": "access-mode table re-extracted from " + filepath.Join(root, "src/middleware/types/serialization.go"),
			"hint": "differs from coq/C09/Gen.v: regenerate with tools/goextract-c09 and re-check the proofs"})
		nd := 0
		for _, s := range ext.Sites {
			if s.Mode == "Deref" || (s.Holder == "Deref" && s.Func != "pbToMember" && s.Func != "PbToGroups") {
				nd++
			}
		}
		res.Note(fmt.Sprintf("access table: %d sites, %d holder variables, %d sites reached by unchecked dereference (source %s)", len(ext.Sites), len(ext.Recvs), nd, root))
	}

	// ---- 1. the confirmed witness and the empty message, first
	for _, k := range []string{"UnMarshalTransaction", "UnMarshalTransactions", "UnMarshalBlockHeader", "UnMarshalBlock", "UnMarshalGroup", "UnMarshalMember"} {
		x.wire(k, []byte{}, "empty")
	}
	x.wire("UnMarshalTransaction", []byte{0x28, 0x01}, "only-Type")
	x.wire("UnMarshalTransactions", []byte{0x0a, 0x02, 0x28, 0x01}, "slice(only-Type)")

	// ---- 2. pb structs with every subset of the optional scalars absent
	for mask := 0; mask < 512; mask++ {
		x.caseTx(g.pbTx(mask), fmt.Sprintf("subset-%03x", mask), mask%4 == 0 || thorough)
	}
	for rep := 0; rep < 6; rep++ {
		for mask := 0; mask < 16; mask++ {
			x.caseHdr(g.pbHdr(mask, true), fmt.Sprintf("subset-%x", mask), true)
		}
	}
	for rep := 0; rep < 4; rep++ {
		for mask := 0; mask < 16; mask++ {
			x.caseGrp(g.pbGroup(mask), fmt.Sprintf("subset-%x", mask), true)
		}
	}
	x.caseGrp(&pb.Group{}, "zero", true)
	x.caseHdr(&pb.BlockHeader{}, "zero", true)
	x.caseTx(&pb.Transaction{}, "zero", true)
	x.caseTx(&pb.Transaction{Type: proto.Int32(1)}, "only-Type", true)
	// nil elements in repeated message fields cannot come from the wire; searched on the implementation only
	x.caseHdr(&pb.BlockHeader{Transactions: []*pb.TransactionHash{nil}, PreTime: []byte{1, 0, 0, 0, 0, 0, 0, 0, 0, 0, 0, 0, 0, 0xff, 0xff},
		CurTime: []byte{1, 0, 0, 0, 0, 0, 0, 0, 0, 0, 0, 0, 0, 0xff, 0xff}, Height: proto.Uint64(1), Nonce: proto.Uint64(1), TotalQN: proto.Uint64(1)}, "nil-element", false)

	// ---- 3. random pb structs (fields absent with probability 1/6 each), blocks
	n := a.N
	for i := 0; i < n/3; i++ {
		mask := 0
		for b := 0; b < 9; b++ {
			if g.r.Intn(6) == 0 {
				mask |= 1 << uint(b)
			}
		}
		x.caseTx(g.pbTx(mask), "random", i%2 == 0)
	}
	for i := 0; i < n/3; i++ {
		mask := 0
		for b := 0; b < 4; b++ {
			if g.r.Intn(8) == 0 {
				mask |= 1 << uint(b)
			}
		}
		x.caseHdr(g.pbHdr(mask, g.r.Intn(4) > 0), "random", true)
	}
	for i := 0; i < n/6; i++ {
		mask := 0
		for b := 0; b < 4; b++ {
			if g.r.Intn(8) == 0 {
				mask |= 1 << uint(b)
			}
		}
		x.caseGrp(g.pbGroup(mask), "random", true)
	}
	for i := 0; i < n/10; i++ {
		p := &pb.Block{}
		if g.r.Intn(8) > 0 {
			m := 0
			if g.r.Intn(6) == 0 {
				m = 1 << uint(g.r.Intn(4))
			}
			p.Header = g.pbHdr(m, true)
		}
		k := g.r.Intn(3)
		for j := 0; j < k; j++ {
			m := 0
			if g.r.Intn(6) == 0 {
				m = 1 << uint(g.r.Intn(9))
			}
			p.Transactions = append(p.Transactions, g.pbTx(m))
		}
		x.caseBlk(p, "random")
	}

	// ---- 4. node values: round trip, GenHash, *ToPb correspondence; their encodings seed the wire mutation
	var seedsTx, seedsHdr, seedsGrp, seedsBlk [][]byte
	for i := 0; i < n/3; i++ {
		if b := x.rtTx(g.tx(), i%2 == 0); b != nil {
			seedsTx = append(seedsTx, b)
		}
	}
	mirrorBad := 0
	for i := 0; i < n/3; i++ {
		h := g.header(true)
		if _, ok := preimage(h); !ok {
			mirrorBad++
		}
		if b := x.rtHdr(h, true); b != nil {
			seedsHdr = append(seedsHdr, b)
		}
	}
	if mirrorBad > 0 {
		res.Violate("C09/harness:genhash-mirror", "the harness copy of the GenHash preimage struct no longer matches BlockHeader.GenHash", mirrorBad)
	}
	for i := 0; i < n/6; i++ {
		if b := x.rtGrp(g.group(true), true); b != nil {
			seedsGrp = append(seedsGrp, b)
		}
	}
	for i := 0; i < n/10; i++ {
		blk := &types.Block{Header: g.header(true)}
		k := g.r.Intn(4)
		if k > 0 || g.r.Bool() {
			blk.Transactions = []*types.Transaction{}
		}
		for j := 0; j < k; j++ {
			blk.Transactions = append(blk.Transactions, g.tx())
		}
		if b := x.rtBlock(blk); b != nil {
			seedsBlk = append(seedsBlk, b)
		}
	}

	// ---- 5. arbitrary in-memory values: one pass reaches a fixed point; *ToPb correspondence incl. failing times
	for i := 0; i < n/4; i++ {
		h := g.header(false)
		x.hdrPbCase(h)
		b, err := types.MarshalBlockHeader(h)
		if err == nil && len(b) > 0 {
			x.wire("UnMarshalBlockHeader", b, "in-memory")
			// one pass maps an in-memory header to its normal form: nil hash lists become empty, nothing else moves
			if (h.ProveValue == nil || h.ProveValue.Sign() >= 0) && !negSecOffset(h.PreTime) && !negSecOffset(h.CurTime) {
				var h1 *types.BlockHeader
				pan, _ := guard(func() { h1, _ = types.UnMarshalBlockHeader(b) })
				nh := *h
				if nh.Transactions == nil {
					nh.Transactions = []common.Hashes{}
				}
				if nh.EvictedTxs == nil {
					nh.EvictedTxs = []common.Hash{}
				}
				res.Count("one-pass:hdr", "o"+cHdr(h), true)
				if pan || h1 == nil || cHdr(&nh) != cHdr(h1) {
					res.Violate("C09/one-pass:header", "an in-memory header changes across Marshal/UnMarshal in more than nil -> empty hash lists", map[string]interface{}{"before": cHdr(&nh), "after": cOHdr(h1), "bytes": hexs(b)})
				} else if pre, _ := preimage(h); len(pre) > 0 && (h.Transactions != nil && h.EvictedTxs != nil) != (h.GenHash() == h1.GenHash()) {
					// (a header whose time lies outside RFC 3339's years has no JSON form: GenHash is then the hash of nothing)
					res.Violate("C09/one-pass:header:genhash", "GenHash must change exactly when a nil hash list became empty", map[string]interface{}{"value": cHdr(h), "bytes": hexs(b)})
				}
			}
		} else {
			res.Count("fixed:hdr:unmarshalable-zone", "m"+cHdr(h), false)
		}
	}
	for i := 0; i < n/8; i++ {
		v := g.group(false)
		x.grpPbCase(v)
		b, err := types.MarshalGroup(v)
		if err == nil {
			x.wire("UnMarshalGroup", b, "in-memory")
		}
	}
	x.grpPbCase(&types.Group{Id: []byte{1}})

	// ---- 6. time.Time binary form against the model (both directions)
	for i := 0; i < n/5; i++ {
		b := g.timeBytes()
		var t time.Time
		e := t.UnmarshalBinary(b)
		o := "None"
		if e == nil {
			o = "(Some " + cTime(t) + ")"
		}
		cs.Add("CTime "+hx.CoqHex(b)+" "+o, map[string]interface{}{"kind": "time.UnmarshalBinary", "bytes": hexs(b)})
		res.Count("time:unmarshal", "tu"+hexs(b), true)
		t2 := g.anyTime()
		mb, e2 := t2.MarshalBinary()
		o = "None"
		if e2 == nil {
			o = "(Some " + hx.CoqHex(mb) + ")"
		}
		cs.Add("CTimeM "+cTime(t2)+" "+o, map[string]interface{}{"kind": "time.MarshalBinary", "time": t2.String()})
		res.Count("time:marshal", "tm"+cTime(t2), true)
	}

	// ---- 7. mutated wire bytes into every parser; decoded pb structs also go to the model
	type seedSet struct {
		kind  string
		seeds [][]byte
	}
	sets := []seedSet{{"UnMarshalTransaction", seedsTx}, {"UnMarshalBlockHeader", seedsHdr}, {"UnMarshalGroup", seedsGrp}, {"UnMarshalBlock", seedsBlk}}
	muts := n
	if thorough {
		muts = n * 2
	}
	for i := 0; i < muts; i++ {
		s := sets[i%4]
		if len(s.seeds) == 0 {
			continue
		}
		b := s.seeds[g.r.Intn(len(s.seeds))]
		k := 1 + g.r.Intn(3)
		for j := 0; j < k; j++ {
			b = mutate(g.r, b)
		}
		x.wire(s.kind, b, "mutated")
		if i%8 == 0 {
			x.wire("UnMarshalTransactions", b, "mutated")
			x.wire("UnMarshalMember", b, "mutated")
		}
		if i%3 != 0 || len(b) > 1500 {
			continue
		}
		switch s.kind {
		case "UnMarshalTransaction":
			p := new(pb.Transaction)
			if proto.Unmarshal(b, p) == nil {
				x.caseTx(p, "decoded-from-mutated-wire", true)
			}
		case "UnMarshalBlockHeader":
			p := new(pb.BlockHeader)
			if proto.Unmarshal(b, p) == nil {
				x.caseHdr(p, "decoded-from-mutated-wire", true)
			}
		case "UnMarshalGroup":
			p := new(pb.Group)
			if proto.Unmarshal(b, p) == nil {
				x.caseGrp(p, "decoded-from-mutated-wire", true)
			}
		case "UnMarshalBlock":
			p := new(pb.Block)
			if proto.Unmarshal(b, p) == nil {
				x.caseBlk(p, "decoded-from-mutated-wire")
			}
		}
	}
	// pure noise
	for i := 0; i < n/4; i++ {
		b := g.r.Bytes(g.r.Intn(40))
		for _, k := range []string{"UnMarshalTransaction", "UnMarshalBlockHeader", "UnMarshalGroup", "UnMarshalBlock"} {
			x.wire(k, b, "noise")
		}
	}

	// ---- 8. thorough: every subset of optional fields dropped from a full wire message (small exhaustive scope)
	if thorough {
		full, _ := types.MarshalTransaction(&types.Transaction{Source: "s", Target: "t", Type: 1, Time: "x", Data: "d", ExtraData: "e", ExtraDataType: 2,
			Nonce: 3, RequestId: 4, ChainId: "c", Sign: common.BytesToSign(make([]byte, 65))})
		fs := splitFields(full)
		for mask := 0; mask < 1<<uint(len(fs)); mask++ {
			var b []byte
			for i, f := range fs {
				if mask&(1<<uint(i)) == 0 {
					b = append(b, f...)
				}
			}
			x.wire("UnMarshalTransaction", b, "field-subset")
		}
		res.Exhaustive = false
	}


	// ---- 9. wire layer: proto.Unmarshal / proto.Marshal and the full UnMarshalX path against the wire model
	if ext != nil {
		if sch, err := c09ext.CoqSchema(ext); err != nil {
			res.Violate("C09/gen:schema", "a field of the covered messages is outside the modelled kinds: "+err.Error(), root)
		} else {
			cs.Add("CSchema "+sch, map[string]interface{}{"kind": "message field tables re-extracted from x.pb.go", "hint": "differs from coq/C09/Gen.v: regenerate with tools/goextract-c09"})
		}
	}
	for _, b := range hostileWire() {
		for k := 0; k < 5; k++ {
			x.wireCase(k, b, "hostile", true)
		}
	}
	// compact valid messages: encoder correspondence, then every prefix and mutations at every byte position
	u1, u7 := uint64(1), uint64(300)
	tiny := []proto.Message{
		&pb.Transaction{Type: proto.Int32(-2), Nonce: &u7, Data: proto.String("d"), Source: []byte{}, Hash: []byte{1, 2}, ChainId: proto.String("")},
		&pb.TransactionSlice{Transactions: []*pb.Transaction{{Type: proto.Int32(1)}, {Type: proto.Int32(200), Target: proto.String("t")}}},
		&pb.BlockHeader{Height: &u1, PreTime: []byte{1, 0, 0, 0, 0, 0, 0, 0, 0, 0, 0, 0, 0, 0xff, 0xff}, CurTime: []byte{1, 0, 0, 0, 14, 0, 0, 0, 5, 0, 0, 0, 9, 1, 0xe0}, ProveValue: []byte{},
			Transactions: []*pb.TransactionHash{{Hash: []byte{3}}}, EvictedTxs: &pb.Hashes{Hashes: [][]byte{{4}, {}}}, RequestIds: []byte("{}"), TotalQN: &u7},
		&pb.Block{Header: &pb.BlockHeader{Nonce: &u1, PreTime: []byte{1, 0, 0, 0, 0, 0, 0, 0, 0, 0, 0, 0, 0, 0xff, 0xff}, CurTime: []byte{1, 0, 0, 0, 0, 0, 0, 0, 0, 0, 0, 0, 0, 0xff, 0xff}, EvictedTxs: &pb.Hashes{}},
			Transactions: []*pb.Transaction{{Type: proto.Int32(7), SubTransactions: []byte("[]")}}},
		&pb.Group{Header: &pb.GroupHeader{MemberRoot: []byte{9}, CreateHeight: &u7, Extends: proto.String("x"), BeginTime: []byte{1, 0, 0, 0, 0, 0, 0, 0, 0, 0, 0, 0, 0, 0xff, 0xff}}, Id: []byte{1}, Members: [][]byte{{1}, {}, {2, 3}}, GroupHeight: &u1},
	}
	reps := 2
	if thorough {
		reps = 12
	}
	for k, m := range tiny {
		b := x.encCase(m)
		if b == nil {
			res.Violate("C09/harness:tiny", "a hand-built message does not marshal", m.String())
			continue
		}
		x.wireCase(k, b, "valid", true)
		for i := 0; i < len(b); i++ {
			x.wireCase(k, b[:i], "prefix", i%3 == 0)
			for r := 0; r < reps; r++ {
				c := append([]byte{}, b...)
				switch r % 4 {
				case 0:
					c[i] ^= 1 << uint(g.r.Intn(8))
				case 1:
					c[i] = byte(g.r.U64())
				case 2:
					c[i] ^= 0x80
				case 3:
					c[i] = []byte{0, 0x7f, 0x80, 0xff, 0x0b, 0x0c}[g.r.Intn(6)]
				}
				x.wireCase(k, c, "byte-mutation", r == 0)
			}
		}
	}
	// generated pb structs: encoder correspondence; their encodings (full size) through the decoder
	for i := 0; i < n/10; i++ {
		var m proto.Message
		k := i % 5
		switch k {
		case 0:
			m = g.pbTx(8 | g.r.Intn(512)&^8)
			m.(*pb.Transaction).Type = proto.Int32(g.i32())
			if g.r.Intn(6) == 0 {
				m.(*pb.Transaction).Type = nil
			}
		case 1:
			m = &pb.TransactionSlice{Transactions: []*pb.Transaction{g.pbTx(0), g.pbTx(g.r.Intn(512) &^ 8)}}
		case 2:
			m = g.pbHdr(g.r.Intn(16), true)
		case 3:
			bl := &pb.Block{Transactions: []*pb.Transaction{g.pbTx(0)}}
			if g.r.Intn(6) > 0 {
				bl.Header = g.pbHdr(g.r.Intn(16), true)
			}
			m = bl
		case 4:
			m = g.pbGroup(g.r.Intn(16))
			if gh := m.(*pb.Group).Header; gh != nil && gh.MemberRoot == nil && g.r.Bool() {
				gh.MemberRoot = []byte{}
			}
		}
		if b := x.encCase(m); b != nil {
			x.wireCase(k, b, "valid", i%2 == 0)
			if i%2 == 0 {
				x.wireCase(k, mutate(g.r, b), "mutated", true)
			}
		}
	}
	// random bytes, short (so that many parse) and biased towards plausible tags
	for i := 0; i < n/3; i++ {
		b := g.r.Bytes(g.r.Intn(14))
		for j := range b {
			if g.r.Intn(3) == 0 {
				b[j] = []byte{0x08, 0x0a, 0x10, 0x12, 0x28, 0x2a, 0x32, 0x01, 0x00, 0x02, 0x0b, 0x0c, 0x9a, 0x62}[g.r.Intn(14)]
			}
		}
		x.wireCase(i%5, b, "random", i%2 == 0)
	}


	// ---- 10. purity: bytes a Marshal* call returned belong to the caller; objects a parser returned do not depend on
	// the input buffer any more
	x.purity(n / 15)


	// ---- 11. capacity boundaries (limits read from the producers' code), 12. cached headers across CastBlock's bookkeeping
	x.capacity(root)
	x.relay(n / 6)

	for _, s := range []string{"pb transaction with only Type set: wire 2801", "header subsets: Height/Nonce/TotalQN/EvictedTxs absent x valid and hostile time bytes",
		"node headers in UTC / Local(+08:00) / fixed zones incl. +01:00:07 and +00:00:01", "mutated encodings of blocks, headers, transactions, groups"} {
		res.Sample(s)
	}
	cs.Close()
	res.ModelCases = cs.Total()
	res.Write(a.Out)
	fmt.Printf("c09: evaluations=%d distinct=%d model_cases=%d violations=%d\n", res.Evaluations, res.DistinctNontrivial, cs.Total(), len(res.Violations))
	for k, v := range res.Histogram {
		fmt.Printf("  %-50s %d\n", k, v)
	}
}
