// C02 harness: the real Merkle-Patricia trie (src/storage/trie) driven through its exported API by
// generated operation histories. (a) Direct evaluation of the property on the implementation:
// reads return the last write, the root equals the root of fresh tries built from the final content
// in other insertion orders and the root computed by an independent Yellow-Paper reference, iteration
// returns the live pairs in ascending key order, commits / reloads / cache limits do not change any
// of this. (b) Every history with the observed results is written out for the Coq model.
package main

import (
	"bytes"
	"encoding/hex"
	"errors"
	"fmt"
	"sort"
	"strings"

	"com.tuntun.rangers/node/src/common"
	"com.tuntun.rangers/node/src/common/sha3"
	"com.tuntun.rangers/node/src/middleware/db"
	"com.tuntun.rangers/node/src/storage/trie"
	"verif/harness/hx"
)

// ---------------------------------------------------------------- independent reference root
// Yellow Paper appendix D: c(J,i), n(J,i), hex-prefix encoding; own minimal RLP encoder.

func keccak(b []byte) []byte {
	h := sha3.NewKeccak256()
	h.Write(b)
	return h.Sum(nil)
}

func rlpHead(base byte, n int) []byte {
	if n < 56 {
		return []byte{base + byte(n)}
	}
	var be []byte
	for x := n; x > 0; x >>= 8 {
		be = append([]byte{byte(x)}, be...)
	}
	return append([]byte{base + 55 + byte(len(be))}, be...)
}
func rlpStr(b []byte) []byte {
	if len(b) == 1 && b[0] < 0x80 {
		return []byte{b[0]}
	}
	return append(rlpHead(0x80, len(b)), b...)
}
func rlpList(items ...[]byte) []byte {
	var c []byte
	for _, it := range items {
		c = append(c, it...)
	}
	return append(rlpHead(0xc0, len(c)), c...)
}

func hexPrefix(nibbles []byte, leaf bool) []byte {
	f := byte(0)
	if leaf {
		f = 2
	}
	var out []byte
	if len(nibbles)%2 == 1 {
		out = append(out, 16*(f+1)+nibbles[0])
		nibbles = nibbles[1:]
	} else {
		out = append(out, 16*f)
	}
	for i := 0; i < len(nibbles); i += 2 {
		out = append(out, 16*nibbles[i]+nibbles[i+1])
	}
	return out
}

type kv struct {
	k []byte // nibbles, no terminator
	v []byte
}

func toNibbles(b []byte) []byte {
	out := make([]byte, 0, 2*len(b))
	for _, x := range b {
		out = append(out, x>>4, x&15)
	}
	return out
}

// structural composition c(J, i)
func specC(J []kv, i int) []byte {
	if len(J) == 1 {
		return rlpList(rlpStr(hexPrefix(J[0].k[i:], true)), rlpStr(J[0].v))
	}
	// longest common prefix length of all keys
	j := len(J[0].k)
	for _, e := range J[1:] {
		l := 0
		for l < len(e.k) && l < len(J[0].k) && e.k[l] == J[0].k[l] {
			l++
		}
		if l < j {
			j = l
		}
	}
	if j != i {
		return rlpList(rlpStr(hexPrefix(J[0].k[i:j], false)), specN(J, j))
	}
	items := make([][]byte, 17)
	for x := 0; x < 16; x++ {
		var sub []kv
		for _, e := range J {
			if len(e.k) > i && int(e.k[i]) == x {
				sub = append(sub, e)
			}
		}
		items[x] = specN(sub, i+1)
	}
	items[16] = rlpStr(nil)
	for _, e := range J {
		if len(e.k) == i {
			items[16] = rlpStr(e.v)
		}
	}
	return rlpList(items...)
}

func specN(J []kv, i int) []byte {
	if len(J) == 0 {
		return rlpStr(nil)
	}
	c := specC(J, i)
	if len(c) < 32 {
		return c
	}
	return rlpStr(keccak(c))
}

func specRoot(content map[string][]byte) common.Hash {
	if len(content) == 0 {
		return common.BytesToHash(keccak(rlpStr(nil)))
	}
	var J []kv
	for k, v := range content {
		J = append(J, kv{toNibbles([]byte(k)), v})
	}
	sort.Slice(J, func(a, b int) bool { return bytes.Compare(J[a].k, J[b].k) < 0 })
	return common.BytesToHash(keccak(specC(J, 0)))
}

// ---------------------------------------------------------------- histories
type op struct {
	Kind string // upd del get hash commit reopen-disk reopen-mem flush limit iter
	K, V []byte
	L    uint16
}

func (o op) String() string {
	switch o.Kind {
	case "upd":
		return fmt.Sprintf("upd(%x,%x)", o.K, o.V)
	case "deref":
		return "deref-old-root"
	case "del", "get", "iter":
		return fmt.Sprintf("%s(%x)", o.Kind, o.K)
	case "limit":
		return fmt.Sprintf("limit(%d)", o.L)
	}
	return o.Kind
}

func histString(h []op) string {
	s := make([]string, len(h))
	for i, o := range h {
		s[i] = o.String()
	}
	return strings.Join(s, ";")
}

// key universes
func universe(r *hx.Rng) (keys [][]byte, style string) {
	add := func(k []byte) { keys = append(keys, k) }
	switch r.Intn(7) {
	case 6:
		return deepUniverse(r), "deep-shared"
	case 0, 1: // 1..3-nibble alphabet, byte length 0..3
		style = "nib-alphabet"
		na := 1 + r.Intn(3)
		alpha := make([]byte, na)
		for i := range alpha {
			alpha[i] = byte(r.Intn(16))
		}
		n := 3 + r.Intn(7)
		for i := 0; i < n; i++ {
			l := r.Intn(4)
			k := make([]byte, l)
			for j := range k {
				k[j] = alpha[r.Intn(na)]<<4 | alpha[r.Intn(na)]
			}
			add(k)
		}
	case 2: // keys that are prefixes of one another
		style = "prefix-chain"
		base := r.Bytes(r.Intn(3))
		add(base)
		cur := base
		n := 2 + r.Intn(4)
		for i := 0; i < n; i++ {
			ext := append(append([]byte{}, cur...), byte(r.Intn(4))<<4|byte(r.Intn(3)))
			add(ext)
			sib := append(append([]byte{}, cur...), byte(r.Intn(4))<<4|byte(r.Intn(3)))
			add(sib)
			if r.Bool() {
				cur = ext
			}
		}
	case 3: // long shared prefix, differing tails
		style = "long-shared"
		p := r.Bytes(29 + r.Intn(3))
		n := 3 + r.Intn(5)
		for i := 0; i < n; i++ {
			t := make([]byte, 1+r.Intn(2))
			for j := range t {
				t[j] = byte(r.Intn(3))<<4 | byte(r.Intn(3))
			}
			add(append(append([]byte{}, p...), t...))
		}
	case 4: // hash-like keys
		style = "random32"
		n := 3 + r.Intn(6)
		for i := 0; i < n; i++ {
			add(r.Bytes(32))
		}
	default: // mixture
		style = "mixed"
		a, _ := universe(r)
		b, _ := universe(r)
		keys = append(append(keys, a...), b...)
		add([]byte{})
	}
	return
}

// keys of 64..300 bytes sharing prefixes of >= 128 bytes (branches whose parent sits >= 256 nibbles deep),
// with later siblings inside the deep branch, at a shallower branch and outside the shared prefix
func deepUniverse(r *hx.Rng) (keys [][]byte) {
	L := []int{64, 127, 128, 129, 200, 300}[r.Intn(6)]
	p := r.Bytes(L)
	cp := func(b []byte, ext ...byte) []byte { return append(append([]byte{}, b...), ext...) }
	keys = append(keys, cp(p, 0x10), cp(p, 0x2f), cp(p, 0x2f, 0x01), cp(p, 0xf0, 0x33))
	if r.Bool() {
		keys = append(keys, cp(p)) // value in the deep branch's 17th slot
	}
	half := cp(p[:L/2], p[L/2]^0x80, 0x07) // parts ways half way down
	keys = append(keys, half, cp(p[:L-1], p[L-1]^0x01), []byte{0xff, 0xfe}, r.Bytes(32))
	return
}

// overwrite classes for a value longer than 32 bytes: same length, differing only in the head, only in
// the last 32 bytes, at the 32-byte boundary, in one byte, or in the whole head
func mutateValue(r *hx.Rng, v []byte) []byte {
	w := append([]byte{}, v...)
	n := len(w)
	flip := func(i int) { w[i] ^= byte(1 + r.Intn(255)) }
	switch r.Intn(7) {
	case 0:
		flip(0)
	case 1:
		flip(n - 33)
	case 2:
		flip(n - 32)
	case 3:
		flip(n - 1)
	case 4:
		flip(r.Intn(n))
	case 5:
		for i := 0; i < n-32; i++ {
			flip(i)
		}
	default:
		for i := n - 32; i < n; i++ {
			flip(i)
		}
	}
	return w
}

var longLens = []int{33, 34, 40, 64, 65, 100, 150}

var valLens = []int{1, 1, 1, 2, 5, 20, 27, 28, 29, 30, 31, 32, 33, 100} // 27..30: leaf encodings of 31..33 bytes (embed/hash boundary)

func genValue(r *hx.Rng) []byte {
	switch r.Intn(12) {
	case 0:
		return []byte{} // empty write = delete
	case 1:
		return []byte{[]byte{0x00, 0x7f, 0x80, 0xc0, 0xff}[r.Intn(5)]}
	case 2:
		return []byte{0xc2, 0x01, 0x02} // looks like an RLP list
	case 3:
		return append([]byte{0xa0}, r.Bytes(32)...) // looks like an RLP-encoded hash
	}
	return r.Bytes(valLens[r.Intn(len(valLens))])
}

func genHistory(r *hx.Rng) ([]op, string) {
	keys, style := universe(r)
	n := 1 + r.Intn(24)
	h := make([]op, 0, n+2)
	pick := func() []byte { return keys[r.Intn(len(keys))] }
	roots := 0
	for i := 0; i < n; i++ {
		x := r.Intn(100)
		switch {
		case x < 48:
			if r.Intn(6) == 0 { // a long value overwritten by a same-length value that differs in one class of positions
				k, v := pick(), r.Bytes(longLens[r.Intn(len(longLens))])
				h = append(h, op{Kind: "upd", K: k, V: v})
				if roots < 3 && r.Intn(3) == 0 {
					roots++
					h = append(h, op{Kind: []string{"hash", "commit", "reopen-disk"}[r.Intn(3)]})
				}
				h = append(h, op{Kind: "upd", K: k, V: mutateValue(r, v)}, op{Kind: "get", K: k})
				continue
			}
			h = append(h, op{Kind: "upd", K: pick(), V: genValue(r)})
		case x < 64:
			h = append(h, op{Kind: "del", K: pick()})
		case x < 73:
			k := pick()
			if r.Intn(6) == 0 {
				k = append(append([]byte{}, k...), byte(r.Intn(256))) // near miss
			}
			h = append(h, op{Kind: "get", K: k})
		case x < 76:
			h = append(h, op{Kind: "deref"}) // garbage-collect an older committed root (only right after a commit)
		case x < 80:
			h = append(h, op{Kind: "iter", K: func() []byte {
				if r.Bool() {
					return nil
				}
				return pick()
			}()})
		case x < 84:
			h = append(h, op{Kind: "limit", L: uint16(r.Intn(4))})
		case x < 88:
			h = append(h, op{Kind: "flush"})
		default:
			if roots >= 3 { // every root costs the model several Keccak evaluations
				h = append(h, op{Kind: "upd", K: pick(), V: genValue(r)})
				continue
			}
			roots++
			h = append(h, op{Kind: []string{"hash", "commit", "commit", "reopen-disk", "reopen-mem"}[r.Intn(5)]})
			if r.Intn(2) == 0 {
				h = append(h, op{Kind: "deref"})
			}
		}
	}
	if style == "deep-shared" { // full listing and listings from seek positions inside / after the deep branch
		h = append(h, op{Kind: "iter"}, op{Kind: "iter", K: pick()}, op{Kind: "iter", K: keys[0][:len(keys[0])/2]})
	}
	return h, style
}

// ---------------------------------------------------------------- disk store with transient write failures
// failDB is the in-memory store with batches whose Write can be made to fail once, at a chosen call.
type failDB struct {
	*db.MemDatabase
	writes int // batch Write calls since the counter was reset
	failAt int // the failAt-th Write call fails (nothing of that batch is written); 0 = never
}

func (f *failDB) NewBatch() db.Batch { return &failBatch{Batch: f.MemDatabase.NewBatch(), f: f} }

type failBatch struct {
	db.Batch
	f *failDB
}

func (b *failBatch) Write() error {
	b.f.writes++
	if b.f.writes == b.f.failAt {
		return errors.New("injected transient batch write failure")
	}
	return b.Batch.Write()
}

// ---------------------------------------------------------------- system under test
type sut struct {
	store  *failDB
	mem    *db.MemDatabase
	tdb    *trie.NodeDatabase
	t      *trie.Trie
	shadow map[string][]byte
	limit  uint16
	roots  []common.Hash // roots committed into the memory cache of the current NodeDatabase, oldest first
	clean  bool          // no update since the last commit
}

func newSut() *sut {
	mem, _ := db.NewMemDatabase()
	store := &failDB{MemDatabase: mem}
	tdb := trie.NewDatabase(store)
	t, err := trie.NewTrie(common.Hash{}, tdb)
	if err != nil {
		panic(err)
	}
	return &sut{store: store, mem: mem, tdb: tdb, t: t, shadow: map[string][]byte{}}
}

func freshRoot(keys []string, content map[string][]byte) common.Hash {
	mem, _ := db.NewMemDatabase()
	t, _ := trie.NewTrie(common.Hash{}, trie.NewDatabase(mem))
	for _, k := range keys {
		if err := t.TryUpdate([]byte(k), content[k]); err != nil {
			panic(err)
		}
	}
	return t.Hash()
}

func sortedKeys(m map[string][]byte) []string {
	ks := make([]string, 0, len(m))
	for k := range m {
		ks = append(ks, k)
	}
	sort.Strings(ks)
	return ks
}

func isProperPrefixPair(ks []string) bool {
	for i := 0; i+1 < len(ks); i++ { // sorted: a proper prefix is followed directly by an extension
		if len(ks[i]) < len(ks[i+1]) && strings.HasPrefix(ks[i+1], ks[i]) {
			return true
		}
	}
	return false
}

type pair struct{ K, V []byte }

func listing(t *trie.Trie, start []byte) ([]pair, error) {
	it := trie.NewIterator(t.NodeIterator(start))
	var out []pair
	for it.Next() {
		out = append(out, pair{append([]byte{}, it.Key...), append([]byte{}, it.Value...)})
	}
	return out, it.Err
}

type viol struct {
	key, what string
	h         []op
	upto      int
}

type runner struct {
	res   *hx.Result
	rng   *hx.Rng
	flags map[string]bool // features exercised by the current history
	buf   []viol          // violations of the current history (flushed by doOne, shrunk first)
	seen  map[string]int  // violations reported so far per key
}

func (rn *runner) violate(key, what string, h []op, upto int) {
	if upto >= len(h) {
		upto = len(h) - 1
	}
	rn.buf = append(rn.buf, viol{key, what, append([]op{}, h[:upto+1]...), upto})
}

// fires: does history h (run on a fresh trie, final checks included) violate under key?
func (rn *runner) fires(h []op, key string) (bool, viol) {
	sub := &runner{res: rn.res, rng: hx.NewRng(7), flags: map[string]bool{}, seen: rn.seen}
	var uni [][]byte
	for _, o := range h {
		if o.K != nil {
			uni = append(uni, o.K)
		}
	}
	sub.run(h, uni)
	for _, v := range sub.buf {
		if v.key == key {
			return true, v
		}
	}
	return false, viol{}
}

// shrink: greedy removal of operations, then of trailing key/value bytes, while the same key still fires
func (rn *runner) shrink(v viol) viol {
	h := append([]op{}, v.h...)
	if len(h) > 0 && h[len(h)-1].Kind == "final" {
		h = h[:len(h)-1]
	}
	ok, best := rn.fires(h, v.key)
	if !ok {
		return v
	}
	for changed := true; changed; {
		changed = false
		for i := len(h) - 1; i >= 0; i-- {
			c := append(append([]op{}, h[:i]...), h[i+1:]...)
			if ok, b := rn.fires(c, v.key); ok {
				h, best, changed = c, b, true
			}
		}
	}
	// shorten values
	for i := range h {
		for len(h[i].V) > 1 {
			c := append([]op{}, h...)
			c[i].V = h[i].V[:len(h[i].V)/2]
			if ok, b := rn.fires(c, v.key); ok {
				h, best = c, b
			} else {
				break
			}
		}
	}
	return best
}

// flush the violations of the current history into the result; the first few per key are shrunk
func (rn *runner) flush() {
	done := map[string]bool{}
	for _, v := range rn.buf {
		if !done[v.key] && rn.seen[v.key] < 2 {
			done[v.key] = true
			v = rn.shrink(v)
			v.what += " [history shrunk]"
		}
		rn.seen[v.key]++
		rn.res.Violate(v.key, v.what, map[string]interface{}{"history": histString(v.h), "step": v.upto})
	}
	rn.buf = nil
}

// checkRoot: direct property "root depends only on the content" + reference root
func (rn *runner) checkRoot(s *sut, root common.Hash, h []op, i int, site string) {
	ks := sortedKeys(s.shadow)
	if want := specRoot(s.shadow); want != root {
		rn.violate("C02/root-spec:"+site, fmt.Sprintf("root %x differs from the Yellow-Paper root %x of the content", root, want), h, i)
	}
	if got := freshRoot(ks, s.shadow); got != root {
		rn.violate("C02/root-history:"+site, fmt.Sprintf("root %x differs from the root %x of a fresh trie built from the same content in sorted order", root, got), h, i)
	}
	rev := make([]string, len(ks))
	for j, k := range ks {
		rev[len(ks)-1-j] = k
	}
	if got := freshRoot(rev, s.shadow); got != root {
		rn.violate("C02/root-history:"+site, fmt.Sprintf("root %x differs from the root %x of a fresh trie built in descending order", root, got), h, i)
	}
	for n := 0; n < 2; n++ {
		sh := append([]string{}, ks...)
		for j := len(sh) - 1; j > 0; j-- {
			k := rn.rng.Intn(j + 1)
			sh[j], sh[k] = sh[k], sh[j]
		}
		if got := freshRoot(sh, s.shadow); got != root {
			rn.violate("C02/root-history:"+site, fmt.Sprintf("root %x differs from the root %x of a fresh trie built in a shuffled order", root, got), h, i)
		}
	}
}

func (rn *runner) checkIter(s *sut, start []byte, got []pair, err error, h []op, i int) {
	if err != nil {
		rn.violate("C02/iter-error", err.Error(), h, i)
		return
	}
	ks := sortedKeys(s.shadow)
	var want []string
	for _, k := range ks {
		if bytes.Compare([]byte(k), start) >= 0 {
			want = append(want, k)
		}
	}
	// content
	gotSet := map[string]bool{}
	for _, p := range got {
		if gotSet[string(p.K)] {
			rn.violate("C02/iter-content:duplicate", fmt.Sprintf("key %x delivered twice", p.K), h, i)
		}
		gotSet[string(p.K)] = true
		if v, ok := s.shadow[string(p.K)]; !ok || !bytes.Equal(v, p.V) {
			rn.violate("C02/iter-content:stale", fmt.Sprintf("iteration delivered %x=%x, content has %x", p.K, p.V, v), h, i)
		}
	}
	for _, k := range want {
		if !gotSet[k] {
			rn.violate("C02/iter-content:missing", fmt.Sprintf("live key %x >= start %x not delivered", k, start), h, i)
		}
	}
	for _, p := range got {
		if bytes.Compare(p.K, start) < 0 {
			if bytes.HasPrefix(start, p.K) { // same root cause as iter-order:prefix-key: the terminator sorts after every nibble
				rn.violate("C02/iter-seek:prefix-key", fmt.Sprintf("NodeIterator(%x) delivers key %x, a proper prefix of (hence below) the start key", start, p.K), h, i)
			} else {
				rn.violate("C02/iter-content:before-start", fmt.Sprintf("key %x below start %x delivered", p.K, start), h, i)
			}
		}
	}
	// order
	for j := 0; j+1 < len(got); j++ {
		if bytes.Compare(got[j].K, got[j+1].K) >= 0 {
			site := "other"
			if bytes.HasPrefix(got[j].K, got[j+1].K) {
				site = "prefix-key"
			}
			rn.violate("C02/iter-order:"+site, fmt.Sprintf("iteration delivers %x before %x (not ascending)", got[j].K, got[j+1].K), h, i)
			break
		}
	}
}

// run one history on the implementation; returns the Coq hop terms
func (rn *runner) run(h []op, universe [][]byte) (hops []string, jsn []string, s *sut) {
	hops, jsn, s, _ = rn.runB(h, universe)
	return
}

// runB additionally returns the layer-B observations (cache model: HarnessB.v)
func (rn *runner) runB(h []op, universe [][]byte) (hops []string, jsn []string, s *sut, hopsB []string) {
	s = newSut()
	emit := func(term string) { hops = append(hops, term); jsn = append(jsn, term) }
	emitB := func(term string) { hopsB = append(hopsB, term) }
	storeB := func() { // NodeDatabase.Nodes() and the disk keys
		var ms, ds []string
		for _, hsh := range s.tdb.Nodes() {
			ms = append(ms, hx.CoqHex(hsh[:]))
		}
		sort.Strings(ms)
		for _, k := range s.mem.Keys() {
			ds = append(ds, hx.CoqHex(k))
		}
		sort.Strings(ds)
		emitB(fmt.Sprintf("BStore %s %s", hx.CoqList(ms), hx.CoqList(ds)))
	}
	step := -1
	diskDumped := false
	defer func() {
		if p := recover(); p != nil {
			kind := "start"
			if step >= 0 && step < len(h) {
				kind = h[step].Kind
			}
			rn.violate("C02/panic:"+kind, fmt.Sprint(p), h, step)
			hops, hopsB = nil, nil
		}
	}()
	rootTerm := func(root common.Hash, withNode bool) string {
		enc := ""
		if withNode && len(s.shadow) > 0 {
			if b, err := s.tdb.Node(root); err == nil && len(b) <= 600 {
				enc = hex.EncodeToString(b)
			}
		}
		return fmt.Sprintf("HRoot %s %s", hx.CoqHex(root[:]), hx.CoqStr(enc))
	}
	for i, o := range h {
		step = i
		switch o.Kind {
		case "upd":
			if err := s.t.TryUpdate(o.K, o.V); err != nil {
				rn.violate("C02/missing-node:upd", err.Error(), h, i)
			}
			if len(o.V) == 0 {
				if _, ok := s.shadow[string(o.K)]; ok {
					rn.flags["del-present"] = true
				}
				delete(s.shadow, string(o.K))
			} else {
				if _, ok := s.shadow[string(o.K)]; ok {
					rn.flags["overwrite"] = true
				}
				s.shadow[string(o.K)] = o.V
			}
			emit(fmt.Sprintf("HUpd %s %s", hx.CoqHex(o.K), hx.CoqHex(o.V)))
			emitB(fmt.Sprintf("BUpd %s %s", hx.CoqHex(o.K), hx.CoqHex(o.V)))
			s.clean = false
		case "del":
			if err := s.t.TryDelete(o.K); err != nil {
				rn.violate("C02/missing-node:del", err.Error(), h, i)
			}
			if _, ok := s.shadow[string(o.K)]; ok {
				rn.flags["del-present"] = true
			}
			delete(s.shadow, string(o.K))
			emit(fmt.Sprintf("HDel %s", hx.CoqHex(o.K)))
			emitB(fmt.Sprintf("BDel %s", hx.CoqHex(o.K)))
			s.clean = false
		case "get":
			v, err := s.t.TryGet(o.K)
			if err != nil {
				rn.violate("C02/missing-node:get", err.Error(), h, i)
			}
			want := s.shadow[string(o.K)]
			if !bytes.Equal(v, want) {
				rn.violate("C02/read-last-write", fmt.Sprintf("TryGet(%x)=%x, last value written %x", o.K, v, want), h, i)
			}
			emit(fmt.Sprintf("HGet %s %s %s", hx.CoqHex(o.K), hx.CoqBool(len(v) > 0), hx.CoqHex(v)))
			emitB(fmt.Sprintf("BGet %s %s %s", hx.CoqHex(o.K), hx.CoqBool(len(v) > 0), hx.CoqHex(v)))
		case "hash":
			root := s.t.Hash()
			rn.checkRoot(s, root, h, i, "hash")
			emit(rootTerm(root, false))
			emitB(fmt.Sprintf("BHash %s", hx.CoqHex(root[:])))
		case "commit":
			root, err := s.t.Commit(nil)
			if err != nil {
				rn.violate("C02/missing-node:commit", err.Error(), h, i)
			}
			rn.checkRoot(s, root, h, i, "commit")
			rn.flags["commit"] = true
			emit(rootTerm(root, true))
			emitB(fmt.Sprintf("BCommit %s", hx.CoqHex(root[:])))
			storeB()
			s.roots, s.clean = append(s.roots, root), true
		case "flush": // commit and push the node database to disk; the trie keeps running
			root, err := s.t.Commit(nil)
			if err == nil {
				err = s.tdb.Commit(root, false)
			}
			if err != nil {
				rn.violate("C02/missing-node:flush", err.Error(), h, i)
			}
			emitB("BFlush")
			storeB()
			s.roots, s.clean = append(s.roots, root), true
			rn.flags["commit"] = true
		case "limit":
			s.t.SetCacheLimit(o.L)
			s.limit = o.L
			emitB(fmt.Sprintf("BLimit %d%%N", o.L))
			rn.flags["limit"] = true
		case "reopen-disk", "reopen-mem":
			root, err := s.t.Commit(nil)
			if err != nil {
				rn.violate("C02/missing-node:commit", err.Error(), h, i)
			}
			if o.Kind == "reopen-disk" {
				if err := s.tdb.Commit(root, false); err != nil {
					rn.violate("C02/reopen:db-commit", err.Error(), h, i)
				}
				s.tdb = trie.NewDatabase(s.store) // nothing survives but the disk content
				s.roots = nil
				// layer B observation: the whole disk store (hash -> node RLP), once per history and only when small
				if !diskDumped {
					keys := s.mem.Keys()
					sort.Slice(keys, func(a, b int) bool { return bytes.Compare(keys[a], keys[b]) < 0 })
					total, items := 0, make([]string, 0, len(keys))
					for _, k := range keys {
						v, _ := s.mem.Get(k)
						total += 2 * (len(k) + len(v))
						items = append(items, fmt.Sprintf("(%s, %s)", hx.CoqHex(k), hx.CoqHex(v)))
					}
					if total <= 2400 {
						diskDumped = true
						rn.flags["disk-dump"] = true
						emit(fmt.Sprintf("HDisk %s %s", hx.CoqHex(root[:]), hx.CoqList(items)))
					}
				}
			}
			t2, err := trie.NewTrie(root, s.tdb)
			if err != nil {
				rn.violate("C02/reopen:"+o.Kind, "committed root cannot be opened: "+err.Error(), h, i)
				return nil, nil, s, nil
			}
			s.t = t2
			s.t.SetCacheLimit(s.limit)
			root2 := s.t.Hash()
			if root2 != root {
				rn.violate("C02/reopen:"+o.Kind, fmt.Sprintf("root after reload %x differs from the committed root %x", root2, root), h, i)
			}
			rn.checkRoot(s, root2, h, i, o.Kind)
			rn.flags["reload"] = true
			emit(rootTerm(root2, true))
			if o.Kind == "reopen-disk" {
				emitB(fmt.Sprintf("BReopenDisk %s", hx.CoqHex(root2[:])))
			} else {
				emitB(fmt.Sprintf("BReopenMem %s", hx.CoqHex(root2[:])))
			}
			storeB()
			s.roots, s.clean = append(s.roots, root), true
		case "deref":
			// NodeDatabase.Dereference of an older root, as the chain does once a newer root is committed
			if s.clean && len(s.roots) >= 2 {
				cur := s.roots[len(s.roots)-1]
				for j, r := range s.roots[:len(s.roots)-1] {
					if r != cur && r != (common.Hash{}) {
						s.tdb.Dereference(r)
						var keep []common.Hash
						for _, q := range s.roots {
							if q != r {
								keep = append(keep, q)
							}
						}
						_ = j
						s.roots = keep
						rn.flags["deref"] = true
						emitB(fmt.Sprintf("BDeref %s", hx.CoqHex(r[:])))
						storeB()
						break
					}
				}
			}
		case "iter":
			got, err := listing(s.t, o.K)
			rn.checkIter(s, o.K, got, err, h, i)
			items := make([]string, len(got))
			for j, p := range got {
				items[j] = fmt.Sprintf("(%s, %s)", hx.CoqHex(p.K), hx.CoqHex(p.V))
			}
			emit(fmt.Sprintf("HIter %s %s", hx.CoqHex(o.K), hx.CoqList(items)))
			emitB(fmt.Sprintf("BIter %s %s", hx.CoqHex(o.K), hx.CoqList(items)))
		}
	}
	// end of history: every key of the universe reads its last write; root; full iteration
	step = len(h)
	hEnd := append(append([]op{}, h...), op{Kind: "final"})
	for _, k := range universe {
		v, err := s.t.TryGet(k)
		if err != nil {
			rn.violate("C02/missing-node:get", err.Error(), hEnd, len(h))
		}
		if want := s.shadow[string(k)]; !bytes.Equal(v, want) {
			rn.violate("C02/read-last-write", fmt.Sprintf("TryGet(%x)=%x, last value written %x", k, v, want), hEnd, len(h))
		}
		emit(fmt.Sprintf("HGet %s %s %s", hx.CoqHex(k), hx.CoqBool(len(v) > 0), hx.CoqHex(v)))
		emitB(fmt.Sprintf("BGet %s %s %s", hx.CoqHex(k), hx.CoqBool(len(v) > 0), hx.CoqHex(v)))
	}
	got, err := listing(s.t, nil)
	rn.checkIter(s, nil, got, err, hEnd, len(h))
	items := make([]string, len(got))
	for j, p := range got {
		items[j] = fmt.Sprintf("(%s, %s)", hx.CoqHex(p.K), hx.CoqHex(p.V))
	}
	emit(fmt.Sprintf("HIter %s %s", hx.CoqHex(nil), hx.CoqList(items)))
	emitB(fmt.Sprintf("BIter %s %s", hx.CoqHex(nil), hx.CoqList(items)))
	root := s.t.Hash()
	rn.checkRoot(s, root, hEnd, len(h), "final")
	emit(rootTerm(root, false))
	emitB(fmt.Sprintf("BHash %s", hx.CoqHex(root[:])))
	return
}

func class(s *sut, flags map[string]bool) string {
	n := len(s.shadow)
	live := "0"
	switch {
	case n == 1:
		live = "1"
	case n >= 2 && n <= 3:
		live = "2-3"
	case n >= 4:
		live = "4+"
	}
	f := []string{}
	for _, k := range []string{"del-present", "overwrite", "commit", "reload", "limit", "disk-dump", "deref"} {
		if flags[k] {
			f = append(f, k)
		}
	}
	pp := ""
	if isProperPrefixPair(sortedKeys(s.shadow)) {
		pp = " prefix-keys"
	}
	return "live=" + live + pp + " " + strings.Join(f, "+")
}

// size of the history as Coq source and an estimate of the model's hashing work
func modelCost(hops []string) (src int, roots int) {
	for _, t := range hops {
		src += len(t)
		if strings.HasPrefix(t, "HRoot") {
			roots++
		}
	}
	return
}

// ---------------------------------------------------------------- flushes of several batches with a failing write
// bigFlush: phase 1 writes n1 keys and flushes them; phase 2 overwrites some, deletes some and adds n2 keys
// with values of 2-4 KiB (several hundred KiB, so the flush takes several 100 KiB batches), commits the trie
// and flushes through NodeDatabase.Commit or Cap while the failAt-th batch Write fails (0 = none).
// Contract: EITHER the flush reports an error - then everything still reads correctly from memory and a
// retry persists everything - OR after reopening from disk every live key reads its last value and the
// root is the committed one. Returns the number of batch writes the failing-free flush takes.
func bigFlush(res *hx.Result, seed uint64, via string, failAt int, report bool) (writes int) {
	r := hx.NewRng(seed)
	s := newSut()
	desc := map[string]interface{}{"experiment": "bigflush", "seed": seed, "via": via, "fail_write_call": failAt}
	viol := func(key, what string) {
		if report {
			res.Violate(key, what, desc)
		}
	}
	defer func() {
		if p := recover(); p != nil {
			viol("C02/panic:flush-with-write-failure", fmt.Sprint(p))
		}
	}()
	put := func(k, v []byte) {
		if err := s.t.TryUpdate(k, v); err != nil {
			viol("C02/missing-node:upd", err.Error())
		}
		if len(v) == 0 {
			delete(s.shadow, string(k))
		} else {
			s.shadow[string(k)] = v
		}
	}
	var keys [][]byte
	pre := r.Bytes(20)
	newKey := func() []byte {
		var k []byte
		if r.Intn(3) == 0 {
			k = append(append([]byte{}, pre...), r.Bytes(2)...)
		} else {
			k = r.Bytes(32)
		}
		keys = append(keys, k)
		return k
	}
	for i := 0; i < 30; i++ {
		put(newKey(), r.Bytes(2048+r.Intn(2048)))
	}
	root, err := s.t.Commit(nil)
	if err == nil {
		err = s.tdb.Commit(root, false)
	}
	if err != nil {
		viol("C02/missing-node:flush", err.Error())
	}
	for i := 0; i < 10; i++ {
		put(keys[r.Intn(len(keys))], r.Bytes(2048+r.Intn(2048)))
	}
	for i := 0; i < 5; i++ {
		put(keys[r.Intn(len(keys))], nil)
	}
	for i := 0; i < 110; i++ {
		put(newKey(), r.Bytes(2048+r.Intn(2048)))
	}
	root, err = s.t.Commit(nil)
	if err != nil {
		viol("C02/missing-node:commit", err.Error())
	}
	readAll := func(where, missKey string) {
		for _, k := range keys {
			v, err := s.t.TryGet(k)
			if err != nil {
				viol(missKey, fmt.Sprintf("%s: TryGet(%x): %v", where, k, err))
				return
			}
			if want := s.shadow[string(k)]; !bytes.Equal(v, want) {
				viol("C02/read-last-write:after-failed-flush", fmt.Sprintf("%s: TryGet(%x) returns %d bytes %x.., last value written has %d bytes", where, k, len(v), v[:minInt(8, len(v))], len(want)))
				return
			}
		}
	}
	flush := func() error {
		if via == "cap" {
			return s.tdb.Cap(0)
		}
		return s.tdb.Commit(root, false)
	}
	s.store.writes, s.store.failAt = 0, failAt
	ferr := flush()
	writes = s.store.writes
	s.store.failAt = 0
	if ferr != nil {
		// reported: memory still serves everything, a retry persists everything
		readAll("after the flush reported an error", "C02/missing-node:get")
		if h := s.t.Hash(); h != root {
			viol("C02/root-history:after-failed-flush", fmt.Sprintf("root %x changed to %x by a failed flush", root, h))
		}
		if err := flush(); err != nil {
			viol("C02/commit:retry-failed", "retry of the flush without failure: "+err.Error())
		}
	}
	// restart: nothing survives but the disk content
	s.tdb = trie.NewDatabase(s.store)
	t2, err := trie.NewTrie(root, s.tdb)
	if err != nil {
		viol("C02/commit:success-reported-nodes-missing", fmt.Sprintf("flush via %s (write call %d failing, error reported: %v) then restart: committed root %x cannot be opened: %v", via, failAt, ferr != nil, root, err))
		return
	}
	s.t = t2
	readAll(fmt.Sprintf("after flush via %s (write call %d failing, error reported: %v) and restart", via, failAt, ferr != nil), "C02/commit:success-reported-nodes-missing")
	if h := s.t.Hash(); h != root {
		viol("C02/reopen:reopen-disk", fmt.Sprintf("root after restart %x differs from the committed root %x", h, root))
	}
	if want := specRoot(s.shadow); want != root {
		viol("C02/root-spec:reopen-disk", fmt.Sprintf("root %x differs from the Yellow-Paper root %x of the content", root, want))
	}
	got, lerr := listing(s.t, nil)
	if lerr != nil {
		viol("C02/commit:success-reported-nodes-missing", "iteration after restart: "+lerr.Error())
	} else if len(got) != len(s.shadow) {
		viol("C02/iter-content:missing", fmt.Sprintf("iteration after restart delivers %d pairs, content has %d", len(got), len(s.shadow)))
	}
	if report {
		cls := "bigflush via=" + via + " reported-error=" + fmt.Sprint(ferr != nil)
		res.Count(cls, fmt.Sprintf("bigflush/%d/%s/%d", seed, via, failAt), true)
	}
	return
}

func main() {
	a := hx.ParseArgs()
	rng := hx.NewRng(a.Seed)
	res := hx.NewResult("cases = operation histories (update / delete / get / hash / commit / flush-to-disk / reopen from disk or from the node cache / " +
		"cache limit / iterate) over key universes with 1-3-nibble alphabets, prefix chains, long shared prefixes, 32-byte keys, keys of 64-300 bytes sharing prefixes of >= 128 bytes (iterated fully and from seek positions); values of length 0,1,2,5,20,27-33,100, long values (33-150 bytes) overwritten by same-length values differing in the head / at the 32-byte boundary / in the tail / in one byte and RLP-looking bytes; " +
		"plus every history up to a fixed length over a 4-key universe {12, 1234, 1235, 22} x values {1 byte, 29 bytes, 33 bytes} x delete. " +
		"non-trivial = distinct history during which the trie held at least two keys at once (so a branch node existed)")
	perShard := 40 // every case costs the model several Keccak-256 evaluations (~0.1 s)
	if a.Tier == "thorough" {
		perShard = 80 // keep the number of shards (coqc processes) below ~80
	}
	cs := hx.NewCases(a.Out, "From V.C02 Require Import Model Harness.", "list hop", "check", perShard)
	csB := hx.NewCasesNamed(a.Out, "b", "From V.C02 Require Import HarnessB.", "list hopB", "checkB", perShard)
	nDeep := 0
	nBcases, bEvery := 0, 3 // quick: every third eligible history also through the cache model
	if a.Tier == "thorough" {
		bEvery = 1
	}
	rn := &runner{res: res, rng: rng.Fork(), seen: map[string]int{}}

	doOne := func(h []op, uni [][]byte, toModel bool, sample bool) {
		rn.flags = map[string]bool{}
		// did the trie ever hold >= 2 keys?
		live, max2 := map[string]bool{}, false
		for _, o := range h {
			if o.Kind == "upd" && len(o.V) > 0 {
				live[string(o.K)] = true
			} else if o.Kind == "del" || o.Kind == "upd" {
				delete(live, string(o.K))
			}
			if len(live) >= 2 {
				max2 = true
			}
		}
		hops, jsn, s, hopsB := rn.runB(h, uni)
		rn.flush()
		id := histString(h)
		res.Count(class(s, rn.flags), id, max2)
		if hops == nil {
			return
		}
		if toModel {
			limit := 3000 * 2
			for _, k := range uni {
				if len(k) > 60 {
					limit = 40000 // long keys (short values) are cheap for the model; only the source text is long
				}
			}
			if limit > 3000*2 { // of the long-key histories every fourth goes through the models (the direct checks run on all)
				nDeep++
				if nDeep%4 != 1 {
					limit = 0
				}
			}
			if src, _ := modelCost(hops); src <= limit {
				cs.Add(hx.CoqList(hops), map[string]interface{}{"history": id, "observed": jsn})
				// layer B (cache model): histories that commit / reload / set a cache limit
				if hopsB != nil && (rn.flags["commit"] || rn.flags["reload"] || rn.flags["limit"]) {
					if srcB, _ := modelCost(hopsB); srcB <= 3000*2 && nBcases%bEvery == 0 && csB.Total() < 1600 { // at most 20 more shards
						csB.Add(hx.CoqList(hopsB), map[string]interface{}{"history": id, "observedB": hopsB})
					}
					nBcases++
				}
			} else if limit > 0 {
				res.Histogram["model-skipped-too-large"]++
			}
		}
		if sample {
			obs := jsn
			if len(obs) > 6 {
				obs = obs[len(obs)-6:]
			}
			res.Sample(map[string]interface{}{"history": trunc(id, 400), "observed_tail": obs})
		}
	}

	// ---- fixed corpus (runs first): the Ethereum vector and the branch-forcing shapes
	S := func(s string) []byte { return []byte(s) }
	corpus := [][]op{
		{{Kind: "upd", K: S("doe"), V: S("reindeer")}, {Kind: "upd", K: S("dog"), V: S("puppy")}, {Kind: "upd", K: S("dogglesworth"), V: S("cat")}, {Kind: "commit"}, {Kind: "iter"}},
		{{Kind: "upd", K: S("a"), V: S("1")}, {Kind: "upd", K: S("ab"), V: S("2")}, {Kind: "iter"}, {Kind: "del", K: S("a")}, {Kind: "iter"}},
		{{Kind: "upd", K: S(""), V: S("x")}, {Kind: "upd", K: S("\x00"), V: S("y")}, {Kind: "hash"}, {Kind: "del", K: S("")}, {Kind: "hash"}},
		{{Kind: "upd", K: S("\x12\x34"), V: bytes.Repeat([]byte{7}, 33)}, {Kind: "upd", K: S("\x12\x35"), V: bytes.Repeat([]byte{8}, 33)}, {Kind: "commit"}, {Kind: "commit"}, {Kind: "del", K: S("\x12\x35")}, {Kind: "commit"}, {Kind: "reopen-disk"}},
		{{Kind: "upd", K: S("\x12\x34"), V: bytes.Repeat([]byte{7}, 33)}, {Kind: "upd", K: S("\x12\x35"), V: bytes.Repeat([]byte{8}, 33)}, {Kind: "upd", K: S("\x12\x45"), V: bytes.Repeat([]byte{9}, 33)}, {Kind: "flush"}, {Kind: "reopen-disk"}, {Kind: "del", K: S("\x12\x45")}, {Kind: "hash"}},
		{{Kind: "limit", L: 1}, {Kind: "upd", K: S("\x01"), V: bytes.Repeat([]byte{1}, 40)}, {Kind: "upd", K: S("\x02"), V: bytes.Repeat([]byte{2}, 40)}, {Kind: "commit"}, {Kind: "commit"}, {Kind: "commit"}, {Kind: "upd", K: S("\x01"), V: nil}, {Kind: "commit"}},
	}
	{ // long-value overwrites (every position class) and deep shared prefixes, deterministic
		v := bytes.Repeat([]byte{0xaa}, 40)
		for _, pos := range []int{0, 7, 8, 39} {
			w := append([]byte{}, v...)
			w[pos] ^= 0x55
			corpus = append(corpus, []op{{Kind: "upd", K: S("\x12\x34"), V: v}, {Kind: "upd", K: S("\x12\x35"), V: []byte{1}}, {Kind: "commit"},
				{Kind: "upd", K: S("\x12\x34"), V: w}, {Kind: "get", K: S("\x12\x34")}, {Kind: "hash"}})
		}
		for _, L := range []int{127, 128, 129, 300} {
			p := bytes.Repeat([]byte{0x5a}, L)
			k := func(ext ...byte) []byte { return append(append([]byte{}, p...), ext...) }
			corpus = append(corpus, []op{{Kind: "upd", K: k(0x10), V: []byte{1}}, {Kind: "upd", K: k(0x2f), V: []byte{2}}, {Kind: "upd", K: k(0x2f, 0x01), V: []byte{3}},
				{Kind: "upd", K: k(0xf0, 0x33), V: []byte{4}}, {Kind: "upd", K: []byte{0xff, 0xfe}, V: []byte{5}}, {Kind: "upd", K: append(append([]byte{}, p[:L-1]...), 0x5b), V: []byte{6}},
				{Kind: "iter"}, {Kind: "iter", K: k(0x2f)}, {Kind: "commit"}, {Kind: "iter", K: p[:L/2]}})
		}
	}
	for _, h := range corpus {
		var uni [][]byte
		for _, o := range h {
			if o.K != nil {
				uni = append(uni, o.K)
			}
		}
		doOne(h, uni, true, true)
	}

	// ---- exhaustive small scope
	exKeys := [][]byte{{0x12}, {0x12, 0x34}, {0x12, 0x35}, {0x22}}
	exVals := [][]byte{{0x61}, bytes.Repeat([]byte{0x62}, 33), bytes.Repeat([]byte{0x63}, 29), nil} // 29: leaf RLP of exactly 32 bytes
	var exOps []op
	for _, k := range exKeys {
		for _, v := range exVals {
			if v == nil {
				exOps = append(exOps, op{Kind: "del", K: k})
			} else {
				exOps = append(exOps, op{Kind: "upd", K: k, V: v})
			}
		}
	}
	goLen, modelLen := 3, 2
	if a.Tier == "thorough" {
		goLen, modelLen = 5, 3
	}
	var rec func(pre []op, d int)
	nEx := 0
	rec = func(pre []op, d int) {
		if len(pre) > 0 {
			h := append([]op{}, pre...)
			if len(pre) == goLen && len(pre) > modelLen { // longest ones also get a reload to cover commit/decode paths
				h = append(h, op{Kind: []string{"reopen-disk", "reopen-mem", "commit"}[nEx%3]})
			}
			// through the model: everything up to length 2; of length 3 (thorough) every 4th
			doOne(h, exKeys, len(pre) <= 2 || (len(pre) <= modelLen && nEx%4 == 0), false)
			nEx++
		}
		if d == 0 {
			return
		}
		for _, o := range exOps {
			rec(append(pre, o), d-1)
		}
	}
	rec(nil, goLen)
	res.Exhaustive = true
	res.Note(fmt.Sprintf("exhaustive: all %d histories of length <= %d over %d update/delete operations on keys {12,1234,1235,22} (direct checks), those of length <= 2 (thorough: and every 4th of length 3) also through the model", nEx, goLen, len(exOps)))

	// ---- generated histories
	for i := 0; i < a.N; i++ {
		r := rng.Fork()
		h, _ := genHistory(r)
		uniSet := map[string]bool{}
		var uni [][]byte
		for _, o := range h {
			if o.K != nil && !uniSet[string(o.K)] && (o.Kind == "upd" || o.Kind == "del") {
				uniSet[string(o.K)] = true
				uni = append(uni, o.K)
			}
		}
		doOne(h, uni, true, i%53 == 0)
	}

	// ---- direct search only (no model): many more generated histories ...
	extra := 20 * a.N
	for i := 0; i < extra; i++ {
		r := rng.Fork()
		h, _ := genHistory(r)
		uniSet := map[string]bool{}
		var uni [][]byte
		for _, o := range h {
			if o.K != nil && !uniSet[string(o.K)] && (o.Kind == "upd" || o.Kind == "del") {
				uniSet[string(o.K)] = true
				uni = append(uni, o.K)
			}
		}
		doOne(h, uni, false, false)
	}
	// ... and every interleaving of writes with hash / commit / flush / reload up to a fixed length, with and
	// without a cache limit of 1 generation (stale cached hashes, unloaded nodes, reload of embedded nodes)
	bKeys := [][]byte{{0x12}, {0x12, 0x34}, {0x12, 0x35}}
	var bOps []op
	for _, k := range bKeys {
		bOps = append(bOps, op{Kind: "upd", K: k, V: []byte{0x61}}, op{Kind: "upd", K: k, V: bytes.Repeat([]byte{0x62}, 29)}, op{Kind: "del", K: k})
	}
	bOps = append(bOps, op{Kind: "hash"}, op{Kind: "commit"}, op{Kind: "flush"}, op{Kind: "reopen-disk"}, op{Kind: "reopen-mem"})
	bLen := 4
	if a.Tier == "thorough" {
		bLen = 5
	}
	nB := 0
	var recB func(pre []op, d int)
	recB = func(pre []op, d int) {
		if len(pre) > 1 {
			// both cache limits up to length 4; at length 5 (thorough) alternately one of them
			if len(pre) <= 4 || nB%2 == 0 {
				doOne(append([]op{}, pre...), bKeys, false, false)
			}
			if len(pre) <= 4 || nB%2 == 1 {
				doOne(append([]op{{Kind: "limit", L: 1}}, pre...), bKeys, false, false)
			}
			nB++
		}
		if d == 0 {
			return
		}
		for _, o := range bOps {
			if len(pre) > 0 && o.K == nil && pre[len(pre)-1].K == nil && o.Kind == pre[len(pre)-1].Kind && o.Kind == "hash" {
				continue // hash;hash adds nothing
			}
			recB(append(pre, o), d-1)
		}
	}
	recB(nil, bLen)
	res.Note(fmt.Sprintf("direct search without model: %d more generated histories; exhaustive: all %d histories of length 2..%d over %d operations (3 keys x {1-byte, 29-byte value (leaf RLP of exactly 32 bytes), delete}, hash, commit, flush, reopen-disk, reopen-mem), each with cache limit 0 and 1 (length 5: alternately one of the two)", extra, nB, bLen, len(bOps)))

	// ---- flushes of several batches with one transiently failing batch write (first / middle / last), via Commit and Cap
	nBig := 2
	if a.Tier == "thorough" {
		nBig = 12
	}
	nFlush := 0
	for i := 0; i < nBig; i++ {
		seed := rng.U64()
		for _, via := range []string{"commit", "cap"} {
			w := bigFlush(res, seed, via, 0, true)
			ks := map[int]bool{1: true, (w + 1) / 2: true, w: true, 2: true}
			for k := 1; k <= w; k++ {
				if ks[k] {
					bigFlush(res, seed, via, k, true)
					nFlush++
				}
			}
		}
	}
	res.Note(fmt.Sprintf("flush-with-write-failure: %d flushes of ~400 KiB (several 100 KiB batches) through NodeDatabase.Commit / Cap with the first / second / middle / last batch write failing once; contract: error reported (then memory serves all reads, retry persists) or everything readable after restart from disk; direct checks only (values of 2-4 KiB are not sent to the model; a reported failed flush is a no-op on the abstract content)", nFlush))

	cs.Close()
	csB.Close()
	res.Note(fmt.Sprintf("layer B (cache model, HarnessB.v): %d histories with commit / flush / reopen / cache limit re-evaluated through the model with node flags, hash placeholders and the NodeDatabase (reads, roots, listings, exact memory-cache and disk node sets)", csB.Total()))
	res.ModelCases = cs.Total() + csB.Total()
	res.Write(a.Out)
	keys := make([]string, 0, len(res.Histogram))
	for k := range res.Histogram {
		keys = append(keys, k)
	}
	sort.Strings(keys)
	for _, k := range keys {
		fmt.Printf("%6d  %s\n", res.Histogram[k], k)
	}
	fmt.Printf("evaluations=%d distinct_nontrivial=%d model_cases=%d violations=%d\n", res.Evaluations, res.DistinctNontrivial, res.ModelCases, len(res.Violations))
}

func minInt(a, b int) int {
	if a < b {
		return a
	}
	return b
}

func trunc(s string, n int) string {
	if len(s) > n {
		return s[:n] + "..."
	}
	return s
}
