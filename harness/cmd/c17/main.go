// C17 harness: the real TxPool (src/service) driven by random operation sequences, compared step by
// step with the Coq model, plus direct evaluation of the at-most-once / packing predicates on the
// implementation, a deterministic replay of the check;mark-executed;push schedule and (thorough) a
// free-running goroutine soak.
package main

import (
	"encoding/hex"
	"fmt"
	"math"
	"math/big"
	"os"
	"sort"
	"strings"
	"sync"
	"sync/atomic"
	"time"

	"com.tuntun.rangers/node/src/common"
	"com.tuntun.rangers/node/src/middleware"
	"com.tuntun.rangers/node/src/middleware/db"
	"com.tuntun.rangers/node/src/middleware/types"
	"com.tuntun.rangers/node/src/service"
	"com.tuntun.rangers/node/src/storage/account"
	"verif/harness/hx"
)

var (
	perBlock, poolSize = service.VerifLimits()
	res                *hx.Result
	sharedStore        db.Database // real LevelDB-backed store shared by some cases (hashes are case-unique)
	blockNo            uint64
)

// ---------- flags ----------
type flags struct{ p16, p18, p21, p23 bool }

func setFlags(f flags) flags {
	h := func(b bool) uint64 {
		if b {
			return 0
		}
		return math.MaxUint64
	}
	common.LocalChainConfig.Proposal016Block = h(f.p16)
	common.LocalChainConfig.Proposal018Block = h(f.p18)
	common.LocalChainConfig.Proposal021Block = h(f.p21)
	common.LocalChainConfig.Proposal023Block = h(f.p23)
	// what the code will see
	return flags{common.IsProposal016(), common.IsProposal018(), common.IsProposal021(), common.IsProposal023()}
}

func (f flags) coq() string {
	return fmt.Sprintf("(%s, %s, %s, %s)", hx.CoqBool(f.p16), hx.CoqBool(f.p18), hx.CoqBool(f.p21), hx.CoqBool(f.p23))
}
func (f flags) String() string {
	return fmt.Sprintf("p016=%v,p018=%v,p021=%v,p023=%v", f.p16, f.p18, f.p21, f.p23)
}
func (f flags) orderOK() bool { return f.p23 || f.p21 || !f.p16 }

// ---------- transactions ----------
func txNum(tx *types.Transaction) (h, s *big.Int) {
	return new(big.Int).SetBytes(tx.Hash.Bytes()), new(big.Int).SetBytes(common.FromHex(tx.Source))
}

func coqTx(tx *types.Transaction) string {
	h, s := txNum(tx)
	return fmt.Sprintf("T %s %s %d %d", h.String(), s.String(), tx.Nonce, tx.RequestId)
}

func descTx(tx *types.Transaction) map[string]interface{} {
	return map[string]interface{}{"hash": tx.Hash.Hex(), "source": tx.Source, "nonce": tx.Nonce, "requestId": tx.RequestId}
}

func coqIdx(is []int) string {
	p := make([]string, len(is))
	for i, v := range is {
		p[i] = fmt.Sprintf("%d", v)
	}
	return "[" + strings.Join(p, "; ") + "]"
}

type caseGen struct {
	r       *hx.Rng
	f       flags
	lim     int
	pool    *service.TxPool
	tbl     []*types.Transaction
	byPtr   map[*types.Transaction]int
	srcs    []string
	base    map[string]uint64
	blocks  [][2][]int // marked blocks: txs idx, ev idx
	steps   []string
	js      []interface{}
	big     bool
	shared  bool
	caseTag string

	plainPack bool
	detached  bool // a Clear() has swapped the executed store: later MarkExecuted records are not visible
	dead      bool // MarkExecuted panicked: the case ends
}

func (g *caseGen) genHash() common.Hash {
	var h common.Hash
	c := g.r.Intn(6)
	if g.shared && c == 0 {
		c = 5 // records in the shared store outlive the case: only collision-free hashes there
	}
	switch c {
	case 0: // small number
		b := g.r.Bytes(1 + g.r.Intn(3))
		copy(h[32-len(b):], b)
		// keep case-unique: mix in the case tag at the top would change ordering; instead re-draw below on clash
	case 1: // differs from another table hash in the last byte only
		if len(g.tbl) > 0 {
			h = g.tbl[g.r.Intn(len(g.tbl))].Hash
			h[31] ^= byte(1 + g.r.Intn(255))
			break
		}
		copy(h[:], g.r.Bytes(32))
	default:
		copy(h[:], g.r.Bytes(32))
	}
	return h
}

func (g *caseGen) newTx() *types.Transaction {
	src := g.srcs[g.r.Intn(len(g.srcs))]
	b := g.base[src]
	var nonce uint64
	d := uint64(g.r.Intn(7))
	if d <= 2 && b >= 2-d {
		nonce = b - (2 - d)
	} else if d <= 2 {
		nonce = b
	} else {
		nonce = b + d - 2
	}
	if g.r.Intn(5) == 0 { // uint64 boundary nonces, absolute and relative to the sender's state nonce
		nonce = g.boundary(b)
	}
	var rid uint64
	switch g.r.Intn(10) {
	case 0, 1:
		rid = uint64(1 + g.r.Intn(5))
	case 2:
		rid = g.r.U64()>>1 | 1
	}
	tx := &types.Transaction{Source: src, Target: "0x" + hex.EncodeToString(g.r.Bytes(20)), Nonce: nonce, RequestId: rid,
		Type: 188, Data: "d", ChainId: "9500", Time: "t"}
	tx.Hash = g.genHash()
	if len(g.tbl) > 0 && g.r.Intn(8) == 0 { // another object with an existing hash
		tx.Hash = g.tbl[g.r.Intn(len(g.tbl))].Hash
	}
	if rid != 0 && g.r.Bool() {
		tx.SubTransactions = []types.UserData{{Address: uint64(g.r.Intn(100))}}
	}
	return tx
}

// boundary values of uint64 nonce arithmetic: around 2^63 (sign bit), around 2^64 (wrap-around), and at
// those distances from a base value
func (g *caseGen) boundary(base uint64) uint64 {
	const h = uint64(1) << 63
	vals := []uint64{h - 1, h, h + 1, math.MaxUint64, math.MaxUint64 - 1, 0, 1,
		base + h, base + h - 1, base + h + 1, base - 1, base + math.MaxUint64 - 1, base + 1, base}
	return vals[g.r.Intn(len(vals))]
}

func (g *caseGen) addTbl(tx *types.Transaction) int {
	g.tbl = append(g.tbl, tx)
	g.byPtr[tx] = len(g.tbl) - 1
	return len(g.tbl) - 1
}

// index of the table entry equal (hash, source, nonce, request id) to tx
func (g *caseGen) findEq(tx *types.Transaction) int {
	for i, t := range g.tbl {
		if t.Hash == tx.Hash && t.Source == tx.Source && t.Nonce == tx.Nonce && t.RequestId == tx.RequestId {
			return i
		}
	}
	return -1
}

func (g *caseGen) recvIdx() []int {
	rc := g.pool.GetReceived()
	is := make([]int, len(rc))
	for i, t := range rc {
		ix, ok := g.byPtr[t]
		if !ok {
			ix = g.findEq(t)
		}
		is[i] = ix
	}
	return is
}

func (g *caseGen) emit(term string, js interface{}, observeRecv bool) {
	rv := "None"
	if observeRecv {
		rv = "Some " + coqIdx(g.recvIdx())
	}
	g.steps = append(g.steps, "("+term+", "+rv+")")
	g.js = append(g.js, js)
}

func violate(key, what string, input interface{}) { res.Violate(key, what, input) }

// property predicates evaluated on the implementation after every operation
func (g *caseGen) checkDisjoint(after string) {
	seen := map[common.Hash]bool{}
	for _, t := range g.pool.GetReceived() {
		if seen[t.Hash] {
			violate("C17/at-most-once:duplicate-pending", "two pending entries with one hash after "+after, g.history())
		}
		seen[t.Hash] = true
		if g.pool.GetExecuted(t.Hash) != nil {
			violate("C17/at-most-once:pending-and-executed", "a transaction is pending and executed after "+after, g.history())
		}
	}
}

func (g *caseGen) history() interface{} {
	return map[string]interface{}{"case": g.caseTag, "flags": g.f.String(), "limit": g.lim, "ops": g.js}
}

func mkState(nonces map[string]uint64) *account.AccountDB {
	mem, _ := db.NewMemDatabase()
	adb, err := account.NewAccountDB(common.Hash{}, account.NewDatabase(mem))
	if err != nil {
		panic(err)
	}
	for s, n := range nonces {
		if n != 0 {
			adb.SetNonce(common.HexToAddress(s), n)
		}
	}
	return adb
}

// direct evaluation of the packing clause on a PackForCast result
func checkPack(f flags, packed []*types.Transaction, recv []*types.Transaction, pool *service.TxPool, nonces map[string]uint64, input func() interface{}) {
	if len(packed) > perBlock {
		violate("C17/pack:over-limit", fmt.Sprintf("%d transactions packed, limit %d", len(packed), perBlock), input())
	}
	inRecv := map[*types.Transaction]bool{}
	for _, t := range recv {
		inRecv[t] = true
	}
	seen := map[common.Hash]bool{}
	exp := map[string]uint64{}
	past64 := map[string]bool{} // the mathematical expected nonce has reached 2^64: no uint64 nonce is ahead of it
	last := map[string]uint64{}
	has := map[string]bool{}
	for _, t := range packed {
		if seen[t.Hash] {
			violate("C17/pack:duplicate", "hash packed twice: "+t.Hash.Hex(), input())
		}
		seen[t.Hash] = true
		if !inRecv[t] {
			violate("C17/pack:not-pending", "packed transaction is not pending: "+t.Hash.Hex(), input())
		}
		if pool.GetExecuted(t.Hash) != nil {
			violate("C17/pack:executed-packed", "executed transaction packed again: "+t.Hash.Hex(), input())
		}
		if !f.p18 || t.RequestId != 0 {
			continue
		}
		if !(f.p16 || f.p21 || f.p23) {
			continue
		}
		e, ok := exp[t.Source]
		if !ok {
			e = nonces[t.Source]
		}
		if !past64[t.Source] {
			if t.Nonce > e {
				violate("C17/pack:ahead-of-nonce", fmt.Sprintf("nonce %d packed, sender's next expected nonce %d", t.Nonce, e), input())
			}
			if t.Nonce == e {
				if e == math.MaxUint64 {
					past64[t.Source] = true
				} else {
					e++
				}
			}
		}
		exp[t.Source] = e
		if f.orderOK() && has[t.Source] && t.Nonce < last[t.Source] {
			violate("C17/pack:not-ascending", fmt.Sprintf("nonce %d after %d for %s", t.Nonce, last[t.Source], t.Source), input())
		}
		has[t.Source], last[t.Source] = true, t.Nonce
	}
}

func safeLess(a, b *types.Transaction) (r int) {
	defer func() {
		if recover() != nil {
			r = 2
		}
	}()
	if (types.Transactions{a, b}).Less(0, 1) {
		return 1
	}
	return 0
}

func (g *caseGen) mark(txIdx, evIdx []int) {
	blockNo++
	var bh common.Hash
	copy(bh[:], g.r.Bytes(32))
	header := &types.BlockHeader{Height: blockNo, Hash: bh}
	var receipts types.Receipts
	var txs []*types.Transaction
	for _, i := range txIdx {
		t := g.tbl[i]
		txs = append(txs, t)
		receipts = append(receipts, &types.Receipt{TxHash: t.Hash, Height: blockNo, Status: uint(g.r.Intn(2)), Source: t.Source})
	}
	var ev []common.Hash
	for _, i := range evIdx {
		ev = append(ev, g.tbl[i].Hash)
	}
	header.EvictedTxs = ev
	g.pool.MarkExecuted(header, receipts, txs, ev)
}

// MarkExecuted with receipts that are NOT aligned with the block's transactions: receipts for a shuffled
// subset of the block, sometimes one for a transaction the block does not contain (panics)
func (g *caseGen) markCall(rcIdx, txIdx, evIdx []int) (panicked bool) {
	blockNo++
	header := &types.BlockHeader{Height: blockNo}
	var receipts types.Receipts
	var txs []*types.Transaction
	for _, i := range rcIdx {
		receipts = append(receipts, &types.Receipt{TxHash: g.tbl[i].Hash, Height: blockNo})
	}
	for _, i := range txIdx {
		txs = append(txs, g.tbl[i])
	}
	var ev []common.Hash
	for _, i := range evIdx {
		ev = append(ev, g.tbl[i].Hash)
	}
	defer func() {
		if recover() != nil {
			panicked = true
		}
	}()
	g.pool.MarkExecuted(header, receipts, txs, ev)
	return false
}

func (g *caseGen) unmarkBlock(txIdx, evIdx []int) {
	var bh common.Hash
	copy(bh[:], g.r.Bytes(32))
	var ev []common.Hash
	for _, i := range evIdx {
		ev = append(ev, g.tbl[i].Hash)
	}
	var txs []*types.Transaction
	for _, i := range txIdx {
		txs = append(txs, g.tbl[i])
	}
	g.pool.UnMarkExecuted(&types.Block{Header: &types.BlockHeader{Height: 1, Hash: bh, EvictedTxs: ev}, Transactions: txs})
}

func (g *caseGen) pickTbl(n int) []int {
	out := []int{}
	for i := 0; i < n && len(g.tbl) > 0; i++ {
		out = append(out, g.r.Intn(len(g.tbl)))
	}
	return out
}

func (g *caseGen) doPack() {
	nonces := map[string]uint64{}
	var st []string
	for _, s := range g.srcs {
		n := g.base[s]
		if !g.plainPack {
			switch g.r.Intn(8) {
			case 0, 1:
				n = uint64(g.r.Intn(4))
			case 2:
				n = g.boundary(n)
			}
		}
		nonces[s] = n
		_, sn := txNum(&types.Transaction{Source: s})
		st = append(st, fmt.Sprintf("(%s, %d)", sn.String(), n))
	}
	adb := mkState(nonces)
	recv := g.pool.GetReceived()
	// the same call PackForCast makes, on the same input order
	sorted := make([]*types.Transaction, len(recv))
	copy(sorted, recv)
	func() {
		defer func() {
			if e := recover(); e != nil {
				violate("C17/pack:sort-panics", fmt.Sprint("Transactions.Less panicked on the pending list: ", e), g.history())
			}
		}()
		sort.Sort(types.Transactions(sorted))
	}()
	var packed []*types.Transaction
	func() {
		defer func() {
			if e := recover(); e != nil {
				violate("C17/pack:panics", fmt.Sprint("PackForCast panicked: ", e), g.history())
			}
		}()
		packed = g.pool.PackForCast(blockNo+1, adb)
	}()
	si := make([]int, len(sorted))
	for i, t := range sorted {
		si[i] = g.byPtr[t]
	}
	pi := make([]int, len(packed))
	for i, t := range packed {
		pi[i] = g.byPtr[t]
	}
	js := map[string]interface{}{"op": "pack", "state_nonces": nonces, "packed": pi}
	g.emit(fmt.Sprintf("SPack [%s] %s %s", strings.Join(st, "; "), coqIdx(si), coqIdx(pi)), js, false)
	checkPack(g.f, packed, recv, g.pool, nonces, g.history)
	cls := "pack:empty"
	if len(recv) > 0 {
		skipped, low := 0, 0
		skipped = len(recv) - len(packed)
		for _, t := range packed {
			if t.RequestId == 0 && t.Nonce < nonces[t.Source] {
				low++
			}
		}
		switch {
		case len(packed) == perBlock && len(recv) > perBlock:
			cls = "pack:capped"
		case skipped > 0 && low > 0:
			cls = "pack:skip-high+keep-low"
		case skipped > 0:
			cls = "pack:skip-high"
		case low > 0:
			cls = "pack:keep-low"
		default:
			cls = "pack:all-in-sequence"
		}
	}
	res.Histogram["op:"+cls]++
}

func (g *caseGen) run(nops int) {
	for k := 0; k < nops; k++ {
		if g.dead {
			break
		}
		obs := !g.big || k == nops-1
		c := g.r.Intn(100)
		if len(g.tbl) > 0 && !g.big {
			switch g.r.Intn(50) {
			case 0: // Clear()
				if g.r.Intn(3) != 0 {
					break
				}
				g.pool.Clear()
				g.detached = true
				g.lim = poolSize
				g.emit(fmt.Sprintf("SClear %d", poolSize), map[string]interface{}{"op": "clear"}, true)
				res.Histogram["op:clear"]++
				g.checkDisjoint(fmt.Sprintf("op %d (clear)", k))
				continue
			case 1, 2: // MarkExecuted with unaligned receipts
				var txIdx, rcIdx, evIdx []int
				for _, i := range g.recvIdx() {
					if g.r.Intn(2) == 0 {
						txIdx = append(txIdx, i)
					}
				}
				txIdx = append(txIdx, g.pickTbl(g.r.Intn(3))...)
				for _, i := range txIdx {
					switch g.r.Intn(4) {
					case 0: // no receipt
					case 1: // receipt at the front: out of position
						rcIdx = append([]int{i}, rcIdx...)
					default:
						rcIdx = append(rcIdx, i)
					}
				}
				foreign := false
				if g.r.Intn(6) == 0 { // a receipt for a transaction that may not be in the block
					rcIdx = append(rcIdx, g.r.Intn(len(g.tbl)))
					foreign = true
				}
				if g.r.Intn(4) == 0 {
					evIdx = g.pickTbl(1)
				}
				p := g.markCall(rcIdx, txIdx, evIdx)
				g.emit(fmt.Sprintf("SMarkCall %s %s %s %s", coqIdx(rcIdx), coqIdx(txIdx), coqIdx(evIdx), hx.CoqBool(p)),
					map[string]interface{}{"op": "mark-call", "receipts": rcIdx, "txs": txIdx, "evicted": evIdx, "panicked": p}, !p)
				if p {
					g.dead = true
					res.Histogram["op:mark-call-panics"]++
					if !foreign {
						violate("C17/mark-call:panics", "MarkExecuted panicked although every receipt belongs to a block transaction", g.history())
					}
				} else {
					g.blocks = append(g.blocks, [2][]int{rcIdx, evIdx})
					res.Histogram["op:mark-call"]++
					g.checkDisjoint(fmt.Sprintf("op %d (mark-call)", k))
				}
				continue
			}
		}
		switch {
		case c < 40 || len(g.tbl) == 0: // add (new tx, or an old one again)
			var i int
			if len(g.tbl) > 0 && g.r.Intn(4) == 0 {
				i = g.r.Intn(len(g.tbl))
			} else {
				i = g.addTbl(g.newTx())
			}
			tx := g.tbl[i]
			wasExec := g.pool.GetExecuted(tx.Hash) != nil
			ok, err := g.pool.AddTransaction(tx)
			ec := 0
			if err == service.ErrExist {
				ec = 1
			} else if err != nil {
				ec = 9
			}
			g.emit(fmt.Sprintf("SAdd %d %s %d", i, hx.CoqBool(ok), ec), map[string]interface{}{"op": "add", "tx": descTx(tx), "ok": ok, "err": ec}, obs)
			if wasExec && (ok || err == nil) {
				violate("C17/no-readmit:add-accepts-executed", "AddTransaction accepted a transaction that has an executed record", g.history())
			}
			switch {
			case wasExec:
				res.Histogram["op:add-refused-executed"]++
			case ec == 1:
				res.Histogram["op:add-refused-pending"]++
			default:
				res.Histogram["op:add-ok"]++
			}
		case c < 53: // mark executed: mostly pending transactions, some others, some evictions
			recv := g.recvIdx()
			var txIdx, evIdx []int
			for _, i := range recv {
				if g.r.Intn(3) == 0 {
					if g.r.Intn(6) == 0 {
						evIdx = append(evIdx, i)
					} else {
						txIdx = append(txIdx, i)
					}
				}
			}
			if g.r.Intn(3) == 0 {
				txIdx = append(txIdx, g.pickTbl(1+g.r.Intn(2))...)
			}
			if g.r.Intn(5) == 0 {
				evIdx = append(evIdx, g.pickTbl(1)...)
			}
			if g.r.Intn(10) == 0 { // a not-yet-seen transaction executed straight from a block
				txIdx = append(txIdx, g.addTbl(g.newTx()))
			}
			g.mark(txIdx, evIdx)
			g.blocks = append(g.blocks, [2][]int{txIdx, evIdx})
			g.emit(fmt.Sprintf("SMark %s %s", coqIdx(txIdx), coqIdx(evIdx)), map[string]interface{}{"op": "mark", "txs": txIdx, "evicted": evIdx}, obs)
			for _, i := range txIdx {
				if !g.detached && (g.pool.GetExecuted(g.tbl[i].Hash) == nil || !g.pool.IsExisted(g.tbl[i].Hash)) {
					violate("C17/at-most-once:mark-not-recorded", "MarkExecuted left no executed record", g.history())
				}
			}
			res.Histogram["op:mark"]++
		case c < 62: // unmark (reorg)
			var txIdx, evIdx []int
			if len(g.blocks) > 0 && g.r.Intn(5) != 0 {
				b := g.blocks[g.r.Intn(len(g.blocks))]
				txIdx, evIdx = b[0], b[1]
			} else {
				txIdx = g.pickTbl(g.r.Intn(3))
				evIdx = g.pickTbl(g.r.Intn(2))
			}
			before := g.pool.TxNum()
			g.unmarkBlock(txIdx, evIdx)
			g.emit(fmt.Sprintf("SUnmark %s %s", coqIdx(txIdx), coqIdx(evIdx)), map[string]interface{}{"op": "unmark", "txs": txIdx, "evicted": evIdx}, obs)
			room := before+len(txIdx) <= g.lim
			for _, i := range txIdx {
				h := g.tbl[i].Hash
				if g.pool.GetExecuted(h) != nil {
					violate("C17/reorg-pending:still-executed", "executed record survives UnMarkExecuted", g.history())
				}
				pend := false
				for _, t := range g.pool.GetReceived() {
					if t.Hash == h {
						pend = true
					}
				}
				if !pend {
					if room {
						violate("C17/reorg-pending:not-pending", "unmarked transaction is not pending although the pool had room", g.history())
					} else {
						violate("C17/reorg-pending:dropped-at-capacity", fmt.Sprintf("pending list full (limit %d): the unmarked transaction is neither pending nor executed", g.lim), g.history())
					}
				}
			}
			if len(txIdx) > 0 {
				res.Histogram["op:unmark"]++
			} else {
				res.Histogram["op:unmark-empty-block"]++
			}
		case c < 77:
			if !g.f.orderOK() {
				// no packing in the regime where Less is not an order (sort result algorithm-dependent):
				// evaluate Less directly instead
				i, j := g.r.Intn(len(g.tbl)), g.r.Intn(len(g.tbl))
				r := safeLess(g.tbl[i], g.tbl[j])
				g.emit(fmt.Sprintf("SLess %d %d %d", i, j, r), map[string]interface{}{"op": "less", "a": i, "b": j, "r": r}, false)
				res.Histogram["op:less"]++
			} else {
				g.doPack()
			}
		case c < 83:
			i := g.r.Intn(len(g.tbl))
			tx, err := g.pool.GetTransaction(g.tbl[i].Hash)
			w, j := 0, 0
			if err == nil && tx != nil {
				if ix, ok := g.byPtr[tx]; ok {
					w, j = 1, ix
				} else {
					w, j = 2, g.findEq(tx)
					if j < 0 {
						violate("C17/lookup:unknown-tx", "GetTransaction returned a transaction never given to the pool", g.history())
						j = 0
					}
				}
			}
			g.emit(fmt.Sprintf("SLookup %d %d %d", i, w, j), map[string]interface{}{"op": "lookup", "tx": i, "where": w, "got": j}, false)
			res.Histogram[fmt.Sprintf("op:lookup-%d", w)]++
		case c < 86:
			i := g.r.Intn(len(g.tbl))
			r := g.pool.IsExisted(g.tbl[i].Hash)
			g.emit(fmt.Sprintf("SExists %d %s", i, hx.CoqBool(r)), map[string]interface{}{"op": "exists", "tx": i, "r": r}, false)
			res.Histogram["op:exists"]++
		case c < 88:
			i := g.r.Intn(len(g.tbl))
			r := g.pool.VerifIsEvicted(g.tbl[i].Hash)
			g.emit(fmt.Sprintf("SEvicted %d %s", i, hx.CoqBool(r)), map[string]interface{}{"op": "evicted", "tx": i, "r": r}, false)
			res.Histogram["op:evicted-probe"]++
		case c < 91:
			i, j := g.r.Intn(len(g.tbl)), g.r.Intn(len(g.tbl))
			r := safeLess(g.tbl[i], g.tbl[j])
			g.emit(fmt.Sprintf("SLess %d %d %d", i, j, r), map[string]interface{}{"op": "less", "a": i, "b": j, "r": r}, false)
			res.Histogram["op:less"]++
		default: // background expiry: one or several growRing ticks (an entry is dropped at its fifth tick)
			n := 1
			if g.r.Intn(3) == 0 {
				n += g.r.Intn(5)
			}
			for j := 0; j < n; j++ {
				before := g.pool.TxNum()
				execBefore := map[common.Hash]bool{}
				for _, t := range g.tbl {
					execBefore[t.Hash] = g.pool.GetExecuted(t.Hash) != nil
				}
				g.pool.VerifGrowRing()
				g.emit("STick", map[string]interface{}{"op": "expiry-tick"}, true)
				for _, t := range g.tbl {
					if execBefore[t.Hash] != (g.pool.GetExecuted(t.Hash) != nil) {
						violate("C17/expiry:touches-executed", "an expiry tick changed an executed record", g.history())
					}
				}
				if g.pool.TxNum() < before {
					res.Histogram["op:tick-expired-some"]++
				} else {
					res.Histogram["op:tick-expired-none"]++
				}
			}
		}
		g.checkDisjoint(fmt.Sprintf("op %d", k))
	}
}

func newStore(r *hx.Rng) db.Database {
	if r.Intn(4) == 0 {
		return sharedStore
	}
	m, _ := db.NewMemDatabase()
	return m
}

func oneCase(r *hx.Rng, cs *hx.Cases, idx int, big bool) {
	regimes := []flags{
		{true, true, true, true}, {true, true, true, true}, {true, true, true, true}, {true, true, true, true},
		{true, true, true, false}, {false, true, false, false}, {false, false, false, false}, {true, true, false, false},
		{true, false, true, true},
	}
	f := setFlags(regimes[r.Intn(len(regimes))])
	lim := poolSize
	if !big && r.Intn(3) == 0 {
		lim = 2 + r.Intn(8)
	}
	g := &caseGen{r: r, f: f, lim: lim, byPtr: map[*types.Transaction]int{}, base: map[string]uint64{}, big: big, caseTag: fmt.Sprintf("case-%d", idx)}
	store := newStore(r)
	g.shared = store == sharedStore
	g.pool = service.VerifNewTxPool(store, lim)
	ns := 1 + r.Intn(4)
	for i := 0; i < ns; i++ {
		a := r.Bytes(20)
		if r.Intn(5) == 0 {
			a = make([]byte, 20)
			a[19] = byte(1 + r.Intn(5))
		}
		s := "0x" + hex.EncodeToString(a)
		dup := false
		for _, o := range g.srcs {
			dup = dup || o == s
		}
		if dup {
			continue
		}
		g.srcs = append(g.srcs, s)
		g.base[s] = []uint64{0, 0, 3, 1000, 1 << 40, 1<<63 - 1, 1 << 63, math.MaxUint64 - 1, math.MaxUint64}[r.Intn(9)]
	}
	nops := 6 + r.Intn(40)
	if big {
		// fill past the per-block limit, then a few mixed operations
		n := perBlock + perBlock/4 + 10 + r.Intn(40)
		for i := 0; i < n; i++ {
			tx := g.newTx()
			if r.Intn(8) != 0 {
				tx.RequestId = 0
				tx.Nonce = g.base[tx.Source] + uint64(r.Intn(3)) // mostly packable
			}
			ix := g.addTbl(tx)
			ok, err := g.pool.AddTransaction(tx)
			ec := 0
			if err == service.ErrExist {
				ec = 1
			}
			g.emit(fmt.Sprintf("SAdd %d %s %d", ix, hx.CoqBool(ok), ec), map[string]interface{}{"op": "add", "tx": descTx(tx), "ok": ok}, false)
		}
		nops = 4 + r.Intn(4)
		g.plainPack = true // the state nonces the transactions were generated around: the batch reaches the cap
		g.doPack()
		g.plainPack = false
	}
	g.run(nops)
	tb := make([]string, len(g.tbl))
	for i, t := range g.tbl {
		tb[i] = coqTx(t)
	}
	term := fmt.Sprintf("(%s, (%d, %d), [%s],\n  [%s])", f.coq(), lim, perBlock, strings.Join(tb, "; "), strings.Join(g.steps, ";\n   "))
	cs.Add(term, map[string]interface{}{"flags": f.String(), "limit": lim, "ops": g.js})
	// one evaluation = one operation sequence; non-trivial when it contains at least one mark/unmark and a pack
	nontriv := len(g.blocks) > 0
	id := fmt.Sprintf("%s|%d|%s", f.String(), lim, strings.Join(g.steps, ";"))
	cls := "seq:" + f.String()
	if big {
		cls = "seq:over-block-limit"
	} else if lim != poolSize {
		cls += ",small-limit"
	}
	res.Count(cls, id, nontriv)
	if idx < 3 {
		res.Sample(map[string]interface{}{"flags": f.String(), "limit": lim, "ops": g.js})
	}
}

// ---------- the check ; mark-executed ; push schedule on the real code ----------
// The executed store is the pool's only injectable dependency: a store whose Has() for one key returns
// its (correct, "absent") answer late lets MarkExecuted run between add's existence check and its push —
// the same thing that happens when the adding goroutine is descheduled there or LevelDB answers slowly.
type gateDB struct {
	db.Database
	key     []byte
	armed   int32
	checked chan struct{}
	resume  chan struct{}
}

func (g *gateDB) Has(k []byte) (bool, error) {
	r, err := g.Database.Has(k)
	if atomic.LoadInt32(&g.armed) == 1 && string(k) == string(g.key) && atomic.CompareAndSwapInt32(&g.armed, 1, 0) {
		g.checked <- struct{}{}
		<-g.resume
	}
	return r, err
}

func raceReplay(r *hx.Rng) {
	setFlags(flags{true, true, true, true})
	mem, _ := db.NewMemDatabase()
	gd := &gateDB{Database: mem, checked: make(chan struct{}), resume: make(chan struct{})}
	pool := service.VerifNewTxPool(gd, poolSize)
	src := "0x" + hex.EncodeToString(r.Bytes(20))
	tx := &types.Transaction{Source: src, Target: src, Nonce: 0, Type: 188, ChainId: "9500"}
	copy(tx.Hash[:], r.Bytes(32))
	gd.key = tx.Hash.Bytes()
	atomic.StoreInt32(&gd.armed, 1)
	done := make(chan struct{})
	var addOK bool
	go func() { // network goroutine: the transaction arrives from a peer
		addOK, _ = pool.AddTransaction(tx)
		close(done)
	}()
	select {
	case <-gd.checked: // add has completed its existence check ("not existed")
	case <-done: // add returned without consulting the executed store at all
		res.Count("schedule:check;mark-executed;push", "race-replay", true)
		if addOK {
			pool.MarkExecuted(&types.BlockHeader{Height: 1}, types.Receipts{&types.Receipt{TxHash: tx.Hash}}, []*types.Transaction{tx}, nil)
			if ok2, _ := pool.AddTransaction(tx); ok2 {
				violate("C17/no-readmit:add-accepts-executed", "AddTransaction never looks at the executed store: an executed transaction is accepted again", map[string]interface{}{"ops": []string{"add tx", "mark-executed [tx]", "add tx"}, "tx": descTx(tx)})
			}
		}
		return
	}
	marked := make(chan struct{})
	go func() { // chain goroutine: a block containing the same transaction is added
		blockNo++
		pool.MarkExecuted(&types.BlockHeader{Height: blockNo}, types.Receipts{&types.Receipt{TxHash: tx.Hash, Height: blockNo}}, []*types.Transaction{tx}, nil)
		close(marked)
	}()
	excluded := false
	select {
	case <-marked:
	case <-time.After(500 * time.Millisecond):
		excluded = true // MarkExecuted cannot run while an add is between check and push: the schedule is excluded
	}
	close(gd.resume)
	<-done
	<-marked
	pending := false
	for _, t := range pool.GetReceived() {
		pending = pending || t.Hash == tx.Hash
	}
	executed := pool.GetExecuted(tx.Hash) != nil
	packed := false
	for _, t := range pool.PackForCast(blockNo+1, mkState(map[string]uint64{src: 1})) {
		packed = packed || t.Hash == tx.Hash
	}
	res.Count("schedule:check;mark-executed;push", "race-replay", true)
	if pending && executed {
		violate("C17/schedules:add-vs-markexecuted-race",
			fmt.Sprintf("AddTransaction(tx) overlapping MarkExecuted(block containing tx): afterwards tx is pending AND executed (add ok=%v); PackForCast hands it out again=%v although the sender's nonce is already 1", addOK, packed),
			map[string]interface{}{"schedule": []string{"G1 AddTransaction(tx): isTransactionExisted(tx.Hash) = false", "G2 MarkExecuted(header, [receipt(tx)], [tx], nil) runs to completion", "G1 AddTransaction(tx): received.push(tx)"}, "tx": descTx(tx), "pending": pending, "executed": executed, "packed_again": packed})
	} else {
		res.Note(fmt.Sprintf("check;mark-executed;push replay: pending=%v executed=%v mark-blocked-while-add-in-flight=%v", pending, executed, excluded))
		// model (lrun [LCheck 1 t; LMarkW 2 [t] [] (waits); LPush 1; LMarkW 2 [t] []; LMarkR 2]): executed, not pending
		if pending || !executed || packed {
			violate("C17/schedules:replay-unexpected-state", fmt.Sprintf("after AddTransaction(tx) and MarkExecuted([tx]) both returned: pending=%v executed=%v packed=%v (expected executed only)", pending, executed, packed), map[string]interface{}{"tx": descTx(tx)})
		}
	}
}

// ---------- gated schedules vs the locked fine-grained semantics (Coq: lstep / check_sched) ----------
type gate struct{ hit, resume chan struct{} }

func newGate() *gate { return &gate{make(chan struct{}), make(chan struct{})} }

// schedDB parks the calling goroutine at chosen points inside the pool's methods: after Has(key) (add's
// existence check, pool lock held), after a batch Write (MarkExecuted's records written, removal not yet
// done), before Delete(key) (UnMarkExecuted about to process that transaction).
type schedDB struct {
	db.Database
	mu        sync.Mutex
	hasGate   map[string]*gate
	delGate   map[string]*gate
	writeGate *gate
}

func (d *schedDB) take(m map[string]*gate, k []byte) *gate {
	d.mu.Lock()
	defer d.mu.Unlock()
	g := m[string(k)]
	delete(m, string(k))
	return g
}
func (d *schedDB) Has(k []byte) (bool, error) {
	r, err := d.Database.Has(k)
	if g := d.take(d.hasGate, k); g != nil {
		g.hit <- struct{}{}
		<-g.resume
	}
	return r, err
}
func (d *schedDB) Delete(k []byte) error {
	if g := d.take(d.delGate, k); g != nil {
		g.hit <- struct{}{}
		<-g.resume
	}
	return d.Database.Delete(k)
}
func (d *schedDB) NewBatch() db.Batch { return &schedBatch{d.Database.NewBatch(), d} }

type schedBatch struct {
	db.Batch
	d *schedDB
}

func (b *schedBatch) Write() error {
	err := b.Batch.Write()
	b.d.mu.Lock()
	g := b.d.writeGate
	b.d.writeGate = nil
	b.d.mu.Unlock()
	if g != nil {
		g.hit <- struct{}{}
		<-g.resume
	}
	return err
}

type schedCase struct {
	pool  *service.TxPool
	d     *schedDB
	tbl   []*types.Transaction
	steps []string
	js    []interface{}
	name  string
}

func newSchedCase(name string) *schedCase {
	mem, _ := db.NewMemDatabase()
	d := &schedDB{Database: mem, hasGate: map[string]*gate{}, delGate: map[string]*gate{}}
	return &schedCase{pool: service.VerifNewTxPool(d, poolSize), d: d, name: name}
}

func (c *schedCase) tx(r *hx.Rng, src string, nonce uint64) int {
	t := &types.Transaction{Source: src, Target: src, Nonce: nonce, Type: 188, ChainId: "9500"}
	copy(t.Hash[:], r.Bytes(32))
	c.tbl = append(c.tbl, t)
	return len(c.tbl) - 1
}

// record one model step; observe = the pool is at a stable point
func (c *schedCase) step(term string, observe bool) {
	obs := "None"
	var jo interface{}
	if observe {
		var rc, ex []int
		for _, t := range c.pool.GetReceived() {
			for i, u := range c.tbl {
				if u == t {
					rc = append(rc, i)
				}
			}
		}
		for i, u := range c.tbl {
			if c.pool.GetExecuted(u.Hash) != nil {
				ex = append(ex, i)
			}
		}
		obs = fmt.Sprintf("Some (%s, %s)", coqIdx(rc), coqIdx(ex))
		jo = map[string]interface{}{"pending": rc, "executed": ex}
	}
	c.steps = append(c.steps, "("+term+", "+obs+")")
	c.js = append(c.js, map[string]interface{}{"step": term, "observed": jo})
}

func (c *schedCase) start(f func()) chan struct{} {
	done := make(chan struct{})
	go func() { f(); close(done) }()
	return done
}

// "gate": parked at g; "done": the method returned; "blocked": neither within the grace period
// (a long grace period where progress is expected, a short one where blocking is expected: a slow machine
// can then only hide a missing exclusion, never report a false one)
func waitFor(g *gate, done chan struct{}) string {
	d := 250 * time.Millisecond
	if g != nil {
		d = 30 * time.Second
	}
	var hit chan struct{}
	if g != nil {
		hit = g.hit
	}
	select {
	case <-hit:
		return "gate"
	case <-done:
		return "done"
	case <-time.After(d):
		return "blocked"
	}
}

func (c *schedCase) expect(what, got, want string) {
	if got != want {
		slug := "not-excluded"
		if want == "gate" {
			slug = "gate-not-reached"
		}
		violate("C17/schedules:"+c.name+":"+slug, fmt.Sprintf("schedule %s: %s is %q, the locked pool makes it %q", c.name, what, got, want), map[string]interface{}{"schedule": c.name, "steps": c.js})
	}
}

func (c *schedCase) markNow(txIdx []int) {
	var rs types.Receipts
	var txs []*types.Transaction
	for _, i := range txIdx {
		txs = append(txs, c.tbl[i])
		rs = append(rs, &types.Receipt{TxHash: c.tbl[i].Hash})
	}
	c.pool.MarkExecuted(&types.BlockHeader{Height: 1}, rs, txs, nil)
}

func (c *schedCase) finish(cs *hx.Cases) {
	tb := make([]string, len(c.tbl))
	for i, t := range c.tbl {
		tb[i] = coqTx(t)
	}
	cs.Add(fmt.Sprintf("(%d, [%s],\n  [%s])", poolSize, strings.Join(tb, "; "), strings.Join(c.steps, ";\n   ")), map[string]interface{}{"schedule": c.name, "steps": c.js})
	res.Count("schedule:"+c.name, c.name+strings.Join(c.steps, ";"), true)
}

// T1: add(t) parked after its check; MarkExecuted([t]) must wait; push; then the mark runs.
func schedT1(r *hx.Rng, cs *hx.Cases) {
	c := newSchedCase("add-check|mark|push")
	src := "0x" + hex.EncodeToString(r.Bytes(20))
	t := c.tx(r, src, 0)
	g := newGate()
	c.d.hasGate[string(c.tbl[t].Hash.Bytes())] = g
	a := c.start(func() { c.pool.AddTransaction(c.tbl[t]) })
	c.expect("add reaches its existence check", waitFor(g, a), "gate")
	c.step(fmt.Sprintf("SLCheck 1 %d", t), true)
	b := c.start(func() { c.markNow([]int{t}) })
	c.expect("MarkExecuted while an add is between check and push", waitFor(nil, b), "blocked")
	c.step(fmt.Sprintf("SLMarkW 2 [%d] []", t), true)
	close(g.resume)
	<-a
	<-b
	c.step("SLPush 1", false)
	c.step(fmt.Sprintf("SLMarkW 2 [%d] []", t), false)
	c.step("SLMarkR 2", true)
	c.finish(cs)
}

// T2: t pending; MarkExecuted([t]) parked after its record write; adds must wait; lock-free reads and an
// expiry tick run; remove; the adds run (t refused, u admitted).
func schedT2(r *hx.Rng, cs *hx.Cases) {
	c := newSchedCase("mark-write|add|mark-remove")
	src := "0x" + hex.EncodeToString(r.Bytes(20))
	t := c.tx(r, src, 0)
	u := c.tx(r, src, 1)
	c.pool.AddTransaction(c.tbl[t])
	c.step(fmt.Sprintf("SLAdd %d", t), true)
	g := newGate()
	c.d.writeGate = g
	b := c.start(func() { c.markNow([]int{t}) })
	c.expect("MarkExecuted reaches its record write", waitFor(g, b), "gate")
	c.step(fmt.Sprintf("SLMarkW 2 [%d] []", t), true)
	var okT, okU bool
	a1 := c.start(func() { okU, _ = c.pool.AddTransaction(c.tbl[u]) })
	c.expect("AddTransaction(u) during a MarkExecuted", waitFor(nil, a1), "blocked")
	c.step(fmt.Sprintf("SLCheck 1 %d", u), true)
	c.pool.PackForCast(2, mkState(nil))
	c.step("SLPack", true)
	c.pool.VerifGrowRing()
	c.step("SLTick []", true)
	close(g.resume)
	<-b
	<-a1
	c.step("SLMarkR 2", false)
	c.step(fmt.Sprintf("SLCheck 1 %d", u), false)
	c.step("SLPush 1", true)
	okT, _ = c.pool.AddTransaction(c.tbl[t])
	c.step(fmt.Sprintf("SLAdd %d", t), true)
	if okT || !okU {
		violate("C17/schedules:"+c.name+":results", fmt.Sprintf("add(executed t)=%v add(new u)=%v", okT, okU), map[string]interface{}{"steps": c.js})
	}
	c.finish(cs)
}

// T3: a block [t1, t2] executed; UnMarkExecuted parked before it processes t2; an add must wait; the
// rest of the unmark; the add.
func schedT3(r *hx.Rng, cs *hx.Cases) {
	c := newSchedCase("unmark-first|add|unmark-rest")
	src := "0x" + hex.EncodeToString(r.Bytes(20))
	t1 := c.tx(r, src, 0)
	t2 := c.tx(r, src, 1)
	u := c.tx(r, src, 2)
	c.pool.AddTransaction(c.tbl[t1])
	c.step(fmt.Sprintf("SLAdd %d", t1), false)
	c.markNow([]int{t1, t2})
	c.step(fmt.Sprintf("SLMark [%d; %d] []", t1, t2), true)
	g := newGate()
	c.d.delGate[string(c.tbl[t2].Hash.Bytes())] = g
	b := c.start(func() {
		c.pool.UnMarkExecuted(&types.Block{Header: &types.BlockHeader{Height: 1}, Transactions: []*types.Transaction{c.tbl[t1], c.tbl[t2]}})
	})
	c.expect("UnMarkExecuted reaches its second transaction", waitFor(g, b), "gate")
	c.step(fmt.Sprintf("SLUnmarkB 2 [%d; %d] []", t1, t2), true)
	a := c.start(func() { c.pool.AddTransaction(c.tbl[u]) })
	c.expect("AddTransaction(u) during an UnMarkExecuted", waitFor(nil, a), "blocked")
	c.step(fmt.Sprintf("SLCheck 1 %d", u), true)
	close(g.resume)
	<-b
	<-a
	c.step("SLUnmarkN 2", false)
	c.step(fmt.Sprintf("SLCheck 1 %d", u), false)
	c.step("SLPush 1", true)
	c.finish(cs)
}

// free-running goroutines on the LevelDB-backed store: how often does the race show without help?
func soak(r *hx.Rng, rounds int) {
	setFlags(flags{true, true, true, true})
	pool := service.VerifNewTxPool(sharedStore, poolSize)
	hits := 0
	for i := 0; i < rounds; i++ {
		src := "0x" + hex.EncodeToString(r.Bytes(20))
		tx := &types.Transaction{Source: src, Target: src, Type: 188, ChainId: "9500"}
		copy(tx.Hash[:], r.Bytes(32))
		// a gate nonce, so that AddTransaction and MarkExecuted both write to pool.batch (refreshGateNonce)
		tx.SubTransactions = []types.UserData{{Address: uint64(i + 1)}}
		var wg sync.WaitGroup
		start := make(chan struct{})
		for k := 0; k < 8; k++ {
			wg.Add(1)
			go func() { defer wg.Done(); <-start; pool.AddTransaction(tx) }()
		}
		wg.Add(1)
		go func() {
			defer wg.Done()
			<-start
			pool.MarkExecuted(&types.BlockHeader{Height: 1}, types.Receipts{&types.Receipt{TxHash: tx.Hash}}, []*types.Transaction{tx}, nil)
		}()
		close(start)
		wg.Wait()
		if pool.GetExecuted(tx.Hash) != nil {
			for _, t := range pool.GetReceived() {
				if t.Hash == tx.Hash {
					hits++
				}
			}
		}
		res.Count("soak:8-adders-vs-mark", "soak", false)
	}
	res.Note(fmt.Sprintf("free-running soak (8 adders vs MarkExecuted, LevelDB store, %d rounds): executed transaction left pending in %d rounds", rounds, hits))
	if hits > 0 {
		violate("C17/schedules:add-vs-markexecuted-race", fmt.Sprintf("free-running goroutines: %d of %d rounds left the executed transaction pending", hits, rounds), map[string]interface{}{"rounds": rounds, "hits": hits})
	}
}

// The over-limit family: a pool holding exactly [count] pending transactions (mostly packable json-rpc ones
// in nonce sequence, some gate ones), packed under a FIXED proposal-flag regime -- every combination the
// code distinguishes: nonce check on/off (018) x ordering 023 / 021 / 016-only / none.
var overRegimes = []flags{
	{true, true, true, true}, {true, true, true, false}, {true, true, false, false}, {false, true, false, false},
	{true, false, true, true}, {true, false, true, false}, {true, false, false, false}, {false, false, false, false},
}

func overCounts() []int {
	return []int{perBlock - 1, perBlock, perBlock + 1, perBlock + 50, 2 * perBlock}
}

func overLimitCase(r *hx.Rng, cs *hx.Cases, idx int, want flags, count int) {
	f := setFlags(want)
	g := &caseGen{r: r, f: f, lim: poolSize, byPtr: map[*types.Transaction]int{}, base: map[string]uint64{}, big: true, caseTag: fmt.Sprintf("over-%d", idx)}
	mem, _ := db.NewMemDatabase()
	g.pool = service.VerifNewTxPool(mem, poolSize)
	// short hashes and addresses: the cost of a model case is dominated by parsing its numerals
	for i := 0; i < 3; i++ {
		s := fmt.Sprintf("0x%040x", 1+r.Intn(60000))
		for _, o := range g.srcs {
			if o == s {
				s = fmt.Sprintf("0x%040x", 70000+i)
			}
		}
		g.srcs = append(g.srcs, s)
		g.base[s] = []uint64{0, 3, 1000}[i]
	}
	var many []string
	for g.pool.TxNum() < count {
		src := g.srcs[r.Intn(len(g.srcs))]
		tx := &types.Transaction{Source: src, Target: src, Nonce: g.base[src] + uint64(r.Intn(3)), Type: 188, Data: "d", ChainId: "9500", Time: "t"}
		if r.Intn(10) == 0 {
			tx.RequestId = uint64(1 + r.Intn(1000))
		}
		copy(tx.Hash[26:], r.Bytes(6))
		ix := g.addTbl(tx)
		ok, err := g.pool.AddTransaction(tx)
		if ok != (err == nil) {
			violate("C17/add:result-inconsistent", "AddTransaction returned ok and an error, or neither", descTx(tx))
		}
		many = append(many, fmt.Sprintf("(%d, %s)", ix, hx.CoqBool(ok)))
	}
	g.emit("SAddMany ["+strings.Join(many, "; ")+"]", map[string]interface{}{"op": "add-many", "n": len(many)}, true)
	g.plainPack = true
	g.doPack()
	// a block takes some of them; pack again
	recv := g.recvIdx()
	var txIdx []int
	for k := 0; k < len(recv) && k < 1+r.Intn(60); k++ {
		txIdx = append(txIdx, recv[r.Intn(len(recv))])
	}
	g.mark(txIdx, nil)
	g.emit(fmt.Sprintf("SMark %s []", coqIdx(txIdx)), map[string]interface{}{"op": "mark", "txs": txIdx}, true)
	g.doPack()
	g.plainPack = false
	tb := make([]string, len(g.tbl))
	for i, t := range g.tbl {
		tb[i] = coqTx(t)
	}
	term := fmt.Sprintf("(%s, (%d, %d), [%s],\n  [%s])", f.coq(), g.lim, perBlock, strings.Join(tb, "; "), strings.Join(g.steps, ";\n   "))
	cs.Add(term, map[string]interface{}{"case": "over-limit family", "flags": f.String(), "pending": count, "ops": len(g.js)})
	res.Count(fmt.Sprintf("seq:over-limit:%s:pending=%d", f.String(), count), fmt.Sprintf("over|%s|%d|%d", f.String(), count, idx), true)
}

// Mixed pools: gate transactions (RequestId != 0, ordered by request id) and json-rpc transactions
// (RequestId 0, ordered by sender / nonce) pending together, gate senders' addresses on both sides of the
// rpc sender's address with request ids correlated with the address, and the rpc sender holding a stale
// (too-low nonce) transaction that arrived after its current-nonce one.  A comparator that orders a mixed
// pair by anything but "rpc first" is inconsistent on such pools.
func mixedCase(r *hx.Rng, cs *hx.Cases, idx int) {
	regimes := []flags{{true, true, true, true}, {true, true, true, true}, {true, true, true, false}}
	f := setFlags(regimes[r.Intn(len(regimes))])
	g := &caseGen{r: r, f: f, lim: poolSize, byPtr: map[*types.Transaction]int{}, base: map[string]uint64{}, caseTag: fmt.Sprintf("mixed-%d", idx)}
	mem, _ := db.NewMemDatabase()
	g.pool = service.VerifNewTxPool(mem, poolSize)
	addr := func(v uint64) string { return fmt.Sprintf("0x%040x", v) }
	mid := uint64(1000 + r.Intn(1000))
	x := addr(mid)
	n := uint64(2 + r.Intn(6))
	g.srcs = []string{x}
	g.base[x] = n
	add := func(tx *types.Transaction) {
		copy(tx.Hash[:], r.Bytes(32))
		i := g.addTbl(tx)
		ok, err := g.pool.AddTransaction(tx)
		ec := 0
		if err != nil {
			ec = 1
		}
		g.emit(fmt.Sprintf("SAdd %d %s %d", i, hx.CoqBool(ok), ec), map[string]interface{}{"op": "add", "tx": descTx(tx), "ok": ok}, true)
	}
	rpc := func(nonce uint64) *types.Transaction {
		return &types.Transaction{Source: x, Target: x, Nonce: nonce, Type: 188, ChainId: "9500"}
	}
	// gate senders below and above the rpc sender; request ids rise with the address (or, sometimes, fall,
	// or are random)
	ng := 2 + r.Intn(4)
	var gaddr []uint64
	for k := 0; k < ng; k++ {
		if k%2 == 0 {
			gaddr = append(gaddr, mid-1-uint64(r.Intn(900)))
		} else {
			gaddr = append(gaddr, mid+1+uint64(r.Intn(900)))
		}
	}
	sort.Slice(gaddr, func(i, j int) bool { return gaddr[i] < gaddr[j] })
	mode := r.Intn(4)
	var gates []*types.Transaction
	for k, a := range gaddr {
		rid := uint64(k + 1)
		switch mode {
		case 0:
			rid = uint64(ng - k)
		case 1:
			rid = uint64(1 + r.Intn(50))
		}
		gates = append(gates, &types.Transaction{Source: addr(a), Target: x, Nonce: uint64(r.Intn(3)), RequestId: rid, Type: 188, ChainId: "9500"})
	}
	r0 := r.Intn(3)
	if r0 == 0 { // the stale one first
		add(rpc(n - 1 - uint64(r.Intn(int(n-1)))))
	}
	add(rpc(n))
	for _, k := range permOf(r, len(gates)) {
		if r.Intn(5) != 0 || mode != 3 {
			add(gates[k])
		}
	}
	if r0 != 0 {
		add(rpc(n - 1 - uint64(r.Intn(int(n-1)))))
	}
	if r.Intn(2) == 0 {
		add(rpc(n + 1))
	}
	g.plainPack = true
	g.doPack()
	g.plainPack = false
	g.run(2 + r.Intn(6))
	tb := make([]string, len(g.tbl))
	for i, t := range g.tbl {
		tb[i] = coqTx(t)
	}
	term := fmt.Sprintf("(%s, (%d, %d), [%s],\n  [%s])", f.coq(), g.lim, perBlock, strings.Join(tb, "; "), strings.Join(g.steps, ";\n   "))
	cs.Add(term, map[string]interface{}{"case": "mixed gate/rpc pool", "flags": f.String(), "ops": g.js})
	res.Count("seq:mixed-gate-rpc", fmt.Sprintf("%s|%s", f.String(), strings.Join(g.steps, ";")), true)
}

func permOf(r *hx.Rng, n int) []int {
	p := make([]int, n)
	for i := range p {
		p[i] = i
	}
	for i := n - 1; i > 0; i-- {
		j := r.Intn(i + 1)
		p[i], p[j] = p[j], p[i]
	}
	return p
}

// the evicted-hash cache at its bound: more than txCacheSize (1000) evicted hashes, recency order, Remove
func lruCase(r *hx.Rng, cs *hx.Cases, idx int) {
	f := setFlags(flags{true, true, true, true})
	mem, _ := db.NewMemDatabase()
	pool := service.VerifNewTxPool(mem, poolSize)
	base := new(big.Int).SetBytes(r.Bytes(20))
	hashOf := func(k int) common.Hash {
		var h common.Hash
		b := new(big.Int).Add(base, big.NewInt(int64(k))).Bytes()
		copy(h[32-len(b):], b)
		return h
	}
	var steps []string
	var js []interface{}
	evRange := func(from, n int) {
		var ev []common.Hash
		for k := 0; k < n; k++ {
			ev = append(ev, hashOf(from+k))
		}
		pool.MarkExecuted(&types.BlockHeader{Height: 1}, nil, nil, ev)
		steps = append(steps, fmt.Sprintf("(SMarkEvRange %s %d, None)", new(big.Int).Add(base, big.NewInt(int64(from))).String(), n))
		js = append(js, map[string]interface{}{"op": "mark-evicted-range", "from": from, "n": n})
	}
	probe := func(k int) {
		r := pool.VerifIsEvicted(hashOf(k))
		steps = append(steps, fmt.Sprintf("(SEvictedRaw %s %s, None)", new(big.Int).Add(base, big.NewInt(int64(k))).String(), hx.CoqBool(r)))
		js = append(js, map[string]interface{}{"op": "evicted-probe", "k": k, "r": r})
		res.Histogram[fmt.Sprintf("op:lru-probe-%v", r)]++
	}
	n := 1000 + 1 + r.Intn(200)
	evRange(0, n)
	for _, k := range []int{0, n - 1001, n - 1000, n - 999, n - 1, n, r.Intn(n)} {
		if k >= 0 {
			probe(k)
		}
	}
	evRange(n-1000, 1) // refresh the oldest survivor, then push one more: the second oldest goes instead
	evRange(n, 1)
	for _, k := range []int{n - 1000, n - 999, n - 998, n} {
		probe(k)
	}
	term := fmt.Sprintf("(%s, (%d, %d), [],\n  [%s])", f.coq(), poolSize, perBlock, strings.Join(steps, ";\n   "))
	cs.Add(term, map[string]interface{}{"case": "lru-bound", "ops": js})
	res.Count("seq:evicted-cache-bound", fmt.Sprintf("lru-%d-%s", n, base.String()), true)
}

// Clear(): the executed store is swapped (listed finding; Clear has no caller in the node)
func clearReplay(r *hx.Rng) {
	setFlags(flags{true, true, true, true})
	mem, _ := db.NewMemDatabase()
	pool := service.VerifNewTxPool(mem, poolSize)
	src := "0x" + hex.EncodeToString(r.Bytes(20))
	mk := func(n uint64) *types.Transaction {
		tx := &types.Transaction{Source: src, Target: src, Nonce: n, Type: 188, ChainId: "9500"}
		copy(tx.Hash[:], r.Bytes(32))
		return tx
	}
	mark := func(t *types.Transaction) {
		pool.MarkExecuted(&types.BlockHeader{Height: 1}, types.Receipts{&types.Receipt{TxHash: t.Hash}}, []*types.Transaction{t}, nil)
	}
	t, u := mk(0), mk(1)
	pool.AddTransaction(t)
	mark(t)
	refused, _ := pool.AddTransaction(t)
	pool.Clear()
	again, _ := pool.AddTransaction(t)
	packed := false
	for _, p := range pool.PackForCast(2, mkState(map[string]uint64{src: 1})) {
		packed = packed || p.Hash == t.Hash
	}
	res.Count("clear:executed-then-clear-then-add", "clear-replay", true)
	if !refused && again {
		violate("C17/clear:executed-forgotten", fmt.Sprintf("after Clear() an executed transaction is admitted again (and packed again: %v): Clear re-opens the executed store as db.NewDatabase(\"tx\"), a different store from the pool's own LevelDB", packed),
			map[string]interface{}{"ops": []string{"add t", "mark-executed [t]", "add t -> refused", "Clear()", "add t -> accepted"}, "t": descTx(t)})
	}
	pool.AddTransaction(u)
	mark(u)
	if ok, _ := pool.AddTransaction(u); ok {
		violate("C17/clear:later-marks-invisible", "after Clear() MarkExecuted writes its records through the old store's batch: a transaction executed after the Clear is admitted again at once",
			map[string]interface{}{"ops": []string{"Clear()", "add u", "mark-executed [u]", "add u -> accepted"}, "u": descTx(u)})
	}
}

// production limit: fill the pending list to rcvTxPoolSize, then unmark a block
func capacityReplay(r *hx.Rng) {
	setFlags(flags{true, true, true, true})
	mem, _ := db.NewMemDatabase()
	pool := service.VerifNewTxPool(mem, poolSize)
	src := "0x" + hex.EncodeToString(r.Bytes(20))
	mk := func(n uint64) *types.Transaction {
		tx := &types.Transaction{Source: src, Target: src, Nonce: n, Type: 188, ChainId: "9500"}
		copy(tx.Hash[:], r.Bytes(32))
		return tx
	}
	t0 := mk(0)
	pool.AddTransaction(t0)
	pool.MarkExecuted(&types.BlockHeader{Height: 1}, types.Receipts{&types.Receipt{TxHash: t0.Hash}}, []*types.Transaction{t0}, nil)
	for i := 0; i < poolSize; i++ {
		pool.AddTransaction(mk(uint64(i + 1)))
	}
	full := pool.IsFull()
	pool.UnMarkExecuted(&types.Block{Header: &types.BlockHeader{Height: 1}, Transactions: []*types.Transaction{t0}})
	_, err := pool.GetTransaction(t0.Hash)
	res.Count("reorg:unmark-into-full-pool", "capacity-replay", true)
	if err != nil && full {
		violate("C17/reorg-pending:dropped-at-capacity",
			fmt.Sprintf("pending list full (%d): after UnMarkExecuted the block's transaction is neither pending nor executed (GetTransaction: %v)", poolSize, err),
			map[string]interface{}{"ops": []string{"add t0", "mark-executed [t0]", fmt.Sprintf("add %d other transactions", poolSize), "unmark [t0]"}, "t0": descTx(t0)})
	}
}

func main() {
	a := hx.ParseArgs()
	reexecUnderGorace(a.Out)
	if os.Getenv("C17_SOAK_CHILD") != "" {
		soakChildMain(a)
		return
	}
	if os.Getenv("C17_CRASH_CHILD") != "" {
		crashChildMain(a)
		return
	}
	res = hx.NewResult("one evaluation = one operation sequence on a fresh pool (every step compared with the model); non-trivial = contains at least one mark-executed/unmark; distinct by (flags, limit, full step list)")
	common.Init(0, "p.ini", "dev")
	common.SetBlockHeight(100)
	middleware.InitMiddleware()
	service.InitService()
	var err error
	sharedStore, err = db.NewLDBDatabase("c17exec", 16, 16)
	if err != nil {
		fmt.Println("cannot open LevelDB store:", err)
		os.Exit(2)
	}
	r := hx.NewRng(a.Seed)
	cs := hx.NewCases(a.Out, "From Coq Require Import NArith.\nFrom V.C17 Require Import Model Harness.\nOpen Scope N_scope.", "(bool * bool * bool * bool) * (N * N) * list tx * list (sop * option (list N))", "check", 100)
	nbig := 3
	if a.Tier == "thorough" {
		nbig = 20
	}
	for i := 0; i < a.N; i++ {
		oneCase(r.Fork(), cs, i, false)
	}
	for i := 0; i < nbig; i++ {
		oneCase(r.Fork(), cs, a.N+i, true)
	}
	nlru, nmixed := 1, 30
	if a.Tier == "thorough" {
		nlru, nmixed = 4, 400
	}
	for i := 0; i < nmixed; i++ {
		mixedCase(r.Fork(), cs, a.N+nbig+100+i)
	}
	for i := 0; i < nlru; i++ {
		lruCase(r.Fork(), cs, a.N+nbig+i)
	}
	cs.Close()
	// the over-limit family in its own (small) shards: every regime x every pending count
	oc := hx.NewCasesNamed(a.Out, "over", "From Coq Require Import NArith.\nFrom V.C17 Require Import Model Harness.\nOpen Scope N_scope.", "(bool * bool * bool * bool) * (N * N) * list tx * list (sop * option (list N))", "check", 10)
	nover := 0
	reps := 1
	if a.Tier == "thorough" {
		reps = 3
	}
	for k := 0; k < reps; k++ {
		for _, f := range overRegimes {
			for _, n := range overCounts() {
				overLimitCase(r.Fork(), oc, nover, f, n)
				nover++
			}
		}
	}
	oc.Close()
	{
		var rs []string
		for _, f := range overRegimes {
			rs = append(rs, f.String())
		}
		res.Note(fmt.Sprintf("over-limit family: pending counts %v under each of the %d proposal-flag regimes the code distinguishes (nonce check 018 on/off x ordering 023 / 021 / 016-only / none): %s; every batch checked by the direct predicates (pack:over-limit, duplicate, not-pending, executed-packed, ahead-of-nonce, not-ascending) and by the model", overCounts(), len(overRegimes), strings.Join(rs, " | ")))
	}
	sc := hx.NewCasesNamed(a.Out, "sched", "From Coq Require Import NArith.\nFrom V.C17 Require Import Model Harness.\nOpen Scope N_scope.", "N * list tx * list (slop * option (list N * list N))", "check_sched", 100)
	setFlags(flags{true, true, true, true})
	nsched := 2
	if a.Tier == "thorough" {
		nsched = 10
	}
	for i := 0; i < nsched; i++ {
		schedT1(r.Fork(), sc)
		schedT2(r.Fork(), sc)
		schedT3(r.Fork(), sc)
	}
	sc.Close()
	raceReplay(r.Fork())
	capacityReplay(r.Fork())
	clearReplay(r.Fork())
	neth := 40
	if a.Tier == "thorough" {
		neth = 400
	}
	for i := 0; i < neth; i++ {
		ethScenario(r.Fork(), i)
	}
	// the free-running soaks run in a child process: corrupting a Go map under concurrent use is a fatal
	// runtime error that no recover() catches, and it must become a reported violation, not a dead harness
	runSoakChild(a, r.U64())
	runCrashChild(a, r.U64())
	if raceEnabled {
		n := collectRaceReports(a.Out)
		res.Note(fmt.Sprintf("race detector active (GORACE halt_on_error=0): %d report(s) in total", n))
	}
	res.Note(fmt.Sprintf("txCountPerBlock=%d rcvTxPoolSize=%d (read from the service package); evicted-cache LRU bound (1000) exercised by the lru cases", perBlock, poolSize))
	res.ModelCases = cs.Total() + sc.Total() + oc.Total()
	res.Write(a.Out)
	keys := make([]string, 0)
	for k := range res.Histogram {
		keys = append(keys, k)
	}
	sort.Strings(keys)
	for _, k := range keys {
		fmt.Printf("%-50s %d\n", k, res.Histogram[k])
	}
	os.Exit(0)
}
