// Chain-coupled crash scenario (runs in a child process): a harness-built pool installed into the real
// block chain (hooks of the block-store check: src/core/verif_chain*.go, src/service/verif_chain_pool.go,
// src/middleware/verif_state.go), blocks with transactions delivered through the real AddBlockOnChain with
// every write to the index stores and to the pool's executed store recorded; the process is then "killed"
// after every single write (stores reset to the content before the delivery plus the first m writes, a
// fresh pool object, the real chain initialisation incl. ensureChainConsistency), and C17's predicate is
// evaluated on the restarted pair:
//
//	every transaction of every block on the canonical chain is refused by AddTransaction and is in no
//	packed batch; every transaction of the universe that is in no canonical block can be added (is
//	pending again or addable).
package main

import (
	"fmt"
	"math/big"
	"os"
	"strings"
	"time"

	"com.tuntun.rangers/node/src/common"
	"com.tuntun.rangers/node/src/core"
	"com.tuntun.rangers/node/src/executor"
	"com.tuntun.rangers/node/src/middleware"
	"com.tuntun.rangers/node/src/middleware/db"
	"com.tuntun.rangers/node/src/middleware/types"
	"com.tuntun.rangers/node/src/service"
	"com.tuntun.rangers/node/src/vm"
	"github.com/syndtr/goleveldb/leveldb/iterator"
	"verif/harness/hx"
)

// ---------- stub consensus helper: group signature / VRF / prove-root checks accept ----------
type chelper struct{}

var crashGroupId = []byte("c17-genesis-group-id-000000000001")

func (h *chelper) GenerateGenesisInfo() []*types.GenesisInfo                 { return nil }
func (h *chelper) VRFProve2Value(p *big.Int) *big.Int                        { return p }
func (h *chelper) ProposalBonus() *big.Int                                   { return big.NewInt(0) }
func (h *chelper) PackBonus() *big.Int                                       { return big.NewInt(0) }
func (h *chelper) VerifyHash(b *types.Block) common.Hash                     { return b.Header.Hash }
func (h *chelper) CheckProveRoot(*types.BlockHeader) (bool, error)           { return true, nil }
func (h *chelper) VerifyBlockHeader(*types.BlockHeader) (bool, error)        { return true, nil }
func (h *chelper) CheckGroup(*types.Group) (bool, error)                     { return true, nil }
func (h *chelper) VerifyGroupSign([]byte, common.Hash, []byte) (bool, error) { return true, nil }
func (h *chelper) VerifyNewBlock(*types.BlockHeader, *types.BlockHeader) (bool, error) {
	return true, nil
}
func (h *chelper) VerifyMemberInfo(*types.BlockHeader, *types.BlockHeader) (bool, error) {
	return true, nil
}
func (h *chelper) VerifyGroupForFork(*types.Group, *types.Group, *types.Group, *types.Block) (bool, error) {
	return true, nil
}

type cstubChain struct{}

func (cstubChain) QueryBlockHeaderByHeight(height interface{}, cache bool) *types.BlockHeader {
	return core.VerifBCHeightHeader(height.(uint64), cache)
}
func (cstubChain) GetAvailableGroupsByMinerId(height uint64, minerId []byte) []*types.Group {
	return nil
}
func (cstubChain) GetGroupById(id []byte) *types.Group             { return nil }
func (cstubChain) GetBlockHeader(height uint64) *types.BlockHeader { return nil }

// ---------- recorder ----------
type ckv struct {
	k   string
	v   []byte
	del bool
}
type cwrite struct { // one atomic store write (single put/delete or one batch)
	store int // 0 = shared LevelDB (raw key = prefix+key), 2 = the pool's executed store
	kvs   []ckv
}
type crecorder struct {
	log []cwrite
	on  bool
}

func (r *crecorder) add(w cwrite) {
	if r.on {
		r.log = append(r.log, w)
	}
}

type crecDB struct {
	inner db.Database
	pfx   string
	store int
	r     *crecorder
}

func ccp(b []byte) []byte { c := make([]byte, len(b)); copy(c, b); return c }

func (d *crecDB) Put(k, v []byte) error {
	d.r.add(cwrite{d.store, []ckv{{d.pfx + string(k), ccp(v), false}}})
	return d.inner.Put(k, v)
}
func (d *crecDB) Delete(k []byte) error {
	d.r.add(cwrite{d.store, []ckv{{d.pfx + string(k), nil, true}}})
	return d.inner.Delete(k)
}
func (d *crecDB) Get(k []byte) ([]byte, error)   { return d.inner.Get(k) }
func (d *crecDB) Has(k []byte) (bool, error)     { return d.inner.Has(k) }
func (d *crecDB) Close()                         {}
func (d *crecDB) NewIterator() iterator.Iterator { return d.inner.NewIterator() }
func (d *crecDB) NewIteratorWithPrefix(p []byte) iterator.Iterator {
	return d.inner.NewIteratorWithPrefix(p)
}
func (d *crecDB) NewBatch() db.Batch { return &crecBatch{d: d, inner: d.inner.NewBatch()} }

type crecBatch struct {
	d     *crecDB
	inner db.Batch
	kvs   []ckv
}

func (b *crecBatch) Put(k, v []byte) error {
	b.kvs = append(b.kvs, ckv{b.d.pfx + string(k), ccp(v), false})
	return b.inner.Put(k, v)
}
func (b *crecBatch) ValueSize() int { return b.inner.ValueSize() }
func (b *crecBatch) Write() error {
	if len(b.kvs) > 0 {
		b.d.r.add(cwrite{b.d.store, append([]ckv(nil), b.kvs...)})
	}
	return b.inner.Write()
}
func (b *crecBatch) Reset() { b.kvs = nil; b.inner.Reset() }

type ccontent map[string][]byte

func creadAll(d db.Database) ccontent {
	c := ccontent{}
	it := d.NewIterator()
	for it.Next() {
		c[string(it.Key())] = ccp(it.Value())
	}
	it.Release()
	return c
}
func (c ccontent) clone() ccontent {
	n := make(ccontent, len(c))
	for k, v := range c {
		n[k] = v
	}
	return n
}
func (c ccontent) apply(w cwrite) {
	for _, e := range w.kvs {
		if e.del {
			delete(c, e.k)
		} else {
			c[e.k] = e.v
		}
	}
}
func csyncTo(d db.Database, want ccontent) {
	have := creadAll(d)
	for k := range have {
		if _, ok := want[k]; !ok {
			d.Delete([]byte(k))
		}
	}
	for k, v := range want {
		if hv, ok := have[k]; !ok || string(hv) != string(v) {
			d.Put([]byte(k), v)
		}
	}
}

// ---------- world ----------
type cworld struct {
	rec       *crecorder
	rawShared db.Database
	poolLDB   db.Database
	pool      *service.TxPool
	genesis   *types.BlockHeader
	txu       []*types.Transaction
	blocks    []*types.Block // universe, for the classification of writes and the predicate
}

func (w *cworld) wrapIndex(prefix string, d db.Database) db.Database {
	return &crecDB{inner: d, pfx: prefix, store: 0, r: w.rec}
}
func (w *cworld) newPool() {
	_, limit := service.VerifLimits()
	w.pool = service.VerifNewTxPool(&crecDB{inner: w.poolLDB, pfx: "", store: 2, r: w.rec}, limit)
	service.VerifBCSetTxPool(w.pool)
}
func (w *cworld) restart() (err error) {
	defer func() {
		if e := recover(); e != nil {
			err = fmt.Errorf("panic: %v", e)
		}
	}()
	middleware.VerifBCResetState(nil)
	w.newPool()
	if e := core.VerifBCRestart(); e != nil {
		return e
	}
	core.VerifBCWrapStores(w.wrapIndex)
	return nil
}
func (w *cworld) setStores(c0, c2 ccontent) {
	on := w.rec.on
	w.rec.on = false
	csyncTo(w.rawShared, c0)
	csyncTo(w.poolLDB, c2)
	w.rec.on = on
}

func crashBoot() *cworld {
	common.Init(0, "p.ini", "dev")
	common.LocalChainConfig.Proposal026Block = 1 << 60
	common.LocalChainConfig.Proposal025Block = 0
	middleware.InitMiddleware()
	service.InitService()
	service.InitRefundManager(cstubChain{}, cstubChain{})
	service.InitRewardCalculator(cstubChain{}, cstubChain{}, cstubChain{})
	vm.InitVM()
	executor.InitExecutors()
	w := &cworld{rec: &crecorder{}}
	pl, err := db.NewLDBDatabase("c17tx", 16, 16)
	if err != nil {
		panic(err)
	}
	w.poolLDB = pl
	w.newPool()
	if err := core.VerifBCInit(&chelper{}); err != nil {
		panic(err)
	}
	core.VerifBCWrapStores(w.wrapIndex)
	w.rawShared, _ = db.NewDatabase("")
	w.genesis = core.GetBlockChain().TopBlock()
	return w
}

const crashTxType = 777 // no executor: the block executor gives a (failed) receipt and bumps the nonce

func (w *cworld) mkTx(hi, i int) *types.Transaction {
	t := &types.Transaction{Source: fmt.Sprintf("0x%040x", 0xc17000+i), Target: "0x00000000000000000000000000000000000c1700",
		Type: crashTxType, Data: fmt.Sprintf("c17 crash history %d tx %d", hi, i), Time: "2020-01-01 00:00:00"}
	t.Hash = t.GenHash()
	return t
}

func (w *cworld) build(parent *types.BlockHeader, qn uint64, salt byte, txs []*types.Transaction) *types.Block {
	bh := &types.BlockHeader{
		CurTime: parent.CurTime.Add(time.Second), Height: parent.Height + 1, ProveValue: big.NewInt(1 + int64(salt%3)),
		Castor: []byte{0xc1, 0x7, salt}, TotalQN: parent.TotalQN + qn, PreHash: parent.Hash, PreTime: parent.CurTime,
		GroupId: crashGroupId, Transactions: make([]common.Hashes, 0), EvictedTxs: make([]common.Hash, 0), RequestIds: map[string]uint64{},
	}
	for k, v := range parent.RequestIds {
		bh.RequestIds[k] = v
	}
	b := &types.Block{Header: bh, Transactions: []*types.Transaction{}}
	for _, t := range txs {
		c := *t
		b.Transactions = append(b.Transactions, &c)
	}
	root, rroot, err := core.VerifBCExecute(parent.StateTree, b, true)
	if err != nil {
		panic(err)
	}
	bh.StateTree, bh.ReceiptTree = root, rroot
	for _, t := range b.Transactions {
		bh.Transactions = append(bh.Transactions, common.Hashes{t.Hash, t.SubHash})
	}
	bh.TxTree = core.VerifBCTxTree(b.Transactions)
	bh.Hash = bh.GenHash()
	return b
}

// name of a recorded write, for the violation key
func (w *cworld) writeName(x cwrite) string {
	if x.store == 2 {
		for _, e := range x.kvs {
			if e.del {
				return "unmarkExecuted"
			}
		}
		return "markExecuted"
	}
	if len(x.kvs) != 1 {
		return "batch"
	}
	e := x.kvs[0]
	switch {
	case e.k == "blockaddBlockMark" && e.del:
		return "delAddMark"
	case e.k == "blockaddBlockMark":
		return "addMark"
	case e.k == "blockremoveBlockMark" && e.del:
		return "delRmMark"
	case e.k == "blockremoveBlockMark":
		return "rmMark"
	case strings.HasPrefix(e.k, "block") && len(e.k) == 5+32 && e.del:
		return "delHash"
	case strings.HasPrefix(e.k, "block") && len(e.k) == 5+32:
		return "putHash"
	case e.k == "heightbcurrent":
		return "putHead"
	case strings.HasPrefix(e.k, "height") && e.del:
		return "delHeight"
	case strings.HasPrefix(e.k, "height"):
		return "putHeight"
	case strings.HasPrefix(e.k, "verifyHash") && e.del:
		return "delVerify"
	case strings.HasPrefix(e.k, "verifyHash"):
		return "putVerify"
	}
	return "other"
}

// C17's predicate on the current chain/pool pair; where = description of the point, wname = key suffix
func (w *cworld) evaluate(wname string, where map[string]interface{}) {
	chain := core.GetBlockChain()
	onChain := map[common.Hash]uint64{}
	top := chain.TopBlock()
	for h := top; h != nil && h.Height > 0; {
		b := chain.QueryBlockByHash(h.Hash)
		if b == nil {
			break
		}
		for _, t := range b.Transactions {
			onChain[t.Hash] = b.Header.Height
		}
		p := chain.QueryBlockByHash(h.PreHash)
		if p == nil {
			break
		}
		h = p.Header
	}
	pool := w.pool
	in := func(t *types.Transaction, extra string) interface{} {
		m := map[string]interface{}{"tx": descTx(t), "head_height": top.Height, "head": top.Hash.Hex(), "note": extra}
		for k, v := range where {
			m[k] = v
		}
		return m
	}
	nonces := map[string]uint64{}
	adb, _ := middleware.AccountDBManagerInstance.GetAccountDBByHash(top.StateTree)
	for _, t := range w.txu {
		c := *t
		if ht, ok := onChain[t.Hash]; ok {
			if ok2, _ := pool.AddTransaction(&c); ok2 {
				violate("C17/at-most-once:after-crash:"+wname, fmt.Sprintf("a transaction of the canonical block at height %d is accepted by AddTransaction again", ht), in(t, "executed on the canonical chain, not recorded executed in the pool"))
			}
		} else {
			pending := false
			for _, p := range pool.GetReceived() {
				pending = pending || p.Hash == t.Hash
			}
			if !pending {
				if ok2, _ := pool.AddTransaction(&c); !ok2 {
					violate("C17/reorg-pending:after-crash:"+wname, "a transaction that is in no block of the canonical chain is neither pending nor accepted by AddTransaction", in(t, "not on the canonical chain, still recorded executed"))
				}
			}
		}
	}
	if adb != nil {
		for _, p := range pool.PackForCast(top.Height+1, adb) {
			if ht, ok := onChain[p.Hash]; ok {
				violate("C17/at-most-once:after-crash-packed:"+wname, fmt.Sprintf("a transaction of the canonical block at height %d is packed again", ht), in(p, "packed for a new block"))
			}
		}
	}
	_ = nonces
}

// deliver b through the real AddBlockOnChain, then cut after every recorded write
func (w *cworld) deliverWithCuts(hi int, label string, b *types.Block, submit []*types.Transaction) {
	c0, c2 := creadAll(w.rawShared), creadAll(w.poolLDB)
	for _, t := range submit {
		c := *t
		w.pool.AddTransaction(&c)
	}
	raw, _ := types.MarshalBlock(b)
	fresh, _ := types.UnMarshalBlock(raw)
	w.rec.log, w.rec.on = nil, true
	result := core.GetBlockChain().AddBlockOnChain(fresh)
	w.rec.on = false
	log := w.rec.log
	var names []string
	for _, x := range log {
		names = append(names, w.writeName(x))
	}
	where := map[string]interface{}{"history": hi, "delivery": label, "block_height": b.Header.Height, "result": int(result), "writes": names}
	w.evaluate("no-crash", where)
	res.Count("crash:delivery:"+fmt.Sprint(len(log) > 0), fmt.Sprintf("h%d-%s", hi, label), len(log) > 0)
	// the final contents, to continue from
	f0, f2 := c0.clone(), c2.clone()
	for _, x := range log {
		if x.store == 0 {
			f0.apply(x)
		} else {
			f2.apply(x)
		}
	}
	fmt.Fprintf(os.Stderr, "C17-CRASH history %d delivery %s result %d writes %v\n", hi, label, int(result), names)
	// the model (coq/C17/Crash.v) fixes the order of the writes that matter to the pool: per inserted block
	// addMark ; markExecuted (if the block has transactions) ; putHead ; delAddMark, per removed block
	// rmMark ; putHead ; unmarkExecuted* ; delRmMark
	var proj []string
	for _, n := range names {
		switch n {
		case "addMark", "markExecuted", "putHead", "delAddMark", "rmMark", "unmarkExecuted", "delRmMark":
			if n == "unmarkExecuted" && len(proj) > 0 && proj[len(proj)-1] == n {
				continue
			}
			proj = append(proj, n)
		}
	}
	okOrder := true
	for i := 0; i < len(proj); {
		switch {
		case proj[i] == "addMark" && i+3 < len(proj) && proj[i+1] == "markExecuted" && proj[i+2] == "putHead" && proj[i+3] == "delAddMark":
			i += 4
		case proj[i] == "addMark" && i+2 < len(proj) && proj[i+1] == "putHead" && proj[i+2] == "delAddMark" && len(b.Transactions) == 0:
			i += 3
		case proj[i] == "rmMark" && i+3 < len(proj) && proj[i+1] == "putHead" && proj[i+2] == "unmarkExecuted" && proj[i+3] == "delRmMark":
			i += 4
		case proj[i] == "rmMark" && i+2 < len(proj) && proj[i+1] == "putHead" && proj[i+2] == "delRmMark":
			i += 3
		default:
			okOrder = false
			i = len(proj)
		}
	}
	if !okOrder {
		violate("C17/crash-model:write-order", "the order of mark / head / executed-store writes of a block delivery is not the one the crash model (Crash.v insert_writes / remove_writes) assumes", where)
	}
	for m := 0; m <= len(log) && len(log) > 0; m++ { // killed after the first m writes
		k0, k2 := c0.clone(), c2.clone()
		for _, x := range log[:m] {
			if x.store == 0 {
				k0.apply(x)
			} else {
				k2.apply(x)
			}
		}
		w.setStores(k0, k2)
		wname := "before-first-write"
		if m > 0 {
			wname = names[m-1]
		}
		pt := map[string]interface{}{"history": hi, "delivery": label, "block_height": b.Header.Height, "writes": names, "killed_after_write": m, "last_write": wname}
		if err := w.restart(); err != nil {
			violate("C17/at-most-once:after-crash:restart-fails:"+wname, "the chain does not start again: "+err.Error(), pt)
			continue
		}
		w.evaluate(wname, pt)
		res.Count("crash:cut-after:"+wname, fmt.Sprintf("h%d-%s-%d", hi, label, m), true)
	}
	w.setStores(f0, f2)
	if err := w.restart(); err != nil {
		panic(err)
	}
}

// one history: a chain of blocks with transactions, a heavier sibling branch (reorg: remove + insert), the
// old branch's transactions partly re-used by the new one
func (w *cworld) history(r *hx.Rng, hi int) {
	w.txu = nil
	for i := 0; i < 7; i++ {
		w.txu = append(w.txu, w.mkTx(hi, i))
	}
	top := core.GetBlockChain().TopBlock()
	pick := func(ix ...int) []*types.Transaction {
		var l []*types.Transaction
		for _, i := range ix {
			l = append(l, w.txu[i])
		}
		return l
	}
	salt := byte(r.Intn(200))
	a1 := w.build(top, 2, salt, pick(0, 1))
	w.deliverWithCuts(hi, "a1", a1, pick(0, 1, 2))
	a2 := w.build(a1.Header, 1, salt+1, pick(2))
	w.deliverWithCuts(hi, "a2", a2, pick(2, 3))
	a3 := w.build(a2.Header, 1, salt+2, nil)
	w.deliverWithCuts(hi, "a3-empty", a3, nil)
	// a heavier branch from a1: removes a3, a2 (their transactions pending again), re-uses tx 2 or not
	// (a block re-using a transaction of the branch being replaced is refused by addBlockOnChain's
	// executed-check and only comes in over the fork-sync path; not part of this scenario)
	btx := pick(3, 4)
	if r.Intn(2) == 0 {
		btx = pick(4, 6)
	}
	b2 := w.build(a1.Header, 4+uint64(r.Intn(3)), salt+3, btx)
	w.deliverWithCuts(hi, "b2-reorg", b2, pick(4, 5))
	b3 := w.build(b2.Header, 1, salt+4, pick(5))
	w.deliverWithCuts(hi, "b3", b3, nil)
}

func crashChildMain(a hx.Args) {
	res = hx.NewResult("crash child")
	w := crashBoot()
	r := hx.NewRng(a.Seed)
	n := 1
	if a.Tier == "thorough" {
		n = 4
	}
	for hi := 0; hi < n; hi++ {
		fmt.Fprintf(os.Stderr, "C17-SOAK crash-history %d\n", hi)
		w.history(r.Fork(), hi)
	}
	res.Write(a.Out)
}
