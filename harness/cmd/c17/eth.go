// The node's submission path -- VerifyTransaction, then AddTransaction, as GameExecutor.runWrite and
// WorkerConn do -- driven with really signed ETH-wrapped (type 188) transactions and adversarial
// re-submissions: the same signed payload under another wrapper Hash (bit flips, random), while the genuine
// one is pending and after it has been executed.  The oracle counts by the IDENTITY of the signed payload
// (ExtraData) as well as by Hash.
package main

import (
	"encoding/hex"
	"fmt"
	"math/big"

	"com.tuntun.rangers/node/src/common"
	crypto "com.tuntun.rangers/node/src/eth_crypto"
	"com.tuntun.rangers/node/src/eth_tx"
	"com.tuntun.rangers/node/src/middleware/db"
	"com.tuntun.rangers/node/src/middleware/types"
	"com.tuntun.rangers/node/src/service"
	"com.tuntun.rangers/node/src/storage/rlp"
	"verif/harness/hx"
)

const ethHeight = uint64(100)

func signedEthTx(keyHex string, nonce uint64, to byte) (*types.Transaction, error) {
	key, err := crypto.HexToECDSA(keyHex)
	if err != nil {
		return nil, err
	}
	signer := eth_tx.NewEIP155Signer(common.GetChainId(ethHeight))
	raw := eth_tx.NewTransaction(nonce, common.HexToAddress(fmt.Sprintf("0x%040x", 0xc200+int(to))), big.NewInt(1), 21000, big.NewInt(1000000000), nil)
	signed, err := eth_tx.SignTx(raw, signer, key)
	if err != nil {
		return nil, err
	}
	encoded, err := rlp.EncodeToBytes(signed)
	if err != nil {
		return nil, err
	}
	sender, err := eth_tx.Sender(signer, signed)
	if err != nil {
		return nil, err
	}
	return eth_tx.ConvertTx(signed, sender, encoded), nil
}

type ethWorld struct {
	pool     *service.TxPool
	js       []interface{}
	executed map[string]bool // identities (ExtraData) executed on "the chain" and not reorged out
	nonces   map[string]uint64
}

func (w *ethWorld) in() interface{} { return map[string]interface{}{"ops": w.js} }

// submit as the node does; returns whether the transaction got into the pool
func (w *ethWorld) submit(tx *types.Transaction, what string, genuine bool) bool {
	verr := w.pool.VerifyTransaction(tx, ethHeight)
	ok := false
	if verr == nil {
		ok, _ = w.pool.AddTransaction(tx)
	}
	w.js = append(w.js, map[string]interface{}{"op": "submit " + what, "hash": tx.Hash.Hex(), "source": tx.Source, "nonce": tx.Nonce,
		"payload": tx.ExtraData[:20] + "...", "verify_error": fmt.Sprint(verr), "in_pool": ok})
	if !genuine && verr == nil {
		violate("C17/admission:hash-not-bound", "VerifyTransaction accepts a signed ETH transaction under a wrapper Hash that is not the hash of the signed payload (the pool and the executed store are keyed by that field)", w.in())
	}
	if ok && w.executed[tx.ExtraData] {
		violate("C17/identity:executed-readmitted", "a signed transaction that was executed in a block is accepted into the pool again ("+what+")", w.in())
	}
	w.checkPending(what)
	return ok
}

func (w *ethWorld) checkPending(after string) {
	seen := map[string]bool{}
	for _, t := range w.pool.GetReceived() {
		if seen[t.ExtraData] {
			violate("C17/identity:duplicate-pending", "the same signed transaction is pending twice (under two wrapper hashes) after "+after, w.in())
		}
		seen[t.ExtraData] = true
	}
}

func (w *ethWorld) pack() []*types.Transaction {
	p := w.pool.PackForCast(ethHeight+1, mkState(w.nonces))
	seen := map[string]bool{}
	var hs []string
	for _, t := range p {
		hs = append(hs, t.Hash.Hex()[:12])
		if seen[t.ExtraData] {
			violate("C17/identity:pack-duplicate", "a packed batch holds the same signed transaction more than once", w.in())
		}
		seen[t.ExtraData] = true
		if w.executed[t.ExtraData] {
			violate("C17/identity:executed-packed", "a signed transaction that was executed in a block is packed again", w.in())
		}
	}
	w.js = append(w.js, map[string]interface{}{"op": "pack", "packed": hs})
	return p
}

func forge(r *hx.Rng, tx *types.Transaction) *types.Transaction {
	f := *tx
	switch r.Intn(3) {
	case 0:
		f.Hash[31] ^= byte(1 << uint(r.Intn(8)))
	case 1:
		f.Hash[r.Intn(32)] ^= byte(1 + r.Intn(255))
	default:
		copy(f.Hash[:], r.Bytes(32))
	}
	return &f
}

func ethScenario(r *hx.Rng, idx int) {
	setFlags(flags{true, true, true, true})
	mem, _ := db.NewMemDatabase()
	w := &ethWorld{pool: service.VerifNewTxPool(mem, poolSize), executed: map[string]bool{}, nonces: map[string]uint64{}}
	nkeys := 1 + r.Intn(2)
	var genuine []*types.Transaction
	for k := 0; k < nkeys; k++ {
		kb := r.Bytes(32)
		kb[0] &= 0x7f
		kb[31] |= 1
		for n := uint64(0); n < uint64(2+r.Intn(2)); n++ {
			tx, err := signedEthTx(hex.EncodeToString(kb), n, byte(r.Intn(4)))
			if err != nil {
				res.Note("eth scenario: signing failed: " + err.Error())
				return
			}
			genuine = append(genuine, tx)
		}
	}
	var lastBlock []*types.Transaction
	nops := 8 + r.Intn(14)
	for i := 0; i < nops; i++ {
		g := genuine[r.Intn(len(genuine))]
		switch r.Intn(10) {
		case 0, 1, 2:
			before := w.executed[g.ExtraData]
			pend := w.pool.IsExisted(g.Hash)
			ok := w.submit(g, "genuine", true)
			if !before && !pend && !ok {
				violate("C17/admission:genuine-refused", "an honestly signed, never seen ETH transaction is refused by the submission path", w.in())
			}
		case 3, 4, 5, 6:
			w.submit(forge(r, g), "same signed payload, different wrapper hash", false)
		case 7:
			w.pack()
		case 8: // a block executes what is packed
			p := w.pack()
			if len(p) == 0 {
				continue
			}
			var rs types.Receipts
			for _, t := range p {
				rs = append(rs, &types.Receipt{TxHash: t.Hash, Height: ethHeight + 1})
				w.executed[t.ExtraData] = true
				if t.Nonce >= w.nonces[t.Source] {
					w.nonces[t.Source] = t.Nonce + 1
				}
			}
			w.pool.MarkExecuted(&types.BlockHeader{Height: ethHeight + 1}, rs, p, nil)
			lastBlock = p
			w.js = append(w.js, map[string]interface{}{"op": "mark-executed", "n": len(p)})
			w.checkPending("mark-executed")
		default: // reorg of the last block
			if lastBlock == nil {
				continue
			}
			w.pool.UnMarkExecuted(&types.Block{Header: &types.BlockHeader{Height: ethHeight + 1}, Transactions: lastBlock})
			for _, t := range lastBlock {
				delete(w.executed, t.ExtraData)
				w.nonces[t.Source] = 0
			}
			lastBlock = nil
			w.js = append(w.js, map[string]interface{}{"op": "unmark-executed"})
			w.checkPending("unmark-executed")
		}
	}
	w.pack()
	res.Count("submission-path:eth-wrapped", fmt.Sprintf("eth-%d-%d", idx, len(w.js)), true)
}
