// Free-running multi-goroutine soak of the real TxPool under the race detector (thorough tier), and the
// parser that turns detector reports located in package service into violations.
package main

import (
	"bytes"
	"encoding/hex"
	"encoding/json"
	"fmt"
	"os"
	"os/exec"
	"path/filepath"
	"regexp"
	"sort"
	"strings"
	"sync"
	"sync/atomic"
	"time"

	"com.tuntun.rangers/node/src/common"
	"com.tuntun.rangers/node/src/middleware"
	"com.tuntun.rangers/node/src/middleware/db"
	"com.tuntun.rangers/node/src/middleware/types"
	"com.tuntun.rangers/node/src/service"
	"verif/harness/hx"
)

// A race-detector build re-executes itself with GORACE set (the driver does not pass it): reports go to
// <out>/race.<pid>, the run continues after a report, the exit code is the harness's own.
func reexecUnderGorace(out string) {
	if !raceEnabled || os.Getenv("C17_RACE_CHILD") != "" {
		return
	}
	cmd := exec.Command(os.Args[0], os.Args[1:]...)
	cmd.Env = append(os.Environ(), "C17_RACE_CHILD=1",
		"GORACE=halt_on_error=0 exitcode=0 history_size=5 log_path="+filepath.Join(out, "race"))
	cmd.Stdout, cmd.Stderr = os.Stdout, os.Stderr
	if err := cmd.Run(); err != nil {
		if ee, ok := err.(*exec.ExitError); ok {
			os.Exit(ee.ExitCode())
		}
		fmt.Println("re-exec failed:", err)
		os.Exit(2)
	}
	os.Exit(0)
}

var svcFrame = regexp.MustCompile(`^\s+com\.tuntun\.rangers/node/src/service\.(\(\*?[A-Za-z]+\)\.)?([A-Za-z0-9_]+)`)

// outermost frame of package service in one stack of a report ("" if none): the pool method that was called
func outermostService(stack []string) string {
	f := ""
	for _, l := range stack {
		if m := svcFrame.FindStringSubmatch(l); m != nil {
			f = m[2]
		}
		if strings.Contains(l, "created by") {
			break
		}
	}
	return f
}

// parse <out>/race.* ; every report whose two access stacks both run through package service becomes a
// violation C17/data-race:<method>|<method> (sorted); a report that touches service on one side only is
// keyed with "harness" on the other; reports without any service frame are harness-internal. Methods
// that take no lock at all are collapsed to "reader".
func collectRaceReports(out string) (n int) {
	files, _ := filepath.Glob(filepath.Join(out, "race.*"))
	seen := map[string]bool{}
	for _, fn := range files {
		b, err := os.ReadFile(fn)
		if err != nil {
			continue
		}
		for _, rep := range strings.Split(string(b), "==================") {
			if !strings.Contains(rep, "WARNING: DATA RACE") {
				continue
			}
			n++
			// the two access stacks are the first two paragraphs
			paras := strings.Split(strings.TrimSpace(rep), "\n\n")
			var fs []string
			for i := 0; i < len(paras) && i < 2; i++ {
				f := outermostService(strings.Split(paras[i], "\n"))
				switch f {
				case "":
					f = "harness"
				case "AddTransaction", "MarkExecuted", "UnMarkExecuted", "Clear", "PackForCast", "VerifGrowRing":
				default: // GetTransaction, IsExisted, TxNum, GetReceived, GetExecuted, IsFull, GetGateNonce, ...
					f = "reader"
				}
				fs = append(fs, f)
			}
			for len(fs) < 2 {
				fs = append(fs, "harness")
			}
			sort.Strings(fs)
			key := "C17/data-race:" + fs[0] + "|" + fs[1]
			res.Histogram["race-report:"+fs[0]+"|"+fs[1]]++
			if seen[key] {
				continue
			}
			seen[key] = true
			txt := rep
			if len(txt) > 4000 {
				txt = txt[:4000]
			}
			violate(key, "the race detector reports unsynchronised access to pool state from "+fs[0]+" and "+fs[1], map[string]interface{}{"report": txt})
		}
	}
	return n
}

// One soak round: a fresh pool, goroutines running a random mix of every pool method the way the node
// calls them (MarkExecuted / UnMarkExecuted under the chain write lock, PackForCast under the chain read
// lock, Clear takes the chain lock itself, everything else lock-free), then the invariants at quiescence.
func raceSoakRound(r *hx.Rng, round int, withClear bool) {
	setFlags(flags{true, true, true, true})
	mem, _ := db.NewMemDatabase()
	pool := service.VerifNewTxPool(mem, 40)
	nsrc := 3
	srcs := make([]string, nsrc)
	for i := range srcs {
		srcs[i] = "0x" + hex.EncodeToString(r.Bytes(20))
	}
	tbl := make([]*types.Transaction, 48)
	for i := range tbl {
		s := srcs[r.Intn(nsrc)]
		tx := &types.Transaction{Source: s, Target: s, Nonce: uint64(r.Intn(6)), Type: 188, ChainId: "9500"}
		copy(tx.Hash[:], r.Bytes(32))
		if r.Intn(4) == 0 {
			tx.RequestId = uint64(1 + r.Intn(9))
			tx.SubTransactions = []types.UserData{{Address: uint64(1 + r.Intn(50))}}
		}
		tbl[i] = tx
	}
	var wg sync.WaitGroup
	var packBad int32
	run := func(rr *hx.Rng, n int, f func(rr *hx.Rng)) {
		wg.Add(1)
		go func() {
			defer wg.Done()
			defer func() {
				if e := recover(); e != nil {
					violate("C17/soak:panic", fmt.Sprint("a pool method panicked under concurrent use: ", e), map[string]interface{}{"round": round})
				}
			}()
			for i := 0; i < n; i++ {
				f(rr)
			}
		}()
	}
	for k := 0; k < 3; k++ { // network / RPC goroutines
		run(r.Fork(), 60, func(rr *hx.Rng) { pool.AddTransaction(tbl[rr.Intn(len(tbl))]) })
	}
	var blocks [][]*types.Transaction    // owned by the chain goroutine
	run(r.Fork(), 25, func(rr *hx.Rng) { // chain goroutine
		middleware.LockBlockchain("c17 soak")
		defer middleware.UnLockBlockchain("c17 soak")
		if len(blocks) > 0 && rr.Intn(3) == 0 {
			b := blocks[len(blocks)-1]
			blocks = blocks[:len(blocks)-1]
			pool.UnMarkExecuted(&types.Block{Header: &types.BlockHeader{Height: 1}, Transactions: b})
			return
		}
		var txs []*types.Transaction
		var rs types.Receipts
		var ev []common.Hash
		for _, t := range pool.GetReceived() {
			switch rr.Intn(5) {
			case 0, 1:
				txs = append(txs, t)
				rs = append(rs, &types.Receipt{TxHash: t.Hash})
			case 2:
				if rr.Intn(3) == 0 {
					ev = append(ev, t.Hash)
				}
			}
		}
		pool.MarkExecuted(&types.BlockHeader{Height: 1, EvictedTxs: ev}, rs, txs, ev)
		if len(txs) > 0 {
			blocks = append(blocks, txs)
		}
	})
	run(r.Fork(), 25, func(rr *hx.Rng) { // proposer
		nonces := map[string]uint64{}
		for _, s := range srcs {
			nonces[s] = uint64(rr.Intn(3))
		}
		adb := mkState(nonces)
		middleware.RLockBlockchain("c17 soak cast")
		p := pool.PackForCast(2, adb)
		middleware.RUnLockBlockchain("c17 soak cast")
		seen := map[common.Hash]bool{}
		for _, t := range p {
			if seen[t.Hash] {
				atomic.AddInt32(&packBad, 1)
			}
			seen[t.Hash] = true
		}
		if len(p) > perBlock {
			atomic.AddInt32(&packBad, 1)
		}
	})
	for k := 0; k < 2; k++ { // RPC readers
		run(r.Fork(), 80, func(rr *hx.Rng) {
			h := tbl[rr.Intn(len(tbl))].Hash
			switch rr.Intn(6) {
			case 0:
				pool.GetTransaction(h)
			case 1:
				pool.IsExisted(h)
			case 2:
				pool.TxNum()
			case 3:
				pool.GetReceived()
			case 4:
				pool.GetExecuted(h)
			default:
				pool.IsFull()
				pool.GetGateNonce()
			}
		})
	}
	if !withClear {
		// expiry ticker (the hook reads pool.received, which the real ticker goroutine does not: no ticks
		// in the rounds in which Clear swaps that field)
		run(r.Fork(), 12, func(rr *hx.Rng) { pool.VerifGrowRing() })
	}
	if withClear {
		run(r.Fork(), 3, func(rr *hx.Rng) { pool.Clear() })
	}
	wg.Wait()
	// quiescent: the sequential invariants must hold again
	in := func() interface{} { return map[string]interface{}{"round": round, "with_clear": withClear} }
	seen := map[common.Hash]bool{}
	recv := pool.GetReceived()
	for _, t := range recv {
		if seen[t.Hash] {
			violate("C17/soak:duplicate-pending", "two pending entries with one hash after concurrent use", in())
		}
		seen[t.Hash] = true
		if pool.GetExecuted(t.Hash) != nil {
			violate("C17/soak:pending-and-executed", "a transaction is pending and executed after concurrent use", in())
		}
		if !pool.IsExisted(t.Hash) {
			violate("C17/soak:pending-not-existed", "IsExisted is false for a pending transaction", in())
		}
	}
	if packBad > 0 {
		violate("C17/soak:pack-duplicate-or-over-limit", "a batch packed during concurrent use had a duplicate hash or exceeded the limit", in())
	}
	nonces := map[string]uint64{}
	checkPack(flags{true, true, true, true}, pool.PackForCast(2, mkState(nonces)), recv, pool, nonces, in)
	cls := "soak:all-methods"
	if withClear {
		cls = "soak:all-methods+clear"
	}
	res.Count(cls, fmt.Sprintf("%s-%d", cls, round), false)
}

// ---------- the soaks as a child process ----------
// The child announces every round on stderr ("C17-SOAK <kind> <round>") so that the parent can say where it
// died; it writes its own result.json, which the parent merges.
func soakChildMain(a hx.Args) {
	res = hx.NewResult("soak child")
	common.Init(0, "p.ini", "dev")
	common.SetBlockHeight(100)
	middleware.InitMiddleware()
	service.InitService()
	var err error
	sharedStore, err = db.NewLDBDatabase("c17exec", 16, 16)
	if err != nil {
		fmt.Println("cannot open LevelDB store:", err)
		os.Exit(2)
	}
	r := hx.NewRng(a.Seed)
	announce := func(kind string, round int) { fmt.Fprintf(os.Stderr, "C17-SOAK %s %d\n", kind, round) }
	if a.Tier == "thorough" {
		announce("add-vs-mark", 0)
		soak(r.Fork(), 3000)
		for i := 0; i < 150; i++ {
			announce("all-methods", i)
			raceSoakRound(r.Fork(), i, false)
		}
		for i := 0; i < 30; i++ {
			announce("all-methods+clear", 150+i)
			raceSoakRound(r.Fork(), 150+i, true)
		}
		for i := 0; i < 3; i++ {
			announce("hammer", i)
			hammerRound(r.Fork(), i)
		}
	} else {
		announce("add-vs-mark", 0)
		soak(r.Fork(), 200)
		for i := 0; i < 10; i++ {
			announce("all-methods", i)
			raceSoakRound(r.Fork(), i, false)
		}
		for i := 0; i < 2; i++ {
			announce("hammer", i)
			hammerRound(r.Fork(), i)
		}
	}
	res.Write(a.Out)
}

var anyFrame = regexp.MustCompile(`^([A-Za-z0-9_./\-]+)\.(\(\*?[A-Za-z0-9_]+\)\.)?([A-Za-z0-9_]+)(\.func[0-9.]+)?\(`)

// the crashing goroutine's stack: innermost and outermost frame in package service
func crashFrames(out string, from int) (string, string) {
	inner, outer := "", ""
	lines := strings.Split(out[from:], "\n")
	started := false
	for _, l := range lines {
		if strings.HasPrefix(l, "goroutine ") {
			if started {
				break
			}
			started = true
			continue
		}
		if !started {
			continue
		}
		if m := anyFrame.FindStringSubmatch(l); m != nil && strings.HasSuffix(m[1], "/src/service") {
			if inner == "" {
				inner = m[3]
			}
			outer = m[3]
		}
	}
	if inner == "" {
		inner, outer = "unknown", "unknown"
	}
	return inner, outer
}

func runSoakChild(a hx.Args, seed uint64) {
	cdir := filepath.Join(a.Out, "soakchild")
	wdir := filepath.Join(a.Out, "soakwork")
	os.MkdirAll(cdir, 0o755)
	os.MkdirAll(wdir, 0o755)
	cmd := exec.Command(os.Args[0], "-seed", fmt.Sprint(seed), "-n", "0", "-tier", a.Tier, "-out", cdir)
	cmd.Dir = wdir
	cmd.Env = append(os.Environ(), "C17_SOAK_CHILD=1")
	var buf bytes.Buffer
	cmd.Stdout = &buf
	cmd.Stderr = &buf
	runErr := cmd.Run()
	out := buf.String()
	os.WriteFile(filepath.Join(a.Out, "soakchild.log"), []byte(out), 0o644)
	os.RemoveAll(wdir)
	// where was it?
	kind, round := "?", "?"
	if i := strings.LastIndex(out, "C17-SOAK "); i >= 0 {
		fmt.Sscanf(out[i:], "C17-SOAK %s %s", &kind, &round)
	}
	var child hx.Result
	if b, err := os.ReadFile(filepath.Join(cdir, "result.json")); err == nil && json.Unmarshal(b, &child) == nil {
		for _, v := range child.Violations {
			res.Violate(v.Key, v.What, v.Input)
		}
		for k, n := range child.Histogram {
			if !strings.HasPrefix(k, "violation:") {
				res.Histogram[k] += n
			}
		}
		res.Evaluations += child.Evaluations
		res.Notes = append(res.Notes, child.Notes...)
	}
	fatal := strings.Index(out, "fatal error:")
	if fatal < 0 {
		fatal = strings.Index(out, "\npanic:")
	}
	if runErr == nil && fatal < 0 {
		return
	}
	// the pool (or the runtime under it) died under concurrent use
	msg, inner, outer := fmt.Sprint("soak child: ", runErr), "unknown", "unknown"
	if fatal >= 0 {
		msg = strings.TrimSpace(strings.SplitN(out[fatal:], "\n", 3)[0])
		if strings.HasPrefix(msg, "panic:") || msg == "" {
			msg = strings.TrimSpace(strings.SplitN(strings.TrimLeft(out[fatal:], "\n"), "\n", 2)[0])
		}
		inner, outer = crashFrames(out, fatal)
	}
	excerpt := out
	if fatal >= 0 {
		excerpt = out[fatal:]
	}
	if len(excerpt) > 3000 {
		excerpt = excerpt[:3000]
	}
	res.Count("soak:child-died", "soak-child-died", true)
	violate("C17/concurrency:pool-corrupted:"+inner+"|"+outer,
		fmt.Sprintf("concurrent use of the pool killed the process (%s) in soak round %s/%s: %s in %s called from %s", msg, kind, round, msg, inner, outer),
		map[string]interface{}{"soak_seed": seed, "tier": a.Tier, "round_kind": kind, "round": round,
			"op_mix": soakMix[kind], "replay": fmt.Sprintf("C17_SOAK_CHILD=1 <harness> -seed %d -n 0 -tier %s -out <dir>", seed, a.Tier), "crash": excerpt})
}

var soakMix = map[string]string{
	"add-vs-mark":       "8 goroutines AddTransaction(tx) + 1 goroutine MarkExecuted([tx]) per round, LevelDB store",
	"all-methods":       "3 adders, 1 chain goroutine (MarkExecuted/UnMarkExecuted under the chain write lock), 1 proposer (PackForCast under the chain read lock), 2 readers (GetTransaction/IsExisted/TxNum/GetReceived/GetExecuted/IsFull), 1 expiry ticker",
	"all-methods+clear": "as all-methods, plus Clear()",
	"hammer":            "1 submitter adding thousands of transactions, 1 bookkeeper marking them executed/evicted in blocks of 25, 1 proposer packing, 2 lookups (GetTransaction/IsExisted/TxNum/IsFull), 1 expiry ticker, until the submitter is done",
}

// A long round in the shape of the node's steady state: a submitter, the block bookkeeper, the proposer and
// lookups all busy at once on one pool.
func hammerRound(r *hx.Rng, round int) {
	setFlags(flags{true, true, true, true})
	mem, _ := db.NewMemDatabase()
	pool := service.VerifNewTxPool(mem, poolSize)
	total := 12000
	if raceEnabled {
		total = 2500
	}
	txs := make([]*types.Transaction, total)
	for i := range txs {
		tx := &types.Transaction{Source: fmt.Sprintf("0x%040x", 0xc17000+i%64), Type: 188, ChainId: "9500"}
		copy(tx.Hash[:], r.Bytes(32))
		txs[i] = tx
	}
	var done int32
	var wg sync.WaitGroup
	var bad int32
	guard := func(who string) {
		if e := recover(); e != nil {
			atomic.StoreInt32(&done, 1)
			violate("C17/concurrency:pool-corrupted:panic|"+who, fmt.Sprint(who, " panicked under concurrent use: ", e), map[string]interface{}{"round_kind": "hammer", "round": round, "op_mix": soakMix["hammer"]})
		}
		wg.Done()
	}
	toBook := make(chan *types.Transaction, total)
	wg.Add(1)
	go func() { // submitter
		defer guard("AddTransaction")
		defer close(toBook)
		for i := 0; i < total && atomic.LoadInt32(&done) == 0; i++ {
			pool.AddTransaction(txs[i])
			toBook <- txs[i]
		}
		atomic.StoreInt32(&done, 1)
	}()
	wg.Add(1)
	go func() { // bookkeeper
		defer guard("MarkExecuted")
		var batch []*types.Transaction
		h := uint64(1)
		for tx := range toBook {
			batch = append(batch, tx)
			if len(batch) < 25 {
				continue
			}
			middleware.LockBlockchain("c17 hammer")
			if h%2 == 0 {
				var ev []common.Hash
				for _, t := range batch {
					ev = append(ev, t.Hash)
				}
				pool.MarkExecuted(&types.BlockHeader{Height: h}, nil, nil, ev)
			} else {
				var rs types.Receipts
				for _, t := range batch {
					rs = append(rs, &types.Receipt{TxHash: t.Hash, Height: h})
				}
				pool.MarkExecuted(&types.BlockHeader{Height: h}, rs, batch, nil)
			}
			middleware.UnLockBlockchain("c17 hammer")
			h++
			batch = nil
		}
	}()
	wg.Add(1)
	go func() { // proposer
		defer guard("PackForCast")
		adb := mkState(nil)
		for atomic.LoadInt32(&done) == 0 {
			middleware.RLockBlockchain("c17 hammer cast")
			p := pool.PackForCast(2, adb)
			middleware.RUnLockBlockchain("c17 hammer cast")
			seen := map[common.Hash]bool{}
			for _, t := range p {
				if t == nil || seen[t.Hash] {
					atomic.AddInt32(&bad, 1)
					continue
				}
				seen[t.Hash] = true
			}
			if len(p) > perBlock {
				atomic.AddInt32(&bad, 1)
			}
		}
	}()
	for k := 0; k < 2; k++ {
		wg.Add(1)
		rr := r.Fork()
		go func() { // lookups
			defer guard("lookup")
			for atomic.LoadInt32(&done) == 0 {
				h := txs[rr.Intn(total)].Hash
				pool.GetTransaction(h)
				pool.IsExisted(h)
				pool.TxNum()
				pool.IsFull()
			}
		}()
	}
	wg.Add(1)
	go func() { // expiry ticker
		defer guard("growRing")
		for atomic.LoadInt32(&done) == 0 {
			pool.VerifGrowRing()
			time.Sleep(2 * time.Millisecond)
		}
	}()
	wg.Wait()
	in := func() interface{} {
		return map[string]interface{}{"round_kind": "hammer", "round": round, "op_mix": soakMix["hammer"]}
	}
	if bad > 0 {
		violate("C17/soak:pack-duplicate-or-over-limit", "a batch packed during concurrent use had a nil entry, a duplicate hash or exceeded the limit", in())
	}
	seen := map[common.Hash]bool{}
	for _, t := range pool.GetReceived() {
		if seen[t.Hash] {
			violate("C17/soak:duplicate-pending", "two pending entries with one hash after concurrent use", in())
		}
		seen[t.Hash] = true
		if pool.GetExecuted(t.Hash) != nil {
			violate("C17/soak:pending-and-executed", "a transaction is pending and executed after concurrent use", in())
		}
	}
	if n := pool.TxNum(); n != len(seen) {
		violate("C17/soak:size-drift", fmt.Sprintf("TxNum() = %d but %d pending entries are listed", n, len(seen)), in())
	}
	res.Count("soak:hammer", fmt.Sprintf("hammer-%d", round), false)
}

// the chain-coupled crash scenario runs in a child as well (it installs its own pool and chain process-wide)
func runCrashChild(a hx.Args, seed uint64) {
	cdir := filepath.Join(a.Out, "crashchild")
	wdir := filepath.Join(a.Out, "crashwork")
	os.MkdirAll(cdir, 0o755)
	os.MkdirAll(wdir, 0o755)
	cmd := exec.Command(os.Args[0], "-seed", fmt.Sprint(seed), "-n", "0", "-tier", a.Tier, "-out", cdir)
	cmd.Dir = wdir
	cmd.Env = append(os.Environ(), "C17_CRASH_CHILD=1")
	var buf bytes.Buffer
	cmd.Stdout = &buf
	cmd.Stderr = &buf
	runErr := cmd.Run()
	out := buf.String()
	os.WriteFile(filepath.Join(a.Out, "crashchild.log"), []byte(out), 0o644)
	os.RemoveAll(wdir)
	var child hx.Result
	b, err := os.ReadFile(filepath.Join(cdir, "result.json"))
	if runErr != nil || err != nil || json.Unmarshal(b, &child) != nil {
		tail := out
		if len(tail) > 3000 {
			tail = tail[len(tail)-3000:]
		}
		violate("C17/at-most-once:after-crash:scenario-died", fmt.Sprint("the chain-coupled crash scenario did not complete: ", runErr), map[string]interface{}{"seed": seed, "output_tail": tail})
		return
	}
	for _, v := range child.Violations {
		res.Violate(v.Key, v.What, v.Input)
	}
	for k, n := range child.Histogram {
		if !strings.HasPrefix(k, "violation:") {
			res.Histogram[k] += n
		}
	}
	res.Evaluations += child.Evaluations
	res.DistinctNontrivial += child.DistinctNontrivial
	res.Notes = append(res.Notes, child.Notes...)
}
