// Free-running multi-goroutine soak of the real TxPool under the race detector (thorough tier), and the
// parser that turns detector reports located in package service into violations.
package main

import (
	"encoding/hex"
	"fmt"
	"os"
	"os/exec"
	"path/filepath"
	"regexp"
	"sort"
	"strings"
	"sync"
	"sync/atomic"

	"com.tuntun.rangers/node/src/common"
	"com.tuntun.rangers/node/src/middleware"
	"com.tuntun.rangers/node/src/middleware/db"
	"com.tuntun.rangers/node/src/middleware/types"
	"com.tuntun.rangers/node/src/service"
	"verif/harness/hx"
)

// A race-detector build re-executes itself with GORACE set (the driver does not pass it): reports go to
// <out>/race.<pid>, the run continues after a report, the exit code is the harness's own.
func reexecUnderGorace(out string) {
	if !raceEnabled || os.Getenv("C17_RACE_CHILD") != "" {
		return
	}
	cmd := exec.Command(os.Args[0], os.Args[1:]...)
	cmd.Env = append(os.Environ(), "C17_RACE_CHILD=1",
		"GORACE=halt_on_error=0 exitcode=0 history_size=5 log_path="+filepath.Join(out, "race"))
	cmd.Stdout, cmd.Stderr = os.Stdout, os.Stderr
	if err := cmd.Run(); err != nil {
		if ee, ok := err.(*exec.ExitError); ok {
			os.Exit(ee.ExitCode())
		}
		fmt.Println("re-exec failed:", err)
		os.Exit(2)
	}
	os.Exit(0)
}

var svcFrame = regexp.MustCompile(`^\s+com\.tuntun\.rangers/node/src/service\.(\(\*?[A-Za-z]+\)\.)?([A-Za-z0-9_]+)`)

// outermost frame of package service in one stack of a report ("" if none): the pool method that was called
func outermostService(stack []string) string {
	f := ""
	for _, l := range stack {
		if m := svcFrame.FindStringSubmatch(l); m != nil {
			f = m[2]
		}
		if strings.Contains(l, "created by") {
			break
		}
	}
	return f
}

// parse <out>/race.* ; every report whose two access stacks both run through package service becomes a
// violation C17/data-race:<method>|<method> (sorted); a report that touches service on one side only is
// keyed with "harness" on the other; reports without any service frame are harness-internal. Methods
// that take no lock at all are collapsed to "reader".
func collectRaceReports(out string) (n int) {
	files, _ := filepath.Glob(filepath.Join(out, "race.*"))
	seen := map[string]bool{}
	for _, fn := range files {
		b, err := os.ReadFile(fn)
		if err != nil {
			continue
		}
		for _, rep := range strings.Split(string(b), "==================") {
			if !strings.Contains(rep, "WARNING: DATA RACE") {
				continue
			}
			n++
			// the two access stacks are the first two paragraphs
			paras := strings.Split(strings.TrimSpace(rep), "\n\n")
			var fs []string
			for i := 0; i < len(paras) && i < 2; i++ {
				f := outermostService(strings.Split(paras[i], "\n"))
				switch f {
				case "":
					f = "harness"
				case "AddTransaction", "MarkExecuted", "UnMarkExecuted", "Clear", "PackForCast", "VerifGrowRing":
				default: // GetTransaction, IsExisted, TxNum, GetReceived, GetExecuted, IsFull, GetGateNonce, ...
					f = "reader"
				}
				fs = append(fs, f)
			}
			for len(fs) < 2 {
				fs = append(fs, "harness")
			}
			sort.Strings(fs)
			key := "C17/data-race:" + fs[0] + "|" + fs[1]
			res.Histogram["race-report:"+fs[0]+"|"+fs[1]]++
			if seen[key] {
				continue
			}
			seen[key] = true
			txt := rep
			if len(txt) > 4000 {
				txt = txt[:4000]
			}
			violate(key, "the race detector reports unsynchronised access to pool state from "+fs[0]+" and "+fs[1], map[string]interface{}{"report": txt})
		}
	}
	return n
}

// One soak round: a fresh pool, goroutines running a random mix of every pool method the way the node
// calls them (MarkExecuted / UnMarkExecuted under the chain write lock, PackForCast under the chain read
// lock, Clear takes the chain lock itself, everything else lock-free), then the invariants at quiescence.
func raceSoakRound(r *hx.Rng, round int, withClear bool) {
	setFlags(flags{true, true, true, true})
	mem, _ := db.NewMemDatabase()
	pool := service.VerifNewTxPool(mem, 40)
	nsrc := 3
	srcs := make([]string, nsrc)
	for i := range srcs {
		srcs[i] = "0x" + hex.EncodeToString(r.Bytes(20))
	}
	tbl := make([]*types.Transaction, 48)
	for i := range tbl {
		s := srcs[r.Intn(nsrc)]
		tx := &types.Transaction{Source: s, Target: s, Nonce: uint64(r.Intn(6)), Type: 188, ChainId: "9500"}
		copy(tx.Hash[:], r.Bytes(32))
		if r.Intn(4) == 0 {
			tx.RequestId = uint64(1 + r.Intn(9))
			tx.SubTransactions = []types.UserData{{Address: uint64(1 + r.Intn(50))}}
		}
		tbl[i] = tx
	}
	var wg sync.WaitGroup
	var packBad int32
	run := func(rr *hx.Rng, n int, f func(rr *hx.Rng)) {
		wg.Add(1)
		go func() {
			defer wg.Done()
			defer func() {
				if e := recover(); e != nil {
					violate("C17/soak:panic", fmt.Sprint("a pool method panicked under concurrent use: ", e), map[string]interface{}{"round": round})
				}
			}()
			for i := 0; i < n; i++ {
				f(rr)
			}
		}()
	}
	for k := 0; k < 3; k++ { // network / RPC goroutines
		run(r.Fork(), 60, func(rr *hx.Rng) { pool.AddTransaction(tbl[rr.Intn(len(tbl))]) })
	}
	var blocks [][]*types.Transaction    // owned by the chain goroutine
	run(r.Fork(), 25, func(rr *hx.Rng) { // chain goroutine
		middleware.LockBlockchain("c17 soak")
		defer middleware.UnLockBlockchain("c17 soak")
		if len(blocks) > 0 && rr.Intn(3) == 0 {
			b := blocks[len(blocks)-1]
			blocks = blocks[:len(blocks)-1]
			pool.UnMarkExecuted(&types.Block{Header: &types.BlockHeader{Height: 1}, Transactions: b})
			return
		}
		var txs []*types.Transaction
		var rs types.Receipts
		var ev []common.Hash
		for _, t := range pool.GetReceived() {
			switch rr.Intn(5) {
			case 0, 1:
				txs = append(txs, t)
				rs = append(rs, &types.Receipt{TxHash: t.Hash})
			case 2:
				if rr.Intn(3) == 0 {
					ev = append(ev, t.Hash)
				}
			}
		}
		pool.MarkExecuted(&types.BlockHeader{Height: 1, EvictedTxs: ev}, rs, txs, ev)
		if len(txs) > 0 {
			blocks = append(blocks, txs)
		}
	})
	run(r.Fork(), 25, func(rr *hx.Rng) { // proposer
		nonces := map[string]uint64{}
		for _, s := range srcs {
			nonces[s] = uint64(rr.Intn(3))
		}
		adb := mkState(nonces)
		middleware.RLockBlockchain("c17 soak cast")
		p := pool.PackForCast(2, adb)
		middleware.RUnLockBlockchain("c17 soak cast")
		seen := map[common.Hash]bool{}
		for _, t := range p {
			if seen[t.Hash] {
				atomic.AddInt32(&packBad, 1)
			}
			seen[t.Hash] = true
		}
		if len(p) > perBlock {
			atomic.AddInt32(&packBad, 1)
		}
	})
	for k := 0; k < 2; k++ { // RPC readers
		run(r.Fork(), 80, func(rr *hx.Rng) {
			h := tbl[rr.Intn(len(tbl))].Hash
			switch rr.Intn(6) {
			case 0:
				pool.GetTransaction(h)
			case 1:
				pool.IsExisted(h)
			case 2:
				pool.TxNum()
			case 3:
				pool.GetReceived()
			case 4:
				pool.GetExecuted(h)
			default:
				pool.IsFull()
				pool.GetGateNonce()
			}
		})
	}
	if !withClear {
		// expiry ticker (the hook reads pool.received, which the real ticker goroutine does not: no ticks
		// in the rounds in which Clear swaps that field)
		run(r.Fork(), 12, func(rr *hx.Rng) { pool.VerifGrowRing() })
	}
	if withClear {
		run(r.Fork(), 3, func(rr *hx.Rng) { pool.Clear() })
	}
	wg.Wait()
	// quiescent: the sequential invariants must hold again
	in := func() interface{} { return map[string]interface{}{"round": round, "with_clear": withClear} }
	seen := map[common.Hash]bool{}
	recv := pool.GetReceived()
	for _, t := range recv {
		if seen[t.Hash] {
			violate("C17/soak:duplicate-pending", "two pending entries with one hash after concurrent use", in())
		}
		seen[t.Hash] = true
		if pool.GetExecuted(t.Hash) != nil {
			violate("C17/soak:pending-and-executed", "a transaction is pending and executed after concurrent use", in())
		}
		if !pool.IsExisted(t.Hash) {
			violate("C17/soak:pending-not-existed", "IsExisted is false for a pending transaction", in())
		}
	}
	if packBad > 0 {
		violate("C17/soak:pack-duplicate-or-over-limit", "a batch packed during concurrent use had a duplicate hash or exceeded the limit", in())
	}
	nonces := map[string]uint64{}
	checkPack(flags{true, true, true, true}, pool.PackForCast(2, mkState(nonces)), recv, pool, nonces, in)
	cls := "soak:all-methods"
	if withClear {
		cls = "soak:all-methods+clear"
	}
	res.Count(cls, fmt.Sprintf("%s-%d", cls, round), false)
}
