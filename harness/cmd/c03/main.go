// C03 harness: durability of committed state roots.
//
// The real AccountDB / trie NodeDatabase run on top of a recording db.Database written here.
// For generated multi-block histories of account/storage/code mutations every disk commit
// (NodeDatabase.Commit) is recorded as the exact sequence of batch.Put calls and batch.Write calls.
//
//	(a) direct evaluation of the property on the implementation: for every prefix k of the recorded
//	    puts of every commit (every put is treated as a crash point, batch boundaries included) the
//	    disk "pre-commit + first k puts" is materialised; every known state root whose top node is
//	    present is opened cold (fresh account database, empty caches) and all accounts, storage
//	    slots and code are read back and compared with what was readable before the commit; every
//	    root that was durable before the commit must still be present and readable.
//	(b) model cases: per history, per commit: the dirty set with the references decoded from the
//	    blobs, the recorded put order, the recorded batches, a visit tree; the Coq model replays the
//	    history (coq/C03/Harness.v).
//	(c) inventory: no non-test caller of NodeDatabase.Dereference / Cap and no Delete on the state
//	    store (go/ast scan of the repository the harness was built against).
package main

import (
	"bytes"
	"encoding/hex"
	"errors"
	"fmt"
	"go/ast"
	"go/parser"
	"go/printer"
	"go/token"
	"math/big"
	"os"
	"path/filepath"
	"regexp"
	"sort"
	"strings"
	"time"

	"com.tuntun.rangers/node/src/common"
	"com.tuntun.rangers/node/src/core"
	crypto "com.tuntun.rangers/node/src/eth_crypto"
	"com.tuntun.rangers/node/src/executor"
	"com.tuntun.rangers/node/src/middleware"
	xdb "com.tuntun.rangers/node/src/middleware/db"
	"com.tuntun.rangers/node/src/middleware/types"
	"com.tuntun.rangers/node/src/service"
	"com.tuntun.rangers/node/src/storage/account"
	"com.tuntun.rangers/node/src/storage/rlp"
	"com.tuntun.rangers/node/src/storage/trie"
	"com.tuntun.rangers/node/src/vm"
	"github.com/syndtr/goleveldb/leveldb/iterator"
	"golang.org/x/crypto/sha3"
	"verif/harness/hx"
)

// ---------------------------------------------------------------------------------------------
// recording / crash databases (implement xdb.Database)

type kv struct {
	k string
	v []byte
}
type event struct {
	batch bool // false: direct Put
	items []kv
}

type memDB struct {
	m        map[string][]byte
	rec      bool
	events   []event
	deletes  []string
	readonly bool
	writes   int // writes attempted while readonly
	failAt   int // > 0: the failAt-th batch.Write from now on returns errInjected and writes nothing
	nWrites  int
}

var errInjected = errors.New("injected write error (disk full)")

func newMemDB() *memDB { return &memDB{m: map[string][]byte{}} }

func (d *memDB) Put(key, value []byte) error {
	if d.readonly {
		d.writes++
		return errors.New("read-only crash image")
	}
	v := append([]byte{}, value...)
	if d.rec {
		d.events = append(d.events, event{false, []kv{{string(key), v}}})
	}
	d.m[string(key)] = v
	return nil
}
func (d *memDB) Get(key []byte) ([]byte, error) {
	if v, ok := d.m[string(key)]; ok {
		return append([]byte{}, v...), nil
	}
	return nil, errors.New("not found")
}
func (d *memDB) Has(key []byte) (bool, error) { _, ok := d.m[string(key)]; return ok, nil }
func (d *memDB) Delete(key []byte) error {
	if d.readonly {
		d.writes++
		return errors.New("read-only crash image")
	}
	d.deletes = append(d.deletes, hex.EncodeToString(key))
	delete(d.m, string(key))
	return nil
}
func (d *memDB) Close()                         {}
func (d *memDB) NewIterator() iterator.Iterator { panic("not supported") }
func (d *memDB) NewIteratorWithPrefix(prefix []byte) iterator.Iterator {
	panic("not supported")
}
func (d *memDB) NewBatch() xdb.Batch { return &memBatch{db: d} }

type memBatch struct {
	db     *memDB
	writes []kv
	size   int
}

func (b *memBatch) Put(key, value []byte) error {
	b.writes = append(b.writes, kv{string(key), append([]byte{}, value...)})
	b.size += len(value)
	return nil
}
func (b *memBatch) ValueSize() int { return b.size }
func (b *memBatch) Write() error {
	if b.db.readonly {
		b.db.writes++
		return errors.New("read-only crash image")
	}
	if b.db.failAt > 0 {
		b.db.nWrites++
		if b.db.nWrites == b.db.failAt {
			return errInjected
		}
	}
	if b.db.rec {
		b.db.events = append(b.db.events, event{true, append([]kv{}, b.writes...)})
	}
	for _, w := range b.writes {
		b.db.m[w.k] = w.v
	}
	return nil
}
func (b *memBatch) Reset() { b.writes = b.writes[:0]; b.size = 0 }

// ---------------------------------------------------------------------------------------------
// references inside blobs (what a reader will dereference)

type role int

const (
	roleAccount role = iota
	roleStorage
	roleCode
)

type ref struct {
	h common.Hash
	r role
}

var (
	emptyRoot     common.Hash
	emptyCodeHash = common.Hash(sha3.Sum256(nil)) // what account_object.go compares with: SHA3-256("")
	keccakEmpty   = crypto.Keccak256Hash(nil)     // what AccountDB.SetCode stores for empty code
	// codeStored: is there a blob (dirty or on disk) under this hash in the store being walked
	codeStored = func(common.Hash) bool { return true }
	zeroHash   common.Hash
)

func valueRefs(val []byte, r role, out *[]ref) {
	if r != roleAccount {
		return
	}
	var a account.Account
	if err := rlp.DecodeBytes(val, &a); err != nil {
		return
	}
	if a.Root != zeroHash && a.Root != emptyRoot { // what accountObject.getTrie / trie.NewTrie resolve
		*out = append(*out, ref{a.Root, roleStorage})
	}
	if len(a.NFTSetDefinitionHash) > 0 && !bytes.Equal(a.NFTSetDefinitionHash, emptyCodeHash[:]) { // nftSetDefinition()
		ch := common.BytesToHash(a.NFTSetDefinitionHash)
		if ch == keccakEmpty && !codeStored(ch) {
			// SetCode(addr, nil): nothing was ever stored under Keccak-256(""); the dangling reference is
			// the zero-length-code finding (reported by readState), not an edge of the node graph
			return
		}
		*out = append(*out, ref{ch, roleCode})
	}
}

func childRef(buf []byte, r role, out *[]ref) ([]byte, error) {
	kind, val, rest, err := rlp.Split(buf)
	if err != nil {
		return nil, err
	}
	switch {
	case kind == rlp.List: // node embedded in its parent (< 32 bytes)
		if err := nodeRefs(buf[:len(buf)-len(rest)], r, out); err != nil {
			return nil, err
		}
	case kind == rlp.String && len(val) == 32:
		*out = append(*out, ref{common.BytesToHash(val), r})
	case kind == rlp.String && len(val) == 0:
	default:
		return nil, fmt.Errorf("bad child reference of %d bytes", len(val))
	}
	return rest, nil
}

func nodeRefs(buf []byte, r role, out *[]ref) error {
	elems, _, err := rlp.SplitList(buf)
	if err != nil {
		return err
	}
	c, err := rlp.CountValues(elems)
	if err != nil {
		return err
	}
	switch c {
	case 2:
		kbuf, rest, err := rlp.SplitString(elems)
		if err != nil {
			return err
		}
		if len(kbuf) > 0 && kbuf[0]&0x20 != 0 { // compact key with terminator: leaf
			val, _, err := rlp.SplitString(rest)
			if err != nil {
				return err
			}
			valueRefs(val, r, out)
			return nil
		}
		_, err = childRef(rest, r, out)
		return err
	case 17:
		rest := elems
		for i := 0; i < 16; i++ {
			if rest, err = childRef(rest, r, out); err != nil {
				return err
			}
		}
		val, _, err := rlp.SplitString(rest)
		if err != nil {
			return err
		}
		if len(val) > 0 {
			valueRefs(val, r, out)
		}
		return nil
	}
	return fmt.Errorf("trie node with %d elements", c)
}

func blobRefs(blob []byte, r role) ([]ref, error) {
	if r == roleCode {
		return nil, nil
	}
	var out []ref
	err := nodeRefs(blob, r, &out)
	return out, err
}

type roleKey struct {
	h common.Hash
	r role
}

// graph: memo of the references of every blob seen in one history (hash addressed: never changes).
type graph struct {
	kids    map[common.Hash][]common.Hash
	size    map[common.Hash]int
	seen    map[roleKey]bool
	missing []string
	bad     []string
	ids     map[common.Hash]int
	blobs   []blobCase // sampled (blob, role, decoded references) for the concrete model's decoder
}

type blobCase struct {
	r    role
	blob []byte
	refs []common.Hash
}

func newGraph() *graph {
	return &graph{kids: map[common.Hash][]common.Hash{}, size: map[common.Hash]int{}, seen: map[roleKey]bool{}, ids: map[common.Hash]int{}}
}
func (g *graph) id(h common.Hash) int {
	if i, ok := g.ids[h]; ok {
		return i
	}
	i := len(g.ids) + 1
	g.ids[h] = i
	return i
}

// walk learns the references of everything reachable from (h, r) through the live node database
// (dirty cache first, then disk), descending only into blobs not yet seen in that role.
func (g *graph) walk(tdb *trie.NodeDatabase, h common.Hash, r role) {
	type item struct {
		h common.Hash
		r role
	}
	stack := []item{{h, r}}
	for len(stack) > 0 {
		it := stack[len(stack)-1]
		stack = stack[:len(stack)-1]
		if g.seen[roleKey{it.h, it.r}] {
			continue
		}
		g.seen[roleKey{it.h, it.r}] = true
		g.id(it.h)
		if it.r != roleCode && (it.h == emptyRoot || it.h == zeroHash) {
			continue // the empty trie has no node (trie.NewTrie does not resolve it)
		}
		blob, err := tdb.Node(it.h)
		if err != nil || (len(blob) == 0 && it.r != roleCode) {
			g.missing = append(g.missing, fmt.Sprintf("%x(role %d)", it.h[:6], it.r))
			continue
		}
		g.size[it.h] = len(blob)
		refs, err := blobRefs(blob, it.r)
		if err != nil {
			g.bad = append(g.bad, fmt.Sprintf("%x: %v", it.h[:6], err))
			continue
		}
		if it.r != roleCode && len(g.blobs) < 40 && (len(refs) > 0 || len(g.blobs)%4 == 0) {
			// the pure decode (no zero-length-code exception), for the model's decoder
			saved := codeStored
			codeStored = func(common.Hash) bool { return true }
			pure, _ := blobRefs(blob, it.r)
			codeStored = saved
			bc := blobCase{r: it.r, blob: blob}
			for _, c := range pure {
				bc.refs = append(bc.refs, c.h)
			}
			g.blobs = append(g.blobs, bc)
		}
		have := map[common.Hash]int{}
		for _, c := range g.kids[it.h] {
			have[c]++
		}
		cnt := map[common.Hash]int{}
		for _, c := range refs {
			cnt[c.h]++
			if cnt[c.h] > have[c.h] { // union as multisets over roles
				g.kids[it.h] = append(g.kids[it.h], c.h)
			}
			stack = append(stack, item{c.h, c.r})
		}
	}
}

// ---------------------------------------------------------------------------------------------
// reading a whole state: getters over the universe + full iteration

type universe struct {
	addrs   []common.Address
	keys    [][]byte
	written []slotRef    // slots some earlier op wrote a value to (targets for clear / reverted-write patterns)
	funded  map[int]bool // addresses that received a balance in an earlier block
	created map[int]bool // addresses whose account object was created (nonce / code / data write)
}

type slotRef struct {
	a int
	k []byte
}

func readState(database account.AccountDatabase, root common.Hash, u *universe) (m map[string]string, problem string, emptyCode string) {
	m = map[string]string{}
	defer func() {
		if p := recover(); p != nil {
			problem = fmt.Sprintf("panic: %v", p)
		}
	}()
	adb, err := account.NewAccountDB(root, database)
	if err != nil {
		return m, "open: " + err.Error(), ""
	}
	for i, a := range u.addrs {
		p := fmt.Sprintf("get/a%d/", i)
		m[p+"nonce"] = fmt.Sprint(adb.GetNonce(a))
		m[p+"bal"] = adb.GetBalance(a).String()
		m[p+"code"] = hex.EncodeToString(adb.GetCode(a))
		for j, k := range u.keys {
			if v := adb.GetData(a, k); len(v) > 0 {
				m[fmt.Sprintf("%sk%d", p, j)] = hex.EncodeToString(v)
			}
		}
	}
	if e := adb.Error(); e != nil {
		return m, "getter: " + e.Error(), ""
	}
	// full iteration: every account leaf, every storage slot, every code blob
	tr, err := database.OpenTrie(root)
	if err != nil {
		return m, "open trie: " + err.Error(), ""
	}
	it := trie.NewIterator(tr.NodeIterator(nil))
	for it.Next() {
		key := hex.EncodeToString(it.Key)
		m["it/"+key] = hex.EncodeToString(it.Value)
		var acc account.Account
		if err := rlp.DecodeBytes(it.Value, &acc); err != nil {
			return m, "account decode " + key + ": " + err.Error(), ""
		}
		if acc.Root != zeroHash && acc.Root != emptyRoot {
			st, err := database.OpenStorageTrie(common.Hash{}, acc.Root)
			if err != nil {
				return m, "storage root of " + key + ": " + err.Error(), ""
			}
			sit := trie.NewIterator(st.NodeIterator(nil))
			for sit.Next() {
				m["it/"+key+"/"+hex.EncodeToString(sit.Key)] = hex.EncodeToString(sit.Value)
			}
			if sit.Err != nil {
				return m, "storage of " + key + ": " + sit.Err.Error(), ""
			}
		}
		if len(acc.NFTSetDefinitionHash) > 0 && !bytes.Equal(acc.NFTSetDefinitionHash, emptyCodeHash[:]) {
			ch := common.BytesToHash(acc.NFTSetDefinitionHash)
			code, err := database.ContractCode(common.Hash{}, ch) // the read path of accountObject.Code
			if err != nil {
				blob, nerr := database.TrieDB().Node(ch)
				if ch != keccakEmpty || len(blob) != 0 {
					return m, "code of " + key + ": " + err.Error(), ""
				}
				// code of length 0: either a 0-byte blob IS stored (SetCode(addr, []byte{})) and ContractCode
				// reports it as "not found", or nothing is stored at all (SetCode(addr, nil))
				how := "0-byte blob stored"
				if nerr != nil {
					how = "no blob stored"
				}
				emptyCode = "account " + key + " code hash " + ch.Hex() + " (" + how + "): " + err.Error()
			}
			m["it/"+key+"/code"] = hex.EncodeToString(code)
		}
	}
	if it.Err != nil {
		return m, "accounts: " + it.Err.Error(), ""
	}
	return m, "", emptyCode
}

func diffMaps(exp, got map[string]string) string {
	keys := make([]string, 0, len(exp))
	for k := range exp {
		keys = append(keys, k)
	}
	sort.Strings(keys)
	for _, k := range keys {
		if g, ok := got[k]; !ok {
			return "missing " + k + " (expected " + trunc(exp[k]) + ")"
		} else if g != exp[k] {
			return k + ": expected " + trunc(exp[k]) + " got " + trunc(g)
		}
	}
	for k := range got {
		if _, ok := exp[k]; !ok {
			return "unexpected " + k + " = " + trunc(got[k])
		}
	}
	return ""
}

func trunc(s string) string {
	if len(s) > 40 {
		return s[:40] + "…"
	}
	return s
}

// ---------------------------------------------------------------------------------------------
// history generation

type op struct {
	kind string // nonce bal data code suicide
	a    int
	k    []byte
	v    []byte
	n    uint64
}

func (o op) String() string {
	switch o.kind {
	case "nonce":
		return fmt.Sprintf("SetNonce(a%d,%d)", o.a, o.n)
	case "bal":
		return fmt.Sprintf("AddBalance(a%d,%d)", o.a, o.n)
	case "data":
		return fmt.Sprintf("SetData(a%d,%x,%dB)", o.a, o.k, len(o.v))
	case "code":
		return fmt.Sprintf("SetCode(a%d,%dB)", o.a, len(o.v))
	}
	return fmt.Sprintf("%s(a%d)", o.kind, o.a)
}

var valLens = []int{1, 1, 2, 20, 31, 32, 33, 64, 100}

func genUniverse(r *hx.Rng) *universe {
	u := &universe{}
	n := 4 + r.Intn(7)
	for len(u.addrs) < n {
		var a common.Address
		copy(a[:], r.Bytes(20))
		switch r.Intn(4) {
		case 0: // share a long prefix with an earlier address
			if len(u.addrs) > 0 {
				b := u.addrs[r.Intn(len(u.addrs))]
				copy(a[:], b[:])
				a[19-r.Intn(3)] ^= byte(1 + r.Intn(255))
			}
		case 1: // differ from an earlier address in the first nibble only (identical leaf nodes possible)
			if len(u.addrs) > 0 {
				b := u.addrs[r.Intn(len(u.addrs))]
				copy(a[:], b[:])
				a[0] ^= byte(1+r.Intn(15)) << 4
			}
		}
		dup := false
		for _, b := range u.addrs {
			dup = dup || a == b
		}
		if !dup {
			u.addrs = append(u.addrs, a)
		}
	}
	nk := 3 + r.Intn(8)
	for len(u.keys) < nk {
		var k []byte
		switch r.Intn(5) {
		case 0:
			k = r.Bytes(32)
		case 1:
			k = []byte{byte('a' + r.Intn(3))}
		case 2:
			if len(u.keys) > 0 { // extension of an existing key (value in a branch's 17th slot)
				k = append(append([]byte{}, u.keys[r.Intn(len(u.keys))]...), r.Bytes(1+r.Intn(2))...)
			} else {
				k = r.Bytes(2)
			}
		case 3:
			k = []byte(fmt.Sprintf("ft-%d", r.Intn(4)))
		default:
			k = r.Bytes(1 + r.Intn(4))
		}
		dup := false
		for _, b := range u.keys {
			dup = dup || bytes.Equal(k, b)
		}
		if !dup {
			u.keys = append(u.keys, k)
		}
	}
	return u
}

func genValue(r *hx.Rng) []byte {
	n := valLens[r.Intn(len(valLens))]
	if r.Intn(3) == 0 { // few distinct values: identical storage tries / shared subtrees
		return bytes.Repeat([]byte{byte(1 + r.Intn(3))}, n)
	}
	v := r.Bytes(n)
	if v[0] == 0 {
		v[0] = 1
	}
	return v
}

func genBlock(r *hx.Rng, u *universe, codes [][]byte, big bool) []op {
	if u.funded == nil {
		u.funded, u.created = map[int]bool{}, map[int]bool{}
	}
	if !big && r.Intn(7) == 0 {
		// a quiet block: its only mutation is the self-destruct of one existing account that holds a
		// balance (nothing else touches the balance-holder account), plain or inside a bracket
		var cand []int
		for a := range u.addrs {
			if u.funded[a] && u.created[a] {
				cand = append(cand, a)
			}
		}
		if len(cand) > 0 {
			a := cand[r.Intn(len(cand))]
			switch r.Intn(4) {
			case 0:
				return []op{{kind: "snap"}, {kind: "suicide", a: a}, {kind: "revert"}}
			case 1:
				return []op{{kind: "snap"}, {kind: "suicide", a: a}, {kind: "keep"}}
			default:
				delete(u.created, a)
				return []op{{kind: "suicide", a: a}}
			}
		}
	}
	var ops []op
	n := 1 + r.Intn(10)
	for i := 0; i < n; i++ {
		a := r.Intn(len(u.addrs))
		switch r.Intn(12) {
		case 0, 1:
			ops = append(ops, op{kind: "nonce", a: a, n: uint64(r.Intn(4))})
		case 2, 3:
			ops = append(ops, op{kind: "bal", a: a, n: uint64(1 + r.Intn(1000000))})
		case 4, 5, 6, 7:
			ops = append(ops, op{kind: "data", a: a, k: u.keys[r.Intn(len(u.keys))], v: genValue(r)})
		case 8:
			ops = append(ops, op{kind: "data", a: a, k: u.keys[r.Intn(len(u.keys))], v: nil})
		case 9, 10:
			ops = append(ops, op{kind: "code", a: a, v: codes[r.Intn(len(codes))]})
		case 11:
			if r.Intn(3) == 0 {
				ops = append(ops, op{kind: "suicide", a: a})
			} else { // same storage written to two accounts: shared storage trie
				b := r.Intn(len(u.addrs))
				k, v := u.keys[r.Intn(len(u.keys))], genValue(r)
				ops = append(ops, op{kind: "data", a: a, k: k, v: v}, op{kind: "data", a: b, k: k, v: v})
			}
		}
	}
	ops = bracketize(r, ops)
	if r.Intn(3) != 0 {
		pat := slotPatterns(r, u)
		at := 0
		if len(ops) > 0 {
			at = r.Intn(len(ops) + 1)
		}
		ops = append(ops[:at:at], append(pat, ops[at:]...)...)
	}
	for _, o := range ops {
		if o.kind == "data" && len(o.v) > 0 && len(u.written) < 64 {
			u.written = append(u.written, slotRef{o.a, o.k})
		}
		switch {
		case o.kind == "bal":
			u.funded[o.a] = true
		case o.kind == "nonce" && o.n > 0, o.kind == "code" && len(o.v) > 0, o.kind == "data" && len(o.v) > 0:
			u.created[o.a] = true
		}
	}
	if big { // enough data for several batches (IdealBatchSize = 100 KiB)
		na := 1 + r.Intn(3)
		slots := 400 + r.Intn(900)
		for i := 0; i < slots; i++ {
			k := []byte(fmt.Sprintf("big-%d-%d", r.Intn(3), i))
			ops = append(ops, op{kind: "data", a: r.Intn(na), k: k, v: r.Bytes(120 + r.Intn(200))})
		}
		for i := r.Intn(3); i > 0; i-- {
			ops = append(ops, op{kind: "code", a: r.Intn(len(u.addrs)), v: r.Bytes(20000 + r.Intn(40000))})
		}
	}
	return ops
}

func apply(adb *account.AccountDB, u *universe, o op) {
	a := u.addrs[o.a]
	switch o.kind {
	case "nonce":
		adb.SetNonce(a, o.n)
	case "bal":
		adb.AddBalance(a, new(big.Int).SetUint64(o.n))
	case "data":
		adb.SetData(a, o.k, o.v)
	case "code":
		adb.SetCode(a, o.v)
	case "suicide":
		adb.Suicide(a)
	case "snap":
		snapStacks[adb] = append(snapStacks[adb], adb.Snapshot())
	case "revert", "keep":
		st := snapStacks[adb]
		if len(st) == 0 {
			return
		}
		id := st[len(st)-1]
		snapStacks[adb] = st[:len(st)-1]
		if o.kind == "revert" {
			adb.RevertToSnapshot(id) // a failed transaction / frame
		}
	}
}

var snapStacks = map[*account.AccountDB][]int{}

// bracketize puts nested snapshot ... revert / snapshot ... keep brackets around runs of ops, the way
// transactions and call frames do.
func bracketize(r *hx.Rng, ops []op) []op {
	var out []op
	depth := 0
	for _, o := range ops {
		if depth < 2 && r.Intn(6) == 0 {
			out = append(out, op{kind: "snap"})
			depth++
		}
		out = append(out, o)
		if depth > 0 && r.Intn(3) == 0 {
			if r.Intn(4) != 0 {
				out = append(out, op{kind: "revert"})
			} else {
				out = append(out, op{kind: "keep"})
			}
			depth--
		}
	}
	for ; depth > 0; depth-- {
		if r.Bool() {
			out = append(out, op{kind: "revert"})
		} else {
			out = append(out, op{kind: "keep"})
		}
	}
	return out
}

// slotPatterns: clears of slots that exist in committed storage combined with reverted writes
func slotPatterns(r *hx.Rng, u *universe) []op {
	if len(u.written) == 0 {
		return nil
	}
	var out []op
	for n := 1 + r.Intn(2); n > 0; n-- {
		sl := u.written[r.Intn(len(u.written))]
		d := func(v []byte) op { return op{kind: "data", a: sl.a, k: sl.k, v: v} }
		switch r.Intn(4) {
		case 0, 1: // successful clear, then a later write to the same slot that is reverted
			out = append(out, d(nil), op{kind: "snap"}, d(genValue(r)))
			if r.Bool() {
				out = append(out, op{kind: "nonce", a: sl.a, n: uint64(r.Intn(4))})
			}
			out = append(out, op{kind: "revert"})
		case 2: // reverted clear
			out = append(out, op{kind: "snap"}, d(nil), op{kind: "revert"})
		case 3: // write, then a reverted clear, then maybe a real clear
			out = append(out, d(genValue(r)), op{kind: "snap"}, d(nil), op{kind: "revert"})
			if r.Bool() {
				out = append(out, d(nil))
			}
		}
	}
	return out
}

// preRead: what THIS AccountDB answers just before its Commit, for every address and key of the
// universe (same keys as the getter part of readState). Accounts marked suicided are skipped (their
// removal happens at the commit); the code of an account whose code hash is Keccak("") is not read
// (that read is the zero-length-code finding and would poison the object).
func preRead(adb *account.AccountDB, u *universe) (m map[string]string, skipAcct map[int]bool, skipCode map[int]bool) {
	m, skipAcct, skipCode = map[string]string{}, map[int]bool{}, map[int]bool{}
	for i, a := range u.addrs {
		p := fmt.Sprintf("get/a%d/", i)
		if adb.HasSuicided(a) {
			// the object is removed at the commit; its balance (a slot of the balance-holder account,
			// zeroed by the self-destruct) must still read the same afterwards
			skipAcct[i] = true
			m[p+"bal"] = adb.GetBalance(a).String()
			continue
		}
		m[p+"nonce"] = fmt.Sprint(adb.GetNonce(a))
		m[p+"bal"] = adb.GetBalance(a).String()
		if adb.GetCodeHash(a) == keccakEmpty {
			skipCode[i] = true
		} else {
			m[p+"code"] = hex.EncodeToString(adb.GetCode(a))
		}
		for j, k := range u.keys {
			if v := adb.GetData(a, k); len(v) > 0 {
				m[fmt.Sprintf("%sk%d", p, j)] = hex.EncodeToString(v)
			}
		}
	}
	return
}

// compareWithPre: the values read from the committed root against what the committing AccountDB
// answered before its Commit. Returns (kind, description) of the first difference.
func compareWithPre(pre map[string]string, skipAcct, skipCode map[int]bool, exp map[string]string, u *universe) (string, string) {
	for i := range u.addrs {
		p := fmt.Sprintf("get/a%d/", i)
		names := []string{"nonce", "bal"}
		if skipAcct[i] {
			names = []string{"bal"}
		} else {
			if !skipCode[i] {
				names = append(names, "code")
			}
			for j := range u.keys {
				names = append(names, fmt.Sprintf("k%d", j))
			}
		}
		for _, n := range names {
			if pre[p+n] != exp[p+n] {
				kind := n
				if strings.HasPrefix(n, "k") {
					kind = "data"
				}
				slot := ""
				if kind == "data" {
					var j int
					fmt.Sscanf(n, "k%d", &j)
					slot = fmt.Sprintf(" slot %x", u.keys[j])
				}
				return kind, fmt.Sprintf("account a%d (%x)%s %s: the committing AccountDB answered %q before its Commit, the committed root reads %q",
					i, u.addrs[i][:6], slot, n, trunc(pre[p+n]), trunc(exp[p+n]))
			}
		}
	}
	return "", ""
}

// ---------------------------------------------------------------------------------------------
// visit tree reconstruction from the recorded post-order

type tnode struct {
	h    common.Hash
	skip bool
	kids []*tnode
}

func (t *tnode) coq(g *graph, sb *strings.Builder) {
	if t.skip {
		fmt.Fprintf(sb, "K %d", g.id(t.h))
		return
	}
	fmt.Fprintf(sb, "T %d [", g.id(t.h))
	for i, k := range t.kids {
		if i > 0 {
			sb.WriteString("; ")
		}
		k.coq(g, sb)
	}
	sb.WriteString("]")
}

// buildTree: puts is a post-order without visited set iff it can be folded with a stack: each put
// pops one finished subtree per dirty reference of the node (any order).
func buildTree(tracked map[common.Hash][]common.Hash, cache map[common.Hash]bool, root common.Hash, puts []common.Hash) (t *tnode, order map[common.Hash][]common.Hash, exact bool, err error) {
	var stack []*tnode
	order = map[common.Hash][]common.Hash{}
	exact = true
	for i, h := range puts {
		if !cache[h] {
			return nil, nil, false, fmt.Errorf("put %d (%x) is not a dirty node", i, h[:6])
		}
		var dirty, clean []common.Hash
		need := map[common.Hash]int{}
		for _, c := range tracked[h] {
			if cache[c] {
				dirty = append(dirty, c)
				need[c]++
			} else {
				clean = append(clean, c)
			}
		}
		if len(stack) < len(dirty) {
			return nil, nil, false, fmt.Errorf("put %d (%x): %d dirty references but only %d finished subtrees", i, h[:6], len(dirty), len(stack))
		}
		sub := stack[len(stack)-len(dirty):]
		n := &tnode{h: h}
		var ord []common.Hash
		for _, c := range clean {
			n.kids = append(n.kids, &tnode{h: c, skip: true})
			ord = append(ord, c)
		}
		for _, s := range sub {
			need[s.h]--
			n.kids = append(n.kids, s)
			ord = append(ord, s.h)
		}
		for c, k := range need {
			if k != 0 {
				return nil, nil, false, fmt.Errorf("put %d (%x): subtree of reference %x not written immediately before it", i, h[:6], c[:6])
			}
		}
		stack = append(stack[:len(stack)-len(dirty)], n)
		if prev, ok := order[h]; ok {
			for j := range prev {
				if prev[j] != ord[j] {
					exact = false
				}
			}
		} else {
			order[h] = ord
		}
	}
	if !cache[root] {
		if len(stack) != 0 {
			return nil, nil, false, fmt.Errorf("root not dirty but %d subtrees written", len(stack))
		}
		return &tnode{h: root, skip: true}, order, exact, nil
	}
	if len(stack) != 1 || stack[0].h != root {
		return nil, nil, false, fmt.Errorf("%d top-level subtrees, expected exactly the root", len(stack))
	}
	return stack[0], order, exact, nil
}

func idList(g *graph, hs []common.Hash) string {
	parts := make([]string, len(hs))
	for i, h := range hs {
		parts[i] = fmt.Sprint(g.id(h))
	}
	return "[" + strings.Join(parts, ";") + "]"
}

// ---------------------------------------------------------------------------------------------
// one history

type histParams struct {
	seed   uint64
	blocks int
	big    int  // index of the multi-batch block, -1 none
	pre002 bool // chain height below Proposal002Block: AddFT/SubFT write the balance slot through the raw setData
}

type rootInfo struct {
	root    common.Hash
	exp     map[string]string
	durable bool // a NodeDatabase.Commit for it reported success
	block   int
}

type runner struct {
	res     *hx.Result
	cs      *hx.Cases
	bs      *hx.Cases // blob decoding cases (small, many per shard)
	tier    string
	budget  int // cold-read entries per commit before sampling kicks in
	commits int
	points  int
	// model cases that decode a real blob with the concrete model
	blobCases, blobBudget int
}

func hashOfKey(k string) (common.Hash, bool) {
	if len(k) != 32 {
		return common.Hash{}, false
	}
	return common.BytesToHash([]byte(k)), true
}

func (rn *runner) history(p histParams) {
	if p.pre002 {
		saved := common.LocalChainConfig.Proposal002Block
		common.LocalChainConfig.Proposal002Block = 1 << 60
		defer func() { common.LocalChainConfig.Proposal002Block = saved }()
		rn.res.Histogram["histories-below-proposal002"]++
	}
	r := hx.NewRng(p.seed)
	u := genUniverse(r)
	var codes [][]byte
	for i := 0; i < 3; i++ {
		codes = append(codes, r.Bytes(1+r.Intn(300)))
	}
	switch r.Intn(12) {
	case 0:
		codes = append(codes, []byte{}) // zero-length code, non-nil slice
	case 1:
		codes = append(codes, nil) // zero-length code as the EVM passes it (CREATE whose init code returns no data)
	}
	disk := newMemDB()
	database := account.NewDatabase(disk)
	tdb := database.TrieDB()
	g := newGraph()
	codeStored = func(h common.Hash) bool { _, err := tdb.Node(h); return err == nil }
	shadow := newMemDB() // crash image, follows the disk put by put
	var roots []*rootInfo
	known := map[common.Hash]*rootInfo{}
	parent := common.Hash{}
	lastDurable := common.Hash{}
	var commitTerms []string
	desc := map[string]interface{}{"history_seed": p.seed, "blocks": p.blocks, "big_block": p.big, "below_proposal002": p.pre002}
	input := func(extra map[string]interface{}) map[string]interface{} {
		m := map[string]interface{}{"history_seed": p.seed, "blocks": p.blocks, "big_block": p.big, "below_proposal002": p.pre002,
			"replay": "history(seed) regenerates universe, ops and commit schedule deterministically"}
		for k, v := range extra {
			m[k] = v
		}
		return m
	}
	totalPuts := 0
	emptyCodeSeen := ""
	var snap *snapshot
	snapBlock := p.blocks // no restart scenario
	if r.Intn(2) == 0 {
		snapBlock = r.Intn(p.blocks)
	}
	for b := 0; b < p.blocks; b++ {
		ops := genBlock(r, u, codes, b == p.big)
		abandon := b != p.big && r.Intn(8) == 0 // state commit whose disk commit never happens
		fork := r.Intn(10) == 0                 // next block builds on an older durable root
		adb, err := account.NewAccountDB(parent, database)
		if err != nil {
			rn.res.Violate("C03/live:open-parent", err.Error(), input(map[string]interface{}{"block": b, "parent": parent.Hex()}))
			return
		}
		for _, o := range ops {
			apply(adb, u, o)
		}
		pre, skipAcct, skipCode := preRead(adb, u)
		root, err := adb.Commit(true)
		if err != nil {
			if isEmptyCodeErr(err) {
				// consequence of the zero-length-code finding reported above: the account object was
				// poisoned by the failed code read and its state commit is refused
				rn.res.Violate("C03/code:zero-length-code-unreadable", "later state commit fails: "+err.Error(),
					input(map[string]interface{}{"block": b, "first_seen": emptyCodeSeen, "ops_of_this_block": opStrings(ops, 12)}))
				rn.res.Histogram["history-ended-by-zero-length-code"]++
				break
			}
			rn.res.Violate("C03/live:state-commit-error", err.Error(), input(map[string]interface{}{"block": b}))
			return
		}
		g.walk(tdb, root, roleAccount)
		ri := known[root]
		if ri == nil {
			exp, prob, ec := readState(database, root, u)
			if ec != "" && emptyCodeSeen == "" {
				emptyCodeSeen = ec
				rn.res.Violate("C03/code:zero-length-code-unreadable",
					"a contract code of length 0 cannot be read back, ContractCode reports it as missing: "+ec,
					input(map[string]interface{}{"block": b, "root": root.Hex(), "ops_of_this_block": opStrings(ops, 12)}))
			}
			if prob != "" {
				rn.res.Violate("C03/live:unreadable-before-commit", prob, input(map[string]interface{}{"block": b, "root": root.Hex()}))
				return
			}
			ri = &rootInfo{root: root, exp: exp, block: b}
			known[root] = ri
			roots = append(roots, ri)
		}
		if kind, what := compareWithPre(pre, skipAcct, skipCode, ri.exp, u); kind != "" {
			rn.res.Violate("C03/durable:value-differs-after-commit:"+kind, what,
				input(map[string]interface{}{"block": b, "root": root.Hex(), "ops_of_this_block": opStrings(ops, 40)}))
		}
		if abandon {
			rn.res.Histogram["state-commit-without-disk-commit"]++
			if r.Bool() {
				parent = root // the next block builds on the un-flushed root (served from the dirty cache)
			}
			continue
		}
		// ---- disk commit, recorded ----
		dirty := tdb.Nodes()
		cache := map[common.Hash]bool{}
		tracked := map[common.Hash][]common.Hash{}
		for _, h := range dirty {
			cache[h] = true
			tracked[h], _ = tdb.VerifChilds(h)
			for _, c := range tracked[h] {
				g.id(c)
			}
			if _, ok := g.size[h]; !ok { // dirty node not reachable from any state root walked so far
				if blob, err := tdb.Node(h); err == nil {
					g.size[h] = len(blob)
				}
				g.id(h)
				g.bad = append(g.bad, fmt.Sprintf("dirty node %x outside every known root", h[:6]))
			}
		}
		attempt := func(failAt int) ([]event, error) {
			disk.rec, disk.events, disk.failAt, disk.nWrites = true, nil, failAt, 0
			err := tdb.Commit(root, false)
			disk.rec, disk.failAt = false, 0
			return disk.events, err
		}
		// raw closure at every single put: the references of the blob just written are on disk
		applyPut := func(it kv, h common.Hash, k, m int, phase string) {
			shadow.m[it.k] = it.v
			for _, c := range g.kids[h] {
				if _, ok := shadow.m[string(c[:])]; !ok {
					rn.res.Violate("C03/closed:reference-missing-when-parent-written",
						fmt.Sprintf("%s: put %d/%d writes node %x whose reference %x is not on disk yet", phase, k, m, h[:8], c[:8]),
						input(map[string]interface{}{"block": b, "k": k, "puts": m, "phase": phase}))
				}
			}
		}
		// the crash image as it is now: every known root whose top node is present is opened cold and
		// read back completely; every durable root must be present. final: Commit(root) reported success.
		coldCheck := func(k, m int, class string, final bool) int {
			shadow.readonly = true
			cold := account.NewDatabase(shadow) // fresh caches for this crash image
			walked := 0
			for _, x := range roots {
				present := x.root == emptyRoot || x.root == zeroHash
				if !present {
					_, present = shadow.m[string(x.root[:])]
				}
				in := func() map[string]interface{} {
					return input(map[string]interface{}{"block": b, "k": k, "puts": m, "root": x.root.Hex(), "root_of_block": x.block,
						"at": class, "ops_of_this_block": opStrings(ops, 12)})
				}
				if !present {
					if x.durable {
						rn.res.Violate("C03/old-roots:top-node-lost", "root durable before this commit has no top node on disk", in())
					} else if final && x.root == root {
						rn.res.Violate("C03/durable:root-missing-after-commit", "Commit reported success but the root node is not on disk", in())
					}
					continue
				}
				got, prob, _ := readState(cold, x.root, u)
				walked++
				what := prob
				if what == "" {
					what = diffMaps(x.exp, got)
				}
				if what != "" {
					switch {
					case x.durable:
						rn.res.Violate("C03/old-roots:unreadable-after-crash", what, in())
					case final && x.root == root:
						rn.res.Violate("C03/durable:committed-root-unreadable", what, in())
					default:
						rn.res.Violate("C03/crash:top-node-present-but-not-resolvable", what, in())
					}
				}
			}
			if shadow.writes > 0 {
				rn.res.Violate("C03/cold-read-writes", "reading a state wrote to the disk store", input(map[string]interface{}{"block": b, "k": k}))
				shadow.writes = 0
			}
			shadow.readonly = false
			return walked
		}
		var events []event
		var cerr error
		var failedPuts []common.Hash
		committed := false
		if r.Intn(5) == 0 || (b == p.big && r.Intn(2) == 0) {
			// first attempt: the j-th batch.Write returns an error (disk full); the batches before it are on disk
			j := 1
			if b == p.big {
				j = 1 + r.Intn(4)
			}
			ev, ferr := attempt(j)
			if ferr == nil { // fewer than j batches: the attempt was a complete commit
				events, committed = ev, true
			} else {
				rn.res.Histogram["commit:first-attempt-write-error"]++
				if !errors.Is(ferr, errInjected) {
					rn.res.Violate("C03/write-error:other-error", ferr.Error(), input(map[string]interface{}{"block": b, "failing_write": j}))
				}
				still := map[common.Hash]bool{}
				for _, h := range tdb.Nodes() {
					still[h] = true
				}
				lost := 0
				for _, h := range dirty {
					if !still[h] {
						lost++
					}
				}
				if lost > 0 || len(still) != len(dirty) {
					rn.res.Violate("C03/write-error:uncached-after-failed-commit",
						fmt.Sprintf("Commit returned %q but %d of %d dirty nodes left the cache (%d remain): a retry cannot write them", ferr.Error(), lost, len(dirty), len(still)),
						input(map[string]interface{}{"block": b, "failing_write": j, "root": root.Hex()}))
				}
				var fkv []kv
				for _, e := range ev {
					for _, it := range e.items {
						if h, ok := hashOfKey(it.k); ok {
							failedPuts = append(failedPuts, h)
							fkv = append(fkv, it)
						}
					}
				}
				for i, it := range fkv {
					applyPut(it, failedPuts[i], i+1, len(fkv), "failed attempt")
				}
				walked := coldCheck(len(fkv), len(fkv), "write-error:after-failed-commit", false)
				rn.points++
				rn.res.Count("write-error:after-failed-commit", fmt.Sprintf("%d/%d/fail%d", p.seed, b, j), walked > 0)
				if len(fkv) > 0 {
					rn.res.Histogram["commit:failed-attempt-left-batches-on-disk"]++
				}
			}
		}
		if !committed {
			events, cerr = attempt(0)
		}
		if cerr != nil {
			rn.res.Violate("C03/live:disk-commit-error", cerr.Error(), input(map[string]interface{}{"block": b}))
			return
		}
		if len(disk.deletes) > 0 {
			rn.res.Violate("C03/append-only:delete-during-commit", fmt.Sprintf("%d Delete calls on the state store", len(disk.deletes)), input(map[string]interface{}{"block": b, "keys": disk.deletes}))
			disk.deletes = nil
		}
		after := tdb.Nodes()
		var puts []common.Hash
		var putKV []kv
		var batches [][]common.Hash
		boundary := map[int]bool{}
		for _, ev := range events {
			var bh []common.Hash
			for _, it := range ev.items {
				h, ok := hashOfKey(it.k)
				if !ok {
					continue // preimage keys ("secure-key-"...) are not state
				}
				puts = append(puts, h)
				putKV = append(putKV, it)
				bh = append(bh, h)
			}
			batches = append(batches, bh)
			boundary[len(puts)] = true
			if !ev.batch {
				rn.res.Histogram["direct-put-during-commit"]++
			}
		}
		rn.commits++
		totalPuts += len(puts)
		if len(batches) > 2 || (len(batches) == 2 && len(batches[1]) > 0) {
			rn.res.Histogram["commit:multi-batch"]++
		} else {
			rn.res.Histogram["commit:single-batch"]++
		}
		// ---- model case for this commit ----
		tree, order, exact, terr := buildTree(tracked, cache, root, puts)
		var sb strings.Builder
		fmt.Fprintf(&sb, "C %d [", g.id(root))
		sort.Slice(dirty, func(i, j int) bool { return g.id(dirty[i]) < g.id(dirty[j]) })
		for i, h := range dirty {
			if i > 0 {
				sb.WriteString(";")
			}
			ks := tracked[h]
			if o, ok := order[h]; ok {
				ks = o
			}
			fmt.Fprintf(&sb, "(%d,(%d,(%s,%s)))", g.id(h), g.size[h], idList(g, ks), idList(g, g.kids[h]))
			if len(ks) < len(g.kids[h]) {
				rn.res.Histogram["dirty-node-with-untracked-reference"]++
			}
		}
		sb.WriteString("] " + idList(g, failedPuts) + " (")
		if terr != nil {
			rn.res.Histogram["put-order-not-a-postorder-walk"]++
			rn.res.Note(fmt.Sprintf("history %d block %d: %v", p.seed, b, terr))
			fmt.Fprintf(&sb, "K %d", g.id(root)) // will not match the recorded puts: reported by the model check
		} else {
			tree.coq(g, &sb)
		}
		sb.WriteString(") " + idList(g, puts) + " [")
		for i, bh := range batches {
			if i > 0 {
				sb.WriteString(";")
			}
			sb.WriteString(idList(g, bh))
		}
		fmt.Fprintf(&sb, "] %s %s", hx.CoqBool(exact && terr == nil), idList(g, after))
		commitTerms = append(commitTerms, sb.String())
		if !exact {
			rn.res.Histogram["commit:revisit-with-different-child-order"]++
		}
		dup := map[common.Hash]bool{}
		for _, h := range puts {
			if dup[h] {
				rn.res.Histogram["commit:shared-subtree-put-twice"]++
				break
			}
			dup[h] = true
		}

		// ---- crash enumeration ----
		m := len(puts)
		cost := 0
		for _, x := range roots {
			if x.durable {
				cost += len(x.exp) + 20
			}
		}
		cost *= m + 1
		sel := map[int]bool{}
		if cost > rn.budget && m > 40 {
			keep := rn.budget / (cost/(m+1) + 1)
			if keep < 24 {
				keep = 24
			}
			for k := 0; k <= 3 && k <= m; k++ {
				sel[k], sel[m-k] = true, true
			}
			for k := range boundary {
				for d := -1; d <= 1; d++ {
					if k+d >= 0 && k+d <= m {
						sel[k+d] = true
					}
				}
			}
			for len(sel) < keep {
				sel[r.Intn(m+1)] = true
			}
			rn.res.Histogram["commit:crash-points-sampled"]++
		} else {
			for k := 0; k <= m; k++ {
				sel[k] = true
			}
		}
		snapK := -1
		if snap == nil && b >= snapBlock {
			snapK = r.Intn(m + 1)
			sel[snapK] = true
		}
		for k := 0; k <= m; k++ {
			if k > 0 {
				applyPut(putKV[k-1], puts[k-1], k, m, "commit")
			}
			if !sel[k] {
				continue
			}
			rn.points++
			class := "crash:mid-commit"
			switch {
			case k == 0:
				class = "crash:before-first-put"
			case k == m:
				class = "crash:after-last-put"
			case boundary[k]:
				class = "crash:batch-boundary"
			}
			walked := coldCheck(k, m, class, k == m)
			rn.res.Count(class, fmt.Sprintf("%d/%d/%d", p.seed, b, k), k > 0 && walked > 0)
			if rn.points%997 == 1 {
				rn.res.Sample(map[string]interface{}{"history_seed": p.seed, "block": b, "crash_after_put": k, "puts_in_commit": m,
					"batches": len(batches), "roots_opened_cold": walked, "class": class})
			}
			if k == snapK { // the node dies here and is restarted later on this disk
				snap = &snapshot{m: map[string][]byte{}, block: b, k: k, puts: m}
				for kk, vv := range shadow.m {
					snap.m[kk] = vv
				}
				for _, x := range roots {
					_, present := shadow.m[string(x.root[:])]
					if x.durable || (present && x.root != emptyRoot) {
						snap.roots = append(snap.roots, x)
					}
				}
			}
		}
		if len(shadow.m) != len(disk.m) {
			rn.res.Violate("C03/harness:shadow-diverged", fmt.Sprintf("crash image has %d keys, disk %d", len(shadow.m), len(disk.m)), input(nil))
			return
		}
		ri.durable = true
		lastDurable = root
		parent = root
		if fork && len(roots) > 1 {
			var ds []*rootInfo
			for _, x := range roots {
				if x.durable {
					ds = append(ds, x)
				}
			}
			parent = ds[r.Intn(len(ds))].root
			rn.res.Histogram["fork-from-older-root"]++
		}
	}
	_ = lastDurable
	if snap != nil {
		rn.restart(p, r, u, codes, snap, emptyCodeSeen != "", input)
	}
	for _, s := range g.missing {
		rn.res.Violate("C03/live:view-not-closed", "node reachable from a state root is neither dirty nor on disk: "+s, input(nil))
	}
	for _, s := range g.bad {
		rn.res.Note(fmt.Sprintf("history %d: %s", p.seed, s))
		rn.res.Histogram["graph-decode-anomaly"]++
	}
	for i, bc := range g.blobs {
		if rn.blobCases >= rn.blobBudget {
			break
		}
		if i%3 != 0 && bc.r == roleAccount { // keep every storage-trie node, a third of the account-trie nodes
			continue
		}
		rn.blobCases++
		items := make([]string, len(bc.refs))
		for j, c := range bc.refs {
			items[j] = hx.CoqHex(c[:])
		}
		rn.bs.Add(fmt.Sprintf("Blob %d %s %s %s %s", int(bc.r), hx.CoqHex(emptyRoot[:]), hx.CoqHex(emptyCodeHash[:]), hx.CoqHex(bc.blob), hx.CoqList(items)),
			map[string]interface{}{"history_seed": p.seed, "blob_role": int(bc.r), "blob": hex.EncodeToString(bc.blob)})
		rn.res.Histogram[fmt.Sprintf("blob-decode-case:role%d", int(bc.r))]++
	}
	if len(commitTerms) > 0 {
		desc["commits"] = len(commitTerms)
		desc["puts"] = totalPuts
		rn.cs.Add(fmt.Sprintf("History %d [\n  %s]", xdb.IdealBatchSize, strings.Join(commitTerms, ";\n  ")), desc)
	}
}

// snapshot: the disk at one crash point of one commit and the roots a restarted node may open
type snapshot struct {
	m     map[string][]byte
	roots []*rootInfo
	block int
	k     int
	puts  int
}

// restart: the node died at the crash point of snap. A new process (fresh node database, empty
// caches) opens a root whose top node is on that disk, executes more blocks on it and commits
// them; afterwards every root that was openable at the crash and every new root must be readable
// cold from the disk alone (orphans of the interrupted commit must not get in the way).
func (rn *runner) restart(p histParams, r *hx.Rng, u *universe, codes [][]byte, snap *snapshot, poisoned bool, input func(map[string]interface{}) map[string]interface{}) {
	in := func(extra map[string]interface{}) map[string]interface{} {
		m := input(extra)
		m["restart_after_crash"] = map[string]interface{}{"block": snap.block, "k": snap.k, "puts": snap.puts}
		return m
	}
	img := &memDB{m: snap.m}
	db2 := account.NewDatabase(img)
	parent := common.Hash{}
	if len(snap.roots) > 0 {
		parent = snap.roots[r.Intn(len(snap.roots))].root
	}
	all := append([]*rootInfo{}, snap.roots...)
	nblocks := 1 + r.Intn(3)
	for b2 := 0; b2 < nblocks; b2++ {
		adb, err := account.NewAccountDB(parent, db2)
		if err != nil {
			rn.res.Violate("C03/restart:open-after-crash", err.Error(), in(map[string]interface{}{"parent": parent.Hex()}))
			return
		}
		ops := genBlock(r, u, codes, false)
		for _, o := range ops {
			apply(adb, u, o)
		}
		root, err := adb.Commit(true)
		if err != nil {
			if isEmptyCodeErr(err) {
				if !poisoned {
					rn.res.Violate("C03/code:zero-length-code-unreadable", "state commit fails: "+err.Error(),
						in(map[string]interface{}{"restart_block": b2, "ops_of_this_block": opStrings(ops, 12)}))
				}
				rn.res.Histogram["restart-ended-by-zero-length-code"]++
				break
			}
			rn.res.Violate("C03/restart:state-commit-error", err.Error(), in(map[string]interface{}{"restart_block": b2, "ops": opStrings(ops, 12)}))
			return
		}
		exp, prob, ec := readState(db2, root, u)
		if ec != "" {
			if !poisoned {
				poisoned = true
				rn.res.Violate("C03/code:zero-length-code-unreadable",
					"a contract code of length 0 cannot be read back, ContractCode reports it as missing: "+ec,
					in(map[string]interface{}{"restart_block": b2, "root": root.Hex(), "ops_of_this_block": opStrings(ops, 12)}))
			}
		}
		if prob != "" {
			rn.res.Violate("C03/restart:unreadable-before-commit", prob, in(map[string]interface{}{"restart_block": b2, "root": root.Hex()}))
			return
		}
		if err := db2.TrieDB().Commit(root, false); err != nil {
			rn.res.Violate("C03/restart:disk-commit-error", err.Error(), in(map[string]interface{}{"restart_block": b2}))
			return
		}
		all = append(all, &rootInfo{root: root, exp: exp, durable: true, block: 1000 + b2})
		parent = root
	}
	if len(img.deletes) > 0 {
		rn.res.Violate("C03/append-only:delete-during-commit", fmt.Sprintf("%d Delete calls on the state store after restart", len(img.deletes)), in(nil))
	}
	img.readonly = true
	cold := account.NewDatabase(img)
	walked := 0
	for _, x := range all {
		got, prob, _ := readState(cold, x.root, u)
		walked++
		what := prob
		if what == "" {
			what = diffMaps(x.exp, got)
		}
		if what != "" {
			key := "C03/restart:old-root-unreadable"
			if x.block >= 1000 {
				key = "C03/restart:new-root-unreadable"
			}
			rn.res.Violate(key, what, in(map[string]interface{}{"root": x.root.Hex(), "root_of_block": x.block}))
		}
	}
	rn.points++
	rn.res.Count("restart:continue-on-crash-image", fmt.Sprintf("%d/restart/%d/%d", p.seed, snap.block, snap.k), walked > 0)
}

// ---------------------------------------------------------------------------------------------
// the real LevelDB store (middleware/db LDBDatabase + ldbBatch): commit, close, reopen, read cold

type countDB struct {
	xdb.Database
	writes, puts, deletes int
}
type countBatch struct {
	xdb.Batch
	db *countDB
}

func (d *countDB) NewBatch() xdb.Batch { return &countBatch{d.Database.NewBatch(), d} }
func (d *countDB) Delete(key []byte) error {
	d.deletes++
	return d.Database.Delete(key)
}
func (b *countBatch) Put(k, v []byte) error { b.db.puts++; return b.Batch.Put(k, v) }
func (b *countBatch) Write() error          { b.db.writes++; return b.Batch.Write() }

// leveldbHistory: blocks (one of them several batches large) committed through the production
// store type; the store is closed and reopened (a new process as far as LevelDB is concerned) and
// every committed root is read back completely from the reopened store.
func (rn *runner) leveldbHistory(seed uint64, idx int) {
	r := hx.NewRng(seed)
	u := genUniverse(r)
	codes := [][]byte{r.Bytes(1 + r.Intn(300)), r.Bytes(1 + r.Intn(300))}
	name := fmt.Sprintf("c03-ldb-%d-%d", idx, seed%100000)
	input := func(extra map[string]interface{}) map[string]interface{} {
		m := map[string]interface{}{"leveldb_history_seed": seed, "store": name}
		for k, v := range extra {
			m[k] = v
		}
		return m
	}
	ldb, err := xdb.NewLDBDatabase(name, 8, 8)
	if err != nil {
		rn.res.Note("leveldb scenario skipped: " + err.Error())
		return
	}
	cdb := &countDB{Database: ldb}
	database := account.NewDatabase(cdb)
	var roots []*rootInfo
	parent := common.Hash{}
	blocks := 4 + r.Intn(3)
	bigAt := 1 + r.Intn(blocks-1)
	for b := 0; b < blocks; b++ {
		adb, err := account.NewAccountDB(parent, database)
		if err != nil {
			rn.res.Violate("C03/leveldb:open-parent", err.Error(), input(map[string]interface{}{"block": b}))
			ldb.Close()
			return
		}
		for _, o := range genBlock(r, u, codes, b == bigAt) {
			apply(adb, u, o)
		}
		root, err := adb.Commit(true)
		if err != nil {
			rn.res.Violate("C03/leveldb:state-commit-error", err.Error(), input(map[string]interface{}{"block": b}))
			ldb.Close()
			return
		}
		exp, prob, _ := readState(database, root, u)
		if prob != "" {
			rn.res.Violate("C03/leveldb:unreadable-before-commit", prob, input(map[string]interface{}{"block": b}))
			ldb.Close()
			return
		}
		w0 := cdb.writes
		if err := database.TrieDB().Commit(root, false); err != nil {
			rn.res.Violate("C03/leveldb:disk-commit-error", err.Error(), input(map[string]interface{}{"block": b}))
			ldb.Close()
			return
		}
		if cdb.writes-w0 > 1 {
			rn.res.Histogram["leveldb:multi-batch-commit"]++
		}
		roots = append(roots, &rootInfo{root: root, exp: exp, durable: true, block: b})
		parent = root
	}
	if cdb.deletes > 0 {
		rn.res.Violate("C03/append-only:delete-during-commit", fmt.Sprintf("%d Delete calls on the LevelDB state store", cdb.deletes), input(nil))
	}
	ldb.Close()
	ldb2, err := xdb.NewLDBDatabase(name, 8, 8)
	if err != nil {
		rn.res.Violate("C03/leveldb:reopen", err.Error(), input(nil))
		return
	}
	defer ldb2.Close()
	cold := account.NewDatabase(ldb2)
	for _, x := range roots {
		got, prob, _ := readState(cold, x.root, u)
		what := prob
		if what == "" {
			what = diffMaps(x.exp, got)
		}
		if what != "" {
			rn.res.Violate("C03/leveldb:committed-root-unreadable-after-reopen", what, input(map[string]interface{}{"root": x.root.Hex(), "root_of_block": x.block}))
		}
		rn.points++
		rn.res.Count("leveldb:reopen-and-read-committed-root", fmt.Sprintf("ldb/%d/%d", seed, x.block), true)
	}
}

// the state commit refused because an account object was poisoned by a failed read of zero-length code
func isEmptyCodeErr(err error) bool {
	return err != nil && strings.Contains(err.Error(), "can't load code hash") && strings.Contains(err.Error(), hex.EncodeToString(keccakEmpty[:]))
}

// ---------------------------------------------------------------------------------------------
// write failures at the real LevelDB level: the physical store goes away (node shutdown racing with
// the commit, I/O failure) while a multi-batch commit is in flight, so that the real
// ldbBatch.Write / prefixBatch.Write / Put return the LevelDB error ("leveldb: closed").
// Contract: EITHER NodeDatabase.Commit returns an error, OR the root it reported success for is
// completely readable after reopening the store; older durable roots stay readable either way.

type faultDB struct {
	xdb.Database
	closeAfter int // close the physical store once this many batch writes have been issued (0: before the first)
	writes     int
	armed      bool
	closeFn    func()
	closed     bool
}
type faultBatch struct {
	xdb.Batch
	db *faultDB
}

func (d *faultDB) shut() {
	if !d.closed {
		d.closed = true
		d.closeFn()
	}
}
func (d *faultDB) NewBatch() xdb.Batch { return &faultBatch{d.Database.NewBatch(), d} }
func (b *faultBatch) Write() error {
	if b.db.armed && b.db.writes == b.db.closeAfter {
		b.db.shut()
	}
	err := b.Batch.Write() // the real batch implementation on the (possibly closed) store
	b.db.writes++
	if b.db.armed && b.db.writes == b.db.closeAfter {
		b.db.shut()
	}
	return err
}

type storeKind struct {
	path   string // the write path exercised
	open   func(name string) (xdb.Database, error)
	putKey string
}

func (rn *runner) leveldbFault(seed uint64, idx int, kind storeKind, closeAfter int) {
	r := hx.NewRng(seed)
	u := genUniverse(r)
	codes := [][]byte{r.Bytes(1 + r.Intn(300)), r.Bytes(1 + r.Intn(300))}
	name := fmt.Sprintf("c03-fault-%d-%d", idx, seed%100000)
	input := func(extra map[string]interface{}) map[string]interface{} {
		m := map[string]interface{}{"leveldb_fault_seed": seed, "store": name, "write_path": kind.path, "store_closed_after_physical_batch": closeAfter}
		for k, v := range extra {
			m[k] = v
		}
		return m
	}
	phys, err := kind.open(name)
	if err != nil {
		rn.res.Note("leveldb fault scenario skipped: " + err.Error())
		return
	}
	fdb := &faultDB{Database: phys, closeAfter: closeAfter, closeFn: phys.Close}
	database := account.NewDatabase(fdb)
	var roots []*rootInfo
	parent := common.Hash{}
	var reported []string
	for b := 0; b < 2; b++ {
		adb, err := account.NewAccountDB(parent, database)
		if err != nil {
			rn.res.Violate("C03/leveldb-fault:open-parent", err.Error(), input(map[string]interface{}{"block": b}))
			fdb.shut()
			return
		}
		for _, o := range genBlock(r, u, codes, b == 1) {
			apply(adb, u, o)
		}
		root, err := adb.Commit(true)
		if err != nil {
			rn.res.Violate("C03/leveldb-fault:state-commit-error", err.Error(), input(map[string]interface{}{"block": b}))
			fdb.shut()
			return
		}
		exp, prob, _ := readState(database, root, u)
		if prob != "" {
			rn.res.Violate("C03/leveldb-fault:unreadable-before-commit", prob, input(map[string]interface{}{"block": b}))
			fdb.shut()
			return
		}
		if b == 1 {
			fdb.armed, fdb.writes = true, 0
		}
		var cerr error
		func() {
			defer func() {
				if p := recover(); p != nil {
					cerr = fmt.Errorf("panic: %v", p)
				}
			}()
			cerr = database.TrieDB().Commit(root, false)
		}()
		reported = append(reported, fmt.Sprint(cerr))
		roots = append(roots, &rootInfo{root: root, exp: exp, durable: cerr == nil, block: b})
		if b == 0 && cerr != nil {
			rn.res.Violate("C03/leveldb-fault:disk-commit-error", cerr.Error(), input(map[string]interface{}{"block": b}))
			fdb.shut()
			return
		}
		parent = root
	}
	// a direct Put on the closed store: an error, or the value is there after the reopen
	putErr := error(nil)
	pk, pv := []byte(kind.putKey+"-probe"), []byte("value written after the store went away")
	func() {
		defer func() {
			if p := recover(); p != nil {
				putErr = fmt.Errorf("panic: %v", p)
			}
		}()
		fdb.shut()
		putErr = phys.Put(pk, pv)
	}()
	again, err := kind.open(name)
	if err != nil {
		rn.res.Violate("C03/leveldb-fault:reopen", err.Error(), input(nil))
		return
	}
	defer again.Close()
	if putErr == nil {
		if got, gerr := again.Get(pk); gerr != nil || !bytes.Equal(got, pv) {
			rn.res.Violate("C03/durable:success-reported-but-not-on-disk:"+kind.putKey, "Put on a closed store returned nil but the value is not there after the reopen",
				input(map[string]interface{}{"get_error": fmt.Sprint(gerr)}))
		}
	}
	cold := account.NewDatabase(again)
	class := "leveldb-fault:" + kind.path + ":commit-reported-error"
	for _, x := range roots {
		_, present := again.Get(x.root[:])
		topPresent := present == nil || x.root == emptyRoot
		if !x.durable && !topPresent {
			continue // Commit said it failed and the root is not there: nothing was promised
		}
		got, prob, _ := readState(cold, x.root, u)
		what := prob
		if what == "" {
			what = diffMaps(x.exp, got)
		}
		if what == "" {
			continue
		}
		in := input(map[string]interface{}{"root": x.root.Hex(), "root_of_block": x.block, "commit_results": reported, "physical_batch_writes_issued": fdb.writes})
		switch {
		case x.durable && x.block == 1:
			rn.res.Violate("C03/durable:success-reported-but-not-on-disk:"+kind.path,
				"NodeDatabase.Commit returned nil although the physical store failed during the commit; after reopening the store the root is not readable: "+what, in)
		case x.durable:
			rn.res.Violate("C03/leveldb-fault:old-root-unreadable-after-reopen", what, in)
		default:
			rn.res.Violate("C03/leveldb-fault:top-node-present-but-not-resolvable", what, in)
		}
	}
	if roots[len(roots)-1].durable {
		class = "leveldb-fault:" + kind.path + ":commit-reported-success"
	}
	rn.points++
	rn.res.Count(class, fmt.Sprintf("fault/%s/%d/%d", kind.path, seed, closeAfter), true)
}

// ---------------------------------------------------------------------------------------------
// the node's own state-commit call site: blockChain.insertBlock -> saveStates, on the real chain
// booted alone (hooks of the block store check: core.VerifBC*, stub consensus helper). Blocks with and
// without transactions are inserted; after every block the chain reports as added, its state root is
// opened from the state LevelDB alone (fresh account database, empty trie cache) and every account,
// storage slot and code blob under it is read.

type chainHelper struct{}

func (h *chainHelper) GenerateGenesisInfo() []*types.GenesisInfo       { return nil }
func (h *chainHelper) VRFProve2Value(p *big.Int) *big.Int              { return p }
func (h *chainHelper) ProposalBonus() *big.Int                         { return big.NewInt(0) }
func (h *chainHelper) PackBonus() *big.Int                             { return big.NewInt(0) }
func (h *chainHelper) VerifyHash(b *types.Block) common.Hash           { return b.Header.Hash }
func (h *chainHelper) CheckProveRoot(*types.BlockHeader) (bool, error) { return true, nil }
func (h *chainHelper) VerifyNewBlock(*types.BlockHeader, *types.BlockHeader) (bool, error) {
	return true, nil
}
func (h *chainHelper) VerifyBlockHeader(*types.BlockHeader) (bool, error)        { return true, nil }
func (h *chainHelper) VerifyGroupSign([]byte, common.Hash, []byte) (bool, error) { return true, nil }
func (h *chainHelper) CheckGroup(*types.Group) (bool, error)                     { return true, nil }
func (h *chainHelper) VerifyMemberInfo(*types.BlockHeader, *types.BlockHeader) (bool, error) {
	return true, nil
}
func (h *chainHelper) VerifyGroupForFork(*types.Group, *types.Group, *types.Group, *types.Block) (bool, error) {
	return true, nil
}

type chainStub struct{}

func (chainStub) QueryBlockHeaderByHeight(height interface{}, cache bool) *types.BlockHeader {
	return core.VerifBCHeightHeader(height.(uint64), cache)
}
func (chainStub) GetAvailableGroupsByMinerId(height uint64, minerId []byte) []*types.Group {
	return nil
}
func (chainStub) GetGroupById(id []byte) *types.Group             { return nil }
func (chainStub) GetBlockHeader(height uint64) *types.BlockHeader { return nil }

func (rn *runner) chainScenario(seed uint64, nblocks int) {
	defer func() {
		if p := recover(); p != nil {
			rn.res.Violate("C03/chain:scenario-panicked", fmt.Sprint(p), map[string]interface{}{"chain_seed": seed})
		}
	}()
	r := hx.NewRng(seed)
	// as the block store check does: proposal 025 (per-proposer difficulty counter written by
	// VMExecutor.after) from height 0, so that a block without transactions still moves the state
	common.LocalChainConfig.Proposal026Block = 1 << 60
	common.LocalChainConfig.Proposal025Block = 0
	middleware.InitMiddleware()
	service.InitService()
	service.InitRefundManager(chainStub{}, chainStub{})
	service.InitRewardCalculator(chainStub{}, chainStub{}, chainStub{})
	vm.InitVM()
	executor.InitExecutors()
	middleware.VerifBCResetState(nil)
	pl, err := xdb.NewLDBDatabase("c03tx", 16, 16)
	if err != nil {
		rn.res.Note("chain scenario skipped: " + err.Error())
		return
	}
	_, limit := service.VerifLimits()
	service.VerifBCSetTxPool(service.VerifNewTxPool(pl, limit))
	h := &chainHelper{}
	core.VerifBCGenesisFirst(h, func(prefix string, d xdb.Database) xdb.Database { return d })
	if err := core.VerifBCInit(h); err != nil {
		rn.res.Note("chain scenario skipped: " + err.Error())
		return
	}
	stateLDB := middleware.VerifBCStateStore()
	none := &universe{}
	head := core.GetBlockChain().TopBlock()
	coldOpen := func(bh *types.BlockHeader, ntx int, what string) bool {
		cold := account.NewDatabase(stateLDB) // nothing but the disk store
		_, prob, _ := readState(cold, bh.StateTree, none)
		if prob != "" {
			rn.res.Violate("C03/durable:block-state-unopenable-after-success",
				what+": the state root cannot be read from the state store alone: "+prob,
				map[string]interface{}{"chain_seed": seed, "height": bh.Height, "transactions": ntx, "state_root": bh.StateTree.Hex(), "block": bh.Hash.Hex()})
			return false
		}
		return true
	}
	coldOpen(head, 0, "genesis block")
	txn := 0
	for i := 1; i <= nblocks; i++ {
		ntx := 0
		if i%2 == 0 || r.Intn(3) == 0 {
			ntx = 1 + r.Intn(3)
		}
		bh := &types.BlockHeader{
			CurTime:      head.CurTime.Add(time.Second),
			Height:       head.Height + 1,
			ProveValue:   big.NewInt(int64(1 + r.Intn(1000))),
			Castor:       []byte{0xca, 0x57, byte(r.Intn(3))},
			TotalQN:      head.TotalQN + uint64(1+r.Intn(3)),
			PreHash:      head.Hash,
			PreTime:      head.CurTime,
			GroupId:      []byte("c03-genesis-group-id-000000000001"),
			Transactions: make([]common.Hashes, 0),
			EvictedTxs:   make([]common.Hash, 0),
			RequestIds:   map[string]uint64{},
		}
		for k, v := range head.RequestIds {
			bh.RequestIds[k] = v
		}
		b := &types.Block{Header: bh, Transactions: []*types.Transaction{}}
		for j := 0; j < ntx; j++ {
			txn++
			t := &types.Transaction{ // a type without executor: failed receipt + nonce bump of the source
				Source: fmt.Sprintf("0x%040x", 0xc03000+txn),
				Target: "0x00000000000000000000000000000000000c0300",
				Type:   777,
				Data:   fmt.Sprintf("c03 chain %d tx %d", seed, txn),
				Time:   "2020-01-01 00:00:00",
			}
			t.Hash = t.GenHash()
			b.Transactions = append(b.Transactions, t)
		}
		// the header's roots, computed WITHOUT committing anything: insertBlock's own saveStates is the
		// only thing that may put this state on disk
		root, rroot, err := core.VerifBCExecute(head.StateTree, b, false)
		if err != nil {
			rn.res.Note(fmt.Sprintf("chain scenario stopped at block %d: %v", i, err))
			return
		}
		bh.StateTree, bh.ReceiptTree = root, rroot
		for _, t := range b.Transactions {
			bh.Transactions = append(bh.Transactions, common.Hashes{t.Hash, t.SubHash})
		}
		bh.TxTree = core.VerifBCTxTree(b.Transactions)
		bh.Hash = bh.GenHash()
		moved := root != head.StateTree
		res := core.VerifBCInsert(b)
		class := fmt.Sprintf("chain:block-with-%s:result-%d", map[bool]string{true: "transactions", false: "no-transactions"}[ntx > 0], int(res))
		if res != types.AddBlockSucc {
			rn.res.Count(class, fmt.Sprintf("chain/%d/%d", seed, i), false)
			rn.res.Note(fmt.Sprintf("chain scenario: block %d (height %d, %d txs) not added: result %d", i, bh.Height, ntx, int(res)))
			return
		}
		if !moved {
			rn.res.Histogram["chain:block-left-state-root-unchanged"]++
		}
		coldOpen(bh, ntx, fmt.Sprintf("insertBlock/saveStates reported success for block %d (height %d, %d transactions)", i, bh.Height, ntx))
		rn.points++
		rn.res.Count(class, fmt.Sprintf("chain/%d/%d", seed, i), moved)
		head = bh
	}
}

func opStrings(ops []op, max int) []string {
	var out []string
	for i, o := range ops {
		if i >= max {
			out = append(out, fmt.Sprintf("… %d more", len(ops)-max))
			break
		}
		out = append(out, o.String())
	}
	return out
}

// ---------------------------------------------------------------------------------------------
// inventory: callers that could delete or prune state nodes

func inventory(repo string) (callers []string, files int, err error) {
	recv := regexp.MustCompile(`(?i)diskdb|statedb|AccountDBManagerInstance\.db|manager\.db|TrieDB\(\)`)
	fset := token.NewFileSet()
	root := filepath.Join(repo, "src")
	err = filepath.Walk(root, func(path string, info os.FileInfo, e error) error {
		if e != nil {
			return e
		}
		if info.IsDir() || !strings.HasSuffix(path, ".go") || strings.HasSuffix(path, "_test.go") || strings.HasPrefix(info.Name(), "verif_") {
			return nil
		}
		f, perr := parser.ParseFile(fset, path, nil, 0)
		if perr != nil {
			return nil // not part of any build (the compiler would complain first)
		}
		files++
		rel, _ := filepath.Rel(repo, path)
		for _, d := range f.Decls {
			fd, ok := d.(*ast.FuncDecl)
			if !ok || fd.Body == nil {
				continue
			}
			ast.Inspect(fd.Body, func(n ast.Node) bool {
				ce, ok := n.(*ast.CallExpr)
				if !ok {
					return true
				}
				se, ok := ce.Fun.(*ast.SelectorExpr)
				if !ok {
					return true
				}
				var xb bytes.Buffer
				printer.Fprint(&xb, fset, se.X)
				hit := false
				switch se.Sel.Name {
				case "Dereference":
					hit = len(ce.Args) == 1
				case "Cap": // NodeDatabase.Cap(limit); reflect.Value.Cap() takes no argument
					hit = len(ce.Args) == 1
				case "Delete":
					hit = len(ce.Args) == 1 && recv.MatchString(xb.String())
				}
				if hit {
					callers = append(callers, fmt.Sprintf("%s:%s:%s.%s", rel, fd.Name.Name, xb.String(), se.Sel.Name))
				}
				return true
			})
		}
		return nil
	})
	sort.Strings(callers)
	return
}

// commitPairs: every non-test call site of AccountDB.Commit(bool) must be followed, in the same
// statement list and with no way out in between other than an error return, by a
// NodeDatabase.Commit(root, ...) of the root it returned - otherwise "the state commit reported
// success" does not imply that the root reached the disk store.
func commitPairs(repo string) (offenders []string, sites int, err error) {
	fset := token.NewFileSet()
	src := func(n ast.Node) string {
		var b bytes.Buffer
		printer.Fprint(&b, fset, n)
		return b.String()
	}
	// X.Commit(true|false) assigned to an identifier
	stateCommit := func(st ast.Stmt) string {
		as, ok := st.(*ast.AssignStmt)
		if !ok || len(as.Rhs) != 1 || len(as.Lhs) < 1 {
			return ""
		}
		ce, ok := as.Rhs[0].(*ast.CallExpr)
		if !ok || len(ce.Args) != 1 {
			return ""
		}
		se, ok := ce.Fun.(*ast.SelectorExpr)
		if !ok || se.Sel.Name != "Commit" {
			return ""
		}
		if id, ok := ce.Args[0].(*ast.Ident); !ok || (id.Name != "true" && id.Name != "false") {
			return ""
		}
		if id, ok := as.Lhs[0].(*ast.Ident); ok && id.Name != "_" {
			return id.Name
		}
		return "?"
	}
	diskCommitOf := func(st ast.Stmt, root string) bool {
		found := false
		ast.Inspect(st, func(n ast.Node) bool {
			if ce, ok := n.(*ast.CallExpr); ok && len(ce.Args) == 2 {
				if se, ok := ce.Fun.(*ast.SelectorExpr); ok && se.Sel.Name == "Commit" {
					if id, ok := ce.Args[0].(*ast.Ident); ok && id.Name == root {
						found = true
					}
				}
			}
			return true
		})
		return found
	}
	hasReturn := func(st ast.Stmt) bool {
		found := false
		ast.Inspect(st, func(n ast.Node) bool {
			if _, ok := n.(*ast.ReturnStmt); ok {
				found = true
			}
			if _, ok := n.(*ast.FuncLit); ok {
				return false
			}
			return true
		})
		return found
	}
	err = filepath.Walk(filepath.Join(repo, "src"), func(path string, info os.FileInfo, e error) error {
		if e != nil {
			return e
		}
		if info.IsDir() || !strings.HasSuffix(path, ".go") || strings.HasSuffix(path, "_test.go") || strings.HasPrefix(info.Name(), "verif_") {
			return nil
		}
		f, perr := parser.ParseFile(fset, path, nil, 0)
		if perr != nil {
			return nil
		}
		rel, _ := filepath.Rel(repo, path)
		for _, d := range f.Decls {
			fd, ok := d.(*ast.FuncDecl)
			if !ok || fd.Body == nil {
				continue
			}
			ast.Inspect(fd.Body, func(n ast.Node) bool {
				bl, ok := n.(*ast.BlockStmt)
				if !ok {
					return true
				}
				for i, st := range bl.List {
					root := stateCommit(st)
					if root == "" {
						continue
					}
					sites++
					site := fmt.Sprintf("%s:%s", rel, fd.Name.Name)
					j := -1
					for k := i + 1; k < len(bl.List); k++ {
						if diskCommitOf(bl.List[k], root) {
							j = k
							break
						}
					}
					if j < 0 {
						offenders = append(offenders, site+": no NodeDatabase.Commit("+root+", ...) after the state commit")
						continue
					}
					for k := i + 1; k < j; k++ {
						if is, ok := bl.List[k].(*ast.IfStmt); ok && strings.Contains(src(is.Cond), "err") {
							continue // the error path of the state commit itself
						}
						if hasReturn(bl.List[k]) {
							offenders = append(offenders, site+": can return between the state commit and the disk commit of "+root+": "+strings.SplitN(src(bl.List[k]), "\n", 2)[0])
						}
					}
				}
				return true
			})
		}
		return nil
	})
	sort.Strings(offenders)
	return
}

// ---------------------------------------------------------------------------------------------

func main() {
	a := hx.ParseArgs()
	common.Init(0, "p.ini", "dev")
	account.Init()
	tr, _ := trie.NewTrie(common.Hash{}, trie.NewDatabase(newMemDB()))
	emptyRoot = tr.Hash()
	_ = crypto.Keccak256Hash

	// hx.NewRng(seed) starts the splitmix counter at seed*G: the streams of seeds s and s+1 are the same
	// stream shifted by one draw. Fork() re-seeds from a hashed output, which makes runs with different
	// -seed values independent.
	rng := hx.NewRng(a.Seed).Fork()
	res := hx.NewResult("one evaluation = one crash point (history, disk commit, k): the disk image 'pre-commit + first k recorded puts' with every known state root " +
		"whose top node is present opened cold and read back completely (getters over the universe + full iteration of accounts, storage, code) and " +
		"every previously durable root required present. -n = number of disk commits to generate. " +
		"non-trivial = distinct crash point with k > 0 at which at least one root was opened cold")
	// the driver evaluates all shards in parallel and every coqc needs ~450 MB just to load std++:
	// few, larger shards in the thorough tier keep the total memory bounded
	perShard := 4
	if a.Tier == "thorough" {
		perShard = 30
	}
	cs := hx.NewCases(a.Out, "From V.C03 Require Import Model Harness.\nFrom Coq Require Import NArith.\nOpen Scope N_scope.", "c03case", "check", perShard)
	bs := hx.NewCasesNamed(a.Out, "blob", "From V.C03 Require Import Model Harness.\nFrom Coq Require Import NArith.\nOpen Scope N_scope.", "c03case", "check", 150)
	rn := &runner{res: res, cs: cs, bs: bs, tier: a.Tier, budget: 400000, blobBudget: 250}
	if a.Tier == "thorough" {
		rn.budget = 8000000
		rn.blobBudget = 1500
	}

	// inventory obligation
	repo := os.Getenv("VERIF_REPO")
	if repo == "" {
		repo = "/repo"
	}
	callers, nfiles, err := inventory(repo)
	if err != nil || nfiles < 50 {
		res.Note(fmt.Sprintf("inventory scan incomplete: %v (%d files)", err, nfiles))
		callers = append(callers, "scan-failed")
	}
	res.Note(fmt.Sprintf("inventory: %d non-test Go files under %s/src scanned for Dereference/Cap/Delete on the state store: %d callers", nfiles, repo, len(callers)))
	items := make([]string, len(callers))
	for i, c := range callers {
		items[i] = hx.CoqStr(c)
	}
	cs.Add("Inventory "+hx.CoqList(items), map[string]interface{}{"inventory": callers})
	offenders, nsites, err := commitPairs(repo)
	if err != nil || nsites < 6 {
		res.Note(fmt.Sprintf("commit-pair scan incomplete: %v (%d sites)", err, nsites))
		offenders = append(offenders, fmt.Sprintf("scan-found-only-%d-state-commit-sites", nsites))
	}
	res.Note(fmt.Sprintf("inventory: %d non-test call sites of AccountDB.Commit(bool); %d not followed by a disk commit of the returned root on every non-error path", nsites, len(offenders)))
	oitems := make([]string, len(offenders))
	for i, c := range offenders {
		oitems[i] = hx.CoqStr(c)
	}
	cs.Add("Inventory "+hx.CoqList(oitems), map[string]interface{}{"state_commit_without_disk_commit": offenders})

	h := 0
	for rn.commits < a.N {
		p := histParams{seed: rng.U64(), blocks: 3 + rng.Intn(8), big: -1}
		if h%4 == 1 { // a block large enough for several batches, after at least one durable root exists
			p.big = 1 + rng.Intn(3)
			if p.blocks < 5 {
				p.blocks = 5
			}
		}
		p.pre002 = h%5 == 3
		rn.history(p)
		h++
	}
	nl := 2
	if a.Tier == "thorough" {
		nl = 8
	}
	for i := 0; i < nl; i++ {
		rn.leveldbHistory(rng.U64(), i)
	}
	kinds := []storeKind{
		{"ldbBatch.Write", func(name string) (xdb.Database, error) { return xdb.NewLDBDatabase(name, 8, 8) }, "LDBDatabase.Put"},
		{"prefixBatch.Write", func(name string) (xdb.Database, error) { return xdb.NewDatabase("c03-" + name) }, "PrefixedDatabase.Put"},
	}
	nf := 3
	if a.Tier == "thorough" {
		nf = 8
	}
	fi := 0
	for _, kd := range kinds {
		for ca := 0; ca < nf; ca++ {
			rn.leveldbFault(rng.U64(), fi, kd, ca%4)
			fi++
		}
	}
	nb := 8
	if a.Tier == "thorough" {
		nb = 30
	}
	rn.chainScenario(rng.U64(), nb)
	res.Histogram["histories"] = h
	res.Histogram["disk-commits"] = rn.commits
	cs.Close()
	bs.Close()
	res.ModelCases = cs.Total() + bs.Total()
	res.Write(a.Out)
}
