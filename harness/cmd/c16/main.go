package main

import (
	"bytes"
	"encoding/hex"
	"fmt"
	"math/big"

	"com.tuntun.rangers/node/src/common"
	"com.tuntun.rangers/node/src/common/ed25519"
	"com.tuntun.rangers/node/src/common/ed25519/edwards25519"
	"com.tuntun.rangers/node/src/consensus/logical"
	"com.tuntun.rangers/node/src/consensus/model"
	"com.tuntun.rangers/node/src/consensus/vrf"
	"verif/harness/hx"
)

func main() {
	r := hx.NewRng(1)
	fmt.Println("param before", model.Param.MaxQN, common.LocalChainConfig.Proposal025Block, common.GetRewardBlocks())
	model.Param.MaxQN = 5
	model.Param.PotentialProposal = 3
	model.Param.PotentialProposalMax = 5
	model.Param.PotentialProposalIndex = 20
	// 1. isCanonical
	var nc [32]byte
	for i := range nc {
		nc[i] = 0xff
	}
	nc[0] = 0xee
	nc[31] = 0x7f
	fmt.Println("isCanonical(noncanon identity)=", ed25519.VerifIsCanonical(nc))
	var P edwards25519.ExtendedGroupElement
	fmt.Println("stringToPoint noncanon:", ed25519.VerifStringToPoint(&P, nc))
	var allff [32]byte
	for i := range allff {
		allff[i] = 0xff
	}
	fmt.Println("stringToPoint allff:", ed25519.VerifStringToPoint(&P, allff))
	// 2. qn
	max256, _ := new(big.Int).SetString("ffffffffffffffffffffffffffffffffffffffffffffffffffffffffffffffff", 16)
	v := new(big.Int).Mul(max256, big.NewInt(3))
	v.Div(v, big.NewInt(10))
	for j := 0; j < 4; j++ {
		pb := make([]byte, 80)
		vb := v.Bytes()
		copy(pb[32-len(vb):32], vb)
		ok, qn := logical.VerifVRFValidateProve(vrf.VRFProve(pb), 1, 0, 10)
		var g [32]byte
		copy(g[:], pb[:32])
		fmt.Println("v=", hex.EncodeToString(pb[:32]), "ok", ok, "qn", qn, "validpoint", ed25519.VerifStringToPoint(&P, g))
		v.Sub(v, big.NewInt(1))
	}
	ok, qn := logical.VerifVRFValidateProve(vrf.VRFProve(bytes.Repeat([]byte{0xff}, 80)), 1, 0, 4)
	fmt.Println("allff ts=4", ok, qn)
	// 3. adversarial
	pk, sk, _ := vrf.VRFGenerateKey(bytes.NewReader(r.Bytes(32)))
	m := r.Bytes(32)
	pi, _ := vrf.VRFGenProve(pk, sk, m)
	okv, err := vrf.VRFVerify(pk, pi, m)
	fmt.Println("honest verify", okv, err)
	x, _ := ed25519.VerifExpandSecret(ed25519.PrivateKey(sk))
	h := ed25519.VerifHashToCurve(m, ed25519.PublicKey(pk))
	var H, T edwards25519.ExtendedGroupElement
	H.FromBytes(&h)
	gamma := edwards25519.GeScalarMult(&H, x)
	var t2 [32]byte
	for i := range t2 {
		t2[i] = 0xff
	}
	t2[0] = 0xec
	t2[31] = 0x7f
	fmt.Println("T decode", T.FromBytes(&t2))
	var tc edwards25519.CachedGroupElement
	T.ToCached(&tc)
	var cp edwards25519.CompletedGroupElement
	edwards25519.GeSub(&cp, gamma, &tc)
	var g2 edwards25519.ExtendedGroupElement
	cp.ToExtended(&g2)
	for try := 0; try < 20; try++ {
		var kin [64]byte
		copy(kin[:], r.Bytes(64))
		var k [32]byte
		edwards25519.ScReduce(&k, &kin)
		var kB edwards25519.ExtendedGroupElement
		edwards25519.GeScalarMultBase(&kB, &k)
		kH := edwards25519.GeScalarMult(&H, &k)
		c := ed25519.VerifHashPoints(H, g2, kB, *kH)
		if c[0]&1 != 0 {
			continue
		}
		var cs, s, gb [32]byte
		copy(cs[:], c[:])
		edwards25519.ScMulAdd(&s, &cs, x, &k)
		g2.ToBytes(&gb)
		pi2 := append(append(append([]byte{}, gb[:]...), c[:]...), s[:]...)
		ok2, err2 := vrf.VRFVerify(pk, vrf.VRFProve(pi2), m)
		fmt.Println("try", try, "shifted verify", ok2, err2)
		fmt.Println(" out1", hex.EncodeToString(vrf.VRFProof2Hash(pi)))
		fmt.Println(" out2", hex.EncodeToString(vrf.VRFProof2Hash(vrf.VRFProve(pi2))))
		break
	}
}
