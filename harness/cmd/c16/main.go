// C16 harness: VRF proofs are complete, mutation-proof and survive header transport.
//
// Runs the real implementation (vrf.VRFGenProve / VRFVerify / VRFProof2Hash, the big.Int round trip
// of CastBlock/verifyBlockVRF, ConsensusHelperImpl.VRFProve2Value, logical.validateProve through the
// verif export, ed25519 internals through the H5 export) and
//
//	(a) evaluates the property directly: completeness, determinism, all single-bit mutations of
//	    proof / message / public key, transport (incl. proofs whose encoding starts with zero
//	    bytes), output uniqueness against an adversarial prover that shifts Gamma by a small-order
//	    point, and the range of the quality number over a stake x height x value grid;
//	(b) writes transport / qualification / isCanonical cases with the observed outputs for the Coq
//	    model (coq/C16/Harness.v).
package main

import (
	"bytes"
	"crypto/sha256"
	"encoding/hex"
	"fmt"
	"math/big"
	"time"

	"com.tuntun.rangers/node/src/common"
	"com.tuntun.rangers/node/src/common/ed25519"
	"com.tuntun.rangers/node/src/common/ed25519/edwards25519"
	"com.tuntun.rangers/node/src/consensus"
	"com.tuntun.rangers/node/src/consensus/base"
	"com.tuntun.rangers/node/src/consensus/groupsig"
	"com.tuntun.rangers/node/src/consensus/logical"
	"com.tuntun.rangers/node/src/consensus/model"
	"com.tuntun.rangers/node/src/consensus/vrf"
	"com.tuntun.rangers/node/src/middleware/types"
	"verif/harness/hx"
)

var (
	res    *hx.Result
	cs     *hx.Cases
	max256 = new(big.Int).Sub(new(big.Int).Lsh(big.NewInt(1), 256), big.NewInt(1))
	helper = consensus.NewConsensusHelper(groupsig.ID{})
)

func hexs(b []byte) string { return hex.EncodeToString(b) }

func id(parts ...[]byte) string {
	h := sha256.New()
	for _, p := range parts {
		h.Write(p)
		h.Write([]byte{0xfe})
	}
	return hexs(h.Sum(nil)[:12])
}

func zlit(z *big.Int) string { return "(" + z.String() + ")%Z" }
func ulit(u uint64) string   { return fmt.Sprintf("%d%%Z", u) }

// ---- guarded calls ----
func verify(pk vrf.VRFPublicKey, pi vrf.VRFProve, m []byte) (ok bool, err error, panicked interface{}) {
	defer func() {
		if r := recover(); r != nil {
			panicked = r
		}
	}()
	ok, err = vrf.VRFVerify(pk, pi, m)
	return
}

func verifyClass(pk vrf.VRFPublicKey, pi vrf.VRFProve, m []byte) string {
	ok, err, p := verify(pk, pi, m)
	switch {
	case p != nil:
		return "panic"
	case ok:
		return "accept"
	case err == ed25519.ErrDecodeError:
		return "decode-error"
	case err != nil:
		return "error"
	}
	return "reject"
}

func validate(pi []byte, h, wm, ts uint64) (ok bool, qn uint64, panicked interface{}) {
	defer func() {
		if r := recover(); r != nil {
			panicked = r
		}
	}()
	ok, qn = logical.VerifVRFValidateProve(vrf.VRFProve(pi), h, wm, ts)
	return
}

func helperValue(b *big.Int) (v *big.Int) {
	defer func() {
		if r := recover(); r != nil {
			v = big.NewInt(-1)
		}
	}()
	return helper.VRFProve2Value(b)
}

func padded(pi []byte) []byte {
	if len(pi) >= ed25519.ProveSize {
		return pi
	}
	p := make([]byte, ed25519.ProveSize)
	copy(p[ed25519.ProveSize-len(pi):], pi)
	return p
}

func leadingZeros(b []byte) int {
	n := 0
	for n < len(b) && b[n] == 0 {
		n++
	}
	return n
}

var honestModelCases, honestModelMax = 0, 150

// ---- transport of one proof (real or synthetic) ----
func transportCase(pk vrf.VRFPublicKey, pi []byte, m []byte, honest bool, origin string) {
	bi := vrf.VRFProve(pi).Big() // CastBlock: pi.Big()
	carried := bi.Bytes()        // verifyBlockVRF: bh.ProveValue.Bytes()
	lz := leadingZeros(pi)
	c1 := verifyClass(pk, vrf.VRFProve(pi), m)
	c2 := verifyClass(pk, vrf.VRFProve(carried), m)
	class := fmt.Sprintf("transport:%s:lz%d:%s", origin, min(lz, 3), c1)
	res.Count(class, id([]byte("T"), pk, pi, m), lz > 0)
	in := map[string]interface{}{"pk": hexs(pk), "proof": hexs(pi), "msg": hexs(m), "carried": hexs(carried)}
	if c1 != c2 {
		res.Violate(fmt.Sprintf("C16/transport:verify-changed-lz%d", min(lz, 3)),
			fmt.Sprintf("VRFVerify gives %s on the proof and %s on big.Int(proof).Bytes()", c1, c2), in)
	}
	if honest && c2 != "accept" {
		res.Violate("C16/transport:honest-proof-rejected", "honest proof rejected after the big.Int round trip: "+c2, in)
	}
	if len(pi) == ed25519.ProveSize && !bytes.Equal(padded(carried), pi) {
		res.Violate("C16/transport:padding", "left-padding the carried bytes to 80 does not restore the proof", in)
	}
	value := vrf.VRFProof2Hash(vrf.VRFProve(padded(pi))).Big()
	hv := helperValue(bi)
	if len(carried) >= 32 && hv.Cmp(value) != 0 {
		res.Violate("C16/transport-output:VRFProve2Value-unpadded",
			fmt.Sprintf("ConsensusHelperImpl.VRFProve2Value(header value) = %x but VRFProof2Hash(proof) = %x", hv, value), in)
	}
	// the qualification rule must not notice the transport either
	ok1, q1, p1 := validate(pi, 1, 0, 10)
	ok2, q2, p2 := validate(carried, 1, 0, 10)
	if ok1 != ok2 || q1 != q2 || (p1 == nil) != (p2 == nil) {
		res.Violate("C16/transport:qn-changed", fmt.Sprintf("validateProve (%v,%d) before, (%v,%d) after transport", ok1, q1, ok2, q2), in)
	}
	// every case is evaluated on the implementation above; the model gets all cases with leading zero
	// bytes, all synthetic ones and the first honestModelMax ordinary honest proofs (they are all alike)
	if origin != "honest" || lz > 0 || honestModelCases < honestModelMax {
		if origin == "honest" && lz == 0 {
			honestModelCases++
		}
		cs.Add(fmt.Sprintf("CT %s %s %s %s", hx.CoqHex(pi), hx.CoqHex(carried), zlit(value), zlit(hv)),
			map[string]interface{}{"kind": "transport", "origin": origin, "in": in})
	}
	if lz > 0 {
		res.Sample(map[string]interface{}{"kind": "transport", "leading_zero_bytes": lz, "proof": hexs(pi), "carried_len": len(carried), "verify_after": c2})
	}
}

// ---- the scalar part of an honest proof, and the verifier's reduction of s modulo ell ----
var ell25519, _ = new(big.Int).SetString("7237005577332262213973186563042994240857116359379907606001950938285454250989", 10)

func leInt(b []byte) *big.Int {
	r := make([]byte, len(b))
	for i := range b {
		r[len(b)-1-i] = b[i]
	}
	return new(big.Int).SetBytes(r)
}

func scalarCase(pk vrf.VRFPublicKey, sk vrf.VRFPrivateKey, pi []byte, m []byte) {
	x, trunc := ed25519.VerifExpandSecret(ed25519.PrivateKey(sk))
	h := ed25519.VerifHashToCurve(m, ed25519.PublicKey(pk))
	k := ed25519.VerifNonce(*trunc, h)
	cs.Add(fmt.Sprintf("CS %s %s %s", hx.CoqHex(x[:]), hx.CoqHex(k[:]), hx.CoqHex(pi)),
		map[string]interface{}{"kind": "scalar", "x": hexs(x[:]), "k": hexs(k[:]), "proof": hexs(pi)})
	// s + j*ell (still 32 bytes) is the same proof to ECVRFVerify (ScReduce); Coq: C16_s_reduced_mod_ell
	sv := leInt(pi[48:80])
	class := "scalar:s-reduced"
	if sv.Cmp(ell25519) >= 0 {
		class = "scalar:s-not-reduced"
		res.Violate("C16/complete:s-not-reduced", "the honest proof carries s >= ell", map[string]interface{}{"proof": hexs(pi)})
	}
	for j := int64(1); j <= 15; j += 7 {
		s2 := new(big.Int).Add(sv, new(big.Int).Mul(big.NewInt(j), ell25519))
		if s2.BitLen() > 256 {
			break
		}
		be := make([]byte, 32)
		s2.FillBytes(be)
		pi2 := append([]byte{}, pi...)
		for t := 0; t < 32; t++ {
			pi2[48+t] = be[31-t]
		}
		cl := verifyClass(pk, pi2, m)
		class += fmt.Sprintf(":+%dell=%s", j, cl)
		if cl == "accept" && !bytes.Equal(vrf.VRFProof2Hash(pi2), vrf.VRFProof2Hash(pi)) {
			res.Violate("C16/output-unique:s-shift", "s + j*ell accepted with a different output", map[string]interface{}{"proof": hexs(pi), "shifted": hexs(pi2)})
		}
	}
	// bytes after the 80th are ignored by decodeProof (tryZeroPadding leaves longer inputs alone): the
	// model's verify_via/pad80 say the same; informational, the output is unchanged
	long := append(append([]byte{}, pi...), 0x01)
	lcl := verifyClass(pk, long, m)
	class += ":81-bytes=" + lcl
	if lcl == "accept" && !bytes.Equal(vrf.VRFProof2Hash(long), vrf.VRFProof2Hash(pi)) {
		res.Violate("C16/output-unique:overlong", "an 81-byte extension of the proof is accepted with a different output", map[string]interface{}{"proof": hexs(pi)})
	}
	res.Count(class, id([]byte("S"), pk, pi, m), true)
}

// ---- mutations ----
func flip(b []byte, bit int) []byte {
	c := append([]byte{}, b...)
	c[bit/8] ^= 1 << uint(bit%8)
	return c
}

func mutate(pk vrf.VRFPublicKey, pi []byte, m []byte, bitsProof, bitsMsg, bitsPk []int) int {
	n := 0
	rep := func(part string, bit int, pk2 vrf.VRFPublicKey, pi2, m2 []byte) {
		n++
		ok, _, p := verify(pk2, vrf.VRFProve(pi2), m2)
		in := map[string]interface{}{"pk": hexs(pk), "proof": hexs(pi), "msg": hexs(m), "mutated": part, "bit": bit}
		if p != nil {
			res.Violate("C16/mutation-panic:"+part, fmt.Sprintf("VRFVerify panicked on a mutant: %v", p), in)
		} else if ok {
			res.Violate("C16/mutation-accepted:"+part, "a single-bit mutant verifies", in)
		}
	}
	for _, b := range bitsProof {
		part := "proof-gamma"
		if b >= 48*8 {
			part = "proof-s"
		} else if b >= 32*8 {
			part = "proof-c"
		}
		rep(part, b, pk, flip(pi, b), m)
	}
	for _, b := range bitsMsg {
		rep("message", b, pk, pi, flip(m, b))
	}
	for _, b := range bitsPk {
		rep("pubkey", b, vrf.VRFPublicKey(flip(pk, b)), pi, m)
	}
	return n
}

func allBits(n int) []int {
	r := make([]int, n)
	for i := range r {
		r[i] = i
	}
	return r
}
func someBits(r *hx.Rng, n, k int) []int {
	if n == 0 {
		return nil
	}
	o := make([]int, k)
	for i := range o {
		o[i] = r.Intn(n)
	}
	return o
}

// ---- adversarial prover: Gamma' = Gamma - T for a small-order T, own nonce until c*T = 0 ----
type torsion struct {
	name string
	enc  string
	mask byte
}

var torsions = []torsion{
	{"order2", "ecffffffffffffffffffffffffffffffffffffffffffffffffffffffffffff7f", 1},
	{"order4", "0000000000000000000000000000000000000000000000000000000000000000", 3},
	{"order8", "26e8958fc2b227b045c3f489f2ef98f0d5dfac05d3c63339b13802886d53fc05", 7},
}

func shiftedProof(r *hx.Rng, pk vrf.VRFPublicKey, sk vrf.VRFPrivateKey, m []byte, t torsion) ([]byte, bool) {
	x, _ := ed25519.VerifExpandSecret(ed25519.PrivateKey(sk))
	h := ed25519.VerifHashToCurve(m, ed25519.PublicKey(pk))
	var H, T edwards25519.ExtendedGroupElement
	H.FromBytes(&h)
	var tb [32]byte
	b, _ := hex.DecodeString(t.enc)
	copy(tb[:], b)
	if !T.FromBytes(&tb) {
		return nil, false
	}
	gamma := edwards25519.GeScalarMult(&H, x)
	var tc edwards25519.CachedGroupElement
	T.ToCached(&tc)
	var cp edwards25519.CompletedGroupElement
	edwards25519.GeSub(&cp, gamma, &tc)
	var g2 edwards25519.ExtendedGroupElement
	cp.ToExtended(&g2)
	for try := 0; try < 400; try++ {
		var kin [64]byte
		copy(kin[:], r.Bytes(64))
		var k [32]byte
		edwards25519.ScReduce(&k, &kin)
		var kB edwards25519.ExtendedGroupElement
		edwards25519.GeScalarMultBase(&kB, &k)
		kH := edwards25519.GeScalarMult(&H, &k)
		c := ed25519.VerifHashPoints(H, g2, kB, *kH)
		if c[0]&t.mask != 0 {
			continue
		}
		var cs32, s, gb [32]byte
		copy(cs32[:], c[:])
		edwards25519.ScMulAdd(&s, &cs32, x, &k)
		g2.ToBytes(&gb)
		pi := append(append(append([]byte{}, gb[:]...), c[:]...), s[:]...)
		return pi, true
	}
	return nil, false
}

// ---- purity: prove/verify must be functions of the VALUES of key, message and proof ----
// The calls below reuse the same backing arrays across consecutive calls (flip a bit in place, call
// again, flip back; overwrite the message buffer with another message) and interleave keys. Every
// expectation is fixed BEFORE any buffer is reused: reference proofs are generated from slices that
// are never written to afterwards, acceptance/rejection is what the model says (honest proof of the
// current content: accept; anything else: reject). Comparing with a call on a fresh copy made at the
// same moment would not do: state keyed on a caller's buffer answers the copy wrongly as well.
func clone(b []byte) []byte { return append([]byte{}, b...) }

type pureSeq struct {
	steps []string
	in    map[string]interface{}
}

func (q *pureSeq) step(f string, a ...interface{}) { q.steps = append(q.steps, fmt.Sprintf(f, a...)) }
func (q *pureSeq) fail(key, what string) {
	in := map[string]interface{}{}
	for k, v := range q.in {
		in[k] = v
	}
	n := len(q.steps)
	from := 0
	if n > 12 {
		from = n - 12
	}
	in["call_sequence_tail"] = append([]string{}, q.steps[from:]...)
	in["calls_so_far"] = n
	res.Violate(key, what, in)
}

func proveGuard(pk vrf.VRFPublicKey, sk vrf.VRFPrivateKey, m []byte) (pi []byte) {
	defer func() {
		if r := recover(); r != nil {
			pi = nil
		}
	}()
	p, err := vrf.VRFGenProve(pk, sk, m)
	if err != nil {
		return nil
	}
	return p
}

// one key: reference material from immutable slices, then the aliased sequences
func pureCase(r *hx.Rng, i int, pk vrf.VRFPublicKey, sk vrf.VRFPrivateKey, ppk vrf.VRFPublicKey, psk vrf.VRFPrivateKey, full bool) int {
	calls := 0
	L := 32
	if r.Intn(4) == 0 {
		L = 1 + r.Intn(64)
	}
	m1 := r.Bytes(L)
	m2 := flip(m1, r.Intn(8*L)) // one bit away from m1
	m3 := r.Bytes(L)
	for bytes.Equal(m3, m1) || bytes.Equal(m3, m2) {
		m3 = append(m3, byte(r.Intn(256)))[1:]
	}
	pk0, sk0 := clone(pk), clone(sk)
	ref := func(k vrf.VRFPublicKey, s vrf.VRFPrivateKey, m []byte) []byte { calls++; return proveGuard(clone(k), clone(s), clone(m)) }
	ref1, ref2, ref3 := ref(pk, sk, m1), ref(pk, sk, m2), ref(pk, sk, m3)
	pref1, pref3 := ref(ppk, psk, m1), ref(ppk, psk, m3) // the previous key on the same messages
	q := &pureSeq{in: map[string]interface{}{"pk": hexs(pk), "sk_seed": hexs(sk[:32]), "other_pk": hexs(ppk), "other_sk_seed": hexs(psk[:32]),
		"m1": hexs(m1), "m2": hexs(m2), "m3": hexs(m3), "ref_proof_m1": hexs(ref1), "ref_proof_m2": hexs(ref2), "ref_proof_m3": hexs(ref3)}}
	if ref1 == nil || ref2 == nil || ref3 == nil || pref1 == nil || pref3 == nil {
		q.fail("C16/complete:prove-failed", "VRFGenProve failed on a fresh message")
		res.Count("pure:prove-failed", id([]byte("P"), pk, m1), false)
		return calls
	}
	name := map[string][]byte{"m1": m1, "m2": m2, "m3": m3}
	expectV := func(what string, k vrf.VRFPublicKey, pi, m []byte, want bool, keyAccept, keyReject string) {
		calls++
		cl := verifyClass(k, vrf.VRFProve(pi), m)
		q.step("VRFVerify(%s) -> %s (expected %s)", what, cl, map[bool]string{true: "accept", false: "reject"}[want])
		if want && cl != "accept" {
			q.fail(keyReject, "the honest proof of the message now in the buffer is not accepted ("+cl+") after the buffer was reused: "+what)
		} else if !want && cl == "accept" {
			q.fail(keyAccept, "a proof is accepted for content it was not made for after a buffer was changed in place: "+what)
		} else if cl == "panic" {
			q.fail("C16/mutation-panic:in-place", "VRFVerify panicked: "+what)
		}
	}
	expectP := func(what string, m, want []byte) {
		calls++
		got := proveGuard(pk, sk, m)
		q.step("VRFGenProve(%s) -> %s", what, hexs(got)[:min(16, 2*len(got))])
		if !bytes.Equal(got, want) {
			q.fail("C16/deterministic:prove-reused-message-buffer",
				fmt.Sprintf("VRFGenProve on a reused buffer returned %s, the proof generated for the same bytes from a fresh slice was %s: %s", hexs(got), hexs(want), what))
		}
	}

	// (b) one message buffer, overwritten in place, varying order of prove/verify and of keys
	buf := clone(m1)
	q.step("buf := copy(m1)")
	expectP("buf=m1", buf, ref1)
	for _, nm := range []string{"m2", "m1", "m3", "m2", "m1"} {
		copy(buf, name[nm])
		q.step("copy(buf, %s)  // same backing array", nm)
		want := map[string][]byte{"m1": ref1, "m2": ref2, "m3": ref3}[nm]
		if r.Intn(2) == 0 {
			expectP("buf="+nm, buf, want)
			expectV("pk, ref("+nm+"), buf="+nm, pk, want, buf, true, "", "C16/complete:verify-reused-message-buffer")
		} else {
			expectV("pk, ref("+nm+"), buf="+nm, pk, want, buf, true, "", "C16/complete:verify-reused-message-buffer")
			expectP("buf="+nm, buf, want)
		}
		other := ref1
		if nm == "m1" {
			other = ref2
		}
		expectV("pk, ref(other message), buf="+nm, pk, other, buf, false, "C16/mutation-accepted:message-in-place", "")
	}
	// verify after unrelated verifies: two keys sharing the buffer
	copy(buf, m3)
	q.step("copy(buf, m3)")
	expectV("other_pk, other_ref(m3), buf=m3", ppk, pref3, buf, true, "", "C16/complete:verify-reused-message-buffer")
	expectV("pk, ref(m3), buf=m3", pk, ref3, buf, true, "", "C16/complete:verify-reused-message-buffer")
	expectV("other_pk, ref(m3) of pk, buf=m3", ppk, ref3, buf, false, "C16/mutation-accepted:pubkey-in-place", "")
	copy(buf, m1)
	q.step("copy(buf, m1)")
	expectV("other_pk, other_ref(m1), buf=m1", ppk, pref1, buf, true, "", "C16/complete:verify-reused-message-buffer")
	expectV("other_pk, other_ref(m3), buf=m1", ppk, pref3, buf, false, "C16/mutation-accepted:message-in-place", "")
	expectV("pk, ref(m1), buf=m1", pk, ref1, buf, true, "", "C16/complete:verify-reused-message-buffer")

	// (a) in-place single-bit sweeps: message, proof, public key
	sweep := func(part string, target []byte, bits []int, call func() (string, bool)) {
		for n, b := range bits {
			target[b/8] ^= 1 << uint(b%8)
			q.step("%s[bit %d] flipped in place", part, b)
			calls++
			cl, _ := call()
			q.step("VRFVerify -> %s (expected reject)", cl)
			if cl == "accept" {
				q.in["bit"] = b
				q.fail("C16/mutation-accepted:"+part+"-in-place", "a single-bit mutant made in place (same backing array as the previous call) verifies")
			} else if cl == "panic" {
				q.fail("C16/mutation-panic:"+part+"-in-place", "VRFVerify panicked on an in-place mutant")
			}
			target[b/8] ^= 1 << uint(b%8)
			q.step("%s[bit %d] flipped back", part, b)
			if n%4 == 0 {
				calls++
				if cl, _ := call(); cl != "accept" {
					q.step("VRFVerify -> %s (expected accept)", cl)
					q.in["bit"] = b
					q.fail("C16/complete:verify-after-restore:"+part, "the honest proof is not accepted ("+cl+") after the buffer was restored in place")
				}
			}
		}
	}
	pick := func(n, k int) []int {
		if full {
			return allBits(n)
		}
		return someBits(r, n, k)
	}
	pbuf, kbuf := clone(ref1), clone(pk)
	sweep("message", buf, pick(8*L, 28), func() (string, bool) { return verifyClass(pk, ref1, buf), true })
	sweep("proof", pbuf, append(pick(640, 20), 255, 256, 383, 384, 639), func() (string, bool) { return verifyClass(pk, pbuf, buf), true })
	sweep("pubkey", kbuf, append(pick(256, 10), 255), func() (string, bool) { return verifyClass(kbuf, ref1, buf), true })
	// all three changed in place at once, then restored
	bm, bp := r.Intn(8*L), r.Intn(640)
	buf[bm/8] ^= 1 << uint(bm%8)
	pbuf[bp/8] ^= 1 << uint(bp%8)
	q.step("message bit %d and proof bit %d flipped in place", bm, bp)
	expectV("pk, pbuf, buf (both mutated)", pk, pbuf, buf, false, "C16/mutation-accepted:message-in-place", "")
	buf[bm/8] ^= 1 << uint(bm%8)
	pbuf[bp/8] ^= 1 << uint(bp%8)
	q.step("both flipped back")
	expectV("pk, pbuf, buf (restored)", pk, pbuf, buf, true, "", "C16/complete:verify-after-restore:message")
	expectP("buf=m1 (restored)", buf, ref1)

	// the calls must not write to their arguments
	if !bytes.Equal(pk, pk0) || !bytes.Equal(sk, sk0) || !bytes.Equal(buf, m1) || !bytes.Equal(pbuf, ref1) || !bytes.Equal(kbuf, pk0) {
		q.fail("C16/pure:argument-modified", "VRFGenProve/VRFVerify changed one of their arguments")
	}
	cls := "pure:in-place+reordered"
	if full {
		cls = "pure:in-place-all-bits+reordered"
	}
	res.Count(cls, id([]byte("P"), pk, m1, m3), true)
	if i == 0 {
		res.Sample(map[string]interface{}{"kind": "pure", "calls": calls, "in": q.in, "last_calls": q.steps[len(q.steps)-6:]})
	}
	return calls
}

// ---- curve layer: values extracted from the real edwards25519 code for coq/C16/Curve.v ----
var cv *hx.Cases // cheap single-step cases
var cw *hx.Cases // whole verifications / subgroup checks: one case per shard

type kp struct {
	pk vrf.VRFPublicKey
	sk vrf.VRFPrivateKey
}

func feInt(f *edwards25519.FieldElement) *big.Int {
	var b [32]byte
	edwards25519.FeToBytes(&b, f)
	return leInt(b[:])
}

func ptTerm(p *edwards25519.ExtendedGroupElement) string {
	return fmt.Sprintf("(Q4 %s %s %s %s)", zlit(feInt(&p.X)), zlit(feInt(&p.Y)), zlit(feInt(&p.Z)), zlit(feInt(&p.T)))
}

func scalarBytes(k *big.Int) *[32]byte {
	var b [32]byte
	be := k.Bytes()
	for i := range be {
		b[i] = be[len(be)-1-i]
	}
	return &b
}

// the steps of ECVRFVerify with the same library calls, keeping the intermediate values
func verifyTrace(pk []byte, pi []byte, m []byte) (h, u, v [32]byte, cp [16]byte, ok bool) {
	var g, H, Y, sB, U, V edwards25519.ExtendedGroupElement
	var gb, pkb, c, sr [32]byte
	var s64 [64]byte
	copy(gb[:], pi[:32])
	if !ed25519.VerifStringToPoint(&g, gb) {
		return
	}
	copy(c[:], pi[32:48])
	copy(s64[:], pi[48:80])
	edwards25519.ScReduce(&sr, &s64)
	h = ed25519.VerifHashToCurve(m, ed25519.PublicKey(pk))
	H.FromBytes(&h)
	copy(pkb[:], pk)
	Y.FromBytes(&pkb)
	var cache edwards25519.CachedGroupElement
	var r edwards25519.CompletedGroupElement
	edwards25519.GeScalarMult(&Y, &c).ToCached(&cache)
	edwards25519.GeScalarMultBase(&sB, &sr)
	edwards25519.GeSub(&r, &sB, &cache)
	r.ToExtended(&U)
	edwards25519.GeScalarMult(&g, &c).ToCached(&cache)
	sH := edwards25519.GeScalarMult(&H, &sr)
	edwards25519.GeSub(&r, sH, &cache)
	r.ToExtended(&V)
	cp = ed25519.VerifHashPoints(H, g, U, V)
	U.ToBytes(&u)
	V.ToBytes(&v)
	return h, u, v, cp, true
}

func verifyCase(pk, pi, m []byte, kind string, sub bool) {
	h, u, v, cp, ok := verifyTrace(pk, pi, m)
	if !ok {
		return
	}
	cl := verifyClass(pk, pi, m)
	traceAccept := bytes.Equal(cp[:], pi[32:48])
	in := map[string]interface{}{"pk": hexs(pk), "proof": hexs(pi), "msg": hexs(m), "H": hexs(h[:]), "U": hexs(u[:]), "V": hexs(v[:]), "hashPoints": hexs(cp[:])}
	if traceAccept != (cl == "accept") {
		res.Violate("C16/model-tie:verify-trace", "VRFVerify says "+cl+" but the same steps taken one by one compare the challenge as "+fmt.Sprint(traceAccept), in)
	}
	res.Count("curve:verify-equations:"+kind+":"+cl, id([]byte("KV"), pk, pi, m), true)
	cw.Add(fmt.Sprintf("KV %s %s %s %s %s %s %s %s", hx.CoqHex(pk), hx.CoqHex(pi), hx.CoqHex(h[:]), hx.CoqHex(u[:]), hx.CoqHex(v[:]), hx.CoqHex(cp[:]),
		hx.CoqBool(cl == "accept"), hx.CoqBool(sub)), map[string]interface{}{"kind": "verify-equations", "origin": kind, "in": in, "verify": cl})
}

func curveSection(r *hx.Rng, keys []kp, thorough bool) {
	pfield, _ := new(big.Int).SetString("57896044618658097711785492504343953926634992332820282019728792003956564819949", 10)
	randPoint := func() *edwards25519.ExtendedGroupElement { // general Z, as the code produces it
		var p edwards25519.ExtendedGroupElement
		var k [64]byte
		copy(k[:], r.Bytes(64))
		var kr [32]byte
		edwards25519.ScReduce(&kr, &k)
		edwards25519.GeScalarMultBase(&p, &kr)
		return &p
	}
	torsionPoint := func(i int) *edwards25519.ExtendedGroupElement {
		var p edwards25519.ExtendedGroupElement
		var s [32]byte
		b, _ := hex.DecodeString(torsions[i%3].enc)
		copy(s[:], b)
		p.FromBytes(&s)
		return &p
	}
	// decompression: valid encodings, random strings, non-canonical y, x = 0 with the sign bit, torsion
	dec := func(s [32]byte, class string) {
		var p edwards25519.ExtendedGroupElement
		ok := p.FromBytes(&s)
		stp := ed25519.VerifStringToPoint(new(edwards25519.ExtendedGroupElement), s)
		if stp != ok {
			res.Violate("C16/model-tie:stringToPoint", "stringToPoint and FromBytes disagree (isCanonical is expected to be constant 1)", map[string]interface{}{"s": hexs(s[:])})
		}
		x, y := big.NewInt(0), big.NewInt(0)
		if ok {
			x, y = feInt(&p.X), feInt(&p.Y)
		}
		res.Count(fmt.Sprintf("curve:decompress:%s:%v", class, ok), id([]byte("KD"), s[:]), class != "random" || ok)
		cv.Add(fmt.Sprintf("KD %s %s %s %s", hx.CoqHex(s[:]), hx.CoqBool(ok), zlit(x), zlit(y)),
			map[string]interface{}{"kind": "decompress", "class": class, "s": hexs(s[:]), "ok": ok, "x": x.String(), "y": y.String()})
	}
	nd := 6
	if thorough {
		nd = 120
	}
	for i := 0; i < nd; i++ {
		var s [32]byte
		copy(s[:], r.Bytes(32))
		dec(s, "random")
		var t [32]byte
		randPoint().ToBytes(&t)
		dec(t, "valid")
	}
	for k := int64(0); k < 19; k += 1 + int64(r.Intn(4)) { // y = p + k, both sign bits
		for sign := 0; sign < 2; sign++ {
			y := new(big.Int).Add(pfield, big.NewInt(k))
			var s [32]byte
			copy(s[:], scalarBytes(y)[:])
			s[31] |= byte(sign) << 7
			dec(s, "non-canonical-y")
		}
	}
	for _, y := range []int64{0, 1, 2} { // y = 1: x = 0 (identity), also with the sign bit set; y = 0: x = +-sqrt(-1)
		for sign := 0; sign < 2; sign++ {
			var s [32]byte
			s[0] = byte(y)
			s[31] = byte(sign) << 7
			dec(s, "small-y")
		}
	}
	{
		ym1 := new(big.Int).Sub(pfield, big.NewInt(1)) // y = -1: the point of order 2
		var s [32]byte
		copy(s[:], scalarBytes(ym1)[:])
		dec(s, "small-y")
		s[31] |= 0x80
		dec(s, "small-y")
		for j := range s {
			s[j] = 0xff
		}
		dec(s, "non-canonical-y")
	}
	for i := range torsions {
		var s [32]byte
		torsionPoint(i).ToBytes(&s)
		dec(s, "torsion")
	}
	// single steps with exact coordinates: Double, GeSub, ToBytes
	ns := 40
	if thorough {
		ns = 600
	}
	for i := 0; i < ns; i++ {
		P, Q := randPoint(), randPoint()
		if i%5 == 0 { // P itself (P - P) or a torsion point as second operand
			if i%10 == 0 {
				Q = P
			} else {
				Q = torsionPoint(i / 5)
			}
		}
		var c edwards25519.CompletedGroupElement
		var R edwards25519.ExtendedGroupElement
		P.Double(&c)
		c.ToExtended(&R)
		cv.Add(fmt.Sprintf("KB %s %s", ptTerm(P), ptTerm(&R)), map[string]interface{}{"kind": "double"})
		var cache edwards25519.CachedGroupElement
		Q.ToCached(&cache)
		edwards25519.GeSub(&c, P, &cache)
		c.ToExtended(&R)
		cv.Add(fmt.Sprintf("KS %s %s %s", ptTerm(P), ptTerm(Q), ptTerm(&R)), map[string]interface{}{"kind": "sub"})
		res.Count("curve:double+sub", id([]byte("KS"), []byte(ptTerm(P)), []byte(ptTerm(Q))), true)
		if i%6 == 0 {
			var o [32]byte
			R.ToBytes(&o)
			cv.Add(fmt.Sprintf("KC %s %s", ptTerm(&R), hx.CoqHex(o[:])), map[string]interface{}{"kind": "compress", "out": hexs(o[:])})
		}
	}
	// scalar multiplication on short scalars (the windowed code against double-and-add)
	nm := 8
	if thorough {
		nm = 60
	}
	for i := 0; i < nm; i++ {
		k := new(big.Int).SetBytes(r.Bytes(1 + r.Intn(4)))
		if i%4 == 3 {
			k = big.NewInt(int64(r.Intn(17)))
		}
		P := randPoint()
		if i%4 == 1 {
			P = torsionPoint(i)
		}
		var o [32]byte
		edwards25519.GeScalarMult(P, scalarBytes(k)).ToBytes(&o)
		cv.Add(fmt.Sprintf("KM %s %s %s", ptTerm(P), zlit(k), hx.CoqHex(o[:])), map[string]interface{}{"kind": "scalarmult", "k": k.String(), "out": hexs(o[:])})
		var R edwards25519.ExtendedGroupElement
		edwards25519.GeScalarMultBase(&R, scalarBytes(k))
		R.ToBytes(&o)
		cv.Add(fmt.Sprintf("KG %s %s", zlit(k), hx.CoqHex(o[:])), map[string]interface{}{"kind": "scalarmult-base", "k": k.String(), "out": hexs(o[:])})
		res.Count("curve:scalarmult-short", id([]byte("KM"), k.Bytes(), []byte(ptTerm(P))), true)
	}
	// whole verifications: the equations of ECVRFVerify on honest, mutated and small-order-shifted proofs
	nv := 1
	if thorough {
		nv = 6
	}
	for i := 0; i < nv && i < len(keys); i++ {
		k := keys[i]
		m := r.Bytes(32)
		honest, _ := vrf.VRFGenProve(k.pk, k.sk, m)
		verifyCase(k.pk, honest, m, "honest", true)
		if thorough {
			verifyCase(k.pk, flip(honest, 32*8+r.Intn(48*8)), m, "mutant", false) // c or s changed: rejected, U and V still correspond
		}
		t := torsions[i%3]
		if sp, ok := shiftedProof(r, k.pk, k.sk, m, t); ok {
			verifyCase(k.pk, sp, m, "shifted-"+t.name, false)
			cw.Add(fmt.Sprintf("KT %s %s true true", hx.CoqHex(sp[:32]), hx.CoqHex(honest[:32])), map[string]interface{}{"kind": "torsion-shift", "gamma": hexs(sp[:32]), "honest_gamma": hexs(honest[:32]), "t": t.name})
			res.Count("curve:shifted-gamma-vs-honest:"+t.name, id([]byte("KT"), sp[:32], honest[:32]), true)
		}
		for j, t2 := range torsions {
			if sp, ok := shiftedProof(r, k.pk, k.sk, m, t2); ok && (thorough || j != i%3) {
				cv.Add(fmt.Sprintf("KT %s %s true false", hx.CoqHex(sp[:32]), hx.CoqHex(honest[:32])), map[string]interface{}{"kind": "torsion-shift", "gamma": hexs(sp[:32]), "honest_gamma": hexs(honest[:32]), "t": t2.name})
			}
		}
		cv.Add(fmt.Sprintf("KT %s %s false false", hx.CoqHex(honest[:32]), hx.CoqHex(honest[:32])), map[string]interface{}{"kind": "torsion-shift", "gamma": hexs(honest[:32])})
	}
}

// ---- header level: genVrfMsg / genProve / verifyBlockVRF on header objects the harness owns ----
func refVrfMsg(random []byte, delta int) []byte {
	msg := clone(random)
	for delta > 1 {
		delta--
		msg = base.Data2CommonHash(clone(msg)).Bytes()
	}
	return msg
}

type hdrSnap struct{ random, prove []byte }

func snapHeaders(pre, bh *types.BlockHeader) hdrSnap {
	s := hdrSnap{random: clone(pre.Random)}
	if bh != nil && bh.ProveValue != nil {
		s.prove = bh.ProveValue.Bytes()
	}
	return s
}

func headerSection(r *hx.Rng, keys []kp, thorough bool) {
	deltas := []int{0, 1, 2, 3, 10}
	// (1) genVrfMsg through the hook, repeatedly on the same Random slice
	nm := 6
	if thorough {
		nm = 60
	}
	for i := 0; i < nm; i++ {
		L := []int{32, 32, 32, 0, 20, 64, 33}[i%7]
		R := r.Bytes(L)
		buf := make([]byte, L, L+64) // spare capacity: an append-based implementation may write behind len
		copy(buf, R)
		for _, d := range append(deltas, -1, 2, 10, 1, 3) {
			want := refVrfMsg(R, d)
			got := clone(logical.VerifVRFGenVrfMsg(buf, d)) // the result may alias the argument (delta <= 1 returns it)
			in := map[string]interface{}{"random": hexs(R), "delta": d, "buffer_after": hexs(buf), "returned": hexs(got), "expected": hexs(want)}
			if !bytes.Equal(buf, R) {
				res.Violate("C16/pure:argument-modified:genVrfMsg", "genVrfMsg changed the Random bytes it was given", in)
				copy(buf, R)
			}
			if !bytes.Equal(got, want) {
				res.Violate("C16/deterministic:genVrfMsg", "genVrfMsg(random, delta) differs from the hash chain over the same bytes (repeated call on the same slice)", in)
			}
			if d >= -1 && L > 0 {
				cs.Add(fmt.Sprintf("CM %s %s %s", hx.CoqHex(R), zlit(big.NewInt(int64(d))), hx.CoqHex(got)), map[string]interface{}{"kind": "vrf-msg", "in": in})
			}
		}
		res.Count("header:genVrfMsg", id([]byte("M"), R), true)
	}
	// (2) genProve twice and verifyBlockVRF twice on the SAME header objects, verifier with its own copy
	nh := 12
	if thorough {
		nh = 150
	}
	t0 := time.Unix(1700000000, 0)
	for i := 0; i < nh && i < len(keys); i++ {
		k := keys[i]
		R := r.Bytes(32)
		d := []int{1, 2, 3, 10, 2, 3}[i%6]
		castTime := t0.Add(time.Duration(d-1)*time.Duration(model.MAX_GROUP_BLOCK_TIME)*time.Second + 300*time.Millisecond)
		miner := &model.SelfMinerInfo{VrfSK: k.sk, MinerInfo: model.MinerInfo{VrfPK: k.pk, WorkingMiners: 0}}
		baseBH := &types.BlockHeader{Random: clone(R), CurTime: t0, Height: 5, TotalQN: 7}
		in := map[string]interface{}{"pk": hexs(k.pk), "sk_seed": hexs(k.sk[:32]), "random": hexs(R), "delta": d, "totalStake": 1}
		var seq []string
		fail := func(key, what string) {
			in2 := map[string]interface{}{"call_sequence": append([]string{}, seq...)}
			for a, b := range in {
				in2[a] = b
			}
			res.Violate(key, what, in2)
		}
		wantMsg := refVrfMsg(R, d)
		wantPi := proveGuard(clone(k.pk), clone(k.sk), wantMsg)
		var pis [][]byte
		var qns []uint64
		for rep := 0; rep < 2; rep++ {
			pi, qn, err := logical.VerifVRFGenProve(miner, baseBH, 6, castTime, 1)
			seq = append(seq, fmt.Sprintf("genProve(baseBH, castTime=t0+%v, totalStake=1) -> %s.. qn=%d err=%v", castTime.Sub(t0), hexs(pi)[:min(16, 2*len(pi))], qn, err))
			if !bytes.Equal(baseBH.Random, R) {
				fail("C16/pure:argument-modified:genVrfMsg", "genProve changed baseBH.Random")
				baseBH.Random = clone(R)
			}
			if err != nil || !bytes.Equal(pi, wantPi) {
				fail("C16/deterministic:genProve", fmt.Sprintf("genProve on the same base header returned %s, the proof for H^(delta-1)(Random) from fresh slices is %s", hexs(pi), hexs(wantPi)))
			}
			pis, qns = append(pis, pi), append(qns, qn)
		}
		if len(pis) == 2 && (!bytes.Equal(pis[0], pis[1]) || qns[0] != qns[1]) {
			fail("C16/deterministic:genProve", "two genProve calls for the same base header and cast time differ")
		}
		// the verifier holds its own copy of the parent header; the block carries the honest proof
		okV, qnV, _ := validate(wantPi, 5, 0, 1)
		pre := &types.BlockHeader{Random: clone(R), CurTime: t0, Height: 5, TotalQN: 7}
		bh := &types.BlockHeader{ProveValue: vrf.VRFProve(wantPi).Big(), CurTime: castTime, Height: 6, TotalQN: 7 + qnV}
		castor := &model.MinerInfo{VrfPK: k.pk, WorkingMiners: 0}
		before := snapHeaders(pre, bh)
		for rep := 0; rep < 2; rep++ {
			ok, err := logical.VerifVRFVerifyBlockVRF(bh, pre, castor, 1)
			seq = append(seq, fmt.Sprintf("verifyBlockVRF(bh, preBH, castor, 1) -> %v %v", ok, err))
			after := snapHeaders(pre, bh)
			if !bytes.Equal(after.random, before.random) || !bytes.Equal(after.prove, before.prove) {
				fail("C16/pure:argument-modified:genVrfMsg", "verifyBlockVRF changed the headers it was given (preBH.Random / bh.ProveValue)")
				pre.Random = clone(R)
			}
			if okV && !ok {
				fail("C16/complete:verifyBlockVRF-repeated", fmt.Sprintf("the honest, qualified proof is rejected by verifyBlockVRF on call %d for the same header pair: %v", rep+1, err))
			}
		}
		res.Count(fmt.Sprintf("header:genProve+verifyBlockVRF:delta%d", d), id([]byte("H"), k.pk, R, []byte{byte(d)}), true)
		if i == 0 {
			res.Sample(map[string]interface{}{"kind": "header", "in": in, "calls": seq})
		}

		// (3) over-long prove values: acceptance at header level => the lottery value and qn the logical
		// side derives from the SAME header value are those of the honest proof
		honestOut := clone(vrf.VRFProof2Hash(wantPi))
		_, honestQn, _ := validate(wantPi, 5, 0, 1)
		mk := func(kind string, b []byte) {
			pv := new(big.Int).SetBytes(b)
			carried := pv.Bytes()
			bh2 := &types.BlockHeader{ProveValue: pv, CurTime: castTime, Height: 6}
			ok2, qn2, p2 := validate(carried, 5, 0, 1)
			bh2.TotalQN = 7 + qn2
			pre2 := &types.BlockHeader{Random: clone(R), CurTime: t0, Height: 5, TotalQN: 7}
			acc, _ := logical.VerifVRFVerifyBlockVRF(bh2, pre2, castor, 1)
			direct := verifyClass(k.pk, carried, wantMsg)
			out := clone(vrf.VRFProof2Hash(vrf.VRFProve(padded(carried))))
			hv := helperValue(pv)
			in3 := map[string]interface{}{"pk": hexs(k.pk), "random": hexs(R), "delta": d, "honest_proof": hexs(wantPi), "prove_value_bytes": hexs(carried),
				"kind": kind, "verifyBlockVRF": acc, "VRFVerify": direct, "lottery_value": hexs(out), "honest_lottery_value": hexs(honestOut), "qn": qn2, "honest_qn": honestQn}
			if (acc || direct == "accept") && (!bytes.Equal(out, honestOut) || qn2 != honestQn || !ok2 || p2 != nil) {
				res.Violate("C16/output-unique:overlong-prove-value", "a header prove value of "+fmt.Sprint(len(carried))+" bytes is accepted (verifyBlockVRF/VRFVerify) while the "+
					"lottery value / qn read from the same value differ from those of the honest proof for this key and message", in3)
			}
			if (acc || direct == "accept") && len(carried) >= 32 && hv.Cmp(new(big.Int).SetBytes(honestOut)) != 0 {
				res.Violate("C16/output-unique:overlong-prove-value", "accepted over-long prove value: VRFProve2Value reports a different lottery value than the honest proof", in3)
			}
			if acc != (direct == "accept" && ok2) {
				res.Violate("C16/model-tie:verifyBlockVRF", "verifyBlockVRF differs from VRFVerify && validateProve on the same header value", in3)
			}
			res.Count(fmt.Sprintf("overlong:%s:accepted=%v", kind, acc), id([]byte("O"), carried, k.pk), true)
			cs.Add(fmt.Sprintf("CO %s %s", hx.CoqHex(carried), hx.CoqHex(out)), map[string]interface{}{"kind": "overlong", "in": in3})
		}
		// (4) adversarial headers: every field the VRF path reads or might read is changed on an honest
		// pair; verifyBlockVRF must accept exactly when the carried proof verifies, under the castor's key,
		// for the message determined by (preBH.Random, preBH.CurTime, bh.CurTime), qualifies, and TotalQN fits
		if i < 6 || thorough {
			step := time.Duration(model.MAX_GROUP_BLOCK_TIME) * time.Second
			proofs := map[int][]byte{}
			for _, dd := range []int{1, 2, 3, 10} {
				proofs[dd] = proveGuard(clone(k.pk), clone(k.sk), refVrfMsg(R, dd))
			}
			pair := func(pi []byte) (*types.BlockHeader, *types.BlockHeader, *model.MinerInfo) {
				_, q, _ := validate(pi, 6, 0, 1)
				p := &types.BlockHeader{Random: clone(R), CurTime: t0, Height: 5, TotalQN: 7}
				b := &types.BlockHeader{ProveValue: new(big.Int).SetBytes(pi), CurTime: castTime, PreTime: t0, Height: 6, TotalQN: 7 + q, Castor: []byte{1, 2, 3}}
				return b, p, &model.MinerInfo{VrfPK: clone(k.pk), WorkingMiners: 0}
			}
			check := func(field, note string, b, p *types.BlockHeader, c *model.MinerInfo) {
				carried := b.ProveValue.Bytes()
				dExp := logical.CalDeltaByTime(b.CurTime, p.CurTime)
				okv, qn, pn := validate(carried, b.Height, c.WorkingMiners, 1)
				vcl := verifyClass(c.VrfPK, carried, refVrfMsg(p.Random, dExp))
				expected := pn == nil && vcl == "accept" && okv && b.TotalQN == qn+p.TotalQN
				got, perr := func() (g bool, e interface{}) {
					defer func() {
						if x := recover(); x != nil {
							e = x
						}
					}()
					g, _ = logical.VerifVRFVerifyBlockVRF(b, p, c, 1)
					return
				}()
				res.Count(fmt.Sprintf("adversarial-header:%s:accepted=%v", field, got), id([]byte("A"), k.pk, R, []byte(field+note)), true)
				if got != expected || perr != nil {
					res.Violate("C16/message-binding:header-field:"+field,
						fmt.Sprintf("verifyBlockVRF returns %v (panic %v) but the carried proof %s for the message of delta=%d from (preBH.Random, preBH.CurTime, bh.CurTime), qualified=%v, TotalQN fits=%v: %s",
							got, perr, map[bool]string{true: "verifies", false: "does not verify"}[vcl == "accept"], dExp, okv, b.TotalQN == qn+p.TotalQN, note),
						map[string]interface{}{"pk": hexs(k.pk), "sk_seed": hexs(k.sk[:32]), "random": hexs(p.Random), "honest_delta": d, "prove_value": hexs(carried),
							"bh.CurTime-t0": b.CurTime.Sub(t0).String(), "bh.PreTime-t0": b.PreTime.Sub(t0).String(), "bh.PreTime.IsZero": b.PreTime.IsZero(), "preBH.CurTime-t0": p.CurTime.Sub(t0).String(),
							"bh.Height": b.Height, "bh.TotalQN": b.TotalQN, "preBH.TotalQN": p.TotalQN, "mutated_field": field, "expected_accept": expected})
				}
			}
			b, p, c := pair(wantPi)
			check("none", "honest pair", b, p, c)
			for _, dd := range []int{1, 2, 3, 10} {
				if dd == d {
					continue
				}
				// a proof for another delta, with bh.PreTime chosen so that (bh.CurTime - bh.PreTime) gives that delta
				b, p, c = pair(proofs[dd])
				b.PreTime = b.CurTime.Add(-time.Duration(dd-1)*step - 300*time.Millisecond)
				check("PreTime", fmt.Sprintf("proof for delta %d, PreTime set to match it", dd), b, p, c)
				b, p, c = pair(proofs[dd])
				check("ProveValue", fmt.Sprintf("proof for delta %d, honest times", dd), b, p, c)
				// the same proof IS the right one when bh.CurTime really moves
				b, p, c = pair(proofs[dd])
				b.CurTime = t0.Add(time.Duration(dd-1)*step + 300*time.Millisecond)
				check("CurTime", fmt.Sprintf("bh.CurTime moved to delta %d with the proof for it", dd), b, p, c)
				b, p, c = pair(wantPi)
				b.CurTime = t0.Add(time.Duration(dd-1)*step + 300*time.Millisecond)
				check("CurTime", fmt.Sprintf("bh.CurTime moved to delta %d with the proof for delta %d", dd, d), b, p, c)
				b, p, c = pair(wantPi)
				p.CurTime = castTime.Add(-time.Duration(dd-1)*step - 300*time.Millisecond)
				check("preBH.CurTime", fmt.Sprintf("preBH.CurTime moved so that delta is %d", dd), b, p, c)
			}
			for _, pt := range []time.Time{{}, t0.Add(-step), t0.Add(step), t0.Add(3 * step), castTime, castTime.Add(step)} {
				b, p, c = pair(wantPi)
				b.PreTime = pt
				check("PreTime", "honest proof, bh.PreTime changed", b, p, c)
			}
			b, p, c = pair(wantPi)
			p.Random = flip(p.Random, r.Intn(256))
			check("preBH.Random", "one bit of preBH.Random flipped", b, p, c)
			b, p, c = pair(wantPi)
			b.Height += uint64(1 + r.Intn(1000))
			check("Height", "bh.Height changed (no difficulty switch with workingMiners = 0)", b, p, c)
			b, p, c = pair(wantPi)
			b.Castor = []byte{9, 9}
			check("Castor", "bh.Castor changed (the castor's MinerInfo is passed by the caller)", b, p, c)
			b, p, c = pair(wantPi)
			c.VrfPK = flip(c.VrfPK, r.Intn(256))
			check("castor.VrfPK", "one bit of the castor's VRF key flipped", b, p, c)
			b, p, c = pair(flip(wantPi, r.Intn(640)))
			check("ProveValue", "one bit of the prove value flipped", b, p, c)
			b, p, c = pair(wantPi)
			b.TotalQN++
			check("TotalQN", "bh.TotalQN + 1", b, p, c)
			b, p, c = pair(wantPi)
			p.TotalQN++
			check("preBH.TotalQN", "preBH.TotalQN + 1", b, p, c)
			// CalDeltaByTime against the model (incl. negative intervals)
			for _, ms := range []int64{0, 300, 1999, 2000, 2001, 3999, 4000, 18300, -1, -1999, -2000, -4001, int64(r.Intn(100000)) - 30000} {
				a1 := t0.Add(time.Duration(ms) * time.Millisecond)
				cs.Add(fmt.Sprintf("CDt %s %s %s", zlit(big.NewInt(a1.UnixNano())), zlit(big.NewInt(t0.UnixNano())), zlit(big.NewInt(int64(logical.CalDeltaByTime(a1, t0))))),
					map[string]interface{}{"kind": "delta", "after-before_ms": ms})
			}
		}

		nl := 3
		if thorough {
			nl = 8
		}
		for j := 0; j < nl; j++ {
			n := 1 + r.Intn(80)
			if j == 0 {
				n = 1
			}
			junk := r.Bytes(n)
			if junk[0] == 0 {
				junk[0] = 1
			}
			mk("suffix-junk", append(clone(wantPi), junk...))
			mk("prefix-junk", append(clone(junk), wantPi...))
			kk := new(big.Int).SetBytes(junk)
			sum := new(big.Int).Add(new(big.Int).SetBytes(wantPi), new(big.Int).Lsh(kk, 640))
			mk("plus-k-2^640", sum.Bytes())
			if j == 1 {
				mk("prefix+suffix", append(append(clone(junk[:1]), wantPi...), junk...))
				mk("exact-80", clone(wantPi))
			}
		}
	}
}

// ---- the qualification grid ----
func exactQn(v *big.Int, h, wm, ts uint64, thr uint64) (ok bool, qn int64, nearBelow bool) {
	// independent exact-arithmetic evaluation of the rule (big.Int only); qn = -1: division by zero,
	// -2: outside the range where the float path is defined (negative stake numerator)
	if ts == 0 {
		return false, 0, false
	}
	idx := uint64(model.Param.PotentialProposalIndex)
	pp := ts * idx / 100
	if pp < model.Param.PotentialProposal {
		pp = model.Param.PotentialProposal
	}
	if pp > model.Param.PotentialProposalMax {
		pp = model.Param.PotentialProposalMax
	}
	d := uint64(1)
	if wm != 0 && h > thr {
		d = ts / wm
	}
	snum := big.NewInt(int64(d * pp))
	f := float64(ts)
	sden, _ := new(big.Float).SetFloat64(f).Int(nil)
	ok = new(big.Int).Mul(v, sden).Cmp(new(big.Int).Mul(snum, max256)) < 0
	cn, cd := snum, sden
	if snum.Cmp(sden) > 0 {
		cn, cd = big.NewInt(1), big.NewInt(1)
	}
	if cn.Sign() == 0 {
		return ok, -1, false
	}
	if cn.Sign() < 0 {
		return ok, -2, false
	}
	num := new(big.Int).Mul(new(big.Int).Mul(v, big.NewInt(int64(model.Param.MaxQN))), cd)
	den := new(big.Int).Mul(max256, cn)
	q := new(big.Int).Div(num, den)
	q.Add(q, big.NewInt(1)) // floor + 1 = the next integer above ratio/step
	if !q.IsInt64() {
		return ok, -2, false
	}
	// is ratio/step within 2^-50 (relative) below that integer? only then may float64 rounding reach it
	gap := new(big.Int).Sub(new(big.Int).Mul(q, den), num)
	nearBelow = new(big.Int).Lsh(gap, 50).Cmp(new(big.Int).Mul(q, den)) < 0
	return ok, q.Int64(), nearBelow
}

var zeroRatioPanics int

func isPoint(v32 []byte) bool {
	var s [32]byte
	copy(s[:], v32)
	var p edwards25519.ExtendedGroupElement
	return ed25519.VerifStringToPoint(&p, s)
}

func qnCase(v *big.Int, tail []byte, h, wm, ts, thr uint64, tag string) {
	vb := v.Bytes()
	pi := make([]byte, 32, 80)
	copy(pi[32-len(vb):], vb)
	pi = append(pi, tail...)
	send := pi
	if tag == "stripped" {
		send = new(big.Int).SetBytes(pi).Bytes()
	}
	ok, qn, p := validate(send, h, wm, ts)
	eok, eq, near := exactQn(v, h, wm, ts, thr)
	maxqn := uint64(model.Param.MaxQN)
	in := map[string]interface{}{"value": hexs(pi[:32]), "proof": hexs(send), "height": h, "workingMiners": wm, "totalStake": ts,
		"value_is_curve_point": isPoint(pi[:32]), "exact_qn": eq}
	class := "qn:rejected"
	nontrivial := false
	qz := new(big.Int).SetUint64(qn)
	switch {
	case p != nil:
		class = "qn:panic"
		qz = big.NewInt(-1)
		nontrivial = true
		if ts != 0 && eq != -1 {
			res.Violate("C16/qn-total:panic", fmt.Sprintf("validateProve panicked: %v", p), in)
		} else {
			zeroRatioPanics++
			if wm > ts && h > thr {
				res.Violate("C16/qn-total:zero-stake-ratio-panic", fmt.Sprintf("validateProve panics (%v): totalStake %d < workingMiners %d above the difficulty switch height "+
					"gives difficulty 0, stake ratio 0, and calQn divides by a zero step", p, ts, wm), in)
			} else {
				res.Violate("C16/qn-total:panic", fmt.Sprintf("validateProve panicked with a zero stake ratio outside totalStake < workingMiners: %v", p), in)
			}
		}
	case ok:
		nontrivial = true
		class = fmt.Sprintf("qn:accepted:%d", min(int(qn), int(maxqn)+2))
		if qn < 1 || qn > maxqn {
			in["ok"], in["qn"] = ok, qn
			switch {
			case eq == int64(maxqn) && qn == maxqn+1 && near:
				res.Violate("C16/qn-range:float-rounding",
					fmt.Sprintf("validateProve accepts and returns qn=%d (MaxQN=%d); exact arithmetic gives %d: Float64(ratio/step) rounded up", qn, maxqn, eq), in)
			case v.Cmp(max256) == 0:
				res.Violate("C16/qn-range:max-value",
					fmt.Sprintf("validateProve accepts value ff..ff with stake ratio > 1 and returns qn=%d (MaxQN=%d)", qn, maxqn), in)
			default:
				res.Violate("C16/qn-range:other", fmt.Sprintf("accepted with qn=%d outside 1..%d (exact %d)", qn, maxqn, eq), in)
			}
		}
		if ok != eok {
			res.Violate("C16/qn-ok:differs-from-exact", "ok flag differs from the exact-arithmetic comparison", in)
		}
		// inside the range the float path may only differ from the exact rule by rounding up onto the next step
		if eq >= 0 && int64(qn) != eq && !(int64(qn) == eq+1 && near) {
			in["ok"], in["qn"] = ok, qn
			res.Violate("C16/qn-value:differs-from-exact", fmt.Sprintf("accepted with qn=%d, the exact rule floor(ratio/step)+1 gives %d", qn, eq), in)
		} else if eq >= 0 && int64(qn) == eq+1 {
			class += ":rounded-up"
		}
	}
	if p == nil && ok2det(send, h, wm, ts, ok, qn) {
		res.Violate("C16/qn-function:nondeterministic", "two evaluations of validateProve on equal arguments differ", in)
	}
	res.Count(class, id([]byte("Q"), send, []byte(fmt.Sprint(h, wm, ts))), nontrivial)
	if class == "qn:accepted:6" || class == "qn:panic" {
		res.Sample(map[string]interface{}{"kind": "qn", "in": in, "ok": ok, "qn": qz.String()})
	}
	pterm := fmt.Sprintf("(P %d %d %d %d %s)", model.Param.MaxQN, model.Param.PotentialProposal, model.Param.PotentialProposalMax,
		model.Param.PotentialProposalIndex, ulit(thr))
	cs.Add(fmt.Sprintf("CQ %s %s %s %s %s %s %s (%d)%%Z", pterm, hx.CoqHex(send), ulit(h), ulit(wm), ulit(ts), hx.CoqBool(ok), zlit(qz), eq),
		map[string]interface{}{"kind": "qn", "tag": tag, "in": in, "ok": ok, "qn": qz.String()})
}

func ok2det(pi []byte, h, wm, ts uint64, ok bool, qn uint64) bool {
	ok2, qn2, p := validate(pi, h, wm, ts)
	return p != nil || ok2 != ok || qn2 != qn
}

func min(a, b int) int {
	if a < b {
		return a
	}
	return b
}

func main() {
	a := hx.ParseArgs()
	reexecUnderGorace(a.Out)
	r := hx.NewRng(a.Seed)
	thorough := a.Tier == "thorough"
	if thorough {
		honestModelMax = 1500
	}
	res = hx.NewResult("a VRF case counts when the honest proof verified and its mutants were evaluated; a transport case counts when " +
		"the proof encoding starts with >= 1 zero byte; an adversarial case counts when a shifted proof was built; a qn case counts when " +
		"validateProve accepted or panicked; an isCanonical case counts when the input is a non-reduced encoding; a scalar case counts when " +
		"s = (c*x+k) mod ell was compared for an honest proof and s + j*ell was submitted to VRFVerify; a purity case counts when the in-place/reordered " +
		"call sequence of one key was run to the end; a worker-history case counts per worker object driven through a non-monotone delta schedule; a key-transport case counts per key sent through hex text / the miner record, and per genesis proposer key; a concurrency case counts per goroutine that ran its loop; an adversarial-header case counts per mutated header pair sent through verifyBlockVRF; a header case counts when genVrfMsg / genProve / verifyBlockVRF were run repeatedly on the same header objects or an over-long prove value " +
		"went through verifyBlockVRF; a curve case counts when values extracted from edwards25519 (decompression of a non-random or valid string, " +
		"Double/GeSub coordinates, short scalar mults, the U/V of a whole verification, shifted vs honest Gamma) were handed to the curve model")
	cs = hx.NewCases(a.Out, "From V.C16 Require Import Model Harness.", "case", "check", 300)
	cv = hx.NewCasesNamed(a.Out, "curve", "From V.C16 Require Import Curve CurveHarness.", "ccase", "check", 30)
	cw = hx.NewCasesNamed(a.Out, "vrfeq", "From V.C16 Require Import Curve CurveHarness.", "ccase", "check", 1)

	// real configuration: dev chain config, consensus parameters through InitParam
	common.Init(0, "c16.ini", "dev")
	logical.InitConsensus()
	thr := common.LocalChainConfig.Proposal025Block + common.GetRewardBlocks()
	res.Note(fmt.Sprintf("params: MaxQN=%d PotentialProposal=%d..%d index=%d difficulty switch above height %d",
		model.Param.MaxQN, model.Param.PotentialProposal, model.Param.PotentialProposalMax, model.Param.PotentialProposalIndex, thr))
	if model.Param.MaxQN < 1 {
		res.Violate("C16/qn-range:config", "MaxQN < 1", nil)
	}

	// ---------- 1. honest proofs: completeness, determinism, mutations, transport ----------
	t0 := time.Now()
	fullSweeps := 12
	if thorough {
		fullSweeps = 150
	}
	mutants := 0
	var keys []kp
	for i := 0; i < a.N; i++ {
		pk, sk, err := vrf.VRFGenerateKey(bytes.NewReader(r.Bytes(32)))
		if err != nil {
			panic(err)
		}
		keys = append(keys, kp{pk, sk})
		var m []byte
		switch r.Intn(6) {
		case 0:
			m = r.Bytes(r.Intn(5)) // may be empty
		case 1:
			m = r.Bytes(33 + r.Intn(100))
		default:
			m = logical.VerifVRFGenVrfMsg(r.Bytes(32), 1+r.Intn(3)) // what the node signs: a hash chain over Random
		}
		in := map[string]interface{}{"pk": hexs(pk), "sk_seed": hexs(sk[:32]), "msg": hexs(m)}
		pi, err := vrf.VRFGenProve(pk, sk, m)
		if err != nil || len(pi) != ed25519.ProveSize {
			res.Violate("C16/complete:prove-failed", fmt.Sprintf("VRFGenProve failed: %v (len %d)", err, len(pi)), in)
			res.Count("vrf:prove-failed", id(pk, m), false)
			continue
		}
		in["proof"] = hexs(pi)
		pi2, _ := vrf.VRFGenProve(pk, sk, m)
		if !bytes.Equal(pi, pi2) {
			res.Violate("C16/deterministic:prove", "two VRFGenProve calls on equal inputs differ", in)
		}
		cl := verifyClass(pk, pi, m)
		if cl != "accept" {
			res.Violate("C16/complete:honest-proof-rejected", "VRFVerify on the honest proof: "+cl, in)
			res.Count("vrf:honest-rejected", id(pk, m), false)
			continue
		}
		if len(vrf.VRFProof2Hash(pi)) != 32 {
			res.Violate("C16/output:shape", "VRFProof2Hash is not a 32-byte value", in)
		}
		var n int
		if i < fullSweeps {
			n = mutate(pk, pi, m, allBits(640), allBits(8*len(m)), allBits(256))
			res.Count("vrf:honest+all-bit-mutants", id(pk, m), true)
		} else {
			n = mutate(pk, pi, m, append(someBits(r, 640, 10), 255, 256, 383, 384, 639), someBits(r, 8*len(m), 4), append(someBits(r, 256, 4), 255))
			res.Count("vrf:honest+sampled-mutants", id(pk, m), true)
		}
		mutants += n
		transportCase(pk, pi, m, true, "honest")
		if i < 200 || (thorough && i < 2000) {
			scalarCase(pk, sk, pi, m)
		}
		if i < 3 {
			res.Sample(map[string]interface{}{"kind": "vrf", "in": in, "verify": cl, "mutants_rejected": n})
		}
	}
	res.Note(fmt.Sprintf("%d single-bit mutants evaluated (%d full sweeps of all 640+|m|+256 bits) in %.1fs", mutants, min(fullSweeps, a.N), time.Since(t0).Seconds()))

	// ---------- 2. search for honest proofs whose encoding starts with zero bytes ----------
	t0 = time.Now()
	tries, want1, want2 := 4000, 6, 0
	if thorough {
		tries, want1, want2 = 400000, 40, 1
	}
	found := map[int]int{}
	used := 0
	for i := 0; i < tries && (found[1] < want1 || found[2] < want2); i++ {
		k := keys[i%len(keys)]
		m := r.Bytes(32)
		pi, err := vrf.VRFGenProve(k.pk, k.sk, m)
		used++
		if err != nil || pi[0] != 0 {
			continue
		}
		lz := leadingZeros(pi)
		found[min(lz, 2)]++
		if lz == 1 && found[1] > want1 {
			continue
		}
		transportCase(k.pk, pi, m, true, "honest-search")
		mutants += mutate(k.pk, new(big.Int).SetBytes(pi).Bytes(), m, someBits(r, 8*(80-lz), 12), someBits(r, 256, 2), someBits(r, 256, 2))
	}
	res.Note(fmt.Sprintf("leading-zero search: %d proofs generated, %d with one leading zero byte, %d with two or more (%.1fs)", used, found[1], found[2], time.Since(t0).Seconds()))
	if found[1]+found[2] == 0 {
		res.Note("no honest proof with a leading zero byte found in this run; synthetic transport cases still cover the path")
	}

	// ---------- 3. synthetic transport cases: arbitrary 80-byte strings with 0..80 leading zero bytes ----------
	nsyn := 150
	if thorough {
		nsyn = 1500
	}
	for i := 0; i < nsyn; i++ {
		k := keys[r.Intn(len(keys))]
		pi := r.Bytes(80)
		z := []int{0, 1, 1, 2, 3, 5, 31, 32, 33, 47, 48, 49, 79, 80}[r.Intn(14)]
		for j := 0; j < z; j++ {
			pi[j] = 0
		}
		if i%7 == 0 { // a real Gamma with a zeroed prefix is not a point any more; also try honest proofs with zeroed tails
			h, _ := vrf.VRFGenProve(k.pk, k.sk, []byte{byte(i)})
			copy(pi, h)
			for j := 80 - z; j < 80 && j >= 0; j++ {
				pi[j] = 0
			}
		}
		transportCase(k.pk, pi, []byte{byte(i)}, false, "synthetic")
	}

	// ---------- 4. adversarial prover: small-order shift of Gamma ----------
	nadv := 25
	if thorough {
		nadv = 300
	}
	for i := 0; i < nadv && i < len(keys); i++ {
		k := keys[i]
		m := r.Bytes(32)
		honest, _ := vrf.VRFGenProve(k.pk, k.sk, m)
		for _, t := range torsions {
			pi, ok := shiftedProof(r, k.pk, k.sk, m, t)
			if !ok {
				res.Count("adversarial:"+t.name+":not-built", id(k.pk, m, []byte(t.name)), false)
				continue
			}
			cl := verifyClass(k.pk, pi, m)
			same := bytes.Equal(vrf.VRFProof2Hash(pi), vrf.VRFProof2Hash(honest))
			res.Count(fmt.Sprintf("adversarial:%s:%s:same-output=%v", t.name, cl, same), id(k.pk, m, pi), true)
			in := map[string]interface{}{"pk": hexs(k.pk), "sk_seed": hexs(k.sk[:32]), "msg": hexs(m), "honest_proof": hexs(honest), "shifted_proof": hexs(pi),
				"small_order_point": t.enc, "honest_output": hexs(vrf.VRFProof2Hash(honest)), "shifted_output": hexs(vrf.VRFProof2Hash(pi))}
			if cl == "accept" && !same {
				res.Violate("C16/output-unique:small-order-shift",
					"two proofs accepted for one key and message carry different VRFProof2Hash outputs (Gamma shifted by a point of "+t.name+")", in)
				if i == 0 {
					res.Sample(map[string]interface{}{"kind": "adversarial", "in": in, "verify": cl})
				}
				// the two outputs also give different qualification results
				o1, q1, _ := validate(honest, 1, 0, 10)
				o2, q2, _ := validate(pi, 1, 0, 10)
				if o1 != o2 || q1 != q2 {
					res.Count("adversarial:qualification-differs", id(k.pk, m, pi, []byte("q")), true)
				}
			}
		}
	}

	// ---------- 4b. purity under buffer reuse and call reordering ----------
	t0 = time.Now()
	npure, nfull := 40, 2
	if thorough {
		npure, nfull = 500, 25
	}
	pcalls := 0
	for i := 0; i < npure && i+1 < len(keys); i++ {
		k, pk2 := keys[i+1], keys[i]
		pcalls += pureCase(r, i, k.pk, k.sk, pk2.pk, pk2.sk, i < nfull)
	}
	res.Note(fmt.Sprintf("purity: %d prove/verify calls on reused buffers (in-place bit flips of message/proof/public key, message buffer overwritten, interleaved keys) "+
		"against references fixed beforehand, %d keys, %d with all bits (%.1fs)", pcalls, min(npure, len(keys)-1), min(nfull, npure), time.Since(t0).Seconds()))

	// ---------- 5. qualification rule over a stake x height x value grid ----------
	maxqn := int64(model.Param.MaxQN)
	stakes := []uint64{0, 1, 2, 3, 4, 5, 6, 10, 14, 15, 16, 20, 24, 25, 26, 30, 99, 100, 1000, 12345, 1000000, 1<<53 - 1, 1 << 53, 1<<53 + 1, 1<<53 + 3, 1 << 63, 1<<64 - 1}
	nq := 500
	if thorough {
		nq = 9000
	}
	tail := make([]byte, 48)
	for i := 0; i < nq; i++ {
		var ts uint64
		if r.Intn(4) == 0 {
			ts = r.U64() >> uint(r.Intn(64))
		} else {
			ts = stakes[r.Intn(len(stakes))]
		}
		var wm uint64
		switch r.Intn(8) {
		case 0:
			wm = 0
		case 1:
			wm = ts
		case 2:
			wm = ts + 1 // difficulty 0 above the switch height
		case 3:
			wm = uint64(r.Intn(1000)) + 1
		default:
			wm = uint64(r.Intn(7)) + 1
		}
		h := []uint64{0, 1, thr - 1, thr, thr + 1, thr + 1, thr + 12345, 1<<64 - 1}[r.Intn(8)]
		// the threshold value for this stake ratio, from the exact rule
		_, _ = h, wm
		idx := uint64(model.Param.PotentialProposalIndex)
		pp := ts * idx / 100
		if pp < model.Param.PotentialProposal {
			pp = model.Param.PotentialProposal
		}
		if pp > model.Param.PotentialProposalMax {
			pp = model.Param.PotentialProposalMax
		}
		d := uint64(1)
		if wm != 0 && h > thr {
			d = ts / wm
		}
		var v *big.Int
		snum := int64(d * pp)
		sden, _ := new(big.Float).SetFloat64(float64(ts)).Int(nil)
		mode := r.Intn(10)
		switch {
		case mode == 0 || ts == 0 || snum <= 0:
			v = new(big.Int).SetBytes(r.Bytes(32))
			if r.Intn(4) == 0 {
				v.Rsh(v, uint(r.Intn(256)))
			}
		case mode == 1:
			v = []*big.Int{big.NewInt(0), big.NewInt(1), new(big.Int).Set(max256), new(big.Int).Sub(max256, big.NewInt(1)), new(big.Int).Sub(max256, big.NewInt(2))}[r.Intn(5)]
		default:
			// j/maxqn of the (clamped) stake ratio, +- a small delta: the qn steps and the acceptance threshold
			cn, cd := big.NewInt(snum), sden
			if cn.Cmp(cd) > 0 {
				cn, cd = big.NewInt(1), big.NewInt(1)
			}
			j := int64(r.Intn(int(maxqn) + 1))
			if r.Intn(3) == 0 {
				j = maxqn
			}
			v = new(big.Int).Mul(max256, cn)
			v.Mul(v, big.NewInt(j))
			v.Div(v, new(big.Int).Mul(cd, big.NewInt(maxqn)))
			delta := big.NewInt(int64(r.Intn(5)) - 3)
			if r.Intn(3) == 0 {
				delta.Lsh(big.NewInt(1), uint(140+r.Intn(80)))
				delta.Neg(delta)
			}
			v.Add(v, delta)
			if v.Sign() < 0 {
				v.SetInt64(0)
			}
			if v.Cmp(max256) > 0 {
				v.Set(max256)
			}
		}
		tag := "grid"
		tl := tail
		if r.Intn(10) == 0 {
			tl = r.Bytes(48)
		}
		if r.Intn(12) == 0 {
			tag = "stripped"
		}
		qnCase(v, tl, h, wm, ts, thr, tag)
	}
	// fixed replay of the model's witnesses and a boundary value that is a valid curve point
	qnCase(new(big.Int).Div(new(big.Int).Mul(max256, big.NewInt(3)), big.NewInt(10)), tail, 1, 0, 10, thr, "witness-float")
	qnCase(new(big.Int).Set(max256), bytes.Repeat([]byte{0xff}, 48), 1, 0, 2, thr, "witness-maxvalue")
	{
		v := new(big.Int).Div(new(big.Int).Mul(max256, big.NewInt(3)), big.NewInt(10))
		for j := 0; j < 200; j++ {
			vb := make([]byte, 32)
			v.FillBytes(vb)
			if isPoint(vb) {
				qnCase(v, tail, 1, 0, 10, thr, "witness-float-curve-point")
				break
			}
			v.Sub(v, big.NewInt(1))
		}
	}

	if zeroRatioPanics > 0 {
		res.Note(fmt.Sprintf("validateProve panicked (big.Rat division by zero in calQn) on %d grid points with totalStake < workingMiners above the difficulty "+
			"switch height; reported under C16/qn-total:zero-stake-ratio-panic (Coq: C16_qn_zero_ratio_panic_refuted / C16_qn_total_guarded)", zeroRatioPanics))
	}

	// ---------- 6. isCanonical ----------
	ncan := 60
	for i := 0; i < ncan; i++ {
		var s [32]byte
		copy(s[:], r.Bytes(32))
		nonred := false
		switch i % 4 {
		case 1: // y = p + small: non-reduced
			for j := range s {
				s[j] = 0xff
			}
			s[0] = 0xed + byte(r.Intn(19))
			s[31] = 0x7f | byte(r.Intn(2))<<7
			nonred = true
		case 2: // y = p - 1 - small: reduced
			for j := range s {
				s[j] = 0xff
			}
			s[0] = 0xec - byte(r.Intn(20))
			s[31] = 0x7f
		}
		got := ed25519.VerifIsCanonical(s)
		class := fmt.Sprintf("canonical:reduced:%d", got)
		if nonred {
			class = fmt.Sprintf("canonical:non-reduced:%d", got)
		}
		res.Count(class, id([]byte("C"), s[:]), nonred)
		cs.Add(fmt.Sprintf("CC %s %d%%N", hx.CoqHex(s[:]), got), map[string]interface{}{"kind": "canonical", "s": hexs(s[:]), "isCanonical": got, "non_reduced": nonred})
	}
	{
		var s [32]byte
		for j := range s {
			s[j] = 0xff
		}
		if ed25519.VerifIsCanonical(s) == 1 && isPoint(s[:]) {
			res.Note("isCanonical(ff..ff) = 1 and stringToPoint accepts it: the uint8-typed (c-1)>>8 and (0xed-1-s[0])>>8 are always 0 " +
				"(Coq: C16_is_canonical_go_const), so non-reduced Gamma/y encodings decode; this is what makes the value ff..ff reachable for validateProve")
		}
	}

	// ---------- 6b. header level: genVrfMsg, genProve, verifyBlockVRF, over-long prove values ----------
	t0 = time.Now()
	headerSection(r, keys, thorough)
	res.Note(fmt.Sprintf("header level: genVrfMsg on reused Random slices (delta 0,1,2,3,10), genProve and verifyBlockVRF twice on the same header objects, "+
		"over-long prove values (suffix junk, prefix junk, + k*2^640) through verifyBlockVRF (%.1fs)", time.Since(t0).Seconds()))

	// ---------- 6b'. worker history, key transport ----------
	workerHistorySection(r, keys, thorough)
	keyTransportSection(r, keys, thorough)

	// ---------- 6c. concurrency ----------
	concurrencySection(r, keys, thorough)

	// ---------- 7. curve layer ----------
	t0 = time.Now()
	curveSection(r, keys, thorough)
	res.Note(fmt.Sprintf("curve layer: %d single-step cases (decompress / Double / GeSub / ToBytes / short scalar mults) and %d whole-verification or subgroup cases extracted (%.1fs)",
		cv.Total(), cw.Total(), time.Since(t0).Seconds()))

	if raceEnabled {
		n := collectRaceReports(a.Out)
		res.Note(fmt.Sprintf("race detector active (GORACE halt_on_error=0): %d report(s) in total", n))
	}
	cs.Close()
	cv.Close()
	cw.Close()
	res.ModelCases = cs.Total() + cv.Total() + cw.Total()
	res.Write(a.Out)
	fmt.Printf("c16: evaluations=%d distinct_nontrivial=%d model_cases=%d violations=%d\n", res.Evaluations, res.DistinctNontrivial, res.ModelCases, len(res.Violations))
	for k, v := range res.Histogram {
		fmt.Printf("  %-60s %d\n", k, v)
	}
}
