// C16 harness, concurrency family and race-detector plumbing.
package main

import (
	"bytes"
	"fmt"
	"os"
	"os/exec"
	"path/filepath"
	"regexp"
	"sort"
	"strings"
	"sync"
	"time"

	"com.tuntun.rangers/node/src/consensus/vrf"
	"verif/harness/hx"
)

// A race-detector build re-executes itself with GORACE set (the driver does not pass it): reports go to
// <out>/race.<pid>, the run continues after a report, the exit code is the harness's own.
func reexecUnderGorace(out string) {
	if !raceEnabled || os.Getenv("C16_RACE_CHILD") != "" {
		return
	}
	cmd := exec.Command(os.Args[0], os.Args[1:]...)
	cmd.Env = append(os.Environ(), "C16_RACE_CHILD=1",
		"GORACE=halt_on_error=0 exitcode=0 history_size=5 log_path="+filepath.Join(out, "race"))
	cmd.Stdout, cmd.Stderr = os.Stdout, os.Stderr
	if err := cmd.Run(); err != nil {
		if ee, ok := err.(*exec.ExitError); ok {
			os.Exit(ee.ExitCode())
		}
		fmt.Println("re-exec failed:", err)
		os.Exit(2)
	}
	os.Exit(0)
}

var vrfFrame = regexp.MustCompile(`^\s+com\.tuntun\.rangers/node/src/(common/ed25519(?:/edwards25519)?|consensus/vrf|consensus/logical)\.(\(\*?[A-Za-z]+\)\.)?([A-Za-z0-9_]+)`)

// innermost frame of the VRF packages in one access stack ("" if none)
func innermostVrfFrame(stack []string) string {
	for _, l := range stack {
		if m := vrfFrame.FindStringSubmatch(l); m != nil {
			return filepath.Base(m[1]) + "." + m[3]
		}
	}
	return ""
}

// every detector report with a frame of ed25519 / consensus/vrf / logical on either side is a violation
func collectRaceReports(out string) (n int) {
	files, _ := filepath.Glob(filepath.Join(out, "race.*"))
	seen := map[string]bool{}
	for _, fn := range files {
		b, err := os.ReadFile(fn)
		if err != nil {
			continue
		}
		for _, rep := range strings.Split(string(b), "==================") {
			if !strings.Contains(rep, "WARNING: DATA RACE") {
				continue
			}
			n++
			paras := strings.Split(strings.TrimSpace(rep), "\n\n")
			var fs []string
			for i := 0; i < len(paras) && i < 2; i++ {
				if f := innermostVrfFrame(strings.Split(paras[i], "\n")); f != "" {
					fs = append(fs, f)
				}
			}
			if len(fs) == 0 {
				res.Histogram["race-report:harness-only"]++
				continue
			}
			sort.Strings(fs)
			key := "C16/data-race:" + strings.Join(fs, "|")
			res.Histogram["race-report:"+strings.Join(fs, "|")]++
			if seen[key] {
				continue
			}
			seen[key] = true
			txt := rep
			if len(txt) > 4000 {
				txt = txt[:4000]
			}
			res.Violate(key, "the race detector reports unsynchronised access inside the VRF code", map[string]interface{}{"report": txt})
		}
	}
	return n
}

// N goroutines, each with its OWN key, messages and buffers (nothing shared in the harness), looping
// prove / verify / validateProve; every result is compared with a reference computed sequentially before.
func concurrencySection(r *hx.Rng, keys []kp, thorough bool) {
	G, M, T := 6, 6, 260
	if thorough {
		G, M, T = 8, 8, 2500
	}
	if raceEnabled {
		T /= 4
	}
	if len(keys) < G {
		G = len(keys)
	}
	type job struct {
		pk   vrf.VRFPublicKey
		sk   vrf.VRFPrivateKey
		msgs [][]byte
		refs [][]byte
		vok  []bool
		vqn  []uint64
	}
	jobs := make([]*job, G)
	for g := 0; g < G; g++ {
		j := &job{pk: clone(keys[g].pk), sk: clone(keys[g].sk)}
		for i := 0; i < M; i++ {
			m := r.Bytes(32)
			pi := proveGuard(clone(j.pk), clone(j.sk), clone(m))
			ok, qn, _ := validate(clone(pi), 5, 0, uint64(1+i*7))
			j.msgs, j.refs, j.vok, j.vqn = append(j.msgs, m), append(j.refs, pi), append(j.vok, ok), append(j.vqn, qn)
		}
		jobs[g] = j
	}
	type failure struct {
		what string
		in   map[string]interface{}
	}
	fails := make([][]failure, G)
	calls := make([]int, G)
	var wg sync.WaitGroup
	start := make(chan struct{})
	t0 := time.Now()
	for g := 0; g < G; g++ {
		wg.Add(1)
		go func(g int) {
			defer wg.Done()
			j := jobs[g]
			add := func(what string, i int, extra map[string]interface{}) {
				if len(fails[g]) >= 3 {
					return
				}
				in := map[string]interface{}{"goroutine": g, "goroutines": G, "pk": hexs(j.pk), "sk_seed": hexs(j.sk[:32]), "msg": hexs(j.msgs[i]), "reference_proof": hexs(j.refs[i])}
				for k, v := range extra {
					in[k] = v
				}
				fails[g] = append(fails[g], failure{what, in})
			}
			defer func() {
				if p := recover(); p != nil {
					add(fmt.Sprintf("panic in a goroutine: %v", p), 0, nil)
				}
			}()
			<-start
			for it := 0; it < T; it++ {
				i := it % M
				m, ref := clone(j.msgs[i]), clone(j.refs[i])
				pi := proveGuard(j.pk, j.sk, m)
				calls[g]++
				if !bytes.Equal(pi, j.refs[i]) {
					add("VRFGenProve returned different bytes than the sequential reference for the same key and message", i, map[string]interface{}{"got": hexs(pi), "iteration": it})
				}
				cl := verifyClass(j.pk, ref, m)
				calls[g]++
				if cl != "accept" {
					add("the honest proof is not accepted ("+cl+") while other goroutines prove/verify with their own keys", i, map[string]interface{}{"iteration": it})
				}
				o := (i + 1) % M
				if cl2 := verifyClass(j.pk, clone(j.refs[o]), m); cl2 == "accept" {
					add("a proof for another message is accepted while other goroutines prove/verify", i, map[string]interface{}{"other_proof": hexs(j.refs[o]), "iteration": it})
				}
				calls[g]++
				if it%4 == 0 {
					ok, qn, p := validate(ref, 5, 0, uint64(1+i*7))
					calls[g]++
					if p != nil || ok != j.vok[i] || qn != j.vqn[i] {
						add(fmt.Sprintf("validateProve gives (%v,%d,panic=%v), sequentially (%v,%d)", ok, qn, p, j.vok[i], j.vqn[i]), i, map[string]interface{}{"iteration": it})
					}
				}
			}
		}(g)
	}
	close(start)
	wg.Wait()
	total, bad := 0, 0
	for g := 0; g < G; g++ {
		total += calls[g]
		for _, f := range fails[g] {
			bad++
			res.Violate("C16/concurrency:prove-verify-interfere", f.what, f.in)
		}
		res.Count(fmt.Sprintf("concurrency:goroutine:failures=%d", len(fails[g])), id([]byte("G"), jobs[g].pk, []byte{byte(g)}), true)
	}
	res.Note(fmt.Sprintf("concurrency: %d goroutines with disjoint keys/messages/buffers, %d prove/verify/validateProve calls against sequential references, %d failures recorded (%.1fs, race detector %v)",
		G, total, bad, time.Since(t0).Seconds(), raceEnabled))
}
