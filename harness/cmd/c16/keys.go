// C16 harness: worker-history schedules and key transport.
package main

import (
	"bytes"
	"encoding/json"
	"fmt"
	"time"

	"com.tuntun.rangers/node/src/consensus/logical"
	"com.tuntun.rangers/node/src/consensus/model"
	"com.tuntun.rangers/node/src/consensus/vrf"
	"com.tuntun.rangers/node/src/core"
	"com.tuntun.rangers/node/src/middleware/types"
	"verif/harness/hx"
)

// one vrfWorker object, genProve called with non-monotone deltas: every answer must be the proof for
// H^(delta-1)(baseBH.Random) (fresh slices), and the header built from it must pass verifyBlockVRF
func workerHistorySection(r *hx.Rng, keys []kp, thorough bool) {
	nw := 8
	if thorough {
		nw = 120
	}
	t0 := time.Unix(1700000000, 0)
	step := time.Duration(model.MAX_GROUP_BLOCK_TIME) * time.Second
	schedules := [][]int{{1, 3, 2, 3, 1, 10, 2, 2, 1}, {10, 1, 10, 3, 3, 2}, {2, 1, 2, 3, 2, 1}, {3, 3, 1, 4, 2, 5, 1}}
	for i := 0; i < nw && i < len(keys); i++ {
		k := keys[i]
		R := r.Bytes(32)
		sched := schedules[i%len(schedules)]
		if i >= len(schedules) {
			sched = nil
			for j := 0; j < 6+r.Intn(5); j++ {
				sched = append(sched, 1+r.Intn(6))
			}
		}
		refs := map[int][]byte{}
		for _, d := range sched {
			if refs[d] == nil {
				refs[d] = proveGuard(clone(k.pk), clone(k.sk), refVrfMsg(R, d))
			}
		}
		miner := &model.SelfMinerInfo{VrfSK: k.sk, MinerInfo: model.MinerInfo{VrfPK: k.pk, WorkingMiners: 0}}
		baseBH := &types.BlockHeader{Random: clone(R), CurTime: t0, Height: 5, TotalQN: 7}
		w := logical.VerifVRFNewWorker(miner, baseBH, 6, t0.Add(time.Hour))
		var seq []string
		in := map[string]interface{}{"pk": hexs(k.pk), "sk_seed": hexs(k.sk[:32]), "random": hexs(R), "delta_schedule": sched, "totalStake": 1}
		fail := func(key, what string) {
			in2 := map[string]interface{}{"call_sequence": append([]string{}, seq...)}
			for a, b := range in {
				in2[a] = b
			}
			res.Violate(key, what, in2)
		}
		for n, d := range sched {
			castTime := t0.Add(time.Duration(d-1)*step + time.Duration(100+r.Intn(1800))*time.Millisecond)
			pi, qn, err := w.GenProve(castTime, 1)
			seq = append(seq, fmt.Sprintf("worker.genProve(castTime=t0+%v /*delta %d*/) -> %s.. qn=%d err=%v", castTime.Sub(t0), d, hexs(pi)[:min(16, 2*len(pi))], qn, err))
			if !bytes.Equal(baseBH.Random, R) {
				fail("C16/pure:argument-modified:genVrfMsg", "genProve changed baseBH.Random")
				baseBH.Random = clone(R)
			}
			if err != nil || !bytes.Equal(pi, refs[d]) {
				fail("C16/deterministic:genProve-worker-history", fmt.Sprintf("call %d on the same worker (delta %d after deltas %v) returned %s; the proof for H^(delta-1)(Random) is %s",
					n+1, d, sched[:n], hexs(pi), hexs(refs[d])))
			}
			if err == nil {
				pre := &types.BlockHeader{Random: clone(R), CurTime: t0, Height: 5, TotalQN: 7}
				bh := &types.BlockHeader{ProveValue: vrf.VRFProve(pi).Big(), CurTime: castTime, PreTime: t0, Height: 6, TotalQN: 7 + qn}
				ok, verr := logical.VerifVRFVerifyBlockVRF(bh, pre, &model.MinerInfo{VrfPK: clone(k.pk)}, 1)
				seq = append(seq, fmt.Sprintf("verifyBlockVRF(header with that proof and CurTime) -> %v %v", ok, verr))
				if !ok {
					fail("C16/complete:worker-history-proof-rejected", fmt.Sprintf("the proof the worker produced on call %d (delta %d after deltas %v) is rejected by verifyBlockVRF: %v", n+1, d, sched[:n], verr))
				}
			}
		}
		res.Count("worker-history:schedule", id([]byte("W"), k.pk, R), true)
		if i == 0 {
			res.Sample(map[string]interface{}{"kind": "worker-history", "in": in, "calls": seq})
		}
	}
}

// VRF keys travel as hex text (GetHexString -> Hex2VRFPublicKey / Hex2VRFPrivateKey: gx MinerRaw, genesis
// proposer lists) and as bytes in the miner record (JSON): every key must come back unchanged and still work
func keyTransportSection(r *hx.Rng, keys []kp, thorough bool) {
	type cand struct {
		pk    vrf.VRFPublicKey
		sk    vrf.VRFPrivateKey
		class string
	}
	var cands []cand
	for i := 0; i < 6 && i < len(keys); i++ {
		cands = append(cands, cand{keys[i].pk, keys[i].sk, "ordinary"})
	}
	// public keys starting with zero byte(s): search by key generation; secret keys: zero seed prefix
	tries, want := 6000, 3
	if thorough {
		tries, want = 300000, 12
	}
	found, found2 := 0, 0
	for i := 0; i < tries && (found < want || (thorough && found2 < 1)); i++ {
		pk, sk, err := vrf.VRFGenerateKey(bytes.NewReader(r.Bytes(32)))
		if err != nil || pk[0] != 0 {
			continue
		}
		if pk[1] == 0 {
			found2++
			cands = append(cands, cand{pk, sk, "pk-two-leading-zero-bytes"})
		} else if found < want {
			found++
			cands = append(cands, cand{pk, sk, "pk-leading-zero-byte"})
		}
	}
	for z := 1; z <= 3; z++ {
		seed := r.Bytes(32)
		for j := 0; j < z; j++ {
			seed[j] = 0
		}
		pk, sk, _ := vrf.VRFGenerateKey(bytes.NewReader(seed))
		cands = append(cands, cand{pk, sk, fmt.Sprintf("sk-%d-leading-zero-bytes", z)})
	}
	{ // the dev/robin genesis proposer key and its secret key (vrf_worker_test.go)
		pk := vrf.Hex2VRFPublicKey("0x009f3b76f3e49dcdd6d2ee8421f077fd4c68c176b18e1e602a3c1f09f9272250")
		sk := vrf.Hex2VRFPrivateKey("0xcf11281bb181c0f44191e415555767ba9b66f6f97195b54405b82688e4bffc24009f3b76f3e49dcdd6d2ee8421f077fd4c68c176b18e1e602a3c1f09f9272250")
		cands = append(cands, cand{pk, sk, "dev-genesis-key"})
	}
	res.Note(fmt.Sprintf("key transport: %d keys with one leading zero byte and %d with two found by key generation", found, found2))
	devProofMsg := r.Bytes(32)
	for _, c := range cands {
		in := map[string]interface{}{"class": c.class, "pk": hexs(c.pk), "sk": hexs(c.sk)}
		if len(c.pk) != 32 || len(c.sk) != 64 {
			res.Violate("C16/key-transport:hex-roundtrip:literal", fmt.Sprintf("a key literal decodes to %d/%d bytes", len(c.pk), len(c.sk)), in)
			res.Count("key-transport:"+c.class+":bad-literal", id([]byte("K"), c.pk), true)
			continue
		}
		pkText, skText := c.pk.GetHexString(), c.sk.GetHexString()
		pk2, sk2 := vrf.Hex2VRFPublicKey(pkText), vrf.Hex2VRFPrivateKey(skText)
		in["pk_text"], in["sk_text"], in["pk_back"], in["sk_back"] = pkText, skText, hexs(pk2), hexs(sk2)
		if !bytes.Equal(pk2, c.pk) {
			res.Violate("C16/key-transport:hex-roundtrip:pk", "Hex2VRFPublicKey(pk.GetHexString()) is not the key", in)
		}
		if !bytes.Equal(sk2, c.sk) {
			res.Violate("C16/key-transport:hex-roundtrip:sk", "Hex2VRFPrivateKey(sk.GetHexString()) is not the key", in)
		}
		// the gx path: MinerRaw.VrfPk text -> types.Miner.VrfPublicKey -> JSON miner record -> MinerInfo.VrfPK
		rec := types.Miner{VrfPublicKey: vrf.Hex2VRFPublicKey(pkText).GetBytes()}
		js, _ := json.Marshal(rec)
		var rec2 types.Miner
		_ = json.Unmarshal(js, &rec2)
		registered := vrf.VRFPublicKey(rec2.VrfPublicKey)
		if !bytes.Equal(registered, c.pk) {
			res.Violate("C16/key-transport:miner-record:pk", "the key registered through hex text and the JSON miner record is not the miner's key", in)
		}
		// completeness under the keys as transported
		m := clone(devProofMsg)
		pi := proveGuard(vrf.VRFPublicKey(clone(pk2)), vrf.VRFPrivateKey(clone(sk2)), m)
		cl := "prove-failed"
		if pi != nil {
			cl = verifyClass(registered, pi, m)
		}
		if cl != "accept" {
			res.Violate("C16/key-transport:complete", "a proof made with the transported secret key is not accepted under the transported/registered public key: "+cl, in)
		}
		res.Count("key-transport:"+c.class+":"+cl, id([]byte("K"), c.pk), true)
		cs.Add(fmt.Sprintf("CK %s %s %s", hx.CoqHex(c.pk), hx.CoqStr(pkText), hx.CoqHex(pk2)), map[string]interface{}{"kind": "key-hex", "in": in})
		cs.Add(fmt.Sprintf("CK %s %s %s", hx.CoqHex(c.sk), hx.CoqStr(skText), hx.CoqHex(sk2)), map[string]interface{}{"kind": "key-hex", "in": in})
	}
	// the genesis proposer lists as the node's loaders build them
	dev := vrf.Hex2VRFPublicKey("0x009f3b76f3e49dcdd6d2ee8421f077fd4c68c176b18e1e602a3c1f09f9272250")
	devSk := vrf.Hex2VRFPrivateKey("0xcf11281bb181c0f44191e415555767ba9b66f6f97195b54405b82688e4bffc24009f3b76f3e49dcdd6d2ee8421f077fd4c68c176b18e1e602a3c1f09f9272250")
	for name, miners := range core.VerifC16GenesisProposers() {
		if name == "dev" {
			// getDevGenesisProposer is dead code (genDevGenesisBlock uses getDevGenesisOneProposer); its table
			// devProposerInfo holds an account address, not a proposer record, so it yields an empty key
			res.Histogram["key-transport:genesis:dev:skipped-dead-loader"]++
			continue
		}
		for idx, mi := range miners {
			if mi == nil {
				continue
			}
			in := map[string]interface{}{"genesis": name, "index": idx, "miner_id": hexs(mi.Id), "vrf_pk_loaded": hexs(mi.VrfPublicKey)}
			okPoint := len(mi.VrfPublicKey) == 32 && isPoint(mi.VrfPublicKey)
			cls := "valid-key"
			if !okPoint {
				cls = "INVALID"
				res.Violate("C16/key-transport:genesis-proposer-key", fmt.Sprintf("the VRF key of a genesis proposer is loaded with %d bytes / is not a curve point: no proof can verify under it", len(mi.VrfPublicKey)), in)
			}
			// the proposer whose secret key is known (dev key): a proof must verify under the key AS LOADED
			if len(mi.VrfPublicKey) >= 31 && bytes.HasSuffix(dev, mi.VrfPublicKey[len(mi.VrfPublicKey)-31:]) && len(devSk) == 64 {
				m := r.Bytes(32)
				pi := proveGuard(vrf.VRFPublicKey(devSk[32:]), devSk, m)
				if pi == nil || verifyClass(vrf.VRFPublicKey(mi.VrfPublicKey), pi, m) != "accept" {
					res.Violate("C16/key-transport:genesis-proposer-key", "a proof made with the dev proposer's secret key is not accepted under its VRF key as loaded from the genesis list", in)
				}
				cls += "+dev-proof"
			}
			res.Count("key-transport:genesis:"+name+":"+cls, id([]byte("GK"), []byte(name), mi.VrfPublicKey, []byte{byte(idx)}), true)
		}
	}
}
