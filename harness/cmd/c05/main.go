// C05 harness: the real block chain (src/core) booted alone on scratch stores with a stub consensus
// helper, driven through AddBlockOnChain with generated block trees (extensions, gaps, siblings of
// lower/equal/higher cumulative QN, prove-value/hash ties, duplicates, orphans before parents).
//
//	pass A  every delivery runs on the real chain with a recorder around the three index stores and the
//	        state store: result code, ordered store writes, observables -> (a) invariant + weight checks
//	        evaluated directly on the implementation, (b) one Dl step for the Coq model;
//	pass B  process death after every individual store write: the stores are set to "genesis content +
//	        the first m recorded writes", the real chain initialisation is run (restart), observables are
//	        read -> (a) invariant + head-on-path checks, (b) one Cr step for the model; the repair
//	        (ensureChainConsistency) is itself recorded and cut after every one of its writes.
//	pass G  the first start: insertGenesisBlock runs with every store write recorded; every prefix that
//	        contains the head record is replayed (restart, invariant, Gn step for the model).
//
// Blocks carry transactions of a type without executor, so that MarkExecuted / UnMarkExecuted and the
// executed-check of verifyBlock are part of every pass: the pool's executed store is recorded and
// replayed like the index stores, the pool clause is evaluated at every point.
package main

import (
	"encoding/binary"
	"encoding/json"
	"fmt"
	"math/big"
	"os"
	"os/exec"
	"path/filepath"
	"runtime/pprof"
	"sort"
	"strings"
	"sync/atomic"
	"time"

	"com.tuntun.rangers/node/src/common"
	"com.tuntun.rangers/node/src/core"
	"com.tuntun.rangers/node/src/executor"
	"com.tuntun.rangers/node/src/middleware"
	"com.tuntun.rangers/node/src/middleware/db"
	"com.tuntun.rangers/node/src/middleware/types"
	"com.tuntun.rangers/node/src/service"
	"com.tuntun.rangers/node/src/utility"
	"com.tuntun.rangers/node/src/vm"
	"github.com/syndtr/goleveldb/leveldb/iterator"
	"verif/harness/hx"
)

// ---------- stub consensus helper: group signature / VRF / prove-root checks accept ----------
type helper struct {
	forGroup bool // the group chain asks for its genesis group; the block chain's genesis stays without one
}

var genesisGroupId = []byte("c05-genesis-group-id-000000000001")

func (h *helper) GenerateGenesisInfo() []*types.GenesisInfo {
	if !h.forGroup {
		return nil
	}
	g := types.Group{Id: genesisGroupId, PubKey: []byte{1}, Header: &types.GroupHeader{Extends: "c05"}}
	return []*types.GenesisInfo{{Group: g}}
}
func (h *helper) VRFProve2Value(p *big.Int) *big.Int              { return p }
func (h *helper) ProposalBonus() *big.Int                         { return big.NewInt(0) }
func (h *helper) PackBonus() *big.Int                             { return big.NewInt(0) }
func (h *helper) VerifyHash(b *types.Block) common.Hash           { return b.Header.Hash }
func (h *helper) CheckProveRoot(*types.BlockHeader) (bool, error) { return true, nil }
func (h *helper) VerifyNewBlock(*types.BlockHeader, *types.BlockHeader) (bool, error) {
	return true, nil
}
func (h *helper) VerifyBlockHeader(*types.BlockHeader) (bool, error) { return true, nil }
func (h *helper) VerifyGroupSign([]byte, common.Hash, []byte) (bool, error) {
	return true, nil
}
func (h *helper) CheckGroup(*types.Group) (bool, error) { return true, nil }
func (h *helper) VerifyMemberInfo(*types.BlockHeader, *types.BlockHeader) (bool, error) {
	return true, nil
}
func (h *helper) VerifyGroupForFork(*types.Group, *types.Group, *types.Group, *types.Block) (bool, error) {
	return true, nil
}

type stubChain struct{}

func (stubChain) QueryBlockHeaderByHeight(height interface{}, cache bool) *types.BlockHeader {
	return core.VerifBCHeightHeader(height.(uint64), cache)
}
func (stubChain) GetAvailableGroupsByMinerId(height uint64, minerId []byte) []*types.Group {
	return nil
}
func (stubChain) GetGroupById(id []byte) *types.Group             { return nil }
func (stubChain) GetBlockHeader(height uint64) *types.BlockHeader { return nil }

// ---------- recorder around db.Database ----------
type kv struct {
	k   string
	v   []byte
	del bool
}
type wrec struct { // one atomic store write (single put/delete or one batch)
	store int // 0 = shared LevelDB (raw key = prefix+key), 1 = state LevelDB, 2 = executed-transaction store of the pool
	kvs   []kv
}
type recorder struct {
	log       []wrec
	on        bool
	stateHave content // exact mirror of the state store (all its writes pass through the wrapper)
	gate      *gateT  // parks one Get of one key after its store read (lock-free readers vs a reorg)
}

type gateT struct {
	key     string // prefix + key
	armed   int32
	reached chan struct{}
	release chan struct{}
}

func (r *recorder) add(w wrec) {
	if w.store == 1 {
		for _, e := range w.kvs {
			if e.del {
				delete(r.stateHave, e.k)
			} else {
				r.stateHave[e.k] = e.v
			}
		}
	}
	if r.on {
		r.log = append(r.log, w)
	}
}

type recDB struct {
	inner db.Database
	pfx   string
	store int
	r     *recorder
}

func cp(b []byte) []byte { c := make([]byte, len(b)); copy(c, b); return c }

func (d *recDB) Put(k, v []byte) error {
	d.r.add(wrec{d.store, []kv{{d.pfx + string(k), cp(v), false}}})
	return d.inner.Put(k, v)
}
func (d *recDB) Delete(k []byte) error {
	d.r.add(wrec{d.store, []kv{{d.pfx + string(k), nil, true}}})
	return d.inner.Delete(k)
}
func (d *recDB) Get(k []byte) ([]byte, error) {
	v, err := d.inner.Get(k)
	if g := d.r.gate; g != nil && g.key == d.pfx+string(k) && atomic.CompareAndSwapInt32(&g.armed, 1, 0) {
		g.reached <- struct{}{} // the value is read; the reader has not returned (nor touched any cache) yet
		<-g.release
	}
	return v, err
}
func (d *recDB) Has(k []byte) (bool, error)     { return d.inner.Has(k) }
func (d *recDB) Close()                         {}
func (d *recDB) NewIterator() iterator.Iterator { return d.inner.NewIterator() }
func (d *recDB) NewIteratorWithPrefix(p []byte) iterator.Iterator {
	return d.inner.NewIteratorWithPrefix(p)
}
func (d *recDB) NewBatch() db.Batch { return &recBatch{d: d, inner: d.inner.NewBatch()} }

type recBatch struct {
	d     *recDB
	inner db.Batch
	kvs   []kv
}

func (b *recBatch) Put(k, v []byte) error {
	b.kvs = append(b.kvs, kv{b.d.pfx + string(k), cp(v), false})
	return b.inner.Put(k, v)
}
func (b *recBatch) ValueSize() int { return b.inner.ValueSize() }
func (b *recBatch) Write() error {
	if len(b.kvs) > 0 {
		b.d.r.add(wrec{b.d.store, append([]kv(nil), b.kvs...)})
	}
	return b.inner.Write()
}
func (b *recBatch) Reset() { b.kvs = nil; b.inner.Reset() }

// ---------- store contents ----------
type content map[string][]byte

func readAll(d db.Database) content {
	c := content{}
	it := d.NewIterator()
	for it.Next() {
		c[string(it.Key())] = cp(it.Value())
	}
	it.Release()
	return c
}

func (c content) clone() content {
	n := make(content, len(c))
	for k, v := range c {
		n[k] = v
	}
	return n
}
func (c content) apply(w wrec) {
	for _, e := range w.kvs {
		if e.del {
			delete(c, e.k)
		} else {
			c[e.k] = e.v
		}
	}
}

// make the store hold exactly want; have = what it holds now (updated in place)
func syncTo(d db.Database, have, want content) {
	for k := range have {
		if _, ok := want[k]; !ok {
			d.Delete([]byte(k))
			delete(have, k)
		}
	}
	for k, v := range want {
		if hv, ok := have[k]; !ok || string(hv) != string(v) {
			d.Put([]byte(k), v)
			have[k] = v
		}
	}
}

// ---------- world ----------
type world struct {
	rec        *recorder
	rawShared  db.Database // prefix "" = raw keys of the shared LevelDB
	stateLDB   db.Database
	poolLDB    db.Database // executed-transaction store of the harness-installed pool
	g0, g1     content     // genesis content of shared / state store (the pool store starts empty)
	genesis    *types.BlockHeader
	pre018     bool   // regime of the history being built / run
	progress   string // file that names the scenario under way (side process)
	pal        *pvPalette
	genesisLog []wrec // store writes of insertGenesisBlock at the first start, in order
}

func (w *world) wrapIndex(prefix string, d db.Database) db.Database {
	return &recDB{inner: d, pfx: prefix, store: 0, r: w.rec}
}
func (w *world) wrapState(d db.Database) db.Database {
	return &recDB{inner: d, pfx: "", store: 1, r: w.rec}
}

// a fresh pool object (empty pending list / evicted cache) over the recorded executed store
func (w *world) newPool() {
	_, limit := service.VerifLimits()
	service.VerifBCSetTxPool(service.VerifNewTxPool(&recDB{inner: w.poolLDB, pfx: "", store: 2, r: w.rec}, limit))
}

// restart = new account database (empty trie cache) + initBlockChain + recorder around the new handles
func (w *world) restart() (err error) {
	defer func() {
		if e := recover(); e != nil {
			err = fmt.Errorf("panic: %v", e)
		}
	}()
	middleware.VerifBCResetState(w.wrapState)
	w.newPool()
	if e := core.VerifBCRestart(); e != nil {
		return e
	}
	core.VerifBCWrapStores(w.wrapIndex)
	return nil
}

// put both stores into the given contents (the chain must be restarted afterwards)
func (w *world) setStores(c0, c1, c2 content) {
	on := w.rec.on
	w.rec.on = false
	syncTo(w.rawShared, readAll(w.rawShared), c0)
	syncTo(w.poolLDB, readAll(w.poolLDB), c2)
	syncTo(w.wrapState(w.stateLDB), w.rec.stateHave.clone(), c1) // through the wrapper: keeps stateHave exact
	w.rec.on = on
}

func boot() *world {
	common.Init(0, "p.ini", "dev")
	// dev genesis contracts do not fit the 30x gas magnification of proposal 026 at height 0; proposal 025
	// (per-proposer difficulty counters) is switched on so that every block changes the state root.
	common.LocalChainConfig.Proposal026Block = 1 << 60
	common.LocalChainConfig.Proposal025Block = 0
	middleware.InitMiddleware()
	service.InitService()
	service.InitRefundManager(stubChain{}, stubChain{})
	service.InitRewardCalculator(stubChain{}, stubChain{}, stubChain{})
	vm.InitVM()
	executor.InitExecutors()
	w := &world{rec: &recorder{stateHave: content{}}}
	w.stateLDB = middleware.VerifBCStateStore()
	middleware.VerifBCResetState(w.wrapState)
	pl, err := db.NewLDBDatabase("c05tx", 16, 16)
	if err != nil {
		panic(err)
	}
	w.poolLDB = pl
	w.newPool()
	// the first start: insertGenesisBlock with every store write recorded (genesis can be created only
	// once per process: a second creation collides with process-global state), then a normal start
	w.rec.on = true
	theHelper := &helper{}
	core.VerifBCGenesisFirst(theHelper, w.wrapIndex)
	w.rec.on = false
	w.genesisLog, w.rec.log = w.rec.log, nil
	if err := core.VerifBCInit(theHelper); err != nil {
		panic(err)
	}
	core.VerifBCWrapStores(w.wrapIndex)
	// the block fork of the sync path looks the verify group of every block up on the group chain
	theHelper.forGroup = true
	common.GlobalConf.SetString(common.ConfigSec, common.DefaultJoinedGroupDatabaseKey, "jgs0")
	core.VerifGCInit(theHelper)
	theHelper.forGroup = false
	w.rawShared, _ = db.NewDatabase("")
	w.g0 = readAll(w.rawShared)
	w.g1 = readAll(w.stateLDB)
	w.rec.stateHave = w.g1.clone()
	w.genesis = core.GetBlockChain().TopBlock()
	fmt.Printf("genesis stores: shared %d keys, state %d keys\n", len(w.g0), len(w.g1))
	return w
}

// ---------- block universe ----------
type blk struct {
	hdr    *types.BlockHeader
	raw    []byte // marshalled block, a fresh copy is decoded for every delivery
	parent int
	id     uint64 // 1 + rank of the hash among the universe (order-isomorphic to the hash)
	rootId uint64
	pvId   uint64 // rank of the prove value among the universe's (order-isomorphic; equal values, equal rank)
	txs    []int  // indexes into history.txu, in the order the block stores them (executor's sort)
}

// transaction type without an executor: the block executor gives it a (failed) receipt and bumps the
// source's nonce, which is all the block store and the pool's executed store need
const txType = 777

func mkTx(hi, i int) *types.Transaction {
	t := &types.Transaction{
		Source: fmt.Sprintf("0x%040x", 0xc05000+i),
		Target: "0x00000000000000000000000000000000000c0500",
		Type:   txType,
		Data:   fmt.Sprintf("c05 history %d tx %d", hi, i),
		Time:   "2020-01-01 00:00:00",
	}
	if i >= 5 {
		// a transaction WITH an executor that fails in Execute (operator event with unparsable extra data,
		// from a funded genesis account so that BeforeExecute passes): failed receipt, stays in the block;
		// below the Proposal018 height the executor also lists it in the header's EvictedTxs
		t.Type = types.TransactionTypeOperatorEvent
		t.Source = "0x7edd0ef9da9cec334a7887966cc8dd71d590eeb7"
		t.ExtraData = fmt.Sprintf("{not json %d %d", hi, i)
	}
	t.Hash = t.GenHash()
	return t
}

// regime: dev config (every proposal from height 0) or pre-018 (failed transactions are kept in the
// block body AND listed as evicted, as on mainnet below 55,959,500 / robin below 65,795,000)
func (w *world) setRegime(pre018 bool) {
	w.pre018 = pre018
	if pre018 {
		common.LocalChainConfig.Proposal018Block = 1 << 60
	} else {
		common.LocalChainConfig.Proposal018Block = 0
	}
}

// Prove values are VRF outputs of up to 80 bytes. The generators think in small "levels"; every history
// maps them, order-preserving as full integers, to realistic values in one of these shapes:
//
//	0  differ only above bit 64 (equal low 64 bits)      3  small values (leading-zero forms, < 2^64)
//	1  high part increasing, low 64 bits DECREASING      4  random 80-byte values, ordered by the top bits
//	2  equal high part, differ only below bit 64
//
// Equal levels give equal values (the hash then decides).
type pvPalette struct {
	mode int
	base *big.Int
	memo map[int64]*big.Int
	r    *hx.Rng
}

func (w *world) newPalette(r *hx.Rng) {
	w.setRegime(false)
	w.pal = &pvPalette{mode: r.Intn(5), base: new(big.Int).SetBytes(r.Bytes(70)), memo: map[int64]*big.Int{}, r: r.Fork()}
}

func (w *world) pvOf(level int64) *big.Int {
	pl := w.pal
	if v, ok := pl.memo[level]; ok {
		return new(big.Int).Set(v)
	}
	l := big.NewInt(level)
	low := new(big.Int).And(pl.base, new(big.Int).SetUint64(^uint64(0)))
	v := new(big.Int)
	switch pl.mode {
	case 0:
		v.Add(new(big.Int).Lsh(l, 600), low)
	case 1:
		v.Add(new(big.Int).Lsh(l, 590), new(big.Int).SetUint64(^uint64(0)-uint64(level)*1000003))
	case 2:
		v.Add(new(big.Int).Lsh(new(big.Int).Rsh(pl.base, 64), 64), l)
	case 3:
		v.Set(l)
	default:
		v.Add(new(big.Int).Lsh(l, 620), new(big.Int).SetBytes(pl.r.Bytes(75)))
	}
	pl.memo[level] = v
	return new(big.Int).Set(v)
}

func (w *world) build(parent *types.BlockHeader, height, qn uint64, pv int64, salt byte, txs []*types.Transaction) *types.Block {
	bh := &types.BlockHeader{
		CurTime:      parent.CurTime.Add(time.Duration(height-parent.Height) * time.Second),
		Height:       height,
		ProveValue:   w.pvOf(pv),
		Castor:       []byte{0xca, 0x57, salt},
		TotalQN:      parent.TotalQN + qn,
		PreHash:      parent.Hash,
		PreTime:      parent.CurTime,
		GroupId:      genesisGroupId,
		Transactions: make([]common.Hashes, 0),
		EvictedTxs:   make([]common.Hash, 0),
		RequestIds:   map[string]uint64{},
	}
	for k, v := range parent.RequestIds {
		bh.RequestIds[k] = v
	}
	b := &types.Block{Header: bh, Transactions: []*types.Transaction{}}
	for _, t := range txs {
		c := *t
		b.Transactions = append(b.Transactions, &c)
	}
	root, rroot, err := core.VerifBCExecute(parent.StateTree, b, true) // sorts b.Transactions as checkStates will
	if err != nil {
		panic(err)
	}
	bh.StateTree, bh.ReceiptTree = root, rroot
	for _, t := range b.Transactions {
		bh.Transactions = append(bh.Transactions, common.Hashes{t.Hash, t.SubHash})
	}
	bh.TxTree = core.VerifBCTxTree(b.Transactions)
	if w.pre018 {
		for _, t := range b.Transactions {
			if t.Type == types.TransactionTypeOperatorEvent {
				bh.EvictedTxs = append(bh.EvictedTxs, t.Hash) // what the executor reports for a failed tx
			}
		}
	}
	bh.Hash = bh.GenHash()
	return b
}

type history struct {
	blocks  []*blk // 0 = genesis
	deliver []int
	byHash  map[common.Hash]int
	maxH    uint64
	noFork  bool                 // scripted history: no random sync sessions
	script  map[int][2]int       // scripted sync sessions: position in deliver -> (header, tip)
	txu     []*types.Transaction // transaction universe of this history; Coq id = index + 1
	txIdx   map[common.Hash]int
}

func (w *world) genHistory(r *hx.Rng, tier string, hi int) *history {
	w.newPalette(r)
	w.setRegime(r.Intn(3) == 0)
	h := &history{byHash: map[common.Hash]int{}, txIdx: map[common.Hash]int{}}
	h.blocks = append(h.blocks, &blk{hdr: w.genesis, parent: -1})
	for i := 0; i < 8; i++ {
		t := mkTx(hi, i)
		h.txu = append(h.txu, t)
		h.txIdx[t.Hash] = i
	}
	n := 5 + r.Intn(8)
	if tier == "thorough" && r.Intn(4) == 0 {
		n = 12 + r.Intn(8)
		if r.Intn(3) == 0 {
			n = 21 + r.Intn(4) // more blocks than the verifiedBlocks cache holds
		}
	}
	for i := 1; i <= n; i++ {
		// parent: mostly a recent block (long chains), sometimes any block (forks)
		var p int
		switch r.Intn(10) {
		case 0, 1, 2:
			p = r.Intn(len(h.blocks))
		case 3, 4:
			p = h.blocks[len(h.blocks)-1].parent
			if p < 0 {
				p = 0
			}
		default:
			p = len(h.blocks) - 1
		}
		ph := h.blocks[p].hdr
		height := ph.Height + 1
		if r.Intn(6) == 0 {
			height += uint64(1 + r.Intn(2)) // gap
		}
		qn := uint64(r.Intn(4))
		// aim at a cumulative-QN tie with some existing block
		if r.Intn(3) == 0 {
			t := h.blocks[r.Intn(len(h.blocks))].hdr.TotalQN
			if t >= ph.TotalQN && t-ph.TotalQN <= 6 {
				qn = t - ph.TotalQN
			}
		}
		if p != len(h.blocks)-1 && r.Intn(2) == 0 {
			// a fork that overtakes (or ties with) the tip built so far
			tip := h.blocks[len(h.blocks)-1].hdr.TotalQN
			if tip >= ph.TotalQN && tip-ph.TotalQN <= 8 {
				qn = tip - ph.TotalQN + uint64(r.Intn(3))
			}
		}
		pv := int64(1 + r.Intn(3))
		// transactions: about half of the blocks carry one or two from a small universe, so that siblings
		// and competing branches share them; mostly not yet on the block's own branch, now and then one
		// that an ancestor already carries (the block must then be refused)
		var txs []*types.Transaction
		if r.Intn(2) == 0 {
			onBranch := map[int]bool{}
			for _, a := range h.ancestors(p) {
				for _, t := range h.blocks[a].txs {
					onBranch[t] = true
				}
			}
			want := 1 + r.Intn(2)
			picked := map[int]bool{}
			for try := 0; try < 12 && len(txs) < want; try++ {
				t := r.Intn(len(h.txu))
				if picked[t] || (onBranch[t] && r.Intn(6) != 0) {
					continue
				}
				picked[t] = true
				txs = append(txs, h.txu[t])
			}
		}
		b := w.build(ph, height, qn, pv, byte(r.Intn(250)), txs)
		if _, dup := h.byHash[b.Header.Hash]; dup || b.Header.Hash == w.genesis.Hash {
			i--
			continue
		}
		raw, err := types.MarshalBlock(b)
		if err != nil {
			panic(err)
		}
		h.byHash[b.Header.Hash] = len(h.blocks)
		nb := &blk{hdr: b.Header, raw: raw, parent: p}
		for _, t := range b.Transactions {
			nb.txs = append(nb.txs, h.txIdx[t.Hash])
		}
		h.blocks = append(h.blocks, nb)
		if height > h.maxH {
			h.maxH = height
		}
	}
	h.byHash[w.genesis.Hash] = 0
	h.rankPv()
	// ids by hash rank; state-root ids by first appearance
	idx := make([]int, len(h.blocks))
	for i := range idx {
		idx[i] = i
	}
	sort.Slice(idx, func(a, b int) bool {
		return new(big.Int).SetBytes(h.blocks[idx[a]].hdr.Hash.Bytes()).Cmp(new(big.Int).SetBytes(h.blocks[idx[b]].hdr.Hash.Bytes())) < 0
	})
	for rank, i := range idx {
		h.blocks[i].id = uint64(rank + 1)
	}
	roots := map[common.Hash]uint64{}
	for _, b := range h.blocks {
		if _, ok := roots[b.hdr.StateTree]; !ok {
			roots[b.hdr.StateTree] = uint64(len(roots) + 1)
		}
		b.rootId = roots[b.hdr.StateTree]
	}
	// delivery order: topological with local disorder (orphans first), duplicates sprinkled in
	order := make([]int, 0, n+4)
	for i := 1; i <= n; i++ {
		order = append(order, i)
	}
	swaps := r.Intn(4)
	for s := 0; s < swaps; s++ {
		i := r.Intn(len(order))
		j := i + 1 + r.Intn(3)
		if j < len(order) {
			order[i], order[j] = order[j], order[i]
		}
	}
	if r.Intn(3) == 0 && len(order) >= 4 { // a run delivered children-first: chained orphans
		i := r.Intn(len(order) - 2)
		j := i + 2 + r.Intn(3)
		if j > len(order) {
			j = len(order)
		}
		for a, b := i, j-1; a < b; a, b = a+1, b-1 {
			order[a], order[b] = order[b], order[a]
		}
	}
	for _, i := range order {
		h.deliver = append(h.deliver, i)
		if r.Intn(7) == 0 {
			h.deliver = append(h.deliver, order[r.Intn(len(order))])
		}
	}
	return h
}

func (h *history) rankPv() {
	var vals []*big.Int
	for _, b := range h.blocks {
		pv := b.hdr.ProveValue
		if pv == nil {
			pv = new(big.Int)
		}
		vals = append(vals, pv)
	}
	sorted := append([]*big.Int(nil), vals...)
	sort.Slice(sorted, func(a, b int) bool { return sorted[a].Cmp(sorted[b]) < 0 })
	for i, b := range h.blocks {
		rank := uint64(0)
		for j, x := range sorted {
			if j > 0 && x.Cmp(sorted[j-1]) != 0 {
				rank++
			}
			if x.Cmp(vals[i]) == 0 {
				break
			}
		}
		b.pvId = rank
	}
}

// finish a universe: ids by hash rank, state-root ids by first appearance
func (h *history) number(w *world) {
	h.rankPv()
	h.byHash[w.genesis.Hash] = 0
	idx := make([]int, len(h.blocks))
	for i := range idx {
		idx[i] = i
	}
	sort.Slice(idx, func(a, b int) bool {
		return new(big.Int).SetBytes(h.blocks[idx[a]].hdr.Hash.Bytes()).Cmp(new(big.Int).SetBytes(h.blocks[idx[b]].hdr.Hash.Bytes())) < 0
	})
	for rank, i := range idx {
		h.blocks[i].id = uint64(rank + 1)
	}
	roots := map[common.Hash]uint64{}
	for _, b := range h.blocks {
		if _, ok := roots[b.hdr.StateTree]; !ok {
			roots[b.hdr.StateTree] = uint64(len(roots) + 1)
		}
		b.rootId = roots[b.hdr.StateTree]
	}
}

// scripted history for the verifiedBlocks cache (lru, 20 entries): L (child of genesis, carries T) is
// verified and refused by weight -> cached; the main chain m1..m22 grows past it, m2 carrying T too;
// re-delivered while still cached L is refused by weight again (the executed-check is skipped), after 20
// more verifications it has been evicted and is refused by verifyBlock (T is executed on the chain).
func (w *world) genCacheHistory(hi int) *history {
	w.newPalette(hx.NewRng(uint64(hi)))
	h := &history{byHash: map[common.Hash]int{}, txIdx: map[common.Hash]int{}, noFork: true}
	h.blocks = append(h.blocks, &blk{hdr: w.genesis, parent: -1})
	for i := 0; i < 2; i++ {
		t := mkTx(hi, i)
		h.txu = append(h.txu, t)
		h.txIdx[t.Hash] = i
	}
	add := func(p int, qn uint64, pv int64, txs []*types.Transaction) int {
		ph := h.blocks[p].hdr
		b := w.build(ph, ph.Height+1, qn, pv, byte(len(h.blocks)), txs)
		raw, err := types.MarshalBlock(b)
		if err != nil {
			panic(err)
		}
		nb := &blk{hdr: b.Header, raw: raw, parent: p}
		for _, t := range b.Transactions {
			nb.txs = append(nb.txs, h.txIdx[t.Hash])
		}
		h.byHash[b.Header.Hash] = len(h.blocks)
		h.blocks = append(h.blocks, nb)
		if b.Header.Height > h.maxH {
			h.maxH = b.Header.Height
		}
		return len(h.blocks) - 1
	}
	m := add(0, 1, 2, nil)                            // b1 = m1
	l := add(0, 0, 1, []*types.Transaction{h.txu[0]}) // b2 = L, lighter sibling of m1
	h.deliver = append(h.deliver, m, l)
	m = add(m, 1, 1, []*types.Transaction{h.txu[0]}) // b3 = m2 carries T
	h.deliver = append(h.deliver, m, l)              // L again: still cached
	for i := 0; i < 20; i++ {
		m = add(m, 1, 1, nil)
		h.deliver = append(h.deliver, m)
	}
	h.deliver = append(h.deliver, l) // L again: evicted by now
	h.number(w)
	return h
}

// directed family for the equal-cumulative-QN tie-break: a common prefix, a local branch of 2-4 blocks
// above the ancestor A (per-block QN split at random, height gaps), then several competitors that are
// children of A with the SAME cumulative QN as the local head, at heights that coincide with a local
// block's height, fill a gap, sit right above A or above the local head. Prove values of (first local
// block above A, first competitor, local block at the competitor's height) are a random arrangement of
// three levels - all six orderings occur - or tie, which leaves the decision to the hash.
func (w *world) genTieHistory(r *hx.Rng, hi int) *history {
	w.newPalette(r)
	h := &history{byHash: map[common.Hash]int{}, txIdx: map[common.Hash]int{}, noFork: r.Intn(2) == 0}
	h.blocks = append(h.blocks, &blk{hdr: w.genesis, parent: -1})
	for i := 0; i < 8; i++ {
		t := mkTx(hi, i)
		h.txu = append(h.txu, t)
		h.txIdx[t.Hash] = i
	}
	add := func(p int, height, qn uint64, pv int64) int {
		b := w.build(h.blocks[p].hdr, height, qn, pv, byte(r.Intn(250)), nil)
		if _, dup := h.byHash[b.Header.Hash]; dup {
			return -1
		}
		raw, _ := types.MarshalBlock(b)
		h.byHash[b.Header.Hash] = len(h.blocks)
		h.blocks = append(h.blocks, &blk{hdr: b.Header, raw: raw, parent: p})
		if height > h.maxH {
			h.maxH = height
		}
		h.deliver = append(h.deliver, len(h.blocks)-1)
		return len(h.blocks) - 1
	}
	a := 0
	for i := r.Intn(3); i > 0; i-- {
		a = add(a, h.blocks[a].hdr.Height+1+uint64(r.Intn(2)), uint64(r.Intn(3)), int64(10*(1+r.Intn(3))))
	}
	ah := h.blocks[a].hdr.Height
	k := 2 + r.Intn(3)
	q := uint64(2 + r.Intn(4))
	split := make([]uint64, k)
	for i := uint64(0); i < q; i++ {
		split[r.Intn(k)]++
	}
	lv := []int64{10, 20, 30}
	perm := [][3]int{{0, 1, 2}, {0, 2, 1}, {1, 0, 2}, {1, 2, 0}, {2, 0, 1}, {2, 1, 0}}[r.Intn(6)]
	pL1, pC, pLat := lv[perm[0]], lv[perm[1]], lv[perm[2]]
	switch r.Intn(6) {
	case 0:
		pC = pL1 // the hash decides at the fork point
	case 1:
		pC = pLat
	}
	jc := 1 + r.Intn(k-1) // index (0-based) of the local block whose height the first competitor takes
	var lh []uint64
	p, hgt := a, ah
	for j := 0; j < k; j++ {
		step := uint64(1 + r.Intn(3))
		if j == 0 && r.Intn(10) < 7 {
			step = 1
		}
		hgt += step
		pv := lv[r.Intn(3)]
		if j == 0 {
			pv = pL1
		} else if j == jc {
			pv = pLat
		}
		p = add(p, hgt, split[j], pv)
		lh = append(lh, hgt)
	}
	m := 2 + r.Intn(3)
	for c := 0; c < m; c++ {
		var ch uint64
		switch x := r.Intn(10); {
		case c == 0 || x < 5:
			j := jc
			if c > 0 {
				j = 1 + r.Intn(k-1)
			}
			ch = lh[j]
		case x < 7:
			ch = ah + 1
		default:
			ch = ah + 1 + uint64(r.Intn(int(hgt-ah)+2))
		}
		pv := pC
		if c == 0 && pL1 != pLat && r.Intn(4) != 0 {
			// directed: strictly between the first local block above A and the local block at this height,
			// so that a tie-break taken anywhere but at the fork point decides the other way
			pv = (pL1 + pLat) / 2
		}
		if c > 0 {
			pv = int64(5 * (1 + r.Intn(7)))
		}
		ci := add(a, ch, q, pv)
		if ci >= 0 && r.Intn(3) == 0 { // the competitor's branch goes on
			add(ci, ch+1+uint64(r.Intn(2)), uint64(r.Intn(2)), lv[r.Intn(3)])
		}
	}
	if r.Intn(3) == 0 {
		h.deliver = append(h.deliver, h.deliver[r.Intn(len(h.deliver))])
	}
	h.number(w)
	return h
}

func (w *world) note(what string) {
	if w.progress != "" {
		os.WriteFile(w.progress, []byte(what), 0644)
	}
}

// The long-chain scenarios run in a side process (same binary, own working directory): a fatal error in
// the node code (stack overflow of a recursion that no longer ends, ...) cannot be recovered in-process
// and would take the whole run with it; this way it becomes a violation with the scenario as input.
func runSide(a hx.Args, res *hx.Result) {
	dir, _ := filepath.Abs("side")
	out := filepath.Join(dir, "out")
	os.RemoveAll(dir)
	os.MkdirAll(out, 0755)
	cmd := exec.Command(os.Args[0], "-seed", fmt.Sprint(a.Seed), "-n", fmt.Sprint(a.N), "-tier", a.Tier, "-out", out)
	cmd.Dir = dir
	cmd.Env = append(os.Environ(), "C05_SIDE=1")
	log, _ := os.Create(filepath.Join(dir, "side.log"))
	cmd.Stdout, cmd.Stderr = log, log
	err := cmd.Run()
	log.Close()
	b, rerr := os.ReadFile(filepath.Join(out, "result.json"))
	if err != nil || rerr != nil {
		prog, _ := os.ReadFile(filepath.Join(out, "progress.txt"))
		lg, _ := os.ReadFile(filepath.Join(dir, "side.log"))
		why := "the process died"
		for _, ln := range strings.Split(string(lg), "\n") {
			if strings.HasPrefix(ln, "fatal error") || strings.HasPrefix(ln, "panic") {
				why = ln
				break
			}
		}
		frames := ""
		for _, ln := range strings.Split(string(lg), "\n") {
			if i := strings.Index(ln, "/src/core."); i >= 0 && len(frames) < 400 {
				f := ln[i+len("/src/core."):]
				if j := strings.LastIndex(f, "("); j > 0 {
					f = f[:j]
				}
				if !strings.Contains(frames, f) {
					frames += f + " <- "
				}
			}
		}
		res.Violate("C05/crash:process-died", fmt.Sprintf("the node code brought the process down (%s) in: %s", why, frames), string(prog))
		res.Count("side:process-died", "side", true)
		if rerr != nil {
			return
		}
	}
	var sr hx.Result
	if json.Unmarshal(b, &sr) != nil {
		return
	}
	for _, v := range sr.Violations {
		res.Violate(v.Key, v.What, v.Input)
	}
	for k, n := range sr.Histogram {
		if !strings.HasPrefix(k, "violation:") {
			res.Histogram[k] += n
		}
	}
	res.Evaluations += sr.Evaluations
	res.DistinctNontrivial += sr.DistinctNontrivial
}

// ---------- lock-free readers against a reorg (gated schedules) ----------
// QueryBlockHeaderByHeight / GetBlockHash / QueryBlockByHash are called without the chain lock (RPC, EVM
// BLOCKHASH). One reader is parked right after its store read - before it returns and before anything it
// might do with the value - while the main goroutine replaces the block at that height; then it is
// released and the invariant is evaluated through the cached and the uncached read paths.
//
//	cold:  g-A, restart (buildCache does not preload the head's height), reader of height 1, deliver A2
//	warm:  the same without the restart (the reader is served from topBlocks and never parks)
//	deep:  a chain longer than the topBlocks lru (100); reader of an evicted height; a heavy sibling there
func (w *world) gatedReaders(res *hx.Result) {
	w.newPalette(hx.NewRng(77))
	type variant struct {
		name   string
		length int  // blocks on the first branch
		at     int  // height whose block is replaced (parent = block at-1)
		cold   bool // restart before the reader runs
		reader int  // 0 header(h,true) 1 header(h,false) 2 GetBlockHash 3 QueryBlockByHash(old block)
	}
	vs := []variant{{"cold-header-cached", 1, 1, true, 0}, {"cold-blockhash", 2, 1, true, 2}, {"cold-header-uncached", 1, 1, true, 1},
		{"cold-byhash", 1, 1, true, 3}, {"warm-header-cached", 2, 2, false, 0}, {"cold-mid-header-cached", 3, 3, true, 0}, {"deep-header-cached", 103, 2, false, 0}, {"deep-blockhash", 103, 3, false, 2}}
	for vi, v := range vs {
		h := &history{byHash: map[common.Hash]int{}, txIdx: map[common.Hash]int{}, noFork: true}
		h.blocks = append(h.blocks, &blk{hdr: w.genesis, parent: -1})
		add := func(p int, qn uint64, pv int64) int {
			ph := h.blocks[p].hdr
			b := w.build(ph, ph.Height+1, qn, pv, byte(len(h.blocks)), nil)
			raw, _ := types.MarshalBlock(b)
			h.byHash[b.Header.Hash] = len(h.blocks)
			h.blocks = append(h.blocks, &blk{hdr: b.Header, raw: raw, parent: p})
			if b.Header.Height > h.maxH {
				h.maxH = b.Header.Height
			}
			return len(h.blocks) - 1
		}
		p := 0
		for i := 0; i < v.length; i++ {
			p = add(p, 1, 1)
		}
		sib := add(v.at-1, uint64(v.length)+5, 2) // heavier than the whole first branch
		h.number(w)
		c := &ctx{w: w, h: h, res: res, seq: fmt.Sprintf("gated readers (%s): first branch of %d blocks above genesis, heavier sibling at height %d", v.name, v.length, v.at)}
		w.note(c.seq)
		w.setStores(w.g0, w.g1, content{})
		if err := w.restart(); err != nil {
			panic(err)
		}
		ch := core.GetBlockChain()
		deliver := func(i int) {
			blk, _ := types.UnMarshalBlock(h.blocks[i].raw)
			ch.AddBlockOnChain(blk)
		}
		for i := 1; i <= v.length; i++ {
			deliver(i)
		}
		if v.cold {
			if err := w.restart(); err != nil {
				res.Violate("C05/restart-failed:complete", err.Error(), c.seq+"; clean restart after the first branch was delivered")
				res.Count("gated-reader:"+v.name+":restart-failed", fmt.Sprintf("g%d", vi), true)
				w.setStores(w.g0, w.g1, content{})
				if e2 := w.restart(); e2 != nil {
					panic(e2)
				}
				continue
			}
			ch = core.GetBlockChain()
		}
		g := &gateT{armed: 1, reached: make(chan struct{}), release: make(chan struct{})}
		ht := uint64(v.at)
		if v.reader == 3 {
			g.key = "block" + string(h.blocks[v.at].hdr.Hash.Bytes())
		} else {
			key := make([]byte, 8)
			binary.BigEndian.PutUint64(key, ht)
			g.key = "height" + string(key)
		}
		w.rec.gate = g
		done := make(chan struct{})
		go func() {
			defer close(done)
			defer func() { recover() }()
			switch v.reader {
			case 0:
				core.VerifBCHeightHeader(ht, true)
			case 1:
				core.VerifBCHeightHeader(ht, false)
			case 2:
				ch.GetBlockHash(ht)
			case 3:
				ch.QueryBlockByHash(h.blocks[v.at].hdr.Hash)
			}
		}()
		parked := false
		select {
		case <-g.reached:
			parked = true
		case <-done:
		case <-time.After(5 * time.Second):
		}
		deliver(sib) // the reorg: every block from height v.at up is removed, the sibling inserted
		if parked {
			g.release <- struct{}{}
		}
		atomic.StoreInt32(&g.armed, 0)
		<-done
		w.rec.gate = nil
		where := fmt.Sprintf("%s; reader parked after its store read: %v; then the sibling delivered, the reader released", c.seq, parked)
		if top := ch.TopBlock(); top.Hash != h.blocks[sib].hdr.Hash {
			res.Violate("C05/gated:reorg-did-not-happen", "the heavier sibling did not become the head", where)
		}
		c.checkInv("gated-"+v.name, where)
		c.observe("gated-" + v.name)
		res.Count("gated-reader:"+v.name, fmt.Sprintf("g%d", vi), parked)
	}
}

// ---------- reorgs on chains longer than the topBlocks lru ----------
// topBlocks (100 entries) is an lru BY USE: cached reads of old heights refresh them, so the next new
// heads evict recent heights that nobody read. Chain of 101-130 blocks; cached reads
// (QueryBlockHeaderByHeight(h,true) / GetBlockHash) of all cached heights but the newest few; some more
// blocks; then a heavier sibling forking 2-12 blocks below the head, so that the roll-back range covers
// evicted heights with cached ones below. Full invariant through cached and uncached paths, then a
// restart and the invariant again.
func (w *world) deepReorgs(res *hx.Result, r *hx.Rng, count int) {
	for di := 0; di < count; di++ {
		w.newPalette(r)
		h := &history{byHash: map[common.Hash]int{}, txIdx: map[common.Hash]int{}, noFork: true}
		h.blocks = append(h.blocks, &blk{hdr: w.genesis, parent: -1})
		add := func(p int, qn uint64, pv int64) int {
			ph := h.blocks[p].hdr
			b := w.build(ph, ph.Height+1, qn, pv, byte(len(h.blocks)), nil)
			raw, _ := types.MarshalBlock(b)
			h.byHash[b.Header.Hash] = len(h.blocks)
			h.blocks = append(h.blocks, &blk{hdr: b.Header, raw: raw, parent: p})
			if b.Header.Height > h.maxH {
				h.maxH = b.Header.Height
			}
			return len(h.blocks) - 1
		}
		n1 := 101 + r.Intn(22)  // blocks before the reads
		unread := 2 + r.Intn(4) // newest heights left unread
		more := 1 + r.Intn(unread+2)
		depth := 2 + r.Intn(11) // fork point below the final head
		p := 0
		for i := 0; i < n1+more; i++ {
			p = add(p, 1, int64(1+r.Intn(3)))
		}
		total := n1 + more
		if depth >= total {
			depth = total - 1
		}
		sib := add(total-depth, uint64(depth)+3, int64(1+r.Intn(3)))
		h.number(w)
		c := &ctx{w: w, h: h, res: res, seq: fmt.Sprintf("deep reorg %d: chain of %d blocks, cached reads of heights %d..%d, %d more blocks, heavier sibling of block %d (fork %d below the head)",
			di, n1, n1-99, n1-unread, more, total-depth+1, depth)}
		w.note(c.seq)
		w.setStores(w.g0, w.g1, content{})
		if err := w.restart(); err != nil {
			panic(err)
		}
		ch := core.GetBlockChain()
		deliver := func(i int) {
			blk, _ := types.UnMarshalBlock(h.blocks[i].raw)
			ch.AddBlockOnChain(blk)
		}
		for i := 1; i <= n1; i++ {
			deliver(i)
		}
		for ht := n1 - 99; ht <= n1-unread; ht++ {
			if ht < 0 {
				continue
			}
			if r.Intn(2) == 0 {
				core.VerifBCHeightHeader(uint64(ht), true)
			} else {
				ch.GetBlockHash(uint64(ht))
			}
		}
		for i := n1 + 1; i <= total; i++ {
			deliver(i)
		}
		deliver(sib)
		if top := ch.TopBlock(); top.Hash != h.blocks[sib].hdr.Hash {
			res.Violate("C05/deep:reorg-did-not-happen", "the heavier sibling did not become the head", c.seq)
		}
		ok1 := c.checkInv("deep-reorg", c.seq)
		ok2 := true
		if err := w.restart(); err != nil {
			res.Violate("C05/restart-failed:complete", err.Error(), c.seq+"; clean restart after the reorg")
			w.setStores(w.g0, w.g1, content{})
			if e2 := w.restart(); e2 != nil {
				panic(e2)
			}
			ok2 = false
		} else {
			ok2 = c.checkInv("deep-reorg-restart", c.seq+"; after a clean restart")
		}
		_ = ok1 && ok2
		res.Count("deep-reorg", fmt.Sprintf("d%d", di), true)
		if w.progress != "" {
			res.Write(filepath.Dir(w.progress)) // kept if a later scenario takes the process down
		}
	}
}

// scripted history for the fork switch: local chain g-x (QN 5); the peer's chain g-f1-f2-f3 (QN 1,2,6);
// c (child of f1, QN 4) arrived by broadcast before and waits as an orphan. The switch removes x, adds
// f1, whose callback pulls c in; f2 is lighter than c and refused; the switch stops with head c (QN 4).
func (w *world) genForkOrphanHistory(hi int) *history {
	w.newPalette(hx.NewRng(uint64(hi)))
	h := &history{byHash: map[common.Hash]int{}, txIdx: map[common.Hash]int{}, noFork: true, script: map[int][2]int{}}
	h.blocks = append(h.blocks, &blk{hdr: w.genesis, parent: -1})
	add := func(p int, qn uint64, pv int64) int {
		ph := h.blocks[p].hdr
		b := w.build(ph, ph.Height+1, qn, pv, byte(len(h.blocks)), nil)
		raw, _ := types.MarshalBlock(b)
		h.byHash[b.Header.Hash] = len(h.blocks)
		h.blocks = append(h.blocks, &blk{hdr: b.Header, raw: raw, parent: p})
		if b.Header.Height > h.maxH {
			h.maxH = b.Header.Height
		}
		return len(h.blocks) - 1
	}
	x := add(0, 5, 1)
	f1 := add(0, 1, 1)
	f2 := add(f1, 1, 1)
	f3 := add(f2, 4, 1)
	c := add(f1, 3, 1)
	h.deliver = []int{c, x}
	h.script[2] = [2]int{0, f3}
	h.number(w)
	return h
}

func (h *history) idOfHash(x common.Hash) uint64 {
	if i, ok := h.byHash[x]; ok {
		return h.blocks[i].id
	}
	return 9999
}

// ---------- observables ----------
type obsT struct {
	head    uint64
	heights []uint64
	vh      []bool
	hashes  []uint64
	am, rm  bool
	open    bool
	exec    []uint64 // transaction ids present in the pool's executed store
}

func (o obsT) coq() string {
	hs := make([]string, len(o.heights))
	for i, x := range o.heights {
		hs[i] = hx.CoqN(x)
	}
	vs := make([]string, len(o.vh))
	for i, x := range o.vh {
		vs[i] = hx.CoqBool(x)
	}
	ps := make([]string, len(o.hashes))
	for i, x := range o.hashes {
		ps[i] = hx.CoqN(x)
	}
	es := make([]string, len(o.exec))
	for i, x := range o.exec {
		es[i] = hx.CoqN(x)
	}
	return fmt.Sprintf("(O %s %s %s %s %s %s %s %s)", hx.CoqN(o.head), hx.CoqList(hs), hx.CoqList(vs), hx.CoqList(ps), hx.CoqBool(o.am), hx.CoqBool(o.rm), hx.CoqBool(o.open), hx.CoqList(es))
}
func (o obsT) String() string {
	return fmt.Sprintf("head=%d heights=%v vh=%v hashes=%v marks=%v/%v open=%v exec=%v", o.head, o.heights, o.vh, o.hashes, o.am, o.rm, o.open, o.exec)
}

type ctx struct {
	w   *world
	h   *history
	res *hx.Result
	seq string // description of the history for replays
}

func (c *ctx) observe(where string) obsT {
	ch := core.GetBlockChain()
	var o obsT
	top := ch.TopBlock()
	if top != nil {
		o.head = c.h.idOfHash(top.Hash)
	}
	for ht := uint64(0); ht <= c.h.maxH+1; ht++ {
		hc := core.VerifBCHeightHeader(ht, true)
		hd := core.VerifBCHeightHeader(ht, false)
		var a, b uint64
		if hc != nil {
			a = c.h.idOfHash(hc.Hash)
		}
		if hd != nil {
			b = c.h.idOfHash(hd.Hash)
		}
		if a != b {
			c.res.Violate("C05/cache-stale:"+where, fmt.Sprintf("height %d: topBlocks cache says block %d, height store says %d", ht, a, b), c.seq)
		}
		o.heights = append(o.heights, a)
		vhash, err := ch.GetVerifyHash(ht)
		o.vh = append(o.vh, err == nil && vhash != (common.Hash{}))
	}
	for _, b := range c.h.blocks {
		if ch.QueryBlockByHash(b.hdr.Hash) != nil {
			o.hashes = append(o.hashes, b.id)
		}
	}
	o.am, o.rm = core.VerifBCMarks()
	if top != nil {
		_, err := middleware.AccountDBManagerInstance.GetAccountDBByHash(top.StateTree)
		o.open = err == nil
	}
	pool := service.GetTransactionPool()
	for i, t := range c.h.txu {
		if pool.GetExecuted(t.Hash) != nil {
			o.exec = append(o.exec, uint64(i+1))
		}
	}
	return o
}

// the property's invariant evaluated on the implementation's own read API
func (c *ctx) checkInv(where string, detail interface{}) bool {
	ch := core.GetBlockChain()
	ok := true
	bad := func(clause, what string) {
		ok = false
		c.res.Violate("C05/inv-"+clause+":"+where, what, detail)
	}
	top := ch.TopBlock()
	if top == nil {
		bad("head", "no head")
		return false
	}
	chain := map[uint64]common.Hash{}
	cur := top
	for steps := 0; ; steps++ {
		b := ch.QueryBlockByHash(cur.Hash)
		if b == nil {
			bad("hash-index", fmt.Sprintf("chain block %d (height %d) not in the hash index", c.h.idOfHash(cur.Hash), cur.Height))
			break
		}
		chain[cur.Height] = cur.Hash
		if cur.Hash == c.w.genesis.Hash {
			break
		}
		if cur.Height == 0 || steps > 1000 {
			bad("head-unreachable", "parent walk from the head does not end in genesis")
			break
		}
		p := ch.QueryBlockByHash(cur.PreHash)
		if p == nil {
			bad("head-unreachable", fmt.Sprintf("parent of block %d missing from the hash index", c.h.idOfHash(cur.Hash)))
			break
		}
		if p.Header.Height >= cur.Height {
			bad("head-unreachable", "parent not lower than child")
			break
		}
		cur = p.Header
	}
	for ht := uint64(0); ht <= c.h.maxH+2; ht++ {
		hd := ch.QueryBlock(ht)
		hh := core.VerifBCHeightHeader(ht, true)
		want, has := chain[ht]
		// the cached read paths (topBlocks first) against the store itself
		hu := core.VerifBCHeightHeader(ht, false)
		gh := ch.GetBlockHash(ht)
		var uh, chh, qh common.Hash
		if hu != nil {
			uh = hu.Hash
		}
		if hh != nil {
			chh = hh.Hash
		}
		if hd != nil {
			qh = hd.Header.Hash
		}
		if chh != uh || gh != uh || (hd != nil && qh != uh) {
			ok = false
			c.res.Violate("C05/inv-height-index:cached-read-stale", fmt.Sprintf("height %d: the height store holds block %d, QueryBlockHeaderByHeight(h,true) answers %d, GetBlockHash %d, QueryBlock %d (%s)",
				ht, c.h.idOfHash(uh), c.h.idOfHash(chh), c.h.idOfHash(gh), c.h.idOfHash(qh), where), detail)
			continue
		}
		switch {
		case has && (hh == nil || hh.Hash != want):
			bad("height-index", fmt.Sprintf("height %d does not return the chain's block %d", ht, c.h.idOfHash(want)))
		case has && (hd == nil || hd.Header.Hash != want):
			bad("height-index", fmt.Sprintf("QueryBlock(%d) does not return the chain's block %d", ht, c.h.idOfHash(want)))
		case !has && hh != nil && ht > top.Height:
			bad("above-head", fmt.Sprintf("height %d > head height %d is indexed (block %d)", ht, top.Height, c.h.idOfHash(hh.Hash)))
		case !has && hh != nil:
			bad("height-index", fmt.Sprintf("height %d returns block %d which is not on the head's chain", ht, c.h.idOfHash(hh.Hash)))
		}
	}
	for ht := range chain {
		if vh, err := ch.GetVerifyHash(ht); err != nil || vh == (common.Hash{}) {
			bad("verify-hash", fmt.Sprintf("no verify hash for height %d of the head's chain", ht))
		}
	}
	am, rm := core.VerifBCMarks()
	if am || rm {
		bad("marks", fmt.Sprintf("intent mark left behind (add=%v remove=%v)", am, rm))
	}
	if _, err := middleware.AccountDBManagerInstance.GetAccountDBByHash(top.StateTree); err != nil {
		bad("state", "head state root cannot be opened: "+err.Error())
	}
	// pool clause: the executed store holds exactly the transactions of the head's chain
	onChain := map[int]int{}
	for _, hash := range chain {
		if bi, ok := c.h.byHash[hash]; ok {
			for _, t := range c.h.blocks[bi].txs {
				onChain[t]++
			}
		}
	}
	pool := service.GetTransactionPool()
	for i, t := range c.h.txu {
		ex := pool.GetExecuted(t.Hash) != nil
		switch {
		case onChain[i] > 1:
			bad("pool-tx-twice", fmt.Sprintf("transaction %d is carried by %d blocks of the head's chain", i+1, onChain[i]))
		case onChain[i] == 1 && !ex:
			bad("pool-chain-tx-not-executed", fmt.Sprintf("transaction %d of a block on the head's chain is not in the executed store", i+1))
		case onChain[i] == 0 && ex:
			bad("pool-executed-off-chain", fmt.Sprintf("transaction %d is in the executed store but in no block of the head's chain", i+1))
		}
		if ex && onChain[i] == 1 {
			if got := pool.GetExecuted(t.Hash).Receipt.BlockHash; chain[heightOf(c.h, got)] != got {
				bad("pool-executed-wrong-block", fmt.Sprintf("executed record of transaction %d names a block that is not on the head's chain", i+1))
			}
		}
	}
	return ok
}

func heightOf(h *history, x common.Hash) uint64 {
	if i, ok := h.byHash[x]; ok {
		return h.blocks[i].hdr.Height
	}
	return 1 << 62
}

// ---------- tree helpers on the universe ----------
func (h *history) ancestors(i int) []int { // i, parent(i), ..., 0
	var l []int
	for ; i >= 0; i = h.blocks[i].parent {
		l = append(l, i)
	}
	return l
}

// blocks on the tree path old head -> common ancestor -> new head
func (h *history) path(a, b int) map[int]bool {
	aa, bb := h.ancestors(a), h.ancestors(b)
	inB := map[int]bool{}
	for _, x := range bb {
		inB[x] = true
	}
	res := map[int]bool{}
	fork := 0
	for _, x := range aa {
		res[x] = true
		if inB[x] {
			fork = x
			break
		}
	}
	for _, x := range bb {
		res[x] = true
		if x == fork {
			break
		}
	}
	return res
}

func lexLess(pa *big.Int, ha common.Hash, pb *big.Int, hb common.Hash) bool {
	if c := pa.Cmp(pb); c != 0 {
		return c < 0
	}
	return new(big.Int).SetBytes(ha.Bytes()).Cmp(new(big.Int).SetBytes(hb.Bytes())) < 0
}

// ---------- write classification ----------
func (h *history) classify(w wrec) (int, uint64) {
	if w.store == 1 {
		return 12, 0
	}
	if w.store == 2 {
		// MarkExecuted: one batch of puts (arg = the transaction ids in batch order, base 32);
		// UnMarkExecuted: one delete per transaction
		var enc uint64
		for _, e := range w.kvs {
			i, ok := h.txIdx[common.BytesToHash([]byte(e.k))]
			if !ok || len(e.k) != 32 {
				return 96, 0
			}
			if e.del {
				if len(w.kvs) != 1 {
					return 96, 0
				}
				return 14, uint64(i + 1)
			}
			enc = enc*32 + uint64(i+1)
		}
		return 13, enc
	}
	if len(w.kvs) != 1 {
		return 98, 0
	}
	e := w.kvs[0]
	k := e.k
	switch {
	case k == "blockaddBlockMark":
		if e.del {
			return 2, 0
		}
		if b, err := types.UnMarshalBlock(e.v); err == nil {
			return 1, h.idOfHash(b.Header.Hash)
		}
		return 1, 9999
	case k == "blockremoveBlockMark":
		if e.del {
			return 4, 0
		}
		if b, err := types.UnMarshalBlock(e.v); err == nil {
			return 3, h.idOfHash(b.Header.Hash)
		}
		return 3, 9999
	case strings.HasPrefix(k, "block") && len(k) == 5+32:
		id := h.idOfHash(common.BytesToHash([]byte(k[5:])))
		if e.del {
			return 6, id
		}
		return 5, id
	case k == "heightbcurrent":
		if hd, err := types.UnMarshalBlockHeader(e.v); err == nil && !e.del {
			return 11, h.idOfHash(hd.Hash)
		}
		return 11, 9999
	case strings.HasPrefix(k, "height") && len(k) == 6+8:
		ht := binary.BigEndian.Uint64([]byte(k[6:]))
		if e.del {
			return 8, ht
		}
		return 7, ht
	case strings.HasPrefix(k, "verifyHash") && len(k) == 10+8:
		ht := utility.ByteToUInt64([]byte(k[10:]))
		if e.del {
			return 10, ht
		}
		return 9, ht
	}
	return 97, 0
}

var className = map[int]string{1: "addMark", 2: "delAddMark", 3: "rmMark", 4: "delRmMark", 5: "putHash", 6: "delHash",
	7: "putHeight", 8: "delHeight", 9: "putVerify", 10: "delVerify", 11: "putHead", 12: "state", 13: "markExecuted", 14: "unmarkExecuted",
	96: "pool-other", 97: "other", 98: "batch"}

type clsT struct {
	c int
	a uint64
}

// number of model-level writes completed by the first m real writes of an operation (state-store
// batches after a putHeight count as ONE model write, complete when the last of them is in; a block
// without transactions issues no pool write where the model has the no-op WExec [])
func modelK(cl []clsT, m int) int {
	k := 0
	for i := 0; i < m; i++ {
		if cl[i].c != 12 {
			k++
			if cl[i].c == 7 && (i+1 >= len(cl) || cl[i+1].c != 12) {
				k++ // insert with no state write at all: the model's WState is a no-op
			}
			if cl[i].c == 9 && (i+1 >= len(cl) || cl[i+1].c != 13) {
				k++ // insert of a block without transactions: the model's WExec [] is a no-op
			}
			continue
		}
		if i+1 >= len(cl) || cl[i+1].c != 12 {
			if i+1 <= m {
				k++
			}
		}
	}
	return k
}

func coqPairs(cl []clsT) string {
	var p []string
	for _, x := range cl {
		if x.c != 12 {
			p = append(p, fmt.Sprintf("(%s, %s)", hx.CoqN(uint64(x.c)), hx.CoqN(x.a)))
		}
	}
	return hx.CoqList(p)
}

func resCode(r types.AddBlockResult) uint64 {
	switch r {
	case types.AddBlockSucc:
		return 0
	case types.BlockExisted:
		return 1
	case types.BlockTotalQnLessThanLocal:
		return 2
	case types.NoPreOnChain:
		return 3
	case types.AddBlockFailed:
		return 4
	}
	return 50 + uint64(uint8(r))
}

// ---------- one history ----------
type opRec struct {
	kind       string // "deliver", "fork" (one triggerOnChain call) or "aux" (fork bookkeeping, no chain write)
	aux        string // Coq step of an aux op
	bi         int
	res        uint64
	start, end int // slice of the write log
	cls        []clsT
	obs        obsT
	headBefore int
	headAfter  int
	crashSteps []string
}

func (c *ctx) runHistory(r *hx.Rng, tier string, hi int) (string, interface{}) {
	w, h, res := c.w, c.h, c.res
	// ---- pass A ----
	w.setStores(w.g0, w.g1, content{})
	if err := w.restart(); err != nil {
		panic(err)
	}
	w.rec.log = nil
	w.rec.on = true
	var desc []string
	for i, b := range h.blocks {
		if i > 0 {
			tx := ""
			if len(b.txs) > 0 {
				tx = fmt.Sprintf(" tx=%v", b.txs)
			}
			desc = append(desc, fmt.Sprintf("b%d{id%d pre=b%d h=%d tqn=%d pv=%s%s}", i, b.id, b.parent, b.hdr.Height, b.hdr.TotalQN, pvDesc(b), tx))
		}
	}
	regime := ""
	if w.pre018 {
		regime = " [pre-018 regime: failed transactions (ids 6-8) are in the body and in EvictedTxs]"
	}
	c.seq = fmt.Sprintf("seed-history %d%s: %s; deliver %v", hi, regime, strings.Join(desc, " "), h.deliver)
	ch := core.GetBlockChain()
	var ops []*opRec
	opNo := 0
	forkCause := func() string { return "other" } // why a fork switch stopped (set by the session)
	// one chain operation (a delivery or one triggerOnChain call of the block fork) with all checks
	runOp := func(kind string, bi int, label string, call func() uint64) *opRec {
		di := opNo
		opNo++
		op := &opRec{kind: kind, bi: bi, start: len(w.rec.log)}
		op.headBefore = h.byHash[ch.TopBlock().Hash]
		old := ch.TopBlock()
		func() {
			defer func() {
				if e := recover(); e != nil {
					res.Violate("C05/panic:"+kind, fmt.Sprint(e), c.seq+"; "+label)
					op.res = 4
				}
			}()
			op.res = call()
		}()
		op.end = len(w.rec.log)
		for _, wr := range w.rec.log[op.start:op.end] {
			cc, a := h.classify(wr)
			op.cls = append(op.cls, clsT{cc, a})
		}
		op.obs = c.observe("quiescent")
		nw := ch.TopBlock()
		op.headAfter = h.byHash[nw.Hash]
		where := fmt.Sprintf("%s; after operation #%d (%s)", c.seq, di, label)
		if kind == "fork" {
			fh, fc, fl := core.VerifBCForkState()
			where += fmt.Sprintf("; fork header height %d, current %d, latest height %d; head b%d -> b%d", fh, fc, fl.Height, op.headBefore, h.byHash[ch.TopBlock().Hash])
		}
		c.checkInv("quiescent", where)
		// pool clause, volatile half: transactions of blocks this delivery took off the chain are pending
		// again unless the new chain carries them; no transaction of the new chain is pending
		{
			newTx, pend := map[int]bool{}, map[common.Hash]bool{}
			for _, x := range h.ancestors(op.headAfter) {
				for _, t := range h.blocks[x].txs {
					newTx[t] = true
				}
			}
			for _, t := range service.GetTransactionPool().GetReceived() {
				pend[t.Hash] = true
			}
			na := h.ancestors(op.headAfter)
			for _, x := range h.ancestors(op.headBefore) {
				if contains(na, x) {
					break
				}
				for _, t := range h.blocks[x].txs {
					if !newTx[t] && !pend[h.txu[t].Hash] {
						res.Violate("C05/pool-removed-tx-not-pending", fmt.Sprintf("transaction %d of removed block b%d is neither on the new chain nor pending", t+1, x), where)
					}
				}
			}
			for t := range newTx {
				if pend[h.txu[t].Hash] {
					res.Violate("C05/pool-chain-tx-pending", fmt.Sprintf("transaction %d is on the head's chain and still pending", t+1), where)
				}
			}
		}
		// state-store writes only between putHeight and putVerify of an insert
		for i, x := range op.cls {
			if x.c == 12 && (i == 0 || (op.cls[i-1].c != 7 && op.cls[i-1].c != 12)) {
				res.Violate("C05/write-order:state", "state-store write not directly after the height-index put", where)
			}
			if x.c >= 96 {
				res.Violate("C05/write-order:unknown", fmt.Sprintf("unclassified store write %q", w.rec.log[op.start+i].kvs[0].k), where)
			}
		}
		// weight: cumulative QN, then (prove value, hash) at the fork point
		move := "nochange"
		if nw.Hash != old.Hash {
			anc := h.ancestors(op.headAfter)
			ext := false
			for _, x := range anc {
				if x == op.headBefore {
					ext = true
				}
			}
			move = "extend"
			if !ext {
				move = "reorg-higher-qn"
			}
			if nw.TotalQN < old.TotalQN {
				key := "C05/weight:qn-decreased"
				if kind == "fork" {
					key = "C05/weight:qn-decreased-fork-switch:" + forkCause()
				}
				res.Violate(key, fmt.Sprintf("head moved from TotalQN %d to %d", old.TotalQN, nw.TotalQN), where)
			} else if nw.TotalQN == old.TotalQN && !ext {
				move = "reorg-tie"
				// children of the fork point on either side
				pa := h.path(op.headBefore, op.headAfter)
				oa, na := h.ancestors(op.headBefore), h.ancestors(op.headAfter)
				var oc, nc = -1, -1
				for i := 0; i+1 < len(oa); i++ {
					if pa[oa[i]] && !contains(na, oa[i]) {
						oc = oa[i]
					}
				}
				for i := 0; i+1 < len(na); i++ {
					if pa[na[i]] && !contains(oa, na[i]) {
						nc = na[i]
					}
				}
				if oc >= 0 && nc >= 0 && lexLess(h.blocks[nc].hdr.ProveValue, h.blocks[nc].hdr.Hash, h.blocks[oc].hdr.ProveValue, h.blocks[oc].hdr.Hash) {
					key := "C05/weight:tie-break"
					if kind == "fork" {
						key = "C05/weight:qn-decreased-fork-switch:" + forkCause()
					}
					res.Violate(key, "equal cumulative QN and the new branch has the lower (prove value, hash) at the fork point", where)
				}
			}
		}
		rn := map[uint64]string{0: "succ", 1: "existed", 2: "qnless", 3: "nopre", 4: "failed"}[op.res]
		if kind == "fork" {
			rn = map[uint64]string{0: "stopped", 1: "done", 4: "panic"}[op.res]
		}
		class := fmt.Sprintf("%s:%s:%s", kind, rn, move)
		res.Count(class, fmt.Sprintf("h%d/d%d", hi, di), op.end > op.start)
		ops = append(ops, op)
		return op
	}
	auxOp := func(step string) {
		ops = append(ops, &opRec{kind: "aux", aux: step, start: len(w.rec.log), end: len(w.rec.log)})
	}
	deliverOne := func(bi int) {
		blk, err := types.UnMarshalBlock(h.blocks[bi].raw)
		if err != nil {
			panic(err)
		}
		runOp("deliver", bi, fmt.Sprintf("deliver b%d", bi), func() uint64 { return resCode(ch.AddBlockOnChain(blk)) })
	}
	// a sync session: block fork on a common ancestor taken from the chain now; the segment to a tip of
	// the universe is fed to it after [stale] more deliveries (the local chain may move meanwhile); then
	// triggerOnChain is called the way tryTriggerOnChain does (again until done or no progress)
	type session struct {
		header, tip, stale int
	}
	var sess *session
	finishSession := func() {
		se := sess
		sess = nil
		var seg []int
		for x := se.tip; x != se.header && x >= 0; x = h.blocks[x].parent {
			seg = append([]int{x}, seg...)
		}
		for _, x := range seg {
			blk, _ := types.UnMarshalBlock(h.blocks[x].raw)
			err := core.VerifBCForkAdd(blk)
			auxOp(fmt.Sprintf("Fa %d %s", x, hx.CoqBool(err == nil)))
			if err != nil {
				break
			}
		}
		forkCause = func() string {
			_, cur, _ := core.VerifBCForkState()
			for _, x := range seg {
				if h.blocks[x].hdr.Height == cur {
					if ch.QueryBlockByHash(h.blocks[x].hdr.Hash) != nil {
						return "next-fork-block-already-on-chain"
					}
					for _, a := range h.ancestors(h.blocks[x].parent) {
						for _, t := range h.blocks[a].txs {
							for _, t2 := range h.blocks[x].txs {
								if t == t2 {
									return "next-fork-block-reuses-ancestor-tx"
								}
							}
						}
					}
					// the head is neither a fork block nor at or below the header: the on-chain callback pulled a
					// waiting orphan in, and the next fork block lost the fork choice against it (lower QN,
					// or equal QN and lower prove value / hash)
					hd := h.byHash[ch.TopBlock().Hash]
					if !contains(seg, hd) && !contains(h.ancestors(se.header), hd) && h.blocks[x].hdr.TotalQN <= ch.TopBlock().TotalQN {
						return "next-fork-block-lighter-than-pulled-in-orphan"
					}
				}
			}
			return "other"
		}
		_, _, flatest := core.VerifBCForkState()
		if flatest.TotalQN >= ch.TopBlock().TotalQN { // tryTriggerOnChain's condition (block half)
			paused := uint64(0)
			for round := 0; round < 6; round++ {
				op := runOp("fork", se.tip, fmt.Sprintf("fork switch header b%d tip b%d (triggerOnChain call %d)", se.header, se.tip, round+1), func() uint64 {
					if core.VerifBCForkTriggerOnChain() {
						return 1
					}
					return 0
				})
				_, cur, _ := core.VerifBCForkState()
				if op.res == 1 || paused == cur {
					break
				}
				paused = cur
			}
		}
		core.VerifBCForkDestroy()
		auxOp("Fd")
	}
	for di, bi := range h.deliver {
		if sc, ok := h.script[di]; ok && core.VerifBCForkNew(h.blocks[sc[0]].hdr.Hash) {
			sess = &session{header: sc[0], tip: sc[1]}
			auxOp(fmt.Sprintf("Fn %d", sc[0]))
		}
		if sess == nil && !h.noFork && r.Intn(5) == 0 {
			// header: the head or up to three blocks below it; tip: a universe block above the header
			top := h.byHash[ch.TopBlock().Hash]
			onChain := h.ancestors(top)
			hd := top
			for k := r.Intn(4); k > 0 && h.blocks[hd].parent >= 0; k-- {
				hd = h.blocks[hd].parent
			}
			var tips, heavy []int
			for x := range h.blocks {
				if x != hd && contains(h.ancestors(x), hd) {
					tips = append(tips, x)
				}
				if !contains(onChain, x) && h.blocks[x].hdr.TotalQN >= ch.TopBlock().TotalQN {
					heavy = append(heavy, x)
				}
			}
			tip := -1
			if len(heavy) > 0 && r.Intn(10) < 7 {
				// the usual case: a competing branch at least as heavy, forked on the real common ancestor
				tip = heavy[r.Intn(len(heavy))]
				for _, a := range h.ancestors(tip) {
					if contains(onChain, a) {
						hd = a
						break
					}
				}
				if r.Intn(4) == 0 && h.blocks[hd].parent >= 0 { // header below the real common ancestor
					hd = h.blocks[hd].parent
				}
			} else if len(tips) > 0 {
				tip = tips[r.Intn(len(tips))]
			}
			if tip >= 0 && core.VerifBCForkNew(h.blocks[hd].hdr.Hash) {
				sess = &session{header: hd, tip: tip, stale: r.Intn(3)}
				auxOp(fmt.Sprintf("Fn %d", hd))
			}
		}
		if sess != nil {
			if sess.stale == 0 {
				finishSession()
			} else {
				sess.stale--
			}
		}
		deliverOne(bi)
	}
	if sess != nil {
		finishSession()
	}
	if sc, ok := h.script[len(h.deliver)]; ok && core.VerifBCForkNew(h.blocks[sc[0]].hdr.Hash) {
		sess = &session{header: sc[0], tip: sc[1]}
		auxOp(fmt.Sprintf("Fn %d", sc[0]))
		finishSession()
	}
	w.rec.on = false
	log := w.rec.log
	// ---- pass B: every crash point ----
	c0, c1, c2 := w.g0.clone(), w.g1.clone(), content{}
	applied := 0
	advance := func(m int) {
		for ; applied < m; applied++ {
			switch log[applied].store {
			case 0:
				c0.apply(log[applied])
			case 1:
				c1.apply(log[applied])
			default:
				c2.apply(log[applied])
			}
		}
	}
	for oi, op := range ops {
		n := op.end - op.start
		if n == 0 {
			continue
		}
		allowed := h.path(op.headBefore, op.headAfter)
		for m := 1; m <= n; m++ {
			advance(op.start + m)
			k := modelK(op.cls, m)
			last := op.cls[m-1]
			site := className[last.c]
			if m == n {
				site = "complete"
			}
			what := "delivery"
			if op.kind == "fork" {
				what = "triggerOnChain call of a fork switch with tip"
			}
			where := fmt.Sprintf("%s; operation #%d (%s b%d), crash after write %d/%d (%s)", c.seq, oi, what, op.bi, m, n, className[last.c])
			// the repair itself, recorded
			w.setStores(c0, c1, c2)
			w.rec.log, w.rec.on = nil, true
			func() {
				defer func() {
					if e := recover(); e != nil {
						res.Violate("C05/panic:repair", fmt.Sprint(e), where)
					}
				}()
				core.VerifBCRepairOnly(w.wrapIndex)
			}()
			w.rec.on = false
			rlog := w.rec.log
			for _, wr := range rlog {
				if wr.store == 1 {
					res.Violate("C05/write-order:repair-state", "repair wrote to the state store", where)
				}
			}
			cuts := []int{0}
			if len(rlog) > 0 && (tier == "thorough" || r.Intn(3) == 0) {
				for j := 1; j <= len(rlog); j++ {
					cuts = append(cuts, j)
				}
			}
			for _, j := range cuts {
				cj, pj := c0, c2
				if j > 0 {
					cj, pj = c0.clone(), c2.clone()
					for _, wr := range rlog[:j] {
						if wr.store == 0 {
							cj.apply(wr)
						} else {
							pj.apply(wr)
						}
					}
				}
				w.setStores(cj, c1, pj)
				wh := where
				js := "[]"
				cls := "crash:" + site
				if j > 0 {
					wh = fmt.Sprintf("%s, then a restart cut after %d/%d repair writes", where, j, len(rlog))
					js = fmt.Sprintf("[%d%%nat]", j)
					cls = "crash+cut-repair:" + site
				}
				if err := w.restart(); err != nil {
					res.Violate("C05/restart-failed:"+site, err.Error(), wh)
					res.Count(cls+":restart-failed", fmt.Sprintf("h%d/o%d/m%d/j%d", hi, oi, m, j), true)
					// bring the process back for the next case
					w.setStores(w.g0, w.g1, content{})
					if e2 := w.restart(); e2 != nil {
						panic(e2)
					}
					continue
				}
				o := c.observe("restart")
				c.checkInv("crash-"+site, wh)
				top := core.GetBlockChain().TopBlock()
				if hi2, ok := h.byHash[top.Hash]; op.kind == "deliver" && (!ok || !allowed[hi2]) {
					res.Violate("C05/crash-head-off-path:"+site, fmt.Sprintf("recovered head is block %d, not on the path old head -> fork point -> new head", h.idOfHash(top.Hash)), wh)
				}
				res.Count(cls, fmt.Sprintf("h%d/o%d/m%d/j%d", hi, oi, m, j), m < n || j > 0)
				if op.kind == "fork" {
					op.crashSteps = append(op.crashSteps, fmt.Sprintf("Cf %d %s %s", k, js, o.coq()))
				} else {
					op.crashSteps = append(op.crashSteps, fmt.Sprintf("Cr %d %d %s %s", op.bi, k, js, o.coq()))
				}
			}
		}
	}
	// ---- model case ----
	var bl []string
	for _, b := range h.blocks {
		pre := uint64(0)
		if b.parent >= 0 {
			pre = h.blocks[b.parent].id
		}
		pv := b.pvId
		var tl []string
		for _, t := range b.txs {
			tl = append(tl, fmt.Sprint(t+1))
		}
		bl = append(bl, fmt.Sprintf("B %d %d %d %d %d %d %s", b.id, pre, b.hdr.Height, b.hdr.TotalQN, pv, b.rootId, hx.CoqList(tl)))
	}
	var steps []string
	for _, op := range ops {
		steps = append(steps, op.crashSteps...)
		switch op.kind {
		case "aux":
			steps = append(steps, op.aux)
		case "fork":
			steps = append(steps, fmt.Sprintf("Ft %s %s %s", hx.CoqBool(op.res == 1), coqPairs(op.cls), op.obs.coq()))
		default:
			steps = append(steps, fmt.Sprintf("Dl %d %s %s %s", op.bi, hx.CoqN(op.res), coqPairs(op.cls), op.obs.coq()))
		}
	}
	term := "(" + hx.CoqList(bl) + "%N,\n  " + hx.CoqList(steps) + ")"
	return term, map[string]interface{}{"history": c.seq, "steps": len(steps)}
}

// ---------- first start: insertGenesisBlock cut after every store write ----------
func (w *world) genesisPass(res *hx.Result) (string, interface{}) {
	h := &history{byHash: map[common.Hash]int{w.genesis.Hash: 0}, txIdx: map[common.Hash]int{}}
	h.blocks = []*blk{{hdr: w.genesis, parent: -1, id: 1, rootId: 1}}
	c := &ctx{w: w, h: h, res: res, seq: "first start (insertGenesisBlock)"}
	log := w.genesisLog
	nState := 0
	var cls []clsT
	for _, wr := range log {
		cc, a := h.classify(wr)
		cls = append(cls, clsT{cc, a})
		if wr.store == 1 {
			nState++
		}
	}
	var steps []string
	c0, c1 := content{}, content{}
	for m := 0; m <= len(log); m++ {
		if m > 0 {
			if log[m-1].store == 0 {
				c0.apply(log[m-1])
			} else {
				c1.apply(log[m-1])
			}
		}
		// model-level prefix: the state commit counts as one write, complete when all its batches are in
		k, st := 0, 0
		for i := 0; i < m; i++ {
			if log[i].store == 1 {
				st++
				if st == nState {
					k++
				}
			} else {
				k++
			}
		}
		site := "nothing"
		if m > 0 {
			site = className[cls[m-1].c]
		}
		if _, ok := c0["heightbcurrent"]; !ok {
			// without the head record the restart creates genesis again, which works once per process
			// only; these prefixes are covered by the model alone (idempotent re-insertion)
			continue
		}
		where := fmt.Sprintf("first start cut after write %d/%d (%s) of insertGenesisBlock, then a restart", m, len(log), site)
		w.setStores(c0, c1, content{})
		if err := w.restart(); err != nil {
			res.Violate("C05/genesis-restart-failed:"+site, err.Error(), where)
			w.setStores(w.g0, w.g1, content{})
			if e2 := w.restart(); e2 != nil {
				panic(e2)
			}
			continue
		}
		o := c.observe("genesis")
		c.checkInv("genesis-crash-"+site, where)
		res.Count("genesis-crash:"+site, fmt.Sprintf("g/m%d", m), m < len(log))
		if st == 0 || st == nState { // a partly written state commit has no model-level counterpart
			steps = append(steps, fmt.Sprintf("Gn %d %s", k, o.coq()))
		}
	}
	for i, x := range cls {
		if x.c >= 96 {
			res.Violate("C05/write-order:unknown", fmt.Sprintf("unclassified store write %q of insertGenesisBlock", log[i].kvs[0].k), c.seq)
		}
	}
	steps = append([]string{"Gw " + coqPairs(cls)}, steps...)
	term := "(" + hx.CoqList([]string{"B 1 0 0 0 0 1 []"}) + "%N,\n  " + hx.CoqList(steps) + ")"
	return term, map[string]interface{}{"history": c.seq, "steps": len(steps)}
}

// rank and shape of a prove value for replays: #rank:bits:low64
func pvDesc(b *blk) string {
	pv := b.hdr.ProveValue
	if pv == nil {
		pv = new(big.Int)
	}
	return fmt.Sprintf("#%d(%dbit,low64=%x)", b.pvId, pv.BitLen(), new(big.Int).And(pv, new(big.Int).SetUint64(^uint64(0))).Uint64())
}

func contains(l []int, x int) bool {
	for _, y := range l {
		if y == x {
			return true
		}
	}
	return false
}

func main() {
	a := hx.ParseArgs()
	if pf := os.Getenv("C05_PROF"); pf != "" {
		f, _ := os.Create(pf)
		pprof.StartCPUProfile(f)
		defer pprof.StopCPUProfile()
	}
	rng := hx.NewRng(a.Seed)
	res := hx.NewResult("one evaluation = the invariant/weight/head-on-path checks on the real chain after one delivery, or after one restart from one crash point (store content = first m writes of the delivery, optionally + first j writes of a cut repair); nontrivial = the delivery wrote to the store, resp. the crash point lies strictly inside the operation or the repair was cut; distinct = distinct (history, operation, m, j)")
	w := boot()
	if os.Getenv("C05_SIDE") != "" {
		w.progress = filepath.Join(a.Out, "progress.txt")
		if a.Tier == "thorough" {
			w.deepReorgs(res, rng.Fork(), 10)
		} else {
			w.deepReorgs(res, rng.Fork(), 3)
		}
		res.Write(a.Out) // kept if a later scenario takes the process down
		w.gatedReaders(res)
		res.Write(a.Out)
		return
	}
	cs := hx.NewCases(a.Out, "From V.C05 Require Import Model Harness.", "list block * list step", "check", 12)
	t0 := time.Now()
	nh := a.N
	{
		term, js := w.genesisPass(res)
		cs.Add(term, js)
	}
	runSide(a, res)
	{
		h := w.genCacheHistory(100000)
		c := &ctx{w: w, h: h, res: res}
		term, js := c.runHistory(rng.Fork(), a.Tier, 100000)
		cs.Add(term, js)
		h = w.genForkOrphanHistory(100001)
		c = &ctx{w: w, h: h, res: res}
		term, js = c.runHistory(rng.Fork(), a.Tier, 100001)
		cs.Add(term, js)
	}
	for hi := 0; hi < nh; hi++ {
		// tree building commits states; put the state store back to genesis afterwards (setStores in runHistory)
		var h *history
		if hi%4 == 3 {
			h = w.genTieHistory(rng, hi)
		} else {
			h = w.genHistory(rng, a.Tier, hi)
		}
		c := &ctx{w: w, h: h, res: res}
		term, js := c.runHistory(rng, a.Tier, hi)
		cs.Add(term, js)
		if hi < 3 {
			res.Sample(js)
		}
	}
	cs.Close()
	res.Note(fmt.Sprintf("%d histories, %d evaluations in %s", nh, res.Evaluations, time.Since(t0).Round(time.Millisecond)))
	res.Note("transactions are of a type without executor (failed receipt, nonce bump): MarkExecuted/UnMarkExecuted and the executed-check of verifyBlock are exercised, transaction execution itself is not (C01/C06)")
	res.ModelCases = cs.Total()
	res.Write(a.Out)
	keys := make([]string, 0, len(res.Histogram))
	for k := range res.Histogram {
		keys = append(keys, k)
	}
	sort.Strings(keys)
	for _, k := range keys {
		fmt.Printf("%6d  %s\n", res.Histogram[k], k)
	}
	fmt.Println(res.Notes[0])
	os.Stdout.Sync()
}
