// C07 harness: TxPool.VerifyTransaction (native and wrapped-Ethereum transactions) against the Coq model,
// plus the direct search: honest transactions must be accepted, every mutant must be rejected, and every
// accepted transaction must satisfy the property's conjuncts as recomputed independently here.
package main

import (
	"bytes"
	"com.tuntun.rangers/node/src/eth_rpc"
	"runtime/debug"
	"com.tuntun.rangers/node/src/executor"
	"com.tuntun.rangers/node/src/vm"
	"com.tuntun.rangers/node/src/core"
	"com.tuntun.rangers/node/src/middleware/notify"
	"com.tuntun.rangers/node/src/network"
	"go/ast"
	"go/parser"
	"go/token"
	"path/filepath"
	"crypto/ecdsa"
	"crypto/sha256"
	"encoding/hex"
	"fmt"
	"math/big"
	"os"
	"sort"
	"strconv"
	"strings"

	"com.tuntun.rangers/node/src/common"
	csecp "com.tuntun.rangers/node/src/common/secp256k1"
	crypto "com.tuntun.rangers/node/src/eth_crypto"
	"com.tuntun.rangers/node/src/eth_tx"
	"com.tuntun.rangers/node/src/middleware"
	"com.tuntun.rangers/node/src/middleware/types"
	"com.tuntun.rangers/node/src/service"
	"com.tuntun.rangers/node/src/storage/rlp"
	"golang.org/x/crypto/sha3"
	"verif/harness/hx"
)

var height uint64 = 100

// setHeight: the height handed to VerifyTransaction and the chain id the configuration gives it
// The chain id in force is computed HERE from the configuration (independent oracle, same rule as the Coq
// model's chain_id_at): OriginalChainId below Proposal001Block, ChainId from it on.  common.ChainId /
// common.GetChainId are what the implementation uses; they are never consulted for expectations.
func setHeight(h uint64) {
	height = h
	cfg := common.LocalChainConfig
	chainStr = cfg.OriginalChainId
	if h >= cfg.Proposal001Block {
		chainStr = cfg.ChainId
	}
	var ok bool
	chainBig, ok = new(big.Int).SetString(chainStr, 10)
	if !ok || chainBig.String() != chainStr {
		fmt.Println("chain id configuration is not a decimal number:", chainStr)
		os.Exit(2)
	}
	common.SetBlockHeight(h) // the height the peer-push handler reads
}

var (
	res      *hx.Result
	cs       *hx.Cases
	pool     service.TransactionPool
	chainStr string
	chainBig *big.Int
	secpN, _ = new(big.Int).SetString("fffffffffffffffffffffffffffffffebaaedce6af48a03bbfd25e8cd0364141", 16)
	halfN    = new(big.Int).Rsh(secpN, 1)
)

// ---------- running the implementation ----------
func verdictCode(err error) int {
	switch err {
	case nil:
		return 0
	case service.ErrChainId:
		return 1
	case service.ErrHash:
		return 2
	case service.ErrSign:
		return 3
	case service.ErrIllegal:
		return 4
	case service.ErrNil:
		return 5
	}
	return 9
}

// returns verdict code, or 100 on panic
func runVerify(tx *types.Transaction) (code int, pmsg string) {
	defer func() {
		if p := recover(); p != nil {
			code, pmsg = 100, fmt.Sprint(p)
		}
	}()
	cp := *tx
	if tx.Sign != nil {
		cp.Sign = common.BytesToSign(tx.Sign.Bytes())
	}
	return verdictCode(pool.VerifyTransaction(&cp, height)), ""
}

func keccak(b []byte) []byte {
	h := sha3.NewLegacyKeccak256()
	h.Write(b)
	return h.Sum(nil)
}

// ---------- Coq literals ----------
func hs(s string) string {
	for i := 0; i < len(s); i++ {
		if s[i] < 0x20 || s[i] > 0x7e {
			return "(H " + hx.CoqHex([]byte(s)) + ")"
		}
	}
	return "(A " + hx.CoqStr(s) + ")"
}

func optS(have, declared string) string {
	if have == declared {
		return "None"
	}
	return "(Some " + hs(have) + ")"
}

func coqTx(tx *types.Transaction) string {
	sg := "\"\""
	if tx.Sign != nil {
		sg = hx.CoqHex(tx.Sign.Bytes())
	}
	return fmt.Sprintf("(T %s %s (%d)%%Z %s %s %s %s %s %d%%N %s)", hs(tx.Source), hs(tx.Target), tx.Type, hs(tx.Time),
		hs(tx.Data), hs(tx.ExtraData), hx.CoqHex(tx.Hash.Bytes()), sg, tx.Nonce, hs(tx.ChainId))
}

func jsonTx(tx *types.Transaction) map[string]interface{} {
	sg := ""
	if tx.Sign != nil {
		sg = hex.EncodeToString(tx.Sign.Bytes())
	}
	q := func(s string) string { return strconv.QuoteToASCII(s) }
	return map[string]interface{}{"Source": q(tx.Source), "Target": q(tx.Target), "Type": tx.Type, "Time": q(tx.Time), "Data": q(tx.Data),
		"ExtraData": q(tx.ExtraData), "Hash": hex.EncodeToString(tx.Hash.Bytes()), "Sign": sg, "Nonce": tx.Nonce, "ChainId": q(tx.ChainId)}
}

type oent struct {
	h, rs []byte
	v     byte
	pub   []byte
	ok    bool
}

func (o oent) coq() string {
	p := "None"
	if o.pub != nil {
		p = "(Some " + hx.CoqHex(o.pub) + ")"
	}
	return fmt.Sprintf("O %s %s %d%%N %s %s", hx.CoqHex(o.h), hx.CoqHex(o.rs), o.v, p, hx.CoqBool(o.ok))
}

// what libsecp256k1 answers for the native path (common/secp256k1, as used by common.Sign)
func nativeOracle(tx *types.Transaction) []oent {
	if tx.Sign == nil {
		return nil
	}
	sb := tx.Sign.Bytes()
	v := sb[64]
	if v > 26 {
		v -= 27
	}
	if v >= 4 {
		return nil
	}
	h := tx.Hash.Bytes()
	e := oent{h: h, rs: append([]byte{}, sb[:64]...), v: v}
	func() {
		defer func() { recover() }()
		pub, err := csecp.RecoverPubkey(h, append([]byte{}, sb...))
		if err == nil && len(pub) == 65 {
			e.pub = pub[1:]
			e.ok = csecp.VerifySignature(pub, h, sb[:64])
		}
	}()
	return []oent{e}
}

type rawTx struct {
	Nonce uint64
	Price *big.Int
	Gas   uint64
	To    *common.Address `rlp:"nil"`
	Value *big.Int
	Data  []byte
	V     *big.Int
	R     *big.Int
	S     *big.Int
}

func pad32(b *big.Int) []byte {
	x := b.Bytes()
	if len(x) > 32 {
		return nil
	}
	r := make([]byte, 32)
	copy(r[32-len(x):], x)
	return r
}

func sigHash(t *rawTx, chain *big.Int) []byte {
	var to interface{} = []byte{}
	if t.To != nil {
		to = t.To[:]
	}
	l := []interface{}{t.Nonce, t.Price, t.Gas, to, t.Value, t.Data}
	if chain != nil {
		l = append(l, chain, uint(0), uint(0))
	}
	b, err := rlp.EncodeToBytes(l)
	if err != nil {
		panic(err)
	}
	return keccak(b)
}

// oracle entries for the Ethereum path: both digests the signer may use, both recovery ids
func ethOracle(enc []byte) []oent {
	var t rawTx
	if rlp.DecodeBytes(enc, &t) != nil {
		return nil
	}
	r, s := pad32(t.R), pad32(t.S)
	if r == nil || s == nil {
		return nil
	}
	// the one query EIP155Signer.Sender can make: Homestead digest for V = 27/28, this chain's EIP-155 digest
	// for V = 35/36 + 2*chain; no query otherwise
	var hashes [][]byte
	var vs []byte
	v155 := new(big.Int).Sub(t.V, new(big.Int).Add(big.NewInt(35), new(big.Int).Lsh(chainBig, 1)))
	switch {
	case t.V.Cmp(big.NewInt(27)) == 0 || t.V.Cmp(big.NewInt(28)) == 0:
		hashes, vs = [][]byte{sigHash(&t, nil)}, []byte{byte(t.V.Uint64() - 27)}
	case v155.Sign() == 0 || v155.Cmp(big.NewInt(1)) == 0:
		hashes, vs = [][]byte{sigHash(&t, chainBig)}, []byte{byte(v155.Uint64())}
	}
	var out []oent
	for _, h := range hashes {
		for _, v := range vs {
			sig := append(append(append([]byte{}, r...), s...), v)
			e := oent{h: h, rs: sig[:64], v: v, ok: true}
			pub, err := crypto.Ecrecover(h, append([]byte{}, sig...))
			if err == nil && len(pub) == 65 && pub[0] == 4 {
				e.pub = pub[1:]
			}
			out = append(out, e)
		}
	}
	return out
}

// the pieces of verifyETHTx run separately (public functions of the implementation)
func ethObs(tx *types.Transaction) string {
	if tx.Type != types.TransactionTypeETHTX {
		return "ENone"
	}
	enc := common.FromHex(tx.ExtraData)
	et := new(eth_tx.Transaction)
	if err := rlp.DecodeBytes(enc, et); err != nil {
		return "EDecFail"
	}
	sender, err := eth_tx.Sender(eth_tx.NewEIP155Signer(common.GetChainId(height)), et)
	if err != nil {
		c := 3
		if err == eth_tx.ErrInvalidChainId {
			c = 1
		} else if err == eth_tx.ErrInvalidSig {
			c = 2
		}
		return fmt.Sprintf("(ESender %d%%N)", c)
	}
	x := eth_tx.ConvertTx(et, sender, enc)
	h, n := "None", "None"
	if x.Hash != tx.Hash {
		h = "(Some " + hx.CoqHex(x.Hash.Bytes()) + ")"
	}
	if x.Nonce != tx.Nonce {
		n = fmt.Sprintf("(Some %d%%N)", x.Nonce)
	}
	return fmt.Sprintf("(EConv %s %s %s %s %s %s %s)", optS(x.Source, tx.Source), optS(x.Target, tx.Target), optS(x.Data, tx.Data), optS(x.ExtraData, tx.ExtraData), h, optS(x.ChainId, tx.ChainId), n)
}

func addCase(class string, tx *types.Transaction, code int) {
	if code >= 5 {
		return // nil / panic: reported by the direct search, outside the model
	}
	var orc []oent
	if tx.Type == types.TransactionTypeETHTX {
		orc = ethOracle(common.FromHex(tx.ExtraData))
	} else {
		orc = nativeOracle(tx)
	}
	if len(tx.Data)+len(tx.ExtraData)+len(tx.Source)+len(tx.Target)+len(tx.Time)+len(tx.ChainId) > 1400 {
		return
	}
	os := make([]string, len(orc))
	for i, o := range orc {
		os[i] = o.coq()
	}
	gh := hx.CoqHex(tx.GenHash().Bytes())
	caseNo++
	if tx.Type == types.TransactionTypeETHTX && caseNo%8 != 0 {
		gh = "\"\"" // GenHash plays no role on the Ethereum path: compared on a sample only (long preimages)
	}
	cfg := common.LocalChainConfig
	term := fmt.Sprintf("((%s, %s, %d%%N, %d%%N), %s, %s, Obs %d%%N %s %s)", hs(cfg.ChainId), hs(cfg.OriginalChainId), cfg.Proposal001Block, height, coqTx(tx), hx.CoqList(os), code, gh, ethObs(tx))
	cs.Add(term, map[string]interface{}{"class": class, "tx": jsonTx(tx), "verdict": code, "height": height,
		"config": map[string]interface{}{"ChainId": cfg.ChainId, "OriginalChainId": cfg.OriginalChainId, "Proposal001Block": cfg.Proposal001Block}})
}

// ---------- independent evaluation of the property's conjuncts on an accepted transaction ----------
func independentPreimage(tx *types.Transaction) []byte {
	var b bytes.Buffer
	b.WriteString(tx.Data)
	b.WriteString(new(big.Int).SetUint64(tx.Nonce).String())
	b.WriteString(tx.Source)
	b.WriteString(tx.Target)
	b.WriteString(fmt.Sprintf("%d", tx.Type))
	b.WriteString(tx.Time)
	b.WriteString(tx.ExtraData)
	b.WriteString(tx.ChainId)
	return b.Bytes()
}

func lowerAddr(pubXY []byte) string { return "0x" + hex.EncodeToString(keccak(pubXY)[12:]) }

// returns "" when all conjuncts hold, otherwise the name of the first failing conjunct
func nativeConjuncts(tx *types.Transaction) string {
	d := sha256.Sum256(independentPreimage(tx))
	if !bytes.Equal(d[:], tx.Hash.Bytes()) {
		return "hash-not-digest-of-content"
	}
	if tx.ChainId != chainStr {
		return "chain-id"
	}
	if tx.Sign == nil {
		return "no-signature"
	}
	sb := tx.Sign.Bytes()
	r, s := new(big.Int).SetBytes(sb[:32]), new(big.Int).SetBytes(sb[32:64])
	if r.Sign() == 0 || s.Sign() == 0 || r.Cmp(secpN) >= 0 || s.Cmp(secpN) >= 0 {
		return "signature-range"
	}
	// the declared sender's key must verify the signature: find it by recovery with both ids, verify with
	// the generic (math/big) ECDSA over the curve parameters
	for v := byte(0); v < 2; v++ {
		pub, err := crypto.Ecrecover(tx.Hash.Bytes(), append(append([]byte{}, sb[:64]...), v))
		if err != nil || len(pub) != 65 {
			continue
		}
		if lowerAddr(pub[1:]) != tx.Source {
			continue
		}
		pk := ecdsa.PublicKey{X: new(big.Int).SetBytes(pub[1:33]), Y: new(big.Int).SetBytes(pub[33:])}
		if genericVerify(&pk, tx.Hash.Bytes(), r, s) {
			return ""
		}
		return "signature-invalid-for-declared-sender"
	}
	return "recovered-key-is-not-declared-sender"
}

// textbook ECDSA verification over secp256k1 with math/big affine arithmetic (independent of libsecp256k1
// and of the repository's BitCurve, whose ScalarMult left-aligns coordinates that have a leading zero byte)
var secpP, _ = new(big.Int).SetString("fffffffffffffffffffffffffffffffffffffffffffffffffffffffefffffc2f", 16)
var secpGx, _ = new(big.Int).SetString("79be667ef9dcbbac55a06295ce870b07029bfcdb2dce28d959f2815b16f81798", 16)
var secpGy, _ = new(big.Int).SetString("483ada7726a3c4655da4fbfc0e1108a8fd17b448a68554199c47d08ffb10d4b8", 16)

type pt struct{ x, y *big.Int } // nil x = point at infinity

func ptAdd(a, b pt) pt {
	if a.x == nil {
		return b
	}
	if b.x == nil {
		return a
	}
	var l *big.Int
	if a.x.Cmp(b.x) == 0 {
		if new(big.Int).Mod(new(big.Int).Add(a.y, b.y), secpP).Sign() == 0 {
			return pt{}
		}
		num := new(big.Int).Mul(a.x, a.x)
		num.Mul(num, big.NewInt(3))
		den := new(big.Int).Lsh(a.y, 1)
		l = num.Mul(num, den.ModInverse(den, secpP))
	} else {
		num := new(big.Int).Sub(b.y, a.y)
		den := new(big.Int).Sub(b.x, a.x)
		den.Mod(den, secpP)
		l = num.Mul(num, den.ModInverse(den, secpP))
	}
	l.Mod(l, secpP)
	x := new(big.Int).Mul(l, l)
	x.Sub(x, a.x).Sub(x, b.x).Mod(x, secpP)
	y := new(big.Int).Sub(a.x, x)
	y.Mul(y, l).Sub(y, a.y).Mod(y, secpP)
	return pt{x, y}
}

func ptMul(k *big.Int, p pt) pt {
	acc := pt{}
	for i := k.BitLen() - 1; i >= 0; i-- {
		acc = ptAdd(acc, acc)
		if k.Bit(i) == 1 {
			acc = ptAdd(acc, p)
		}
	}
	return acc
}

func genericVerify(pub *ecdsa.PublicKey, hash []byte, r, s *big.Int) bool {
	// the key is on the curve
	lhs := new(big.Int).Mul(pub.Y, pub.Y)
	rhs := new(big.Int).Mul(pub.X, pub.X)
	rhs.Mul(rhs, pub.X).Add(rhs, big.NewInt(7))
	if lhs.Mod(lhs, secpP).Cmp(rhs.Mod(rhs, secpP)) != 0 {
		return false
	}
	e := new(big.Int).SetBytes(hash)
	w := new(big.Int).ModInverse(s, secpN)
	if w == nil {
		return false
	}
	u1 := new(big.Int).Mul(e, w)
	u1.Mod(u1, secpN)
	u2 := new(big.Int).Mul(r, w)
	u2.Mod(u2, secpN)
	q := ptAdd(ptMul(u1, pt{secpGx, secpGy}), ptMul(u2, pt{pub.X, pub.Y}))
	if q.x == nil {
		return false
	}
	return new(big.Int).Mod(q.x, secpN).Cmp(r) == 0
}

func bigIntToStr18(v *big.Int) string {
	if v.Sign() == 0 {
		return "0"
	}
	d := v.String()
	if len(d) <= 18 {
		return "0." + strings.Repeat("0", 18-len(d)) + d
	}
	return d[:len(d)-18] + "." + d[len(d)-18:]
}

func hex0x(b []byte) string {
	if len(b) == 0 {
		return "0x0"
	}
	return "0x" + hex.EncodeToString(b)
}

// strict reading of the property for a wrapped Ethereum transaction: the payload is EIP-155 for this chain and
// every declared field is the payload's
func ethConjuncts(tx *types.Transaction) string {
	if !strings.HasPrefix(tx.ExtraData, "0x") {
		return "extra-data-form"
	}
	enc, err := hex.DecodeString(tx.ExtraData[2:])
	if err != nil {
		return "extra-data-form"
	}
	var t rawTx
	if rlp.DecodeBytes(enc, &t) != nil {
		return "payload-rlp"
	}
	v0 := new(big.Int).Add(big.NewInt(35), new(big.Int).Lsh(chainBig, 1))
	rec := new(big.Int).Sub(t.V, v0)
	if !(rec.Sign() == 0 || rec.Cmp(big.NewInt(1)) == 0) {
		if t.V.Cmp(big.NewInt(27)) == 0 || t.V.Cmp(big.NewInt(28)) == 0 {
			return "unprotected-v27-28"
		}
		return "not-eip155-for-this-chain"
	}
	r, s := pad32(t.R), pad32(t.S)
	if r == nil || s == nil || t.R.Sign() == 0 || t.S.Sign() == 0 || t.R.Cmp(secpN) >= 0 || t.S.Cmp(halfN) > 0 {
		return "signature-range"
	}
	pub, err := crypto.Ecrecover(sigHash(&t, chainBig), append(append(append([]byte{}, r...), s...), byte(rec.Uint64())))
	if err != nil || len(pub) != 65 {
		return "recover"
	}
	if tx.Source != lowerAddr(pub[1:]) {
		return "sender"
	}
	tgt := ""
	if t.To != nil {
		tgt = "0x" + hex.EncodeToString(t.To[:])
	}
	if tx.Target != tgt {
		return "target"
	}
	if tx.Nonce != t.Nonce {
		return "nonce"
	}
	if tx.ChainId != chainStr {
		return "chain-id"
	}
	data := fmt.Sprintf(`{"gasPrice":"%s","gasLimit":"%d","transferValue":"%s","abiData":"%s"}`, t.Price.String(), t.Gas, bigIntToStr18(t.Value), hex0x(t.Data))
	if tx.Data != data {
		return "value-gas-data"
	}
	if !bytes.Equal(tx.Hash.Bytes(), keccak(enc)) {
		return "hash"
	}
	return ""
}

// ---------- generators ----------
func genKey(r *hx.Rng) (*common.PrivateKey, *ecdsa.PrivateKey, string) {
	for {
		d := r.Bytes(32)
		if r.Intn(16) == 0 {
			d[0], d[1] = 0, 0 // short scalar: exercises the key padding in secp256k1.Sign
		}
		k, err := crypto.ToECDSA(d)
		if err != nil {
			continue
		}
		sk := common.HexStringToSecKey("0x" + hex.EncodeToString(d))
		pub := sk.GetPubKey()
		return sk, k, pub.GetAddress().GetHexString()
	}
}

const printable = "abcdefghijklmnopqrstuvwxyzABCDEFXYZ0123456789{}[]\":,.-_ /+="

func genString(r *hx.Rng) string {
	switch r.Intn(9) {
	case 0:
		return ""
	case 1: // digits only (neighbouring decimal fields)
		n := 1 + r.Intn(6)
		b := make([]byte, n)
		for i := range b {
			b[i] = byte('0' + r.Intn(10))
		}
		return string(b)
	case 2:
		return fmt.Sprintf(`{"k%d":"%x","n":%d}`, r.Intn(100), r.Bytes(r.Intn(12)), r.Intn(1000))
	case 3:
		return string(r.Bytes(1 + r.Intn(40))) // arbitrary bytes, not UTF-8
	case 4:
		return "0x" + hex.EncodeToString(r.Bytes(20))
	case 5: // long: several SHA-256 blocks
		n := 60 + r.Intn(200)
		b := make([]byte, n)
		for i := range b {
			b[i] = printable[r.Intn(len(printable))]
		}
		return string(b)
	default:
		n := 1 + r.Intn(24)
		b := make([]byte, n)
		for i := range b {
			b[i] = printable[r.Intn(len(printable))]
		}
		return string(b)
	}
}

var nativeTypes = []int32{0, 1, 2, 3, 4, 5, 6, 7, 99, 100, 101, 110, 200, 600, 612, -1, -188, 18, 1880, 2147483647, -2147483648}

func genNonce(r *hx.Rng) uint64 {
	switch r.Intn(6) {
	case 0:
		return 0
	case 1:
		return uint64(r.Intn(10))
	case 2:
		return ^uint64(0)
	case 3:
		return r.U64()
	default:
		return uint64(r.Intn(100000))
	}
}

func signNative(tx *types.Transaction, sk *common.PrivateKey) {
	tx.Hash = tx.GenHash()
	s := sk.Sign(tx.Hash.Bytes())
	tx.Sign = &s
}

func genNative(r *hx.Rng) (*types.Transaction, *common.PrivateKey) {
	sk, _, addr := genKey(r)
	tx := &types.Transaction{Source: addr, Target: genString(r), Type: nativeTypes[r.Intn(len(nativeTypes))], Time: genString(r),
		Data: genString(r), ExtraData: genString(r), Nonce: genNonce(r), ChainId: chainStr,
		RequestId: uint64(r.Intn(3)), SocketRequestId: genString(r)}
	if r.Intn(3) == 0 {
		tx.Time = "2026-09-25 10:00:00.000"
	}
	signNative(tx, sk)
	return tx, sk
}

type mutant struct {
	class string // mutation class (also the key suffix)
	key   string
	tx    *types.Transaction
}

func clone(tx *types.Transaction) *types.Transaction {
	c := *tx
	if tx.Sign != nil {
		c.Sign = common.BytesToSign(tx.Sign.Bytes())
	}
	return &c
}

// string mutations: each result differs from s
func mutString(r *hx.Rng, s string) []string {
	out := []string{s + string([]byte{byte('0' + r.Intn(10))}), s + string(r.Bytes(1)), string(r.Bytes(1)) + s}
	if len(s) > 0 {
		b := []byte(s)
		i := r.Intn(len(b))
		b[i] ^= 1 << uint(r.Intn(8))
		out = append(out, string(b))
		j := r.Intn(len(s))
		out = append(out, s[:j]+s[j+1:], "")
		if len(s) > 1 {
			out = append(out, s[:len(s)-1], s[1:])
		}
	}
	for {
		x := genString(r)
		if x != s {
			out = append(out, x)
			break
		}
	}
	var res []string
	for _, x := range out {
		if x != s {
			res = append(res, x)
		}
	}
	return res
}

func setSign(tx *types.Transaction, b []byte) { tx.Sign = common.BytesToSign(b) }

func nativeMutants(r *hx.Rng, base *types.Transaction, sk *common.PrivateKey, thorough bool) []mutant {
	var ms []mutant
	add := func(class, key string, f func(t *types.Transaction)) {
		t := clone(base)
		f(t)
		ms = append(ms, mutant{class, key, t})
	}
	type sf struct {
		name string
		get  func(t *types.Transaction) *string
	}
	fields := []sf{
		{"Data", func(t *types.Transaction) *string { return &t.Data }},
		{"Source", func(t *types.Transaction) *string { return &t.Source }},
		{"Target", func(t *types.Transaction) *string { return &t.Target }},
		{"Time", func(t *types.Transaction) *string { return &t.Time }},
		{"ExtraData", func(t *types.Transaction) *string { return &t.ExtraData }},
		{"ChainId", func(t *types.Transaction) *string { return &t.ChainId }},
	}
	for _, f := range fields {
		f := f
		for _, v := range mutString(r, *f.get(base)) {
			v := v
			add("field:"+f.name, "C07/native-mutation:"+f.name, func(t *types.Transaction) { *f.get(t) = v })
			// the same mutant with the hash recomputed by the attacker (signature left alone)
			if r.Intn(3) == 0 {
				add("rehash:"+f.name, "C07/native-forgery:rehash-"+f.name, func(t *types.Transaction) { *f.get(t) = v; t.Hash = t.GenHash() })
			}
		}
	}
	if thorough { // every single-bit flip of every string field
		for _, f := range fields {
			f := f
			orig := *f.get(base)
			for bit := 0; bit < 8*len(orig); bit++ {
				bit := bit
				add("bit:"+f.name, "C07/native-mutation:"+f.name, func(t *types.Transaction) {
					b := []byte(orig)
					b[bit/8] ^= 1 << uint(bit%8)
					*f.get(t) = string(b)
				})
			}
		}
		for bit := 0; bit < 64; bit++ {
			bit := bit
			add("bit:Nonce", "C07/native-mutation:Nonce", func(t *types.Transaction) { t.Nonce ^= 1 << uint(bit) })
		}
		for bit := 0; bit < 32; bit++ {
			bit := bit
			if base.Type^(1<<uint(bit)) != 188 {
				add("bit:Type", "C07/native-mutation:Type", func(t *types.Transaction) { t.Type ^= 1 << uint(bit) })
			}
		}
	}
	for _, c := range []string{"", "0", "9501", "0" + chainStr, chainStr + " ", " " + chainStr, "2025", "9527", "+" + chainStr} {
		c := c
		add("field:ChainId", "C07/native-mutation:ChainId", func(t *types.Transaction) { t.ChainId = c })
		add("rehash-resign:ChainId", "C07/native-chainid:resigned-other-chain", func(t *types.Transaction) { t.ChainId = c; signNative(t, sk) })
	}
	add("field:Source", "C07/native-mutation:Source", func(t *types.Transaction) { t.Source = "0x" + strings.ToUpper(t.Source[2:]) })
	add("field:Source", "C07/native-mutation:Source", func(t *types.Transaction) { t.Source = t.Source[2:] })
	add("rehash-resign:Source", "C07/native-forgery:resigned-as-other-sender", func(t *types.Transaction) {
		t.Source = "0x" + hex.EncodeToString(r.Bytes(20))
		signNative(t, sk)
	})
	add("rehash-resign:Source-upper", "C07/native-forgery:resigned-as-other-sender", func(t *types.Transaction) {
		t.Source = "0x" + strings.ToUpper(t.Source[2:])
		if t.Source == base.Source {
			t.Source = t.Source + "0"
		}
		signNative(t, sk)
	})
	for _, n := range []uint64{base.Nonce + 1, base.Nonce - 1, base.Nonce ^ (1 << uint(r.Intn(64))), base.Nonce * 10, base.Nonce / 10, r.U64()} {
		n := n
		if n == base.Nonce {
			continue
		}
		add("field:Nonce", "C07/native-mutation:Nonce", func(t *types.Transaction) { t.Nonce = n })
		if r.Intn(3) == 0 {
			add("rehash:Nonce", "C07/native-forgery:rehash-Nonce", func(t *types.Transaction) { t.Nonce = n; t.Hash = t.GenHash() })
		}
	}
	for _, ty := range []int32{base.Type + 1, base.Type - 1, base.Type ^ (1 << uint(r.Intn(32))), -base.Type, 188, nativeTypes[r.Intn(len(nativeTypes))]} {
		ty := ty
		if ty == base.Type {
			continue
		}
		add("field:Type", "C07/native-mutation:Type", func(t *types.Transaction) { t.Type = ty })
		if r.Intn(3) == 0 {
			add("rehash:Type", "C07/native-forgery:rehash-Type", func(t *types.Transaction) { t.Type = ty; t.Hash = t.GenHash() })
		}
	}
	// hash
	nh := 6
	if thorough {
		nh = 256
	}
	for i := 0; i < nh; i++ {
		bit := r.Intn(256)
		if thorough {
			bit = i
		}
		add("field:Hash", "C07/native-mutation:Hash", func(t *types.Transaction) { t.Hash[bit/8] ^= 1 << uint(bit%8) })
	}
	add("field:Hash", "C07/native-mutation:Hash", func(t *types.Transaction) { t.Hash = common.Hash{} })
	add("field:Hash", "C07/native-mutation:Hash", func(t *types.Transaction) { t.Hash = common.BytesToHash(keccak(independentPreimage(t))) })
	// signature
	sb := base.Sign.Bytes()
	ns := 10
	if thorough {
		ns = 520
	}
	for i := 0; i < ns; i++ {
		bit := r.Intn(520)
		if thorough {
			bit = i
		}
		add("sign:bitflip", "C07/sign-mutation:bitflip", func(t *types.Transaction) {
			b := append([]byte{}, sb...)
			b[bit/8] ^= 1 << uint(bit%8)
			setSign(t, b)
		})
	}
	for bit := 512; bit < 520; bit++ { // every single-bit flip of the recovery-id byte, in every tier
		bit := bit
		add("sign:bitflip-v", "C07/sign-mutation:bitflip", func(t *types.Transaction) {
			b := append([]byte{}, sb...)
			b[bit/8] ^= 1 << uint(bit%8)
			setSign(t, b)
		})
	}
	add("sign:high-s", "C07/sign-mutation:malleated-high-s", func(t *types.Transaction) {
		b := append([]byte{}, sb...)
		s := new(big.Int).Sub(secpN, new(big.Int).SetBytes(b[32:64]))
		copy(b[32:64], pad32(s))
		b[64] = 27 + ((b[64] - 27) ^ 1)
		setSign(t, b)
	})
	add("sign:high-s-same-v", "C07/sign-mutation:malleated-high-s", func(t *types.Transaction) {
		b := append([]byte{}, sb...)
		s := new(big.Int).Sub(secpN, new(big.Int).SetBytes(b[32:64]))
		copy(b[32:64], pad32(s))
		setSign(t, b)
	})
	add("sign:v-alias", "C07/sign-mutation:recid-alias-27", func(t *types.Transaction) {
		b := append([]byte{}, sb...)
		b[64] -= 27
		setSign(t, b)
	})
	for _, dv := range []int{1, 2, 3, 4, 27, 8, 229} {
		dv := dv
		add("sign:v-other", "C07/sign-mutation:recid", func(t *types.Transaction) {
			b := append([]byte{}, sb...)
			b[64] += byte(dv)
			if b[64] == sb[64]-27 || b[64] == sb[64] {
				b[64] = 99
			}
			setSign(t, b)
		})
	}
	add("sign:zero-r", "C07/sign-mutation:degenerate", func(t *types.Transaction) {
		b := append([]byte{}, sb...)
		copy(b[:32], make([]byte, 32))
		setSign(t, b)
	})
	add("sign:zero-s", "C07/sign-mutation:degenerate", func(t *types.Transaction) {
		b := append([]byte{}, sb...)
		copy(b[32:64], make([]byte, 32))
		setSign(t, b)
	})
	add("sign:r-plus-n", "C07/sign-mutation:degenerate", func(t *types.Transaction) {
		b := append([]byte{}, sb...)
		x := new(big.Int).Add(new(big.Int).SetBytes(b[:32]), secpN)
		if p := pad32(x); p != nil {
			copy(b[:32], p)
		} else {
			copy(b[:32], bytes.Repeat([]byte{0xff}, 32))
		}
		setSign(t, b)
	})
	add("sign:all-zero", "C07/sign-mutation:degenerate", func(t *types.Transaction) { setSign(t, make([]byte, 65)) })
	add("sign:nil", "C07/sign-mutation:nil", func(t *types.Transaction) { t.Sign = nil })
	add("sign:other-key", "C07/sign-mutation:other-key", func(t *types.Transaction) {
		sk2, _, _ := genKey(r)
		s := sk2.Sign(t.Hash.Bytes())
		t.Sign = &s
	})
	add("sign:other-hash", "C07/sign-mutation:other-hash", func(t *types.Transaction) {
		s := sk.Sign(keccak(t.Hash.Bytes()))
		t.Sign = &s
	})
	return ms
}

// two-field boundary shifts: the preimage is unchanged (outside the property: not a single-field mutation)
func shiftMutants(base *types.Transaction) []*types.Transaction {
	var out []*types.Transaction
	nd := strconv.FormatUint(base.Nonce, 10)
	if len(nd) > 1 && nd[1] != '0' {
		if n, err := strconv.ParseUint(nd[1:], 10, 64); err == nil {
			t := clone(base)
			t.Data, t.Nonce = base.Data+nd[:1], n
			out = append(out, t)
		}
	}
	if len(base.Time) > 0 {
		t := clone(base)
		t.Time, t.ExtraData = base.Time[:len(base.Time)-1], base.Time[len(base.Time)-1:]+base.ExtraData
		out = append(out, t)
	}
	if len(base.Target) > 0 && base.Target[len(base.Target)-1] >= '1' && base.Target[len(base.Target)-1] <= '9' && base.Type >= 0 {
		d := base.Target[len(base.Target)-1:] + strconv.Itoa(int(base.Type))
		if v, err := strconv.ParseInt(d, 10, 32); err == nil && v != 188 {
			t := clone(base)
			t.Target, t.Type = base.Target[:len(base.Target)-1], int32(v)
			out = append(out, t)
		}
	}
	return out
}

// ----- Ethereum -----
type ethBase struct {
	wrap   *types.Transaction
	signed *eth_tx.Transaction
	enc    []byte
	key    *ecdsa.PrivateKey
	sender common.Address
	raw    rawTx
}

func genBig(r *hx.Rng) *big.Int {
	switch r.Intn(6) {
	case 0:
		return new(big.Int)
	case 1:
		return big.NewInt(int64(r.Intn(1000)))
	case 2:
		return new(big.Int).SetBytes(r.Bytes(1 + r.Intn(32)))
	case 3:
		return new(big.Int).Exp(big.NewInt(10), big.NewInt(int64(r.Intn(25))), nil)
	default:
		return new(big.Int).SetUint64(r.U64() >> uint(r.Intn(64)))
	}
}

func wrapOf(signed *eth_tx.Transaction, sender common.Address, enc []byte, r *hx.Rng) *types.Transaction {
	w := eth_tx.ConvertTx(signed, sender, enc)
	if r != nil && r.Bool() { // fields the Ethereum path does not authenticate
		w.Time = genString(r)
		w.RequestId = uint64(r.Intn(5))
	}
	return w
}

func encodeRaw(t *rawTx) []byte {
	b, err := rlp.EncodeToBytes(t)
	if err != nil {
		panic(err)
	}
	return b
}

func genEth(r *hx.Rng) *ethBase {
	_, k, _ := genKey(r)
	var to *common.Address
	if r.Intn(4) != 0 {
		a := common.BytesToAddress(r.Bytes(20))
		to = &a
	}
	var data []byte
	switch r.Intn(4) {
	case 0:
	case 1:
		data = r.Bytes(1 + r.Intn(8))
	case 2:
		data = r.Bytes(4 + 32*r.Intn(4))
	default:
		data = r.Bytes(40 + r.Intn(120))
	}
	raw := rawTx{Nonce: genNonce(r), Price: genBig(r), Gas: uint64(r.Intn(10000000)), To: to, Value: genBig(r), Data: data, V: new(big.Int), R: new(big.Int), S: new(big.Int)}
	if r.Intn(8) == 0 {
		raw.Gas = r.U64()
	}
	return signEth(r, raw, k, chainBig)
}

// sign raw (EIP-155 for chain; chain == nil: Homestead) through the repository's own eth_tx.SignTx
func signEth(r *hx.Rng, raw rawTx, k *ecdsa.PrivateKey, chain *big.Int) *ethBase {
	var un *eth_tx.Transaction
	if raw.To != nil {
		un = eth_tx.NewTransaction(raw.Nonce, *raw.To, raw.Value, raw.Gas, raw.Price, raw.Data)
	} else {
		un = eth_tx.NewContractCreation(raw.Nonce, raw.Value, raw.Gas, raw.Price, raw.Data)
	}
	var signer eth_tx.Signer = eth_tx.HomesteadSigner{}
	if chain != nil {
		signer = eth_tx.NewEIP155Signer(chain)
	}
	signed, err := eth_tx.SignTx(un, signer, k)
	if err != nil {
		panic(err)
	}
	enc, err := rlp.EncodeToBytes(signed)
	if err != nil {
		panic(err)
	}
	v, rr, ss := signed.RawSignatureValues()
	raw.V, raw.R, raw.S = v, rr, ss
	sender := crypto.PubkeyToAddress(k.PublicKey)
	return &ethBase{wrap: wrapOf(signed, sender, enc, r), signed: signed, enc: enc, key: k, sender: sender, raw: raw}
}

// wrapper for arbitrary payload bytes, declared fields as ConvertTx would produce them for [sender]
func wrapBytes(enc []byte, sender common.Address) *types.Transaction {
	et := new(eth_tx.Transaction)
	if err := rlp.DecodeBytes(enc, et); err != nil {
		return nil
	}
	return eth_tx.ConvertTx(et, sender, enc)
}

func ethMutants(r *hx.Rng, b *ethBase, thorough bool) []mutant {
	var ms []mutant
	add := func(class, key string, t *types.Transaction) {
		if t != nil {
			ms = append(ms, mutant{class, key, t})
		}
	}
	mod := func(f func(t *types.Transaction)) *types.Transaction { t := clone(b.wrap); f(t); return t }
	// declared fields
	for _, v := range mutString(r, b.wrap.Source) {
		v := v
		add("eth-field:Source", "C07/eth-mutation:Source", mod(func(t *types.Transaction) { t.Source = v }))
	}
	add("eth-field:Source", "C07/eth-mutation:Source", mod(func(t *types.Transaction) { t.Source = "0x" + strings.ToUpper(t.Source[2:]) + "" }))
	add("eth-field:Source", "C07/eth-mutation:Source", mod(func(t *types.Transaction) { t.Source = "0x" + hex.EncodeToString(r.Bytes(20)) }))
	for _, v := range mutString(r, b.wrap.Target) {
		v := v
		add("eth-field:Target", "C07/eth-mutation:Target", mod(func(t *types.Transaction) { t.Target = v }))
	}
	add("eth-field:Target", "C07/eth-mutation:Target", mod(func(t *types.Transaction) { t.Target = "0x" + hex.EncodeToString(r.Bytes(20)) }))
	for _, v := range mutString(r, b.wrap.Data) {
		v := v
		add("eth-field:Data", "C07/eth-mutation:Data", mod(func(t *types.Transaction) { t.Data = v }))
	}
	// semantic changes of value / gas / input inside the declared Data
	for _, alt := range []func(x *rawTx){
		func(x *rawTx) { x.Value = new(big.Int).Add(x.Value, big.NewInt(1)) },
		func(x *rawTx) { x.Gas++ },
		func(x *rawTx) { x.Price = new(big.Int).Add(x.Price, big.NewInt(1)) },
		func(x *rawTx) { x.Data = append(append([]byte{}, x.Data...), 0) },
	} {
		x := b.raw
		alt(&x)
		d := fmt.Sprintf(`{"gasPrice":"%s","gasLimit":"%d","transferValue":"%s","abiData":"%s"}`, x.Price.String(), x.Gas, bigIntToStr18(x.Value), hex0x(x.Data))
		add("eth-field:Data", "C07/eth-mutation:Data", mod(func(t *types.Transaction) { t.Data = d }))
	}
	for _, n := range []uint64{b.wrap.Nonce + 1, b.wrap.Nonce - 1, r.U64()} {
		n := n
		if n != b.wrap.Nonce {
			add("eth-field:Nonce", "C07/eth-mutation:Nonce", mod(func(t *types.Transaction) { t.Nonce = n }))
		}
	}
	for _, c := range []string{"", "0", "9501", "0" + b.wrap.ChainId, b.wrap.ChainId + " ", "2025"} {
		c := c
		if c != b.wrap.ChainId {
			add("eth-field:ChainId", "C07/eth-mutation:ChainId", mod(func(t *types.Transaction) { t.ChainId = c }))
		}
	}
	for i := 0; i < 4; i++ {
		bit := r.Intn(256)
		add("eth-field:Hash", "C07/eth-mutation:Hash", mod(func(t *types.Transaction) { t.Hash[bit/8] ^= 1 << uint(bit%8) }))
	}
	add("eth-field:Hash", "C07/eth-mutation:Hash", mod(func(t *types.Transaction) { t.Hash = t.GenHash() }))
	add("eth-field:Type", "C07/eth-mutation:Type", mod(func(t *types.Transaction) { t.Type = 0 }))
	add("eth-field:Type", "C07/eth-mutation:Type", mod(func(t *types.Transaction) { t.Type = 200 }))
	add("eth-field:Type", "C07/eth-mutation:Type", mod(func(t *types.Transaction) { t.Type = 189 }))
	// ExtraData spelling
	hexs := b.wrap.ExtraData[2:]
	add("eth-extra:upper", "C07/eth-mutation:ExtraData", mod(func(t *types.Transaction) { t.ExtraData = "0x" + strings.ToUpper(hexs) }))
	add("eth-extra:0X", "C07/eth-mutation:ExtraData", mod(func(t *types.Transaction) { t.ExtraData = "0X" + hexs }))
	add("eth-extra:noprefix", "C07/eth-mutation:ExtraData", mod(func(t *types.Transaction) { t.ExtraData = hexs }))
	add("eth-extra:trailing", "C07/eth-mutation:ExtraData", mod(func(t *types.Transaction) { t.ExtraData = "0x" + hexs + "00" }))
	add("eth-extra:trailing-nibble", "C07/eth-mutation:ExtraData", mod(func(t *types.Transaction) { t.ExtraData = "0x" + hexs + "0" }))
	add("eth-extra:garbage-tail", "C07/eth-mutation:ExtraData", mod(func(t *types.Transaction) { t.ExtraData = "0x" + hexs + "zz" }))
	add("eth-extra:truncated", "C07/eth-mutation:ExtraData", mod(func(t *types.Transaction) { t.ExtraData = "0x" + hexs[:len(hexs)-2] }))
	add("eth-extra:empty", "C07/eth-mutation:ExtraData", mod(func(t *types.Transaction) { t.ExtraData = "" }))
	nflip := 6
	if thorough {
		nflip = 8 * len(b.enc)
	}
	for i := 0; i < nflip; i++ { // bit flips in the payload, declared fields untouched
		e := append([]byte{}, b.enc...)
		bit := r.Intn(8 * len(e))
		if thorough {
			bit = i
		}
		e[bit/8] ^= 1 << uint(bit%8)
		add("eth-extra:bitflip", "C07/eth-mutation:ExtraData", mod(func(t *types.Transaction) { t.ExtraData = hex0x(e) }))
		// ... and the declared fields recomputed for the original sender (attacker rebuilds the wrapper)
		add("eth-payload:bitflip-rewrapped", "C07/eth-forgery:payload-bitflip", wrapBytes(e, b.sender))
	}
	// payload field changes without re-signing, wrapper rebuilt for the original sender
	for name, alt := range map[string]func(x *rawTx){
		"nonce": func(x *rawTx) { x.Nonce++ },
		"price": func(x *rawTx) { x.Price = new(big.Int).Add(x.Price, big.NewInt(1)) },
		"gas":   func(x *rawTx) { x.Gas ^= 1 },
		"to": func(x *rawTx) {
			a := common.BytesToAddress(r.Bytes(20))
			x.To = &a
		},
		"to-nil": func(x *rawTx) {
			if x.To == nil {
				a := common.BytesToAddress(r.Bytes(20))
				x.To = &a
			} else {
				x.To = nil
			}
		},
		"value": func(x *rawTx) { x.Value = new(big.Int).Add(x.Value, big.NewInt(1)) },
		"data":  func(x *rawTx) { x.Data = append(append([]byte{}, x.Data...), byte(r.Intn(256))) },
	} {
		x := b.raw
		alt(&x)
		add("eth-payload:"+name, "C07/eth-forgery:payload-"+name, wrapBytes(encodeRaw(&x), b.sender))
	}
	// signature values
	sigAlt := func(name, key string, f func(x *rawTx)) {
		x := b.raw
		x.V, x.R, x.S = new(big.Int).Set(x.V), new(big.Int).Set(x.R), new(big.Int).Set(x.S)
		f(&x)
		add("eth-sig:"+name, key, wrapBytes(encodeRaw(&x), b.sender))
	}
	sigAlt("high-s", "C07/eth-sig:malleated-high-s", func(x *rawTx) {
		x.S.Sub(secpN, x.S)
		rec := new(big.Int).Sub(x.V, big.NewInt(35))
		if rec.Bit(0) == 0 {
			x.V.Add(x.V, big.NewInt(1))
		} else {
			x.V.Sub(x.V, big.NewInt(1))
		}
	})
	sigAlt("v-flip", "C07/eth-sig:v", func(x *rawTx) {
		if new(big.Int).Sub(x.V, big.NewInt(35)).Bit(0) == 0 {
			x.V.Add(x.V, big.NewInt(1))
		} else {
			x.V.Sub(x.V, big.NewInt(1))
		}
	})
	for _, dv := range []int64{2, -2, 256, 19000} {
		dv := dv
		sigAlt("v-shift", "C07/eth-sig:v", func(x *rawTx) { x.V.Add(x.V, big.NewInt(dv)) })
	}
	for _, v := range []int64{0, 1, 26, 29, 35, 36, 255} {
		v := v
		sigAlt("v-const", "C07/eth-sig:v", func(x *rawTx) { x.V.SetInt64(v) })
	}
	sigAlt("v-huge", "C07/eth-sig:v", func(x *rawTx) { x.V.Lsh(big.NewInt(1), 70).Add(x.V, big.NewInt(35)) })
	sigAlt("zero-r", "C07/eth-sig:degenerate", func(x *rawTx) { x.R.SetInt64(0) })
	sigAlt("zero-s", "C07/eth-sig:degenerate", func(x *rawTx) { x.S.SetInt64(0) })
	sigAlt("r-plus-n", "C07/eth-sig:degenerate", func(x *rawTx) { x.R.Add(x.R, secpN) })
	sigAlt("r-bitflip", "C07/eth-sig:bitflip", func(x *rawTx) { i := r.Intn(255); x.R.SetBit(x.R, i, x.R.Bit(i)^1) })
	sigAlt("s-bitflip", "C07/eth-sig:bitflip", func(x *rawTx) { i := r.Intn(250); x.S.SetBit(x.S, i, x.S.Bit(i)^1) })
	// other chains / no chain, honest signatures by the same key
	for _, c := range []int64{1, 2025, 9501, 9499, 4750, 19000} {
		ob := signEth(nil, b.raw, b.key, big.NewInt(c))
		add("eth-chain:other-eip155", "C07/eth-eip155:other-chain", ob.wrap)
		add("eth-chain:other-eip155-declared-ours", "C07/eth-eip155:other-chain", func() *types.Transaction { t := clone(ob.wrap); t.ChainId = chainStr; return t }())
	}
	hb := signEth(nil, b.raw, b.key, nil)
	add("eth-chain:homestead-v27-28", "C07/eth-eip155:unprotected-v27-28", hb.wrap)
	add("eth-chain:homestead-declared-ours", "C07/eth-eip155:unprotected-declared-this-chain", func() *types.Transaction { t := clone(hb.wrap); t.ChainId = chainStr; return t }())
	// a Homestead-signed (r, s) presented with this chain's EIP-155 V: recovers some unrelated key
	sigAltH := hb.raw
	sigAltH.V = new(big.Int).Add(big.NewInt(35+8), new(big.Int).Lsh(chainBig, 1))
	sigAltH.V.Sub(sigAltH.V, big.NewInt(8)).Add(sigAltH.V, new(big.Int).Sub(hb.raw.V, big.NewInt(27)))
	add("eth-chain:homestead-sig-as-eip155", "C07/eth-forgery:homestead-sig-as-eip155", wrapBytes(encodeRaw(&sigAltH), b.sender))
	// non-canonical RLP
	add("eth-rlp:extra-element", "C07/eth-mutation:ExtraData", func() *types.Transaction {
		l := []interface{}{b.raw.Nonce, b.raw.Price, b.raw.Gas, b.raw.To, b.raw.Value, b.raw.Data, b.raw.V, b.raw.R, b.raw.S, uint(0)}
		e, _ := rlp.EncodeToBytes(l)
		t := clone(b.wrap)
		t.ExtraData = hex0x(e)
		return t
	}())
	return ms
}

// ---------- static tie: field lists read from the Go sources ----------
func repoDir() string {
	if d := os.Getenv("VERIF_REPO"); d != "" {
		return d
	}
	return "/repo"
}

func funcBody(file, name string) *ast.BlockStmt {
	f, err := parser.ParseFile(token.NewFileSet(), filepath.Join(repoDir(), file), nil, 0)
	if err != nil {
		return nil
	}
	for _, d := range f.Decls {
		if fd, ok := d.(*ast.FuncDecl); ok && fd.Name.Name == name {
			return fd.Body
		}
	}
	return nil
}

// the tx.<Field> selectors inside n, in source order
func txFields(n ast.Node, recv string) []string {
	var out []string
	ast.Inspect(n, func(x ast.Node) bool {
		if se, ok := x.(*ast.SelectorExpr); ok {
			if id, ok := se.X.(*ast.Ident); ok && id.Name == recv {
				out = append(out, se.Sel.Name)
			}
		}
		return true
	})
	return out
}

func astTie() {
	// Transaction.GenHash: the sequence of buffer.Write(...) arguments = the model's [preimage]
	want := "Data,Nonce,Source,Target,Type,Time,ExtraData,ChainId"
	var got []string
	if b := funcBody("src/middleware/types/transaction.go", "GenHash"); b != nil {
		ast.Inspect(b, func(x ast.Node) bool {
			if c, ok := x.(*ast.CallExpr); ok {
				if se, ok := c.Fun.(*ast.SelectorExpr); ok && se.Sel.Name == "Write" {
					if id, ok := se.X.(*ast.Ident); ok && id.Name == "buffer" {
						got = append(got, strings.Join(txFields(c, "tx"), "+"))
						return false
					}
				}
			}
			return true
		})
	}
	if g := strings.Join(got, ","); g != want {
		res.Violate("C07/model-tie:genhash-field-order", "Transaction.GenHash writes the fields "+g+" but the Coq model's preimage is "+want+" (the model no longer describes the code)", g)
	} else {
		res.Note("static tie: GenHash buffer writes (go/ast) = " + g)
	}
	// compareTx: the set of compared fields = the model's [compare_tx]
	wantCmp := "ChainId,Data,ExtraData,Hash,Nonce,Source,Target,Type"
	set := map[string]bool{}
	if b := funcBody("src/service/transaction_pool.go", "compareTx"); b != nil {
		ast.Inspect(b, func(x ast.Node) bool {
			if be, ok := x.(*ast.BinaryExpr); ok && be.Op == token.NEQ {
				l, r := txFields(be.X, "tx"), txFields(be.Y, "expectedTx")
				if len(l) == 1 && len(r) == 1 && l[0] == r[0] {
					set[l[0]] = true
				}
			}
			return true
		})
	}
	var names []string
	for k := range set {
		names = append(names, k)
	}
	sort.Strings(names)
	if g := strings.Join(names, ","); g != wantCmp {
		res.Violate("C07/model-tie:comparetx-fields", "compareTx compares "+g+" but the Coq model's compare_tx compares "+wantCmp, g)
	} else {
		res.Note("static tie: compareTx fields (go/ast) = " + g)
	}
}

// ---------- admission: every path by which a transaction reaches the pool ----------
// GameExecutor.runWrite (gateway / JSON-RPC queue, both branches), GameExecutor.write (ClientTransactionWrite
// subscription) and the peer push handler (WorkerConn.handleMessage, TransactionGotMsg) are driven with the
// mutants of a base transaction first and the honest base last, under varying message envelopes.
// Predicate: a hash that was not in the pool before the call and is in it afterwards belongs to a
// transaction that is authentic by the independent conjunct check for the chain id in force.
type envelope struct {
	UserId    string `json:"UserId"`
	Nonce     uint64 `json:"Nonce"`
	GateNonce uint64 `json:"GateNonce"`
}

var entryPoints = []string{"runWrite", "write", "peer-push"}

func offer(ep string, env envelope, tx *types.Transaction) (ok bool, pmsg string) {
	defer func() {
		if p := recover(); p != nil {
			ok, pmsg = false, fmt.Sprint(p)+" @ "+string(debug.Stack())
		}
	}()
	t := *clone(tx)
	t.SubTransactions = []types.UserData{{Address: env.GateNonce}}
	switch ep {
	case "runWrite":
		core.VerifC07RunWrite(&notify.ClientTransactionMessage{Tx: t, UserId: env.UserId, Nonce: env.Nonce, GateNonce: env.GateNonce})
	case "write":
		core.VerifC07Write(&notify.ClientTransactionMessage{Tx: t, UserId: env.UserId, Nonce: env.Nonce, GateNonce: env.GateNonce})
	case "peer-push":
		body, err := types.MarshalTransactions([]*types.Transaction{&t})
		if err != nil {
			return false, ""
		}
		if err := network.VerifC07HandleWorkerMessage(network.VerifC07TransactionGotMsg, body, "1"); err != nil {
			return false, ""
		}
	}
	return true, ""
}

func authentic(tx *types.Transaction) string {
	if tx.Type == types.TransactionTypeETHTX {
		return ethConjuncts(tx)
	}
	return nativeConjuncts(tx)
}

func admissionPhase(r *hx.Rng, n int) {
	state, err := middleware.AccountDBManagerInstance.GetAccountDBByHash(common.Hash{})
	if err != nil {
		res.Violate("C07/admission:setup", "no state for the game executor: "+err.Error(), nil)
		return
	}
	saved := common.LocalChainConfig
	defer func() { common.LocalChainConfig = saved; setHeight(100) }()
	at := func(h uint64) {
		setHeight(h)
		middleware.AccountDBManagerInstance.SetLatestStateDB(state, make(map[string]uint64), h) // the height runWrite reads
	}
	skip := map[string]bool{"sign:v-alias": true, "eth-chain:homestead-v27-28": true} // accepted by VerifyTransaction: known findings, reported there
	admitted, refused, masked := 0, 0, 0
	try := func(ep string, env envelope, class string, tx *types.Transaction, honest bool) {
		before := pool.IsExisted(tx.Hash)
		ok, pmsg := offer(ep, env, tx)
		in := map[string]interface{}{"entry_point": ep, "envelope": env, "height": height, "chain_id_in_force": chainStr, "class": class, "tx": jsonTx(tx)}
		if pmsg != "" {
			res.Violate("C07/admission:"+ep+":panic", "entry point panicked: "+pmsg, in)
			return
		}
		if !ok {
			return
		}
		after := pool.IsExisted(tx.Hash)
		switch {
		case before:
			masked++
			res.Count("admission-"+ep+"/hash-already-pooled:"+class, "", false)
		case after:
			admitted++
			res.Count("admission-"+ep+"/admitted", ep+string(tx.Hash.Bytes()), true)
			if bad := authentic(tx); bad != "" {
				res.Violate("C07/admission:"+ep+":unauthentic-admitted", fmt.Sprintf("transaction failing the conjunct '%s' is in the pool after %s (class %s, envelope %+v)", bad, ep, class, env), in)
			}
		default:
			refused++
			res.Count("admission-"+ep+"/refused", ep+string(tx.Hash.Bytes()), true)
			if honest {
				res.Violate("C07/admission:"+ep+":honest-not-admitted", fmt.Sprintf("honest transaction is not in the pool after %s (envelope %+v)", ep, env), in)
			}
		}
	}
	for i := 0; i < n; i++ {
		ep := entryPoints[i%len(entryPoints)]
		fork := (i/len(entryPoints))%2 == 1
		if fork {
			common.LocalChainConfig.ChainId, common.LocalChainConfig.OriginalChainId, common.LocalChainConfig.Proposal001Block = "2025", "8888", 1000
			at([]uint64{0, 999, 1000, 5000}[r.Intn(4)])
		} else {
			common.LocalChainConfig = saved
			at(100)
		}
		envOf := func() envelope {
			e := envelope{Nonce: uint64(r.Intn(2) * (1 + r.Intn(9))), GateNonce: uint64(r.Intn(2) * (1 + r.Intn(9)))}
			if r.Bool() {
				e.UserId = "user-" + strconv.Itoa(r.Intn(100))
			}
			return e
		}
		var base *types.Transaction
		var ms []mutant
		if i%2 == 0 {
			b, sk := genNative(r)
			if r.Bool() { // a type that takes the second branch of runWrite (Type != 0)
				b.Type = []int32{2, 3, 100, 200, 600}[r.Intn(5)]
				signNative(b, sk)
			}
			base, ms = b, nativeMutants(r, b, sk, false)
		} else {
			b := genEth(r)
			base, ms = b.wrap, ethMutants(r, b, false)
		}
		if fork { // the same kind of transaction made for the other side of the fork is a mutant here
			other := map[string]string{"8888": "2025", "2025": "8888"}[chainStr]
			ob, _ := new(big.Int).SetString(other, 10)
			if base.Type == types.TransactionTypeETHTX {
				_, k, _ := genKey(r)
				ms = append(ms, mutant{"fork:eth-for-other-side", "", signEth(nil, genEth(r).raw, k, ob).wrap})
			} else {
				keep := chainStr
				chainStr = other
				t, _ := genNative(r)
				chainStr = keep
				ms = append(ms, mutant{"fork:native-for-other-side", "", t})
			}
		}
		for _, m := range ms {
			if !skip[m.class] {
				try(ep, envOf(), m.class, m.tx, false)
			}
		}
		try(ep, envOf(), "honest", base, true)
	}
	res.Note(fmt.Sprintf("admission phase: %d bases through %v (mutants first, honest base last): %d admitted, %d refused, %d offers skipped because the hash was already pooled", n, entryPoints, admitted, refused, masked))
}

// ---------- size boundaries ----------
// The acceptance path has ONE size limit: eth_rpc.validateTx refuses call data / init code longer than
// eth_rpc.MaxInitCodeSize (the constant is imported from the source; validateTx itself needs a block chain and
// is mirrored here by its two size-dependent tests: the length test and executor.IntrinsicGas).
// TxPool.VerifyTransaction, GameExecutor.runWrite / write and the peer push handler have no size guard, and the
// Coq model has none (C07_native_complete / C07_eth_complete hold for every length).  Oracle:
//   honest => VerifyTransaction accepts, at every swept size;
//   whatever the RPC layer admits (and then broadcasts) must be accepted and pooled by every other entry point.
// A size test appearing inside the verification functions is reported as model drift (go/ast).
func sizeGuardTie() {
	for _, fn := range []string{"VerifyTransaction", "verifyETHTx", "verifyTxChainId", "verifyTransactionHash", "verifyTransactionSign", "compareTx"} {
		b := funcBody("src/service/transaction_pool.go", fn)
		if b == nil {
			res.Violate("C07/model-tie:verify-function-missing", "function "+fn+" not found in src/service/transaction_pool.go", fn)
			continue
		}
		found := ""
		ast.Inspect(b, func(x ast.Node) bool {
			if c, ok := x.(*ast.CallExpr); ok {
				if id, ok := c.Fun.(*ast.Ident); ok && (id.Name == "len" || strings.Contains(strings.ToLower(id.Name), "size")) {
					found = id.Name
				}
			}
			return true
		})
		if found != "" {
			res.Violate("C07/model-tie:verify-size-guard", "a length / size test ("+found+") appears in "+fn+": the Coq model of VerifyTransaction has no size guard (the model no longer describes the code)", fn)
		}
	}
	res.Note(fmt.Sprintf("static tie: no length test in VerifyTransaction/verifyETHTx/verifyTx*/compareTx (go/ast); eth_rpc.MaxInitCodeSize = %d", eth_rpc.MaxInitCodeSize))
}

func sizeFamily(r *hx.Rng, thorough bool, eval func(class, key string, tx *types.Transaction, honest bool)) {
	setHeight(100)
	state, err := middleware.AccountDBManagerInstance.GetAccountDBByHash(common.Hash{})
	if err == nil {
		middleware.AccountDBManagerInstance.SetLatestStateDB(state, make(map[string]uint64), 100)
	}
	lim := eth_rpc.MaxInitCodeSize
	sizes := []int{1, 1024, 32*1024 - 1, 32 * 1024, 33000, lim - 1, lim, lim + 1, 64 * 1024, 128 * 1024}
	if thorough {
		sizes = append(sizes, 2*lim, 2*lim+1, 256*1024, 96*1024, 24576, 24577)
	}
	admit := func(kind string, n int, fresh func() *types.Transaction, rpcOK bool) {
		for _, ep := range entryPoints {
			tx := fresh() // a distinct honest transaction of this size for every entry point
			env := envelope{}
			if ep == "runWrite" && r.Bool() {
				env = envelope{UserId: "u", Nonce: 3, GateNonce: 4}
			}
			before := pool.IsExisted(tx.Hash)
			ok, pmsg := offer(ep, env, tx)
			in := map[string]interface{}{"entry_point": ep, "envelope": env, "kind": kind, "payload_bytes": n, "hash": tx.Hash.Hex(), "source": tx.Source, "extra_data_len": len(tx.ExtraData), "data_len": len(tx.Data)}
			if pmsg != "" {
				res.Violate("C07/admission:"+ep+":panic", "entry point panicked on a "+strconv.Itoa(n)+"-byte honest "+kind+" transaction: "+pmsg[:200], in)
				continue
			}
			if !ok {
				continue
			}
			after := pool.IsExisted(tx.Hash)
			res.Count(fmt.Sprintf("size-admission-%s/%v", ep, after), "", false)
			if !before && !after && rpcOK {
				res.Violate(fmt.Sprintf("C07/admission:%s:rpc-admissible-rejected:%s-%d", ep, kind, n), fmt.Sprintf("honest %s transaction with %d payload bytes, which eth_rpc admits (limit %d), is not in the pool after %s", kind, n, lim, ep), in)
			}
		}
	}
	_, key, _ := genKey(r)
	nonce := uint64(0)
	for _, n := range sizes {
		for _, create := range []bool{false, true} {
			kind := "eth-call"
			var to *common.Address
			if create {
				kind = "eth-create"
			} else {
				a := common.BytesToAddress(r.Bytes(20))
				to = &a
			}
			data := r.Bytes(n)
			gas, gerr := executor.IntrinsicGas(data, create)
			rpcOK := n <= lim && gerr == nil
			nonce++
			raw := rawTx{Nonce: nonce, Price: big.NewInt(1000000000), Gas: gas + 21000, To: to, Value: big.NewInt(0), Data: data, V: new(big.Int), R: new(big.Int), S: new(big.Int)}
			eb := signEth(nil, raw, key, chainBig)
			code, _ := runVerify(eb.wrap)
			res.Count(fmt.Sprintf("size-%s/verdict%d", kind, code), kind+strconv.Itoa(n), true)
			in := map[string]interface{}{"kind": kind, "payload_bytes": n, "rpc_admits": rpcOK, "hash": eb.wrap.Hash.Hex(), "source": eb.wrap.Source, "extra_data_len": len(eb.wrap.ExtraData), "data_len": len(eb.wrap.Data), "nonce": nonce}
			if code != 0 {
				res.Violate(fmt.Sprintf("C07/complete:size:honest-%s-rejected:%d", kind, n), fmt.Sprintf("honestly signed EIP-155 %s transaction with %d payload bytes refused by VerifyTransaction (verdict %d); eth_rpc admits it: %v", kind, n, code, rpcOK), in)
			}
			if bad := ethConjuncts(eb.wrap); bad != "" {
				res.Violate("C07/harness:size-family-not-honest", "generator produced a transaction failing "+bad, in)
			}
			// a mutant of the same size must still be refused
			m := clone(eb.wrap)
			m.Source = "0x" + hex.EncodeToString(r.Bytes(20))
			eval("size:"+kind+"-other-source", "C07/eth-mutation:Source", m, false)
			e2 := append([]byte{}, eb.enc...)
			e2[len(e2)/2] ^= 0x10
			if w := wrapBytes(e2, eb.sender); w != nil {
				eval("size:"+kind+"-payload-bitflip", "C07/eth-forgery:payload-bitflip", w, false)
			}
			admit(kind, n, func() *types.Transaction {
				nonce++
				r2 := raw
				r2.Nonce = nonce
				return signEth(nil, r2, key, chainBig).wrap
			}, rpcOK)
		}
		// native: long Data, long ExtraData (no limit anywhere on this path)
		for _, kind := range []string{"native-data", "native-extra"} {
			b, sk := genNative(r)
			long := make([]byte, n)
			for i := range long {
				long[i] = printable[r.Intn(len(printable))]
			}
			if kind == "native-data" {
				b.Data = string(long)
			} else {
				b.ExtraData = string(long)
			}
			signNative(b, sk)
			code, _ := runVerify(b)
			res.Count(fmt.Sprintf("size-%s/verdict%d", kind, code), kind+strconv.Itoa(n), true)
			if code != 0 {
				res.Violate(fmt.Sprintf("C07/complete:size:honest-%s-rejected:%d", kind, n), fmt.Sprintf("honestly signed native transaction with a %d-byte field refused by VerifyTransaction (verdict %d)", n, code),
					map[string]interface{}{"kind": kind, "field_bytes": n, "hash": b.Hash.Hex(), "source": b.Source, "type": b.Type, "nonce": b.Nonce})
			}
			m := clone(b)
			mb := []byte(long)
			mb[n/2] ^= 1
			if kind == "native-data" {
				m.Data = string(mb)
			} else {
				m.ExtraData = string(mb)
			}
			eval("size:"+kind+"-bitflip", "C07/native-mutation:"+map[string]string{"native-data": "Data", "native-extra": "ExtraData"}[kind], m, false)
			admit(kind, n, func() *types.Transaction {
				f, sk2 := genNative(r)
				if kind == "native-data" {
					f.Data = string(long)
				} else {
					f.ExtraData = string(long)
				}
				signNative(f, sk2)
				return f
			}, true)
		}
	}
	res.Note(fmt.Sprintf("size family: payload / field sizes %v, honest EIP-155 calls and creations and native Data / ExtraData, through VerifyTransaction and %v", sizes, entryPoints))
}

// ---------- completeness stream: many distinct honest signatures ----------
// Honest transactions must be accepted whatever their signature values look like.  A few keys sign
// thousands of distinct transactions (implementation only); signatures whose r or s has leading zero
// bytes (shorter big-ints, ~1 in 128 each) are searched for explicitly and also go to the model.
func sigClass(rb, sb []byte) string { // rb, sb: 32-byte big-endian
	lead := func(b []byte) int {
		n := 0
		for n < len(b) && b[n] == 0 {
			n++
		}
		return n
	}
	c := ""
	if l := lead(rb); l > 0 {
		c += fmt.Sprintf("r-%d-leading-zero-bytes,", l)
	} else if rb[0] >= 0x80 {
		c += "r-above-2^255,"
	} else {
		c += "r-below-2^255,"
	}
	if l := lead(sb); l > 0 {
		c += fmt.Sprintf("s-%d-leading-zero-bytes", l)
	} else if sb[0] >= 0x40 {
		c += "s-above-2^254"
	} else {
		c += "s-below-2^254"
	}
	return c
}

func completenessStream(r *hx.Rng, thorough bool, eval func(class, key string, tx *types.Transaction, honest bool)) {
	setHeight(100)
	perKey, keys := 1200, 4
	if thorough {
		perKey = 12000
	}
	classes := map[string]int{}
	toModelLeft := map[string]int{}
	handle := func(path string, tx *types.Transaction, rb, sb []byte) string {
		cl := sigClass(rb, sb)
		classes[path+":"+cl]++
		code, pmsg := runVerify(tx)
		res.Count("stream-"+path+fmt.Sprintf("/verdict%d", code), string(tx.Hash.Bytes()), false)
		if code != 0 {
			res.Violate("C07/complete:honest-"+path+"-rejected:"+cl, fmt.Sprintf("honestly signed %s transaction refused (verdict %d %s); signature class %s", path, code, pmsg, cl), jsonTx(tx))
		}
		if strings.Contains(cl, "leading-zero") && toModelLeft[path+cl] < 3 {
			toModelLeft[path+cl]++
			eval("honest:"+path+"-short-sig", "C07/complete:honest-"+path+"-rejected:"+cl, tx, true)
		}
		return cl
	}
	// native
	want := map[string]bool{"r-1": false, "s-1": false}
	if thorough {
		want["r-2"] = false
	}
	for k := 0; k < keys; k++ {
		sk, _, addr := genKey(r)
		tgt := genString(r)
		for i := 0; i < perKey; i++ {
			tx := &types.Transaction{Source: addr, Target: tgt, Type: int32(k), Time: "t", Data: "d" + strconv.Itoa(i), Nonce: uint64(i), ChainId: chainStr}
			signNative(tx, sk)
			b := tx.Sign.Bytes()
			cl := handle("native", tx, b[:32], b[32:64])
			if strings.Contains(cl, "r-1-leading") {
				want["r-1"] = true
			}
			if strings.Contains(cl, "s-1-leading") {
				want["s-1"] = true
			}
			if strings.Contains(cl, "r-2-leading") {
				want["r-2"] = true
			}
		}
	}
	// directed: keep signing (sign only) until the wanted shapes have been seen, then verify those
	sk, _, addr := genKey(r)
	for i := 0; i < 400000; i++ {
		done := true
		for _, v := range want {
			done = done && v
		}
		if done {
			break
		}
		tx := &types.Transaction{Source: addr, Type: 1, Data: "x" + strconv.Itoa(i), Nonce: uint64(i), ChainId: chainStr}
		signNative(tx, sk)
		b := tx.Sign.Bytes()
		hit := ""
		switch {
		case b[0] == 0 && b[1] == 0 && !want["r-2"] && thorough:
			hit = "r-2"
		case b[0] == 0 && !want["r-1"]:
			hit = "r-1"
		case b[32] == 0 && !want["s-1"]:
			hit = "s-1"
		}
		if hit != "" {
			want[hit] = true
			handle("native", tx, b[:32], b[32:64])
		}
	}
	// wrapped Ethereum: r / s with leading zero bytes are shorter integers in the RLP payload
	ethN := 700
	if thorough {
		ethN = 6000
	}
	seenShort := 0
	for k := 0; k < 2; k++ {
		_, key, _ := genKey(r)
		base := genEth(r).raw
		for i := 0; i < ethN || (seenShort < 2 && i < 40*ethN); i++ {
			raw := base
			raw.Nonce = uint64(i)
			eb := signEth(nil, raw, key, chainBig)
			rb, sb := pad32(eb.raw.R), pad32(eb.raw.S)
			if i >= ethN && rb[0] != 0 && sb[0] != 0 {
				continue // past the stream: only the directed shapes are verified
			}
			if cl := handle("eth", eb.wrap, rb, sb); strings.Contains(cl, "leading-zero") {
				seenShort++
			}
		}
	}
	var cls []string
	for k, v := range classes {
		cls = append(cls, fmt.Sprintf("%s=%d", k, v))
	}
	sort.Strings(cls)
	res.Note("completeness stream (honest signatures by shape): " + strings.Join(cls, " "))
}

// ---------- the chain id changes with the height ----------
// Mainnet-shaped configuration (OriginalChainId below Proposal001Block, ChainId from it on).  Transactions
// made for one side of the fork are offered at heights on both sides, in both orders and repeatedly; the
// verdict at a height may only depend on the transaction and that height.
func forkPhase(r *hx.Rng, n int, eval func(class, key string, tx *types.Transaction, honest bool), recheck func(string)) {
	saved := common.LocalChainConfig
	defer func() { common.LocalChainConfig = saved; setHeight(100) }()
	common.LocalChainConfig.ChainId, common.LocalChainConfig.OriginalChainId, common.LocalChainConfig.Proposal001Block = "2025", "8888", 1000
	below := []uint64{0, 500, 999}
	above := []uint64{1000, 1001, 5000}
	pick := func(l []uint64) uint64 { return l[r.Intn(len(l))] }
	type step struct {
		Height  uint64 `json:"height"`
		Verdict int    `json:"verdict"`
	}
	for i := 0; i < n; i++ {
		var seqs [][]uint64
		b, a2 := pick(below), pick(above)
		switch i % 4 {
		case 0:
			seqs = [][]uint64{{b, a2}}
		case 1:
			seqs = [][]uint64{{a2, b}}
		case 2:
			seqs = [][]uint64{{b, b, a2, a2, b}}
		default:
			seqs = [][]uint64{{a2, b, a2, pick(below), pick(above)}}
		}
		for _, made := range []string{"8888", "2025"} {
			madeBig, _ := new(big.Int).SetString(made, 10)
			var tx *types.Transaction
			var sk *common.PrivateKey
			class := "fork:native-for-" + made
			kind := (i / 4) % 3
			switch kind {
			case 0, 1:
				raw := genEth(r).raw
				_, k, _ := genKey(r)
				tx = signEth(nil, raw, k, madeBig).wrap
				class = "fork:eth-for-" + made
			default:
				setHeight(map[string]uint64{"8888": 999, "2025": 1000}[made])
				tx, sk = genNative(r)
				_ = sk
			}
			for _, seq := range seqs {
				var hist []step
				first := map[uint64]int{}
				for _, h := range seq {
					setHeight(h)
					code, _ := runVerify(tx)
					hist = append(hist, step{h, code})
					want := chainStr == made
					in := map[string]interface{}{"tx": jsonTx(tx), "made_for_chain_id": made, "sequence": hist,
						"config": "ChainId 2025 / OriginalChainId 8888 / Proposal001Block 1000"}
					if code == 0 && !want {
						res.Violate("C07/fork:accepted-for-other-chain-id", fmt.Sprintf("transaction made for chain id %s accepted at height %d where the chain id is %s (%s)", made, h, chainStr, class), in)
					}
					if code != 0 && want {
						res.Violate("C07/complete:fork", fmt.Sprintf("honest transaction for chain id %s rejected (verdict %d) at height %d where the chain id is %s (%s)", made, code, h, chainStr, class), in)
					}
					if f, ok := first[h]; ok && f != code {
						res.Violate("C07/pure:verdict-depends-on-history", fmt.Sprintf("the same transaction got verdicts %d and %d at height %d within one sequence (%s)", f, code, h, class), in)
					} else if !ok {
						first[h] = code
					}
					// the full evaluation (conjuncts, twice in a row, model case) at this height
					eval(class, map[bool]string{true: "C07/complete:fork", false: "C07/fork:accepted-for-other-chain-id"}[want], tx, want)
				}
			}
			// declared chain id rewritten to the other side's, offered on the other side after the original passed
			other := map[string]string{"8888": "2025", "2025": "8888"}[made]
			setHeight(map[string]uint64{"8888": 1000, "2025": 999}[made])
			t2 := clone(tx)
			t2.ChainId = other
			eval(class+"-redeclared", "C07/fork:accepted-for-other-chain-id", t2, false)
		}
		// Homestead payloads carry no chain id: accepted on both sides (known finding), but purely so
		if i%5 == 0 {
			_, k, _ := genKey(r)
			hb := signEth(nil, genEth(r).raw, k, nil)
			for _, h := range []uint64{pick(below), pick(above), pick(below)} {
				setHeight(h)
				eval("fork:eth-homestead", "C07/eth-eip155:unprotected-v27-28", hb.wrap, false)
			}
		}
		recheck("after the fork sequences")
	}
	res.Note(fmt.Sprintf("fork phase: %d rounds on ChainId 2025 / OriginalChainId 8888 / Proposal001Block 1000, heights %v and %v", n, below, above))
}

// ---------- evaluation ----------
var classSeen = map[string]int{}
var caseNo int

var sampleOneIn = 40

func toModel(r *hx.Rng, class string, quota int) bool {
	classSeen[class]++
	return classSeen[class] <= quota || r.Intn(sampleOneIn) == 0
}

func main() {
	a := hx.ParseArgs()
	res = hx.NewResult("one evaluation = one transaction handed to TxPool.VerifyTransaction (honest, mutant or forged); non-trivial = the verdict depends on a signature/hash/payload check, i.e. everything except honest originals; distinct by (class, hash, signature, declared fields)")
	common.Init(0, "p.ini", "dev")
	common.SetBlockHeight(height)
	middleware.InitMiddleware()
	service.InitService()
	vm.InitVM()
	executor.InitExecutors()
	pool = service.GetTransactionPool()
	if pool == nil {
		fmt.Println("no transaction pool")
		os.Exit(2)
	}
	common.Genesis = nil
	setHeight(height)
	astTie()
	sizeGuardTie()
	r := hx.NewRng(a.Seed)
	cs = hx.NewCases(a.Out, "From Coq Require Import ZArith.\nFrom V.C07 Require Import Model Harness.", "(fld * fld * N * N) * tx * list oent * obs", "check", 150)
	thorough := a.Tier == "thorough"
	quota := 10
	if thorough {
		quota = 40
		sampleOneIn = 100
	}
	ident := func(class string, tx *types.Transaction) string {
		sg := ""
		if tx.Sign != nil {
			sg = string(tx.Sign.Bytes())
		}
		return class + "|" + string(tx.Hash.Bytes()) + "|" + sg + "|" + tx.Source + "|" + tx.Target + "|" + tx.Data + "|" + tx.ExtraData + "|" + tx.ChainId + "|" + tx.Time + fmt.Sprint(tx.Nonce, tx.Type)
	}
	// verification must be a pure function of (transaction, height): every transaction is verified twice in
	// a row, and a sample is verified again after other transactions (same hash, other content) went through
	type seen struct {
		class string
		tx    *types.Transaction
		h     uint64
		code  int
	}
	var ring []seen
	recheck := func(when string) {
		keep := height
		for _, e := range ring {
			setHeight(e.h)
			if c, _ := runVerify(e.tx); c != e.code {
				res.Violate("C07/pure:verdict-depends-on-history", fmt.Sprintf("the same transaction at the same height got verdict %d first and %d when verified again %s (class %s)", e.code, c, when, e.class),
					map[string]interface{}{"tx": jsonTx(e.tx), "height": e.h, "first": e.code, "again": c})
			}
			res.Count("reverify/"+when, "", false)
		}
		ring = ring[:0]
		setHeight(keep)
	}
	eval := func(class, key string, tx *types.Transaction, honest bool) {
		code, pmsg := runVerify(tx)
		if c2, _ := runVerify(tx); c2 != code {
			res.Violate("C07/pure:verdict-depends-on-history", fmt.Sprintf("the same transaction verified twice in a row at height %d got verdicts %d and %d (class %s)", height, code, c2, class),
				map[string]interface{}{"tx": jsonTx(tx), "height": height, "first": code, "again": c2})
		}
		if honest || r.Intn(6) == 0 {
			ring = append(ring, seen{class, clone(tx), height, code})
		}
		cl := class
		switch {
		case code == 0:
			cl += "=accept"
		case code == 100:
			cl += "=panic"
		default:
			cl += "=reject"
		}
		res.Count(strings.SplitN(class, ":", 2)[0]+fmt.Sprintf("/verdict%d", code), ident(class, tx), !honest)
		if code == 100 {
			res.Violate("C07/total:"+class, "VerifyTransaction panicked: "+pmsg, jsonTx(tx))
			return
		}
		if honest && code != 0 {
			res.Violate(key, fmt.Sprintf("honestly signed transaction rejected (verdict %d)", code), jsonTx(tx))
		}
		if !honest && code == 0 {
			res.Violate(key, "mutant of an accepted transaction is accepted (class "+class+")", jsonTx(tx))
		}
		if code == 0 { // soundness: recompute every conjunct independently
			var bad string
			if tx.Type == types.TransactionTypeETHTX {
				bad = ethConjuncts(tx)
				if bad != "" && !(bad == "unprotected-v27-28" && key == "C07/eth-eip155:unprotected-v27-28") {
					res.Violate("C07/eth-sound:"+bad, "accepted wrapped Ethereum transaction fails the conjunct '"+bad+"' (class "+class+")", jsonTx(tx))
				}
			} else {
				bad = nativeConjuncts(tx)
				if bad != "" {
					res.Violate("C07/native-sound:"+bad, "accepted transaction fails the conjunct '"+bad+"' (class "+class+")", jsonTx(tx))
				}
			}
		}
		if toModel(r, cl, quota) {
			addCase(class, tx, code)
		}
		if len(res.Samples) < 8 && r.Intn(200) == 0 {
			res.Sample(map[string]interface{}{"class": class, "verdict": code, "tx": jsonTx(tx)})
		}
	}

	shiftAccepted, shiftTotal := 0, 0
	nNative := a.N * 2 / 3
	for i := 0; i < nNative; i++ {
		base, sk := genNative(r)
		eval("honest:native", "C07/complete:native", base, true)
		if i < 2 {
			res.Sample(map[string]interface{}{"class": "honest:native", "tx": jsonTx(base)})
		}
		for _, m := range nativeMutants(r, base, sk, thorough && i < 3) {
			eval(m.class, m.key, m.tx, false)
		}
		// a different honest transaction by the same key with freshly computed hash and signature
		t2 := clone(base)
		t2.Data, t2.Nonce = genString(r), genNonce(r)
		signNative(t2, sk)
		eval("honest:native-resigned", "C07/complete:native", t2, true)
		recheck("after its mutants")
		for _, t := range shiftMutants(base) {
			code, _ := runVerify(t)
			shiftTotal++
			if code == 0 {
				shiftAccepted++
			}
			res.Count(fmt.Sprintf("two-field-shift(outside property)/verdict%d", code), ident("shift", t), true)
			if toModel(r, "shift", quota) {
				addCase("two-field-shift", t, code)
			}
		}
	}
	for i := 0; i < a.N-nNative; i++ {
		b := genEth(r)
		eval("honest:eth-eip155", "C07/complete:eth", b.wrap, true)
		if i < 2 {
			res.Sample(map[string]interface{}{"class": "honest:eth-eip155", "tx": jsonTx(b.wrap)})
		}
		for _, m := range ethMutants(r, b, thorough && i < 3) {
			eval(m.class, m.key, m.tx, false)
		}
		recheck("after its mutants")
	}
	// fixed witness of the confirmed defect (also the witness of C07_eth_unprotected_refuted in Props.v)
	{
		d, _ := hex.DecodeString("4c0883a69102937d6231471b5dbb6204fe5129617082792ae468d01a3f362318")
		k, _ := crypto.ToECDSA(d)
		to := common.BytesToAddress(bytes.Repeat([]byte{0x35}, 20))
		raw := rawTx{Nonce: 9, Price: big.NewInt(20000000000), Gas: 21000, To: &to, Value: big.NewInt(1000000000000000000), Data: nil}
		hb := signEth(nil, raw, k, nil)
		eval("eth-chain:homestead-v27-28", "C07/eth-eip155:unprotected-v27-28", hb.wrap, false)
		addCase("witness:homestead", hb.wrap, func() int { c, _ := runVerify(hb.wrap); return c }())
		res.Note("fixed Homestead witness: ExtraData=" + hb.wrap.ExtraData + " Source=" + hb.wrap.Source + " Hash=" + hb.wrap.Hash.Hex() + " Data=" + hb.wrap.Data)
		for _, o := range ethOracle(hb.enc) {
			res.Note("witness oracle: " + o.coq())
		}
		// the same content honestly signed under EIP-155 for this chain (Example of C07_eth_complete in Props.v)
		eb := signEth(nil, raw, k, chainBig)
		eval("honest:eth-eip155", "C07/complete:eth", eb.wrap, true)
		addCase("witness:eip155", eb.wrap, func() int { c, _ := runVerify(eb.wrap); return c }())
		res.Note("fixed EIP-155 witness: ExtraData=" + eb.wrap.ExtraData + " Source=" + eb.wrap.Source + " Hash=" + eb.wrap.Hash.Hex())
		for _, o := range ethOracle(eb.enc) {
			res.Note("witness oracle: " + o.coq())
		}
	}
	res.Note(fmt.Sprintf("two-field boundary shifts (same preimage, same hash and signature, different declared fields; outside the property's single-field quantifier): %d of %d accepted", shiftAccepted, shiftTotal))
	res.Note("chain id " + chainStr + " at height " + strconv.FormatUint(height, 10))
	admissionPhase(r, a.N/3+6)
	sizeFamily(r, thorough, eval)
	completenessStream(r, thorough, eval)
	recheck("after other transactions") // flush before the configuration changes
	forkPhase(r, a.N/3+6, eval, recheck)
	cs.Close()
	res.ModelCases = cs.Total()
	res.Write(a.Out)
	keys := make([]string, 0)
	for k, v := range res.Histogram {
		keys = append(keys, fmt.Sprintf("%s=%d", k, v))
	}
	fmt.Println(strings.Join(keys, " "))
}
