// C08 harness: two structured malformed families.
//
// (1) size wrap: an element nested in a list whose long-form header declares a size around a wrap point
// of a narrower integer (256+k, 512+k, 65536+k; 2^32+k header-only), k = 0..9, and whose CONTENT is
// itself a run of well-formed sibling elements, so that a decoder that truncates the declared size reads
// k bytes as the integer and keeps going through the siblings to the end of the list. Targets: every
// scalar kind (uint8..uint64, uint, bool, *big.Int, [4]byte, []byte, string) as the first field of a
// struct whose tail swallows the rest, and plain slices. Oracle: accept => re-encodes to the same bytes,
// and the Coq decoder (sizes are N, nothing truncates) on the inputs small enough for a model case.
//
// (2) bad first header + complete canonical value, decoded into Decoder implementations that look at
// Kind() and drop its error (the shape of eth_tx.Transaction.DecodeRLP): a header error must be sticky.
package main

import (
	"bytes"
	"encoding/hex"
	"fmt"
	"io"
	"math/big"
	"reflect"

	"com.tuntun.rangers/node/src/storage/rlp"
	"verif/harness/hx"
)

type wU8 struct {
	A    uint8
	Rest []uint16 `rlp:"tail"`
}
type wU16 struct {
	A    uint16
	Rest []uint16 `rlp:"tail"`
}
type wU32 struct {
	A    uint32
	Rest []uint16 `rlp:"tail"`
}
type wU64 struct {
	A    uint64
	Rest []uint16 `rlp:"tail"`
}
type wUint struct {
	A    uint
	Rest []uint16 `rlp:"tail"`
}
type wBool struct {
	A    bool
	Rest []uint16 `rlp:"tail"`
}
type wBig struct {
	A    *big.Int
	Rest []uint16 `rlp:"tail"`
}
type wArr struct {
	A    [4]byte
	Rest []uint16 `rlp:"tail"`
}
type wBytes struct {
	A    []byte
	Rest []uint16 `rlp:"tail"`
}
type wStr struct {
	A    string
	Rest []uint16 `rlp:"tail"`
}
type wInner struct { // the integer one level further down
	X uint8
	I wU64
	L []uint64
}

var wrapTargets = []struct {
	name string
	mk   func() interface{}
}{
	{"wU8", func() interface{} { return new(wU8) }}, {"wU16", func() interface{} { return new(wU16) }},
	{"wU32", func() interface{} { return new(wU32) }}, {"wU64", func() interface{} { return new(wU64) }},
	{"wUint", func() interface{} { return new(wUint) }}, {"wBool", func() interface{} { return new(wBool) }},
	{"wBig", func() interface{} { return new(wBig) }}, {"wArr", func() interface{} { return new(wArr) }},
	{"wBytes", func() interface{} { return new(wBytes) }}, {"wStr", func() interface{} { return new(wStr) }},
	{"[]uint64", func() interface{} { return new([]uint64) }}, {"[]uint16", func() interface{} { return new([]uint16) }},
	{"[][]uint64", func() interface{} { return new([][]uint64) }}, {"wInner", func() interface{} { return new(wInner) }},
	{"[]interface{}", func() interface{} { return new([]interface{}) }},
}

// wrapElement: a string element declaring `size` bytes: k leading "integer" bytes, then single-byte siblings.
func wrapElement(r *hx.Rng, size uint64, k int, materialise bool) []byte {
	hdr := refHeader(0x80, int(size))
	if size >= 1<<32 {
		hdr = []byte{0xbc, byte(size >> 32), byte(size >> 24), byte(size >> 16), byte(size >> 8), byte(size)}
	}
	if !materialise {
		return append(hdr, 0xff, 0x01, 0x02)
	}
	c := make([]byte, size)
	for i := range c {
		c[i] = byte(1 + r.Intn(0x7e))
	}
	for i := 0; i < k && i < len(c); i++ {
		c[i] = byte(0x80 + r.Intn(0x80))
	}
	return append(hdr, c...)
}

func wrapInputs(r *hx.Rng, thorough bool) (small, big [][]byte) {
	bases := []uint64{256, 512, 768}
	for _, base := range bases {
		for k := 0; k <= 9; k++ {
			el := wrapElement(r, base+uint64(k), k, true)
			for _, extra := range [][]byte{nil, {0x05}, {0x81, 0x80, 0x07}} {
				body := append(append([]byte{}, el...), extra...)
				small = append(small, append(refHeader(0xc0, len(body)), body...))
				// after a leading ordinary element, and one list further down ([X, [el...], [L...]])
				body2 := append([]byte{0x07}, body...)
				small = append(small, append(refHeader(0xc0, len(body2)), body2...))
				inner := append(refHeader(0xc0, len(body)), body...)
				body3 := append(append([]byte{0x09}, inner...), 0xc2, 0x01, 0x02)
				small = append(small, append(refHeader(0xc0, len(body3)), body3...))
			}
		}
	}
	ks := []int{0, 1, 2, 4, 8, 9}
	if thorough {
		ks = []int{0, 1, 2, 3, 4, 5, 6, 7, 8, 9}
	}
	for _, k := range ks {
		el := wrapElement(r, 65536+uint64(k), k, true)
		body := append(append([]byte{}, el...), 0x05)
		big = append(big, append(refHeader(0xc0, len(body)), body...))
		// 2^32 + k: the content cannot be materialised; the header alone must be refused
		h := wrapElement(r, 1<<32+uint64(k), k, false)
		small = append(small, append(refHeader(0xc0, len(h)), h...))
	}
	return
}

// ---- Decoder implementations that peek at Kind() and drop the error (shape of eth_tx.Transaction) ----
type peekInner struct {
	N uint64
	P []byte
	V *big.Int
}
type peekTx struct {
	data peekInner
	size uint64
}

func (t *peekTx) EncodeRLP(w io.Writer) error { return rlp.Encode(w, &t.data) }
func (t *peekTx) DecodeRLP(s *rlp.Stream) error {
	_, size, _ := s.Kind()
	err := s.Decode(&t.data)
	if err == nil {
		t.size = size
	}
	return err
}

// peekMany: several looks, through every accessor, before decoding
type peekMany struct{ data peekInner }

func (t *peekMany) EncodeRLP(w io.Writer) error { return rlp.Encode(w, &t.data) }
func (t *peekMany) DecodeRLP(s *rlp.Stream) error {
	if _, _, err := s.Kind(); err != nil {
		s.Kind()
		s.Bytes()
		s.Raw()
		s.Uint()
		s.List()
	}
	return s.Decode(&t.data)
}

// peekRaw: takes the value with Raw() after a dropped Kind() error, then decodes the raw bytes
type peekRaw struct{ data peekInner }

func (t *peekRaw) EncodeRLP(w io.Writer) error { return rlp.Encode(w, &t.data) }
func (t *peekRaw) DecodeRLP(s *rlp.Stream) error {
	s.Kind()
	raw, err := s.Raw()
	if err != nil {
		return err
	}
	return rlp.DecodeBytes(raw, &t.data)
}

var badFirstHeaders = [][]byte{{0xf8, 0x10}, {0xb8, 0x00}, {0xb9, 0x00, 0x40}, {0xf9, 0x00, 0x38}, {0xb8, 0x37}, {0xf8, 0x37}, {0xba, 0x00, 0x01, 0x00},
	{0xfa, 0x00, 0x00, 0x40}, {0xb8, 0x01}, {0xf8, 0x00}, {0xbf, 0, 0, 0, 0, 0, 0, 0, 0x38}, {0xff, 0, 0, 0, 0, 0, 0, 0, 0x10}}

// badHeaderVariants: a bad first header in front of the complete canonical value, and the value's own
// header rewritten non-canonically.
func badHeaderVariants(enc []byte) [][]byte {
	var out [][]byte
	for _, h := range badFirstHeaders {
		out = append(out, append(append([]byte{}, h...), enc...))
	}
	return append(out, nonCanonical(enc)...)
}

func wrapTier(a hx.Args, rng *hx.Rng, res *hx.Result, cc *hx.Cases, gt *gtyTable) {
	check := func(name string, tv interface{}, b []byte, family string, model bool) {
		err, pan := safeDecode(b, tv)
		id := family + "/" + name + "/" + string(b)
		if pan != nil {
			res.Violate("C08/panic:"+name, fmt.Sprint(pan), hex.EncodeToString(trunc(b)))
			return
		}
		if err != nil {
			res.Count(family+":rejected", id, true)
		} else {
			res.Count(family+":accepted", id, true)
			re, e2 := rlp.EncodeToBytes(tv)
			if e2 != nil || !bytes.Equal(re, b) {
				in := hex.EncodeToString(b)
				if len(in) > 700 {
					in = in[:700] + fmt.Sprintf("… (%d bytes)", len(b))
				}
				res.Violate("C08/canonical-typed:"+name, "accepted bytes re-encode differently ("+family+")", map[string]string{"type": name, "in": in, "re_len": fmt.Sprint(len(re)), "in_len": fmt.Sprint(len(b))})
			}
		}
		if model && len(b) <= 300 {
			obs := "None"
			if err == nil {
				obs = "(Some (" + coqValue(reflect.ValueOf(tv).Elem()) + "))"
			}
			cc.Add(fmt.Sprintf("CDec %s %s %s", gt.name(reflect.TypeOf(tv).Elem()), hx.CoqHex(b), obs), map[string]string{"family": family, "type": name, "input": hex.EncodeToString(b), "impl": obs})
		}
	}
	smallIn, bigIn := wrapInputs(rng, a.Tier == "thorough")
	for i, b := range smallIn {
		for j, t := range wrapTargets {
			check(t.name, t.mk(), b, "size-wrap", (i+j)%5 == 0)
		}
	}
	for _, b := range bigIn {
		for _, t := range wrapTargets {
			check(t.name, t.mk(), b, "size-wrap", false)
		}
	}
	// Decoder implementations that drop the Kind() error
	for i := 0; i < 40; i++ {
		in := peekInner{rng.U64() >> uint(rng.Intn(64)), genBytes(rng), new(big.Int).SetBytes(rng.Bytes(rng.Intn(20)))}
		if len(in.P) > 80 {
			in.P = in.P[:60]
		}
		enc, err := rlp.EncodeToBytes(&peekTx{data: in})
		if err != nil {
			res.Violate("C08/encode-error", err.Error(), "peekTx")
			continue
		}
		for _, b := range append(badHeaderVariants(enc), enc) {
			check("Decoder:peekTx", new(peekTx), b, "bad-first-header", false)
			check("Decoder:peekMany", new(peekMany), b, "bad-first-header", false)
			check("Decoder:peekRaw", new(peekRaw), b, "bad-first-header", false)
		}
	}
}
