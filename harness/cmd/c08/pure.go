// C08 harness, purity tier: encoding/decoding must be a pure function of (type, value) / (type, bytes).
//
// The rlp package keeps two pieces of process-global state: the type cache (typecache.go: one codec per
// (reflect.Type, struct tags) for the life of the process) and the encoder buffer pool (encode.go:
// sync.Pool of encbuf). Neither may leak into a result. This file
//
//	(a) runs a type zoo in which the same element types appear under different struct tags (tail vs
//	    plain, nil vs plain pointer, "-") in many FIRST-USE ORDERS, each order in a fresh child process
//	    (the harness binary re-executes itself with C08_CHILD=order), and compares every result with the
//	    result of the same call made first in a fresh process and (through the model cases) with the Coq
//	    model;
//	(b) interleaves failing encodes / decodes with successful ones (one goroutine, then several: the
//	    pool is per-P) in a fresh child process (C08_CHILD=history) and compares every successful result
//	    with the result the same call gave before any failure happened.
//
// A violation is reported with the call sequence as replay.
package main

import (
	"bytes"
	"context"
	"encoding/hex"
	"encoding/json"
	"fmt"
	"io"
	"math/big"
	"os"
	"os/exec"
	"reflect"
	"runtime"
	"sort"
	"strings"
	"sync"
	"time"

	"com.tuntun.rangers/node/src/storage/rlp"
	"verif/harness/hx"
)

// ---- the zoo: families of types sharing an element type under different tags ----
type pElem struct {
	X uint8
	Y []byte
}

// family 1: []uint16
type pTailU16 struct {
	A    uint8
	Rest []uint16 `rlp:"tail"`
}
type pPlainU16 struct {
	Items []uint16
	Last  uint8
}
type pIgnU16 struct {
	A uint8
	X []uint16 `rlp:"-"`
	B uint8
}
type pNilPtrU16s struct {
	A uint8
	P *[]uint16 `rlp:"nil"`
}
type pPtrU16s struct {
	A uint8
	P *[]uint16
}

// family 2: struct elements
type pTailElem struct {
	A    uint8
	Rest []pElem `rlp:"tail"`
}
type pPlainElem struct {
	L []pElem
	A uint8
}
type pNilElem struct {
	A uint8
	P *pElem `rlp:"nil"`
}
type pPtrElem struct {
	A uint8
	P *pElem
}

// family 3: byte arrays behind pointers
type pNilArr struct {
	A uint8
	P *[20]byte `rlp:"nil"`
	B uint8
}
type pPtrArr struct {
	A uint8
	P *[20]byte
	B uint8
}

// family 4: scalars behind pointers
type pNilU64 struct {
	A uint8
	P *uint64 `rlp:"nil"`
}
type pPtrU64 struct {
	A uint8
	P *uint64
}

// family 5: "tail" on a byte slice is an ordinary string field
type pTailBytes struct {
	A    uint8
	Rest []byte `rlp:"tail"`
}
type pPlainBytes struct {
	A    uint8
	Rest []byte
}

// family 6: *big.Int ignores "nil"
type pNilBig struct {
	A uint8
	P *big.Int `rlp:"nil"`
}
type pPtrBig struct {
	A uint8
	P *big.Int
}

// family 7: nested slices, tail of slices
type pTailSlices struct {
	A    uint8
	Rest [][]uint16 `rlp:"tail"`
}
type pPlainSlices struct {
	L [][]uint16
}

// family 8: several tags at once, unexported fields
type pMulti struct {
	A    uint8
	skip uint16
	P    *[]uint16 `rlp:"nil"`
	X    uint8     `rlp:"-"`
	Rest []uint16  `rlp:"nil,tail"`
}

// ---- independent reference encoder (used only to build decode inputs) ----
func rS(b []byte) []byte {
	if len(b) == 1 && b[0] < 0x80 {
		return []byte{b[0]}
	}
	if len(b) < 56 {
		return append([]byte{0x80 + byte(len(b))}, b...)
	}
	var sz []byte
	for x := len(b); x > 0; x >>= 8 {
		sz = append([]byte{byte(x)}, sz...)
	}
	return append(append([]byte{0xb7 + byte(len(sz))}, sz...), b...)
}
func rU(n uint64) []byte {
	var b []byte
	for ; n > 0; n >>= 8 {
		b = append([]byte{byte(n)}, b...)
	}
	return rS(b)
}
func rL(parts ...[]byte) []byte {
	var c []byte
	for _, p := range parts {
		c = append(c, p...)
	}
	return append(listHeader(len(c)), c...)
}

// ---- operations ----
type pureOp struct {
	name  string
	group string             // zoo type whose codec the call needs first
	val   func() interface{} // encode op: the value
	in    []byte             // decode op: the input
	mk    func() interface{} // decode op: fresh target
	fail  bool               // must fail (poison for the history test)
}

func (o *pureOp) isEnc() bool { return o.val != nil }

func encErrClass(err error) string {
	s := err.Error()
	switch {
	case strings.Contains(s, "negative"):
		return "negative-bigint"
	case strings.Contains(s, "not RLP-serializable"):
		return "unsupported-type"
	case strings.Contains(s, "unadressable"):
		return "unaddressable-encoder"
	}
	return "other:" + s
}

// run executes one operation. mode 0: EncodeToBytes / DecodeBytes; 1: Encode(io.Writer) / reused Stream;
// 2: EncodeToReader / NewStream on a bytes.Reader with explicit limit.
func (o *pureOp) run(mode int, reuse *rlp.Stream) (obs string) {
	defer func() {
		if p := recover(); p != nil {
			obs = fmt.Sprint("PANIC:", p)
		}
	}()
	if o.isEnc() {
		var out []byte
		var err error
		switch mode {
		case 0:
			out, err = rlp.EncodeToBytes(o.val())
		case 1:
			var buf bytes.Buffer
			err = rlp.Encode(&buf, o.val())
			out = buf.Bytes()
		default:
			var size int
			var r io.Reader
			size, r, err = rlp.EncodeToReader(o.val())
			if err == nil {
				out, err = io.ReadAll(r)
				if err == nil && size != len(out) {
					return fmt.Sprintf("E!size %d but %d bytes read", size, len(out))
				}
			}
		}
		if err != nil {
			return "E!" + encErrClass(err)
		}
		return "E:" + hex.EncodeToString(out)
	}
	tv := o.mk()
	var err error
	switch mode {
	case 0:
		err = rlp.DecodeBytes(o.in, tv)
	case 1:
		rd := bytes.NewReader(o.in)
		reuse.Reset(rd, uint64(len(o.in)))
		err = reuse.Decode(tv)
		if err == nil && rd.Len() > 0 {
			err = rlp.ErrMoreThanOneValue
		}
	default:
		rd := bytes.NewReader(o.in)
		err = rlp.NewStream(rd, uint64(len(o.in))).Decode(tv)
		if err == nil && rd.Len() > 0 {
			err = rlp.ErrMoreThanOneValue
		}
	}
	if err != nil {
		return fmt.Sprintf("D!%d", errCode(err))
	}
	return "D:" + coqValue(reflect.ValueOf(tv).Elem())
}

var pureOps []*pureOp

func pEnc(group, name string, fail bool, vals ...func() interface{}) {
	for i, v := range vals {
		pureOps = append(pureOps, &pureOp{name: fmt.Sprintf("enc %s #%d", name, i), group: group, val: v, fail: fail})
	}
}
func pDec(group string, mk func() interface{}, fail bool, ins ...[]byte) {
	for _, in := range ins {
		pureOps = append(pureOps, &pureOp{name: fmt.Sprintf("dec %s <- %x", group, in), group: group, in: in, mk: mk, fail: fail})
	}
}

func u16s(x ...uint16) []uint16 { return x }
func u64p(x uint64) *uint64     { return &x }

func init() {
	V := func(v interface{}) func() interface{} { return func() interface{} { return v } }
	addr := [20]byte{1, 2, 3, 4, 5, 6, 7, 8, 9, 10, 11, 12, 13, 14, 15, 16, 17, 18, 19, 0x80}
	zaddr := [20]byte{}
	e1, e2 := pElem{1, []byte{0x80}}, pElem{0, nil}
	l23 := u16s(2, 3)
	big1000, bigNeg := big.NewInt(1000), big.NewInt(-5)

	// family 1
	pEnc("pTailU16", "pTailU16", false, V(pTailU16{1, l23}), V(pTailU16{0, nil}), V(&pTailU16{0x80, u16s(0, 0x100, 0xffff)}))
	pEnc("pPlainU16", "pPlainU16", false, V(pPlainU16{l23, 4}), V(pPlainU16{nil, 0}), V(&pPlainU16{u16s(0, 0x100, 0xffff), 0x80}))
	pEnc("[]uint16", "[]uint16", false, V(l23), V(u16s()), V(&l23))
	pEnc("pIgnU16", "pIgnU16", false, V(pIgnU16{1, l23, 2}))
	pEnc("pNilPtrU16s", "pNilPtrU16s", false, V(pNilPtrU16s{1, nil}), V(pNilPtrU16s{1, &l23}))
	pEnc("pPtrU16s", "pPtrU16s", false, V(pPtrU16s{1, nil}), V(pPtrU16s{1, &l23}))
	f1 := [][]byte{rL(rU(1), rU(2), rU(3)), rL(rL(rU(2), rU(3)), rU(4)), rL(rU(2), rU(3)), rL(), rL(rU(1)), rL(rU(1), rL(rU(2), rU(3))), rL(rU(1), rL()), rL(rU(1), rS(nil)), rL(rU(1), rU(2)), rL(rL(), rU(0))}
	pDec("pTailU16", func() interface{} { return new(pTailU16) }, false, f1...)
	pDec("pPlainU16", func() interface{} { return new(pPlainU16) }, false, f1...)
	pDec("[]uint16", func() interface{} { return new([]uint16) }, false, f1...)
	pDec("pIgnU16", func() interface{} { return new(pIgnU16) }, false, f1...)
	pDec("pNilPtrU16s", func() interface{} { return new(pNilPtrU16s) }, false, f1...)
	pDec("pPtrU16s", func() interface{} { return new(pPtrU16s) }, false, f1...)

	// family 2
	pEnc("pTailElem", "pTailElem", false, V(pTailElem{1, []pElem{e1, e2}}), V(pTailElem{1, nil}))
	pEnc("pPlainElem", "pPlainElem", false, V(pPlainElem{[]pElem{e1, e2}, 1}), V(pPlainElem{nil, 1}))
	pEnc("[]pElem", "[]pElem", false, V([]pElem{e1, e2}), V([]pElem{}))
	pEnc("pNilElem", "pNilElem", false, V(pNilElem{1, nil}), V(pNilElem{1, &e1}))
	pEnc("pPtrElem", "pPtrElem", false, V(pPtrElem{1, nil}), V(pPtrElem{1, &e1}), V(&pPtrElem{1, &e2}))
	pEnc("*pElem", "*pElem", false, V(&e1), V((*pElem)(nil)))
	ee1, ee2 := rL(rU(1), rS([]byte{0x80})), rL(rU(0), rS(nil))
	f2 := [][]byte{rL(rU(1), ee1, ee2), rL(rL(ee1, ee2), rU(1)), rL(ee1, ee2), rL(rU(1)), rL(rU(1), rL()), rL(rU(1), ee1), rL(rU(1), rS(nil)), ee1, rL(rL(), rU(1))}
	pDec("pTailElem", func() interface{} { return new(pTailElem) }, false, f2...)
	pDec("pPlainElem", func() interface{} { return new(pPlainElem) }, false, f2...)
	pDec("[]pElem", func() interface{} { return new([]pElem) }, false, f2...)
	pDec("pNilElem", func() interface{} { return new(pNilElem) }, false, f2...)
	pDec("pPtrElem", func() interface{} { return new(pPtrElem) }, false, f2...)
	pDec("*pElem", func() interface{} { return new(*pElem) }, false, f2...)

	// family 3
	pEnc("pNilArr", "pNilArr", false, V(pNilArr{1, nil, 2}), V(pNilArr{1, &addr, 2}), V(pNilArr{1, &zaddr, 2}))
	pEnc("pPtrArr", "pPtrArr", false, V(pPtrArr{1, nil, 2}), V(pPtrArr{1, &addr, 2}))
	f3 := [][]byte{rL(rU(1), rS(nil), rU(2)), rL(rU(1), rS(addr[:]), rU(2)), rL(rU(1), rL(), rU(2)), rL(rU(1), rS(zaddr[:]), rU(2)), rL(rU(1), rS(addr[:19]), rU(2))}
	pDec("pNilArr", func() interface{} { return new(pNilArr) }, false, f3...)
	pDec("pPtrArr", func() interface{} { return new(pPtrArr) }, false, f3...)

	// family 4
	pEnc("pNilU64", "pNilU64", false, V(pNilU64{1, nil}), V(pNilU64{1, u64p(0x1234)}))
	pEnc("pPtrU64", "pPtrU64", false, V(pPtrU64{1, nil}), V(pPtrU64{1, u64p(0x1234)}), V(pPtrU64{1, u64p(0)}))
	f4 := [][]byte{rL(rU(1), rS(nil)), rL(rU(1), rU(0x1234)), rL(rU(1), rL()), rL(rU(1), rS([]byte{0, 1})), rL(rU(1), rS([]byte{1, 2, 3, 4, 5, 6, 7, 8, 9}))}
	pDec("pNilU64", func() interface{} { return new(pNilU64) }, false, f4...)
	pDec("pPtrU64", func() interface{} { return new(pPtrU64) }, false, f4...)

	// family 5
	pEnc("pTailBytes", "pTailBytes", false, V(pTailBytes{1, []byte{2, 3}}), V(pTailBytes{1, nil}))
	pEnc("pPlainBytes", "pPlainBytes", false, V(pPlainBytes{1, []byte{2, 3}}), V(pPlainBytes{1, []byte{3}}))
	f5 := [][]byte{rL(rU(1), rS([]byte{2, 3})), rL(rU(1), rU(2), rU(3)), rL(rU(1)), rL(rU(1), rS(nil)), rL(rU(1), rU(3))}
	pDec("pTailBytes", func() interface{} { return new(pTailBytes) }, false, f5...)
	pDec("pPlainBytes", func() interface{} { return new(pPlainBytes) }, false, f5...)

	// family 6
	pEnc("pNilBig", "pNilBig", false, V(pNilBig{1, nil}), V(pNilBig{1, big1000}))
	pEnc("pPtrBig", "pPtrBig", false, V(pPtrBig{1, nil}), V(pPtrBig{1, big1000}))
	f6 := [][]byte{rL(rU(1), rS(nil)), rL(rU(1), rU(1000)), rL(rU(1), rL()), rL(rU(1), rS([]byte{0, 1}))}
	pDec("pNilBig", func() interface{} { return new(pNilBig) }, false, f6...)
	pDec("pPtrBig", func() interface{} { return new(pPtrBig) }, false, f6...)

	// family 7
	ll := [][]uint16{{1, 2}, {}, {0x100}}
	pEnc("pTailSlices", "pTailSlices", false, V(pTailSlices{1, ll}), V(pTailSlices{1, nil}))
	pEnc("pPlainSlices", "pPlainSlices", false, V(pPlainSlices{ll}), V(pPlainSlices{nil}))
	pEnc("[][]uint16", "[][]uint16", false, V(ll))
	f7 := [][]byte{rL(rU(1), rL(rU(1), rU(2)), rL(), rL(rU(0x100))), rL(rL(rL(rU(1), rU(2)), rL(), rL(rU(0x100)))), rL(rL(rU(1), rU(2)), rL(), rL(rU(0x100))), rL(rU(1)), rL(rL())}
	pDec("pTailSlices", func() interface{} { return new(pTailSlices) }, false, f7...)
	pDec("pPlainSlices", func() interface{} { return new(pPlainSlices) }, false, f7...)
	pDec("[][]uint16", func() interface{} { return new([][]uint16) }, false, f7...)

	// family 8
	pEnc("pMulti", "pMulti", false, V(pMulti{1, 9, nil, 9, l23}), V(pMulti{1, 9, &l23, 9, nil}))
	f8 := [][]byte{rL(rU(1), rL(), rU(2), rU(3)), rL(rU(1), rL(rU(2), rU(3))), rL(rU(1), rS(nil), rU(2)), rL(rU(1))}
	pDec("pMulti", func() interface{} { return new(pMulti) }, false, f8...)

	// plain scalars / shapes shared with the rest of the node (also the "good" calls of the history test)
	good := tStruct{9, []byte{0xaa, 0xbb}, big1000}
	pEnc("tStruct", "tStruct", false, V(good), V(&good), V(tStruct{0, nil, new(big.Int)}))
	pEnc("uint64", "uint64", false, V(uint64(5)), V(uint64(0)), V(uint64(1)<<63))
	pEnc("[]interface{}", "[]interface{}", false, V([]interface{}{uint64(1), []byte("abc"), []interface{}{[]byte{}, "x"}}), V([]interface{}{}))
	long := bytes.Repeat([]byte{0x55}, 70)
	pEnc("tNested2", "tNested2", false, V(tNested2{[][]byte{long, {}}, good, &good, []interface{}{long}, [2]uint16{1, 0}, true}))
	pEnc("txdataLike", "txdataLike", false, V(txdataLike{3, big1000, 21000, nil, big.NewInt(7), long, big.NewInt(27), big1000, big1000}), V(txdataLike{3, big1000, 21000, &addr, big.NewInt(7), nil, big.NewInt(28), big1000, big1000}))
	pDec("tStruct", func() interface{} { return new(tStruct) }, false, rL(rU(9), rS([]byte{0xaa, 0xbb}), rU(1000)), rL(rU(0), rS(nil), rU(0)))
	pDec("uint64", func() interface{} { return new(uint64) }, false, rU(5), rU(1<<63))
	pDec("interface{}", func() interface{} { return new(interface{}) }, false, rL(rU(1), rS([]byte("abc")), rL(rS(nil), rS([]byte("x")))), rS(long))
	pDec("txdataLike", func() interface{} { return new(txdataLike) }, false, rL(rU(3), rU(1000), rU(21000), rS(nil), rU(7), rS(long), rU(27), rU(1000), rU(1000)), rL(rU(3), rU(1000), rU(21000), rS(addr[:]), rU(7), rS(nil), rU(28), rU(1000), rU(1000)))

	// ---- calls that must fail (history test): encoders that fail after partial output ... ----
	type tBigs struct {
		A uint64
		L []*big.Int
	}
	pEnc("tStruct", "FAIL tStruct neg", true, V(tStruct{7, []byte{1, 2, 3}, bigNeg}), V(&tStruct{1 << 40, long, bigNeg}))
	pEnc("[]interface{}", "FAIL iface unsupported", true,
		V([]interface{}{uint64(1), []byte("abc"), -1}),
		V([]interface{}{long, []interface{}{uint64(5), []interface{}{"deep", map[string]int{}}}}),
		V([]interface{}{[]interface{}{}, []interface{}{[]byte{1}}, 3.5}),
		V([]interface{}{[]byte{1, 2, 3}, make(chan int)}))
	pEnc("txdataLike", "FAIL txdata neg S", true, V(txdataLike{3, big1000, 21000, &addr, big.NewInt(7), long, big.NewInt(27), big1000, bigNeg}))
	pEnc("tBigs", "FAIL bigs", true, V(tBigs{1, []*big.Int{big1000, big1000, bigNeg}}), V([]*big.Int{big1000, bigNeg}))
	pEnc("tNested2", "FAIL nested", true, V(tNested2{[][]byte{long, {}}, good, &tStruct{1, nil, bigNeg}, nil, [2]uint16{}, false}))
	// ... and without any output
	pEnc("big", "FAIL top-level", true, V(bigNeg), V(3.5), V(int32(-1)), V(map[string]string{}))
	// failing decodes: too large, non-canonical, wrong kind, trailing data, nil-pointer value where a struct is required
	pDec("tStruct", func() interface{} { return new(tStruct) }, true,
		rL(rU(9), rS([]byte{0xaa, 0xbb})), rL(rS([]byte{1, 2, 3, 4, 5, 6, 7, 8, 9}), rS(nil), rU(1)), append(rL(rU(9), rS(nil), rU(1)), 0x01),
		[]byte{0xc4, 0x09, 0x85, 0x01, 0x02}, []byte{0xc3, 0x09, 0x81, 0x05}, rL(rU(9), rL(), rU(1)), rL(rU(9), rS(nil), rS([]byte{0, 1})), []byte{0xf8, 0x03, 0x09, 0x80, 0x01}, []byte{}, []byte{0xc5, 0x09})
	pDec("uint64", func() interface{} { return new(uint64) }, true, rS([]byte{1, 2, 3, 4, 5, 6, 7, 8, 9}), []byte{0x00}, []byte{0x81, 0x05}, []byte{0x82, 0x00, 0x05}, rL(), []byte{0x88, 1, 2})
	pDec("pPtrElem", func() interface{} { return new(pPtrElem) }, true, rL(rU(1), rL()), rL(rU(1), rS(nil)))
	pDec("interface{}", func() interface{} { return new(interface{}) }, true, []byte{0xc3, 0xc2, 0xc1}, []byte{0xb8, 0x05, 1, 2, 3, 4, 5}, []byte{0xc2, 0x81, 0x05}, []byte{0xbf, 0xff, 0xff, 0xff, 0xff, 0xff, 0xff, 0xff, 0xff})
}

// ---- child process entry points ----
type childReq struct {
	Ops        []int  `json:"ops,omitempty"`
	Seed       uint64 `json:"seed,omitempty"`
	Rounds     int    `json:"rounds,omitempty"`
	Goroutines int    `json:"goroutines,omitempty"`
}
type histMismatch struct {
	Phase string   `json:"phase"`
	Calls []string `json:"calls"`
	Got   string   `json:"got"`
	Want  string   `json:"want"`
}
type childResp struct {
	Obs        []string       `json:"obs,omitempty"`
	Baseline   []string       `json:"baseline,omitempty"`
	Mismatches []histMismatch `json:"mismatches,omitempty"`
	Evals      int            `json:"evals"`
	Failed     int            `json:"failed"`
}

// watchdog: a call that does not return within 3 s or drives the heap above 1.5 GB ends the child with a
// marker line; the parent reports the call (and the calls before it) as the failing input.
var childCurrent struct {
	sync.Mutex
	what  string
	since time.Time
}

func childWatch() {
	var ms runtime.MemStats
	for {
		time.Sleep(25 * time.Millisecond)
		runtime.ReadMemStats(&ms)
		childCurrent.Lock()
		what, since := childCurrent.what, childCurrent.since
		childCurrent.Unlock()
		why := ""
		if ms.HeapAlloc > 1500<<20 {
			why = fmt.Sprintf("heap grew to %d MB", ms.HeapAlloc>>20)
		} else if what != "" && time.Since(since) > 3*time.Second {
			why = "no result after 3 s"
		}
		if why != "" {
			b, _ := json.Marshal(map[string]string{"abort": why, "during": what})
			os.Stdout.Write(append(b, '\n'))
			os.Exit(7)
		}
	}
}
func childNow(what string) {
	childCurrent.Lock()
	childCurrent.what, childCurrent.since = what, time.Now()
	childCurrent.Unlock()
}

func childMain(kind string) {
	var req childReq
	if err := json.NewDecoder(os.Stdin).Decode(&req); err != nil {
		fmt.Fprintln(os.Stderr, "child: bad request:", err)
		os.Exit(3)
	}
	go childWatch()
	var resp childResp
	switch kind {
	case "order":
		for _, i := range req.Ops {
			childNow(pureOps[i].name)
			resp.Obs = append(resp.Obs, pureOps[i].run(0, nil))
			resp.Evals++
		}
	case "history":
		resp = childHistory(req)
	default:
		os.Exit(3)
	}
	childNow("")
	json.NewEncoder(os.Stdout).Encode(resp)
}

const nModes = 3

// childHistory: phase 0 records the result of every call in a process where nothing has failed yet;
// phase 1 alternates failing and succeeding calls on one goroutine; phase 2 does the same on several.
func childHistory(req childReq) childResp {
	var resp childResp
	runtime.GOMAXPROCS(8)
	base := make([]string, len(pureOps))
	var goodIdx, badIdx []int
	for i, o := range pureOps {
		if o.fail {
			badIdx = append(badIdx, i)
		} else {
			goodIdx = append(goodIdx, i)
			childNow(o.name)
			base[i] = o.run(0, nil)
			resp.Evals++
		}
	}
	resp.Baseline = base
	var mu sync.Mutex
	report := func(m histMismatch) {
		mu.Lock()
		if len(resp.Mismatches) < 6 {
			resp.Mismatches = append(resp.Mismatches, m)
		}
		mu.Unlock()
	}
	loop := func(phase string, rng *hx.Rng, rounds int) (evals, failed int) {
		reuse := rlp.NewStream(bytes.NewReader(nil), 0)
		var recent []string
		push := func(s string) {
			recent = append(recent, s)
			if len(recent) > 4 {
				recent = recent[1:]
			}
		}
		for r := 0; r < rounds; r++ {
			// 0..2 failing calls, then one good call
			nf := rng.Intn(3)
			if r < 2*len(badIdx) {
				nf = 1
			}
			for k := 0; k < nf; k++ {
				bi := badIdx[rng.Intn(len(badIdx))]
				if r < 2*len(badIdx) {
					bi = badIdx[r%len(badIdx)]
				}
				bo := pureOps[bi]
				mode := rng.Intn(nModes)
				childNow(bo.name)
				obs := bo.run(mode, reuse)
				evals++
				failed++
				push(fmt.Sprintf("%s [mode %d] -> %s", bo.name, mode, obs))
				if !strings.Contains(obs, "!") {
					report(histMismatch{phase, append([]string{}, recent...), obs, "an error (this call must fail)"})
				}
			}
			gi := goodIdx[rng.Intn(len(goodIdx))]
			g := pureOps[gi]
			mode := rng.Intn(nModes)
			childNow(g.name)
			obs := g.run(mode, reuse)
			evals++
			push(fmt.Sprintf("%s [mode %d] -> %s", g.name, mode, obs))
			if obs != base[gi] {
				calls := append([]string{}, recent...)
				// shrink: is one failing call followed by this call enough?
			shrink:
				for _, bi := range badIdx {
					for try := 0; try < 3; try++ {
						bobs := pureOps[bi].run(0, reuse)
						if o2 := g.run(mode, reuse); o2 != base[gi] {
							calls = []string{fmt.Sprintf("%s [mode 0] -> %s", pureOps[bi].name, bobs), fmt.Sprintf("%s [mode %d] -> %s", g.name, mode, o2)}
							obs = o2
							break shrink
						}
					}
				}
				report(histMismatch{phase, calls, obs, base[gi]})
			}
			if phase != "one-goroutine" && r%7 == 0 {
				runtime.Gosched()
			}
		}
		return
	}
	rng := hx.NewRng(req.Seed)
	e, f := loop("one-goroutine", rng.Fork(), req.Rounds)
	resp.Evals += e
	resp.Failed += f
	var wg sync.WaitGroup
	for g := 0; g < req.Goroutines; g++ {
		wg.Add(1)
		r := rng.Fork()
		go func() {
			defer wg.Done()
			e, f := loop("several-goroutines", r, req.Rounds/2)
			mu.Lock()
			resp.Evals += e
			resp.Failed += f
			mu.Unlock()
		}()
	}
	wg.Wait()
	return resp
}

type childAbort struct {
	Abort  string `json:"abort"`
	During string `json:"during"`
}

func (c *childAbort) Error() string { return c.Abort + " during " + c.During }

func runChild(kind string, req childReq) (childResp, error) {
	var resp childResp
	self, err := os.Executable()
	if err != nil {
		self = os.Args[0]
	}
	in, _ := json.Marshal(req)
	ctx, cancel := context.WithTimeout(context.Background(), 180*time.Second)
	defer cancel()
	cmd := exec.CommandContext(ctx, self)
	cmd.Env = append(os.Environ(), "C08_CHILD="+kind)
	cmd.Stdin = bytes.NewReader(in)
	var stderr bytes.Buffer
	cmd.Stderr = &stderr
	out, err := cmd.Output()
	if err != nil {
		var ab childAbort
		if json.Unmarshal(bytes.TrimSpace(out), &ab) == nil && ab.Abort != "" {
			return resp, &ab
		}
		msg := strings.TrimSpace(stderr.String())
		if len(msg) > 600 {
			msg = msg[:600]
		}
		return resp, fmt.Errorf("%v: %s", err, msg)
	}
	if err := json.Unmarshal(out, &resp); err != nil {
		return resp, fmt.Errorf("child output: %v", err)
	}
	return resp, nil
}

// ---- parent side ----
func opNames(idx []int) []string {
	s := make([]string, len(idx))
	for i, k := range idx {
		s[i] = pureOps[k].name
	}
	return s
}

// pureTier runs (a) and (b); fresh[i] is the result of good call i made first in a fresh process (its
// group's calls lead the order), which the caller also hands to the model.
func pureTier(a hx.Args, rng *hx.Rng, res *hx.Result) (fresh []string) {
	var good []int
	groups := []string{}
	byGroup := map[string][]int{}
	for i, o := range pureOps {
		if o.fail {
			continue
		}
		good = append(good, i)
		if _, ok := byGroup[o.group]; !ok {
			groups = append(groups, o.group)
		}
		byGroup[o.group] = append(byGroup[o.group], i)
	}
	fresh = make([]string, len(pureOps))
	childFailed := func(what string, err error) {
		res.Violate("C08/pure:child-crash", what+": "+err.Error(), what)
	}
	// reference: every group first in its own fresh process (the rest of the calls follow, shuffled)
	shuffled := func(xs []int) []int {
		o := append([]int{}, xs...)
		for i := len(o) - 1; i > 0; i-- {
			j := rng.Intn(i + 1)
			o[i], o[j] = o[j], o[i]
		}
		return o
	}
	var orders [][]int
	for _, g := range groups {
		var rest []int
		for _, i := range good {
			if pureOps[i].group != g {
				rest = append(rest, i)
			}
		}
		orders = append(orders, append(append([]int{}, byGroup[g]...), shuffled(rest)...))
	}
	nRef := len(orders)
	rev := make([]int, len(good))
	for i, k := range good {
		rev[len(good)-1-i] = k
	}
	orders = append(orders, good, rev)
	// decoders first / encoders first
	var encs, decs []int
	for _, i := range good {
		if pureOps[i].isEnc() {
			encs = append(encs, i)
		} else {
			decs = append(decs, i)
		}
	}
	orders = append(orders, append(shuffled(decs), shuffled(encs)...), append(shuffled(encs), shuffled(decs)...))
	nRand := 12
	if a.Tier == "thorough" {
		nRand = 120
	}
	for k := 0; k < nRand; k++ {
		orders = append(orders, shuffled(good))
	}
	results := make([][]string, len(orders))
	type pending struct {
		n     int
		key   string
		what  string
		input map[string]interface{}
	}
	var pend []pending
	aborted := 0
	for k, ord := range orders {
		if aborted >= 3 && k >= nRef {
			break // every further order would spend its time in the same non-returning call
		}
		resp, err := runChild("order", childReq{Ops: ord})
		if ab, ok := err.(*childAbort); ok {
			aborted++
			// a call that neither returns nor fails: find where, then whether it also happens in a fresh process
			at := 0
			for p, i := range ord {
				if pureOps[i].name == ab.During {
					at = p
				}
			}
			alone, err2 := runChild("order", childReq{Ops: []int{ord[at]}})
			key, why := "C08/pure:type-cache-order", "as the first call of a fresh process it returns "
			if err2 != nil {
				key, why = "C08/total:"+pureOps[ord[at]].group, "alone in a fresh process: "+err2.Error()
			} else {
				why += alone.Obs[0]
			}
			calls := ord[:at+1]
			for q := 0; q < at && err2 == nil && aborted <= 2; q++ {
				if _, e3 := runChild("order", childReq{Ops: []int{ord[q], ord[at]}}); e3 != nil {
					calls = []int{ord[q], ord[at]}
					break
				}
			}
			pend = append(pend, pending{len(calls), key, fmt.Sprintf("%q does not return (%s) after the calls listed; %s", ab.During, ab.Abort, why),
				map[string]interface{}{"calls_in_order": opNames(calls), "call": ab.During, "abort": ab.Abort}})
			continue
		}
		if err != nil || len(resp.Obs) != len(ord) {
			childFailed(fmt.Sprintf("order #%d %v", k, opNames(ord)), fmt.Errorf("%v (got %d results)", err, len(resp.Obs)))
			continue
		}
		results[k] = resp.Obs
		if k < nRef {
			for p, i := range ord {
				if pureOps[i].group == groups[k] {
					fresh[i] = resp.Obs[p]
				}
			}
		}
	}
	reported := map[string]bool{}
	for k, ord := range orders {
		if results[k] == nil {
			continue
		}
		for p, i := range ord {
			obs := results[k][p]
			o := pureOps[i]
			class := "pure-order:ok"
			if strings.Contains(obs, "!") {
				class = "pure-order:rejected"
			}
			res.Count(class, fmt.Sprintf("order%d/%s", k, o.name), true)
			if strings.HasPrefix(obs, "PANIC") {
				res.Violate("C08/panic:"+o.group, obs, o.name)
			}
			if fresh[i] == "" || obs == fresh[i] || reported[o.name] {
				continue
			}
			reported[o.name] = true
			// shrink the history: one earlier call that is enough to change the result
			calls := ord[:p+1]
			for q := 0; q < p; q++ {
				r2, err := runChild("order", childReq{Ops: []int{ord[q], i}})
				if err == nil && len(r2.Obs) == 2 && r2.Obs[1] == obs {
					calls = []int{ord[q], i}
					break
				}
			}
			pend = append(pend, pending{len(calls), "C08/pure:type-cache-order", fmt.Sprintf("%q returns %s as the first call of a fresh process but %s after the calls listed (same arguments): the result depends on which use of the element type reached the type cache first", o.name, fresh[i], obs),
				map[string]interface{}{"calls_in_order": opNames(calls), "call": o.name, "fresh_process": fresh[i], "after_history": obs}})
		}
	}
	sort.SliceStable(pend, func(i, j int) bool { return pend[i].n < pend[j].n })
	for _, p := range pend {
		res.Violate(p.key, p.what, p.input)
	}
	res.Histogram["pure-orders"] = len(orders)

	// (b) history of failures
	rounds := 3000
	nproc := 3
	if a.Tier == "thorough" {
		rounds, nproc = 20000, 8
	}
	for k := 0; k < nproc; k++ {
		resp, err := runChild("history", childReq{Seed: rng.U64(), Rounds: rounds, Goroutines: 6})
		if ab, ok := err.(*childAbort); ok {
			res.Violate("C08/total:nonterminating-call", fmt.Sprintf("%q does not return (%s) in the history process", ab.During, ab.Abort), ab.During)
			continue
		}
		if err != nil {
			childFailed(fmt.Sprintf("history run #%d", k), err)
			continue
		}
		res.Histogram["pure-history-evals"] += resp.Evals
		res.Histogram["pure-history-failing-calls"] += resp.Failed
		res.Evaluations += resp.Evals
		for i, b := range resp.Baseline {
			if fresh[i] != "" && b != "" && b != fresh[i] {
				res.Violate("C08/pure:type-cache-order", fmt.Sprintf("%q: %s when its type is used first, %s in the zoo order of the history process", pureOps[i].name, fresh[i], b), pureOps[i].name)
			}
		}
		for _, m := range resp.Mismatches {
			key := "C08/pure:encode-depends-on-history"
			if strings.HasPrefix(m.Want, "D") {
				key = "C08/pure:decode-depends-on-history"
			}
			res.Violate(key, fmt.Sprintf("a call returned %s after the calls listed; the same call returned %s before any call had failed in this process", m.Got, m.Want),
				map[string]interface{}{"phase": m.Phase, "last_calls_in_order": m.Calls, "got": m.Got, "want": m.Want})
		}
	}
	return fresh
}
