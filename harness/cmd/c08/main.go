// C08 harness: RLP implementation vs the Coq model, plus direct evaluation of the property
// (round trip, canonicity, totality, allocation bound) on the implementation.
package main

import (
	"bytes"
	"encoding/hex"
	"flag"
	"fmt"
	"io"
	"math/big"
	"os"
	"reflect"
	"runtime"
	"strings"
	"time"

	"com.tuntun.rangers/node/src/storage/rlp"
	"verif/harness/c08ext"
	"verif/harness/hx"
)

func errCode(err error) int {
	switch err {
	case io.EOF:
		return 1
	case rlp.ErrValueTooLarge:
		return 2
	case rlp.ErrElemTooLarge:
		return 3
	case rlp.ErrCanonSize:
		return 4
	case rlp.ErrCanonInt:
		return 5
	case rlp.ErrMoreThanOneValue:
		return 6
	case rlp.ErrExpectedString:
		return 7
	case rlp.ErrExpectedList:
		return 8
	case io.ErrUnexpectedEOF:
		return 10
	}
	if err != nil && err.Error() == "rlp: uint overflow" {
		return 9
	}
	return 11
}

// ---- item trees ----
func genTree(r *hx.Rng, depth int) interface{} {
	if depth <= 0 || r.Intn(3) > 0 {
		return genBytes(r)
	}
	n := r.Intn(5)
	if r.Intn(8) == 0 {
		n = 20 + r.Intn(20) // payload crossing 55/56
	}
	l := make([]interface{}, n)
	for i := range l {
		l[i] = genTree(r, depth-1)
	}
	return l
}

var lens = []int{0, 1, 1, 1, 2, 3, 20, 32, 54, 55, 56, 57, 100, 255, 256, 257}

func genBytes(r *hx.Rng) []byte {
	n := lens[r.Intn(len(lens))]
	if r.Intn(40) == 0 {
		n = 65535 + r.Intn(3)
	}
	b := r.Bytes(n)
	if n == 1 {
		switch r.Intn(4) {
		case 0:
			b[0] = 0
		case 1:
			b[0] = 0x7f
		case 2:
			b[0] = 0x80
		}
	}
	return b
}

func coqItem(v interface{}) string {
	switch x := v.(type) {
	case []byte:
		return "S " + hx.CoqHex(x)
	case []interface{}:
		parts := make([]string, len(x))
		for i, e := range x {
			parts[i] = coqItem(e)
		}
		return "L [" + strings.Join(parts, "; ") + "]"
	}
	panic(fmt.Sprintf("unexpected %T", v))
}

func normTree(v interface{}) interface{} { // nil []byte vs empty
	switch x := v.(type) {
	case []byte:
		if x == nil {
			return []byte{}
		}
		return x
	case []interface{}:
		o := make([]interface{}, len(x))
		for i, e := range x {
			o[i] = normTree(e)
		}
		return o
	}
	return v
}

// ---- typed zoo for the direct property search ----
type tStruct struct {
	A uint64
	B []byte
	C *big.Int
}
type tTail struct {
	A    uint8
	Rest []uint16 `rlp:"tail"`
}
type tNil struct {
	A uint64
	P *[20]byte `rlp:"nil"`
	B uint64
}
type tNilList struct {
	A uint64
	P *[]uint64 `rlp:"nil"`
}
type tArr1 struct{ A, B [1]byte }
type tIgnore struct {
	A uint32
	X uint32 `rlp:"-"`
	S string
}
type tNested struct {
	L [][]byte
	T tStruct
	P *tStruct
	R rlp.RawValue
	I interface{}
	Z [2]uint16
	F bool
}
type txdataLike struct { // shape of eth_tx.txdata
	AccountNonce uint64
	Price        *big.Int
	GasLimit     uint64
	Recipient    *[20]byte `rlp:"nil"`
	Amount       *big.Int
	Payload      []byte
	V, R, S      *big.Int
}

type tPtrs struct { // nil and non-nil plain pointers of every pointee kind
	B  *big.Int
	S  *tStruct
	L  *[]uint64
	PP **[]uint64
}

type tDeep struct { // lists inside lists inside a struct
	A []uint64
	B [][]byte
	C []interface{}
	D []tTailInner
}
type tTailInner struct {
	X    []uint64
	Rest [][]byte `rlp:"tail"`
}

type tNested2 struct {
	L [][]byte
	T tStruct
	P *tStruct
	I interface{}
	Z [2]uint16
	F bool
}

const tyStruct = "TStruct [TUint 8; TBytes; TBig] None"

// Coq type descriptors (coq/C08/Typed.v) of the zoo types that the typed model covers.
var zooTy = map[string]string{
	"uint8": "TUint 1", "uint16": "TUint 2", "uint32": "TUint 4", "uint64": "TUint 8", "bigint": "TBig", "bool": "TBool",
	"bytes": "TBytes", "string": "TBytes", "arr0": "TByteArr 0", "arr1": "TByteArr 1", "arr2": "TByteArr 2", "arr20": "TByteArr 20", "arr32": "TByteArr 32",
	"slice-u64": "TSlice (TUint 8)", "slice-bytes": "TSlice TBytes", "struct": tyStruct,
	"tail":        "TStruct [TUint 1] (Some (TUint 2))",
	"nilptr":      "TStruct [TUint 8; TPtrNil (TByteArr 20); TUint 8] None",
	"nilptr-list": "TStruct [TUint 8; TPtrNil (TSlice (TUint 8))] None",
	"arr1x2":      "TStruct [TByteArr 1; TByteArr 1] None",
	"ignore":      "TStruct [TUint 4; TBytes] None",
	"nested2":     "TStruct [TSlice TBytes; " + tyStruct + "; TPtr (" + tyStruct + "); TIface; TArr 2 (TUint 2); TBool] None",
	"txdata":      "TStruct [TUint 8; TBig; TUint 8; TPtrNil (TByteArr 20); TBig; TBytes; TBig; TBig; TBig] None",
	"iface":       "TIface",
}

var bigIntType = reflect.TypeOf(big.Int{})

// coqValue prints a decoded Go value as a term of type Typed.value.
func coqValue(v reflect.Value) string {
	t := v.Type()
	if t == rawValueType {
		return "VRaw (unhex " + hx.CoqHex(v.Bytes()) + ")"
	}
	if t == bigIntType {
		bi := v.Addr().Interface().(*big.Int)
		return "VNum " + bi.String()
	}
	switch v.Kind() {
	case reflect.Uint8, reflect.Uint16, reflect.Uint32, reflect.Uint64, reflect.Uint:
		return fmt.Sprintf("VNum %d", v.Uint())
	case reflect.Bool:
		return "VBool " + hx.CoqBool(v.Bool())
	case reflect.String:
		return "VBytes (unhex " + hx.CoqHex([]byte(v.String())) + ")"
	case reflect.Ptr:
		if v.IsNil() {
			return "VNil"
		}
		return coqValue(v.Elem())
	case reflect.Interface:
		if v.IsNil() {
			return "VNil"
		}
		return "VItem (" + coqItem(normTree(v.Interface())) + ")"
	case reflect.Slice, reflect.Array:
		if t.Elem().Kind() == reflect.Uint8 {
			b := make([]byte, v.Len())
			for i := range b {
				b[i] = byte(v.Index(i).Uint())
			}
			return "VBytes (unhex " + hx.CoqHex(b) + ")"
		}
		parts := make([]string, v.Len())
		for i := range parts {
			parts[i] = coqValue(v.Index(i))
		}
		return "VList [" + strings.Join(parts, "; ") + "]"
	case reflect.Struct:
		var parts []string
		for i := 0; i < t.NumField(); i++ {
			f := t.Field(i)
			if f.PkgPath != "" || strings.Contains(f.Tag.Get("rlp"), "-") {
				continue
			}
			parts = append(parts, coqValue(v.Field(i)))
		}
		return "VList [" + strings.Join(parts, "; ") + "]"
	}
	panic("coqValue: unsupported " + t.String())
}

var zoo = []struct {
	name string
	mk   func() interface{}
}{
	{"uint8", func() interface{} { return new(uint8) }},
	{"uint16", func() interface{} { return new(uint16) }},
	{"uint32", func() interface{} { return new(uint32) }},
	{"uint64", func() interface{} { return new(uint64) }},
	{"bigint", func() interface{} { return new(big.Int) }},
	{"bool", func() interface{} { return new(bool) }},
	{"bytes", func() interface{} { return new([]byte) }},
	{"string", func() interface{} { return new(string) }},
	{"arr0", func() interface{} { return new([0]byte) }},
	{"arr1", func() interface{} { return new([1]byte) }},
	{"arr2", func() interface{} { return new([2]byte) }},
	{"arr20", func() interface{} { return new([20]byte) }},
	{"arr32", func() interface{} { return new([32]byte) }},
	{"slice-u64", func() interface{} { return new([]uint64) }},
	{"slice-bytes", func() interface{} { return new([][]byte) }},
	{"struct", func() interface{} { return new(tStruct) }},
	{"tail", func() interface{} { return new(tTail) }},
	{"nilptr", func() interface{} { return new(tNil) }},
	{"nilptr-list", func() interface{} { return new(tNilList) }},
	{"arr1x2", func() interface{} { return new(tArr1) }},
	{"ignore", func() interface{} { return new(tIgnore) }},
	{"nested", func() interface{} { return new(tNested) }},
	{"nested2", func() interface{} { return new(tNested2) }},
	{"txdata", func() interface{} { return new(txdataLike) }},
	{"raw", func() interface{} { return new(rlp.RawValue) }},
	{"iface", func() interface{} { return new(interface{}) }},
	{"slice-iface", func() interface{} { return new([]interface{}) }},
	{"slice3-u64", func() interface{} { return new([][][]uint64) }},
	{"deep", func() interface{} { return new(tDeep) }},
}

func safeDecode(b []byte, v interface{}) (err error, panicked interface{}) {
	defer func() {
		if p := recover(); p != nil {
			panicked = p
		}
	}()
	err = rlp.DecodeBytes(b, v)
	return
}

func main() {
	if k := os.Getenv("C08_CHILD"); k != "" {
		childMain(k)
		return
	}
	genOut := flag.String("gen", "", "write the generated descriptor table (coq/C08/Gen.v) to this file and exit")
	a := hx.ParseArgs()
	if *genOut != "" {
		r, err := c08ext.Scan(repoRoot())
		if err != nil {
			fmt.Fprintln(os.Stderr, "c08ext:", err)
			os.Exit(1)
		}
		if err := os.WriteFile(*genOut, []byte(c08ext.GenV(r)), 0644); err != nil {
			fmt.Fprintln(os.Stderr, err)
			os.Exit(1)
		}
		return
	}
	rng := hx.NewRng(a.Seed)
	res := hx.NewResult("inputs: (1) implementation encodings of random item trees (depth<=4, string lengths straddling 1/55/56/255/256/65535), " +
		"(2) every header byte of those mutated, (3) random bytes, (4) hostile declared sizes, (5) boundary corpus; thorough adds the exhaustive small space. " +
		"non-trivial = distinct input whose decode outcome is not 'rejected on the first byte' and not empty input")
	// model-case budget: every input reaches the untyped model; the typed decoders of the zoo (26 types per
	// input) are sampled: accepted inputs 1 in accEvery, rejected ones 1 in rejEvery
	scale := a.N / 1500
	if scale < 1 {
		scale = 1
	}
	accEvery, rejEvery, perShard, ccShard, codecBudget := 2*scale, 12*scale, 400, 1200, 26000
	if a.Tier == "thorough" {
		perShard, ccShard, codecBudget = 2500, 2500, 45000
	}
	sparseFrom := 1 << 30 // inputs from this index on reach the model 1 in 10 (thorough: the 12-letter alphabet space)
	cs := hx.NewCases(a.Out, "From V.C08 Require Import Model Harness.\nFrom V.Base Require Import Hex.", "string * dobs * sobs * cobs", "check", perShard)
	ts := hx.NewCasesNamed(a.Out, "typed", "From V.C08 Require Import Model Typed Harness.\nFrom V.Base Require Import Hex.", "ty * string * option value", "check_typed", 1500)
	// descriptors of every type the codec cases mention, printed from reflection
	gt := newGtyTable()
	for _, z := range zoo {
		gt.add(reflect.TypeOf(z.mk()).Elem())
	}
	for _, o := range pureOps {
		if o.isEnc() {
			gt.add(reflect.TypeOf(o.val()))
		} else {
			gt.add(reflect.TypeOf(o.mk()).Elem())
		}
	}
	for _, v := range rtVals(hx.NewRng(0)) {
		gt.add(reflect.TypeOf(v))
	}
	for _, t := range wrapTargets {
		gt.add(reflect.TypeOf(t.mk()).Elem())
	}
	cc := hx.NewCasesNamed(a.Out, "codec", "From V.C08 Require Import Model Typed Codec Desc Harness.\nFrom V.Base Require Import Hex.\n"+gt.prelude(), "ccase", "check_codec", ccShard)

	// purity: type-cache first-use orders and failure histories, in fresh child processes
	fresh := pureTier(a, rng.Fork(), res)
	for i, o := range pureOps {
		obs := fresh[i]
		if o.fail || obs == "" {
			continue
		}
		if o.isEnc() {
			v := reflect.ValueOf(o.val())
			vs, ok := coqValueSafe(v)
			if !ok {
				continue
			}
			out := "None"
			if strings.HasPrefix(obs, "E:") {
				out = "(Some " + hx.CoqStr(obs[2:]) + ")"
			}
			cc.Add(fmt.Sprintf("CEnc %s (%s) %s", gt.name(v.Type()), vs, out), map[string]string{"call": o.name, "fresh-process result": obs})
		} else {
			out := "None"
			if strings.HasPrefix(obs, "D:") {
				out = "(Some (" + obs[2:] + "))"
			}
			cc.Add(fmt.Sprintf("CDec %s %s %s", gt.name(reflect.TypeOf(o.mk()).Elem()), hx.CoqHex(o.in), out), map[string]string{"call": o.name, "fresh-process result": obs})
		}
	}
	for _, v := range []interface{}{3.5, int32(-1), map[string]string{}, make(chan int), struct{ A int }{}, struct {
		A uint8 `rlp:"tail"`
	}{}, struct {
		R []uint8 `rlp:"tail"`
		B uint8
	}{}, struct {
		A uint8 `rlp:"foo"`
	}{}} {
		_, err := rlp.EncodeToBytes(v)
		if err == nil {
			res.Violate("C08/encode-accepts-unsupported", "a type outside the supported set was encoded", fmt.Sprintf("%T", v))
			continue
		}
		cc.Add("CBadTy "+coqGty(reflect.TypeOf(v)), map[string]string{"type": fmt.Sprintf("%T", v), "error": err.Error()})
	}

	var inputs [][]byte
	add := func(b []byte) { inputs = append(inputs, b) }
	// boundary corpus (runs first)
	for _, h := range []string{"", "00", "7f", "80", "8100", "817f", "8180", "81ff", "b800", "b837", "b838", "b90000", "b90038", "b900ff", "c0", "c100", "c180", "c281ff", "c28100",
		"f800", "f838", "f90038", "f8380000", "bfffffffffffffffff", "ffffffffffffffffff", "b8ff", "c1", "c2c0", "c3c2c1c0", "c0c0", "0000", "8000", "c1b800", "c2b838", "c483646f67", "c883646f6783636174",
		"cd0101825208c080820102808080", "cd01018252088080820102808080", "c100", "c20000", "f8", "b8", "bf", "ff", "b7", "f7"} {
		b, _ := hex.DecodeString(h)
		add(b)
	}
	// nested lists overrunning their parent by a header's length, then hostile sizes
	ov := overrunInputs(rng.Fork(), a.Tier == "thorough")
	for _, b := range ov {
		add(b)
	}
	res.Histogram["inputs-list-overrun"] = len(ov)
	nTrees := a.N / 6
	if nTrees < 10 {
		nTrees = 10
	}
	for i := 0; i < nTrees; i++ {
		t := genTree(rng, 4)
		enc, err := rlp.EncodeToBytes(t)
		if err != nil {
			res.Violate("C08/encode-error", err.Error(), coqItem(t))
			continue
		}
		// P1 round trip of generated values
		var back interface{}
		if err := rlp.DecodeBytes(enc, &back); err != nil || !reflect.DeepEqual(normTree(back), normTree(t)) {
			res.Violate("C08/roundtrip-iface", fmt.Sprint("decode(encode(t)) != t: ", err), hex.EncodeToString(enc))
		}
		add(enc)
		for _, nc := range nonCanonical(enc) {
			add(nc)
		}
		if len(enc) < 300 {
			// mutate header-ish bytes: first 12 positions, every interesting value
			for p := 0; p < len(enc) && p < 6; p++ {
				m := append([]byte{}, enc...)
				m[p] = byte(rng.U64())
				add(m)
				m2 := append([]byte{}, enc...)
				m2[p] ^= 1 << uint(rng.Intn(8))
				add(m2)
			}
			add(enc[:rng.Intn(len(enc)+1)])
			add(append(append([]byte{}, enc...), rng.Bytes(1+rng.Intn(3))...))
		}
	}
	// encodings of structured typed values (and their single-byte mutations), so that the typed
	// decoders see mostly-valid input
	for i := 0; i < a.N/10; i++ {
		addr := new([20]byte)
		copy(addr[:], rng.Bytes(20))
		var nilAddr *[20]byte
		if rng.Bool() {
			nilAddr = addr
		}
		var pl *[]uint64
		if rng.Bool() {
			pl = &[]uint64{rng.U64() >> uint(rng.Intn(64)), 1}
		}
		small := func() uint64 { return rng.U64() >> uint(8*rng.Intn(9)) }
		ts1 := tStruct{small(), genBytes(rng), new(big.Int).SetBytes(rng.Bytes(rng.Intn(34)))}
		vals := []interface{}{
			ts1,
			tTail{uint8(small()), []uint16{uint16(small()), uint16(rng.Intn(3))}},
			tNil{small(), nilAddr, small()},
			tNilList{small(), pl},
			tArr1{[1]byte{byte(rng.Intn(3) * 0x40)}, [1]byte{byte(rng.U64())}},
			tIgnore{uint32(small()), 7, string(genBytes(rng))},
			tNested2{[][]byte{genBytes(rng), {}}, ts1, &ts1, genTree(rng, 2), [2]uint16{uint16(small()), 0}, rng.Bool()},
			txdataLike{small(), big.NewInt(int64(rng.Intn(1000))), 21000, nilAddr, new(big.Int).SetBytes(rng.Bytes(rng.Intn(12))), genBytes(rng), big.NewInt(int64(27 + rng.Intn(2))), new(big.Int).SetBytes(rng.Bytes(32)), new(big.Int).SetBytes(rng.Bytes(32))},
			[]uint64{small(), small(), 0}, [2]byte{byte(rng.U64()), 0}, rng.Bool(), uint16(small()),
		}
		for _, v := range vals {
			enc, err := rlp.EncodeToBytes(v)
			if err != nil || len(enc) > 96 {
				continue
			}
			add(enc)
			if rng.Intn(2) == 0 {
				m := append([]byte{}, enc...)
				m[rng.Intn(len(m))] = []byte{0x00, 0x80, 0xc0, 0x81, 0x01, 0xff}[rng.Intn(6)]
				add(m)
			}
		}
	}
	for len(inputs) < a.N {
		switch rng.Intn(3) {
		case 0:
			add(rng.Bytes(rng.Intn(12)))
		case 1: // hostile sizes
			tag := []byte{0xb8, 0xb9, 0xba, 0xbf, 0xf8, 0xf9, 0xfb, 0xff}[rng.Intn(8)]
			n := int(tag&7) + 1
			sz := rng.Bytes(n)
			if rng.Bool() {
				sz[0] = 0xff
			}
			add(append(append([]byte{tag}, sz...), rng.Bytes(rng.Intn(70))...))
		default: // opcode-like alphabet
			alpha := []byte{0x00, 0x01, 0x7f, 0x80, 0x81, 0xb7, 0xb8, 0xc0, 0xc1, 0xc2, 0xf7, 0xf8, 0xff, 0x38, 0x37}
			n := 1 + rng.Intn(7)
			b := make([]byte, n)
			for i := range b {
				b[i] = alpha[rng.Intn(len(alpha))]
			}
			add(b)
		}
	}
	if a.Tier == "thorough" {
		// exhaustive: all strings of length <= 2 over all bytes? 65k+256+1; and length<=5 over a 12-letter alphabet
		for x := 0; x < 256; x++ {
			add([]byte{byte(x)})
			for y := 0; y < 256; y += 1 {
				add([]byte{byte(x), byte(y)})
			}
		}
		alpha := []byte{0x00, 0x01, 0x7f, 0x80, 0x81, 0xb7, 0xb8, 0xc0, 0xc1, 0xc2, 0xf8, 0xff}
		sparseFrom = len(inputs)
		var rec func(pre []byte, d int)
		rec = func(pre []byte, d int) {
			if d == 0 {
				return
			}
			for _, c := range alpha {
				nb := append(append([]byte{}, pre...), c)
				if len(nb) >= 3 {
					add(nb)
				}
				rec(nb, d-1)
			}
		}
		rec(nil, 5)
		res.Exhaustive = true
		res.Note("exhaustive on the implementation (round trip, canonicity, totality, allocation): every byte string of length <= 2; every string of length 3..5 over {00,01,7f,80,81,b7,b8,c0,c1,c2,f8,ff}; the model is evaluated on all of the former and on every 10th of the latter")
	}

	var ms runtime.MemStats
	for idx, b := range inputs {
		// implementation observations
		var v interface{}
		err, pan := safeDecode(b, &v)
		dob := ""
		class := ""
		if pan != nil {
			res.Violate("C08/panic:iface", fmt.Sprint(pan), hex.EncodeToString(b))
			dob = "DErr 98"
			class = "panic"
		} else if err != nil {
			dob = fmt.Sprintf("DErr %d", errCode(err))
			class = fmt.Sprintf("dec-err-%d", errCode(err))
		} else {
			dob = "DOk (" + coqItem(normTree(v)) + ")"
			class = "dec-ok"
			// P2 canonicity on the implementation
			re, e2 := rlp.EncodeToBytes(v)
			if e2 != nil || !bytes.Equal(re, b) {
				res.Violate("C08/canonical-iface", "accepted bytes re-encode differently", map[string]string{"in": hex.EncodeToString(b), "re": hex.EncodeToString(re)})
			}
		}
		k, content, rest, serr, span := safeSplit(b)
		sob := ""
		if span != nil {
			res.Violate("C08/panic:Split", fmt.Sprint(span), hex.EncodeToString(b))
			sob = "SErr 98"
		} else if serr != nil {
			sob = fmt.Sprintf("SErr %d", errCode(serr))
		} else {
			sob = fmt.Sprintf("SOk %d %s %s", int(k), hx.CoqHex(content), hx.CoqHex(rest))
			// direct property: what Split accepts is the canonical encoding of (kind, content)
			var re []byte
			if k == rlp.List {
				re = append(listHeader(len(content)), content...)
			} else {
				re, _ = rlp.EncodeToBytes(content)
			}
			if !bytes.Equal(append(re, rest...), b) {
				res.Violate("C08/canonical-split", "Split accepted a non-canonical header", map[string]string{"in": hex.EncodeToString(b), "canonical": hex.EncodeToString(re)})
			}
		}
		cnt, cerr, cpan := safeCount(b)
		cob := ""
		if cpan != nil {
			res.Violate("C08/panic:CountValues", fmt.Sprint(cpan), hex.EncodeToString(b))
			cob = "CErr 98"
		} else if cerr != nil {
			cob = fmt.Sprintf("CErr %d", errCode(cerr))
		} else {
			cob = fmt.Sprintf("COk %d", cnt)
		}
		// the model sees: quick = every input up to 3 kB; thorough = the first 1500 likewise, then every second
		// input of up to 120 bytes, all strings of length <= 2 and every 10th of the alphabet space (shards
		// must stay below ~0.5 MB: parsing cost and memory of coqc grow with the literal text)
		toModel := len(b) <= 3000
		if a.Tier == "thorough" && idx >= 1500 {
			toModel = len(b) <= 120 && ((idx < sparseFrom && (len(b) <= 2 || idx%2 == 0)) || idx%10 == 0)
		}
		if toModel {
			cs.Add(fmt.Sprintf("(%s, %s, %s, %s)", hx.CoqHex(b), dob, sob, cob), map[string]string{"input": hex.EncodeToString(b), "dec": dob, "split": sob, "count": cob})
		}
		nontrivial := len(b) > 0 && !(err != nil && len(b) >= 1 && errCode(err) != 6 && len(b) == 1)
		res.Count(class, string(b), nontrivial)
		if idx%97 == 0 {
			res.Sample(map[string]string{"input": hex.EncodeToString(trunc(b)), "decode": trunc2(dob), "split": trunc2(sob), "count": cob})
		}
		// typed zoo: totality + canonicity + allocation
		if len(b) <= 400 {
			for _, z := range zoo {
				tv := z.mk()
				measure := idx < sparseFrom || idx%8 == 0 // reading MemStats stops the world: sample the big exhaustive space
				var before uint64
				if measure {
					runtime.ReadMemStats(&ms)
					before = ms.TotalAlloc
				}
				err, pan := safeDecode(b, tv)
				if measure {
					runtime.ReadMemStats(&ms)
				}
				if d := ms.TotalAlloc - before; measure && d > uint64(1<<20+200*len(b)) {
					res.Violate("C08/alloc:"+z.name, fmt.Sprintf("decode allocated %d bytes for %d input bytes", d, len(b)), hex.EncodeToString(b))
				}
				res.Histogram["typed-evals"]++
				if pan != nil {
					res.Violate("C08/panic:"+z.name, fmt.Sprint(pan), hex.EncodeToString(b))
					continue
				}
				if h := idx + 7*len(z.name); len(b) <= 96 && cc.Total() < codecBudget && ((err == nil && h%accEvery == 0) || (err != nil && h%rejEvery == 0)) {
					obs := "None"
					if err == nil {
						obs = "Some (" + coqValue(reflect.ValueOf(tv).Elem()) + ")"
					}
					cc.Add(fmt.Sprintf("CDec %s %s (%s)", gt.name(reflect.TypeOf(tv).Elem()), hx.CoqHex(b), obs), map[string]string{"type": z.name, "input": hex.EncodeToString(b), "impl": obs})
					// the older item-tree model of the typed layer (Typed.v) on a sample
					if tyd, ok := zooTy[z.name]; ok && h%(6*accEvery) == 0 && ts.Total() < codecBudget/8 {
						ts.Add(fmt.Sprintf("(%s, %s, %s)", tyd, hx.CoqHex(b), obs), map[string]string{"type": z.name, "input": hex.EncodeToString(b), "impl": obs})
					}
				}
				if err != nil {
					continue
				}
				res.Histogram["typed-accept:"+z.name]++
				re, e2 := rlp.EncodeToBytes(tv)
				if e2 != nil || !bytes.Equal(re, b) {
					res.Violate("C08/canonical-typed:"+z.name, "accepted bytes re-encode differently", map[string]string{"type": z.name, "in": hex.EncodeToString(b), "re": hex.EncodeToString(re)})
				}
			}
		}
	}
	// typed value round trips
	for i := 0; i < a.N/4; i++ {
		for vi, v := range rtVals(rng) {
			enc, err := rlp.EncodeToBytes(v)
			if err != nil {
				res.Violate("C08/encode-error", err.Error(), fmt.Sprintf("%T", v))
				continue
			}
			if len(enc) <= 300 && (i+vi)%(3*scale) == 0 {
				if vs, ok := coqValueSafe(reflect.ValueOf(v)); ok {
					cc.Add(fmt.Sprintf("CEnc %s (%s) (Some %s)", gt.name(reflect.TypeOf(v)), vs, hx.CoqHex(enc)), map[string]string{"type": fmt.Sprintf("%T", v), "value": vs, "impl": hex.EncodeToString(enc)})
					res.Histogram["model-cases-encode"]++
				}
			}
			if _, nilPtrs := v.(tPtrs); nilPtrs {
				continue // nil plain pointers are written as the zero value: encoder correspondence only
			}
			pv := reflect.New(reflect.TypeOf(v))
			err, pan := safeDecode(enc, pv.Interface())
			res.Histogram["typed-roundtrips"]++
			if pan != nil || err != nil {
				res.Violate("C08/roundtrip-typed:"+fmt.Sprintf("%T", v), fmt.Sprint("decode(encode(v)) failed: ", err, pan), hex.EncodeToString(enc))
				continue
			}
			re, _ := rlp.EncodeToBytes(pv.Elem().Interface())
			if !bytes.Equal(re, enc) || !eqVal(pv.Elem().Interface(), v) {
				res.Violate("C08/roundtrip-typed:"+fmt.Sprintf("%T", v), "decode(encode(v)) != v", hex.EncodeToString(enc))
			}
		}
	}
	wrapTier(a, rng.Fork(), res, cc, gt)
	t0 := time.Now()
	sizeTier(a, res)
	res.Note(fmt.Sprintf("size-boundary family (implementation only, payloads up to 16 MiB): %d ms", time.Since(t0).Milliseconds()))
	genTier(a, rng.Fork(), res, cc, inputs)
	sc := streamTier(a, rng.Fork(), res, inputs)
	cs.Close()
	ts.Close()
	cc.Close()
	sc.Close()
	res.Histogram["model-cases-stream"] = sc.Total()
	res.ModelCases = cs.Total() + ts.Total() + cc.Total() + sc.Total()
	res.Histogram["model-cases-typed"] = ts.Total()
	res.Histogram["model-cases-codec"] = cc.Total()
	res.Note("codec cases use descriptors printed from reflection for: " + gt.summary())
	res.Write(a.Out)
}

// rtVals: one batch of typed values for the encode-then-decode search and the encoder correspondence.
func rtVals(rng *hx.Rng) []interface{} {
	small := func() uint64 { return rng.U64() >> uint(rng.Intn(64)) }
	ts1 := tStruct{small(), genBytes(rng), new(big.Int).SetBytes(rng.Bytes(rng.Intn(33)))}
	var pl *[]uint64
	if rng.Bool() {
		pl = &[]uint64{small(), 1}
	}
	var pa *[20]byte
	if rng.Bool() {
		pa = new([20]byte)
		copy(pa[:], rng.Bytes(20))
	}
	var pts *tStruct
	if rng.Bool() {
		pts = &ts1
	}
	var nb *big.Int
	if rng.Intn(4) > 0 {
		nb = big.NewInt(int64(rng.Intn(300)))
	}
	rawTree, _ := rlp.EncodeToBytes(genTree(rng, 2))
	return []interface{}{
		uint8(rng.U64()), uint16(rng.U64()), uint32(rng.U64()), small(),
		new(big.Int).SetBytes(rng.Bytes(rng.Intn(40))), rng.Bool(), genBytes(rng), string(genBytes(rng)),
		[1]byte{byte(rng.U64())}, [2]byte{byte(rng.U64()), byte(rng.U64())},
		ts1,
		tTail{uint8(rng.U64()), []uint16{uint16(rng.U64()), 0, 1}},
		tArr1{[1]byte{byte(rng.Intn(3) * 0x7f)}, [1]byte{byte(rng.U64())}},
		tNil{small(), nil, uint64(rng.Intn(3))},
		tNil{1, &[20]byte{1, 2, 3}, 0},
		txdataLike{rng.U64() >> 40, big.NewInt(int64(rng.Intn(1000))), 21000, pa, big.NewInt(0), genBytes(rng), big.NewInt(27), big.NewInt(1), big.NewInt(2)},
		tNilList{small(), pl},
		tIgnore{uint32(small()), 7, string(genBytes(rng))},
		tNested{[][]byte{genBytes(rng), {}}, ts1, &ts1, rlp.RawValue(rawTree), genTree(rng, 2), [2]uint16{uint16(small()), 0}, rng.Bool()},
		tNested2{[][]byte{genBytes(rng)}, ts1, &ts1, genTree(rng, 2), [2]uint16{uint16(small()), 1}, rng.Bool()},
		rlp.RawValue(rawTree),
		[]uint64{small(), small(), 0}, [][]byte{genBytes(rng), {}, {0x7f}}, [3]uint16{uint16(small()), 0, 1},
		tPtrs{nb, pts, pl, &pl},
	}
}

// nonCanonical rewrites the outermost header of a valid encoding into the non-canonical forms a
// sloppy decoder would accept: long form for a short size, size with leading zero byte(s),
// 0x81-prefixed small byte.
func nonCanonical(enc []byte) [][]byte {
	var out [][]byte
	if len(enc) == 0 {
		return out
	}
	b := enc[0]
	be := func(n, width int) []byte {
		o := make([]byte, width)
		for i := width - 1; i >= 0; i-- {
			o[i] = byte(n)
			n >>= 8
		}
		return o
	}
	switch {
	case b < 0x80:
		out = append(out, append([]byte{0x81}, enc...))
		out = append(out, append([]byte{0xb8, 0x01}, enc...))
	case b < 0xb8:
		n := int(b - 0x80)
		out = append(out, append(append([]byte{0xb8}, be(n, 1)...), enc[1:]...))
		out = append(out, append(append([]byte{0xb9}, be(n, 2)...), enc[1:]...))
	case b < 0xc0:
		w := int(b - 0xb7)
		if 1+w <= len(enc) && w < 8 {
			n := 0
			for _, x := range enc[1 : 1+w] {
				n = n<<8 | int(x)
			}
			out = append(out, append(append([]byte{b + 1}, be(n, w+1)...), enc[1+w:]...))
		}
	case b < 0xf8:
		n := int(b - 0xc0)
		out = append(out, append(append([]byte{0xf8}, be(n, 1)...), enc[1:]...))
		out = append(out, append(append([]byte{0xf9}, be(n, 2)...), enc[1:]...))
	default:
		w := int(b - 0xf7)
		if 1+w <= len(enc) && w < 8 {
			n := 0
			for _, x := range enc[1 : 1+w] {
				n = n<<8 | int(x)
			}
			out = append(out, append(append([]byte{b + 1}, be(n, w+1)...), enc[1+w:]...))
		}
	}
	return out
}

func listHeader(n int) []byte {
	if n < 56 {
		return []byte{0xc0 + byte(n)}
	}
	var sz []byte
	for x := n; x > 0; x >>= 8 {
		sz = append([]byte{byte(x)}, sz...)
	}
	return append([]byte{0xf7 + byte(len(sz))}, sz...)
}

func eqVal(a, b interface{}) bool {
	ea, _ := rlp.EncodeToBytes(a)
	eb, _ := rlp.EncodeToBytes(b)
	if !bytes.Equal(ea, eb) {
		return false
	}
	switch x := a.(type) {
	case *big.Int:
		return x.Cmp(b.(*big.Int)) == 0
	case []byte:
		return bytes.Equal(x, b.([]byte))
	}
	if reflect.TypeOf(a).Kind() == reflect.Struct {
		return true // compared through their canonical encoding (contain *big.Int / nil-vs-empty slices / ignored fields)
	}
	return reflect.DeepEqual(a, b)
}

func trunc(b []byte) []byte {
	if len(b) > 48 {
		return b[:48]
	}
	return b
}
func trunc2(s string) string {
	if len(s) > 160 {
		return s[:160] + "…"
	}
	return s
}

// safeSplit runs rlp.Split under recover: a panic is a totality violation, not a harness crash.
func safeSplit(b []byte) (k rlp.Kind, content, rest []byte, err error, pan interface{}) {
	defer func() {
		if r := recover(); r != nil {
			pan = r
		}
	}()
	k, content, rest, err = rlp.Split(b)
	return
}

// safeCount runs rlp.CountValues under recover and a wall-clock cap (a non-terminating count is
// reported as a panic-class violation; the stuck goroutine is abandoned).
func safeCount(b []byte) (n int, err error, pan interface{}) {
	type out struct {
		n   int
		err error
		pan interface{}
	}
	ch := make(chan out, 1)
	go func() {
		var o out
		defer func() {
			if r := recover(); r != nil {
				o.pan = r
			}
			ch <- o
		}()
		o.n, o.err = rlp.CountValues(b)
	}()
	select {
	case o := <-ch:
		return o.n, o.err, o.pan
	case <-time.After(10 * time.Second):
		return 0, nil, "CountValues did not terminate within 10s"
	}
}
