// C08 harness: the generated descriptor table (harness/c08ext -> coq/C08/Gen.v).
package main

import (
	"bytes"
	"encoding/hex"
	"fmt"
	"math/big"
	"os"
	"reflect"
	"runtime"
	"strings"

	"com.tuntun.rangers/node/src/common"
	"com.tuntun.rangers/node/src/eth_crypto"
	"com.tuntun.rangers/node/src/eth_tx"
	"com.tuntun.rangers/node/src/storage/account"
	"com.tuntun.rangers/node/src/storage/rlp"
	"verif/harness/c08ext"
	"verif/harness/hx"
)

// repoRoot: the source tree this binary's rlp package was compiled from.
func repoRoot() string {
	if r := os.Getenv("VERIF_REPO"); r != "" {
		return r
	}
	f, _ := runtime.FuncForPC(reflect.ValueOf(rlp.CountValues).Pointer()).FileLine(0)
	if i := strings.Index(f, "/src/storage/rlp/"); i > 0 {
		return f[:i]
	}
	return "/repo"
}

// txValue: the decoded transaction as a value of the generated eth_tx.txdata descriptor (fields in
// declaration order, the "-" field left out), read through the type's accessors.
func txValue(tx *eth_tx.Transaction) string {
	v, r, s := tx.RawSignatureValues()
	to := "VNil"
	if a := tx.To(); a != nil {
		to = "VBytes (unhex " + hx.CoqHex(a[:]) + ")"
	}
	bn := func(b *big.Int) string {
		if b == nil {
			return "VNil"
		}
		return "VNum " + b.String()
	}
	return fmt.Sprintf("VList [VNum %d; %s; VNum %d; %s; %s; VBytes (unhex %s); %s; %s; %s]", tx.Nonce(), bn(tx.GasPrice()), tx.Gas(), to, bn(tx.Value()),
		hx.CoqHex(tx.Data()), bn(v), bn(r), bn(s))
}

// genTier: (1) re-extract the descriptor table from the sources under test and hand it to the model
// (compared with the committed coq/C08/Gen.v); (2) run the real types behind the generated descriptors
// (account.Account, eth_tx.Transaction -> txdata, the signing tuples, the CreateAddress tuple) against
// the codec model instantiated with the GENERATED descriptors.
func genTier(a hx.Args, rng *hx.Rng, res *hx.Result, cc *hx.Cases, corpus [][]byte) {
	root := repoRoot()
	ext, err := c08ext.Scan(root)
	if err != nil {
		res.Violate("C08/gen:extract", "descriptor extractor fails on "+root+": "+err.Error(), root)
		return
	}
	hint := "differs from coq/C08/Gen.v: regenerate (cd /verif/harness && go run ./cmd/c08 -gen /verif/coq/C08/Gen.v) and re-check the proofs"
	cc.Add("CGenSites "+c08ext.CoqSites(ext), map[string]interface{}{"kind": "rlp call sites re-extracted from " + root, "hint": hint})
	cc.Add("CGenTypes "+c08ext.CoqTypes(ext), map[string]interface{}{"kind": "type descriptors re-extracted from " + root, "hint": hint})
	res.Note(fmt.Sprintf("generated descriptors: %d rlp call sites, %d types (source %s)", len(ext.Sites), len(ext.Types), root))
	have := map[string]bool{}
	for _, t := range ext.Types {
		have[t.Name] = true
	}
	need := func(n string) bool {
		if !have[n] {
			res.Violate("C08/gen:missing", "the extractor no longer finds "+n+" (renamed or no longer serialised?): its correspondence cases cannot run", n)
		}
		return have[n]
	}
	// every Decoder implementation of the node must be one of the decode targets below
	exercised := map[string]bool{"eth_tx.Transaction": true}
	for _, d := range ext.Decoders {
		if !exercised[d] {
			res.Violate("C08/gen:decoder-not-exercised", "the node has a DecodeRLP implementation the harness does not decode into: "+d, d)
		}
	}
	res.Note("DecodeRLP implementations in the node: " + strings.Join(ext.Decoders, ", "))
	// reflection vs go/types on the one exported generated struct
	if need("account.Account") {
		cc.Add("CGenReflect \"account.Account\" "+coqGty(reflect.TypeOf(account.Account{})), map[string]string{"kind": "reflect descriptor of account.Account vs generated"})
	}
	count := func(class string, id []byte) { res.Count("gen:"+class, "gen/"+class+string(id), true) }

	// ---- account.Account ----
	var accIn [][]byte
	for i := 0; i < 150; i++ {
		acc := account.Account{Nonce: rng.U64() >> uint(rng.Intn(64)), NFTSetDefinitionHash: genBytes(rng)}
		copy(acc.Root[:], rng.Bytes(32))
		if rng.Intn(4) == 0 {
			acc.Root = [32]byte{}
		}
		if len(acc.NFTSetDefinitionHash) > 100 {
			acc.NFTSetDefinitionHash = acc.NFTSetDefinitionHash[:3]
		}
		enc, err := rlp.EncodeToBytes(acc)
		if err != nil {
			res.Violate("C08/encode-error", err.Error(), "account.Account")
			continue
		}
		if vs, ok := coqValueSafe(reflect.ValueOf(acc)); ok && have["account.Account"] {
			cc.Add(fmt.Sprintf("CEncG \"account.Account\" (%s) (Some %s)", vs, hx.CoqHex(enc)), map[string]string{"type": "account.Account", "value": vs, "impl": hex.EncodeToString(enc)})
		}
		accIn = append(accIn, enc)
		m := append([]byte{}, enc...)
		m[rng.Intn(len(m))] = []byte{0x00, 0x80, 0xc0, 0x81, 0x01, 0xff, 0xa0, 0x9f}[rng.Intn(8)]
		accIn = append(accIn, m, enc[:rng.Intn(len(enc))])
	}
	stride := len(corpus) / 1200
	if stride < 9 {
		stride = 9
	}
	for i, b := range corpus {
		if i%stride == 0 && len(b) <= 96 {
			accIn = append(accIn, b)
		}
	}
	for _, b := range accIn {
		var acc account.Account
		err, pan := safeDecode(b, &acc)
		if pan != nil {
			res.Violate("C08/panic:account.Account", fmt.Sprint(pan), hex.EncodeToString(b))
			continue
		}
		obs := "None"
		if err == nil {
			obs = "(Some (" + coqValue(reflect.ValueOf(acc)) + "))"
			if re, e2 := rlp.EncodeToBytes(acc); e2 != nil || !bytes.Equal(re, b) {
				res.Violate("C08/canonical-typed:account.Account", "accepted bytes re-encode differently", map[string]string{"in": hex.EncodeToString(b), "re": hex.EncodeToString(re)})
			}
			count("account-accepted", b)
		} else {
			count("account-rejected", b)
		}
		if have["account.Account"] {
			cc.Add(fmt.Sprintf("CDecG \"account.Account\" %s %s", hx.CoqHex(b), obs), map[string]string{"type": "account.Account", "input": hex.EncodeToString(b), "impl": obs})
		}
	}

	// ---- eth_tx.Transaction (custom codec delegating to txdata) ----
	var txIn [][]byte
	chain := big.NewInt(int64(1 + rng.Intn(9000)))
	for i := 0; i < 150; i++ {
		var to common.Address
		copy(to[:], rng.Bytes(20))
		amount := new(big.Int).SetBytes(rng.Bytes(rng.Intn(14)))
		price := new(big.Int).SetBytes(rng.Bytes(rng.Intn(6)))
		data := genBytes(rng)
		if len(data) > 80 {
			data = data[:2]
		}
		var tx *eth_tx.Transaction
		if rng.Intn(4) == 0 {
			tx = eth_tx.NewContractCreation(rng.U64()>>uint(rng.Intn(64)), amount, rng.U64()>>40, price, data)
		} else {
			tx = eth_tx.NewTransaction(rng.U64()>>uint(rng.Intn(64)), to, amount, rng.U64()>>40, price, data)
		}
		enc, err := rlp.EncodeToBytes(tx)
		if err != nil {
			res.Violate("C08/encode-error", err.Error(), "eth_tx.Transaction")
			continue
		}
		if have["eth_tx.txdata"] {
			cc.Add(fmt.Sprintf("CEncG \"eth_tx.txdata\" (%s) (Some %s)", txValue(tx), hx.CoqHex(enc)), map[string]string{"type": "eth_tx.Transaction", "impl": hex.EncodeToString(enc)})
		}
		txIn = append(txIn, enc)
		if i%3 == 0 {
			txIn = append(txIn, badHeaderVariants(enc)...)
		}
		m := append([]byte{}, enc...)
		m[rng.Intn(len(m))] = []byte{0x00, 0x80, 0xc0, 0x81, 0x01, 0xff, 0x94, 0x93}[rng.Intn(8)]
		txIn = append(txIn, m, enc[:rng.Intn(len(enc))])

		// the signing tuples: what the signers hash is the encoding of the tuple the model describes
		nonce, gas := tx.Nonce(), tx.Gas()
		tupF := []interface{}{nonce, tx.GasPrice(), gas, tx.To(), tx.Value(), tx.Data()}
		tupE := append(append([]interface{}{}, tupF...), chain, uint(0), uint(0))
		toV := "VNil"
		if p := tx.To(); p != nil {
			toV = "VBytes (unhex " + hx.CoqHex(p[:]) + ")"
		}
		front := fmt.Sprintf("VNum %d; VNum %s; VNum %d; %s; VNum %s; VBytes (unhex %s)", nonce, tx.GasPrice(), gas, toV, tx.Value(), hx.CoqHex(tx.Data()))
		for _, tc := range []struct {
			name string
			tup  []interface{}
			val  string
			hash common.Hash
		}{
			{"eth_tx.tuple@(FrontierSigner).Hash#1", tupF, "VList [" + front + "]", eth_tx.FrontierSigner{}.Hash(tx)},
			{"eth_tx.tuple@(EIP155Signer).Hash#1", tupE, fmt.Sprintf("VList [%s; VNum %s; VNum 0; VNum 0]", front, chain), eth_tx.NewEIP155Signer(chain).Hash(tx)},
		} {
			te, err := rlp.EncodeToBytes(tc.tup)
			if err != nil {
				res.Violate("C08/encode-error", err.Error(), tc.name)
				continue
			}
			if h := eth_crypto.Keccak256(te); !bytes.Equal(h, tc.hash[:]) {
				res.Violate("C08/gen:signing-tuple", "the signer's hash is not the hash of the tuple the extractor describes", map[string]string{"tuple": tc.name, "tx": hex.EncodeToString(enc)})
			}
			count("signing-tuple", te)
			if need(tc.name) && i%2 == 0 {
				cc.Add(fmt.Sprintf("CEncG %s (%s) (Some %s)", hx.CoqStr(tc.name), tc.val, hx.CoqHex(te)), map[string]string{"type": tc.name, "impl": hex.EncodeToString(te)})
			}
		}
		// CreateAddress
		ca, _ := rlp.EncodeToBytes([]interface{}{to, nonce})
		if want := eth_crypto.CreateAddress(to, nonce); !bytes.Equal(eth_crypto.Keccak256(ca)[12:], want[:]) {
			res.Violate("C08/gen:create-address-tuple", "CreateAddress does not hash the tuple the extractor describes", hex.EncodeToString(ca))
		}
		if need("eth_crypto.tuple@CreateAddress#1") && i%2 == 0 {
			cc.Add(fmt.Sprintf("CEncG \"eth_crypto.tuple@CreateAddress#1\" (VList [VBytes (unhex %s); VNum %d]) (Some %s)", hx.CoqHex(to[:]), nonce, hx.CoqHex(ca)), map[string]string{"type": "CreateAddress tuple", "impl": hex.EncodeToString(ca)})
		}
	}
	for i, b := range corpus {
		if i%stride == 1 && len(b) <= 96 {
			txIn = append(txIn, b)
		}
	}
	for _, b := range txIn {
		tx := new(eth_tx.Transaction)
		err, pan := safeDecode(b, tx)
		if pan != nil {
			res.Violate("C08/panic:eth_tx.Transaction", fmt.Sprint(pan), hex.EncodeToString(b))
			continue
		}
		obs := "None"
		if err == nil {
			obs = "(Some (" + txValue(tx) + "))"
			if re, e2 := rlp.EncodeToBytes(tx); e2 != nil || !bytes.Equal(re, b) {
				res.Violate("C08/canonical-typed:eth_tx.Transaction", "accepted bytes re-encode differently", map[string]string{"in": hex.EncodeToString(b), "re": hex.EncodeToString(re)})
			}
			count("tx-accepted", b)
		} else {
			count("tx-rejected", b)
		}
		if have["eth_tx.txdata"] {
			cc.Add(fmt.Sprintf("CDecG \"eth_tx.txdata\" %s %s", hx.CoqHex(b), obs), map[string]string{"type": "eth_tx.Transaction", "input": hex.EncodeToString(b), "impl": obs})
		}
	}
}
