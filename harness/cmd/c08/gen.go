// C08 harness: the generated descriptor table (harness/c08ext -> coq/C08/Gen.v).
package main

import (
	"os"
	"reflect"
	"runtime"
	"strings"

	"com.tuntun.rangers/node/src/storage/rlp"
)

// repoRoot: the source tree this binary's rlp package was compiled from.
func repoRoot() string {
	if r := os.Getenv("VERIF_REPO"); r != "" {
		return r
	}
	f, _ := runtime.FuncForPC(reflect.ValueOf(rlp.CountValues).Pointer()).FileLine(0)
	if i := strings.Index(f, "/src/storage/rlp/"); i > 0 {
		return f[:i]
	}
	return "/repo"
}
