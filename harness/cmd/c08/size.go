// C08 harness: SIZE-BOUNDARY family, evaluated on the implementation only (the inputs are far too large
// for model cases): payload sizes at every power-of-256 boundary of the length-of-length field that Go
// can allocate cheaply, and a few inside each band, for strings, lists of strings, a list nested in a
// list, and RawValue re-encoding. Checked: the three encoder entry points agree, the bytes equal those of
// an independent header writer (minimal header), decode(encode v) = v, encode(decode b) = b, Split /
// CountValues / ListSize agree with the header, Stream.Raw returns the value unchanged.
package main

import (
	"bytes"
	"fmt"
	"io"

	"com.tuntun.rangers/node/src/storage/rlp"
	"verif/harness/hx"
)

func refHeader(base byte, n int) []byte {
	if n < 56 {
		return []byte{base + byte(n)}
	}
	var sz []byte
	for x := n; x > 0; x >>= 8 {
		sz = append([]byte{byte(x)}, sz...)
	}
	return append([]byte{base + 55 + byte(len(sz))}, sz...)
}

// listOfPayload: byte strings whose encodings concatenate to exactly n bytes.
func listOfPayload(n int, fill byte) (elems [][]byte, payload []byte) {
	if n < 64 {
		for i := 0; i < n; i++ {
			elems = append(elems, []byte{0x01})
		}
	} else {
		// three small strings and one big one: 1 + 1 + 3 bytes of encoding, the rest is the big string
		elems = [][]byte{{0x01}, {}, {0xaa, 0xbb}}
		rest := n - 5
		for h := 1; h <= 5; h++ {
			m := rest - h
			if m >= 2 && len(refHeader(0x80, m)) == h {
				big := bytes.Repeat([]byte{fill}, m)
				big[0], big[m-1] = 0x80, 0x7f
				elems = append(elems, big)
				break
			}
		}
	}
	for _, e := range elems {
		payload = append(payload, rS(e)...)
	}
	if len(payload) != n {
		panic(fmt.Sprintf("listOfPayload(%d) built %d bytes", n, len(payload)))
	}
	return
}

func sizeTier(a hx.Args, res *hx.Result) {
	sizes := []int{55, 56, 255, 256, 65535, 65536, 1<<20 + 100, 3 << 20, 1<<24 - 1, 1 << 24, 1<<24 + 1}
	if a.Tier == "thorough" {
		sizes = append(sizes, 54, 57, 254, 257, 65534, 65537, 1<<20-1, 1<<20, 1<<20+1, 0xFFFFF, 0x100000, 5<<20, 15<<20, 1<<24+100, 20<<20)
	}
	type encRaw struct {
		R rlp.RawValue
		X uint8
	}
	for _, n := range sizes {
		for _, kind := range []string{"string", "list", "nested", "raw"} {
			key := fmt.Sprintf("C08/size-boundary:%s:%d", kind, n)
			bad := func(what string, args ...interface{}) {
				res.Violate(key, fmt.Sprintf(what, args...), map[string]interface{}{"kind": kind, "payload_size": n})
			}
			func() {
				defer func() {
					if p := recover(); p != nil {
						bad("panic: %v", p)
					}
				}()
				var val interface{}
				var want []byte
				var nElems int
				elems, payload := listOfPayload(n, byte(n>>8)|1)
				switch kind {
				case "string":
					s := bytes.Repeat([]byte{0x5a}, n)
					val, want = s, append(refHeader(0x80, n), s...)
				case "list":
					val, want, nElems = elems, append(refHeader(0xc0, n), payload...), len(elems)
				case "nested":
					inner := append(refHeader(0xc0, n), payload...)
					body := append([]byte{0x01}, inner...)
					val, want, nElems = []interface{}{[]byte{1}, elems}, append(refHeader(0xc0, len(body)), body...), 2
				case "raw":
					inner := append(refHeader(0xc0, n), payload...)
					body := append(append([]byte{}, inner...), 0x07)
					val, want, nElems = encRaw{rlp.RawValue(inner), 7}, append(refHeader(0xc0, len(body)), body...), 2
				}
				// the three entry points
				e1, err := rlp.EncodeToBytes(val)
				if err != nil {
					bad("EncodeToBytes: %v", err)
					return
				}
				var w bytes.Buffer
				if err := rlp.Encode(&w, val); err != nil {
					bad("Encode: %v", err)
				}
				sz, rd, err := rlp.EncodeToReader(val)
				var e3 []byte
				if err == nil {
					e3, err = io.ReadAll(rd)
				}
				if err != nil {
					bad("EncodeToReader: %v", err)
				}
				if !bytes.Equal(e1, want) {
					bad("EncodeToBytes differs from the reference encoding: %d bytes (head %x, tail %x) instead of %d bytes (head %x, tail %x)", len(e1), headOf(e1), tailOf(e1), len(want), headOf(want), tailOf(want))
				}
				if !bytes.Equal(w.Bytes(), e1) {
					bad("Encode(w) wrote %d bytes, EncodeToBytes returned %d", w.Len(), len(e1))
				}
				if !bytes.Equal(e3, e1) || sz != len(e3) {
					bad("EncodeToReader: size %d, %d bytes read, EncodeToBytes returned %d", sz, len(e3), len(e1))
				}
				// raw.go on the reference bytes: header as declared
				k, content, rest, err := rlp.Split(want)
				wantContent := len(want) - len(refHeader(0xc0, len(want)))
				_ = wantContent
				if err != nil || len(rest) != 0 || (kind == "string") != (k == rlp.String) {
					bad("Split(reference): kind %v, %d content bytes, %d rest, err %v", k, len(content), len(rest), err)
				} else if kind != "string" {
					if c, err := rlp.CountValues(content); err != nil || c != nElems {
						bad("CountValues(content) = %d, %v; the list has %d elements", c, err, nElems)
					}
					if ls := rlp.ListSize(uint64(len(content))); ls != uint64(len(want)) {
						bad("ListSize(%d) = %d, the encoding has %d bytes", len(content), ls, len(want))
					}
				}
				// decode(encode v) = v and encode(decode b) = b, on the reference bytes
				var back interface{}
				switch kind {
				case "string":
					back = new([]byte)
				case "list":
					back = new([][]byte)
				case "nested":
					back = new([]interface{})
				case "raw":
					back = new(encRaw)
				}
				if err := rlp.DecodeBytes(want, back); err != nil {
					bad("DecodeBytes(reference encoding): %v", err)
				} else if re, err := rlp.EncodeToBytes(back); err != nil || !bytes.Equal(re, want) {
					bad("encode(decode(b)) != b: %d bytes instead of %d (%v)", len(re), len(want), err)
				}
				if err := rlp.DecodeBytes(e1, back); err != nil {
					bad("decode(encode(v)) fails: %v", err)
				}
				// RawValue / Stream.Raw on the whole value
				var raw rlp.RawValue
				if err := rlp.DecodeBytes(want, &raw); err != nil || !bytes.Equal(raw, want) {
					bad("decoding into RawValue returns %d bytes for a %d byte value (%v)", len(raw), len(want), err)
				}
				if r2, err := rlp.NewStream(bytes.NewReader(want), 0).Raw(); err != nil || !bytes.Equal(r2, want) {
					bad("Stream.Raw returns %d bytes for a %d byte value (%v)", len(r2), len(want), err)
				}
				res.Count("size-boundary:"+kind, key, true)
			}()
		}
	}
}

func headOf(b []byte) []byte {
	if len(b) > 8 {
		return b[:8]
	}
	return b
}
func tailOf(b []byte) []byte {
	if len(b) > 4 {
		return b[len(b)-4:]
	}
	return b
}
