// C08 harness: inputs in which a nested list overruns its enclosing list by 1..9 bytes (the length of a
// header) at every nesting depth, followed by elements with hostile declared sizes. A decoder that checks
// "the element fits into its list" against the space left BEFORE the element's header was consumed accepts
// the inner list, reads bytes lying after the parent, and after the inner ListEnd the parent's
// bytes-left counter wraps: any later declared size passes and make([]byte, size) explodes.
package main

import "verif/harness/hx"

// rawListHeader: a list header declaring n bytes, in the requested form (0: canonical; 1: F8 nn; 2: F9 nnnn).
func rawListHeader(n int, form int) []byte {
	switch {
	case form == 1 && n >= 56 && n < 256:
		return []byte{0xf8, byte(n)}
	case form == 2 && n >= 256 && n < 65536:
		return []byte{0xf9, byte(n >> 8), byte(n)}
	}
	return listHeader(n)
}

// hostileTails: what follows the overrun. Declared sizes are either small, about 2^24..2^26 (a visible
// allocation) or >= 2^62 (makeslice panics, recoverably); nothing in between, which could take the whole
// process down with an unrecoverable out-of-memory.
var hostileTails = [][]byte{
	{0xbf, 0x40, 0, 0, 0, 0, 0, 0, 0},
	{0xbb, 0x04, 0x00, 0x00, 0x00},
	{0xba, 0xff, 0xff, 0xff},
	{0xb9, 0xff, 0xff, 0x01, 0x02},
	{0xff, 0xff, 0xff, 0xff, 0xff, 0xff, 0xff, 0xff, 0xff},
	{0xfb, 0x04, 0x00, 0x00, 0x00, 0x01},
	{0x05, 0x80, 0xc0},
	{0x83, 0x01, 0x02, 0x03, 0xbf, 0x80, 0, 0, 0, 0, 0, 0, 0},
	{},
}

// overrunInput builds: depth-1 consistent wrapper lists around a parent list that declares `inside` bytes
// more than prefix+child header, a child list declaring inside+delta bytes (so its last delta bytes lie
// beyond the parent), and a tail after it.
func overrunInput(r *hx.Rng, depth, delta, form, nPrefix int, tail []byte) []byte {
	elem := func() []byte { // small elements every typed target can hold
		switch r.Intn(4) {
		case 0:
			return []byte{0x80}
		case 1:
			return []byte{0x81, 0x80 + byte(r.Intn(0x7f))}
		default:
			return []byte{byte(1 + r.Intn(0x7e))}
		}
	}
	var prefix []byte
	for i := 0; i < nPrefix; i++ {
		prefix = append(prefix, elem()...)
	}
	inside := r.Intn(4)
	switch form {
	case 1:
		inside = 56 + r.Intn(100)
	case 2:
		inside = 256 + r.Intn(200)
	}
	childLen := inside + delta
	if form == 1 && childLen >= 256 {
		childLen = 255
		inside = childLen - delta
	}
	var childContent []byte
	for len(childContent) < childLen {
		e := elem()
		if len(childContent)+len(e) > childLen {
			e = []byte{0x01}
		}
		childContent = append(childContent, e...)
	}
	childHdr := rawListHeader(childLen, form)
	parentLen := len(prefix) + len(childHdr) + inside
	body := append(append(append(append([]byte{}, rawListHeader(parentLen, 0)...), prefix...), childHdr...), childContent...)
	body = append(body, tail...)
	for d := 1; d < depth; d++ {
		var pre []byte
		if r.Bool() {
			pre = elem()
		}
		inner := append(pre, body...)
		body = append(append([]byte{}, listHeader(len(inner))...), inner...)
	}
	return body
}

// overrunInputs: quick = a seeded sample over (depth, delta, header form, prefix, tail); thorough = the grid.
func overrunInputs(r *hx.Rng, thorough bool) [][]byte {
	// the minimal witnesses first (the first failing inputs are the ones kept for the replay)
	out := [][]byte{{0xc1, 0xc1, 0x05}, {0xc1, 0xc1, 0x80, 0xbf, 0x40, 0, 0, 0, 0, 0, 0, 0}, {0xc1, 0xc1, 0x80, 0xbb, 0x04, 0, 0, 0},
		{0xc2, 0xc1, 0xc1, 0x80, 0xbf, 0x40, 0, 0, 0, 0, 0, 0, 0}, {0xc3, 0x01, 0xc2, 0x02, 0x03, 0xbb, 0x04, 0, 0, 0}}
	for form := 0; form <= 2; form++ {
		for depth := 1; depth <= 4; depth++ {
			for delta := 1; delta <= 9; delta++ {
				for nPrefix := 0; nPrefix <= 2; nPrefix++ {
					for ti, tail := range hostileTails {
						if !thorough && (depth*7+delta*5+form*3+nPrefix+ti+r.Intn(3))%6 != 0 {
							continue
						}
						out = append(out, overrunInput(r, depth, delta, form, nPrefix, tail))
					}
				}
			}
		}
	}
	return out
}
