// C08 harness: Go type descriptors (coq/C08/Desc.v gty) printed from reflection, and the model cases of
// the stream-level codec (coq/C08/Codec.v: tenc / tdec).
package main

import (
	"fmt"
	"math/big"
	"reflect"
	"sort"
	"strings"

	"com.tuntun.rangers/node/src/storage/rlp"
	"verif/harness/hx"
)

var (
	rawValueType = reflect.TypeOf(rlp.RawValue{})
	bigPtrType   = reflect.TypeOf((*big.Int)(nil))
	encoderType  = reflect.TypeOf((*rlp.Encoder)(nil)).Elem()
	decoderType  = reflect.TypeOf((*rlp.Decoder)(nil)).Elem()
)

func implementsCodec(t reflect.Type) bool {
	if t.Implements(encoderType) || t.Implements(decoderType) {
		return true
	}
	if t.Kind() != reflect.Ptr {
		p := reflect.PtrTo(t)
		return p.Implements(encoderType) || p.Implements(decoderType)
	}
	return false
}

// coqGty prints the descriptor of a Go type: what the type IS (fields in order, exported-ness, raw tag
// words); what the rlp package makes of it is computed by Desc.lower on the Coq side.
func coqGty(t reflect.Type) string { return coqGtyD(t, 0) }

func coqGtyD(t reflect.Type, depth int) string {
	if depth > 12 {
		return `(GBad "recursive")`
	}
	switch {
	case t == rawValueType:
		return "GRaw"
	case implementsCodec(t):
		return "(GCustom " + hx.CoqStr(t.String()) + ")"
	case t == bigPtrType:
		return "GBigPtr"
	case t == bigIntType:
		return "GBig"
	}
	switch k := t.Kind(); k {
	case reflect.Uint, reflect.Uint8, reflect.Uint16, reflect.Uint32, reflect.Uint64, reflect.Uintptr:
		return fmt.Sprintf("(GUint %d)", t.Bits())
	case reflect.Bool:
		return "GBool"
	case reflect.String:
		return "GString"
	case reflect.Slice:
		if t.Elem().Kind() == reflect.Uint8 && !implementsCodec(t.Elem()) {
			return "GBytes"
		}
		return "(GSlice " + coqGtyD(t.Elem(), depth+1) + ")"
	case reflect.Array:
		if t.Elem().Kind() == reflect.Uint8 && !implementsCodec(t.Elem()) {
			return fmt.Sprintf("(GByteArr %d)", t.Len())
		}
		return fmt.Sprintf("(GArr %d %s)", t.Len(), coqGtyD(t.Elem(), depth+1))
	case reflect.Ptr:
		return "(GPtr " + coqGtyD(t.Elem(), depth+1) + ")"
	case reflect.Interface:
		if t.NumMethod() == 0 {
			return "GIface"
		}
		return `(GBad "interface with methods")`
	case reflect.Struct:
		fs := make([]string, t.NumField())
		for i := range fs {
			f := t.Field(i)
			var ws []string
			for _, w := range strings.Split(f.Tag.Get("rlp"), ",") {
				ws = append(ws, hx.CoqStr(strings.TrimSpace(w)))
			}
			fs[i] = fmt.Sprintf("(%s, %s, [%s], %s)", hx.CoqStr(f.Name), hx.CoqBool(f.PkgPath == ""), strings.Join(ws, "; "), coqGtyD(f.Type, depth+1))
		}
		return "(GStruct " + hx.CoqStr(t.Name()) + " [" + strings.Join(fs, "; ") + "])"
	default:
		return "(GBad " + hx.CoqStr(k.String()) + ")"
	}
}

// gtyTable: descriptors are written once, as definitions in the prelude of every case shard.
type gtyTable struct {
	names map[reflect.Type]string
	order []reflect.Type
}

func newGtyTable() *gtyTable { return &gtyTable{names: map[reflect.Type]string{}} }

func (g *gtyTable) add(t reflect.Type) {
	if _, ok := g.names[t]; !ok {
		g.names[t] = fmt.Sprintf("g%d", len(g.order))
		g.order = append(g.order, t)
	}
}
func (g *gtyTable) name(t reflect.Type) string {
	n, ok := g.names[t]
	if !ok {
		panic("type not registered before the case files were opened: " + t.String())
	}
	return n
}
func (g *gtyTable) prelude() string {
	var sb strings.Builder
	sb.WriteString("From Coq Require Import List NArith String.\nImport ListNotations.\nOpen Scope string_scope.\n")
	for _, t := range g.order {
		fmt.Fprintf(&sb, "Definition %s : gty := (* %s *) %s.\n", g.names[t], strings.ReplaceAll(t.String(), "*)", "* )"), coqGty(t))
	}
	return sb.String()
}

// descriptor summary for the evidence notes
func (g *gtyTable) summary() string {
	var s []string
	for _, t := range g.order {
		s = append(s, t.String())
	}
	sort.Strings(s)
	return strings.Join(s, ", ")
}

// valuePrintable: can coqValue print it (interface{} fields must hold []byte / []interface{} trees)
func coqValueSafe(v reflect.Value) (s string, ok bool) {
	defer func() {
		if recover() != nil {
			ok = false
		}
	}()
	return coqValue(v), true
}
