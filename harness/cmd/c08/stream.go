// C08 harness: scripts of Stream operations (Kind / Bytes / Raw / Uint / Bool / List / ListEnd) on
// rlp.NewStream(bytes.NewReader(b), limit), against the explicit state machine of coq/C08/Stream.v.
// Direct checks on the implementation: no panic, never more bytes taken from the reader than the limit
// allows, and never a result longer than the input (allocation stays within the declared input).
package main

import (
	"bytes"
	"fmt"
	"io"
	"strings"

	"com.tuntun.rangers/node/src/storage/rlp"
	"verif/harness/hx"
)

func streamErrCode(err error) int {
	if err == rlp.EOL {
		return 12
	}
	switch msg := err.Error(); {
	case strings.Contains(msg, "ListEnd outside of any list"):
		return 13
	case strings.Contains(msg, "ListEnd not positioned at EOL"):
		return 14
	case strings.Contains(msg, "invalid boolean value"):
		return 15
	}
	return errCode(err)
}

var streamOps = []string{"OKind", "OBytes", "ORaw", "OUint 8", "OBool", "OList", "OListEnd"}

// countingReader: how many bytes the Stream has taken from the underlying reader.
type countingReader struct {
	r     *bytes.Reader
	taken int
}

func (c *countingReader) Read(p []byte) (int, error) {
	n, err := c.r.Read(p)
	c.taken += n
	return n, err
}
func (c *countingReader) ReadByte() (byte, error) {
	b, err := c.r.ReadByte()
	if err == nil {
		c.taken++
	}
	return b, err
}

var _ io.ByteReader = (*countingReader)(nil)

// runScript executes ops on the real Stream; obs are Coq terms of type Stream.obs.
func runScript(b []byte, limit uint64, ops []int, guided bool, rng *hx.Rng) (opsOut []int, obs []string, pan interface{}, taken int, maxOut int, unsticky string) {
	defer func() {
		if p := recover(); p != nil {
			pan = p
		}
	}()
	var rd io.Reader
	br := bytes.NewReader(b)
	cr := &countingReader{r: br}
	rd = cr
	eff := limit
	if limit == 0 {
		// "discover the limit from the reader" only works for *bytes.Reader itself
		rd = br
		cr = nil
		eff = uint64(len(b))
	}
	_ = eff
	s := rlp.NewStream(rd, limit)
	n := len(ops)
	// stickiness: after Kind() reported a header error (anything but EOL), the next Kind/Bytes/Raw/Uint/Bool/
	// List must report the same error and take nothing from the reader
	stickyErr, stickyLeft := "", 0
	note := func(op int, o string) {
		if stickyErr != "" && op != 6 && unsticky == "" && (o != stickyErr || br.Len() != stickyLeft) {
			unsticky = fmt.Sprintf("after Kind() returned %s, %s returned %s and took %d byte(s) from the reader", stickyErr, streamOps[op], o, stickyLeft-br.Len())
		}
		stickyErr = ""
		if op == 0 && strings.HasPrefix(o, "BErr") && o != "BErr 12" {
			stickyErr, stickyLeft = o, br.Len()
		}
	}
	for i := 0; i < n; i++ {
		op := ops[i]
		if guided {
			// follow the structure most of the time: look at the kind, then consume accordingly
			k, ksz, err := s.Kind()
			opsOut = append(opsOut, 0) // the peek is part of the script
			if err != nil {
				obs = append(obs, fmt.Sprintf("BErr %d", streamErrCode(err)))
			} else {
				obs = append(obs, fmt.Sprintf("BKind %d %d", int(k), ksz))
			}
			note(0, obs[len(obs)-1])
			switch {
			case err == rlp.EOL:
				op = 6
			case err != nil:
				op = rng.Intn(7)
			case k == rlp.List && rng.Intn(5) > 0:
				op = 5
			case k != rlp.List && rng.Intn(5) > 0:
				op = []int{1, 1, 2, 3, 4}[rng.Intn(5)]
			}
		}
		opsOut = append(opsOut, op)
		var o string
		switch op {
		case 0:
			k, sz, err := s.Kind()
			if err != nil {
				o = fmt.Sprintf("BErr %d", streamErrCode(err))
			} else {
				o = fmt.Sprintf("BKind %d %d", int(k), sz)
			}
		case 1, 2:
			var out []byte
			var err error
			if op == 1 {
				out, err = s.Bytes()
			} else {
				out, err = s.Raw()
			}
			if err != nil {
				o = fmt.Sprintf("BErr %d", streamErrCode(err))
			} else {
				o = "HB " + hx.CoqHex(out)
				if len(out) > maxOut {
					maxOut = len(out)
				}
			}
		case 3:
			v, err := s.Uint()
			if err != nil {
				o = fmt.Sprintf("BErr %d", streamErrCode(err))
			} else {
				o = fmt.Sprintf("BNum %d", v)
			}
		case 4:
			v, err := s.Bool()
			if err != nil {
				o = fmt.Sprintf("BErr %d", streamErrCode(err))
			} else {
				o = "BBool " + hx.CoqBool(v)
			}
		case 5:
			sz, err := s.List()
			if err != nil {
				o = fmt.Sprintf("BErr %d", streamErrCode(err))
			} else {
				o = fmt.Sprintf("BNum %d", sz)
			}
		case 6:
			if err := s.ListEnd(); err != nil {
				o = fmt.Sprintf("BErr %d", streamErrCode(err))
			} else {
				o = "BUnit"
			}
		}
		obs = append(obs, o)
		note(op, o)
	}
	if cr != nil {
		taken = cr.taken
	}
	return
}

func streamTier(a hx.Args, rng *hx.Rng, res *hx.Result, corpus [][]byte) *hx.Cases {
	sc := hx.NewCasesNamed(a.Out, "stream", "From V.C08 Require Import Model Stream Harness.\nFrom V.Base Require Import Hex.", "string * N * list op * list obs", "check_stream", map[bool]int{false: 700, true: 1500}[a.Tier == "thorough"])
	nScripts := 2 * a.N
	if nScripts > 6000 {
		nScripts = 6000
	}
	var pool [][]byte
	for _, b := range corpus {
		if len(b) > 0 && len(b) <= 80 {
			pool = append(pool, b)
		}
	}
	for i := 0; i < 60; i++ {
		e, _ := rlp.EncodeToBytes(genTree(rng, 2))
		if len(e) < 60 {
			pool = append(pool, badHeaderVariants(e)...)
		}
	}
	for i := 0; i < nScripts; i++ {
		var b []byte
		switch rng.Intn(4) {
		case 0: // several values in a row
			for k := 0; k < 1+rng.Intn(3); k++ {
				e, _ := rlp.EncodeToBytes(genTree(rng, 2))
				if len(e) < 70 {
					b = append(b, e...)
				}
			}
		case 1: // typed shapes
			e, _ := rlp.EncodeToBytes([]interface{}{rng.U64() >> uint(rng.Intn(64)), rng.Bool(), []byte{byte(rng.U64())}, []interface{}{uint64(rng.Intn(300)), ""}})
			b = e
		default:
			b = pool[rng.Intn(len(pool))]
		}
		limit := uint64(0)
		switch rng.Intn(6) {
		case 0:
			limit = uint64(len(b))
		case 1:
			if len(b) > 0 {
				limit = uint64(1 + rng.Intn(len(b))) // declared input shorter than what the reader holds
			}
		case 2:
			limit = uint64(len(b) + 1 + rng.Intn(5)) // declared input longer than what the reader holds
		}
		nops := 2 + rng.Intn(12)
		ops := make([]int, nops)
		for k := range ops {
			ops[k] = rng.Intn(7)
		}
		guided := rng.Intn(3) > 0
		opsRun, obs, pan, taken, maxOut, unsticky := runScript(b, limit, ops, guided, rng)
		names := make([]string, len(opsRun))
		for k, o := range opsRun {
			names[k] = streamOps[o]
		}
		desc := map[string]interface{}{"input": fmt.Sprintf("%x", b), "limit": limit, "ops": names, "impl": obs}
		if pan != nil {
			res.Violate("C08/panic:Stream", fmt.Sprint(pan), desc)
			continue
		}
		if unsticky != "" {
			res.Violate("C08/stream:error-not-sticky", unsticky, desc)
		}
		if limit > 0 && uint64(taken) > limit {
			res.Violate("C08/stream:reads-past-limit", fmt.Sprintf("the Stream took %d bytes from its reader with an input limit of %d", taken, limit), desc)
		}
		if maxOut > len(b)+9 {
			res.Violate("C08/alloc:Stream", fmt.Sprintf("a %d-byte result from %d input bytes", maxOut, len(b)), desc)
		}
		class := "stream:all-ok"
		for _, o := range obs {
			if strings.HasPrefix(o, "BErr") {
				class = "stream:with-errors"
			}
		}
		res.Count(class, fmt.Sprintf("s/%x/%d/%v", b, limit, opsRun), true)
		sc.Add(fmt.Sprintf("(%s, %d%%N, [%s], [%s])", hx.CoqHex(b), limit, strings.Join(names, "; "), strings.Join(obs, "; ")), desc)
	}
	return sc
}
