// C01 harness, part L6: the outcome of a block may not depend on what this PROCESS executed before.
//
// N-fold repetition of one block cannot see process-local memo state (a cache keyed by height, by
// castor, by group ...): the repetition fills the cache with the block's own data. Here a block B is
// executed on parent state S
//
//	(a) as the only block a freshly started process ever executes (a child process of this binary that
//	    is handed the committed store as a key/value dump - it does not even build the world itself), and
//	(b) in this long-running process after different histories: sibling blocks of the same height that
//	    change reward-relevant data (proposer / validator stakes, proposer set, miner accounts) on the same
//	    and on another parent state, blocks of the neighbouring heights, another random block, B itself;
//
// state root, commit root, receipts, receipts tree, evicted list and the refund/reward store after the
// block must be those of (a). A difference is a violation, replayed with B and the history.
package main

import (
	"encoding/hex"
	"encoding/json"
	"fmt"
	"os"
	"os/exec"
	"path/filepath"
	"sort"
	"strings"
	"sync"

	"com.tuntun.rangers/node/src/common"
	"com.tuntun.rangers/node/src/middleware/db"
	"com.tuntun.rangers/node/src/middleware/types"
	"com.tuntun.rangers/node/src/service"
	"verif/harness/hx"
)

type worldDump struct {
	Root string      `json:"root"`
	KV   [][2]string `json:"kv"`
}

type histStep struct {
	World  string    `json:"world"` // "main" | "alt"
	Height uint64    `json:"height"`
	Block  blockCase `json:"block"`
}

type childJob struct {
	Worlds map[string]worldDump `json:"worlds"`
	Steps  []histStep           `json:"steps"`
	Faults []string             `json:"faults,omitempty"` // node-local stores put out of order before the steps
	Out    string               `json:"out"`
}

func dumpWorld(w *world) worldDump {
	m, ok := w.disk.(*db.MemDatabase)
	if !ok {
		panic("world store is not a MemDatabase")
	}
	d := worldDump{Root: w.root.Hex()}
	for _, k := range m.Keys() {
		v, _ := m.Get(k)
		d.KV = append(d.KV, [2]string{hex.EncodeToString(k), hex.EncodeToString(v)})
	}
	sort.Slice(d.KV, func(i, j int) bool { return d.KV[i][0] < d.KV[j][0] })
	return d
}

func loadWorld(d worldDump) *world {
	m, err := db.NewMemDatabase()
	must(err)
	for _, kv := range d.KV {
		k, _ := hex.DecodeString(kv[0])
		v, _ := hex.DecodeString(kv[1])
		must(m.Put(k, v))
	}
	return &world{disk: m, root: common.HexToHash(d.Root)}
}

// childMain: a fresh replica. Boots the node services, loads the stores, executes the steps in order,
// writes the outcomes. Nothing else has run in this process.
func childMain(jobFile string) {
	b, err := os.ReadFile(jobFile)
	must(err)
	var job childJob
	must(json.Unmarshal(b, &job))
	boot()
	worlds := map[string]*world{}
	for name, d := range job.Worlds {
		worlds[name] = loadWorld(d)
	}
	for _, f := range job.Faults {
		switch f {
		case "service-stores-closed": // key cache of the miner manager, stores of the transaction pool
			service.Close()
		case "shared-leveldb-closed": // the LevelDB instance behind every db.NewDatabase(prefix) handle
			if d, err := db.NewDatabase("c01fault"); err == nil {
				d.Close()
			}
		}
	}
	var outs []blockOutcome
	for _, st := range job.Steps {
		o, pan := runBlockAt(worlds[st.World], st.Block, st.Height)
		if pan != nil {
			o.Root = "panic: " + fmt.Sprint(pan)
		}
		outs = append(outs, o)
	}
	ob, _ := json.Marshal(outs)
	must(os.WriteFile(job.Out, ob, 0644))
}

// runChild executes steps in a fresh process and returns the outcome of every step.
func runChild(id int, worlds map[string]worldDump, steps []histStep, faults ...string) ([]blockOutcome, error) {
	exe, err := os.Executable()
	if err != nil {
		return nil, err
	}
	dir, err := filepath.Abs(fmt.Sprintf("child-%d", id))
	if err != nil {
		return nil, err
	}
	if err := os.MkdirAll(dir, 0755); err != nil {
		return nil, err
	}
	defer os.RemoveAll(dir)
	job := childJob{Worlds: worlds, Steps: steps, Faults: faults, Out: filepath.Join(dir, "out.json")}
	jb, _ := json.Marshal(job)
	jf := filepath.Join(dir, "job.json")
	if err := os.WriteFile(jf, jb, 0644); err != nil {
		return nil, err
	}
	cmd := exec.Command(exe)
	cmd.Dir = dir
	cmd.Env = append(os.Environ(), "C01_CHILD_JOB="+jf)
	if out, err := cmd.CombinedOutput(); err != nil {
		tail := string(out)
		if len(tail) > 600 {
			tail = tail[len(tail)-600:]
		}
		return nil, fmt.Errorf("%v: %s", err, tail)
	}
	ob, err := os.ReadFile(job.Out)
	if err != nil {
		return nil, err
	}
	var outs []blockOutcome
	if err := json.Unmarshal(ob, &outs); err != nil {
		return nil, err
	}
	return outs, nil
}

// genSibling: a block whose transactions change what after() reads: proposer and validator stakes, the
// proposer set, miner accounts.
func genSibling(r *hx.Rng) blockCase {
	var bc blockCase
	n := 1 + r.Intn(3)
	for i := 0; i < n; i++ {
		var d txDesc
		switch r.Intn(6) {
		case 0: // add stake to a proposer
			m := types.Miner{Id: proposerIds[r.Intn(len(proposerIds))], Stake: uint64(100 + r.Intn(2000))}
			md, _ := json.Marshal(m)
			d = txDesc{Type: types.TransactionTypeMinerAdd, Source: addrHex(addr(20 + r.Intn(5))), Data: string(md)}
		case 1: // a new proposer
			m := types.Miner{Id: idOf(byte(0x80 + r.Intn(6))), PublicKey: []byte{9, 9}, VrfPublicKey: []byte{8}, Type: common.MinerTypeProposer,
				Stake: common.ProposerStake * uint64(1+r.Intn(3))}
			md, _ := json.Marshal(m)
			d = txDesc{Type: types.TransactionTypeMinerApply, Source: addrHex(addr(20 + r.Intn(5))), Data: string(md)}
		case 2: // a proposer takes stake out (may drop out of the set)
			i := r.Intn(len(proposerIds))
			amt := []string{"50", "250", "18446744073709551615"}[r.Intn(3)]
			rd, _ := json.Marshal(map[string]string{"Amount": amt, "MinerId": common.ToHex(proposerIds[i])})
			d = txDesc{Type: types.TransactionTypeMinerRefund, Source: addrHex(addr(100 + i)), Data: string(rd), Signed: true}
		case 3: // add stake to a validator of the group
			m := types.Miner{Id: validatorIds[r.Intn(len(validatorIds))], Stake: uint64(100 + r.Intn(900))}
			md, _ := json.Marshal(m)
			d = txDesc{Type: types.TransactionTypeMinerAdd, Source: addrHex(addr(20 + r.Intn(5))), Data: string(md)}
		case 4: // a validator takes stake out
			i := r.Intn(len(validatorIds))
			rd, _ := json.Marshal(map[string]string{"Amount": []string{"100", "18446744073709551615"}[r.Intn(2)], "MinerId": common.ToHex(validatorIds[i])})
			d = txDesc{Type: types.TransactionTypeMinerRefund, Source: addrHex(addr(110 + i)), Data: string(rd), Signed: true}
		default: // a proposer moves to another account
			i := r.Intn(len(proposerIds))
			m := types.Miner{Id: proposerIds[i], Account: addr(33 + r.Intn(3)).Bytes()}
			md, _ := json.Marshal(m)
			d = txDesc{Type: types.TransactionTypeMinerChangeAccount, Source: addrHex(addr(100 + i)), Data: string(md)}
		}
		d.RequestId = uint64(5000 + i)
		bc.Txs = append(bc.Txs, d)
	}
	return bc
}

func diffFields(x, y blockOutcome) string {
	var w []string
	if x.Root != y.Root {
		w = append(w, "state-root")
	}
	if x.CommitRoot != y.CommitRoot {
		w = append(w, "commit-root")
	}
	if fmt.Sprint(x.Receipts) != fmt.Sprint(y.Receipts) {
		w = append(w, "receipts")
	}
	if x.ReceiptsTree != y.ReceiptsTree {
		w = append(w, "receipts-tree")
	}
	if fmt.Sprint(x.Evicted) != fmt.Sprint(y.Evicted) {
		w = append(w, "evicted")
	}
	if fmt.Sprint(x.Escrow) != fmt.Sprint(y.Escrow) {
		w = append(w, "reward/refund-store")
	}
	return strings.Join(w, "+")
}

func historySearch(a hx.Args, rng *hx.Rng, res *hx.Result, n int) {
	if n < 6 {
		n = 6
	}
	if n > 150 {
		n = 150
	}
	altWorld := newWorldStakes(blockBalances(), true, 1)
	dumps := map[string]worldDump{"main": dumpWorld(blockWorld), "alt": dumpWorld(altWorld)}
	worlds := map[string]*world{"main": blockWorld, "alt": altWorld}

	type item struct {
		B        blockCase
		ref      []blockOutcome
		refErr   error
		fault    []blockOutcome
		faultErr error
	}
	items := make([]*item, n)
	for i := range items {
		b := genBlock(rng)
		if i%3 == 0 { // B itself reward relevant
			b.Txs = append(b.Txs, genSibling(rng).Txs[0])
		}
		if i%3 == 1 { // a miner apply: the miner manager also writes its node-local key cache
			m := types.Miner{Id: idOf(byte(0x90 + i%16)), PublicKey: []byte{7, byte(i)}, VrfPublicKey: []byte{6}, Type: common.MinerTypeValidator, Stake: common.ValidatorStake * 2}
			md, _ := json.Marshal(m)
			b.Txs = append(b.Txs, txDesc{Type: types.TransactionTypeMinerApply, Source: addrHex(addr(20 + i%5)), Data: string(md), Nonce: 77})
		}
		items[i] = &item{B: b}
	}
	// (a) fresh replicas, a few at a time
	var wg sync.WaitGroup
	sem := make(chan struct{}, 6)
	for i, it := range items {
		wg.Add(1)
		go func(i int, it *item) {
			defer wg.Done()
			sem <- struct{}{}
			defer func() { <-sem }()
			it.ref, it.refErr = runChild(i, dumps, []histStep{{World: "main", Height: blockHeight, Block: it.B}})
			it.fault, it.faultErr = runChild(1000+i, dumps, []histStep{{World: "main", Height: blockHeight, Block: it.B}}, "service-stores-closed", "shared-leveldb-closed")
		}(i, it)
	}
	wg.Wait()

	failed := 0
	for i, it := range items {
		if it.refErr != nil || len(it.ref) != 1 || strings.HasPrefix(it.ref[0].Root, "panic") {
			failed++
			if failed <= 2 {
				res.Violate("C01/harness:fresh-replica-failed", fmt.Sprintf("the child process that executes the block as a fresh replica failed: %v %v", it.refErr, it.ref), it.B)
			}
			continue
		}
		ref := it.ref[0]
		// the same block on a replica whose node-local auxiliary stores are out of order
		if it.faultErr != nil || len(it.fault) != 1 {
			res.Violate("C01/local-fault:replica-crashed", fmt.Sprintf("a replica whose node-local stores (miner key cache, pool stores, shared LevelDB) are closed could not execute the block: %v", it.faultErr), it.B)
		} else {
			class := "local-fault:same-outcome"
			if d := diffFields(ref, it.fault[0]); d != "" {
				class = "local-fault-DEPENDENT"
				res.Violate("C01/local-fault:stores-closed",
					fmt.Sprintf("the same block on the same parent state gives a different %s on a replica whose node-local stores (miner key cache, transaction pool stores, shared LevelDB instance) are closed; healthy: %s  VS  faulty: %s",
						d, ref.digest(), it.fault[0].digest()), it.B)
			}
			bj, _ := json.Marshal(it.B)
			res.Count(class, "fault|"+string(bj), true)
		}
		s1, s2 := genSibling(rng), genSibling(rng)
		other := genBlock(rng)
		hists := map[string][]histStep{
			"same-block-again":           {{World: "main", Height: blockHeight, Block: it.B}},
			"sibling-same-parent":        {{World: "main", Height: blockHeight, Block: s1}},
			"sibling-other-parent":       {{World: "alt", Height: blockHeight, Block: s1}},
			"empty-sibling-other-parent": {{World: "alt", Height: blockHeight, Block: blockCase{}}},
			"neighbour-heights":          {{World: "main", Height: blockHeight - 1, Block: s1}, {World: "alt", Height: blockHeight + 1, Block: s2}},
			"siblings-and-other-block":   {{World: "main", Height: blockHeight, Block: s1}, {World: "main", Height: blockHeight, Block: s2}, {World: "main", Height: blockHeight, Block: other}},
			"neighbour-then-sibling":     {{World: "main", Height: blockHeight + 1, Block: s2}, {World: "alt", Height: blockHeight, Block: s1}},
		}
		names := make([]string, 0, len(hists))
		for k := range hists {
			names = append(names, k)
		}
		sort.Strings(names)
		for _, name := range names {
			effective := false
			for _, st := range hists[name] {
				o, pan := runBlockAt(worlds[st.World], st.Block, st.Height)
				if pan != nil {
					res.Violate("C01/panic:block", fmt.Sprint(pan), st)
					continue
				}
				for _, rc := range o.Receipts {
					if p := strings.SplitN(rc, "|", 3); len(p) >= 2 && p[1] == "1" {
						effective = true
					}
				}
			}
			o, pan := runBlockAt(blockWorld, it.B, blockHeight)
			if pan != nil {
				res.Violate("C01/panic:block", fmt.Sprint(pan), it.B)
				continue
			}
			class := "history:" + name
			if d := diffFields(ref, o); d != "" {
				class = "history-DEPENDENT:" + name
				res.Violate("C01/history-dependence:"+name,
					fmt.Sprintf("the same block on the same parent state gives a different %s in a process that executed other blocks before (%s) than in a fresh process; fresh: %s  VS  after history: %s",
						d, name, ref.digest(), o.digest()),
					map[string]interface{}{"block": it.B, "height": blockHeight, "history": hists[name]})
			}
			bj, _ := json.Marshal(map[string]interface{}{"b": it.B, "h": hists[name]})
			res.Count(class, string(bj), effective || name == "same-block-again" || name == "empty-sibling-other-parent")
		}
		if i == 0 {
			res.Sample(map[string]interface{}{"site": "history", "block": it.B, "fresh-replica": map[string]interface{}{"root": ref.Root, "escrow": trunc(ref.Escrow)}, "histories": names})
		}
	}
	res.Note(fmt.Sprintf("history search: %d blocks, each executed as the only block of a fresh child process and after 7 in-process histories (siblings at the same height on the same/another parent state, neighbouring heights, other blocks); fresh replicas failed: %d", n, failed))
}
