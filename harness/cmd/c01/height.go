// C01 harness, parts L10 and L11.
//
// L10 The outcome of a block may depend on the block's own height (header.Height) but not on the height of
//
//	the node's head, a process-global (common.GetBlockHeight) that differs between a node that verifies a
//	block on top of its chain (head = height-1) and a node that executes it later or on a side branch
//	(fork choice, fork sync, the proposer's asynchronous execution racing an insert). (a) dev
//	configuration (every proposal active from 0, so the gates answer the same for every head): the same
//	block with head = H-1, H, H+1, H+1000 must give one outcome. (b) one proposal activation height at a
//	time is moved to H+5: the block (height H, before the activation) executed by a node whose head is
//	H-1 and by one whose head is H+10 (past the activation: a node syncing an older branch).
//
// L11 (a) the block-level helpers around execution do not modify the list they are given (calcTxTree,
//
//	calcReceiptsTree); (b) proposer role in the order CastBlock uses - tx tree over the slice first, then
//	Execute("casting") on the same slice - vs a verifier on its own list, with type-0 entries in the
//	list; (c) the same block OBJECT executed twice with the helper calls of checkStates in between.
package main

import (
	"encoding/json"
	"fmt"
	"reflect"
	"regexp"
	"sort"
	"strings"

	"com.tuntun.rangers/node/src/common"
	"com.tuntun.rangers/node/src/core"
	"com.tuntun.rangers/node/src/middleware/types"
	"verif/harness/hx"
)

func heightRelevantBlock(r *hx.Rng, i int) blockCase {
	b := genBlock(r)
	// transactions that store or compute heights: miner apply (ApplyHeight), refund (escrow height), add
	m := types.Miner{Id: idOf(byte(0xa0 + i%16)), PublicKey: []byte{5, byte(i)}, VrfPublicKey: []byte{4}, Type: []byte{common.MinerTypeValidator, common.MinerTypeProposer}[i%2],
		Stake: []uint64{common.ValidatorStake * 2, common.ProposerStake}[i%2]}
	md, _ := json.Marshal(m)
	b.Txs = append(b.Txs, txDesc{Type: types.TransactionTypeMinerApply, Source: addrHex(addr(20 + i%5)), Data: string(md)})
	b.Txs = append(b.Txs, genSibling(r).Txs...)
	for j := range b.Txs {
		b.Txs[j].RequestId = uint64(700 + j)
		b.Txs[j].Nonce = uint64(j)
	}
	return b
}

func headHeightSearch(a hx.Args, rng *hx.Rng, res *hx.Result) {
	defer func() { headDelta = 0 }()
	n := 10
	if a.Tier == "thorough" {
		n = 80
	}
	run := func(b blockCase, delta int64) (blockOutcome, interface{}) {
		headDelta = delta
		defer func() { headDelta = 0 }()
		o, _, pan := runBlockX(blockWorld, b, blockHeight, "fullverify", &ctlChain{})
		return o, pan
	}
	var keep []blockCase
	for i := 0; i < n; i++ {
		b := heightRelevantBlock(rng, i)
		if i < 3 {
			keep = append(keep, b)
		}
		ref, pan := run(b, 0)
		if pan != nil {
			res.Violate("C01/panic:block", fmt.Sprint(pan), b)
			continue
		}
		class := "head-height:same-outcome"
		for _, d := range []int64{1, 2, 1001} {
			o, pan := run(b, d)
			if pan != nil {
				res.Violate("C01/panic:block", fmt.Sprint(pan), b)
				continue
			}
			if df := diffFields(ref, o); df != "" {
				class = "head-height-DEPENDENT"
				res.Violate("C01/process-global:block-height",
					fmt.Sprintf("the same block (height %d) on the same parent state gives a different %s on a node whose own head is at height %d than on a node whose head is at %d (dev configuration: every proposal active on both); head %d: %s  VS  head %d: %s",
						blockHeight, df, blockHeight-1+int(d), blockHeight-1, blockHeight-1, ref.digest(), blockHeight-1+int(d), o.digest()),
					map[string]interface{}{"block": b, "height": blockHeight, "heads": []int64{blockHeight - 1, blockHeight - 1 + d}})
			}
		}
		bj, _ := json.Marshal(b)
		res.Count(class, "head|"+string(bj), true)
	}

	// (b) one activation height at a time between the block and a later head
	cfg := reflect.ValueOf(&common.LocalChainConfig).Elem()
	re := regexp.MustCompile(`^Proposal\d+Block$`)
	var gates, sensitive []string
	for i := 0; i < cfg.NumField(); i++ {
		if re.MatchString(cfg.Type().Field(i).Name) && cfg.Field(i).Kind() == reflect.Uint64 {
			gates = append(gates, cfg.Type().Field(i).Name)
		}
	}
	sort.Strings(gates)
	reported := 0
	for _, g := range gates {
		f := cfg.FieldByName(g)
		old := f.Uint()
		f.SetUint(blockHeight + 5)
		differs := false
		var wit blockCase
		var what string
		for _, b := range keep {
			o1, p1 := run(b, 0)
			o2, p2 := run(b, 11)
			if p1 != nil || p2 != nil {
				if (p1 == nil) != (p2 == nil) {
					differs, wit, what = true, b, "one of the two nodes panics"
				}
				continue
			}
			if df := diffFields(o1, o2); df != "" {
				differs, wit, what = true, b, df
				break
			}
		}
		f.SetUint(old)
		if differs {
			sensitive = append(sensitive, g)
			if reported < 3 {
				reported++
				res.Violate("C01/process-global:proposal-gate-reads-head",
					fmt.Sprintf("with %s = %d, a block of height %d (before the activation) gives a different %s on a node whose head is %d than on a node whose head is already %d: the gate common.Is%s() reads the node's head, not the height of the block being executed",
						g, blockHeight+5, blockHeight, what, blockHeight-1, blockHeight+10, strings.TrimSuffix(g, "Block")),
					map[string]interface{}{"block": wit, "height": blockHeight, "config": map[string]uint64{g: blockHeight + 5}, "heads": []int{blockHeight - 1, blockHeight + 10}})
			}
		}
		res.Count(map[bool]string{true: "proposal-gate:head-sensitive", false: "proposal-gate:no-effect-on-these-blocks"}[differs], g, true)
	}
	res.Note(fmt.Sprintf("head height: %d blocks x heads {H-1,H,H+1,H+1000}; activation heights moved between block and head one at a time: %d gates, outcome depends on the node's head for %v", n, len(gates), sensitive))
}

func hashesOf(txs []*types.Transaction) string {
	var l []string
	for _, t := range txs {
		if t == nil {
			l = append(l, "nil")
		} else {
			l = append(l, t.Hash.Hex()[2:10])
		}
	}
	return strings.Join(l, ",")
}

func roleSearch(a hx.Args, rng *hx.Rng, res *hx.Result) {
	n := 12
	if a.Tier == "thorough" {
		n = 100
	}
	for i := 0; i < n; i++ {
		// a pooled list with type-0 entries (plain messages that only travel through the pool) between the others
		base := genBlock(rng)
		var bc blockCase
		for j, d := range base.Txs {
			if j == 0 || rng.Intn(2) == 0 {
				bc.Txs = append(bc.Txs, txDesc{Type: 0, Source: addrHex(addr(1 + rng.Intn(8))), Data: fmt.Sprintf("message %d.%d", i, j)})
			}
			bc.Txs = append(bc.Txs, d)
		}
		bc.Txs = append(bc.Txs, callTx(rng, "0"))
		if rng.Intn(2) == 0 {
			bc.Txs = append(bc.Txs, txDesc{Type: 0, Source: addrHex(addr(2)), Data: "trailing message"})
		}
		for j := range bc.Txs {
			bc.Txs[j].RequestId = uint64(400 + j)
			bc.Txs[j].Nonce = uint64(j)
		}
		bc = sortedCase(bc)
		mk := func() []*types.Transaction {
			txs := make([]*types.Transaction, len(bc.Txs))
			for j, d := range bc.Txs {
				txs[j] = d.tx()
			}
			return txs
		}
		// (a) purity of the helpers
		txs := mk()
		before := hashesOf(txs)
		tree := core.VerifBCTxTree(txs)
		if after := hashesOf(txs); after != before {
			res.Violate("C01/pure:argument-modified:calcTxTree", "calcTxTree changed the transaction list it was given: "+before+" -> "+after, bc)
		}
		if tree2 := core.VerifBCTxTree(mk()); tree2 != tree {
			res.Violate("C01/pure:calcTxTree-not-a-function", "two calls on equal lists gave different tx trees", bc)
		}
		// (b) proposer, CastBlock's order: tx tree over the slice, then Execute(casting) on the same slice
		ptxs := mk()
		core.VerifBCTxTree(ptxs)
		po, ppacked, pan := runTxsX(blockWorld, &types.Block{Header: headerAt(blockHeight), Transactions: ptxs}, "casting", &ctlChain{})
		if pan != nil {
			res.Violate("C01/panic:block", fmt.Sprint(pan), bc)
			continue
		}
		vo, vpacked, pan := runTxsX(blockWorld, &types.Block{Header: headerAt(blockHeight), Transactions: mk()}, "fullverify", &ctlChain{})
		if pan != nil {
			res.Violate("C01/panic:block", fmt.Sprint(pan), bc)
			continue
		}
		class := "role:agree"
		if d := diffFields(po, vo); d != "" || hashesOf(ppacked) != hashesOf(vpacked) {
			class = "role-DISAGREE"
			res.Violate("C01/role:proposer-vs-verifier",
				fmt.Sprintf("proposer (tx tree computed over the list, then Execute casting on that list) and verifier (own copy of the same list) disagree: %s; executed lists %s vs %s; proposer: %s  VS  verifier: %s",
					d, hashesOf(ppacked), hashesOf(vpacked), po.digest(), vo.digest()), bc)
		}
		// (c) the same block object twice, with checkStates' helper calls in between
		blk := &types.Block{Header: headerAt(blockHeight), Transactions: mk()}
		o1, _, pan1 := runTxsX(blockWorld, blk, "fullverify", &ctlChain{})
		listAfter1 := hashesOf(blk.Transactions)
		core.VerifBCTxTree(blk.Transactions)
		if after := hashesOf(blk.Transactions); after != listAfter1 {
			res.Violate("C01/pure:argument-modified:calcTxTree", "calcTxTree changed the executed block's transaction list: "+listAfter1+" -> "+after, bc)
		}
		o2, _, pan2 := runTxsX(blockWorld, blk, "fullverify", &ctlChain{})
		if pan1 != nil || pan2 != nil {
			res.Violate("C01/panic:block", fmt.Sprint(pan1, pan2), bc)
			continue
		}
		if d := diffFields(o1, o2); d != "" {
			class = "reexecution-DIFFERS"
			res.Violate("C01/reexecution:same-block-object", fmt.Sprintf("executing the same block object a second time (after the tx tree was computed over it, as checkStates does) gives a different %s; first: %s  VS  second: %s", d, o1.digest(), o2.digest()), bc)
		}
		if d := diffFields(o1, vo); d != "" {
			res.Violate("C01/reexecution:same-block-object", "first execution of a fresh block object differs from the verifier's: "+d, bc)
		}
		bj, _ := json.Marshal(bc)
		res.Count(class, "role|"+string(bj), true)
	}
}

// ---------------------------------------------------------------------------------------------
// L13 node role. Node-local configuration (full node vs miner node: common.IsFullNode, set from the node's
// start-up flags) is not part of the chain: the same block must give the same outcome on both kinds of
// node. Blocks hold registry operations that depend on each other inside ONE block (two applications
// naming the same account, apply then refund / add / change-account of the same miner), because what
// such a role switch typically changes is WHEN intermediate state becomes visible.
type roleFlag struct {
	name string
	set  func(on bool)
}

var roleFlags = []roleFlag{
	{"full-node", func(on bool) { common.SetFullNode(on) }},
}

func registryBlock(r *hx.Rng, i int) blockCase {
	var bc blockCase
	acct := addr(36 + r.Intn(3))
	idA, idB := idOf(byte(0xb0+i%16)), idOf(byte(0xc0+i%16))
	apply := func(id []byte, src common.Address, account []byte, typ byte) txDesc {
		stake := common.ValidatorStake * 2
		if typ == common.MinerTypeProposer {
			stake = common.ProposerStake
		}
		m := types.Miner{Id: id, PublicKey: []byte{3, byte(i)}, VrfPublicKey: []byte{2}, Type: typ, Stake: stake, Account: account}
		md, _ := json.Marshal(m)
		return txDesc{Type: types.TransactionTypeMinerApply, Source: addrHex(src), Data: string(md)}
	}
	typ := []byte{common.MinerTypeValidator, common.MinerTypeProposer}[r.Intn(2)]
	switch i % 4 {
	case 0: // two applications naming the same account, different senders
		bc.Txs = append(bc.Txs, apply(idA, addr(20), acct.Bytes(), typ), apply(idB, addr(21), acct.Bytes(), typ))
	case 1: // the same sender applies twice (account = sender when none is named)
		bc.Txs = append(bc.Txs, apply(idA, addr(22), nil, typ), apply(idB, addr(22), nil, typ))
	case 2: // apply, then add stake and refund of the new miner in the same block
		bc.Txs = append(bc.Txs, apply(idA, addr(23), nil, typ))
		m := types.Miner{Id: idA, Stake: 300}
		md, _ := json.Marshal(m)
		bc.Txs = append(bc.Txs, txDesc{Type: types.TransactionTypeMinerAdd, Source: addrHex(addr(24)), Data: string(md)})
		rd, _ := json.Marshal(map[string]string{"Amount": "100", "MinerId": common.ToHex(idA)})
		bc.Txs = append(bc.Txs, txDesc{Type: types.TransactionTypeMinerRefund, Source: addrHex(addr(23)), Data: string(rd), Signed: true})
	default: // apply, change account, then a second application naming the account just left / just taken
		bc.Txs = append(bc.Txs, apply(idA, addr(20), nil, typ))
		m := types.Miner{Id: idA, Account: acct.Bytes()}
		md, _ := json.Marshal(m)
		bc.Txs = append(bc.Txs, txDesc{Type: types.TransactionTypeMinerChangeAccount, Source: addrHex(addr(20)), Data: string(md)})
		bc.Txs = append(bc.Txs, apply(idB, addr(21), [][]byte{acct.Bytes(), addr(20).Bytes()}[r.Intn(2)], typ))
	}
	if r.Intn(2) == 0 {
		bc.Txs = append(bc.Txs, genBlock(r).Txs...)
	}
	for j := range bc.Txs {
		bc.Txs[j].RequestId = uint64(800 + j)
		bc.Txs[j].Nonce = uint64(j)
	}
	return bc
}

func nodeRoleSearch(a hx.Args, rng *hx.Rng, res *hx.Result) {
	n := 16
	if a.Tier == "thorough" {
		n = 120
	}
	for i := 0; i < n; i++ {
		b := registryBlock(rng, i)
		ref, _, pan := runBlockX(blockWorld, b, blockHeight, "fullverify", &ctlChain{})
		if pan != nil {
			res.Violate("C01/panic:block", fmt.Sprint(pan), b)
			continue
		}
		class := "node-role:same-outcome"
		for _, f := range roleFlags {
			f.set(true)
			o, _, pan := runBlockX(blockWorld, b, blockHeight, "fullverify", &ctlChain{})
			f.set(false)
			if pan != nil {
				res.Violate("C01/node-role:"+f.name, "the block panics on a node with "+f.name+" set: "+fmt.Sprint(pan), b)
				continue
			}
			if d := diffFields(ref, o); d != "" {
				class = "node-role-DEPENDENT"
				res.Violate("C01/node-role:"+f.name,
					fmt.Sprintf("the same block on the same parent state gives a different %s on a node configured with %s than on one without; without: %s  VS  with: %s", d, f.name, ref.digest(), o.digest()),
					map[string]interface{}{"block": b, "height": blockHeight, "flag": f.name})
			}
		}
		okN := 0
		for _, rc := range ref.Receipts {
			if p := strings.SplitN(rc, "|", 3); len(p) >= 2 && p[1] == "1" {
				okN++
			}
		}
		res.Histogram["node-role:successful-receipts"] += okN
		bj, _ := json.Marshal(b)
		res.Count(class, "role-flag|"+string(bj), true)
	}
}
