// C01 harness, parts L7 and L8.
//
// L7  proposer vs verifier. A proposer executes in situation "casting": no sort (CastBlock sorted the list
//
//	before), and before each transaction it looks at the node clock and stops when 3 s are used up; the
//	list Execute RETURNS is the block body it publishes together with the root it computed. A verifier
//	executes that published list ("fullverify", no clock). Both must obtain the same root, receipts,
//	receipts tree and reward/refund store - whatever the proposer's clock did. The clock is moved 4 s
//	ahead from inside the k-th BLOCKHASH lookup of the block (the contract the harness deploys performs
//	one per call), for every k: the budget expires during every contract call of the list, so that the
//	proposer gives up at every transaction that follows one.
//
// L8  blocks executing concurrently in one process (the cast block runs on its own goroutine since
//
//	proposal 020 while others are verified). Block A alone vs A while another goroutine executes block B
//	over and over (own state object, own executor context); yields are injected from the BLOCKHASH
//	callback on both sides. A's outcome must be that of the solo run.
package main

import (
	"encoding/json"
	"fmt"
	"runtime"
	"sort"
	"sync/atomic"
	"time"

	"com.tuntun.rangers/node/src/middleware/types"
	"com.tuntun.rangers/node/src/utility"
	"verif/harness/hx"
)

func callTx(r *hx.Rng, value string) txDesc {
	cd, _ := json.Marshal(types.ContractData{GasLimit: "3000000", TransferValue: value, AbiData: ""})
	return txDesc{Type: types.TransactionTypeContract, Source: addrHex(addr(1 + r.Intn(8))), Target: addrHex(deployed), Data: string(cd)}
}

// sortedCase: the list in the order sort.Sort(types.Transactions) gives it (what CastBlock hands to the
// casting executor). RequestIds are distinct, so the order is the generation order.
func sortedCase(bc blockCase) blockCase {
	txs := make([]*types.Transaction, len(bc.Txs))
	idx := map[string]int{}
	for i, d := range bc.Txs {
		txs[i] = d.tx()
		idx[txs[i].Hash.Hex()] = i
	}
	sort.Sort(types.Transactions(txs))
	var out blockCase
	for _, t := range txs {
		out.Txs = append(out.Txs, bc.Txs[idx[t.Hash.Hex()]])
	}
	return out
}

func castSearch(a hx.Args, rng *hx.Rng, res *hx.Result, n int) {
	if n < 8 {
		n = 8
	}
	if n > 300 {
		n = 300
	}
	defer utility.VerifResetClock()
	for i := 0; i < n; i++ {
		// a list in which contract calls (the points where the clock can be moved) precede transactions of every type
		base := genBlock(rng)
		var bc blockCase
		for _, d := range base.Txs {
			if rng.Intn(3) != 0 {
				bc.Txs = append(bc.Txs, callTx(rng, []string{"0", "0.25"}[rng.Intn(2)]))
			}
			bc.Txs = append(bc.Txs, d)
		}
		bc.Txs = append(bc.Txs, callTx(rng, "0"), genBlock(rng).Txs[0])
		for j := range bc.Txs {
			bc.Txs[j].RequestId = uint64(100 + j)
			bc.Txs[j].Nonce = uint64(j) // the hash does not cover the RequestId: keep the hashes distinct
		}
		bc = sortedCase(bc)

		// dry run: how many BLOCKHASH lookups does the whole list perform
		dry := &ctlChain{}
		if _, _, pan := runBlockX(blockWorld, bc, blockHeight, "casting", dry); pan != nil {
			res.Violate("C01/panic:block", fmt.Sprint(pan), bc)
			continue
		}
		for k := 0; k <= dry.calls; k++ {
			utility.VerifResetClock()
			chain := &ctlChain{}
			kk := k
			chain.onHash = func(call int) {
				if call == kk {
					utility.VerifAdvanceClock(4 * time.Second) // this contract call "took" 4 s
				}
			}
			co, packed, pan := runBlockX(blockWorld, bc, blockHeight, "casting", chain)
			utility.VerifResetClock()
			if pan != nil {
				res.Violate("C01/panic:block", fmt.Sprint(pan), bc)
				continue
			}
			// the published block: the returned list, same header, same parent state
			var pub blockCase
			byHash := map[string]txDesc{}
			for _, d := range bc.Txs {
				byHash[d.tx().Hash.Hex()] = d
			}
			for _, t := range packed {
				pub.Txs = append(pub.Txs, byHash[t.Hash.Hex()])
			}
			vo, _, pan := runBlockX(blockWorld, pub, blockHeight, "fullverify", &ctlChain{})
			if pan != nil {
				res.Violate("C01/panic:block", fmt.Sprint(pan), pub)
				continue
			}
			class := "cast:all-packed"
			if len(packed) < len(bc.Txs) {
				class = fmt.Sprintf("cast:gave-up-at-type-%d", bc.Txs[len(packed)].Type)
			}
			if k > 0 && len(packed) == len(bc.Txs) && k < dry.calls {
				class = "cast:clock-moved-but-all-packed"
			}
			if d := diffFields(co, vo); d != "" {
				class = "cast-VERIFY-DISAGREE"
				res.Violate("C01/wall-clock:cast-vs-verify",
					fmt.Sprintf("the proposer (situation casting, clock moved 4 s ahead during BLOCKHASH lookup %d of %d) packed %d of %d transactions; a verifier executing the packed list on the same parent state with the same header obtains a different %s; proposer: %s  VS  verifier: %s",
						k, dry.calls, len(packed), len(bc.Txs), d, co.digest(), vo.digest()),
					map[string]interface{}{"pooled": bc, "clockMovedAtBlockhashLookup": k, "published": pub})
			}
			bj, _ := json.Marshal(map[string]interface{}{"b": bc, "k": k})
			res.Count(class, string(bj), len(packed) < len(bc.Txs))
			if i == 0 && k == 1 {
				res.Sample(map[string]interface{}{"site": "cast-vs-verify", "pooled": len(bc.Txs), "packed": len(packed), "root": co.Root, "verifierRoot": vo.Root})
			}
		}
	}
}

func contractBlock(r *hx.Rng, n int, tag int) blockCase {
	var bc blockCase
	for i := 0; i < n; i++ {
		var d txDesc
		switch r.Intn(4) {
		case 0: // creation with its own init code (stores a tag)
			code := fmt.Sprintf("60%02x60%02x55", (tag*16+i)%256, i%8) + initCode()
			cd, _ := json.Marshal(types.ContractData{GasLimit: "3000000", TransferValue: "0", AbiData: "0x" + code})
			d = txDesc{Type: types.TransactionTypeContract, Source: addrHex(addr(1 + r.Intn(8))), Data: string(cd)}
		case 1: // pre-check fails after decoding: gas limit the sender cannot pay for
			cd, _ := json.Marshal(types.ContractData{GasLimit: "900000000000000", TransferValue: "0", AbiData: "0x00"})
			d = txDesc{Type: types.TransactionTypeContract, Source: addrHex(addr(1 + r.Intn(8))), Data: string(cd)}
		default:
			d = callTx(r, []string{"0", "0.125", "0.5", "1"}[r.Intn(4)])
		}
		d.RequestId = uint64(tag*1000 + i + 1)
		d.Nonce = uint64(i)
		bc.Txs = append(bc.Txs, d)
	}
	return bc
}

func concurrencySearch(a hx.Args, rng *hx.Rng, res *hx.Result) {
	pairs, rounds := 6, 40
	if a.Tier == "thorough" {
		pairs, rounds = 30, 150
	}
	yield := func(int) { runtime.Gosched() }
	for p := 0; p < pairs; p++ {
		A := contractBlock(rng, 4+rng.Intn(5), 1)
		if rng.Intn(2) == 0 {
			A.Txs = append(A.Txs, genBlock(rng).Txs...)
		}
		B := contractBlock(rng, 6+rng.Intn(6), 2)
		solo, _, pan := runBlockX(blockWorld, A, blockHeight, "fullverify", &ctlChain{})
		if pan != nil {
			res.Violate("C01/panic:block", fmt.Sprint(pan), A)
			continue
		}
		var stop int32
		done := make(chan interface{}, 1)
		go func() {
			var last interface{}
			for atomic.LoadInt32(&stop) == 0 {
				sit := "casting" // the cast block is the one on its own goroutine
				if _, _, pan := runBlockX(blockWorld, B, blockHeight, sit, &ctlChain{onHash: yield}); pan != nil {
					last = pan
				}
			}
			done <- last
		}()
		differ := 0
		var first blockOutcome
		for r := 0; r < rounds; r++ {
			o, _, pan := runBlockX(blockWorld, A, blockHeight, "fullverify", &ctlChain{onHash: yield})
			if pan != nil {
				res.Violate("C01/panic:block-concurrent", fmt.Sprint(pan), map[string]interface{}{"A": A, "B": B})
				continue
			}
			if d := diffFields(solo, o); d != "" {
				if differ == 0 {
					first = o
				}
				differ++
			}
		}
		atomic.StoreInt32(&stop, 1)
		if pan := <-done; pan != nil {
			res.Violate("C01/panic:block-concurrent", fmt.Sprint(pan), map[string]interface{}{"A": A, "B": B})
		}
		class := "concurrent:same-as-solo"
		if differ > 0 {
			class = "concurrent-INTERFERENCE"
			res.Violate("C01/concurrency:blocks-interfere",
				fmt.Sprintf("block A executed while another goroutine executes block B (own state object, own context) gave a different %s than A alone in %d of %d rounds; alone: %s  VS  concurrent: %s",
					diffFields(solo, first), differ, rounds, solo.digest(), first.digest()),
				map[string]interface{}{"A": A, "B": B, "height": blockHeight})
		}
		bj, _ := json.Marshal(map[string]interface{}{"A": A, "B": B})
		res.Count(class, string(bj), true)
	}
	res.Note(fmt.Sprintf("concurrency search: %d block pairs, %d rounds each, GOMAXPROCS=%d", pairs, rounds, runtime.GOMAXPROCS(0)))
}
