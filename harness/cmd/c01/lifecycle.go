// C01 harness, part L12: process life cycle. Replica A is the process that created the chain (first
// start: the real initBlockChain -> insertGenesisBlock builds the genesis state in-process) and then
// executes block B on the genesis root; replica B is a freshly started process that opens the same
// database directory (restart, or a node that did not build genesis itself) and executes the same B on the
// same root. Both are child processes of this binary running the same code; only the life cycle differs.
// B holds native-coin transfers from the accounts genesis funds, balance-reading contract calls and miner
// transactions. Any difference: C01/process-life-cycle:first-start-vs-restart.
package main

import (
	"encoding/json"
	"fmt"
	"math/big"
	"os"
	"os/exec"
	"path/filepath"

	"com.tuntun.rangers/node/src/common"
	"com.tuntun.rangers/node/src/core"
	"com.tuntun.rangers/node/src/executor"
	"com.tuntun.rangers/node/src/middleware"
	"com.tuntun.rangers/node/src/middleware/types"
	"com.tuntun.rangers/node/src/service"
	"com.tuntun.rangers/node/src/vm"
	"verif/harness/hx"
)

// consensus helper stub: no genesis group, every signature/VRF check accepts
type lcHelper struct{}

func (lcHelper) GenerateGenesisInfo() []*types.GenesisInfo       { return nil }
func (lcHelper) VRFProve2Value(p *big.Int) *big.Int              { return p }
func (lcHelper) ProposalBonus() *big.Int                         { return big.NewInt(0) }
func (lcHelper) PackBonus() *big.Int                             { return big.NewInt(0) }
func (lcHelper) VerifyHash(b *types.Block) common.Hash           { return b.Header.Hash }
func (lcHelper) CheckProveRoot(*types.BlockHeader) (bool, error) { return true, nil }
func (lcHelper) VerifyNewBlock(*types.BlockHeader, *types.BlockHeader) (bool, error) {
	return true, nil
}
func (lcHelper) VerifyBlockHeader(*types.BlockHeader) (bool, error)        { return true, nil }
func (lcHelper) VerifyGroupSign([]byte, common.Hash, []byte) (bool, error) { return true, nil }
func (lcHelper) CheckGroup(*types.Group) (bool, error)                     { return true, nil }
func (lcHelper) VerifyMemberInfo(*types.BlockHeader, *types.BlockHeader) (bool, error) {
	return true, nil
}
func (lcHelper) VerifyGroupForFork(*types.Group, *types.Group, *types.Group, *types.Block) (bool, error) {
	return true, nil
}

type lcJob struct {
	Blocks []blockCase `json:"blocks"`
	Out    string      `json:"out"`
}

type lcResult struct {
	FirstStart  bool           `json:"firstStart"`
	GenesisRoot string         `json:"genesisRoot"`
	Outcomes    []blockOutcome `json:"outcomes"`
}

const lcGenesisFunded = "0x7edd0ef9da9cec334a7887966cc8dd71d590eeb7" // gets 2 units in the dev genesis

// lifecycleMain: start the node's chain in the working directory (creating genesis if the directory is
// new), execute the blocks at height 1 on the genesis state.
func lifecycleMain(jobFile string) {
	b, err := os.ReadFile(jobFile)
	must(err)
	var job lcJob
	must(json.Unmarshal(b, &job))
	_, statErr := os.Stat("storage0")
	common.Init(0, "p.ini", "dev")
	common.LocalChainConfig.Proposal026Block = 1 << 60 // the dev genesis contracts do not fit the 30x gas of proposal 026 at height 0
	common.SetBlockHeight(0)
	middleware.InitMiddleware()
	service.InitService()
	chain := stubChain{group: &types.Group{Id: groupId, Members: validatorIds}}
	service.InitRefundManager(chain, chain)
	service.InitRewardCalculator(chain, chain, chain)
	vm.InitVM()
	executor.InitExecutors()
	must(core.VerifBCInit(lcHelper{}))
	top := core.GetBlockChain().TopBlock()
	res := lcResult{FirstStart: os.IsNotExist(statErr), GenesisRoot: top.StateTree.Hex()}
	for _, bc := range job.Blocks {
		o := func() (o blockOutcome) {
			defer func() {
				if p := recover(); p != nil {
					o.Root = "panic: " + fmt.Sprint(p)
				}
			}()
			common.SetBlockHeight(0)
			adb, err := middleware.AccountDBManagerInstance.GetAccountDBByHash(top.StateTree)
			must(err)
			txs := make([]*types.Transaction, len(bc.Txs))
			for i, d := range bc.Txs {
				txs[i] = d.tx()
			}
			hd := headerAt(1)
			hd.GroupId = nil // no verify group on this chain: the reward stage returns before it needs one
			root, evicted, executed, receipts := core.VerifC01ExecuteBlockWithChain(adb, &types.Block{Header: hd, Transactions: txs}, "fullverify", &ctlChain{})
			o.Root = root.Hex()
			for _, e := range evicted {
				o.Evicted = append(o.Evicted, e.Hex())
			}
			for i, rc := range receipts {
				lj, _ := json.Marshal(rc.Logs)
				o.Receipts = append(o.Receipts, fmt.Sprintf("%s|%d|%s|gas=%d|%s|%s", rc.TxHash.Hex(), rc.Status, rc.Msg, rc.GasUsed, rc.ContractAddress.GetHexString(), lj))
				o.TypesOf = append(o.TypesOf, executed[i].Type)
			}
			o.ReceiptsTree = core.VerifC01ReceiptsTree(receipts).Hex()
			o.CommitRoot = o.Root
			return
		}()
		res.Outcomes = append(res.Outcomes, o)
	}
	ob, _ := json.Marshal(res)
	must(os.WriteFile(job.Out, ob, 0644))
}

func runLifecycle(dir string, blocks []blockCase, tag string) (*lcResult, error) {
	exe, err := os.Executable()
	if err != nil {
		return nil, err
	}
	job := lcJob{Blocks: blocks, Out: filepath.Join(dir, "out-"+tag+".json")}
	jb, _ := json.Marshal(job)
	jf := filepath.Join(dir, "job-"+tag+".json")
	if err := os.WriteFile(jf, jb, 0644); err != nil {
		return nil, err
	}
	cmd := exec.Command(exe)
	cmd.Dir = dir
	cmd.Env = append(os.Environ(), "C01_LIFECYCLE_JOB="+jf)
	if out, err := cmd.CombinedOutput(); err != nil {
		tail := string(out)
		if len(tail) > 800 {
			tail = tail[len(tail)-800:]
		}
		return nil, fmt.Errorf("%v: %s", err, tail)
	}
	ob, err := os.ReadFile(job.Out)
	if err != nil {
		return nil, err
	}
	var r lcResult
	if err := json.Unmarshal(ob, &r); err != nil {
		return nil, err
	}
	return &r, nil
}

func lifecycleSearch(a hx.Args, rng *hx.Rng, res *hx.Result) {
	n := 12
	if a.Tier == "thorough" {
		n = 60
	}
	var blocks []blockCase
	for i := 0; i < n; i++ {
		var bc blockCase
		// native-coin transfers from the account genesis funds (every transaction also pays its fee from the balance)
		k := 1 + rng.Intn(3)
		for j := 0; j < k; j++ {
			amt := []string{"0.1", "0.5", "0", "1.5", "3"}[rng.Intn(5)]
			extra := fmt.Sprintf(`{%q:{"balance":%q},%q:{"balance":"0.01"}}`, addrHex(addr(40+rng.Intn(4))), amt, addrHex(addr(50+rng.Intn(2))))
			bc.Txs = append(bc.Txs, txDesc{Type: types.TransactionTypeOperatorEvent, Source: lcGenesisFunded, ExtraData: extra})
		}
		if rng.Intn(2) == 0 { // an unfunded sender: fee cannot be paid
			bc.Txs = append(bc.Txs, txDesc{Type: types.TransactionTypeOperatorEvent, Source: addrHex(addr(60)), ExtraData: `{"0x01":{"balance":"1"}}`})
		}
		if rng.Intn(2) == 0 { // contract creation paid from the funded account
			cd, _ := json.Marshal(types.ContractData{GasLimit: "3000000", TransferValue: []string{"0", "0.2"}[rng.Intn(2)], AbiData: "0x" + initCode()})
			bc.Txs = append(bc.Txs, txDesc{Type: types.TransactionTypeContract, Source: lcGenesisFunded, Data: string(cd)})
		}
		for j := range bc.Txs {
			bc.Txs[j].RequestId = uint64(900 + j)
			bc.Txs[j].Nonce = uint64(j)
		}
		blocks = append(blocks, bc)
	}
	dir, err := filepath.Abs("lifecycle-node")
	if err == nil {
		os.RemoveAll(dir)
		err = os.MkdirAll(dir, 0755)
	}
	if err != nil {
		res.Violate("C01/harness:life-cycle-replica-failed", err.Error(), nil)
		return
	}
	defer os.RemoveAll(dir)
	first, err1 := runLifecycle(dir, blocks, "first")
	var restart *lcResult
	var err2 error
	if err1 == nil {
		restart, err2 = runLifecycle(dir, blocks, "restart")
	}
	if err1 != nil || err2 != nil || !first.FirstStart || restart.FirstStart || len(first.Outcomes) != n || len(restart.Outcomes) != n {
		res.Violate("C01/harness:life-cycle-replica-failed", fmt.Sprintf("first start: %v, restart: %v", err1, err2), nil)
		return
	}
	if first.GenesisRoot != restart.GenesisRoot {
		res.Violate("C01/process-life-cycle:first-start-vs-restart", "the restarted process reports another genesis state root: "+first.GenesisRoot+" vs "+restart.GenesisRoot, nil)
	}
	okRc := 0
	for i := range blocks {
		class := "life-cycle:same-outcome"
		if d := diffFields(first.Outcomes[i], restart.Outcomes[i]); d != "" {
			class = "life-cycle-DEPENDENT"
			res.Violate("C01/process-life-cycle:first-start-vs-restart",
				fmt.Sprintf("the same block on the genesis state (root %s) gives a different %s in the process that created the chain than in a restarted process on the same database; first start: %s  VS  restart: %s",
					first.GenesisRoot, d, first.Outcomes[i].digest(), restart.Outcomes[i].digest()),
				map[string]interface{}{"block": blocks[i], "height": 1, "parent": "dev genesis built by initBlockChain"})
		}
		for _, rc := range first.Outcomes[i].Receipts {
			if len(rc) > 69 && rc[67:68] == "1" {
				okRc++
			}
		}
		bj, _ := json.Marshal(blocks[i])
		res.Count(class, "lc|"+string(bj), true)
	}
	res.Histogram["life-cycle:successful-receipts"] = okRc
	res.Note(fmt.Sprintf("process life cycle: %d blocks on the dev genesis state, executed by the process that created the chain and by a restarted process on the same directory (genesis root %s)", n, first.GenesisRoot))
}
