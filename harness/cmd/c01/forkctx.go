// C01 harness, part L9: the chain contexts BLOCKHASH is answered from.
//
// Situations "fullverify"/"casting" ask the main chain (height index), situation "fork" asks the sync
// processor: the fork DB of the running sync session first, the main chain second. The answers must be
// the canonical ancestors of the block being executed, whatever sync sessions this node went through
// before. A block B with ancestor chain C (heights 1..119) is executed
//
//	X: "fullverify" on a node whose main chain is C;
//	Y: "fork" on a node whose main chain is M (= C up to the common ancestor a2), after one or two earlier
//	   sync sessions that received blocks of other branches and were torn down (finishCurrentSync), in a
//	   session with common ancestor a2 that received C above a2.
//
// B calls a contract that folds BLOCKHASH over the whole window into storage. X must store the fold of
// C's hashes (computed here) and Y must give X's outcome.
package main

import (
	"encoding/json"
	"fmt"
	"math/big"
	"time"

	"com.tuntun.rangers/node/src/common"
	"com.tuntun.rangers/node/src/core"
	"com.tuntun.rangers/node/src/middleware/types"
	"verif/harness/hx"
)

func ctxHeader(tag string, height uint64, pre common.Hash) *types.BlockHeader {
	t0 := time.Unix(1700000000+int64(height), 0).UTC()
	h := &types.BlockHeader{Height: height, PreHash: pre, PreTime: t0.Add(-time.Second), CurTime: t0, TotalQN: height, Castor: proposerIds[0], GroupId: groupId}
	h.Hash = common.BytesToHash(common.Sha256([]byte(fmt.Sprintf("%s-%d", tag, height))))
	return h
}

func runReal(bc blockCase, situation string) (o blockOutcome, slot string, panicked interface{}) {
	defer func() {
		if p := recover(); p != nil {
			panicked = fmt.Sprint(p)
		}
	}()
	common.SetBlockHeight(blockHeight - 1)
	adb := blockWorld.fresh()
	txs := make([]*types.Transaction, len(bc.Txs))
	for i, d := range bc.Txs {
		txs[i] = d.tx()
	}
	block := &types.Block{Header: headerAt(blockHeight), Transactions: txs}
	root, evicted, executed, receipts := core.VerifC01ExecuteBlock(adb, block, situation) // the node's own chain context
	o.Root = root.Hex()
	for _, e := range evicted {
		o.Evicted = append(o.Evicted, e.Hex())
	}
	for i, rc := range receipts {
		lj, _ := json.Marshal(rc.Logs)
		o.Receipts = append(o.Receipts, fmt.Sprintf("%s|%d|%s|gas=%d|%s|%s", rc.TxHash.Hex(), rc.Status, rc.Msg, rc.GasUsed, rc.ContractAddress.GetHexString(), lj))
		o.TypesOf = append(o.TypesOf, executed[i].Type)
	}
	o.ReceiptsTree = core.VerifC01ReceiptsTree(receipts).Hex()
	o.CommitRoot = o.Root
	slot = common.ToHex(adb.GetData(deployedWin, common.BigToHash(big.NewInt(2)).Bytes()))
	return
}

func forkContextSearch(a hx.Args, rng *hx.Rng, res *hx.Result) {
	n := 12
	if a.Tier == "thorough" {
		n = 120
	}
	if err := core.VerifC01ChainInit(); err != nil {
		res.Violate("C01/harness:chain-context-init", err.Error(), nil)
		return
	}
	const top = blockHeight - 1
	main := map[uint64]*types.BlockHeader{}
	pre := common.Hash{}
	for h := uint64(1); h <= top; h++ {
		main[h] = ctxHeader("main", h, pre)
		pre = main[h].Hash
	}
	setMain := func(c map[uint64]*types.BlockHeader) {
		for h := uint64(1); h <= top; h++ {
			must(core.VerifC01ChainSetHeader(c[h]))
		}
	}
	fold := func(c map[uint64]*types.BlockHeader) string {
		acc := new(big.Int)
		for h := uint64(1); h <= top; h++ {
			acc.Xor(acc, new(big.Int).SetBytes(c[h].Hash.Bytes()))
		}
		return common.ToHex(common.BigToHash(acc).Bytes())
	}
	winCall := func() txDesc {
		cd, _ := json.Marshal(types.ContractData{GasLimit: "3000000", TransferValue: "0", AbiData: ""})
		return txDesc{Type: types.TransactionTypeContract, Source: addrHex(addr(1 + rng.Intn(8))), Target: addrHex(deployedWin), Data: string(cd)}
	}
	for i := 0; i < n; i++ {
		B := blockCase{Txs: []txDesc{winCall()}}
		if rng.Intn(2) == 0 {
			B.Txs = append(B.Txs, genBlock(rng).Txs...)
		}
		for j := range B.Txs {
			B.Txs[j].RequestId = uint64(300 + j)
			B.Txs[j].Nonce = uint64(j)
		}
		// ---- node Y: main chain M, earlier sessions, the current session
		setMain(main)
		type sess struct {
			Ancestor uint64 `json:"commonAncestor"`
			Blocks   int    `json:"blocksReceived"`
		}
		var story []sess
		for s := 0; s < 1+rng.Intn(2); s++ {
			a1 := uint64(60 + rng.Intn(56))
			k := 1 + rng.Intn(3)
			if !core.VerifC01ForkBegin(a1) {
				res.Violate("C01/harness:chain-context-init", "fork session could not start", a1)
				return
			}
			p := main[a1].Hash
			for j := 1; j <= k && a1+uint64(j) <= top; j++ {
				h := ctxHeader(fmt.Sprintf("abandoned-%d-%d", i, s), a1+uint64(j), p)
				must(core.VerifC01ForkInsert(&types.Block{Header: h}))
				p = h.Hash
			}
			core.VerifC01ForkFinish()
			story = append(story, sess{a1, k})
		}
		a2 := uint64(top)
		if rng.Intn(2) == 0 {
			a2 = uint64(70 + rng.Intn(50))
		}
		C := map[uint64]*types.BlockHeader{}
		for h := uint64(1); h <= top; h++ {
			C[h] = main[h]
		}
		core.VerifC01ForkBegin(a2)
		p := main[a2].Hash
		for h := a2 + 1; h <= top; h++ {
			C[h] = ctxHeader(fmt.Sprintf("branch-%d", i), h, p)
			must(core.VerifC01ForkInsert(&types.Block{Header: C[h]}))
			p = C[h].Hash
		}
		story = append(story, sess{a2, int(top - a2)})
		oy, sloty, pan := runReal(B, "fork")
		core.VerifC01ForkFinish()
		if pan != nil {
			res.Violate("C01/panic:block-fork", fmt.Sprint(pan), B)
			continue
		}
		// ---- node X: main chain C, no sync session
		setMain(C)
		ox, slotx, pan := runReal(B, "fullverify")
		if pan != nil {
			res.Violate("C01/panic:block", fmt.Sprint(pan), B)
			continue
		}
		input := map[string]interface{}{"block": B, "height": blockHeight, "syncSessions(last one running)": story}
		class := "chain-context:agree"
		if want := fold(C); slotx != want {
			class = "chain-context-MAIN-WRONG"
			res.Violate("C01/chain-context:main", fmt.Sprintf("fullverify: the contract folded BLOCKHASH over heights 1..%d to %s, the block's ancestors give %s", top, slotx, want), input)
		}
		if d := diffFields(ox, oy); d != "" || slotx != sloty {
			class = "chain-context-FORK-DISAGREES"
			res.Violate("C01/chain-context:fork-vs-verify",
				fmt.Sprintf("the same block on the same parent state executed during fork sync (after earlier, torn-down sync sessions) gives a different %s than on a node that verifies it on top of the same ancestors; BLOCKHASH fold %s vs %s; verify: %s  VS  fork: %s",
					d, slotx, sloty, ox.digest(), oy.digest()), input)
		}
		bj, _ := json.Marshal(input)
		res.Count(class, string(bj), true)
		if i == 0 {
			res.Sample(map[string]interface{}{"site": "chain-context", "sessions": story, "blockhashFold": slotx, "root": ox.Root})
		}
	}
	res.Note(fmt.Sprintf("chain contexts: %d blocks executed as fork (real sync processor + fork DB, after 1-2 abandoned sessions) and as fullverify (real main chain height index) with a contract folding BLOCKHASH over the whole window", n))
}
