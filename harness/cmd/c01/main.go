// C01 harness: block execution is replica-deterministic.
//
//  0. regenerates the nondeterminism inventory from the sources under test (verif/harness/c01inv) and
//     writes cases_gen.v: `mismatches` = inventory sites that coq/C01/Covered.v does not account for;
//  1. differential repetition — the search: the same input is executed N times (8 quick, 64 thorough),
//     every time on a fresh AccountDB (and fresh trie cache) over the same committed store; Go
//     re-randomises every map iteration; any two runs that differ are a violation, replayed with the input:
//     L1 service.ChangeAssets on user-supplied JSON target maps (self transfers, aliases by letter case /
//     prefix / padding, zero amounts, sums just above/below the balance, unparsable amounts),
//     L2 whole blocks through the real VMExecutor.Execute in "fullverify" mode (transfers, miner
//     apply/add/refund, contract create/call; after(): refund escrow, reward maps, pay-out),
//     L3 sort.Sort(types.Transactions) on shuffles of admissible lists,
//     L4 RefundManager.Add / CheckAndMove on multi-height data,
//     L5 the sub-chain reward call data (VMExecutor.generateCode);
//  2. model cases: change_assets_fixed / sort_txs / refund_add / check_and_move evaluated by Coq on the
//     same inputs against what the implementation did.
package main

import (
	"bytes"
	"encoding/hex"
	"encoding/json"
	"fmt"
	"math/big"
	"os"
	"path/filepath"
	"runtime/debug"
	"sort"
	"strconv"
	"strings"
	"time"

	"com.tuntun.rangers/node/src/common"
	"com.tuntun.rangers/node/src/core"
	"com.tuntun.rangers/node/src/executor"
	"com.tuntun.rangers/node/src/middleware"
	"com.tuntun.rangers/node/src/middleware/db"
	"com.tuntun.rangers/node/src/middleware/types"
	"com.tuntun.rangers/node/src/service"
	"com.tuntun.rangers/node/src/storage/account"
	"com.tuntun.rangers/node/src/utility"
	"com.tuntun.rangers/node/src/vm"
	"verif/harness/c01inv"
	"verif/harness/hx"
)

// ---------------------------------------------------------------------------------------------
// node boot and worlds

type stubChain struct{ group *types.Group }

func (stubChain) GetBlockHash(h uint64) common.Hash {
	return common.BytesToHash(common.Sha256([]byte("blk" + strconv.FormatUint(h, 10))))
}
func (stubChain) QueryBlockHeaderByHeight(height interface{}, cache bool) *types.BlockHeader {
	return nil
}
func (stubChain) GetAvailableGroupsByMinerId(height uint64, minerId []byte) []*types.Group {
	return nil
}
func (s stubChain) GetGroupById(id []byte) *types.Group           { return s.group }
func (stubChain) GetBlockHeader(height uint64) *types.BlockHeader { return nil }

var tokenContract = common.HexToAddress("0x71d9cfd1b7adb1e8eb4c193ce6ffbe19b4aee0db")

const blockHeight = 120 // < GetRewardBlocks(): calcDifficulty stays on the state-only path

var (
	proposerIds  = [][]byte{idOf(0x51), idOf(0x52), idOf(0x53)}
	validatorIds = [][]byte{idOf(0x61), idOf(0x62), idOf(0x63), idOf(0x64)}
	groupId      = []byte{0x9, 0x9, 0x9}
)

func idOf(b byte) []byte {
	id := make([]byte, 32)
	for i := range id {
		id[i] = b
	}
	return id
}

func boot() {
	common.Init(0, "p.ini", "dev")
	common.SetBlockHeight(blockHeight - 1)
	middleware.InitMiddleware()
	service.InitService()
	chain := stubChain{group: &types.Group{Id: groupId, Members: validatorIds}}
	service.InitRefundManager(chain, chain)
	service.InitRewardCalculator(chain, chain, chain)
	vm.InitVM()
	executor.InitExecutors()
	core.VerifC01InitLoggers()
}

type world struct {
	disk db.Database
	root common.Hash
}

func must(err error) {
	if err != nil {
		panic(err)
	}
}

func addr(i int) common.Address {
	var a common.Address
	a[0] = 0xC1
	a[9] = 0xab // gives the hex form letters, so that letter-case variants exist
	a[18] = byte(i >> 8)
	a[19] = byte(i)
	return a
}
func addrHex(a common.Address) string { return "0x" + hex.EncodeToString(a[:]) }

func tokens(s string) *big.Int {
	v, err := utility.StrToBigInt(s)
	must(err)
	return v
}

// newWorld builds a committed parent state: token binding, funded accounts, miners, a due escrow.
func newWorld(balances map[common.Address]*big.Int, withMiners bool) *world {
	return newWorldStakes(balances, withMiners, 0)
}

// newWorldStakes: variant > 0 gives the proposers and validators other stakes (a different parent state
// for sibling blocks of the history-dependence search).
func newWorldStakes(balances map[common.Address]*big.Int, withMiners bool, variant int) *world {
	disk, err := db.NewMemDatabase()
	must(err)
	tdb := account.NewDatabase(disk)
	adb, err := account.NewAccountDB(common.Hash{}, tdb)
	must(err)
	adb.AddERC20Binding(common.BLANCE_NAME, tokenContract, 3, 18)
	adb.GetBalance(common.FeeAccount) // loads the process-global binding cache
	keys := make([]common.Address, 0, len(balances))
	for a := range balances {
		keys = append(keys, a)
	}
	sort.Slice(keys, func(i, j int) bool { return bytes.Compare(keys[i][:], keys[j][:]) < 0 })
	for _, a := range keys {
		adb.SetBalance(a, balances[a])
	}
	if withMiners {
		for i, id := range proposerIds {
			m := &types.Miner{Id: id, PublicKey: []byte{1, byte(i)}, VrfPublicKey: []byte{2, byte(i)}, Type: common.MinerTypeProposer,
				Stake: common.ProposerStake * uint64((i+variant)%3+1+variant), Status: common.MinerStatusNormal, Account: addr(100 + i).Bytes()}
			service.MinerManagerImpl.InsertMiner(m, adb)
		}
		for i, id := range validatorIds {
			m := &types.Miner{Id: id, PublicKey: []byte{3, byte(i)}, VrfPublicKey: []byte{4, byte(i)}, Type: common.MinerTypeValidator,
				Stake: common.ValidatorStake * uint64((i+2*variant)%4+1), Status: common.MinerStatusNormal, Account: addr(110 + i).Bytes()}
			service.MinerManagerImpl.InsertMiner(m, adb)
		}
		// escrow falling due at blockHeight: CheckAndMove ranges over it
		due := types.RefundInfoList{}
		for i := 0; i < 6; i++ {
			due.AddRefundInfo(addr(120+i).Bytes(), big.NewInt(int64(1000+i)))
		}
		service.RefundManagerImpl.Add(map[uint64]types.RefundInfoList{blockHeight: due}, adb)
	}
	adb.IntermediateRoot(true)
	root, err := adb.Commit(true)
	must(err)
	must(tdb.TrieDB().Commit(root, false))
	return &world{disk: disk, root: root}
}

// fresh: a new AccountDB and a new trie-node cache over the same committed store.
func (w *world) fresh() *account.AccountDB {
	adb, err := account.NewAccountDB(w.root, account.NewDatabase(w.disk))
	must(err)
	return adb
}

func refundAddress(height uint64) common.Address {
	return common.BytesToAddress(common.Sha256(utility.StrToBytes("refund" + strconv.FormatUint(height, 10))))
}

// ---------------------------------------------------------------------------------------------
// L1: ChangeAssets

type caCase struct {
	Source  string            `json:"source"`
	Balance string            `json:"balance"`
	Extra   string            `json:"extraData"`
	Others  map[string]string `json:"otherBalances,omitempty"`
}

type caOutcome struct {
	Ok     bool
	Msg    string
	Root   string
	Finals []string // balances of the involved addresses, success only
	Left   string   // Coq option Z: the sender balance the response names
}

// leftOf parses the response of a successful ChangeAssets: {"balance":"<units>"} or {}.
func leftOf(msg string) string {
	var m map[string]interface{}
	if json.Unmarshal([]byte(msg), &m) != nil {
		return "None"
	}
	b, ok := m["balance"].(string)
	if !ok {
		return "None"
	}
	v, err := utility.StrToBigInt(b)
	if err != nil {
		return "None"
	}
	return "Some " + zLit(v)
}

func caseVariants(r *hx.Rng, a common.Address) string {
	h := hex.EncodeToString(a[:])
	switch r.Intn(6) {
	case 0:
		return "0x" + h
	case 1:
		return "0x" + strings.ToUpper(h)
	case 2:
		return "0X" + h
	case 3:
		return h // no prefix
	case 4: // mixed case
		b := []byte(h)
		for i := range b {
			if r.Bool() {
				b[i] = byte(strings.ToUpper(string(b[i]))[0])
			}
		}
		return "0x" + string(b)
	default:
		return "0x00" + h // longer than 20 bytes: BytesToAddress keeps the last 20
	}
}

func fmtAmount(v *big.Int) string { // decimal string of v/1e18, exact
	neg := v.Sign() < 0
	s := new(big.Int).Abs(v).String()
	for len(s) < 19 {
		s = "0" + s
	}
	out := s[:len(s)-18] + "." + s[len(s)-18:]
	out = strings.TrimRight(strings.TrimRight(out, "0"), ".")
	if neg {
		out = "-" + out
	}
	return out
}

func genCA(r *hx.Rng) caCase {
	src := addr(1 + r.Intn(3))
	balUnits := []string{"10", "7.5", "3", "100", "0.004", "1"}[r.Intn(6)]
	bal := tokens(balUnits)
	k := 1 + r.Intn(6)
	type ent struct{ key, amt string }
	var ents []ent
	used := map[string]bool{}
	selfMode := r.Intn(10) // 0..5: a self/alias entry is present
	// choose amounts: a random split of a total near the balance
	total := new(big.Int).Set(bal)
	switch r.Intn(5) {
	case 0:
		total.Add(total, big.NewInt(1)) // just above
	case 1:
		total.Sub(total, big.NewInt(1)) // just below
	case 2: // exactly
	case 3:
		total.Div(total, big.NewInt(2))
	default:
		total.Mul(total, big.NewInt(3))
		total.Div(total, big.NewInt(2))
	}
	parts := make([]*big.Int, k)
	rest := new(big.Int).Set(total)
	for i := 0; i < k; i++ {
		if i == k-1 {
			parts[i] = new(big.Int).Set(rest)
			break
		}
		if rest.Sign() <= 0 || r.Intn(6) == 0 {
			parts[i] = big.NewInt(0)
			continue
		}
		p := new(big.Int).Div(new(big.Int).Mul(rest, big.NewInt(int64(1+r.Intn(9)))), big.NewInt(10))
		parts[i] = p
		rest.Sub(rest, p)
	}
	for i := 0; i < k; i++ {
		var a common.Address
		switch {
		case i == 0 && selfMode <= 5:
			a = src
		case r.Intn(4) == 0 && i > 0:
			a = common.HexToAddress(ents[r.Intn(len(ents))].key) // alias of an earlier target
		default:
			a = addr(10 + r.Intn(5))
		}
		key := caseVariants(r, a)
		if r.Intn(25) == 0 { // keys that are not addresses: HexToAddress maps them to the zero / a short address
			key = []string{"", "0x", "zz", "0x5", "0X05"}[r.Intn(5)]
		}
		for tries := 0; used[key] && tries < 10; tries++ {
			key = caseVariants(r, a)
		}
		if used[key] {
			continue
		}
		used[key] = true
		amt := fmtAmount(parts[i])
		if selfMode <= 5 && i == 0 && r.Intn(3) == 0 { // the self transfer asks for the whole balance
			amt = balUnits
		}
		switch r.Intn(40) {
		case 0:
			amt = "abc"
		case 1:
			amt = "-1"
		case 2:
			amt = ""
		}
		ents = append(ents, ent{key, amt})
	}
	// JSON text in a seeded random order (the order of keys in the text is irrelevant to a Go map)
	for i := len(ents) - 1; i > 0; i-- {
		j := r.Intn(i + 1)
		ents[i], ents[j] = ents[j], ents[i]
	}
	var sb strings.Builder
	sb.WriteString("{")
	for i, e := range ents {
		if i > 0 {
			sb.WriteString(",")
		}
		fmt.Fprintf(&sb, "%q:{\"balance\":%q}", e.key, e.amt)
	}
	sb.WriteString("}")
	c := caCase{Source: addrHex(src), Balance: balUnits, Extra: sb.String(), Others: map[string]string{}}
	if r.Intn(3) == 0 {
		c.Others[addrHex(addr(10+r.Intn(5)))] = "2.25"
	}
	return c
}

func (c caCase) world() *world {
	b := map[common.Address]*big.Int{common.HexToAddress(c.Source): tokens(c.Balance)}
	for k, v := range c.Others {
		b[common.HexToAddress(k)] = tokens(v)
	}
	return newWorld(b, false)
}

func involved(c caCase, mm map[string]types.TransferData) []common.Address {
	set := map[common.Address]bool{common.HexToAddress(c.Source): true}
	for k := range mm {
		set[common.HexToAddress(k)] = true
	}
	for k := range c.Others {
		set[common.HexToAddress(k)] = true
	}
	res := make([]common.Address, 0, len(set))
	for a := range set {
		res = append(res, a)
	}
	sort.Slice(res, func(i, j int) bool { return bytes.Compare(res[i][:], res[j][:]) < 0 })
	return res
}

func runCA(w *world, c caCase, mm map[string]types.TransferData, inv []common.Address) (o caOutcome, panicked interface{}) {
	defer func() {
		if p := recover(); p != nil {
			panicked = fmt.Sprint(p)
		}
	}()
	adb := w.fresh()
	// a fresh copy of the map for every run (same content; Go randomises each range anyway)
	m2 := make(map[string]types.TransferData, len(mm))
	for k, v := range mm {
		m2[k] = v
	}
	snap := adb.Snapshot()
	msg, ok := service.ChangeAssets(c.Source, m2, adb)
	o.Ok, o.Msg, o.Left = ok, msg, "None"
	if ok {
		o.Left = leftOf(msg)
	}
	if !ok {
		adb.RevertToSnapshot(snap) // what VMExecutor.Execute does with a failed transaction
	}
	for _, a := range inv {
		o.Finals = append(o.Finals, adb.GetBalance(a).String())
	}
	o.Root = adb.IntermediateRoot(true).Hex()
	return
}

// addrN: the model only compares addresses for equality, so an address travels as a small number: every
// address the harness uses is addr(i) (possibly spelled differently); i is injective on them. Anything
// else travels in full. (49-digit literals cost Coq's parser ~1 ms each.)
func addrN(a common.Address) string {
	i := int(a[18])<<8 | int(a[19])
	if a == addr(i) {
		return strconv.Itoa(i) + "%N"
	}
	// anything else (zero address from an unparsable key, short keys): in full, shifted out of the small range
	return new(big.Int).Add(new(big.Int).SetBytes(a[:]), new(big.Int).Lsh(big.NewInt(1), 200)).String() + "%N"
}
func addrFull(a common.Address) string { return new(big.Int).SetBytes(a[:]).String() + "%N" }
func zLit(v *big.Int) string           { return "(" + v.String() + ")%Z" }

// ---------------------------------------------------------------------------------------------
// L2: blocks

type blockCase struct {
	Txs []txDesc `json:"txs"`
}
type txDesc struct {
	Type      int32  `json:"type"`
	Source    string `json:"source"`
	Target    string `json:"target,omitempty"`
	Data      string `json:"data,omitempty"`
	ExtraData string `json:"extraData,omitempty"`
	RequestId uint64 `json:"requestId"`
	Nonce     uint64 `json:"nonce"`
	Signed    bool   `json:"signed,omitempty"`
}

func (d txDesc) tx() *types.Transaction {
	t := &types.Transaction{Type: d.Type, Source: d.Source, Target: d.Target, Data: d.Data, ExtraData: d.ExtraData,
		RequestId: d.RequestId, Nonce: d.Nonce, Time: "2024-01-01"}
	if d.Signed {
		t.Sign = &common.Sign{}
	}
	t.Hash = t.GenHash()
	return t
}

// a tiny contract: runtime increments slot 0, stores the block context the executor hands to the EVM
// (TIMESTAMP ^ NUMBER ^ COINBASE ^ BLOCKHASH(NUMBER-1) ^ GASPRICE ^ ORIGIN -> slot 1, so that any
// replica-local value in the context reaches the state root; one slot because the node charges 30x gas)
// and emits LOG0(0,0). BLOCKHASH calls the executor context's chain: the harness's callback point.
const runtimeCode = "600160005401600055" +
	"42" + "4318" + "4118" + "600143034018" + "3a18" + "3218" + "600155" +
	"60006000a0" + "00"

func initCode() string { return initCodeOf(runtimeCode) }

func initCodeOf(rt string) string {
	n := len(rt) / 2
	return fmt.Sprintf("60%02x600c60003960%02x6000f3", n, n) + rt
}

// windowRuntime: acc = XOR of BLOCKHASH(i) for i = NUMBER-1 down to 0 (every height the 256 window
// reaches at the harness's heights), stored in slot 2:
//
//	PUSH1 0; NUMBER; loop: JUMPDEST; PUSH1 1; SWAP1; SUB; DUP1; BLOCKHASH; SWAP1; SWAP2; XOR; SWAP1;
//	DUP1; PUSH1 loop; JUMPI; POP; PUSH1 2; SSTORE; STOP
const windowRuntime = "6000" + "43" + "5b" + "6001" + "90" + "03" + "80" + "40" + "90" + "91" + "18" + "90" + "80" + "6003" + "57" + "50" + "6002" + "55" + "00"

var deployedWin common.Address

var blockWorld *world
var deployed common.Address

func blockBalances() map[common.Address]*big.Int {
	b := map[common.Address]*big.Int{}
	for i := 1; i <= 8; i++ {
		b[addr(i)] = tokens("10")
	}
	for i := 20; i <= 24; i++ {
		b[addr(i)] = tokens("100000") // miner applicants
	}
	for i := 100; i < 103; i++ {
		b[addr(i)] = tokens("50")
	}
	for i := 110; i < 114; i++ {
		b[addr(i)] = tokens("50")
	}
	return b
}

func header() *types.BlockHeader { return headerAt(blockHeight) }

func headerAt(h uint64) *types.BlockHeader {
	return &types.BlockHeader{Height: h, CurTime: time.Unix(1700000000, 0), Castor: proposerIds[0], GroupId: groupId,
		Hash: common.BytesToHash(common.Sha256([]byte("hdr")))}
}

func genBlock(r *hx.Rng) blockCase {
	n := 1 + r.Intn(5)
	useReq := r.Intn(3) == 0
	var bc blockCase
	nonce := map[string]uint64{}
	for i := 0; i < n; i++ {
		var d txDesc
		switch k := r.Intn(12); {
		case k < 5: // transfer
			c := genCA(r)
			d = txDesc{Type: types.TransactionTypeOperatorEvent, Source: c.Source, ExtraData: c.Extra}
		case k == 5: // miner apply
			src := addr(20 + r.Intn(5))
			typ := byte(common.MinerTypeValidator)
			stake := common.ValidatorStake * uint64(1+r.Intn(3))
			if r.Intn(3) == 0 {
				typ, stake = common.MinerTypeProposer, common.ProposerStake
			}
			m := types.Miner{Id: idOf(byte(0x70 + r.Intn(6))), PublicKey: []byte{9, 9}, VrfPublicKey: []byte{8}, Type: typ, Stake: stake}
			md, _ := json.Marshal(m)
			d = txDesc{Type: types.TransactionTypeMinerApply, Source: addrHex(src), Data: string(md)}
		case k == 6: // miner add stake
			i := r.Intn(len(validatorIds))
			m := types.Miner{Id: validatorIds[i], Stake: uint64(1 + r.Intn(500))}
			md, _ := json.Marshal(m)
			d = txDesc{Type: types.TransactionTypeMinerAdd, Source: addrHex(addr(20 + r.Intn(5))), Data: string(md)}
		case k == 7: // miner refund (source must be the miner's account)
			i := r.Intn(len(validatorIds))
			amt := []string{"100", "400", "18446744073709551615", "5000"}[r.Intn(4)]
			rd, _ := json.Marshal(map[string]string{"Amount": amt, "MinerId": common.ToHex(validatorIds[i])})
			src := addr(110 + i)
			if r.Intn(5) == 0 {
				src = addr(1)
			}
			d = txDesc{Type: types.TransactionTypeMinerRefund, Source: addrHex(src), Data: string(rd), Signed: true}
		case k == 8: // contract create
			cd, _ := json.Marshal(types.ContractData{GasLimit: "3000000", TransferValue: "0", AbiData: "0x" + initCode()})
			d = txDesc{Type: types.TransactionTypeContract, Source: addrHex(addr(1 + r.Intn(8))), Data: string(cd)}
		case k == 10: // miner change account (source must be the miner's current account)
			i := r.Intn(len(validatorIds))
			to := addr(30 + r.Intn(3))
			if r.Intn(4) == 0 {
				to = addr(110 + r.Intn(len(validatorIds))) // occupied by another miner / no change
			}
			m := types.Miner{Id: validatorIds[i], Account: to.Bytes()}
			md, _ := json.Marshal(m)
			d = txDesc{Type: types.TransactionTypeMinerChangeAccount, Source: addrHex(addr(110 + i)), Data: string(md)}
		case k == 11: // operator node (10 units fee, then create2 through the main node contract - absent here)
			d = txDesc{Type: types.TransactionTypeOperatorNode, Source: addrHex(addr(110 + r.Intn(len(validatorIds))))}
		default: // contract call
			cd, _ := json.Marshal(types.ContractData{GasLimit: "3000000", TransferValue: []string{"0", "0.5"}[r.Intn(2)], AbiData: ""})
			d = txDesc{Type: types.TransactionTypeContract, Source: addrHex(addr(1 + r.Intn(8))), Target: addrHex(deployed), Data: string(cd)}
		}
		if useReq {
			d.RequestId = uint64(1000 + i*7 + r.Intn(5))
		}
		d.Nonce = nonce[d.Source]
		nonce[d.Source]++
		bc.Txs = append(bc.Txs, d)
	}
	return bc
}

type blockOutcome struct {
	Root, CommitRoot, ReceiptsTree string
	Escrow                         []string // refund/reward store after the block: escrow of the next reward height and of this height
	Evicted                        []string
	Receipts                       []string
	TypesOf                        []int32
}

func (o blockOutcome) digest() string {
	b, _ := json.Marshal(o)
	return string(b)
}

func runBlock(w *world, bc blockCase) (o blockOutcome, panicked interface{}) {
	return runBlockAt(w, bc, blockHeight)
}

func escrowDump(adb *account.AccountDB, h uint64) []string {
	var l []string
	for a, v := range adb.GetAllRefund(refundAddress(h)) {
		l = append(l, fmt.Sprintf("%d:%s=%s", h, a.GetHexString(), v.String()))
	}
	sort.Strings(l)
	return l
}

func runBlockAt(w *world, bc blockCase, height uint64) (o blockOutcome, panicked interface{}) {
	o, _, panicked = runBlockX(w, bc, height, "fullverify", &ctlChain{})
	return
}

// ctlChain: the executor context's chain (BLOCKHASH asks it); onHash lets a test act in the middle of a
// contract transaction's execution: move the node clock, yield the processor.
type ctlChain struct {
	calls  int
	onHash func(call int)
}

func (c *ctlChain) GetBlockHash(h uint64) common.Hash {
	c.calls++
	if c.onHash != nil {
		c.onHash(c.calls)
	}
	return common.BytesToHash(common.Sha256([]byte("blk" + strconv.FormatUint(h, 10))))
}

// runBlockX: newVMExecutor(fresh state of w, block, situation).Execute() with the given chain context;
// also returns the transaction list Execute returns (what a proposer publishes as the block body).
func runBlockX(w *world, bc blockCase, height uint64, situation string, chain *ctlChain) (o blockOutcome, packed []*types.Transaction, panicked interface{}) {
	txs := make([]*types.Transaction, len(bc.Txs))
	for i, d := range bc.Txs {
		txs[i] = d.tx()
	}
	return runTxsX(w, &types.Block{Header: headerAt(height), Transactions: txs}, situation, chain)
}

// headDelta: the node's own head (the process-global height the proposal gates read) relative to the
// normal case "head = height of the block being executed - 1".
var headDelta int64

// runTxsX executes a given block OBJECT (the caller keeps the transaction slice).
func runTxsX(w *world, block *types.Block, situation string, chain *ctlChain) (o blockOutcome, packed []*types.Transaction, panicked interface{}) {
	height := block.Header.Height
	defer func() {
		if p := recover(); p != nil {
			panicked = fmt.Sprintf("%v\n%s", p, debug.Stack())
		}
	}()
	common.SetBlockHeight(uint64(int64(height-1) + headDelta))
	adb := w.fresh()
	root, evicted, executed, receipts := core.VerifC01ExecuteBlockWithChain(adb, block, situation, chain)
	packed = executed
	o.Root = root.Hex()
	for _, e := range evicted {
		o.Evicted = append(o.Evicted, e.Hex())
	}
	for i, rc := range receipts {
		lj, _ := json.Marshal(rc.Logs)
		o.Receipts = append(o.Receipts, fmt.Sprintf("%s|%d|%s|gas=%d|%s|%s", rc.TxHash.Hex(), rc.Status, rc.Msg, rc.GasUsed, rc.ContractAddress.GetHexString(), lj))
		o.TypesOf = append(o.TypesOf, executed[i].Type)
	}
	o.ReceiptsTree = core.VerifC01ReceiptsTree(receipts).Hex()
	cr, err := adb.Commit(true)
	if err != nil {
		o.CommitRoot = "error: " + err.Error()
	} else {
		o.CommitRoot = cr.Hex()
		// the refund/reward store, read through a new state object at the committed root
		if post, err := account.NewAccountDB(cr, adb.Database()); err == nil {
			o.Escrow = append(escrowDump(post, service.RewardCalculatorImpl.NextRewardHeight(height)), escrowDump(post, height)...)
		} else {
			o.Escrow = []string{"error: " + err.Error()}
		}
	}
	return
}

// ---------------------------------------------------------------------------------------------
func main() {
	if job := os.Getenv("C01_LIFECYCLE_JOB"); job != "" {
		lifecycleMain(job)
		return
	}
	if job := os.Getenv("C01_CHILD_JOB"); job != "" {
		childMain(job)
		return
	}
	a := hx.ParseArgs()
	rng := hx.NewRng(a.Seed)
	reps := 8
	if a.Tier == "thorough" {
		reps = 64
	}
	res := hx.NewResult(fmt.Sprintf("every generated input is executed %d times, each on a fresh AccountDB and trie cache over the same committed store, and all "+
		"runs must agree on (state root, receipts: status/msg/gas/logs, receipts tree, evicted list). Inputs: ChangeAssets target maps (1-6 entries, sender "+
		"itself / aliases by case, prefix, padding / non-address keys / zero and unparsable amounts / sums around the balance; plus every map over 4 keys "+
		"(2 spellings of the sender, 2 of another account) x a small amount set), blocks of 1-5 transactions (transfer, miner apply/add/refund/change-account, "+
		"operator node, contract create/call of a contract that stores the EVM block context) with the after() stage, shuffled admissible tx lists, multi-height refund data, sub-chain reward call data. History search: a block executed as the only block of a fresh child process "+
		"must give the same root/receipts/evicted list/reward store as in this process after sibling blocks of the same height (same and another parent state, changed stakes), neighbouring heights and other blocks. "+
		"non-trivial = distinct input with at least two entries at some map iteration site (so that an order exists)", reps))
	cs := hx.NewCases(a.Out, "From V.C01 Require Import Harness.", "c01case", "check", 300)

	// ---- 0. inventory of the sources under test ----
	repo := os.Getenv("VERIF_REPO")
	if repo == "" {
		repo = "/repo"
	}
	sites, st, err := c01inv.Scan(repo)
	if err != nil || len(st.MissingRoots) > 0 {
		sites = []c01inv.Site{{File: "<inventory scan failed>", Func: fmt.Sprint(st.MissingRoots), Kind: "error", Detail: fmt.Sprint(err)}}
		res.Note(fmt.Sprintf("inventory scan failed: %v missing roots %v", err, st.MissingRoots))
	}
	must(os.WriteFile(filepath.Join(a.Out, "cases_gen.v"), []byte(c01inv.CasesGenV(sites)), 0644))
	res.Note(fmt.Sprintf("inventory regenerated from %s: %d sites in %d reachable functions of %d (type errors %d, unresolved imports %d)",
		repo, len(sites), st.Reachable, st.Functions, st.TypeErrors, st.FakeImports))
	kinds := map[string]int{}
	for _, s := range sites {
		kinds[s.Kind]++
	}
	for k, v := range kinds {
		res.Histogram["inventory:"+k] = v
	}

	boot()

	nCA := a.N / 2
	nBlk := a.N / 4
	nSort := a.N / 8
	nRef := a.N / 8

	// ---- L1 ChangeAssets ----
	fixedCA := []caCase{
		{Source: addrHex(addr(1)), Balance: "10", Extra: fmt.Sprintf(`{%q:{"balance":"10"},%q:{"balance":"5"}}`, addrHex(addr(1)), addrHex(addr(10)))},
		{Source: addrHex(addr(1)), Balance: "10", Extra: fmt.Sprintf(`{%q:{"balance":"10"},%q:{"balance":"5"}}`, strings.ToUpper(addrHex(addr(1)))[2:], addrHex(addr(10)))},
		{Source: addrHex(addr(1)), Balance: "10", Extra: fmt.Sprintf(`{%q:{"balance":"4"},%q:{"balance":"6"}}`, addrHex(addr(10)), addrHex(addr(11)))},
		{Source: addrHex(addr(1)), Balance: "10", Extra: `{}`},
	}
	// exhaustive small scope: every map over the four keys {sender, sender in upper case without prefix,
	// other, other with 0X prefix} with amounts from a small set around the balance 10
	{
		src := addr(1)
		oth := addr(10)
		keys4 := []string{addrHex(src), strings.ToUpper(hex.EncodeToString(src[:])), addrHex(oth), "0X" + hex.EncodeToString(oth[:])}
		amts := []string{"", "0", "10", "5.000000000000000001"}
		if a.Tier == "thorough" {
			amts = append(amts, "4.999999999999999999")
		}
		total := 1
		for range keys4 {
			total *= len(amts)
		}
		for code := 1; code < total; code++ {
			c, parts := code, []string{}
			for _, k := range keys4 {
				am := amts[c%len(amts)]
				c /= len(amts)
				if am != "" {
					parts = append(parts, fmt.Sprintf("%q:{\"balance\":%q}", k, am))
				}
			}
			fixedCA = append(fixedCA, caCase{Source: addrHex(src), Balance: "10", Extra: "{" + strings.Join(parts, ",") + "}"})
		}
		res.Note(fmt.Sprintf("ChangeAssets small scope: all %d non-empty maps over 4 keys (sender x2 spellings, other x2 spellings) x %d amounts", total-1, len(amts)-1))
	}
	for i := 0; i < nCA+len(fixedCA); i++ {
		var c caCase
		if i < len(fixedCA) {
			c = fixedCA[i]
		} else {
			c = genCA(rng)
		}
		mm := make(map[string]types.TransferData)
		if err := json.Unmarshal([]byte(c.Extra), &mm); err != nil {
			res.Count("ca-bad-json", c.Extra, false)
			continue
		}
		w := c.world()
		inv := involved(c, mm)
		outs := map[string]int{}
		var first caOutcome
		var distinct []caOutcome
		for rep := 0; rep < reps; rep++ {
			o, pan := runCA(w, c, mm, inv)
			if pan != nil {
				res.Violate("C01/panic:ChangeAssets", fmt.Sprint(pan), c)
				continue
			}
			key := fmt.Sprintf("%v|%s|%s", o.Ok, o.Msg, o.Root)
			if outs[key] == 0 {
				distinct = append(distinct, o)
			}
			outs[key]++
			if rep == 0 {
				first = o
			}
		}
		src := common.HexToAddress(c.Source)
		selfIn, n := false, len(mm)
		for k := range mm {
			if common.HexToAddress(k) == src {
				selfIn = true
			}
		}
		class := "transfer-ok"
		if !first.Ok {
			class = "transfer-fail"
		}
		if selfIn {
			class += "-self"
		}
		if len(outs) > 1 {
			class = "transfer-ORDER-DEPENDENT"
			res.Violate("C01/nondeterminism:ChangeAssets-map-order",
				fmt.Sprintf("service.ChangeAssets gave %d different outcomes over %d runs of the same call on the same state: %v", len(outs), reps, outs), c)
		}
		res.Count(class, c.Extra+"|"+c.Balance+"|"+c.Source, n >= 2)
		if i < 3 || i%97 == 0 {
			res.Sample(map[string]interface{}{"site": "ChangeAssets", "case": c, "outcomes": outs})
		}
		// direct: the message of a successful call names the sender's final balance
		for _, o := range distinct {
			if o.Ok && n > 0 {
				idx := sort.Search(len(inv), func(i int) bool { return bytes.Compare(inv[i][:], src[:]) >= 0 })
				fb, _ := new(big.Int).SetString(o.Finals[idx], 10)
				want := `{"balance":"` + utility.BigIntToStr(fb) + `"}`
				if o.Msg != want {
					res.Violate("C01/response:ChangeAssets-left-balance", "response "+o.Msg+" does not name the sender's final balance "+want, c)
				}
			}
		}
		// model case
		var initL, tgtL, obsL []string
		base := w.fresh()
		for _, ad := range inv {
			initL = append(initL, fmt.Sprintf("(%s, %s)", addrN(ad), zLit(base.GetBalance(ad))))
		}
		keys := make([]string, 0, len(mm))
		for k := range mm {
			keys = append(keys, k)
		}
		sort.Strings(keys)
		for k := len(keys) - 1; k > 0; k-- { // seeded order: the model sorts by itself
			m := rng.Intn(k + 1)
			keys[k], keys[m] = keys[m], keys[k]
		}
		for _, k := range keys {
			amt := "None"
			if v, err := utility.StrToBigInt(mm[k].Balance); err == nil {
				amt = "Some " + zLit(v)
			}
			tgtL = append(tgtL, fmt.Sprintf("(%s, %s, %s)", hx.CoqStr(k), addrN(common.HexToAddress(k)), amt))
		}
		for _, o := range distinct {
			var fl []string
			for j, ad := range inv {
				v, _ := new(big.Int).SetString(o.Finals[j], 10)
				fl = append(fl, fmt.Sprintf("(%s, %s)", addrN(ad), zLit(v)))
			}
			obsL = append(obsL, fmt.Sprintf("(%s, %s, %s)", hx.CoqBool(o.Ok), o.Left, hx.CoqList(fl)))
		}
		cs.Add(fmt.Sprintf("CTransfer %s %s %s %s", addrN(src), hx.CoqList(initL), hx.CoqList(tgtL), hx.CoqList(obsL)),
			map[string]interface{}{"site": "ChangeAssets", "case": c, "outcomes": outs})
	}

	// ---- L2 blocks ----
	blockWorld = newWorld(blockBalances(), true)
	{ // deploy the callee once, commit, continue from there
		adb := blockWorld.fresh()
		cd, _ := json.Marshal(types.ContractData{GasLimit: "3000000", TransferValue: "0", AbiData: "0x" + initCode()})
		t := txDesc{Type: types.TransactionTypeContract, Source: addrHex(addr(8)), Data: string(cd), RequestId: 1}.tx()
		cdw, _ := json.Marshal(types.ContractData{GasLimit: "3000000", TransferValue: "0", AbiData: "0x" + initCodeOf(windowRuntime)})
		tw := txDesc{Type: types.TransactionTypeContract, Source: addrHex(addr(7)), Data: string(cdw), RequestId: 2}.tx()
		common.SetBlockHeight(blockHeight - 2)
		hd := header()
		hd.Height = blockHeight - 1
		_, _, _, rcs := core.VerifC01ExecuteBlockWithChain(adb, &types.Block{Header: hd, Transactions: []*types.Transaction{t, tw}}, "testing", &ctlChain{})
		if len(rcs) != 2 {
			panic("deploy receipts: " + fmt.Sprint(len(rcs)))
		}
		deployed = rcs[0].ContractAddress
		deployedWin = rcs[1].ContractAddress
		res.Note(fmt.Sprintf("callee deployed at %s status=%d; block hash window reader at %s status=%d %s", deployed.GetHexString(), rcs[0].Status,
			deployedWin.GetHexString(), rcs[1].Status, rcs[1].Msg))
		root, err := adb.Commit(true)
		must(err)
		must(adb.Database().TrieDB().Commit(root, false))
		blockWorld.root = root
	}
	for i := 0; i < nBlk; i++ {
		bc := genBlock(rng)
		outs := map[string]int{}
		var outsL []blockOutcome
		for rep := 0; rep < reps; rep++ {
			o, pan := runBlock(blockWorld, bc)
			if pan != nil {
				res.Violate("C01/panic:block", fmt.Sprint(pan), bc)
				break
			}
			d := o.digest()
			if outs[d] == 0 {
				outsL = append(outsL, o)
			}
			outs[d]++
		}
		if len(outsL) == 0 {
			continue
		}
		class := "block"
		multi := false
		tset := map[int32]bool{}
		for _, d := range bc.Txs {
			tset[d.Type] = true
			if d.Type == types.TransactionTypeOperatorEvent {
				mm := map[string]types.TransferData{}
				if json.Unmarshal([]byte(d.ExtraData), &mm) == nil && len(mm) >= 2 {
					multi = true
				}
			}
		}
		var tl []string
		for t := range tset {
			tl = append(tl, strconv.Itoa(int(t)))
		}
		sort.Strings(tl)
		class += ":types=" + strings.Join(tl, ",")
		if outsL[0].Root != outsL[0].CommitRoot {
			res.Violate("C01/commit-root-differs", "Commit root differs from IntermediateRoot: "+outsL[0].Root+" vs "+outsL[0].CommitRoot, bc)
		}
		if len(outs) > 1 {
			// attribute: which receipts differ between the first two distinct outcomes
			x, y := outsL[0], outsL[1]
			where := map[string]bool{}
			for j := range x.Receipts {
				if j < len(y.Receipts) && x.Receipts[j] != y.Receipts[j] {
					where["tx-type-"+strconv.Itoa(int(x.TypesOf[j]))] = true
				}
			}
			if len(where) == 0 {
				if fmt.Sprint(x.Evicted) != fmt.Sprint(y.Evicted) {
					where["evicted"] = true
				} else {
					where["state-only"] = true
				}
			}
			var wl []string
			for k := range where {
				wl = append(wl, k)
			}
			sort.Strings(wl)
			res.Violate("C01/nondeterminism:block:"+strings.Join(wl, "+"),
				fmt.Sprintf("%d different outcomes over %d executions of the same block on the same parent state; first two: %s  VS  %s", len(outs), reps, x.digest(), y.digest()), bc)
			class = "block-ORDER-DEPENDENT"
		}
		// every block ranges over the 6-entry due escrow, the 3-entry proposer map, the 4-entry validator map
		bj, _ := json.Marshal(bc)
		res.Count(class, string(bj), true || multi)
		if i < 2 || i%41 == 0 {
			res.Sample(map[string]interface{}{"site": "block", "txs": len(bc.Txs), "types": tl, "root": outsL[0].Root, "receiptsTree": outsL[0].ReceiptsTree,
				"receipts": trunc(outsL[0].Receipts), "evicted": outsL[0].Evicted, "distinctOutcomes": len(outs)})
		}
		for j, rc := range outsL[0].Receipts {
			p := strings.SplitN(rc, "|", 4)
			if len(p) >= 3 {
				st := "ok"
				if p[1] != "0" && p[1] != "1" {
					st = p[1]
				} else if p[1] == "0" {
					st = "failed"
				}
				res.Histogram[fmt.Sprintf("receipt:type-%d:%s", outsL[0].TypesOf[j], st)]++
			}
		}
		res.Histogram["evicted-txs"] += len(outsL[0].Evicted)
	}

	// ---- L6 history dependence (process-local memo state) ----
	historySearch(a, rng, res, nBlk/4)

	// ---- L7 proposer (casting, wall clock) vs verifier ----
	castSearch(a, rng, res, nBlk/4)

	// ---- L12 first start vs restart ----
	lifecycleSearch(a, rng, res)

	// ---- L10 the node's own head height; L11 block helpers keep their arguments, roles, re-execution ----
	headHeightSearch(a, rng, res)
	roleSearch(a, rng, res)
	nodeRoleSearch(a, rng, res)

	// ---- L8 blocks executing concurrently in one process ----
	concurrencySearch(a, rng, res)

	// ---- L3 sort ----
	for i := 0; i < nSort; i++ {
		n := 2 + rng.Intn(7)
		useReq := rng.Intn(4) == 0
		var list []*types.Transaction
		for j := 0; j < n; j++ {
			t := &types.Transaction{Type: types.TransactionTypeOperatorEvent, Source: addrHex(addr(1 + rng.Intn(3))), Nonce: uint64(rng.Intn(3)), Data: strconv.Itoa(j)}
			if useReq {
				t.RequestId = uint64(10 + j) // distinct
				if rng.Intn(3) == 0 {
					t.RequestId = 0
				}
			}
			t.Hash = t.GenHash()
			list = append(list, t)
		}
		order := func(l []*types.Transaction) string {
			var hs []string
			for _, t := range l {
				hs = append(hs, t.Hash.Hex()[2:10])
			}
			return strings.Join(hs, ",")
		}
		var ref []*types.Transaction
		outs := map[string]int{}
		for rep := 0; rep < reps; rep++ {
			sh := append([]*types.Transaction{}, list...)
			for k := len(sh) - 1; k > 0; k-- {
				m := rng.Intn(k + 1)
				sh[k], sh[m] = sh[m], sh[k]
			}
			func() {
				defer func() {
					if p := recover(); p != nil {
						res.Violate("C01/panic:Transactions.Less", fmt.Sprint(p), order(list))
					}
				}()
				sort.Sort(types.Transactions(sh))
			}()
			outs[order(sh)]++
			if rep == 0 {
				ref = sh
			}
		}
		if len(outs) > 1 {
			res.Violate("C01/nondeterminism:tx-sort", fmt.Sprintf("sort.Sort(types.Transactions) of shuffles of one admissible list gave %d orders: %v", len(outs), outs), order(list))
		}
		res.Count("sort", order(ref), true)
		var tl, ol []string
		for _, t := range list {
			tl = append(tl, fmt.Sprintf("(%s, %s, %s, %s, %s)", hx.CoqN(t.RequestId), hx.CoqStr(t.Source),
				hx.CoqHex(common.FromHex(t.Source)), hx.CoqN(t.Nonce), hx.CoqHex(t.Hash.Bytes())))
		}
		for _, t := range ref {
			ol = append(ol, hx.CoqHex(t.Hash.Bytes()))
		}
		cs.Add(fmt.Sprintf("CSort %s %s", hx.CoqList(tl), hx.CoqList(ol)), map[string]interface{}{"site": "sort", "sorted": order(ref)})
	}

	// ---- L4 refund escrow ----
	refWorld := newWorld(map[common.Address]*big.Int{addr(1): tokens("1")}, true)
	for i := 0; i < nRef; i++ {
		nh := 1 + rng.Intn(4)
		type ent struct {
			H  uint64
			Id common.Address
			V  int64
		}
		var ents []ent
		data := func() map[uint64]types.RefundInfoList {
			m := map[uint64]types.RefundInfoList{}
			for _, e := range ents {
				l := m[e.H]
				l.AddRefundInfo(e.Id.Bytes(), big.NewInt(e.V))
				m[e.H] = l
			}
			return m
		}
		for h := 0; h < nh; h++ {
			height := uint64(blockHeight + rng.Intn(3)) // blockHeight has pre-existing escrow
			if h > 0 {
				height = uint64(500 + rng.Intn(4))
			}
			for k := 0; k < 1+rng.Intn(4); k++ {
				ents = append(ents, ent{height, addr(120 + rng.Intn(8)), int64(1 + rng.Intn(1000))})
			}
		}
		outs := map[string]int{}
		var obs []string
		var mvDue, mvBefore, mvAfter []string
		mvLeft := 0
		for rep := 0; rep < reps; rep++ {
			adb := refWorld.fresh()
			service.RefundManagerImpl.Add(data(), adb)
			if rep == 0 {
				dm := adb.GetAllRefund(refundAddress(blockHeight))
				for k := 0; k < 8; k++ {
					if v, ok := dm[addr(120+k)]; ok {
						mvDue = append(mvDue, fmt.Sprintf("(%s, %s)", addrN(addr(120+k)), zLit(v)))
					}
					mvBefore = append(mvBefore, fmt.Sprintf("(%s, %s)", addrN(addr(120+k)), zLit(adb.GetBalance(addr(120+k)))))
				}
				if len(dm) != len(mvDue) {
					res.Violate("C01/harness:unexpected-escrow-key", fmt.Sprintf("escrow holds %d entries, %d under the expected accounts", len(dm), len(mvDue)), ents)
				}
			}
			var cells []string
			for _, e := range ents {
				v := new(big.Int).SetBytes(adb.GetData(refundAddress(e.H), e.Id.Bytes()))
				cells = append(cells, fmt.Sprintf("(%d%%N, %s, %s)", e.H, addrN(e.Id), zLit(v)))
			}
			service.RefundManagerImpl.CheckAndMove(blockHeight, adb)
			var bals []string
			for k := 0; k < 8; k++ {
				bals = append(bals, adb.GetBalance(addr(120+k)).String())
			}
			left := len(adb.GetAllRefund(refundAddress(blockHeight)))
			nz := 0
			for _, v := range adb.GetAllRefund(refundAddress(blockHeight)) {
				if v.Sign() != 0 {
					nz++
				}
			}
			root := adb.IntermediateRoot(true).Hex()
			outs[root+"|"+strings.Join(bals, ",")+fmt.Sprintf("|left=%d/%d", nz, left)]++
			if rep == 0 {
				obs = cells
				for k := 0; k < 8; k++ {
					mvAfter = append(mvAfter, fmt.Sprintf("(%s, %s)", addrN(addr(120+k)), zLit(adb.GetBalance(addr(120+k)))))
				}
				mvLeft = nz
			}
		}
		if len(outs) > 1 {
			res.Violate("C01/nondeterminism:refund-escrow", fmt.Sprintf("RefundManager.Add + CheckAndMove gave %d outcomes over %d runs: %v", len(outs), reps, outs), ents)
		}
		ej, _ := json.Marshal(ents)
		res.Count("refund", string(ej), true)
		// model: escrow cells after Add; the pre-existing escrow of blockHeight is part of the initial store
		var pre, dl []string
		for k := 0; k < 6; k++ {
			pre = append(pre, fmt.Sprintf("(%d%%N, %s, %s)", blockHeight, addrN(addr(120+k)), zLit(big.NewInt(int64(1000+k)))))
		}
		hs := map[uint64][]string{}
		var horder []uint64
		for _, e := range ents {
			if _, ok := hs[e.H]; !ok {
				horder = append(horder, e.H)
			}
			hs[e.H] = append(hs[e.H], fmt.Sprintf("(%s, %s)", addrN(e.Id), zLit(big.NewInt(e.V))))
		}
		for _, h := range horder {
			dl = append(dl, fmt.Sprintf("(%d%%N, %s)", h, hx.CoqList(hs[h])))
		}
		cs.Add(fmt.Sprintf("CRefund %s %s %s", hx.CoqList(pre), hx.CoqList(dl), hx.CoqList(obs)), map[string]interface{}{"site": "refund", "entries": ents})
		cs.Add(fmt.Sprintf("CMove %s %s %s %d%%N", hx.CoqList(mvDue), hx.CoqList(mvBefore), hx.CoqList(mvAfter), mvLeft), map[string]interface{}{"site": "CheckAndMove", "entries": ents})
	}

	// ---- L5 sub-chain reward call data ----
	{
		props := map[string]common.Address{}
		vals := map[string]common.Address{}
		for i, id := range proposerIds {
			props[common.ToHex(id)] = addr(100 + i)
		}
		for i, id := range validatorIds {
			vals[common.ToHex(id)] = addr(110 + i)
		}
		outs := map[string]int{}
		for rep := 0; rep < reps*4; rep++ {
			p2 := map[string]common.Address{}
			for k, v := range props {
				p2[k] = v
			}
			outs[core.VerifC01GenerateCode(p2, vals, validatorIds, header())]++
		}
		res.Count("generateCode", "3 proposers", true)
		{
			var pk []string
			for k := range props {
				pk = append(pk, k)
			}
			sort.Strings(pk)
			var pl, ml []string
			for _, k := range pk {
				pl = append(pl, fmt.Sprintf("(%s, %s)", hx.CoqStr(k), addrFull(props[k])))
			}
			for _, id := range validatorIds {
				ml = append(ml, addrFull(vals[common.ToHex(id)]))
			}
			var variants []string
			for k := range outs {
				variants = append(variants, k)
			}
			sort.Strings(variants)
			for _, code := range variants {
				body := strings.TrimPrefix(code, "0x7822b9ac")
				var words []string
				for i := 0; i+64 <= len(body); i += 64 {
					w, _ := new(big.Int).SetString(body[i:i+64], 16)
					words = append(words, w.String()+"%N")
				}
				if len(body)%64 != 0 || !strings.HasPrefix(code, "0x7822b9ac") {
					words = append(words, "0%N")
				}
				cs.Add(fmt.Sprintf("CGenCode %s %s %s %s", addrFull(props[common.ToHex(header().Castor)]), hx.CoqList(pl), hx.CoqList(ml), hx.CoqList(words)),
					map[string]interface{}{"site": "generateCode", "code": code})
			}
		}
		if len(outs) > 1 {
			var ex []string
			for k := range outs {
				ex = append(ex, k[len(k)-3*64-64-4*64:len(k)-64-4*64])
			}
			sort.Strings(ex)
			res.Violate("C01/nondeterminism:generateCode-map-order",
				fmt.Sprintf("VMExecutor.generateCode (call data of the sub-chain reward contract call in after()) produced %d different byte strings over %d calls with the same 3 proposers: the proposal address array is emitted in map iteration order", len(outs), reps*4),
				map[string]interface{}{"proposals": props, "address-array-variants": ex})
		}
	}

	// ---- L9 the real chain contexts: main chain height index, fork DB (last: installs node globals) ----
	forkContextSearch(a, rng.Fork(), res)

	cs.Close()
	res.ModelCases = cs.Total()
	res.Write(a.Out)
}

func trunc(l []string) []string {
	var o []string
	for _, s := range l {
		if len(s) > 200 {
			s = s[:200] + "…"
		}
		o = append(o, s)
	}
	return o
}
