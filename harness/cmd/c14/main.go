// C14 harness: the node's BLS signature verification (groupsig.Sign / VerifySig / DeserializeSign /
// Pubkey.Deserialize / Seckey + ID codecs, bn256.Pair) against the Coq model, plus the direct search:
// for random keys and messages every candidate byte string built with the real curve operations or by
// mangling the honest encoding must be accepted iff it IS the honest encoding.
package main

import (
	"bytes"
	"crypto/sha256"
	"encoding/hex"
	"fmt"
	"math/big"
	"sort"
	"strings"

	"com.tuntun.rangers/node/src/consensus/groupsig"
	"com.tuntun.rangers/node/src/consensus/groupsig/bn256"
	"verif/harness/hx"
)

var (
	order = bn256.Order
	fp    = bn256.P
	two256 = new(big.Int).Lsh(big.NewInt(1), 256)
)

func zs(b *big.Int) string { return hx.CoqZ(b.String()) }
func hexs(b []byte) string { return hex.EncodeToString(b) }
func cp(b []byte) []byte   { return append([]byte{}, b...) }
func b32(x *big.Int) []byte { return x.FillBytes(make([]byte, 32)) }

// refHashPoint: independent try-and-increment (x = sha256(m) mod p; first x, x+1, ... with x^3+3 a square;
// y = (x^3+3)^((p+1)/4)), and the number of increments it needed.
func refHashPoint(m []byte) (*big.Int, *big.Int, int) {
	h := sha256.Sum256(m)
	x := new(big.Int).SetBytes(h[:])
	x.Mod(x, fp)
	e := new(big.Int).Add(fp, big.NewInt(1))
	e.Rsh(e, 2)
	for n := 0; ; n++ {
		t := new(big.Int).Mul(x, x)
		t.Mul(t, x)
		t.Add(t, big.NewInt(3))
		t.Mod(t, fp)
		y := new(big.Int).Exp(t, e, fp)
		if new(big.Int).Mod(new(big.Int).Mul(y, y), fp).Cmp(t) == 0 {
			return new(big.Int).Mod(x, fp), y, n
		}
		x.Add(x, big.NewInt(1))
	}
}

// messages whose hash needs many increments (found offline by enumeration; the two with >= 20 are the
// witnesses of seeded/C14-8)
var hardMessages = []struct {
	inc int
	hex string
}{
	{8, "6331342d636f727075732d0000000000000511"}, {9, "6331342d636f727075732d000000000000000d"},
	{10, "6331342d636f727075732d00000000000023c1"}, {11, "6331342d636f727075732d0000000000001c61"},
	{12, "6331342d636f727075732d0000000000000339"}, {13, "6331342d636f727075732d0000000000002a0d"},
	{14, "6331342d636f727075732d0000000000003a78"}, {15, "6331342d636f727075732d0000000000005e5f"},
	{16, "6331342d636f727075732d0000000000001280"}, {17, "6331342d636f727075732d0000000000061220"},
	{18, "6331342d636f727075732d000000000006d077"}, {19, "6331342d636f727075732d00000000000554c8"},
	{-1, "6331342d64656d6f2d00000000000180b2"}, {-1, "6331342d64656d6f2d00000000002427a9"},
}

func strs(l []*big.Int) []string {
	p := make([]string, len(l))
	for i, x := range l {
		p[i] = x.String()
	}
	return p
}

func randScalar(r *hx.Rng) *big.Int {
	switch r.Intn(16) {
	case 0:
		return big.NewInt(int64(1 + r.Intn(3)))
	case 1:
		return new(big.Int).Sub(order, big.NewInt(int64(1+r.Intn(2))))
	}
	x := new(big.Int).SetBytes(r.Bytes(32))
	x.Mod(x, order)
	if x.Sign() == 0 {
		x.SetInt64(7)
	}
	return x
}

// ---- GF(p^2) helpers (a*i + b) to build points of the twist that are NOT in the order-r subgroup G2
var p = bn256.P

type f2 struct{ a, b *big.Int } // a*i + b

func md(x *big.Int) *big.Int { return x.Mod(x, p) }
func mul(u, v f2) f2 {
	ad := new(big.Int).Mul(u.a, v.b)
	bc := new(big.Int).Mul(u.b, v.a)
	bd := new(big.Int).Mul(u.b, v.b)
	ac := new(big.Int).Mul(u.a, v.a)
	return f2{md(ad.Add(ad, bc)), md(bd.Sub(bd, ac))}
}
func add(u, v f2) f2 { return f2{md(new(big.Int).Add(u.a, v.a)), md(new(big.Int).Add(u.b, v.b))} }
func conj(u f2) f2   { return f2{md(new(big.Int).Neg(u.a)), new(big.Int).Set(u.b)} }
func eq(u, v f2) bool { return u.a.Cmp(v.a) == 0 && u.b.Cmp(v.b) == 0 }
func exp(u f2, e *big.Int) f2 {
	r := f2{big.NewInt(0), big.NewInt(1)}
	for i := e.BitLen() - 1; i >= 0; i-- {
		r = mul(r, r)
		if e.Bit(i) == 1 {
			r = mul(r, u)
		}
	}
	return r
}
func sqrt(a f2) (f2, bool) {
	one := f2{big.NewInt(0), big.NewInt(1)}
	minus1 := f2{big.NewInt(0), new(big.Int).Sub(p, big.NewInt(1))}
	e1 := new(big.Int).Sub(p, big.NewInt(3))
	e1.Rsh(e1, 2)
	a1 := exp(a, e1)
	alpha := mul(a1, mul(a1, a))
	a0 := mul(conj(alpha), alpha)
	if eq(a0, minus1) {
		return f2{}, false
	}
	x0 := mul(a1, a)
	if eq(alpha, minus1) {
		return mul(f2{big.NewInt(1), big.NewInt(0)}, x0), true
	}
	e2 := new(big.Int).Sub(p, big.NewInt(1))
	e2.Rsh(e2, 1)
	b := exp(add(one, alpha), e2)
	return mul(b, x0), true
}


// twistPointOutsideG2 returns a random point R of the twist curve y^2 = x^3 + 3/(i+3) (almost surely
// outside G2: the cofactor is 2p - r) as 128 bytes, and T = r*R (a non-identity point of cofactor order).
func twistPointOutsideG2(rng *hx.Rng) ([]byte, *bn256.G2) {
	inv10 := new(big.Int).ModInverse(big.NewInt(10), p)
	tb := f2{md(new(big.Int).Mul(big.NewInt(-3), inv10)), md(new(big.Int).Mul(big.NewInt(9), inv10))}
	for try := 0; try < 64; try++ {
		x := f2{md(new(big.Int).SetBytes(rng.Bytes(32))), md(new(big.Int).SetBytes(rng.Bytes(32)))}
		t := add(mul(mul(x, x), x), tb)
		y, ok := sqrt(t)
		if !ok || !eq(mul(y, y), t) {
			continue
		}
		buf := append(append(append(b32(x.a), b32(x.b)...), b32(y.a)...), b32(y.b)...)
		R := new(bn256.G2)
		if _, err := R.Unmarshal(buf); err != nil {
			continue
		}
		T := new(bn256.G2).ScalarMult(R, order)
		if len(T.Marshal()) == 1 {
			continue // R happened to lie in G2
		}
		return buf, T
	}
	return nil, nil
}

// observation of one candidate signature byte string on the implementation
type sobs struct {
	Err, Nil, Valid bool
	Ser             []byte
	Ok              bool
	Panic           string
}

func observeSig(pk groupsig.Pubkey, msg, cand []byte) (o sobs) {
	defer func() {
		if r := recover(); r != nil {
			o.Panic = fmt.Sprint(r)
		}
	}()
	var s0 groupsig.Signature
	o.Err = s0.Deserialize(cp(cand)) != nil
	s := groupsig.DeserializeSign(cp(cand))
	o.Nil = s.IsNil()
	o.Valid = s.IsValid()
	o.Ser = s.Serialize()
	o.Ok = groupsig.VerifySig(pk, msg, *s)
	return
}

// the same through the hex entry point (SetHexString)
func observeSigHex(pk groupsig.Pubkey, msg, cand []byte) (ok bool, pan string) {
	defer func() {
		if r := recover(); r != nil {
			pan = fmt.Sprint(r)
		}
	}()
	var s groupsig.Signature
	s.SetHexString("0x" + hexs(cand))
	return groupsig.VerifySig(pk, msg, s), ""
}

type pobs struct {
	Err   int // 0 ok, 1 not enough data, 2 malformed, 3 range, 4 length, 9 other
	Ser   []byte
	Ok    bool
	Panic string
}

func errCode(e error) int {
	if e == nil {
		return 0
	}
	s := e.Error()
	switch {
	case strings.Contains(s, "not enough"):
		return 1
	case strings.Contains(s, "malformed"):
		return 2
	case strings.Contains(s, "exceeds") || strings.Contains(s, "modulus") || strings.Contains(s, "range"):
		return 3
	case strings.Contains(s, "length") || strings.Contains(s, "size"):
		return 4
	}
	return 9
}

func observePk(cand, msg []byte, sig groupsig.Signature) (o pobs) {
	defer func() {
		if r := recover(); r != nil {
			o.Panic = fmt.Sprint(r)
		}
	}()
	var p0 groupsig.Pubkey
	o.Err = errCode(p0.Deserialize(cp(cand)))
	pk := groupsig.ByteToPublicKey(cp(cand))
	o.Ser = pk.Serialize()
	o.Ok = groupsig.VerifySig(pk, msg, sig)
	return
}

func g1(b []byte) *bn256.G1 {
	g := new(bn256.G1)
	if _, err := g.Unmarshal(b); err != nil {
		panic("harness: honest G1 bytes do not parse: " + err.Error())
	}
	return g
}
func g2(b []byte) *bn256.G2 {
	g := new(bn256.G2)
	if _, err := g.Unmarshal(b); err != nil {
		panic("harness: honest G2 bytes do not parse: " + err.Error())
	}
	return g
}

type cand struct {
	class string // outcome / generator class
	coq   string // Coq term of type cand
	b     []byte
	heavy bool // reaches the pairing when well-formed: also run the hex entry point
}

func coqObs(o sobs) string {
	return fmt.Sprintf("(Obs %s %s %s %s %s)", hx.CoqBool(o.Err), hx.CoqBool(o.Nil), hx.CoqBool(o.Valid), hx.CoqHex(o.Ser), hx.CoqBool(o.Ok))
}

func flip(b []byte, bit int) []byte {
	c := cp(b)
	c[bit/8] ^= 0x80 >> uint(bit%8)
	return c
}

func main() {
	a := hx.ParseArgs()
	rng := hx.NewRng(a.Seed)
	res := hx.NewResult("instances = random (secret key, message) pairs; per instance the honest signature/public key and candidates: " +
		"group-related elements built with bn256 G1/G2 operations (negation, sums, multiples, identity, other key/message), every/sampled single-bit flip, " +
		"truncations 0..63, extensions 1..33 bytes, coordinates +p, off-curve points; through DeserializeSign+VerifySig, SetHexString+VerifySig, " +
		"ByteToPublicKey+VerifySig. A case is counted distinct by (instance, entry point, candidate bytes); non-trivial = not rejected by the bare " +
		"'fewer than 64/128 bytes' length test (i.e. the coordinates were parsed), plus codec round trips and pairing samples with distinct scalars")
	cs := hx.NewCases(a.Out, "From V.C14 Require Import Model Harness.", "case", "check_fast", 120)
	thorough := a.Tier == "thorough"
	nInst := a.N
	if nInst < 2 {
		nInst = 2
	}
	fullFor := 1 // instances with the exhaustive flip / truncation / extension families
	if thorough {
		fullFor = nInst
	}

	viol := func(key, what string, in interface{}) { res.Violate(key, what, in) }

	// hash-to-point totality: for EVERY message the harness uses, G1.HashToPoint must return no error and a
	// valid curve point, equal to the point found by an independent try-and-increment (big.Int); the number of
	// increments is recorded (distribution in the evidence notes).
	incHist := map[int]int{}
	hashSeen := map[string]bool{}
	hashOK := func(family string, m []byte) {
		if hashSeen[string(m)] {
			return
		}
		hashSeen[string(m)] = true
		wx, wy, n := refHashPoint(m)
		incHist[n]++
		g := new(bn256.G1)
		var err error
		pan := ""
		func() {
			defer func() {
				if r := recover(); r != nil {
					pan = fmt.Sprint(r)
				}
			}()
			err = g.HashToPoint(m)
		}()
		valid := pan == "" && g.IsValid()
		same := false
		if pan == "" {
			func() {
				defer func() { recover() }()
				same = bytes.Equal(g.Marshal(), append(b32(wx), b32(wy)...))
			}()
		}
		res.Count(fmt.Sprintf("hash:%s:err=%v,valid=%v,expected-point=%v", family, err != nil || pan != "", valid, same), "hash/"+hexs(m), true)
		if err != nil || pan != "" || !valid || !same {
			viol("C14/hash:not-a-curve-point:"+family, "G1.HashToPoint(m) returns an error, an invalid point, or not the try-and-increment point",
				map[string]interface{}{"msg": hexs(m), "increments_needed": n, "error": fmt.Sprint(err), "panic": pan, "valid": valid, "want": hexs(append(b32(wx), b32(wy)...))})
		}
	}

	for inst := 0; inst < nInst; inst++ {
		skv := randScalar(rng)
		sk := groupsig.NewSeckeyFromBigInt(new(big.Int).Set(skv))
		pk := groupsig.GeneratePubkey(*sk)
		msg := rng.Bytes(1 + rng.Intn(64))
		if rng.Intn(3) == 0 {
			msg = rng.Bytes(32)
		}
		sig := groupsig.Sign(*sk, msg)
		hb := sig.Serialize()
		pkb := pk.Serialize()
		if len(hb) != 64 || len(pkb) != 128 {
			viol("C14/encoding:length", "honest signature/public key encoding has an unexpected length",
				map[string]interface{}{"sk": skv.String(), "msg": hexs(msg), "sig": hexs(hb), "pk": hexs(pkb)})
			continue
		}
		info := func(c cand, extra ...interface{}) map[string]interface{} {
			m := map[string]interface{}{"sk": skv.String(), "msg": hexs(msg), "pk": hexs(pkb), "honest_sig": hexs(hb), "class": c.class, "candidate": hexs(c.b)}
			for i := 0; i+1 < len(extra); i += 2 {
				m[extra[i].(string)] = extra[i+1]
			}
			return m
		}

		// ---- other key / message material
		sk2v := randScalar(rng)
		for sk2v.Cmp(skv) == 0 {
			sk2v = randScalar(rng)
		}
		sk2 := groupsig.NewSeckeyFromBigInt(new(big.Int).Set(sk2v))
		pk2 := groupsig.GeneratePubkey(*sk2)
		msg2 := append(cp(msg), byte(rng.Intn(256)))
		sigOtherKey := groupsig.Sign(*sk2, msg)
		sigOtherMsg := groupsig.Sign(*sk, msg2)
		av := randScalar(rng)
		bv := randScalar(rng)

		S := g1(hb)
		var cands []cand
		add := func(class string, b []byte, heavy bool) {
			cands = append(cands, cand{class, "(CBytes " + hx.CoqHex(b) + ")", b, heavy})
		}
		add("honest", hb, true)
		add("alg:negated", new(bn256.G1).Neg(S).Marshal(), true)
		add("alg:sum-other-key", new(bn256.G1).Add(S, g1(sigOtherKey.Serialize())).Marshal(), true)
		add("alg:multiple", new(bn256.G1).ScalarMult(S, av).Marshal(), true)
		add("alg:plus-generator-multiple", new(bn256.G1).Add(S, new(bn256.G1).ScalarBaseMult(bv)).Marshal(), true)
		add("alg:double", new(bn256.G1).Add(S, S).Marshal(), true)
		add("alg:other-key", sigOtherKey.Serialize(), true)
		add("alg:other-message", sigOtherMsg.Serialize(), true)
		add("alg:generator-multiple", new(bn256.G1).ScalarBaseMult(skv).Marshal(), true)
		add("identity", make([]byte, 64), true)
		add("alg:order-multiple", new(bn256.G1).ScalarMult(S, order).Marshal(), true) // r*sig = identity
		// positive controls: the same element reached another way must give the honest bytes
		rp1 := new(big.Int).Add(order, big.NewInt(1))
		ctl1 := new(bn256.G1).ScalarMult(S, rp1).Marshal()
		ctl2 := new(bn256.G1).Add(new(bn256.G1).Add(S, S), new(bn256.G1).Neg(S)).Marshal()
		if !bytes.Equal(ctl1, hb) || !bytes.Equal(ctl2, hb) {
			viol("C14/group-law:control", "(r+1)*sig or (sig+sig)-sig is not sig", info(cand{class: "control", b: ctl1}, "ctl2", hexs(ctl2)))
		}
		// coordinate aliases x+p / y+p (when they still fit 256 bits)
		x := new(big.Int).SetBytes(hb[:32])
		y := new(big.Int).SetBytes(hb[32:])
		xp := new(big.Int).Add(x, fp)
		yp := new(big.Int).Add(y, fp)
		if xp.Cmp(two256) < 0 {
			add("alias:x+p", append(b32(xp), hb[32:]...), true)
		}
		if yp.Cmp(two256) < 0 {
			add("alias:y+p", append(cp(hb[:32]), b32(yp)...), true)
		}
		if xp.Cmp(two256) < 0 && yp.Cmp(two256) < 0 {
			add("alias:x+p,y+p", append(b32(xp), b32(yp)...), true)
		}
		add("alias:identity(p,p)", append(b32(fp), b32(fp)...), true)
		add("alias:identity(p,0)", append(b32(fp), make([]byte, 32)...), true)
		add("alias:identity(0,p)", append(make([]byte, 32), b32(fp)...), true)
		// off-curve / special points
		add("offcurve:random", rng.Bytes(64), false)
		rx := new(big.Int).SetBytes(rng.Bytes(32))
		rx.Mod(rx, fp)
		add("offcurve:x-random", append(b32(rx), hb[32:]...), false)
		y1 := new(big.Int).Add(y, big.NewInt(1))
		y1.Mod(y1, fp)
		add("offcurve:y+1", append(cp(hb[:32]), b32(y1)...), false)
		add("offcurve:swapped", append(cp(hb[32:]), hb[:32]...), false)
		add("offcurve:(x,0)", append(cp(hb[:32]), make([]byte, 32)...), false)
		add("offcurve:(0,y)", append(make([]byte, 32), hb[32:]...), false)
		add("offcurve:ff", bytes.Repeat([]byte{0xff}, 64), false)
		add("range:(p-1,p-1)", append(b32(new(big.Int).Sub(fp, big.NewInt(1))), b32(new(big.Int).Sub(fp, big.NewInt(1)))...), false)
		// bit flips
		if inst < fullFor {
			for bit := 0; bit < 512; bit++ {
				cands = append(cands, cand{"flip", fmt.Sprintf("(CFlip %d%%N)", bit), flip(hb, bit), false})
			}
		} else {
			for k := 0; k < 24; k++ {
				bit := rng.Intn(512)
				cands = append(cands, cand{"flip", fmt.Sprintf("(CFlip %d%%N)", bit), flip(hb, bit), false})
			}
		}
		// truncations
		if inst < fullFor {
			for n := 0; n < 64; n++ {
				cands = append(cands, cand{"truncated", fmt.Sprintf("(CTrunc %d%%N)", n), cp(hb[:n]), n == 0})
			}
		} else {
			for _, n := range []int{0, 1, 31, 32, 33, 63, rng.Intn(64)} {
				cands = append(cands, cand{"truncated", fmt.Sprintf("(CTrunc %d%%N)", n), cp(hb[:n]), n == 0})
			}
		}
		// extensions
		exts := []int{1, 2, 32, 33, 64, 1 + rng.Intn(33)}
		if inst < fullFor {
			exts = exts[:0]
			for n := 1; n <= 33; n++ {
				exts = append(exts, n)
			}
			exts = append(exts, 64, 128)
		}
		for k, n := range exts {
			suf := rng.Bytes(n)
			if k%3 == 0 {
				suf = make([]byte, n)
			}
			cands = append(cands, cand{"overlong", "(CExt " + hx.CoqHex(suf) + ")", append(cp(hb), suf...), true})
		}
		// identity with extension / truncated identity
		add("identity-overlong", make([]byte, 65), true)

		for _, c := range cands {
			o := observeSig(*pk, msg, c.b)
			honest := bytes.Equal(c.b, hb)
			parsed := len(c.b) >= 64
			id := fmt.Sprintf("%d/sig/%s", inst, hexs(c.b))
			cls := "sig:" + c.class + ":"
			if o.Panic != "" {
				res.Count(cls+"panic", id, parsed)
				viol("C14/panic:verify-signature", "DeserializeSign/VerifySig panicked: "+o.Panic, info(c))
				continue
			}
			if o.Ok {
				cls += "accepted"
			} else {
				cls += "rejected"
			}
			res.Count(cls, id, parsed)
			if honest && !o.Ok {
				viol("C14/reject-honest:signature", "the honest signature does not verify", info(c))
			}
			if !honest && o.Ok {
				key := "C14/accept-other:" + c.class
				switch {
				case c.class == "overlong":
					key = "C14/accept-other:overlong-signature"
				case strings.HasPrefix(c.class, "alias:x") || strings.HasPrefix(c.class, "alias:y"):
					key = "C14/accept-other:coordinate-alias"
				}
				viol(key, "VerifySig(pk, msg, DeserializeSign(candidate)) = true for a byte string that is not the signature's encoding", info(c))
			}
			// parse-level faithfulness, independent of the pairing: what Deserialize accepts without error is a
			// curve point and is byte for byte what Serialize writes back
			if !o.Err && !o.Valid {
				viol("C14/parse:invalid-point-signature", "Signature.Deserialize returns no error for bytes that are not a point of the curve (IsValid is false)", info(c))
			}
			if !o.Err && !bytes.Equal(o.Ser, c.b) {
				viol("C14/encoding:noncanonical-signature:"+c.class, "Signature.Deserialize accepts a byte string that Serialize does not write back", info(c, "reserialized", hexs(o.Ser)))
			}
			if honest && (!bytes.Equal(o.Ser, hb) || o.Err || o.Nil || !o.Valid) {
				viol("C14/roundtrip:signature", "Signature Serialize/Deserialize round trip changed the value", info(c, "reserialized", hexs(o.Ser)))
			}
			cs.Add(fmt.Sprintf("(SigCase %s %s %s)", hx.CoqHex(hb), c.coq, coqObs(o)), info(c, "observed", o))
			if inst < 3 && (c.class == "honest" || c.class == "alg:negated" || c.class == "overlong") && len(res.Samples) < 6 {
				res.Sample(info(c, "accepted", o.Ok))
			}
			if c.heavy {
				ok, pan := observeSigHex(*pk, msg, c.b)
				idh := fmt.Sprintf("%d/hex/%s", inst, hexs(c.b))
				if pan != "" {
					res.Count("hex:"+c.class+":panic", idh, parsed)
					viol("C14/panic:sethexstring", "SetHexString/VerifySig panicked: "+pan, info(c))
				} else {
					if ok {
						res.Count("hex:"+c.class+":accepted", idh, parsed)
					} else {
						res.Count("hex:"+c.class+":rejected", idh, parsed)
					}
					if honest && !ok {
						viol("C14/reject-honest:hex", "the honest signature does not verify through SetHexString", info(c))
					}
					if !honest && ok {
						key := "C14/accept-other-hex:" + c.class
						if c.class == "overlong" {
							key = "C14/accept-other:overlong-signature"
						} else if strings.HasPrefix(c.class, "alias:x") || strings.HasPrefix(c.class, "alias:y") {
							key = "C14/accept-other:coordinate-alias"
						}
						viol(key, "VerifySig accepts a non-honest byte string through Signature.SetHexString", info(c))
					}
					cs.Add(fmt.Sprintf("(HexCase %s %s %s)", hx.CoqHex(hb), c.coq, hx.CoqBool(ok)), info(c, "entry", "SetHexString", "accepted", ok))
				}
			}
		}

		// ---- exponent model on the scalars of the algebraic candidates: candidate = c * H(m)
		type alg struct {
			name string
			c    *big.Int
			b    []byte
		}
		H := new(bn256.G1)
		H.HashToPoint(msg)
		mk := func(c *big.Int) []byte { return new(bn256.G1).ScalarMult(H, c).Marshal() }
		neg := new(big.Int).Sub(order, skv)
		algs := []alg{
			{"sk", skv, nil}, {"-sk", neg, nil}, {"sk+sk2", new(big.Int).Add(skv, sk2v), nil},
			{"a*sk", new(big.Int).Mul(av, skv), nil}, {"sk2", sk2v, nil}, {"2sk", new(big.Int).Lsh(skv, 1), nil},
			{"sk+r", new(big.Int).Add(skv, order), nil}, {"0", big.NewInt(0), nil}, {"r", new(big.Int).Set(order), nil},
			{"a", av, nil},
		}
		for _, g := range algs {
			b := mk(g.c)
			o := observeSig(*pk, msg, b)
			id := fmt.Sprintf("%d/alg/%s", inst, g.c.String())
			if o.Ok {
				res.Count("exponent:"+g.name+":accepted", id, true)
			} else {
				res.Count("exponent:"+g.name+":rejected", id, true)
			}
			same := new(big.Int).Mod(g.c, order).Cmp(new(big.Int).Mod(skv, order)) == 0
			if o.Ok != same {
				viol("C14/exponent:"+g.name, "VerifySig(pk, m, c*H(m)) disagrees with c = sk (mod r)",
					map[string]interface{}{"sk": skv.String(), "c": g.c.String(), "msg": hexs(msg), "candidate": hexs(b), "accepted": o.Ok})
			}
			cs.Add(fmt.Sprintf("(AlgCase %s %s %s)", zs(skv), zs(g.c), hx.CoqBool(o.Ok)),
				map[string]interface{}{"kind": "exponent", "sk": skv.String(), "c": g.c.String(), "msg": hexs(msg), "accepted": o.Ok})
		}

		// ---- hash-to-point and Sign with a small secret key against the model's try-and-increment hash and
		// affine group law (slow in the model: one modular square root / inversion is ~400 field multiplications)
		if inst < 1 || (thorough && inst < 4) {
			k := int64(2 + rng.Intn(2))
			dg := sha256.Sum256(msg)
			skS := groupsig.NewSeckeyFromBigInt(big.NewInt(k))
			sgS := groupsig.Sign(*skS, msg)
			sgb := sgS.Serialize()
			ngb := new(bn256.G1).Neg(g1(sgb)).Marshal()
			okS := groupsig.VerifySig(*groupsig.GeneratePubkey(*skS), msg, sgS)
			res.Count(fmt.Sprintf("sign-small:k=%d:verifies=%v", k, okS), fmt.Sprintf("%d/small/%d", inst, k), true)
			if !okS {
				viol("C14/reject-honest:small-key", "Sign with a small secret key does not verify", map[string]interface{}{"sk": k, "msg": hexs(msg)})
			}
			cs.Add(fmt.Sprintf("(HashCase %s %d%%N %s %s %s)", hx.CoqHex(dg[:]), k, hx.CoqHex(H.Marshal()), hx.CoqHex(sgb), hx.CoqHex(ngb)),
				map[string]interface{}{"kind": "hash-and-sign", "msg": hexs(msg), "sha256": hexs(dg[:]), "sk": k, "H": hexs(H.Marshal()), "sig": hexs(sgb), "neg": hexs(ngb)})
		}

		// ---- Sign = ScalarMult(H(m), sk) with the real 256-bit key, and a random unreduced 256-bit scalar, against
		// the model of curve.go's Jacobian double-and-add + MakeAffine (~30 s of vm_compute per case)
		if inst < 1 || (thorough && inst < 3) {
			ks := []*big.Int{skv}
			if thorough {
				ks = append(ks, new(big.Int).SetBytes(rng.Bytes(32)))
			}
			for _, k := range ks {
				out := new(bn256.G1).ScalarMult(H, k).Marshal()
				if k == skv && !bytes.Equal(out, hb) {
					viol("C14/sign:not-scalar-mult", "Sign(sk, m) differs from ScalarMult(HashToPoint(m), sk)", map[string]interface{}{"sk": skv.String(), "msg": hexs(msg)})
				}
				res.Count("scalar-mult:256-bit", fmt.Sprintf("%d/mul/%s", inst, k.String()), true)
				cs.Add(fmt.Sprintf("(MulCase %s %s %s)", hx.CoqHex(H.Marshal()), zs(k), hx.CoqHex(out)),
					map[string]interface{}{"kind": "scalar-mult", "H": hexs(H.Marshal()), "k": k.String(), "result": hexs(out), "msg": hexs(msg)})
			}
		}

		// ---- public-key candidates (verified against the honest signature)
		Q := g2(pkb)
		var pc []cand
		padd := func(class string, b []byte) { pc = append(pc, cand{class, "(CBytes " + hx.CoqHex(b) + ")", b, true}) }
		padd("honest", pkb)
		padd("alg:negated", new(bn256.G2).Neg(Q).Marshal())
		padd("alg:other-key", pk2.Serialize())
		padd("alg:sum", new(bn256.G2).Add(Q, g2(pk2.Serialize())).Marshal())
		padd("alg:multiple", new(bn256.G2).ScalarMult(Q, av).Marshal())
		if inst < 3 || thorough {
			// G2.Unmarshal checks the twist equation only (no subgroup test): a twist point outside G2 and the
			// key shifted by a cofactor-order point T = r*R parse as public keys; neither may verify the signature
			if rb, T := twistPointOutsideG2(rng); rb != nil {
				padd("subgroup:twist-point-outside-G2", rb)
				padd("subgroup:pk+cofactor-point", new(bn256.G2).Add(Q, T).Marshal())
				// the cofactor 2p - r = 13 * 7369 * (239-bit): points of small order
				cof := new(big.Int).Sub(new(big.Int).Lsh(fp, 1), order)
				for _, n := range []int64{13, 7369} {
					Tn := new(bn256.G2).ScalarMult(T, new(big.Int).Div(cof, big.NewInt(n)))
					if len(Tn.Marshal()) == 1 {
						continue
					}
					padd(fmt.Sprintf("subgroup:order-%d-point", n), Tn.Marshal())
					padd(fmt.Sprintf("subgroup:pk+order-%d-point", n), new(bn256.G2).Add(Q, Tn).Marshal())
					// under such a key not even the identity signature may verify
					var okI bool
					func() {
						defer func() { recover() }()
						okI = groupsig.VerifySig(groupsig.ByteToPublicKey(Tn.Marshal()), msg, *groupsig.DeserializeSign(make([]byte, 64)))
					}()
					res.Count(fmt.Sprintf("pk:subgroup:order-%d-point:identity-sig:accepted=%v", n, okI), fmt.Sprintf("%d/ord%d/%x", inst, n, Tn.Marshal()), true)
					if okI {
						viol("C14/subgroup:small-order-key", "the identity signature verifies under a small-order twist point used as public key",
							map[string]interface{}{"pk": hexs(Tn.Marshal()), "order": n, "msg": hexs(msg)})
					}
				}
			}
		}
		padd("identity", make([]byte, 128))
		padd("identity-marshal", []byte{0})
		padd("empty", []byte{})
		for k := 0; k < 4; k++ {
			c := new(big.Int).SetBytes(pkb[32*k : 32*k+32])
			cpv := new(big.Int).Add(c, fp)
			if cpv.Cmp(two256) < 0 {
				al := cp(pkb)
				copy(al[32*k:], b32(cpv))
				padd("alias:coord+p", al)
			}
		}
		padd("offcurve:random", rng.Bytes(128))
		padd("offcurve:swapped", append(cp(pkb[64:]), pkb[:64]...))
		nflip := 10
		if inst < fullFor {
			nflip = 128
		}
		for k := 0; k < nflip; k++ {
			bit := rng.Intn(1024)
			if inst < fullFor {
				bit = (k*8 + rng.Intn(8)) % 1024
			}
			pc = append(pc, cand{"flip", fmt.Sprintf("(CFlip %d%%N)", bit), flip(pkb, bit), false})
		}
		for _, n := range []int{1, 64, 127, rng.Intn(128)} {
			pc = append(pc, cand{"truncated", fmt.Sprintf("(CTrunc %d%%N)", n), cp(pkb[:n]), false})
		}
		for _, n := range []int{1, 2, 33, 1 + rng.Intn(64)} {
			suf := rng.Bytes(n)
			pc = append(pc, cand{"overlong", "(CExt " + hx.CoqHex(suf) + ")", append(cp(pkb), suf...), true})
		}
		for _, c := range pc {
			o := observePk(c.b, msg, sig)
			honest := bytes.Equal(c.b, pkb)
			parsed := len(c.b) >= 128
			id := fmt.Sprintf("%d/pk/%s", inst, hexs(c.b))
			if o.Panic != "" {
				res.Count("pk:"+c.class+":panic", id, parsed)
				viol("C14/panic:verify-pubkey", "Pubkey.Deserialize/VerifySig panicked: "+o.Panic, info(c))
				continue
			}
			if o.Ok {
				res.Count("pk:"+c.class+":accepted", id, parsed)
			} else {
				res.Count("pk:"+c.class+":rejected", id, parsed)
			}
			if honest && !o.Ok {
				viol("C14/reject-honest:pubkey", "the honest public key does not verify the honest signature", info(c))
			}
			if honest && (o.Err != 0 || !bytes.Equal(o.Ser, pkb)) {
				viol("C14/roundtrip:pubkey", "Pubkey Serialize/Deserialize round trip changed the value", info(c, "reserialized", hexs(o.Ser)))
			}
			if o.Err == 0 && !bytes.Equal(o.Ser, c.b) {
				viol("C14/encoding:noncanonical-pubkey:"+c.class, "Pubkey.Deserialize accepts a byte string that Serialize does not write back", info(c, "reserialized", hexs(o.Ser)))
			}
			if !honest && o.Ok {
				key := "C14/pubkey-accept-other:" + c.class
				if c.class == "overlong" {
					key = "C14/accept-other:overlong-pubkey"
				} else if c.class == "alias:coord+p" {
					key = "C14/accept-other:coordinate-alias"
				}
				viol(key, "a byte string that is not the public key's encoding parses to a key under which the signature verifies", info(c))
			}
			cs.Add(fmt.Sprintf("(PkCase %s %s %d%%N %s %s)", hx.CoqHex(pkb), c.coq, o.Err, hx.CoqHex(o.Ser), hx.CoqBool(o.Ok)),
				map[string]interface{}{"kind": "pubkey", "pk": hexs(pkb), "class": c.class, "candidate": hexs(c.b), "observed": o})
		}

		// ---- the identity public key (128 zero bytes): no signature may verify under it
		{
			zpkb := make([]byte, 128)
			for _, sc := range []cand{{class: "identity", b: make([]byte, 64)}, {class: "honest", b: hb}} {
				var ok bool
				pan := ""
				func() {
					defer func() {
						if r := recover(); r != nil {
							pan = fmt.Sprint(r)
						}
					}()
					zpk := groupsig.ByteToPublicKey(zpkb)
					ok = groupsig.VerifySig(zpk, msg, *groupsig.DeserializeSign(sc.b))
				}()
				id := fmt.Sprintf("%d/zeropk/%s", inst, hexs(sc.b))
				if pan != "" {
					res.Count("zero-pk:"+sc.class+":panic", id, true)
					viol("C14/panic:zero-pubkey", "VerifySig panicked under the all-zero public key: "+pan, info(sc))
					continue
				}
				if ok {
					res.Count("zero-pk:"+sc.class+":accepted", id, true)
					viol("C14/identity:zero-pubkey", "the identity signature (64 zero bytes) verifies for this message under the all-zero public key",
						map[string]interface{}{"pk": hexs(zpkb), "msg": hexs(msg), "candidate": hexs(sc.b)})
				} else {
					res.Count("zero-pk:"+sc.class+":rejected", id, true)
				}
				cs.Add(fmt.Sprintf("(ZeroPkCase %s %s %s)", hx.CoqHex(hb), hx.CoqHex(sc.b), hx.CoqBool(ok)),
					map[string]interface{}{"kind": "zero-pubkey", "msg": hexs(msg), "candidate": hexs(sc.b), "accepted": ok})
			}
		}

		// ---- scalar codecs: Seckey, ID
		for k := 0; k < 3; k++ {
			v := randScalar(rng)
			switch k {
			case 1:
				v = new(big.Int).Rsh(v, uint(8*rng.Intn(32))) // short encodings
			case 2:
				v = skv
			}
			s := groupsig.NewSeckeyFromBigInt(new(big.Int).Set(v))
			ser := s.Serialize()
			var back groupsig.Seckey
			e := back.Deserialize(cp(ser))
			okrt := e == nil && back.IsEqual(*s) && back.GetBigInt().Cmp(v) == 0
			res.Count(fmt.Sprintf("codec:seckey:%v", okrt), "sk/"+v.String(), true)
			if !okrt {
				viol("C14/roundtrip:seckey", "Seckey Serialize/Deserialize round trip changed the value", map[string]interface{}{"sk": v.String(), "ser": hexs(ser)})
			}
			var hs groupsig.Seckey
			if hs.SetHexString(s.GetHexString()) != nil || !hs.IsEqual(*s) {
				viol("C14/roundtrip:seckey-hex", "Seckey hex round trip changed the value", map[string]interface{}{"sk": v.String()})
			}
			cs.Add(fmt.Sprintf("(SkCase %s %s)", zs(v), hx.CoqHex(ser)), map[string]interface{}{"kind": "seckey", "v": v.String(), "ser": hexs(ser)})

			idv := new(big.Int).SetBytes(rng.Bytes(32))
			if k == 1 {
				idv = new(big.Int).Rsh(idv, uint(8*rng.Intn(32)))
			}
			var idd groupsig.ID
			idd.SetBigInt(idv)
			iser := idd.Serialize()
			back2 := groupsig.DeserializeID(cp(iser))
			okid := back2.IsEqual(idd) && back2.GetBigInt().Cmp(idv) == 0 && len(iser) == 32
			res.Count(fmt.Sprintf("codec:id:%v", okid), "id/"+idv.String(), true)
			if !okid {
				viol("C14/roundtrip:id", "ID Serialize/Deserialize round trip changed the value", map[string]interface{}{"id": idv.String(), "ser": hexs(iser)})
			}
			var hid groupsig.ID
			if hid.SetHexString(idd.GetHexString()) != nil || !hid.IsEqual(idd) {
				viol("C14/roundtrip:id-hex", "ID hex round trip changed the value", map[string]interface{}{"id": idv.String(), "hex": idd.GetHexString()})
			}
			cs.Add(fmt.Sprintf("(IdCase %s %s)", zs(idv), hx.CoqHex(iser)), map[string]interface{}{"kind": "id", "v": idv.String(), "ser": hexs(iser)})
		}
		// pubkey / signature hex round trips
		{
			var hp groupsig.Pubkey
			if hp.SetHexString(pk.GetHexString()) != nil || !hp.IsEqual(*pk) {
				viol("C14/roundtrip:pubkey-hex", "Pubkey hex round trip changed the value", map[string]interface{}{"pk": hexs(pkb)})
			}
			var hsg groupsig.Signature
			if hsg.SetHexString(sig.GetHexString()) != nil || !hsg.IsEqual(sig) {
				viol("C14/roundtrip:signature-hex", "Signature hex round trip changed the value", map[string]interface{}{"sig": hexs(hb)})
			}
			res.Count("codec:hex", fmt.Sprintf("%d/hexrt", inst), true)
		}

		// ---- hex TEXT entry points (SetHexString of Signature / Pubkey / Seckey / ID): common.Hex2Bytes drops the
		// hex.DecodeString error and returns the bytes decoded so far, big.Int.SetString's failure flag was dropped
		if inst < 3 || thorough {
			isHexDigits := func(t string) bool {
				if len(t) == 0 {
					return false
				}
				for _, c := range []byte(t) {
					if !(('0' <= c && c <= '9') || ('a' <= c && c <= 'f') || ('A' <= c && c <= 'F')) {
						return false
					}
				}
				return true
			}
			type tv struct{ class, text string }
			variants := func(h string) []tv {
				k := 0
				if len(h) >= 6 {
					k = 2 * (1 + rng.Intn(len(h)/2-2))
				}
				k2 := k + 2
				if k2 > len(h) {
					k2 = len(h)
				}
				return []tv{
					{"honest", "0x" + h}, {"uppercase", "0x" + strings.ToUpper(h)},
					{"trailing-nibble", "0x" + h + "0"}, {"trailing-junk", "0x" + h + "zz"}, {"trailing-byte", "0x" + h + "00"},
					{"trailing-space", "0x" + h + " "}, {"embedded-junk", "0x" + h[:k] + "zz" + h[k2:]},
					{"prefix-0X", "0X" + h}, {"prefix-double", "0x0x" + h}, {"prefix-missing", h},
					{"short-odd", "0x" + h[:len(h)-1]}, {"leading-space", "0x " + h}, {"only-prefix", "0x"}, {"empty", ""},
					{"junk-then-honest", "0xzz" + h}, {"sign", "0x-" + h}, {"plus", "0x+" + h}, {"underscore", "0x" + h[:k] + "_" + h[k:]},
				}
			}
			// signatures
			for _, v := range variants(hexs(hb)) {
				var e error
				var ok bool
				pan := ""
				func() {
					defer func() {
						if r := recover(); r != nil {
							pan = fmt.Sprint(r)
						}
					}()
					var sg groupsig.Signature
					e = sg.SetHexString(v.text)
					ok = groupsig.VerifySig(*pk, msg, sg)
				}()
				id := fmt.Sprintf("%d/sigtext/%s", inst, v.text)
				in := map[string]interface{}{"kind": "signature-hex-text", "class": v.class, "text": v.text, "honest_sig": hexs(hb), "pk": hexs(pkb), "msg": hexs(msg), "sk": skv.String()}
				if pan != "" {
					res.Count("text:sig:"+v.class+":panic", id, true)
					viol("C14/panic:sethexstring", "Signature.SetHexString/VerifySig panicked: "+pan, in)
					continue
				}
				res.Count(fmt.Sprintf("text:sig:%s:err=%v,accepted=%v", v.class, e != nil, ok), id, true)
				clean := strings.HasPrefix(v.text, "0x") && len(v.text) == 2+128 && isHexDigits(v.text[2:])
				same := clean && strings.EqualFold(v.text[2:], hexs(hb))
				if ok != same || (e == nil) != same {
					viol("C14/hex-text:signature:"+v.class, "Signature.SetHexString accepts (or VerifySig verifies) a text that is not the signature's hex encoding, or refuses the honest one", in)
				}
				cs.Add(fmt.Sprintf("(TextSig %s %s %s %s)", hx.CoqHex(hb), hx.CoqStr(v.text), hx.CoqBool(e != nil), hx.CoqBool(ok)), in)
			}
			// public keys
			for _, v := range variants(hexs(pkb)) {
				var e error
				var ok bool
				pan := ""
				func() {
					defer func() {
						if r := recover(); r != nil {
							pan = fmt.Sprint(r)
						}
					}()
					var pp groupsig.Pubkey
					e = pp.SetHexString(v.text)
					ok = e == nil && groupsig.VerifySig(pp, msg, sig)
				}()
				id := fmt.Sprintf("%d/pktext/%s", inst, v.text)
				in := map[string]interface{}{"kind": "pubkey-hex-text", "class": v.class, "text": v.text, "pk": hexs(pkb), "msg": hexs(msg)}
				if pan != "" {
					res.Count("text:pk:"+v.class+":panic", id, true)
					viol("C14/panic:sethexstring-pubkey", "Pubkey.SetHexString/VerifySig panicked: "+pan, in)
					continue
				}
				res.Count(fmt.Sprintf("text:pk:%s:err=%v,accepted=%v", v.class, e != nil, ok), id, true)
				clean := strings.HasPrefix(v.text, "0x") && len(v.text) == 2+256 && isHexDigits(v.text[2:])
				same := clean && strings.EqualFold(v.text[2:], hexs(pkb))
				if ok != same || (e == nil) != same {
					viol("C14/hex-text:pubkey:"+v.class, "Pubkey.SetHexString accepts a text that is not the key's hex encoding, or refuses the honest one", in)
				}
				cs.Add(fmt.Sprintf("(TextPk %s %s %s %s)", hx.CoqHex(pkb), hx.CoqStr(v.text), hx.CoqBool(e != nil), hx.CoqBool(ok)), in)
			}
			// secret keys and ids: value after SetHexString on a fresh variable
			idv := new(big.Int).SetBytes(rng.Bytes(32))
			var idd groupsig.ID
			idd.SetBigInt(idv)
			for kind, h := range map[string]string{"seckey": sk.GetHexString()[2:], "id": idd.GetHexString()[2:]} {
				want := skv
				if kind == "id" {
					want = idv
				}
				for _, v := range variants(h) {
					if v.class == "short-odd" || v.class == "trailing-nibble" || v.class == "trailing-byte" {
						continue // a different number, legitimately
					}
					var e error
					var got *big.Int
					pan := ""
					func() {
						defer func() {
							if r := recover(); r != nil {
								pan = fmt.Sprint(r)
							}
						}()
						if kind == "seckey" {
							var x groupsig.Seckey
							e = x.SetHexString(v.text)
							got = x.GetBigInt()
						} else {
							var x groupsig.ID
							e = x.SetHexString(v.text)
							got = x.GetBigInt()
						}
					}()
					id := fmt.Sprintf("%d/%stext/%s", inst, kind, v.text)
					in := map[string]interface{}{"kind": kind + "-hex-text", "class": v.class, "text": v.text, "value": want.String()}
					if pan != "" {
						res.Count("text:"+kind+":"+v.class+":panic", id, true)
						viol("C14/panic:sethexstring-"+kind, kind+" SetHexString panicked: "+pan, in)
						continue
					}
					in["got"] = got.String()
					res.Count(fmt.Sprintf("text:%s:%s:err=%v", kind, v.class, e != nil), id, true)
					clean := strings.HasPrefix(v.text, "0x") && isHexDigits(v.text[2:])
					if clean != (e == nil) || (clean && got.Cmp(want) != 0) || (!clean && got.Sign() != 0) {
						viol("C14/hex-text:"+kind+":"+v.class, kind+".SetHexString returns no error for a text that is not a hex number (or sets a value from it), or mis-reads a clean one", in)
					}
					cs.Add(fmt.Sprintf("(TextScalar %s %s %s)", hx.CoqStr(v.text), hx.CoqBool(e != nil), zs(got)), in)
				}
			}
		}

		// ---- receiver reuse: every parser entry point of Signature / Pubkey / Seckey / ID (Deserialize,
		// SetHexString, UnmarshalJSON) is first given a valid value and then, on the SAME receiver, each malformed
		// family. A failed parse must return an error and leave an object that does not verify / is not valid /
		// is zero — parsing is a function of the input only (the model's parse result None = invalid object).
		{
			hx2 := func(b []byte) string { return "0x" + hexs(b) }
			js := func(t string) []byte { return []byte("\"" + t + "\"") }
			type bad struct {
				class string
				b     []byte // byte entry
				t     string // hex text entry
			}
			badsFor := func(h []byte) []bad {
				oc := cp(h)
				oc[len(oc)-1] ^= 1
				big1 := cp(h)
				copy(big1, bytes.Repeat([]byte{0xff}, 32))
				return []bad{
					{"overlong", append(cp(h), 0), hx2(h) + "00"}, {"truncated", cp(h[:len(h)-1]), hx2(h[:len(h)-1])},
					{"empty", []byte{}, ""}, {"off-curve", oc, hx2(oc)}, {"coordinate>=p", big1, hx2(big1)},
					{"junk-tail", append(cp(h), 'z', 'z'), hx2(h) + "zz"}, {"odd-nibble", nil, hx2(h) + "0"},
					{"missing-0x", nil, hexs(h)}, {"only-prefix", nil, "0x"}, {"embedded-junk", nil, hx2(h)[:20] + "zz" + hx2(h)[22:]},
				}
			}
			report := func(typ, entry, class string, gotErr, stillGood bool, detail map[string]interface{}) {
				res.Count(fmt.Sprintf("reuse:%s.%s:%s:err=%v,still-usable=%v", typ, entry, class, gotErr, stillGood), fmt.Sprintf("%d/reuse/%s/%s/%s", inst, typ, entry, class), true)
				if !gotErr || stillGood {
					detail["type"], detail["entry"], detail["malformed"], detail["error_returned"], detail["receiver_still_usable"] = typ, entry, class, gotErr, stillGood
					viol("C14/parse:receiver-keeps-previous-value:"+typ+"."+entry, "after a FAILED parse into a receiver that held a valid value the receiver is still usable (verifies / is valid / non-zero), or no error was returned", detail)
				}
			}
			// Signature
			for _, bd := range badsFor(hb) {
				for _, entry := range []string{"Deserialize", "SetHexString"} {
					if entry == "Deserialize" && bd.b == nil {
						continue
					}
					var s groupsig.Signature
					s.Deserialize(cp(hb))
					var e error
					if entry == "Deserialize" {
						e = s.Deserialize(cp(bd.b))
					} else {
						e = s.SetHexString(bd.t)
					}
					okV := groupsig.VerifySig(*pk, msg, s)
					report("Signature", entry, bd.class, e != nil, okV || !s.IsNil(), map[string]interface{}{"previous": hexs(hb), "input_bytes": hexs(bd.b), "input_text": bd.t, "verifies_after": okV, "msg": hexs(msg), "pk": hexs(pkb)})
					if entry == "Deserialize" {
						o := sobs{Err: e != nil, Nil: s.IsNil(), Valid: s.IsValid(), Ser: s.Serialize(), Ok: okV}
						cs.Add(fmt.Sprintf("(SigCase %s (CBytes %s) %s)", hx.CoqHex(hb), hx.CoqHex(bd.b), coqObs(o)), map[string]interface{}{"kind": "signature-receiver-reuse", "class": bd.class, "candidate": hexs(bd.b)})
					} else {
						cs.Add(fmt.Sprintf("(TextSig %s %s %s %s)", hx.CoqHex(hb), hx.CoqStr(bd.t), hx.CoqBool(e != nil), hx.CoqBool(okV)), map[string]interface{}{"kind": "signature-receiver-reuse-hex", "class": bd.class, "text": bd.t})
					}
				}
			}
			// Pubkey
			for _, bd := range badsFor(pkb) {
				for _, entry := range []string{"Deserialize", "SetHexString", "UnmarshalJSON"} {
					if entry == "Deserialize" && bd.b == nil {
						continue
					}
					var p groupsig.Pubkey
					p.Deserialize(cp(pkb))
					var e error
					okV, valid := false, false
					pan := ""
					func() {
						defer func() {
							if r := recover(); r != nil {
								pan = fmt.Sprint(r)
							}
						}()
						switch entry {
						case "Deserialize":
							e = p.Deserialize(cp(bd.b))
						case "SetHexString":
							e = p.SetHexString(bd.t)
						default:
							e = p.UnmarshalJSON(js(bd.t))
						}
						valid = p.IsValid()
						okV = groupsig.VerifySig(p, msg, sig)
					}()
					report("Pubkey", entry, bd.class, e != nil, okV || valid || pan != "", map[string]interface{}{"previous": hexs(pkb), "input_bytes": hexs(bd.b), "input_text": bd.t, "verifies_after": okV, "is_valid_after": valid, "panic": pan, "msg": hexs(msg)})
					if pan == "" {
						if entry == "Deserialize" {
							cs.Add(fmt.Sprintf("(PkReuse %s (CBytes %s) %s %s)", hx.CoqHex(pkb), hx.CoqHex(bd.b), hx.CoqBool(e != nil), hx.CoqBool(okV)), map[string]interface{}{"kind": "pubkey-receiver-reuse", "class": bd.class, "candidate": hexs(bd.b)})
						} else if entry == "SetHexString" {
							cs.Add(fmt.Sprintf("(TextPk %s %s %s %s)", hx.CoqHex(pkb), hx.CoqStr(bd.t), hx.CoqBool(e != nil), hx.CoqBool(okV)), map[string]interface{}{"kind": "pubkey-receiver-reuse-hex", "class": bd.class, "text": bd.t})
						}
					}
				}
			}
			// short JSON data for Pubkey / ID
			for _, d := range [][]byte{{}, []byte("\""), []byte("x")} {
				var p groupsig.Pubkey
				p.Deserialize(cp(pkb))
				e := p.UnmarshalJSON(d)
				report("Pubkey", "UnmarshalJSON", fmt.Sprintf("json-%d-bytes", len(d)), e != nil, p.IsValid(), map[string]interface{}{"previous": hexs(pkb), "input_text": string(d)})
				var idj groupsig.ID
				idj.SetBigInt(big.NewInt(77))
				e = idj.UnmarshalJSON(d)
				report("ID", "UnmarshalJSON", fmt.Sprintf("json-%d-bytes", len(d)), e != nil, idj.IsValid(), map[string]interface{}{"previous": "77", "input_text": string(d)})
			}
			// Seckey / ID hex setters (their Deserialize = big.Int.SetBytes accepts every byte string)
			for _, t := range []struct{ class, text string }{{"junk-tail", "0x1234zz"}, {"missing-0x", "1234"}, {"only-prefix", "0x"}, {"empty", ""}, {"sign", "0x-12"}, {"space", "0x12 34"}} {
				var sc groupsig.Seckey
				sc.SetHexString("0x" + skv.Text(16))
				e := sc.SetHexString(t.text)
				report("Seckey", "SetHexString", t.class, e != nil, sc.IsValid(), map[string]interface{}{"previous": skv.String(), "input_text": t.text, "value_after": sc.GetBigInt().String()})
				cs.Add(fmt.Sprintf("(TextScalar %s %s %s)", hx.CoqStr(t.text), hx.CoqBool(e != nil), zs(sc.GetBigInt())), map[string]interface{}{"kind": "seckey-receiver-reuse-hex", "text": t.text})
				for _, entry := range []string{"SetHexString", "UnmarshalJSON"} {
					var idr groupsig.ID
					idr.SetBigInt(big.NewInt(99))
					if entry == "SetHexString" {
						e = idr.SetHexString(t.text)
					} else {
						e = idr.UnmarshalJSON(js(t.text))
					}
					report("ID", entry, t.class, e != nil, idr.IsValid(), map[string]interface{}{"previous": "99", "input_text": t.text, "value_after": idr.GetBigInt().String()})
				}
			}
		}

		// ---- mixed representations: the same group element as a freshly computed (Jacobian) value, as another
		// Jacobian value reached differently, after MakeAffine (Marshal was called on it), and parsed from bytes
		// (affine). Sums, doublings, opposite points, key aggregation and the pairing must not depend on it.
		{
			hashOK("instance", msg)
			ka, kb := randScalar(rng), randScalar(rng)
			for kb.Cmp(ka) == 0 {
				kb = randScalar(rng)
			}
			reps := []string{"fresh", "fresh-other-route", "made-affine", "parsed"}
			mk1 := func(rep string, k *big.Int) *bn256.G1 {
				switch rep {
				case "fresh":
					return new(bn256.G1).ScalarMult(H, k)
				case "fresh-other-route": // (k-1)*H + H : another Jacobian triple for the same point
					km := new(big.Int).Sub(k, big.NewInt(1))
					km.Mod(km, order)
					return new(bn256.G1).Add(new(bn256.G1).ScalarMult(H, km), H)
				case "made-affine":
					g := new(bn256.G1).ScalarMult(H, k)
					g.Marshal()
					return g
				}
				return g1(new(bn256.G1).ScalarMult(H, k).Marshal())
			}
			want1 := func(k *big.Int) []byte {
				return new(bn256.G1).ScalarMult(H, new(big.Int).Mod(k, order)).Marshal()
			}
			type opcase struct {
				name   string
				k1, k2 *big.Int
				neg2   bool
				want   []byte
			}
			sum := new(big.Int).Add(ka, kb)
			ops := []opcase{
				{"P+P", ka, ka, false, want1(new(big.Int).Lsh(ka, 1))},
				{"P+(-P)", ka, ka, true, make([]byte, 64)},
				{"P+Q", ka, kb, false, want1(sum)},
			}
			nmodel := 0
			for _, op := range ops {
				for _, r1 := range reps {
					for _, r2 := range reps {
						a1, a2 := mk1(r1, op.k1), mk1(r2, op.k2)
						if op.neg2 {
							a2 = new(bn256.G1).Neg(a2)
						}
						var got []byte
						pan := ""
						func() {
							defer func() {
								if r := recover(); r != nil {
									pan = fmt.Sprint(r)
								}
							}()
							got = new(bn256.G1).Add(a1, a2).Marshal()
						}()
						okk := pan == "" && bytes.Equal(got, op.want)
						res.Count(fmt.Sprintf("rep:G1:%s:%s+%s:ok=%v", op.name, r1, r2, okk), fmt.Sprintf("%d/rep/%s/%s/%s", inst, op.name, r1, r2), true)
						if !okk {
							viol("C14/group-law:representation:G1:"+op.name, "G1.Add gives a different group element depending on how its operands are represented ("+r1+" + "+r2+")",
								map[string]interface{}{"H": hexs(H.Marshal()), "k1": op.k1.String(), "k2": op.k2.String(), "negated_second": op.neg2, "rep1": r1, "rep2": r2,
									"got": hexs(got), "want": hexs(op.want), "panic": pan})
						}
						// the model's affine law on a few of them
						if inst < 1 && r1 == "parsed" && r2 == "fresh" && pan == "" && nmodel < 3 {
							nmodel++
							pa := mk1("parsed", op.k1).Marshal()
							pb := mk1("parsed", op.k2)
							if op.neg2 {
								pb = new(bn256.G1).Neg(pb)
							}
							cs.Add(fmt.Sprintf("(AddCase %s %s %s)", hx.CoqHex(pa), hx.CoqHex(pb.Marshal()), hx.CoqHex(got)),
								map[string]interface{}{"kind": "g1-add", "op": op.name, "a": hexs(pa), "b": hexs(pb.Marshal()), "result": hexs(got)})
						}
					}
				}
			}
			// G2 / public keys: aggregation of EQUAL keys in different representations = key of 2*sk
			two := new(big.Int).Lsh(skv, 1)
			two.Mod(two, order)
			wantPk := new(bn256.G2).ScalarBaseMult(two).Marshal()
			mkpk := func(rep string) groupsig.Pubkey {
				switch rep {
				case "fresh":
					return *groupsig.GeneratePubkey(*sk)
				case "made-affine":
					p := groupsig.GeneratePubkey(*sk)
					p.Serialize()
					return *p
				}
				return groupsig.ByteToPublicKey(groupsig.GeneratePubkey(*sk).Serialize())
			}
			for _, r1 := range []string{"fresh", "made-affine", "parsed"} {
				for _, r2 := range []string{"fresh", "made-affine", "parsed"} {
					var got []byte
					pan := ""
					func() {
						defer func() {
							if r := recover(); r != nil {
								pan = fmt.Sprint(r)
							}
						}()
						got = groupsig.AggregatePubkeys([]groupsig.Pubkey{mkpk(r1), mkpk(r2)}).Serialize()
					}()
					okk := pan == "" && bytes.Equal(got, wantPk)
					res.Count(fmt.Sprintf("rep:G2:aggregate-equal-keys:%s+%s:ok=%v", r1, r2, okk), fmt.Sprintf("%d/rep2/%s/%s", inst, r1, r2), true)
					if !okk {
						viol("C14/group-law:representation:G2:aggregate-equal-keys", "AggregatePubkeys of two equal keys ("+r1+", "+r2+") is not the key of 2*sk",
							map[string]interface{}{"sk": skv.String(), "rep1": r1, "rep2": r2, "got": hexs(got), "want": hexs(wantPk), "panic": pan})
					}
				}
			}
			// pairing additivity with P' = P in another representation: e(P + P', Q) = e(P, Q)^2
			if inst < 2 || thorough {
				for _, r2 := range []string{"fresh-other-route", "parsed"} {
					P1 := mk1("fresh", ka)
					lhs := bn256.Pair(new(bn256.G1).Add(P1, mk1(r2, ka)), Q)
					rhs := new(bn256.GT).ScalarMult(bn256.Pair(mk1("parsed", ka), Q), big.NewInt(2))
					okk := bn256.PairIsEuqal(lhs, rhs)
					res.Count(fmt.Sprintf("rep:pairing:e(P+P',Q):fresh+%s:ok=%v", r2, okk), fmt.Sprintf("%d/reppair/%s", inst, r2), true)
					if !okk {
						viol("C14/pairing:bilinear", "e(P + P', Q) != e(P, Q)^2 for P' = P in another representation ("+r2+")",
							map[string]interface{}{"H": hexs(H.Marshal()), "k": ka.String(), "pk": hexs(pkb), "rep2": r2})
					}
				}
			}
			// secret keys >= r: NewSeckeyFromBigInt reduces; Seckey.Deserialize / SetHexString do not, so Sign and
			// GeneratePubkey run the double-and-add on the unreduced scalar. Same key pair, same signature.
			for _, off := range []struct {
				name string
				v    *big.Int
			}{{"r+1", new(big.Int).Add(order, big.NewInt(1))}, {"r+2", new(big.Int).Add(order, big.NewInt(2))},
				{"2r+1", new(big.Int).Add(new(big.Int).Lsh(order, 1), big.NewInt(1))}, {"sk+r", new(big.Int).Add(skv, order)}} {
				red := new(big.Int).Mod(off.v, order)
				skR := groupsig.NewSeckeyFromBigInt(new(big.Int).Set(red))
				wantSig := groupsig.Sign(*skR, msg).Serialize()
				wantPk2 := groupsig.GeneratePubkey(*skR).Serialize()
				for _, via := range []string{"NewSeckeyFromBigInt", "Seckey.Deserialize", "Seckey.SetHexString"} {
					var sU groupsig.Seckey
					switch via {
					case "NewSeckeyFromBigInt":
						sU = *groupsig.NewSeckeyFromBigInt(new(big.Int).Set(off.v))
					case "Seckey.Deserialize":
						sU.Deserialize(off.v.Bytes())
					default:
						sU.SetHexString("0x" + off.v.Text(16))
					}
					var gs, gp []byte
					okV := false
					pan := ""
					func() {
						defer func() {
							if r := recover(); r != nil {
								pan = fmt.Sprint(r)
							}
						}()
						sg := groupsig.Sign(sU, msg)
						pU := groupsig.GeneratePubkey(sU)
						okV = groupsig.VerifySig(*pU, msg, sg)
						gs, gp = sg.Serialize(), pU.Serialize()
					}()
					okk := pan == "" && okV && bytes.Equal(gs, wantSig) && bytes.Equal(gp, wantPk2)
					res.Count(fmt.Sprintf("unreduced-key:%s:%s:ok=%v", off.name, via, okk), fmt.Sprintf("%d/unred/%s/%s", inst, off.name, via), true)
					if !okk {
						viol("C14/reject-honest:unreduced-secret-key:"+off.name, "a secret key >= r (set through "+via+") does not give the key pair / signature of its residue, or its own signature does not verify",
							map[string]interface{}{"sk": off.v.String(), "via": via, "msg": hexs(msg), "verifies": okV, "sig": hexs(gs), "want_sig": hexs(wantSig), "pk": hexs(gp), "want_pk": hexs(wantPk2), "panic": pan})
					}
				}
			}
		}

		// ---- message families: a signature must not verify for ANOTHER message, whatever the two messages share
		// (length classes, a common 32-byte suffix, zero-left-padding, 64-byte point encodings differing in x only),
		// in both orders, all in this one process; and Sign(sk, m) must be sk * HashToPoint(m) as bn256 computes it
		// directly, also after many other messages have been hashed.
		{
			expect := func(m []byte) []byte {
				Hm := new(bn256.G1)
				Hm.HashToPoint(m)
				return new(bn256.G1).ScalarMult(Hm, skv).Marshal()
			}
			checkSign := func(family string, m []byte) groupsig.Signature {
				hashOK(family, m)
				sg := groupsig.Sign(*sk, m)
				okE := bytes.Equal(sg.Serialize(), expect(m))
				okV := groupsig.VerifySig(*pk, m, sg)
				res.Count(fmt.Sprintf("msg:%s:sign=expected:%v,verifies:%v", family, okE, okV), fmt.Sprintf("%d/msgsign/%s", inst, hexs(m)), true)
				if !okE {
					viol("C14/sign:other-message-point:"+family, "Sign(sk, m) is not sk * HashToPoint(m) (computed with bn256 directly) after other messages were hashed",
						map[string]interface{}{"sk": skv.String(), "msg": hexs(m), "len": len(m), "got": hexs(sg.Serialize()), "want": hexs(expect(m))})
				}
				if !okV {
					viol("C14/reject-honest:message-family:"+family, "the honest signature of this message does not verify", map[string]interface{}{"sk": skv.String(), "msg": hexs(m), "len": len(m)})
				}
				return sg
			}
			for _, n := range []int{0, 1, 31, 32, 33, 64, 100} {
				checkSign(fmt.Sprintf("length-%d", n), rng.Bytes(n))
			}
			type mpair struct {
				family string
				a, b   []byte
			}
			suf := rng.Bytes(32)
			short := rng.Bytes(1 + rng.Intn(20))
			py := rng.Bytes(32)
			base := rng.Bytes(1 + rng.Intn(80))
			pairs := []mpair{
				{"shared-32-byte-suffix", append(rng.Bytes(8), suf...), append(rng.Bytes(32), suf...)},
				{"suffix-vs-bare-32-bytes", cp(suf), append(rng.Bytes(1+rng.Intn(40)), suf...)},
				{"zero-left-padded-to-32", cp(short), append(make([]byte, 32-len(short)), short...)},
				{"64-byte-points-differing-in-x", append(rng.Bytes(32), py...), append(rng.Bytes(32), py...)},
				{"empty-vs-32-zero-bytes", []byte{}, make([]byte, 32)},
				{"empty-vs-one-zero-byte", []byte{}, []byte{0}},
				{"one-more-byte", cp(base), append(cp(base), byte(rng.Intn(256)))},
				{"last-bit-differs", cp(msg), flip(msg, 8*len(msg)-1)},
				{"100-bytes-shared-suffix", append(rng.Bytes(68), suf...), append(rng.Bytes(68), suf...)},
			}
			for _, pr := range pairs {
				for order := 0; order < 2; order++ {
					m1, m2 := pr.a, pr.b
					if order == 1 {
						m1, m2 = pr.b, pr.a
					}
					s1 := checkSign(pr.family, m1)
					cross12 := groupsig.VerifySig(*pk, m2, s1) // signature of m1 offered for m2
					s2 := checkSign(pr.family, m2)
					cross21 := groupsig.VerifySig(*pk, m1, s2)
					same := bytes.Equal(s1.Serialize(), s2.Serialize())
					res.Count(fmt.Sprintf("msg:%s:cross-accepted=%v,%v,same-signature=%v", pr.family, cross12, cross21, same),
						fmt.Sprintf("%d/msgpair/%s/%s", inst, hexs(m1), hexs(m2)), true)
					if cross12 || cross21 || same {
						viol("C14/accept-other:other-message:"+pr.family, "a signature made for one message verifies for a different message (or both messages get the same signature)",
							map[string]interface{}{"sk": skv.String(), "pk": hexs(pkb), "signed_msg": hexs(m1), "other_msg": hexs(m2), "signature": hexs(s1.Serialize()),
								"verifies_for_other": cross12, "reverse_verifies": cross21, "same_signature": same})
					}
				}
			}
		}

		// ---- identity elements that arise from the API's own group arithmetic (never through Deserialize): secret
		// keys 0, r, 2r; the aggregate of a key and its negation; shares that cancel in RecoverGroupSignature.
		// No (identity key, message, identity signature) combination may verify.
		{
			type named struct {
				how string
				pk  groupsig.Pubkey
				sg  groupsig.Signature
			}
			var idents []named
			for _, z := range []struct {
				how string
				v   *big.Int
			}{{"seckey-0", big.NewInt(0)}, {"seckey-r", new(big.Int).Set(order)}, {"seckey-2r", new(big.Int).Lsh(order, 1)}} {
				s0 := groupsig.NewSeckeyFromBigInt(new(big.Int).Set(z.v))
				idents = append(idents, named{z.how, *groupsig.GeneratePubkey(*s0), groupsig.Sign(*s0, msg)})
			}
			negv := new(big.Int).Sub(order, skv)
			skNeg := groupsig.NewSeckeyFromBigInt(new(big.Int).Set(negv))
			aggPk := groupsig.AggregatePubkeys([]groupsig.Pubkey{*pk, *groupsig.GeneratePubkey(*skNeg)})
			aggSk := groupsig.AggregateSeckeys([]groupsig.Seckey{*sk, *skNeg})
			if aggPk != nil && aggSk != nil {
				idents = append(idents, named{"aggregate-key-and-negation", *aggPk, groupsig.Sign(*aggSk, msg)})
			}
			// two shares with ids 1, 2 and secrets s, 2s: Lagrange at 0 gives 2s - 2s = 0
			{
				s1v := randScalar(rng)
				s2v := new(big.Int).Lsh(s1v, 1)
				s2v.Mod(s2v, order)
				var id1, id2 groupsig.ID
				id1.SetBigInt(big.NewInt(1))
				id2.SetBigInt(big.NewInt(2))
				sh := map[string]groupsig.Signature{
					id1.GetHexString(): groupsig.Sign(*groupsig.NewSeckeyFromBigInt(new(big.Int).Set(s1v)), msg),
					id2.GetHexString(): groupsig.Sign(*groupsig.NewSeckeyFromBigInt(new(big.Int).Set(s2v)), msg),
				}
				var rec *groupsig.Signature
				func() {
					defer func() { recover() }()
					rec = groupsig.RecoverGroupSignature(sh, 2)
				}()
				if rec != nil && aggPk != nil {
					idents = append(idents, named{"recover-cancelling-shares", *aggPk, *rec})
				}
			}
			for _, e := range idents {
				for _, combo := range []struct {
					what string
					pk   groupsig.Pubkey
					sg   groupsig.Signature
				}{{"identity-key+identity-signature", e.pk, e.sg}, {"honest-key+identity-signature", *pk, e.sg}, {"identity-key+honest-signature", e.pk, sig}} {
					var ok bool
					pan := ""
					func() {
						defer func() {
							if r := recover(); r != nil {
								pan = fmt.Sprint(r)
							}
						}()
						ok = groupsig.VerifySig(combo.pk, msg, combo.sg)
					}()
					id := fmt.Sprintf("%d/identarith/%s/%s", inst, e.how, combo.what)
					in := map[string]interface{}{"how": e.how, "combination": combo.what, "msg": hexs(msg), "sk": skv.String(),
						"pk_bytes": hexs(combo.pk.Serialize()), "sig_bytes": hexs(combo.sg.Serialize())}
					if pan != "" {
						res.Count("identity-arith:"+e.how+":panic", id, true)
						viol("C14/panic:identity-arithmetic", "VerifySig panicked on an identity element produced by the API: "+pan, in)
						continue
					}
					res.Count(fmt.Sprintf("identity-arith:%s:%s:accepted=%v", e.how, combo.what, ok), id, true)
					if ok {
						viol("C14/identity:arithmetic:"+e.how, "VerifySig accepts an identity key/signature produced by the API's own arithmetic ("+combo.what+")", in)
					}
				}
			}
		}

		// ---- purity: no groupsig API call may modify its arguments (keys and signatures hold pointers to curve
		// points, so a "value copy" shares the point). Every input is serialized before and after each call; honest
		// (pk, msg, sig) triples are verified again AFTER the aggregation-type calls that took them as arguments.
		{
			nm := 2 + rng.Intn(4) // members
			secs := make([]groupsig.Seckey, nm)
			pubs := make([]groupsig.Pubkey, nm)
			sigs := make([]groupsig.Signature, nm)
			ids := make([]groupsig.ID, nm)
			skvals := make([]*big.Int, nm)
			for i := 0; i < nm; i++ {
				skvals[i] = randScalar(rng)
				for dup := true; dup; { // distinct members (equal keys would share one id)
					dup = false
					for j := 0; j < i; j++ {
						if skvals[j].Cmp(skvals[i]) == 0 {
							dup = true
							skvals[i] = randScalar(rng)
						}
					}
				}
				secs[i] = *groupsig.NewSeckeyFromBigInt(new(big.Int).Set(skvals[i]))
				pubs[i] = *groupsig.GeneratePubkey(secs[i])
				sigs[i] = groupsig.Sign(secs[i], msg)
				ids[i] = *groupsig.NewIDFromPubkey(pubs[i])
			}
			pmsg := cp(msg)
			snap := func() []string {
				var o []string
				for i := 0; i < nm; i++ {
					o = append(o, "sec:"+hexs(secs[i].Serialize()), "pub:"+hexs(pubs[i].Serialize()), "sig:"+hexs(sigs[i].Serialize()), "id:"+hexs(ids[i].Serialize()))
				}
				return append(o, "msg:"+hexs(pmsg))
			}
			heavy := inst < 2 || thorough
			pure := func(fn, call string, f func()) {
				before := snap()
				pan := ""
				func() {
					defer func() {
						if r := recover(); r != nil {
							pan = fmt.Sprint(r)
						}
					}()
					f()
				}()
				after := snap()
				id := fmt.Sprintf("%d/pure/%s/%s", inst, fn, call)
				changed := []map[string]string{}
				for i := range before {
					if before[i] != after[i] {
						changed = append(changed, map[string]string{"object": fmt.Sprintf("member %d / %s", i/4, strings.SplitN(before[i], ":", 2)[0]), "before": before[i], "after": after[i]})
					}
				}
				cls := "pure:" + fn + ":unchanged"
				if pan != "" {
					cls = "pure:" + fn + ":panic"
				} else if len(changed) > 0 {
					cls = "pure:" + fn + ":MODIFIED"
				}
				res.Count(cls, id, true)
				in := map[string]interface{}{"call": fn + "(" + call + ")", "members": nm, "msg": hexs(msg), "secret_keys": strs(skvals), "changed": changed}
				if pan != "" {
					viol("C14/panic:"+fn, fn+" panicked: "+pan, in)
				}
				if len(changed) > 0 {
					viol("C14/pure:argument-modified:"+fn, fn+" modified an object passed to it (serialization before/after differs)", in)
				}
			}
			// every member key still verifies exactly its own signature
			reverify := func(after string) {
				for i := 0; i < nm; i++ {
					j := (i + 1) % nm
					ok := groupsig.VerifySig(pubs[i], pmsg, sigs[i])
					cross := groupsig.VerifySig(pubs[i], pmsg, sigs[j])
					res.Count(fmt.Sprintf("pure:reverify-after-%s:own=%v,other=%v", after, ok, cross), fmt.Sprintf("%d/rev/%s/%d", inst, after, i), true)
					if !ok || cross {
						viol("C14/pure:verification-changed-after:"+after, "after "+after+" a member key no longer verifies its own signature, or verifies another member's",
							map[string]interface{}{"member": i, "own_accepted": ok, "other_accepted": cross, "pk_now": hexs(pubs[i].Serialize()), "sk": skvals[i].String(), "msg": hexs(msg), "members": nm})
					}
				}
			}
			var gpk *groupsig.Pubkey
			var gsk *groupsig.Seckey
			pure("AggregatePubkeys", "all members", func() { gpk = groupsig.AggregatePubkeys(pubs) })
			pure("AggregatePubkeys", "first member only", func() { groupsig.AggregatePubkeys(pubs[:1]) })
			pure("AggregatePubkeys", "first two members", func() { groupsig.AggregatePubkeys(pubs[:2]) })
			pure("AggregatePubkeys", "last two members", func() { groupsig.AggregatePubkeys(pubs[nm-2:]) })
			pure("AggregatePubkeys", "rotated: last member first", func() {
				groupsig.AggregatePubkeys(append([]groupsig.Pubkey{pubs[nm-1]}, pubs[:nm-1]...))
			})
			pure("AggregateSeckeys", "all members", func() { gsk = groupsig.AggregateSeckeys(secs) })
			pure("AggregateSeckeys", "first two members", func() { groupsig.AggregateSeckeys(secs[:2]) })
			pure("AggregateSeckeys", "rotated: last member first", func() {
				groupsig.AggregateSeckeys(append([]groupsig.Seckey{secs[nm-1]}, secs[:nm-1]...))
			})
			if heavy {
				reverify("Aggregate")
				if gpk != nil && gsk != nil {
					gs := groupsig.Sign(*gsk, pmsg)
					if !groupsig.VerifySig(*gpk, pmsg, gs) || !gpk.IsEqual(*groupsig.GeneratePubkey(*gsk)) {
						viol("C14/aggregate:group-key", "the aggregated public key does not match the aggregated secret key", map[string]interface{}{"secret_keys": strs(skvals), "msg": hexs(msg)})
					}
					if groupsig.VerifySig(pubs[0], pmsg, gs) {
						viol("C14/pure:verification-changed-after:Aggregate", "after aggregation the first member's key verifies the GROUP signature",
							map[string]interface{}{"pk_now": hexs(pubs[0].Serialize()), "secret_keys": strs(skvals), "msg": hexs(msg)})
					}
				}
			}
			pure("ShareSeckey", "polynomial = member secrets, id of member 0", func() { groupsig.ShareSeckey(secs, ids[0]) })
			pure("Sign", "member 0", func() { groupsig.Sign(secs[0], pmsg) })
			pure("GeneratePubkey", "member 0", func() { groupsig.GeneratePubkey(secs[0]) })
			pure("NewIDFromPubkey", "member 0", func() { groupsig.NewIDFromPubkey(pubs[0]) })
			pure("Serialize/GetHexString/IsEqual/IsValid", "all objects of members 0 and 1", func() {
				pubs[0].GetHexString()
				sigs[0].GetHexString()
				secs[0].GetHexString()
				ids[0].GetHexString()
				pubs[0].IsEqual(pubs[1])
				sigs[0].IsEqual(sigs[1])
				secs[0].IsEqual(secs[1])
				ids[0].IsEqual(ids[1])
				pubs[0].IsValid()
				sigs[0].IsValid()
				pubs[0].GetAddress()
				ids[0].ToAddress()
			})
			if heavy {
				pure("VerifySig", "member 0, own signature", func() { groupsig.VerifySig(pubs[0], pmsg, sigs[0]) })
				pure("VerifySig", "member 0, member 1's signature", func() { groupsig.VerifySig(pubs[0], pmsg, sigs[1]) })
			}
			{
				m := map[string]groupsig.Signature{}
				for i := 0; i < nm; i++ {
					m[ids[i].GetHexString()] = sigs[i]
				}
				pure("RecoverGroupSignature", fmt.Sprintf("all members, threshold %d", nm), func() { groupsig.RecoverGroupSignature(m, nm) })
				if nm > 2 {
					pure("RecoverGroupSignature", fmt.Sprintf("all members, threshold %d", nm-1), func() { groupsig.RecoverGroupSignature(m, nm-1) })
				}
			}
			// parsers must copy: the parsed object may not alias (or modify) the caller's buffer
			{
				sb := sigs[0].Serialize()
				pb := pubs[0].Serialize()
				sb0, pb0 := cp(sb), cp(pb)
				ps := groupsig.DeserializeSign(sb)
				pp := groupsig.ByteToPublicKey(pb)
				mod := !bytes.Equal(sb, sb0) || !bytes.Equal(pb, pb0)
				for i := range sb {
					sb[i] ^= 0xff
				}
				for i := range pb {
					pb[i] ^= 0xff
				}
				alias := !bytes.Equal(ps.Serialize(), sb0) || !bytes.Equal(pp.Serialize(), pb0)
				res.Count(fmt.Sprintf("pure:Deserialize:buffer-modified=%v,aliases-buffer=%v", mod, alias), fmt.Sprintf("%d/pure/deser", inst), true)
				if mod || alias {
					viol("C14/pure:argument-modified:Deserialize", "DeserializeSign/ByteToPublicKey modified the input buffer or the parsed object aliases it",
						map[string]interface{}{"sig": hexs(sb0), "pk": hexs(pb0), "buffer_modified": mod, "aliases": alias})
				}
			}
			// NewSeckeyFromBigInt: the caller's big.Int (also one that is >= r)
			for _, v := range []*big.Int{new(big.Int).Set(skvals[0]), new(big.Int).Add(skvals[0], order), new(big.Int).SetBytes(bytes.Repeat([]byte{0xff}, 32))} {
				b0 := new(big.Int).Set(v)
				k := groupsig.NewSeckeyFromBigInt(v)
				okv := k.GetBigInt().Cmp(new(big.Int).Mod(b0, order)) == 0
				res.Count(fmt.Sprintf("pure:NewSeckeyFromBigInt:arg-unchanged=%v,value-ok=%v", v.Cmp(b0) == 0, okv), fmt.Sprintf("%d/pure/nsk/%s", inst, b0.String()), true)
				if v.Cmp(b0) != 0 {
					viol("C14/pure:argument-modified:NewSeckeyFromBigInt", "NewSeckeyFromBigInt reduced the caller's big.Int in place", map[string]interface{}{"before": b0.String(), "after": v.String()})
				}
				if !okv {
					viol("C14/roundtrip:seckey-from-bigint", "NewSeckeyFromBigInt(b) is not b mod r", map[string]interface{}{"b": b0.String(), "got": k.GetBigInt().String()})
				}
			}
			if heavy {
				reverify("all-calls")
			}
		}

		// ---- pairing samples: bilinearity and non-degeneracy
		npair := 1
		if thorough {
			npair = 3
		}
		for k := 0; k < npair; k++ {
			aa, bb := randScalar(rng), randScalar(rng)
			P1 := new(bn256.G1).ScalarBaseMult(big.NewInt(1))
			if k%2 == 1 {
				P1 = H // a hashed point as base
			}
			base := bn256.Pair(P1, bn256.GetG2Base())
			lhs := bn256.Pair(new(bn256.G1).ScalarMult(P1, aa), new(bn256.G2).ScalarBaseMult(bb))
			ab := new(big.Int).Mul(aa, bb)
			ab.Mod(ab, order)
			rhs := new(bn256.GT).ScalarMult(base, ab)
			one := new(bn256.GT).ScalarMult(base, big.NewInt(0))
			okb := bn256.PairIsEuqal(lhs, rhs)
			// additivity in each argument
			s1 := bn256.Pair(new(bn256.G1).Add(new(bn256.G1).ScalarMult(P1, aa), new(bn256.G1).ScalarMult(P1, bb)), Q)
			s2 := new(bn256.GT).Add(bn256.Pair(new(bn256.G1).ScalarMult(P1, aa), Q), bn256.Pair(new(bn256.G1).ScalarMult(P1, bb), Q))
			okadd := bn256.PairIsEuqal(s1, s2)
			nd := !bn256.PairIsEuqal(base, one) && bn256.PairIsEuqal(new(bn256.GT).ScalarMult(base, order), one)
			id := fmt.Sprintf("pair/%s/%s/%d", aa.String(), bb.String(), k%2)
			res.Count(fmt.Sprintf("pairing:bilinear=%v,additive=%v,nondegenerate=%v", okb, okadd, nd), id, true)
			in := map[string]interface{}{"a": aa.String(), "b": bb.String(), "base": []string{"g1", "H(msg)"}[k%2], "msg": hexs(msg)}
			if !okb || !okadd {
				viol("C14/pairing:bilinear", "e(aP, bQ) != e(P,Q)^(ab) or e(P1+P2,Q) != e(P1,Q)e(P2,Q)", in)
			}
			if !nd {
				viol("C14/pairing:nondegenerate", "e(P, g2) = 1 for P != 0, or e(P,g2)^r != 1", in)
			}
		}

		// ---- degenerate pairing arguments: the identity in either slot (however it was produced) pairs to 1, and
		// bilinearity instances whose SUM is the identity (Q2 = -Q1, P2 = -P1, a + b = 0 mod r)
		if inst < 3 || thorough {
			aa := randScalar(rng)
			nb := new(big.Int).Sub(order, aa)
			Pr := new(bn256.G1).ScalarMult(H, aa)
			Qr := new(bn256.G2).ScalarBaseMult(randScalar(rng))
			gtOne := new(bn256.GT).ScalarMult(bn256.Pair(new(bn256.G1).ScalarBaseMult(big.NewInt(1)), bn256.GetG2Base()), big.NewInt(0))
			id1 := map[string]*bn256.G1{
				"0*g1": new(bn256.G1).ScalarBaseMult(big.NewInt(0)), "r*g1": new(bn256.G1).ScalarBaseMult(order), "r*P": new(bn256.G1).ScalarMult(Pr, order),
				"P+(-P)": new(bn256.G1).Add(Pr, new(bn256.G1).Neg(Pr)), "parsed-zeros": g1(make([]byte, 64)),
			}
			id2 := map[string]*bn256.G2{
				"0*g2": new(bn256.G2).ScalarBaseMult(big.NewInt(0)), "r*g2": new(bn256.G2).ScalarBaseMult(order), "r*Q": new(bn256.G2).ScalarMult(Qr, order),
				"Q+(-Q)": new(bn256.G2).Add(Qr, new(bn256.G2).Neg(Qr)), "parsed-zeros": g2(make([]byte, 128)),
			}
			p1 := map[string]*bn256.G1{"generator": new(bn256.G1).ScalarBaseMult(big.NewInt(1)), "random": Pr}
			p2 := map[string]*bn256.G2{"generator": bn256.GetG2Base(), "random": Qr}
			chk := func(name string, f func() bool) {
				okk, pan := false, ""
				func() {
					defer func() {
						if r := recover(); r != nil {
							pan = fmt.Sprint(r)
						}
					}()
					okk = f()
				}()
				res.Count(fmt.Sprintf("pairing-degenerate:%s:ok=%v", name, okk), fmt.Sprintf("%d/pairdeg/%s", inst, name), true)
				if !okk {
					viol("C14/pairing:identity-argument", "the pairing with an identity argument is not 1, or a bilinearity instance whose sum is the identity fails: "+name,
						map[string]interface{}{"case": name, "a": aa.String(), "H": hexs(H.Marshal()), "Q": hexs(Qr.Marshal()), "panic": pan})
				}
			}
			for n1, O1 := range id1 {
				for n2, Q2 := range p2 {
					O1, Q2 := O1, Q2
					chk("e(O["+n1+"],"+n2+")=1", func() bool { return bn256.PairIsEuqal(bn256.Pair(O1, Q2), gtOne) })
				}
			}
			for n2, O2 := range id2 {
				for n1, P1 := range p1 {
					O2, P1 := O2, P1
					chk("e("+n1+",O["+n2+"])=1", func() bool { return bn256.PairIsEuqal(bn256.Pair(P1, O2), gtOne) })
				}
				O2 := O2
				chk("e(O,O["+n2+"])=1", func() bool { return bn256.PairIsEuqal(bn256.Pair(id1["0*g1"], O2), gtOne) })
			}
			chk("e(P,Q)e(P,-Q)=1=e(P,Q+(-Q))", func() bool {
				prod := new(bn256.GT).Add(bn256.Pair(Pr, Qr), bn256.Pair(Pr, new(bn256.G2).Neg(Qr)))
				return bn256.PairIsEuqal(prod, gtOne) && bn256.PairIsEuqal(bn256.Pair(Pr, new(bn256.G2).Add(Qr, new(bn256.G2).Neg(Qr))), gtOne)
			})
			// the same with Q / P in every representation (Neg of an AFFINE point once left its cached z^2 at 0)
			for qn, Qx := range map[string]*bn256.G2{"generator": new(bn256.G2).ScalarBaseMult(big.NewInt(1)), "parsed-generator": g2(bn256.GetG2Base().Marshal()),
				"parsed-random": g2(new(bn256.G2).Set(Qr).Marshal()), "fresh-random": new(bn256.G2).ScalarBaseMult(randScalar(rng)), "parsed-public-key": g2(pkb)} {
				Qx := Qx
				chk("e(P,Q)e(P,-Q)=1:Q="+qn, func() bool {
					e1 := bn256.Pair(Pr, Qx)
					e2 := bn256.Pair(Pr, new(bn256.G2).Neg(Qx))
					return bn256.PairIsEuqal(new(bn256.GT).Add(e1, e2), gtOne) && bn256.PairIsEuqal(e2, new(bn256.GT).Neg(e1))
				})
			}
			for pn, Px := range map[string]*bn256.G1{"generator": new(bn256.G1).ScalarBaseMult(big.NewInt(1)), "parsed-random": g1(new(bn256.G1).Set(Pr).Marshal()), "hash-point": H, "fresh-random": Pr} {
				Px := Px
				chk("e(P,Q)e(-P,Q)=1:P="+pn, func() bool {
					e1 := bn256.Pair(Px, Qr)
					e2 := bn256.Pair(new(bn256.G1).Neg(Px), Qr)
					return bn256.PairIsEuqal(new(bn256.GT).Add(e1, e2), gtOne) && bn256.PairIsEuqal(e2, new(bn256.GT).Neg(e1))
				})
			}
			chk("e(P,Q)e(-P,Q)=1=e(P+(-P),Q)", func() bool {
				prod := new(bn256.GT).Add(bn256.Pair(Pr, Qr), bn256.Pair(new(bn256.G1).Neg(Pr), Qr))
				return bn256.PairIsEuqal(prod, gtOne) && bn256.PairIsEuqal(bn256.Pair(new(bn256.G1).Add(Pr, new(bn256.G1).Neg(Pr)), Qr), gtOne)
			})
			chk("e(P,aQ)e(P,(r-a)Q)=1=e(P,(a+(r-a))Q)", func() bool {
				prod := new(bn256.GT).Add(bn256.Pair(Pr, new(bn256.G2).ScalarMult(Qr, aa)), bn256.Pair(Pr, new(bn256.G2).ScalarMult(Qr, nb)))
				sumQ := new(bn256.G2).Add(new(bn256.G2).ScalarMult(Qr, aa), new(bn256.G2).ScalarMult(Qr, nb))
				return bn256.PairIsEuqal(prod, gtOne) && bn256.PairIsEuqal(bn256.Pair(Pr, sumQ), gtOne)
			})
			chk("e(aH,Q)e((r-a)H,Q)=1=e(aH+(r-a)H,Q)", func() bool {
				prod := new(bn256.GT).Add(bn256.Pair(Pr, Qr), bn256.Pair(new(bn256.G1).ScalarMult(H, nb), Qr))
				sumP := new(bn256.G1).Add(Pr, new(bn256.G1).ScalarMult(H, nb))
				return bn256.PairIsEuqal(prod, gtOne) && bn256.PairIsEuqal(bn256.Pair(sumP, Qr), gtOne)
			})
		}
	}

	// ---- corpus of messages whose hash needs many increments (8..19, and the two >= 20): H(m) must be a curve
	// point (no error), Sign/VerifySig must work for an odd and an even key, the signature must round-trip.
	{
		modelDone := false
		for _, hm := range hardMessages {
			m, _ := hex.DecodeString(hm.hex)
			_, _, n := refHashPoint(m)
			if hm.inc >= 0 && n != hm.inc {
				res.Note(fmt.Sprintf("corpus message %s: expected %d increments, reference needs %d", hm.hex, hm.inc, n))
			}
			hashOK(fmt.Sprintf("corpus-%d-increments", n), m)
			for _, kv := range []int64{0x1234567, 0x2345678} {
				skc := groupsig.NewSeckeyFromBigInt(big.NewInt(kv))
				pkc := groupsig.GeneratePubkey(*skc)
				var okV, okW, okE bool
				pan := ""
				var sb []byte
				func() {
					defer func() {
						if r := recover(); r != nil {
							pan = fmt.Sprint(r)
						}
					}()
					sg := groupsig.Sign(*skc, m)
					sb = sg.Serialize()
					okV = groupsig.VerifySig(*pkc, m, sg)
					okW = groupsig.VerifySig(*pkc, m, *groupsig.DeserializeSign(sb))
					wx, wy, _ := refHashPoint(m)
					okE = bytes.Equal(sb, new(bn256.G1).ScalarMult(g1(append(b32(wx), b32(wy)...)), big.NewInt(kv)).Marshal())
				}()
				okk := pan == "" && okV && okW && okE
				res.Count(fmt.Sprintf("hash-corpus:%d-increments:sign-verify-ok=%v", n, okk), fmt.Sprintf("corpus/%s/%d", hm.hex, kv), true)
				if !okk {
					viol("C14/reject-honest:hard-hash-message", "for a message whose hash needs many increments the honest signature is rejected, does not round-trip, or is not sk*H(m)",
						map[string]interface{}{"msg": hm.hex, "increments_needed": n, "sk": kv, "verifies": okV, "verifies_after_roundtrip": okW, "is_sk_times_H": okE, "sig": hexs(sb), "panic": pan})
				}
			}
			// the model's try-and-increment on one hard message (each increment is a 2.7 s modular square root there)
			want := 9
			if thorough {
				want = 20
			}
			if !modelDone && ((n == want) || (thorough && n >= 20)) {
				modelDone = true
				func() {
				defer func() { recover() }()
				dg := sha256.Sum256(m)
				Hm := new(bn256.G1)
				Hm.HashToPoint(m)
				s2 := groupsig.Sign(*groupsig.NewSeckeyFromBigInt(big.NewInt(2)), m).Serialize()
				cs.Add(fmt.Sprintf("(HashCase %s %d%%N %s %s %s)", hx.CoqHex(dg[:]), 2, hx.CoqHex(Hm.Marshal()), hx.CoqHex(s2), hx.CoqHex(new(bn256.G1).Neg(g1(s2)).Marshal())),
					map[string]interface{}{"kind": "hash-and-sign-hard-message", "msg": hm.hex, "increments": n, "sha256": hexs(dg[:]), "H": hexs(Hm.Marshal())})
				}()
			}
		}
		ks := []int{}
		for k := range incHist {
			ks = append(ks, k)
		}
		sort.Ints(ks)
		parts := []string{}
		tot := 0
		for _, k := range ks {
			parts = append(parts, fmt.Sprintf("%d:%d", k, incHist[k]))
			tot += incHist[k]
		}
		res.Note(fmt.Sprintf("hash-to-point increments needed (increments:messages) over the %d distinct messages of this run, corpus included: %s", tot, strings.Join(parts, " ")))
	}

	res.ModelCases = cs.Total()
	cs.Close()
	res.Write(a.Out)
	fmt.Printf("c14: %d evaluations, %d distinct non-trivial, %d model cases, %d violation keys\n", res.Evaluations, res.DistinctNontrivial, res.ModelCases, len(res.Violations))
	keys := []string{}
	for k, v := range res.Histogram {
		keys = append(keys, fmt.Sprintf("%s=%d", k, v))
	}
	fmt.Println(strings.Join(keys, "\n"))
}
