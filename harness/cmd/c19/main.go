// C19 harness: the real group chain (LevelDB "group" key space + sqlite groupIndex) driven through
// AddGroup / remove(last) / removeFromCommonAncestor / fork switch (groupChainFork.triggerOnChain) /
// restart / loss-of-sqlite-rows histories.
// (a) after every operation the property is evaluated directly on the implementation's observables
//
//	(predecessor walk, count, height lookups below and above count, lookups by id, sync answers,
//	sqlite rows) against the list the history should have produced;
//
// (b) every history + all observables are written as a case for the Coq model (coq/C19/Harness.v).
package main

import (
	"bytes"
	"encoding/binary"
	"errors"
	"fmt"
	"math"
	"math/big"
	"os"
	"runtime/debug"
	"runtime/pprof"
	"strings"
	"sync"
	"time"

	"com.tuntun.rangers/node/src/common"
	"com.tuntun.rangers/node/src/core"
	"com.tuntun.rangers/node/src/middleware/db"
	"com.tuntun.rangers/node/src/middleware/mysql"
	"com.tuntun.rangers/node/src/middleware/notify"
	"com.tuntun.rangers/node/src/middleware/types"
	"verif/harness/hx"
)

// ---- stub consensus helper: one genesis group, every group passes CheckGroup ----
// CheckGroup can park the calling goroutine once, for one chosen group (see runSched).
type helper struct {
	genesis types.Group
	mu      sync.Mutex
	gate    *gate
}

type gate struct {
	id, pre          []byte
	entered, release chan struct{}
}

func (h *helper) GenerateGenesisInfo() []*types.GenesisInfo {
	g := h.genesis
	hd := *h.genesis.Header
	g.Header = &hd
	return []*types.GenesisInfo{{Group: g}}
}
func (h *helper) VRFProve2Value(*big.Int) *big.Int                { return big.NewInt(0) }
func (h *helper) ProposalBonus() *big.Int                         { return big.NewInt(0) }
func (h *helper) PackBonus() *big.Int                             { return big.NewInt(0) }
func (h *helper) VerifyHash(*types.Block) common.Hash             { return common.Hash{} }
func (h *helper) CheckProveRoot(*types.BlockHeader) (bool, error) { return true, nil }
func (h *helper) VerifyNewBlock(*types.BlockHeader, *types.BlockHeader) (bool, error) {
	return true, nil
}
func (h *helper) VerifyBlockHeader(*types.BlockHeader) (bool, error) { return true, nil }
func (h *helper) VerifyGroupSign([]byte, common.Hash, []byte) (bool, error) {
	return true, nil
}
func (h *helper) CheckGroup(g *types.Group) (bool, error) {
	h.mu.Lock()
	gt := h.gate
	if gt != nil && bytes.Equal(g.Id, gt.id) && g.Header != nil && bytes.Equal(g.Header.PreGroup, gt.pre) {
		h.gate = nil // one call only
		h.mu.Unlock()
		close(gt.entered)
		<-gt.release
		return true, nil
	}
	h.mu.Unlock()
	return true, nil
}
func (h *helper) VerifyMemberInfo(*types.BlockHeader, *types.BlockHeader) (bool, error) {
	return true, nil
}
func (h *helper) VerifyGroupForFork(*types.Group, *types.Group, *types.Group, *types.Block) (bool, error) {
	return true, nil
}

// ---- ids: number k <-> 32-byte id whose last byte is k; 0 <-> nil ----
func idBytes(k uint64) []byte {
	if k == 0 {
		return nil
	}
	b := make([]byte, 32)
	b[0] = 0xC1
	b[31] = byte(k)
	return b
}
func idNum(b []byte) uint64 {
	if len(b) == 0 {
		return 0
	}
	if len(b) != 32 || b[0] != 0xC1 {
		return 999
	}
	for _, x := range b[1:31] {
		if x != 0 {
			return 999
		}
	}
	return uint64(b[31])
}

// projection of a group
type G struct{ Id, Pre, Parent, H uint64 }

func proj(g *types.Group) *G {
	if g == nil {
		return nil
	}
	r := &G{Id: idNum(g.Id), H: g.GroupHeight, Pre: 999, Parent: 999}
	if g.Header != nil {
		r.Pre, r.Parent = idNum(g.Header.PreGroup), idNum(g.Header.Parent)
	}
	return r
}
func (g *G) coq() string {
	if g == nil {
		return "X"
	}
	return fmt.Sprintf("(J %d %d %d %d)", g.Id, g.Pre, g.Parent, g.H)
}
func (g *G) eq(o *G) bool {
	if g == nil || o == nil {
		return g == nil && o == nil
	}
	return *g == *o
}

func mkForkGroup(id, pre, parent, height uint64) *types.Group {
	g := mkGroup(id, pre, parent)
	g.GroupHeight = height // a fork group arrives from a peer with its height; insertGroup keys it by that
	return g
}

func mkGroup(id, pre, parent uint64) *types.Group {
	return &types.Group{Id: idBytes(id), PubKey: []byte{byte(id)}, Members: [][]byte{{1}, {2}},
		Header: &types.GroupHeader{PreGroup: idBytes(pre), Parent: idBytes(parent), CreateHeight: 10 * id, Extends: "x"}}
}

// ---- operations ----
const (
	opAdd = iota
	opRemoveLast
	opRemoveFrom
	opRestart
	opFork
	opDrop
	opSetRow
)

type FG struct{ Id, Pre, Parent uint64 }

type Op struct {
	K               int
	Id, Pre, Parent uint64   // opAdd
	H               uint64   // opRemoveFrom
	Cold            bool     // opRestart: close and re-open LevelDB (else initGroupChain on the open store)
	Fork            []FG     // opFork: fork groups, heights H+1, H+2, ...
	Ids             []uint64 // opDrop: the sqlite rows of these ids are deleted behind the chain's back
}

func (o Op) String() string {
	switch o.K {
	case opAdd:
		return fmt.Sprintf("add(%d,pre=%d,parent=%d)", o.Id, o.Pre, o.Parent)
	case opRemoveLast:
		return "remove-last"
	case opRemoveFrom:
		return fmt.Sprintf("remove-from(%d)", o.H)
	case opFork:
		p := make([]string, len(o.Fork))
		for i, g := range o.Fork {
			p[i] = fmt.Sprintf("(%d,pre=%d,parent=%d)", g.Id, g.Pre, g.Parent)
		}
		return fmt.Sprintf("fork-switch(ancestor-height=%d,[%s])", o.H, strings.Join(p, ""))
	case opDrop:
		return fmt.Sprintf("lose-sqlite-rows(%v)", o.Ids)
	case opSetRow:
		return fmt.Sprintf("wrong-sqlite-row(hash=%d,groupheight=%d)", o.Id, o.H)
	}
	if o.Cold {
		return "restart(cold)"
	}
	return "restart(warm)"
}
func (o Op) kind() string {
	return []string{"add", "remove-last", "remove-from-ancestor", "restart", "fork-switch", "lose-sqlite-rows", "wrong-sqlite-row"}[o.K]
}
func (o Op) coq() string {
	switch o.K {
	case opAdd:
		return fmt.Sprintf("HAdd %d %d %d", o.Id, o.Pre, o.Parent)
	case opRemoveLast:
		return "HRemoveLast"
	case opRemoveFrom:
		return fmt.Sprintf("HRemoveFrom %d", o.H)
	case opFork:
		p := make([]string, len(o.Fork))
		for i, g := range o.Fork {
			p[i] = fmt.Sprintf("(%d,%d,%d)", g.Id, g.Pre, g.Parent)
		}
		return fmt.Sprintf("HFork %d [%s]", o.H, strings.Join(p, ";"))
	case opDrop:
		p := make([]string, len(o.Ids))
		for i, x := range o.Ids {
			p[i] = fmt.Sprint(x)
		}
		return fmt.Sprintf("HDrop [%s]", strings.Join(p, ";"))
	case opSetRow:
		return fmt.Sprintf("HSetRow %d %d", o.Id, o.H)
	}
	return "HRestart"
}

// ---- observables after one operation ----
type Obs struct {
	Ret   uint64
	Count uint64
	Last  *G
	ByH   []*G     // heights 0..U+3
	ById  []*G     // ids 1..U
	Walk  []uint64 // ids met by the iterator from the last group, at most count+5
	Sync  [][]*G   // GetSyncGroupsById(id) for ids 1..U
	SqN   uint64
	SqH   []int64 // groupheight of id in sqlite, -1 = no row
}

func coqGs(l []*G) string {
	p := make([]string, len(l))
	for i, g := range l {
		p[i] = g.coq()
	}
	return "[" + strings.Join(p, ";") + "]"
}
func (o *Obs) coq() string {
	w := make([]string, len(o.Walk))
	for i, x := range o.Walk {
		w[i] = fmt.Sprint(x)
	}
	sy := make([]string, len(o.Sync))
	for i, l := range o.Sync {
		sy[i] = coqGs(l)
	}
	sq := make([]string, len(o.SqH))
	for i, h := range o.SqH {
		if h < 0 {
			sq[i] = "None"
		} else {
			sq[i] = fmt.Sprintf("Some %d", h)
		}
	}
	return fmt.Sprintf("Ob %d %d %s %s %s [%s] [%s] %d [%s]", o.Ret, o.Count, o.Last.coq(), coqGs(o.ByH), coqGs(o.ById),
		strings.Join(w, ";"), strings.Join(sy, ";"), o.SqN, strings.Join(sq, ";"))
}
func (o *Obs) sameState(p *Obs, sqlite bool) bool { // everything but the return code (and the sqlite part)
	a, b := *o, *p
	a.Ret, b.Ret = 0, 0
	if !sqlite {
		a.SqN, b.SqN, a.SqH, b.SqH = 0, 0, nil, nil
	}
	return a.coq() == b.coq()
}

var theHelper *helper

func observe(U int, ret uint64) *Obs {
	gc := core.GetGroupChain()
	o := &Obs{Ret: ret, Count: gc.Count(), Last: proj(gc.LastGroup())}
	for h := 0; h <= U+3; h++ {
		o.ByH = append(o.ByH, proj(gc.GetGroupByHeight(uint64(h))))
	}
	for id := 1; id <= U; id++ {
		o.ById = append(o.ById, proj(gc.GetGroupById(idBytes(uint64(id)))))
		sl := []*G{}
		for _, g := range gc.GetSyncGroupsById(idBytes(uint64(id))) {
			sl = append(sl, proj(g))
		}
		o.Sync = append(o.Sync, sl)
		_, dismiss, gh := mysql.SelectGroup(idBytes(uint64(id)))
		if dismiss == 0 {
			o.SqH = append(o.SqH, -1)
		} else {
			o.SqH = append(o.SqH, int64(gh))
		}
	}
	it := gc.Iterator()
	g := it.Current()
	for n := uint64(0); n < o.Count+5 && g != nil; n++ {
		o.Walk = append(o.Walk, idNum(g.Id))
		g = it.MovePre()
	}
	o.SqN = mysql.CountGroups()
	return o
}

// sqlView reads the groupIndex table itself (hook) and through SelectValidGroups, and compares both with
// the list (genesis first): every row is (0x-hex id of the i-th group, i); no two rows share a height;
// unless rows were lost and no restart followed, every listed group has its row and
// SelectValidGroups(0) (hash of every group with dismissheight > 0, by groupheight descending - what
// consensus loads at start-up) is the list backwards.
func sqlView(l []G, lossy bool) []string {
	var bad []string
	rows, err := mysql.VerifGroupIndexRows()
	if err != nil {
		return []string{"cannot read groupIndex: " + err.Error()}
	}
	want := map[string]uint64{}
	for i, g := range l {
		want[common.ToHex(idBytes(g.Id))] = uint64(i)
	}
	seenH := map[uint64]string{}
	for _, r := range rows {
		h, ok := want[r.Hash]
		switch {
		case !ok:
			bad = append(bad, fmt.Sprintf("groupIndex has a row (hash %s, groupheight %d) that is not a group of the list %v", r.Hash, r.GroupHeight, ids(l)))
		case h != r.GroupHeight:
			bad = append(bad, fmt.Sprintf("groupIndex row %s has groupheight %d, the group is number %d of the list", r.Hash, r.GroupHeight, h))
		}
		if o, dup := seenH[r.GroupHeight]; dup {
			bad = append(bad, fmt.Sprintf("groupIndex has two rows for groupheight %d: %s and %s", r.GroupHeight, o, r.Hash))
		}
		seenH[r.GroupHeight] = r.Hash
	}
	if !lossy {
		if len(rows) != len(l) {
			bad = append(bad, fmt.Sprintf("groupIndex has %d rows, the list has %d groups %v", len(rows), len(l), ids(l)))
		}
		valid := mysql.SelectValidGroups(0)
		ok := len(valid) == len(l)
		for i := 0; ok && i < len(valid); i++ {
			ok = valid[i] == common.ToHex(idBytes(l[len(l)-1-i].Id))
		}
		if !ok {
			bad = append(bad, fmt.Sprintf("SelectValidGroups(0) = %v, the list backwards is %v", valid, ids(l)))
		}
	}
	return bad
}

// ---- store life cycle ----
// freshStore gives the next history an empty store: every key of the "group" LevelDB prefix and every
// sqlite groupIndex row is deleted, then initGroupChain() runs (it finds no "gcurrent" and saves genesis).
// (Deleting the files instead costs two LevelDB re-opens per history, ~100 ms.)
func freshStore(U int) {
	d, err := db.NewDatabase("group")
	if err != nil {
		panic(err)
	}
	it := d.NewIterator()
	var keys [][]byte
	for it.Next() {
		keys = append(keys, append([]byte{}, it.Key()[len("group"):]...))
	}
	it.Release()
	for _, k := range keys {
		if err := d.Delete(k); err != nil {
			panic(err)
		}
	}
	// the table is emptied with the harness's own SQL (hook), not with the DeleteGroup under test
	if err := mysql.VerifGroupIndexReset(); err != nil {
		panic(err)
	}
	if rows, err := mysql.VerifGroupIndexRows(); err != nil || len(rows) != 0 {
		panic(fmt.Sprint("sqlite not empty after reset: ", rows, err))
	}
	reinit(false)
}

// reinit = restart of the group chain. cold: the shared LevelDB is closed and re-opened from its files.
// The joined-groups LevelDB (opened by initGroupChain, not part of the property, never written here)
// gets a new empty directory every time: re-opening an existing LevelDB directory makes goleveldb
// allocate and clear a 128 MiB journal-recovery buffer, which would dominate the run time.
var jgsN int

// Every LevelDB open allocates a 128 MiB write buffer (fixed in middleware/db). Once the collector has
// freed such a buffer, the next one reuses that memory, which must be cleared and paged in again
// (~35 ms per open); while the collector has never run, every buffer comes from untouched address space
// and costs nothing. So the collector stays off for the first 2000 (re)starts of the group chain (the
// whole quick tier; ordinary garbage is ~1 MB per history, i.e. about 1 GB resident by then) and is
// switched on for good after that, which keeps the resident size of the thorough tier bounded.
var gcOff bool

func gcValve() {
	if gcOff && jgsN >= 2000 {
		debug.SetGCPercent(100)
		gcOff = false
	}
}

func reinit(cold bool) {
	gcValve()
	oldDir := fmt.Sprintf("storage0/jgs%d", jgsN)
	jgsN++
	common.GlobalConf.SetString(common.ConfigSec, common.DefaultJoinedGroupDatabaseKey, fmt.Sprintf("jgs%d", jgsN))
	if cold {
		core.VerifGCRestart()
	} else {
		core.VerifGCReload()
	}
	os.RemoveAll(oldDir)
}

func apply(o Op) (ret uint64) {
	gc := core.GetGroupChain()
	switch o.K {
	case opAdd:
		err := gc.AddGroup(mkGroup(o.Id, o.Pre, o.Parent))
		switch {
		case err == nil:
			return 0
		case errors.Is(err, common.ErrGroupAlreadyExist):
			return 1
		case strings.HasPrefix(err.Error(), "parent is not existed"):
			return 2
		case strings.HasPrefix(err.Error(), "pre not equal"):
			return 3
		}
		return 9
	case opRemoveLast:
		if core.VerifGCRemoveLast() {
			return 0
		}
		return 1
	case opRemoveFrom:
		if core.VerifGCRemoveFromCommonAncestor(o.H) {
			return 0
		}
		return 1
	case opFork:
		gs := make([]*types.Group, len(o.Fork))
		for i, g := range o.Fork {
			gs[i] = mkForkGroup(g.Id, g.Pre, g.Parent, o.H+1+uint64(i))
		}
		found, ok := core.VerifGCForkSwitch(o.H, gs)
		switch {
		case !found:
			return 1
		case ok:
			return 0
		}
		return 2
	case opDrop:
		for _, id := range o.Ids { // the harness's own SQL: an environment event must not depend on the code under test
			if err := mysql.VerifGroupIndexDeleteRow(idBytes(id)); err != nil {
				panic(err)
			}
		}
		return 0
	case opSetRow:
		// replace INTO groupIndex behind the chain's back: a wrong height for a listed group or a row for a hash that is not on the chain
		if err := mysql.InsertGroup(&types.Group{Id: idBytes(o.Id), GroupHeight: o.H, Header: &types.GroupHeader{WorkHeight: 1, DismissHeight: 5}}); err != nil {
			panic(err)
		}
		return 0
	}
	reinit(o.Cold)
	return 0
}

// ---- reference list: what the history should have produced (genesis first) ----
// unsettled: a sqlite row of a listed group was lost and no restart has happened since
type shadow struct {
	l         []G
	unsettled bool
	corrupt   bool // a wrong/extra sqlite row was written: the sqlite clauses are no longer evaluated (the model comparison still is)
}

func (s *shadow) add(id, pre, parent uint64) uint64 {
	if s.has(id) {
		return 1
	}
	if !s.has(parent) {
		return 2
	}
	if s.l[len(s.l)-1].Id != pre {
		return 3
	}
	s.l = append(s.l, G{id, pre, parent, uint64(len(s.l))})
	return 0
}

func (s *shadow) has(id uint64) bool {
	for _, g := range s.l {
		if g.Id == id {
			return true
		}
	}
	return false
}
func (s *shadow) step(o Op) (ret uint64) {
	switch o.K {
	case opAdd:
		return s.add(o.Id, o.Pre, o.Parent)
	case opFork:
		if o.H >= uint64(len(s.l)) {
			return 1
		}
		s.l = s.l[:o.H+1]
		for _, g := range o.Fork {
			if s.add(g.Id, g.Pre, g.Parent) != 0 {
				return 2
			}
		}
		return 0
	case opDrop:
		for _, id := range o.Ids {
			if s.has(id) {
				s.unsettled = true
			}
		}
		return 0
	case opSetRow:
		s.corrupt = true
		return 0
	case opRestart:
		s.unsettled = false
		return 0
	case opRemoveLast:
		if len(s.l) <= 1 {
			return 1
		}
		s.l = s.l[:len(s.l)-1]
		return 0
	case opRemoveFrom:
		if o.H >= uint64(len(s.l)) {
			return 1
		}
		s.l = s.l[:o.H+1]
		return 0
	}
	return 0
}

type seqResult struct {
	steps    []string // coq (op, obs) pairs
	rets     []uint64
	removed  bool // a group was removed
	readd    bool // ... and a group was added afterwards
	rsAfter  bool // ... and a restart happened afterwards
	healed   bool // a restart re-created lost sqlite rows
	violated bool
}

// runSeq executes one history on a fresh store and evaluates the property after every operation.
func runSeq(res *hx.Result, U int, ops []Op) (sr seqResult) {
	desc := func(upto int) interface{} {
		p := make([]string, 0, upto+1)
		for _, o := range ops[:upto+1] {
			p = append(p, o.String())
		}
		return map[string]interface{}{"genesis": "id 1, PreGroup nil", "history": p}
	}
	viol := func(i int, clause, what string) {
		sr.violated = true
		res.Violate("C19/"+clause+":"+ops[i].kind(), what, desc(i))
	}
	freshStore(U)
	sh := &shadow{l: []G{{1, 0, 0, 0}}}
	prev := observe(U, 0)
	for i, o := range ops {
		var ret uint64
		var pan interface{}
		func() {
			defer func() { pan = recover() }()
			ret = apply(o)
		}()
		if pan != nil {
			viol(i, "panic", fmt.Sprint("panic: ", pan))
			sr.steps = append(sr.steps, fmt.Sprintf("(%s, %s)", o.coq(), (&Obs{Ret: 98, Last: &G{}}).coq()))
			return // the next history starts with freshStore, which wipes the keys and re-runs initGroupChain
		}
		wasUnsettledBefore := sh.unsettled
		want := sh.step(o)
		ob := observe(U, ret)
		if o.K == opRestart && wasUnsettledBefore {
			sr.healed = true
		}
		sr.steps = append(sr.steps, fmt.Sprintf("(%s, %s)", o.coq(), ob.coq()))
		sr.rets = append(sr.rets, ret)
		if (o.K == opRemoveLast || o.K == opRemoveFrom) && ob.Count < prev.Count {
			sr.removed = true
		} else if sr.removed && o.K == opAdd && ret == 0 {
			sr.readd = true
		} else if sr.removed && o.K == opRestart {
			sr.rsAfter = true
		}
		if o.K == opFork && ret != 1 && o.H+1 < prev.Count {
			sr.removed = true
			if len(ob.Walk) > int(o.H)+1 {
				sr.readd = true
			}
		}
		// ---- the property, on the implementation ----
		if ret != want {
			viol(i, "result", fmt.Sprintf("operation returned code %d, the history calls for %d", ret, want))
		}
		n := uint64(len(sh.l))
		// last group reachable from genesis through predecessor links; the walk is the list
		okWalk := uint64(len(ob.Walk)) == n
		for j := 0; okWalk && j < len(ob.Walk); j++ {
			okWalk = ob.Walk[j] == sh.l[len(sh.l)-1-j].Id
		}
		if !okWalk {
			viol(i, "walk", fmt.Sprintf("predecessor walk from the last group visits %v, the list is %v (genesis first)", ob.Walk, ids(sh.l)))
		}
		if ob.Count != n || ob.Last == nil || ob.Last.Id != sh.l[n-1].Id {
			viol(i, "count", fmt.Sprintf("Count()=%d LastGroup=%s, the list has %d groups ending in %d", ob.Count, ob.Last.coq(), n, sh.l[n-1].Id))
		}
		for h := 0; h < len(ob.ByH); h++ {
			g := ob.ByH[h]
			if uint64(h) < ob.Count && uint64(h) < n {
				e := sh.l[h]
				if !g.eq(&e) {
					viol(i, "height-below-count", fmt.Sprintf("GetGroupByHeight(%d)=%s, the %d-th group of the list is %s", h, g.coq(), h, e.coq()))
				}
			} else if uint64(h) >= ob.Count && g != nil {
				viol(i, "height-at-or-above-count", fmt.Sprintf("GetGroupByHeight(%d)=%s although Count()=%d", h, g.coq(), ob.Count))
			}
		}
		for j := range sh.l {
			e := sh.l[j]
			if int(e.Id) <= U && !ob.ById[e.Id-1].eq(&e) {
				viol(i, "by-id", fmt.Sprintf("GetGroupById(%d)=%s, listed group is %s", e.Id, ob.ById[e.Id-1].coq(), e.coq()))
			}
			// sync answer: the following (at most five) groups, no nil entry
			lim := j + 6
			if lim > len(sh.l) {
				lim = len(sh.l)
			}
			wantSync := sh.l[j+1 : lim]
			got := ob.Sync[e.Id-1]
			okS := len(got) == len(wantSync)
			for k := 0; okS && k < len(got); k++ {
				okS = got[k].eq(&wantSync[k])
			}
			if !okS {
				viol(i, "sync-groups", fmt.Sprintf("GetSyncGroupsById(%d)=%s, the groups after it are %v", e.Id, coqGs(got), ids(wantSync)))
			}
			// sqlite: a row is never wrong; it is never missing unless rows were lost and no restart followed
			if !sh.corrupt && ob.SqH[e.Id-1] != int64(j) && !(sh.unsettled && ob.SqH[e.Id-1] == -1) {
				viol(i, "sqlite-index", fmt.Sprintf("sqlite groupheight of %d is %d, list position %d", e.Id, ob.SqH[e.Id-1], j))
			}
		}
		for id := 1; id <= U; id++ {
			if !sh.corrupt && !sh.has(uint64(id)) && ob.SqH[id-1] != -1 {
				viol(i, "sqlite-index", fmt.Sprintf("sqlite has a row (groupheight %d) for %d, which is not on the list", ob.SqH[id-1], id))
			}
		}
		if !sh.corrupt && (ob.SqN > n || (ob.SqN != n && !sh.unsettled)) {
			viol(i, "sqlite-index", fmt.Sprintf("sqlite has %d rows, the list has %d groups", ob.SqN, n))
		}
		if !sh.corrupt {
			for _, b := range sqlView(sh.l, sh.unsettled) {
				viol(i, "sqlite-index", b)
			}
		}
		if o.K == opRestart && !ob.sameState(prev, !wasUnsettledBefore && !sh.corrupt) {
			viol(i, "restart-changes-observables", "before: "+prev.coq()+" after: "+ob.coq())
		}
		prev = ob
	}
	return
}

func ids(l []G) []uint64 {
	r := make([]uint64, len(l))
	for i, g := range l {
		r[i] = g.Id
	}
	return r
}

// ---- gated schedules: an AddGroup parked inside CheckGroup vs competing calls ----
// intrinsic evaluates the property on one observation alone (no reference list): the predecessor walk
// from the last group ends at genesis, Count() is its length, the height index is that list and empty
// from Count() on, every listed group is found by id with its position, the sync answers are the
// following groups, sqlite has exactly the listed groups.
func intrinsic(U int, ob *Obs, lossy bool) []string {
	var bad []string
	n := len(ob.Walk)
	L := make([]uint64, n) // genesis first
	for i, id := range ob.Walk {
		L[n-1-i] = id
	}
	if n == 0 || L[0] != 1 {
		bad = append(bad, fmt.Sprintf("the predecessor walk from the last group %v does not end at genesis", ob.Walk))
		return bad
	}
	if uint64(n) != ob.Count {
		bad = append(bad, fmt.Sprintf("Count()=%d, the predecessor walk from the last group visits %d groups %v", ob.Count, n, ob.Walk))
	}
	if ob.Last == nil || ob.Last.Id != L[n-1] {
		bad = append(bad, "LastGroup is not the start of the walk")
	}
	pos := map[uint64]int{}
	for i, id := range L {
		if _, dup := pos[id]; dup {
			bad = append(bad, fmt.Sprintf("the predecessor walk %v visits group %d twice", ob.Walk, id))
			return bad
		}
		pos[id] = i
	}
	for h, g := range ob.ByH {
		switch {
		case uint64(h) < ob.Count && h < n:
			if g == nil || g.Id != L[h] || g.H != uint64(h) {
				bad = append(bad, fmt.Sprintf("GetGroupByHeight(%d)=%s, the %d-th group of the predecessor list is %d", h, g.coq(), h, L[h]))
			}
		case uint64(h) >= ob.Count && g != nil:
			bad = append(bad, fmt.Sprintf("GetGroupByHeight(%d)=%s although Count()=%d", h, g.coq(), ob.Count))
		}
	}
	for id := 1; id <= U; id++ {
		i, listed := pos[uint64(id)]
		g := ob.ById[id-1]
		if listed {
			wantPre := uint64(0)
			if i > 0 {
				wantPre = L[i-1]
			}
			if g == nil || g.H != uint64(i) || g.Pre != wantPre {
				bad = append(bad, fmt.Sprintf("GetGroupById(%d)=%s, it is number %d of the predecessor list (predecessor %d)", id, g.coq(), i, wantPre))
			}
			lim := i + 6
			if lim > n {
				lim = n
			}
			got := ob.Sync[id-1]
			ok := len(got) == lim-i-1
			for k := 0; ok && k < len(got); k++ {
				ok = got[k] != nil && got[k].Id == L[i+1+k]
			}
			if !ok {
				bad = append(bad, fmt.Sprintf("GetSyncGroupsById(%d)=%s, the groups after it are %v", id, coqGs(got), L[i+1:lim]))
			}
			if ob.SqH[id-1] != int64(i) && !(lossy && ob.SqH[id-1] == -1) {
				bad = append(bad, fmt.Sprintf("sqlite groupheight of %d is %d, list position %d", id, ob.SqH[id-1], i))
			}
		} else if ob.SqH[id-1] != -1 {
			bad = append(bad, fmt.Sprintf("sqlite has a row for %d, which is not on the predecessor list", id))
		}
	}
	if ob.SqN > uint64(n) || (ob.SqN != uint64(n) && !lossy) {
		bad = append(bad, fmt.Sprintf("sqlite has %d rows, the predecessor list has %d groups", ob.SqN, n))
	}
	return bad
}

const schedGrace = 2 * time.Second // how long a competing call may take before it counts as waiting for the parked AddGroup
const schedStuck = 20 * time.Second

// applySafe = apply under recover
func applySafe(o Op) (ret uint64, pan interface{}) {
	defer func() { pan = recover() }()
	return apply(o), nil
}

// runSched: prefix sequentially on a fresh store; AddGroup(x) in its own goroutine, parked inside
// CheckGroup (after Has(id), before the write lock); the competing calls one after the other from a
// second goroutine; release; the property is evaluated when both have returned.
// On the code as it stands the competing calls do not wait (CheckGroup runs outside the lock) and the
// parked AddGroup re-validates parent and PreGroup under the write lock. Were the lock to cover
// CheckGroup, the competing calls would wait: that is detected (grace period) and is fine too.
func runSched(res *hx.Result, sc *hx.Cases, U int, name string, prefix []Op, x FG, comp []Op) {
	names := func(l []Op) []string {
		p := make([]string, len(l))
		for i, o := range l {
			p[i] = o.String()
		}
		return p
	}
	sched := []string{}
	desc := func() interface{} {
		return map[string]interface{}{"genesis": "id 1, PreGroup nil", "sequential-prefix": names(prefix),
			"parked":    fmt.Sprintf("AddGroup(%d,pre=%d,parent=%d) held inside consensusHelper.CheckGroup", x.Id, x.Pre, x.Parent),
			"competing": names(comp), "schedule": sched}
	}
	kind := "none"
	if len(comp) > 0 {
		kind = comp[0].kind()
	}
	viol := func(clause, what string) {
		res.Violate("C19/schedules:"+clause+":parked-addgroup-vs-"+kind, what, desc())
	}
	freshStore(U)
	for _, o := range prefix {
		if _, pan := applySafe(o); pan != nil {
			viol("panic", fmt.Sprint("panic in the sequential prefix: ", pan))
			return
		}
	}
	gt := &gate{id: idBytes(x.Id), pre: idBytes(x.Pre), entered: make(chan struct{}), release: make(chan struct{})}
	theHelper.mu.Lock()
	theHelper.gate = gt
	theHelper.mu.Unlock()
	type done struct {
		ret uint64
		pan interface{}
	}
	xDone := make(chan done, 1)
	go func() {
		r, p := applySafe(Op{K: opAdd, Id: x.Id, Pre: x.Pre, Parent: x.Parent})
		xDone <- done{r, p}
	}()
	var xr done
	xReturned, parked := false, false
	select {
	case <-gt.entered:
		parked = true
		sched = append(sched, "G1 AddGroup(x): Has(x.Id)=false, enters CheckGroup and is held there")
	case xr = <-xDone:
		xReturned = true
		sched = append(sched, "G1 AddGroup(x) returns before CheckGroup")
	case <-time.After(schedStuck):
		viol("stuck", "AddGroup(x) neither reached CheckGroup nor returned")
		close(gt.release)
		<-xDone
		return
	}
	theHelper.mu.Lock()
	theHelper.gate = nil
	theHelper.mu.Unlock()
	crets := make([]uint64, len(comp))
	compDone := make(chan interface{}, 1)
	go func() {
		for i, o := range comp {
			r, p := applySafe(o)
			if p != nil {
				compDone <- p
				return
			}
			crets[i] = r
		}
		compDone <- nil
	}()
	xFirst, mixed := xReturned, false
	var cpan interface{}
	compFinished := false
	select {
	case cpan = <-compDone:
		compFinished = true
		sched = append(sched, "G2 runs the competing calls to completion")
	case <-time.After(schedGrace):
		if xReturned {
			viol("stuck", "a competing call does not return although no AddGroup is in flight")
			return
		}
		// whether the call waits for a lock or is merely slow cannot be told apart from outside: the
		// property is still evaluated at the end, but the order is not asserted to the model
		mixed = true
		xFirst = true
		sched = append(sched, "G2: a competing call waits (for the lock held by the parked AddGroup)")
	}
	if parked {
		close(gt.release)
		select {
		case xr = <-xDone:
			sched = append(sched, "G1 released: AddGroup(x) returns")
		case <-time.After(schedStuck):
			viol("stuck", "the released AddGroup(x) does not return")
			return
		}
	}
	if !compFinished {
		select {
		case cpan = <-compDone:
			sched = append(sched, "G2: the competing calls return")
		case <-time.After(schedStuck):
			viol("stuck", "the competing calls do not return after AddGroup(x) has returned")
			return
		}
	}
	if xr.pan != nil || cpan != nil {
		viol("panic", fmt.Sprint("panic: AddGroup(x): ", xr.pan, " competing: ", cpan))
		return
	}
	ob := observe(U, xr.ret)
	lossy := false
	for _, o := range comp {
		lossy = lossy || o.K == opDrop
	}
	bad := intrinsic(U, ob, lossy)
	for _, b := range bad {
		viol("addgroup-check-then-act", fmt.Sprintf("after both goroutines returned (AddGroup(x) returned code %d, competing calls %v): %s", xr.ret, crets, b))
	}
	class := "sched:" + name
	switch {
	case !parked:
		class += ":x-refused-before-checkgroup"
	case xFirst:
		class += ":competitor-waited"
	case xr.ret == 0:
		class += ":x-added-after-competitor"
	default:
		class += fmt.Sprintf(":x-refused(%d)-after-competitor", xr.ret)
	}
	res.Count(class, "sched;"+strings.Join(names(prefix), ";")+"|"+fmt.Sprint(x)+"|"+strings.Join(names(comp), ";"), parked && len(comp) > 0)
	if mixed {
		res.Count("sched:mixed-order-not-compared-with-model", name, false)
		return
	}
	pc := make([]string, len(prefix))
	for i, o := range prefix {
		pc[i] = o.coq()
	}
	cc := make([]string, len(comp))
	for i, o := range comp {
		cc[i] = o.coq()
	}
	cr := make([]string, len(crets))
	for i, r := range crets {
		cr[i] = fmt.Sprint(r)
	}
	i := sc.Add(fmt.Sprintf("(%d, [%s], (%d,%d,%d), [%s], %s, %s, [%s])", U, strings.Join(pc, ";"), x.Id, x.Pre, x.Parent,
		strings.Join(cc, ";"), hx.CoqBool(xFirst), ob.coq(), strings.Join(cr, ";")),
		map[string]interface{}{"prefix": names(prefix), "parked": fmt.Sprint(x), "competing": names(comp), "x_first": xFirst, "x_result": xr.ret, "competing_results": crets})
	if i%23 == 3 {
		res.Sample(map[string]interface{}{"class": class, "sequential-prefix": names(prefix), "parked-AddGroup": fmt.Sprintf("(%d,pre=%d,parent=%d)", x.Id, x.Pre, x.Parent),
			"competing": names(comp), "x_result": xr.ret, "competing_results": crets, "count": ob.Count, "walk": ob.Walk})
	}
}

// genSched: a random gated scenario in which an id determines the PreGroup of every group that carries it
// (the proviso of C19_schedules_locked: CheckGroup binds the id to the group).
func genSched(r *hx.Rng, U int) (prefix []Op, x FG, comp []Op) {
	sh := &shadow{l: []G{{1, 0, 0, 0}}}
	preOf := map[uint64]uint64{1: 0}
	fresh := func() uint64 {
		free := []uint64{}
		for id := uint64(2); id <= uint64(U); id++ {
			if _, used := preOf[id]; !used {
				free = append(free, id)
			}
		}
		if len(free) == 0 {
			return 0
		}
		return free[r.Intn(len(free))]
	}
	onChain := func() uint64 { return sh.l[r.Intn(len(sh.l))].Id }
	for k := r.Intn(4); k > 0; k-- {
		id := fresh()
		o := Op{K: opAdd, Id: id, Pre: sh.l[len(sh.l)-1].Id, Parent: onChain()}
		preOf[id] = o.Pre
		sh.step(o)
		prefix = append(prefix, o)
	}
	if len(sh.l) > 1 && r.Intn(5) == 0 {
		o := Op{K: opRemoveLast}
		sh.step(o)
		prefix = append(prefix, o)
	}
	last := sh.l[len(sh.l)-1].Id
	// the parked group: mostly a valid successor of the last group
	x = FG{Id: fresh(), Pre: last, Parent: onChain()}
	switch r.Intn(10) {
	case 0: // an id that is on the chain already (same PreGroup as the listed one)
		g := sh.l[r.Intn(len(sh.l))]
		x = FG{Id: g.Id, Pre: g.Pre, Parent: g.Parent}
	case 1: // predecessor below the tip
		x.Pre = onChain()
	}
	if x.Id == 0 {
		g := sh.l[len(sh.l)-1]
		x = FG{Id: g.Id, Pre: g.Pre, Parent: g.Parent}
	}
	if _, ok := preOf[x.Id]; !ok {
		preOf[x.Id] = x.Pre
	}
	mk := func(pre uint64) (FG, bool) { // a group for a competing call, respecting preOf
		if r.Intn(5) == 0 { // the same group as x (arrives a second time, e.g. from a peer)
			if preOf[x.Id] == pre || r.Intn(2) == 0 {
				return FG{x.Id, preOf[x.Id], x.Parent}, true
			}
		}
		id := fresh()
		if id == 0 {
			return FG{}, false
		}
		preOf[id] = pre
		return FG{id, pre, onChain()}, true
	}
	for k := 1 + r.Intn(5)/4; k > 0; k-- {
		var o Op
		switch c := r.Intn(100); {
		case c < 40: // competing successor of the same predecessor
			g, ok := mk(sh.l[len(sh.l)-1].Id)
			if !ok {
				o = Op{K: opRemoveLast}
			} else {
				o = Op{K: opAdd, Id: g.Id, Pre: g.Pre, Parent: g.Parent}
			}
		case c < 56:
			o = Op{K: opRemoveLast}
		case c < 62: // sqlite rows lost while the AddGroup is in flight
			o = Op{K: opDrop}
			for id := uint64(1); id <= uint64(U); id++ {
				if r.Intn(2) == 0 {
					o.Ids = append(o.Ids, id)
				}
			}
		case c < 70:
			o = Op{K: opRemoveFrom, H: uint64(r.Intn(len(sh.l) + 1))}
		default:
			o = Op{K: opFork, H: uint64(r.Intn(len(sh.l)))}
			pre := sh.l[o.H].Id
			for j := r.Intn(3); j > 0; j-- {
				g, ok := mk(pre)
				if !ok {
					break
				}
				o.Fork = append(o.Fork, g)
				pre = g.Id
			}
		}
		sh.step(o)
		comp = append(comp, o)
	}
	return
}

// ---- a reader that does not take the lock: Count() and LastGroup() return the fields unlocked ----
// parkDB parks the caller of Put("gcount"): in save that is after count++ and before lastGroup = group,
// in remove after count-- and before lastGroup = preGroup.
type parkDB struct {
	db.Database
	mu               sync.Mutex
	armed            bool
	entered, release chan struct{}
}

func (p *parkDB) Put(k, v []byte) error {
	p.mu.Lock()
	hit := p.armed && string(k) == "gcount"
	if hit {
		p.armed = false
	}
	p.mu.Unlock()
	if hit {
		close(p.entered)
		<-p.release
	}
	return p.Database.Put(k, v)
}

func runLF(res *hx.Result, lc *hx.Cases, U int, prefix []Op, isAdd bool, x FG) {
	names := make([]string, len(prefix))
	pc := make([]string, len(prefix))
	for i, o := range prefix {
		names[i], pc[i] = o.String(), o.coq()
	}
	call := "remove(lastGroup)"
	if isAdd {
		call = fmt.Sprintf("AddGroup(%d,pre=%d,parent=%d)", x.Id, x.Pre, x.Parent)
	}
	desc := map[string]interface{}{"genesis": "id 1, PreGroup nil", "sequential-prefix": names,
		"schedule": []string{"G1 " + call + " runs inside the write lock up to Put(\"gcount\") and is held there", "G2 reads Count() and LastGroup() (neither takes the lock)", "G1 released"}}
	freshStore(U)
	for _, o := range prefix {
		if _, pan := applySafe(o); pan != nil {
			res.Violate("C19/lockfree-reader:panic", fmt.Sprint("panic in the sequential prefix: ", pan), desc)
			return
		}
	}
	pd := &parkDB{armed: true, entered: make(chan struct{}), release: make(chan struct{})}
	orig := core.VerifGCWrapStore(func(d db.Database) db.Database { pd.Database = d; return pd })
	defer core.VerifGCWrapStore(func(db.Database) db.Database { return orig })
	done := make(chan interface{}, 1)
	go func() {
		var o Op
		if isAdd {
			o = Op{K: opAdd, Id: x.Id, Pre: x.Pre, Parent: x.Parent}
		} else {
			o = Op{K: opRemoveLast}
		}
		_, pan := applySafe(o)
		done <- pan
	}()
	kind := "remove"
	if isAdd {
		kind = "save"
	}
	select {
	case <-pd.entered:
	case pan := <-done:
		if pan != nil {
			res.Violate("C19/lockfree-reader:panic", fmt.Sprint("panic: ", pan), desc)
		}
		res.Count("lockfree:"+kind+":call-refused-before-the-writes", "lf;"+strings.Join(names, ";")+"|"+call, false)
		return
	case <-time.After(schedStuck):
		res.Violate("C19/lockfree-reader:stuck", call+" neither reached Put(gcount) nor returned", desc)
		close(pd.release)
		return
	}
	gc := core.GetGroupChain()
	cnt, lg := gc.Count(), proj(gc.LastGroup())
	close(pd.release)
	if pan := <-done; pan != nil {
		res.Violate("C19/lockfree-reader:panic", fmt.Sprint("panic: ", pan), desc)
		return
	}
	consistent := lg != nil && cnt == lg.H+1
	res.Count(fmt.Sprintf("lockfree:%s:pair-consistent=%v", kind, consistent), "lf;"+strings.Join(names, ";")+"|"+call, true)
	if !consistent {
		res.Violate("C19/lockfree-reader:count-vs-lastgroup:"+kind, fmt.Sprintf("while %s is between its two assignments a reader sees Count()=%d and LastGroup()=%s: no state between operations has this pair (Count() = LastGroup().GroupHeight+1 there); the predecessor walk from that LastGroup has %d groups", call, cnt, lg.coq(), lg.H+1), desc)
	}
	lc.Add(fmt.Sprintf("([%s], %s, (%d,%d,%d), %d, %s)", strings.Join(pc, ";"), hx.CoqBool(isAdd), x.Id, x.Pre, x.Parent, cnt, lg.coq()),
		map[string]interface{}{"prefix": names, "call": call, "count_seen": cnt, "last_seen": lg})
}

// ---- readers that take the read lock vs a writer parked in the middle of save / remove ----
// stepDB parks the caller before its k-th store write (Put or Delete, counted from 0).
type stepDB struct {
	db.Database
	mu               sync.Mutex
	armed            bool
	k, n             int
	entered, release chan struct{}
}

func (p *stepDB) gate() {
	p.mu.Lock()
	hit := p.armed && p.n == p.k
	p.n++
	if hit {
		p.armed = false
	}
	p.mu.Unlock()
	if hit {
		close(p.entered)
		<-p.release
	}
}
func (p *stepDB) Put(k, v []byte) error { p.gate(); return p.Database.Put(k, v) }
func (p *stepDB) Delete(k []byte) error { p.gate(); return p.Database.Delete(k) }

const readerGrace = 300 * time.Millisecond // a reader that has not returned by then counts as waiting for the writer

// runReaders: prefix sequentially; the writer (AddGroup / remove(last) / removeFromCommonAncestor) in its
// own goroutine, parked before its k-th store write, i.e. inside the write lock; every exported reader
// that takes the read lock is called from its own goroutine. On the code as it stands none of them
// returns before the writer is released. One that does return is reported, together with what it saw
// next to Count()/LastGroup().
func runReaders(res *hx.Result, U int, prefix []Op, w Op, k int) {
	names := make([]string, len(prefix))
	for i, o := range prefix {
		names[i] = o.String()
	}
	writes := map[int][]string{opAdd: {"Put(id, record)", "Put(gcurrent)", "Put(key(count))", "Put(gcount)"},
		opRemoveLast: {"Delete(id)", "Put(gcurrent)", "Delete(key(count-1))", "Put(gcount)"},
		opRemoveFrom: {"Delete(id)", "Put(gcurrent)", "Delete(key(count-1))", "Put(gcount)"}}[w.K]
	at := fmt.Sprintf("%s held before its store write %d = %s", w.String(), k, writes[k%4])
	if k >= 4 {
		at += fmt.Sprintf(" of removal %d", k/4+1)
	}
	parked := fmt.Sprintf("%s@write%d", w.kind(), k)
	desc := map[string]interface{}{"genesis": "id 1, PreGroup nil", "sequential-prefix": names, "writer": at}
	freshStore(U)
	for _, o := range prefix {
		if _, pan := applySafe(o); pan != nil {
			res.Violate("C19/schedules:panic:"+parked, fmt.Sprint("panic in the sequential prefix: ", pan), desc)
			return
		}
	}
	sd := &stepDB{armed: true, k: k, entered: make(chan struct{}), release: make(chan struct{})}
	orig := core.VerifGCWrapStore(func(d db.Database) db.Database { sd.Database = d; return sd })
	defer core.VerifGCWrapStore(func(db.Database) db.Database { return orig })
	wDone := make(chan interface{}, 1)
	go func() {
		_, pan := applySafe(w)
		wDone <- pan
	}()
	select {
	case <-sd.entered:
	case pan := <-wDone:
		if pan != nil {
			res.Violate("C19/schedules:panic:"+parked, fmt.Sprint("panic: ", pan), desc)
		}
		res.Count("readers:"+parked+":writer-made-fewer-writes", "rd;"+strings.Join(names, ";")+"|"+at, false)
		return
	case <-time.After(schedStuck):
		res.Violate("C19/schedules:stuck:"+parked, "the writer neither reached the store write nor returned", desc)
		close(sd.release)
		return
	}
	gc := core.GetGroupChain()
	cnt, lg := gc.Count(), gc.LastGroup() // neither takes the lock (listed finding C19/lockfree-reader covers this pair)
	type rd struct {
		name string
		f    func() string // "" = what it saw is consistent with Count()/LastGroup(); else the clause it breaks
	}
	readers := []rd{
		{"GetGroupById", func() string {
			if g := gc.GetGroupById(lg.Id); g == nil {
				return fmt.Sprintf("LastGroup() is group %d but GetGroupById of its id returns nothing (every listed group must be retrievable by id)", idNum(lg.Id))
			}
			return ""
		}},
		{"GetGroupByHeight", func() string {
			if cnt == 0 {
				return ""
			}
			if g := gc.GetGroupByHeight(cnt - 1); g == nil {
				return fmt.Sprintf("Count()=%d but GetGroupByHeight(%d) returns nothing", cnt, cnt-1)
			} else if g.GroupHeight != cnt-1 {
				return fmt.Sprintf("GetGroupByHeight(%d) returns a group of height %d", cnt-1, g.GroupHeight)
			}
			return ""
		}},
		{"GetSyncGroupsByHeight", func() string {
			l := core.VerifGCSyncGroupsByHeight(0, 5)
			for i, g := range l {
				if g == nil {
					return fmt.Sprintf("GetSyncGroupsByHeight(0,5) has a nil entry at %d", i)
				}
			}
			if uint64(len(l)) < cnt && len(l) < 5 {
				return fmt.Sprintf("Count()=%d but GetSyncGroupsByHeight(0,5) returns %d groups", cnt, len(l))
			}
			return ""
		}},
		{"GetSyncGroupsById", func() string { // genesis stays on the chain: the unlocked first lookup of this method finds it and the method then takes the lock
			for i, g := range gc.GetSyncGroupsById(idBytes(1)) {
				if g == nil {
					return fmt.Sprintf("GetSyncGroupsById(genesis) has a nil entry at %d", i)
				}
			}
			return ""
		}},
		{"Iterator.MovePre", func() string {
			it := gc.Iterator()
			cur := it.Current()
			if p := it.MovePre(); p == nil && len(cur.Header.PreGroup) != 0 {
				return fmt.Sprintf("the iterator stands on group %d whose predecessor %d cannot be found", idNum(cur.Id), idNum(cur.Header.PreGroup))
			}
			return ""
		}},
	}
	type ans struct {
		i   int
		bad string
		pan interface{}
	}
	out := make(chan ans, len(readers))
	for i := range readers {
		go func(i int) {
			var a ans
			a.i = i
			func() {
				defer func() { a.pan = recover() }()
				a.bad = readers[i].f()
			}()
			out <- a
		}(i)
	}
	returned := map[int]ans{}
	deadline := time.After(readerGrace)
collect:
	for len(returned) < len(readers) {
		select {
		case a := <-out:
			returned[a.i] = a
		case <-deadline:
			break collect
		}
	}
	early := len(returned)
	for i, r := range readers {
		a, ok := returned[i]
		if !ok {
			continue
		}
		what := fmt.Sprintf("%s returned while %s (inside the write lock); Count()=%d LastGroup()=%s at that moment", r.name, at, cnt, proj(lg).coq())
		if a.pan != nil {
			what += fmt.Sprint("; it panicked: ", a.pan)
		} else if a.bad != "" {
			what += "; what it saw breaks the property: " + a.bad
		} else {
			what += "; what it saw happens to agree with them"
		}
		res.Violate("C19/schedules:reader-not-excluded:"+r.name+":"+parked, what, desc)
	}
	close(sd.release)
	if pan := <-wDone; pan != nil {
		res.Violate("C19/schedules:panic:"+parked, fmt.Sprint("panic: ", pan), desc)
	}
	for len(returned) < len(readers) { // the waiting readers go on once the writer has left
		select {
		case a := <-out:
			returned[a.i] = a
			if a.pan != nil { // what it compares with (Count()/LastGroup()) was read before the writer finished: only a panic counts here
				res.Violate("C19/schedules:reader-after-writer:"+readers[a.i].name+":"+parked, fmt.Sprint("a reader that waited for the writer panics: ", a.pan), desc)
			}
		case <-time.After(schedStuck):
			res.Violate("C19/schedules:stuck:"+parked, "a reader does not return after the writer has returned", desc)
			return
		}
	}
	res.Count(fmt.Sprintf("readers:%s:%d-of-%d-readers-returned-early", parked, early, len(readers)), "rd;"+strings.Join(names, ";")+"|"+at, true)
	for _, b := range intrinsic(U, observe(U, 0), false) {
		res.Violate("C19/schedules:after-parked-writer:"+parked, b, desc)
	}
}

// ---- shutdown (groupChain.Close) interleaved with a writer, then a restart over the same files ----
// mode A: the writer is parked before its k-th store write (inside the write lock) and Close is called
//
//	from a second goroutine; Close either waits for the writer (fine) or closes the store under it.
//
// mode B: Close is parked before its own j-th store write (it has none on the code as it stands) while the
//
//	writer runs to completion; then Close is released.
//
// Afterwards initGroupChain runs on the same files and the whole property is evaluated on the result.
func runClose(res *hx.Result, U int, prefix []Op, w Op, k int, modeB bool) {
	names := make([]string, len(prefix))
	for i, o := range prefix {
		names[i] = o.String()
	}
	var sched []string
	desc := func() interface{} {
		return map[string]interface{}{"genesis": "id 1, PreGroup nil", "sequential-prefix": names, "schedule": sched}
	}
	tag := fmt.Sprintf("%s@write%d", w.kind(), k)
	if modeB {
		tag = fmt.Sprintf("%s@closewrite%d", w.kind(), k)
	}
	freshStore(U)
	for _, o := range prefix {
		if _, pan := applySafe(o); pan != nil {
			res.Violate("C19/shutdown:panic:"+tag, fmt.Sprint("panic in the sequential prefix: ", pan), desc())
			return
		}
	}
	finish := func(class string) {
		var pan interface{}
		func() {
			defer func() { pan = recover() }()
			reinit(true) // the chain is shut down already: this is initGroupChain on the same files
		}()
		if pan != nil {
			key := "C19/shutdown:close-during-op:" + tag
			if modeB {
				key = "C19/shutdown:close-writes-stale-tip:" + tag
			}
			res.Violate(key, fmt.Sprint("the node does not start again: initGroupChain panics: ", pan), desc())
			res.Count("shutdown:"+tag+":"+class+":restart-panics", "cl;"+strings.Join(names, ";")+"|"+tag, true)
			return // the next scenario starts by wiping the store
		}
		sched = append(sched, "initGroupChain on the same files")
		key := "C19/shutdown:close-during-op:" + tag
		if modeB {
			key = "C19/shutdown:close-writes-stale-tip:" + tag
		}
		for _, b := range intrinsic(U, observe(U, 0), false) {
			res.Violate(key, "after the restart: "+b, desc())
		}
		res.Count("shutdown:"+tag+":"+class, "cl;"+strings.Join(names, ";")+"|"+tag, true)
	}
	sd := &stepDB{armed: !modeB, k: k, entered: make(chan struct{}), release: make(chan struct{})}
	core.VerifGCWrapStore(func(d db.Database) db.Database { sd.Database = d; return sd })
	closeDone := make(chan interface{}, 1)
	doClose := func() {
		go func() {
			var pan interface{}
			func() {
				defer func() { pan = recover() }()
				core.VerifGCShutdown()
			}()
			closeDone <- pan
		}()
	}
	if modeB {
		sd.mu.Lock()
		sd.n, sd.armed = 0, true
		sd.mu.Unlock()
		doClose()
		select {
		case pan := <-closeDone:
			if pan != nil {
				res.Violate("C19/shutdown:panic:"+tag, fmt.Sprint("Close panics: ", pan), desc())
			}
			sched = append(sched, "Close makes fewer store writes than that and returns")
			finish("close-has-no-such-write")
			return
		case <-sd.entered:
			sched = append(sched, fmt.Sprintf("G1 Close() held before its store write %d (its arguments are evaluated)", k))
		case <-time.After(schedStuck):
			res.Violate("C19/shutdown:stuck:"+tag, "Close neither reached a store write nor returned", desc())
			close(sd.release)
			return
		}
		wDone := make(chan interface{}, 1)
		go func() { _, pan := applySafe(w); wDone <- pan }()
		select {
		case pan := <-wDone:
			if pan != nil {
				res.Violate("C19/shutdown:panic:"+tag, fmt.Sprint("panic: ", pan), desc())
			}
			sched = append(sched, "G2 "+w.String()+" runs to completion")
		case <-time.After(2 * time.Second):
			sched = append(sched, "G2 "+w.String()+" waits for Close")
		}
		close(sd.release)
		if pan := <-closeDone; pan != nil {
			res.Violate("C19/shutdown:panic:"+tag, fmt.Sprint("Close panics: ", pan), desc())
		}
		sched = append(sched, "G1 released: Close() returns")
		select {
		case <-wDone:
		default:
		}
		finish("close-parked")
		return
	}
	// mode A
	wDone := make(chan interface{}, 1)
	go func() { _, pan := applySafe(w); wDone <- pan }()
	select {
	case <-sd.entered:
		sched = append(sched, fmt.Sprintf("G1 %s held before its store write %d (inside the write lock)", w.String(), k))
	case pan := <-wDone:
		if pan != nil {
			res.Violate("C19/shutdown:panic:"+tag, fmt.Sprint("panic: ", pan), desc())
		}
		core.VerifGCShutdown()
		finish("writer-made-fewer-writes")
		return
	case <-time.After(schedStuck):
		res.Violate("C19/shutdown:stuck:"+tag, "the writer neither reached the store write nor returned", desc())
		close(sd.release)
		return
	}
	doClose()
	class := "close-waited-for-the-writer"
	closed := false
	select {
	case pan := <-closeDone:
		closed = true
		if pan != nil {
			res.Violate("C19/shutdown:panic:"+tag, fmt.Sprint("Close panics: ", pan), desc())
		}
		class = "close-did-not-wait"
		sched = append(sched, "G2 Close() returns while the writer is in the middle of its writes")
	case <-time.After(readerGrace):
		sched = append(sched, "G2 Close() waits for the writer")
	}
	close(sd.release)
	if pan := <-wDone; pan != nil {
		res.Violate("C19/shutdown:panic:"+tag, fmt.Sprint("the writer panics: ", pan), desc())
	}
	sched = append(sched, "G1 released: the writer returns")
	if !closed {
		if pan := <-closeDone; pan != nil {
			res.Violate("C19/shutdown:panic:"+tag, fmt.Sprint("Close panics: ", pan), desc())
		}
		sched = append(sched, "G2 Close() returns")
	}
	finish(class)
}

// ---- key-space collisions: a group whose id is a key of another kind (8-byte height key, "gcurrent",
// "gcount"); only reachable with a CheckGroup that accepts such an id (the real one demands
// g.Id = NewIDFromPubkey(gpk).Serialize(), 32 bytes), so nothing here is reported as a violation: the
// observation is compared with the byte-level model (coq/C19/KeyModel.v, check_keys) ----
func coqBytes(b []byte) string {
	p := make([]string, len(b))
	for i, x := range b {
		p[i] = fmt.Sprint(x)
	}
	return "[" + strings.Join(p, ";") + "]"
}

func runKeys(res *hx.Result, kc *hx.Cases, name string, id []byte) {
	freshStore(3)
	gc := core.GetGroupChain()
	g0 := idBytes(1)
	g := &types.Group{Id: id, PubKey: []byte{9}, Members: [][]byte{{1}},
		Header: &types.GroupHeader{PreGroup: g0, Parent: g0, CreateHeight: 10, Extends: "x"}}
	var ret uint64
	var pan interface{}
	func() {
		defer func() { pan = recover() }()
		err := gc.AddGroup(g)
		switch {
		case err == nil:
			ret = 0
		case errors.Is(err, common.ErrGroupAlreadyExist):
			ret = 1
		case strings.HasPrefix(err.Error(), "parent is not existed"):
			ret = 2
		case strings.HasPrefix(err.Error(), "pre not equal"):
			ret = 3
		default:
			ret = 9
		}
	}()
	if pan != nil {
		res.Violate("C19/keyspace:panic:"+name, fmt.Sprint("AddGroup panics: ", pan), map[string]interface{}{"id": fmt.Sprintf("%x", id)})
		return
	}
	byId := gc.GetGroupById(id) != nil
	byH := gc.GetGroupByHeight(1) != nil
	lastIs := bytes.Equal(gc.LastGroup().Id, id)
	res.Count(fmt.Sprintf("keyspace:%s:ret=%d,count=%d,by-id=%v,height1=%v", name, ret, gc.Count(), byId, byH), "keyspace;"+name, true)
	kc.Add(fmt.Sprintf("(%s, %s, %d, %d, %s, %s, %s)", coqBytes(g0), coqBytes(id), ret, gc.Count(), hx.CoqBool(byId), hx.CoqBool(byH), hx.CoqBool(lastIs)),
		map[string]interface{}{"scenario": name, "id": fmt.Sprintf("%x", id), "result": ret, "count": gc.Count(), "found_by_id": byId, "height_1_found": byH})
}

// ---- generators ----
func genSeq(r *hx.Rng, U int) []Op {
	n := 6 + r.Intn(10)
	sh := &shadow{l: []G{{1, 0, 0, 0}}}
	ops := make([]Op, 0, n)
	for len(ops) < n {
		var o Op
		x := r.Intn(100)
		full := len(sh.l) >= U-1
		switch {
		case (x < 48 && !full) || (x < 15 && full):
			o.K = opAdd
			free := []uint64{}
			for id := uint64(2); id <= uint64(U); id++ {
				if !sh.has(id) {
					free = append(free, id)
				}
			}
			if len(free) == 0 || r.Intn(12) == 0 {
				o.Id = sh.l[r.Intn(len(sh.l))].Id // already on the chain
			} else {
				o.Id = free[r.Intn(len(free))]
			}
			o.Pre = sh.l[len(sh.l)-1].Id
			if r.Intn(10) == 0 {
				o.Pre = uint64(r.Intn(U + 1)) // wrong (or nil) predecessor
			}
			o.Parent = sh.l[r.Intn(len(sh.l))].Id
			if r.Intn(12) == 0 {
				o.Parent = uint64(r.Intn(U + 1)) // possibly not on the chain
			}
		case x < 66:
			o.K = opRemoveLast
		case x < 74:
			o.K = opRemoveFrom
			o.H = uint64(r.Intn(len(sh.l) + 1))
		case x < 83:
			// fork switch: ancestor somewhere on the chain (rarely above it), 0..3 fork groups that mostly
			// link up correctly; ids mostly fresh, sometimes one that stays on the chain below the ancestor
			o.K = opFork
			o.H = uint64(r.Intn(len(sh.l) + 1))
			if o.H == uint64(len(sh.l)) && r.Intn(3) != 0 {
				o.H = uint64(r.Intn(len(sh.l)))
			}
			keep := sh.l
			if o.H < uint64(len(sh.l)) {
				keep = sh.l[:o.H+1]
			}
			used := map[uint64]bool{}
			for _, g := range keep {
				used[g.Id] = true
			}
			cand := []uint64{keep[0].Id}
			for _, g := range keep {
				cand = append(cand, g.Id)
			}
			pre := keep[len(keep)-1].Id
			for k := r.Intn(4); k > 0; k-- {
				free := []uint64{}
				for id := uint64(2); id <= uint64(U); id++ {
					if !used[id] {
						free = append(free, id)
					}
				}
				var g FG
				if len(free) == 0 || r.Intn(14) == 0 {
					g.Id = keep[r.Intn(len(keep))].Id
				} else {
					g.Id = free[r.Intn(len(free))]
				}
				g.Pre = pre
				if r.Intn(14) == 0 {
					g.Pre = uint64(r.Intn(U + 1))
				}
				g.Parent = cand[r.Intn(len(cand))]
				if r.Intn(14) == 0 {
					g.Parent = uint64(r.Intn(U + 1)) // possibly a group the switch has just removed
				}
				o.Fork = append(o.Fork, g)
				used[g.Id] = true
				cand = append(cand, g.Id)
				pre = g.Id
			}
		case x < 86:
			o.K = opSetRow
			o.Id = uint64(1 + r.Intn(U))
			o.H = uint64(r.Intn(U + 1))
		case x < 91:
			o.K = opDrop
			if r.Intn(3) == 0 { // the whole index
				for id := uint64(1); id <= uint64(U); id++ {
					o.Ids = append(o.Ids, id)
				}
			} else {
				for id := uint64(1); id <= uint64(U); id++ {
					if r.Intn(3) == 0 {
						o.Ids = append(o.Ids, id)
					}
				}
			}
		default:
			o.K = opRestart
			o.Cold = r.Intn(2) == 0
		}
		sh.step(o)
		ops = append(ops, o)
	}
	return ops
}

func main() {
	if os.Getenv("C19_PROF") != "" {
		f, _ := os.Create(os.Getenv("C19_PROF"))
		pprof.StartCPUProfile(f)
		defer pprof.StopCPUProfile()
	}
	if os.Getenv("C19_MEMPROF") != "" {
		defer func() {
			f, _ := os.Create(os.Getenv("C19_MEMPROF"))
			pprof.Lookup("allocs").WriteTo(f, 0)
			f.Close()
		}()
	}
	a := hx.ParseArgs()
	rng := hx.NewRng(a.Seed)
	res := hx.NewResult("one case = one history of AddGroup / remove(last) / removeFromCommonAncestor / fork switch (triggerOnChain) / restart / loss of sqlite rows " +
		"on a fresh store (genesis id 1); the property is evaluated after every operation. Generated: all histories up to length 3 (quick) / 4 (thorough) over an " +
		"8-letter alphabet (thorough: also all of length 5 over 5 of the letters: add 2, add 3, remove-last, remove-from-ancestor(0), restart), then seeded random histories of 6..15 operations " +
		"over 7 ids with ~10% refused additions. non-trivial = a history in which a group was actually removed and afterwards a group was added or the node " +
		"restarted, or in which a restart had to re-create lost sqlite rows")
	cs := hx.NewCases(a.Out, "From V.C19 Require Import Model Harness.\nOpen Scope N_scope.", "N * list (hop * obs)", "check", 100)

	if os.Getenv("C19_GC") != "on" {
		debug.SetGCPercent(-1)
		gcOff = true
	}
	common.Init(0, "c19.ini", "dev")
	notify.BUS = notify.NewBus()
	mysql.InitMySql()
	g0 := mkGroup(1, 0, 0)
	g0.Header.DismissHeight = math.MaxUint64
	theHelper = &helper{genesis: *g0}
	common.GlobalConf.SetString(common.ConfigSec, common.DefaultJoinedGroupDatabaseKey, "jgs0")
	core.VerifGCInit(theHelper)

	runCase := func(U int, ops []Op) {
		sr := runSeq(res, U, ops)
		names := make([]string, len(ops))
		for i, o := range ops {
			names[i] = o.String()
		}
		class := "no-removal"
		switch {
		case sr.removed && sr.readd && sr.rsAfter:
			class = "removal+re-add+restart"
		case sr.removed && sr.readd:
			class = "removal+re-add"
		case sr.removed && sr.rsAfter:
			class = "removal+restart"
		case sr.removed:
			class = "removal-only"
		}
		if sr.healed {
			class += "+index-rebuilt"
		}
		for _, o := range ops {
			if o.K == opSetRow {
				class += "+wrong-row"
				break
			}
		}
		res.Count(class, strings.Join(names, ";"), (sr.removed && (sr.readd || sr.rsAfter)) || sr.healed)
		for _, c := range sr.rets {
			res.Histogram[fmt.Sprintf("op-result-%d", c)]++
		}
		i := cs.Add(fmt.Sprintf("(%d, [%s])", U, strings.Join(sr.steps, ";\n   ")), map[string]interface{}{"genesis": "id 1", "ids": U, "history": names, "results": sr.rets})
		if i%61 == 7 {
			res.Sample(map[string]interface{}{"history": names, "results": sr.rets, "class": class})
		}
	}

	// exhaustive small scope
	alpha := []Op{{K: opAdd, Id: 2, Pre: 0xff, Parent: 1}, {K: opAdd, Id: 3, Pre: 0xff, Parent: 1}, {K: opAdd, Id: 2, Pre: 1, Parent: 3},
		{K: opRemoveLast}, {K: opRemoveFrom, H: 0}, {K: opRestart, Cold: false},
		{K: opFork, H: 0, Fork: []FG{{3, 1, 1}, {2, 3, 3}}}, {K: opDrop, Ids: []uint64{1, 2}}}
	depth := 3
	if a.Tier == "thorough" {
		depth = 4
	}
	// every history over the given letters of length <= depth; only those of length >= minLen are run
	var rec func(pre []Op, letters []Op, depth, minLen int)
	rec = func(pre []Op, letters []Op, depth, minLen int) {
		if len(pre) >= minLen && len(pre) > 0 {
			runCase(3, pre)
		}
		if len(pre) == depth {
			return
		}
		for _, o := range letters {
			// Pre 0xff = "the current last group" (tracked with a reference list)
			sh := &shadow{l: []G{{1, 0, 0, 0}}}
			seq := make([]Op, 0, len(pre)+1)
			for _, p := range pre {
				sh.step(p)
				seq = append(seq, p)
			}
			if o.K == opAdd && o.Pre == 0xff {
				o.Pre = sh.l[len(sh.l)-1].Id
			}
			rec(append(seq, o), letters, depth, minLen)
		}
	}
	rec(nil, alpha, depth, 1)
	res.Exhaustive = true
	res.Note(fmt.Sprintf("exhaustive: every history of length <= %d over {add 2 after last, add 3 after last, add 2 with PreGroup=genesis and parent 3, remove-last, remove-from-ancestor(0), restart, fork-switch(ancestor genesis, [3 after genesis, 2 after 3 with parent 3]), lose the sqlite rows of 1 and 2}", depth))
	if a.Tier == "thorough" {
		rec(nil, []Op{alpha[0], alpha[1], alpha[3], alpha[4], alpha[5]}, 5, 5)
		res.Note("exhaustive: every history of length 5 over {add 2 after last, add 3 after last, remove-last, remove-from-ancestor(0), restart}")
	}
	res.Note("restart(cold) = close the shared LevelDB and the joined-groups DB, then initGroupChain() on the same files; restart(warm) = initGroupChain() on the still-open store (exhaustive histories use warm, random ones cold with probability 1/2); crashes between the individual Puts inside save/remove are outside the property as stated and are not generated")
	res.Note("fork-switch = newGroupChainFork(chain group at the height), the fork groups stored with insertGroup (verifyGroup, which needs the block chain, is not called), the real triggerOnChain, destroy; lose-sqlite-rows = DELETE of the ids' rows with the harness's own SQL behind the chain's back (the situation refreshCache repairs at the next start)")

	for i := 0; i < a.N; i++ {
		runCase(7, genSeq(rng, 7))
	}
	// gated schedules
	sc := hx.NewCasesNamed(a.Out, "sched", "From V.C19 Require Import Model Harness.\nOpen Scope N_scope.",
		"N * list hop * (N * N * N) * list hop * bool * obs * list N", "check_sched", 100)
	add := func(id, pre, parent uint64) Op { return Op{K: opAdd, Id: id, Pre: pre, Parent: parent} }
	fixed := []struct {
		name   string
		prefix []Op
		x      FG
		comp   []Op
	}{
		{"competing-successor", []Op{add(2, 1, 1)}, FG{3, 2, 1}, []Op{add(4, 2, 1)}},
		{"competing-successor-of-genesis", nil, FG{2, 1, 1}, []Op{add(3, 1, 1)}},
		{"same-group-twice", []Op{add(2, 1, 1)}, FG{3, 2, 1}, []Op{add(3, 2, 1)}},
		{"tip-removed", []Op{add(2, 1, 1)}, FG{3, 2, 1}, []Op{{K: opRemoveLast}}},
		{"parent-removed", []Op{add(2, 1, 1), add(3, 2, 1)}, FG{4, 3, 3}, []Op{{K: opRemoveLast}, add(5, 2, 1)}},
		{"fork-switch-below-tip", []Op{add(2, 1, 1), add(3, 2, 1)}, FG{4, 3, 1}, []Op{{K: opFork, H: 0, Fork: []FG{{5, 1, 1}, {6, 5, 5}}}}},
		{"fork-switch-readds-x", []Op{add(2, 1, 1)}, FG{3, 2, 1}, []Op{{K: opFork, H: 1, Fork: []FG{{3, 2, 1}, {4, 3, 3}}}}},
		{"remove-from-ancestor", []Op{add(2, 1, 1), add(3, 2, 2)}, FG{4, 3, 1}, []Op{{K: opRemoveFrom, H: 0}}},
		{"tip-removed-and-restored", []Op{add(2, 1, 1)}, FG{3, 2, 1}, []Op{{K: opRemoveLast}, add(2, 1, 1)}},
		{"no-competitor", []Op{add(2, 1, 1)}, FG{3, 2, 1}, nil},
	}
	for _, f := range fixed {
		runSched(res, sc, 7, f.name, f.prefix, f.x, f.comp)
	}
	nSched := a.N / 4
	for i := 0; i < nSched; i++ {
		p, x, c := genSched(rng, 7)
		runSched(res, sc, 7, "random", p, x, c)
	}
	res.Note(fmt.Sprintf("gated schedules: %d fixed + %d seeded random scenarios; consensusHelper.CheckGroup holds one AddGroup (after Has(id), before the write lock) while a second goroutine runs competing AddGroup / remove(last) / removeFromCommonAncestor / fork-switch calls to completion, then releases it; a competing call that does not return within %v counts as waiting for the parked call (then the parked call is released first); the property is evaluated on the observation taken after both returned, and the observation is compared with the model's fine-grained semantics (crun) under the same schedule. In every scenario an id determines the PreGroup of the groups carrying it (what CheckGroup guarantees on a real node)", len(fixed), nSched, schedGrace))
	// readers without the lock
	lc := hx.NewCasesNamed(a.Out, "lf", "From V.C19 Require Import Model Harness.\nOpen Scope N_scope.",
		"list hop * bool * (N * N * N) * N * option group", "check_lf", 100)
	runLF(res, lc, 7, nil, true, FG{2, 1, 1})
	runLF(res, lc, 7, []Op{add(2, 1, 1), add(3, 2, 1)}, true, FG{4, 3, 2})
	runLF(res, lc, 7, []Op{add(2, 1, 1)}, false, FG{})
	runLF(res, lc, 7, []Op{add(2, 1, 1), add(3, 2, 1), add(4, 3, 1)}, false, FG{})
	runLF(res, lc, 7, []Op{add(2, 1, 1)}, true, FG{3, 1, 1}) // refused (PreGroup is not the last group): nothing is written
	res.Note("lock-free readers: save / remove are parked at Put(\"gcount\") (between count++/count-- and the assignment of lastGroup) through a store wrapper; Count() and LastGroup() are read at that moment and compared with the model's save_mid / remove_mid")
	// locked readers vs a writer parked at each of its store writes
	for k := 0; k < 4; k++ {
		runReaders(res, 7, []Op{add(2, 1, 1), add(3, 2, 1)}, add(4, 3, 2), k)
		runReaders(res, 7, []Op{add(2, 1, 1), add(3, 2, 1)}, Op{K: opRemoveLast}, k)
	}
	runReaders(res, 7, []Op{add(2, 1, 1), add(3, 2, 1), add(4, 3, 1)}, Op{K: opRemoveFrom, H: 0}, 5)
	runReaders(res, 7, []Op{add(2, 1, 1), add(3, 2, 1), add(4, 3, 1)}, Op{K: opRemoveFrom, H: 0}, 10)
	res.Note(fmt.Sprintf("locked readers: AddGroup / remove(last) are parked before each of their four store writes (and removeFromCommonAncestor inside its 2nd and 3rd removal) through a store wrapper, i.e. inside the write lock; GetGroupById, GetGroupByHeight, GetSyncGroupsByHeight, GetSyncGroupsById and Iterator.MovePre are each called from their own goroutine; one that returns within %v (before the writer is released) is reported with what it saw; one that is merely slow counts as waiting", readerGrace))
	// shutdown interleaved with a writer, then restart
	for k := 0; k < 4; k++ {
		runClose(res, 7, []Op{add(2, 1, 1), add(3, 2, 1)}, add(4, 3, 2), k, false)
		runClose(res, 7, []Op{add(2, 1, 1), add(3, 2, 1)}, Op{K: opRemoveLast}, k, false)
	}
	runClose(res, 7, []Op{add(2, 1, 1), add(3, 2, 1), add(4, 3, 1)}, Op{K: opRemoveFrom, H: 0}, 6, false)
	for j := 0; j < 2; j++ {
		runClose(res, 7, []Op{add(2, 1, 1), add(3, 2, 1)}, add(4, 3, 2), j, true)
		runClose(res, 7, []Op{add(2, 1, 1), add(3, 2, 1)}, Op{K: opRemoveLast}, j, true)
		runClose(res, 7, []Op{add(2, 1, 1), add(3, 2, 1), add(4, 3, 1)}, Op{K: opRemoveFrom, H: 0}, j, true)
	}
	res.Note("shutdown: groupChain.Close() (through the hook's shutdown) is interleaved with AddGroup / remove(last) / removeFromCommonAncestor at each store write of the writer (mode A) and at each store write of Close itself, of which the code as it stands has none (mode B); then initGroupChain runs on the same files and the whole property is evaluated. Cold restarts of the sequential histories are Close + initGroupChain, warm ones initGroupChain on the open store")
	// key-space collisions
	kc := hx.NewCasesNamed(a.Out, "keys", "From V.C19 Require Import KeyModel Harness.\nOpen Scope N_scope.",
		"list N * list N * N * N * bool * bool * bool", "check_keys", 100)
	be8 := func(h uint64) []byte { b := make([]byte, 8); binary.BigEndian.PutUint64(b, h); return b }
	runKeys(res, kc, "id=height-key-of-the-next-group", be8(1))
	runKeys(res, kc, "id=occupied-height-key", be8(0))
	runKeys(res, kc, "id=free-height-key-above", be8(5))
	runKeys(res, kc, "id=gcount", []byte("gcount"))
	runKeys(res, kc, "id=gcurrent", []byte("gcurrent"))
	runKeys(res, kc, "id=32-bytes", idBytes(2))
	runKeys(res, kc, "id=8-bytes-not-a-used-key", []byte("abcdefgh"))
	res.Note("key-space scenarios: AddGroup of a group whose id is an 8-byte height key / \"gcurrent\" / \"gcount\" on a fresh store with the accepting CheckGroup stub, compared with the byte-level key model (check_keys); not violations: the real CheckGroup and verifyGroup demand the 32-byte id derived from the group public key before anything is written")
	core.VerifGCShutdown()
	mysql.CloseMysql()
	cs.Close()
	sc.Close()
	kc.Close()
	lc.Close()
	res.ModelCases = cs.Total() + sc.Total() + kc.Total() + lc.Total()
	res.Write(a.Out)
}
