package main

import (
	"fmt"
	"math/big"

	"com.tuntun.rangers/node/src/common"
	"com.tuntun.rangers/node/src/core"
	"com.tuntun.rangers/node/src/middleware/mysql"
	"com.tuntun.rangers/node/src/middleware/notify"
	"com.tuntun.rangers/node/src/middleware/types"
)

type helper struct{ genesis *types.Group }

func (h *helper) GenerateGenesisInfo() []*types.GenesisInfo {
	return []*types.GenesisInfo{{Group: *h.genesis}}
}
func (h *helper) VRFProve2Value(*big.Int) *big.Int                 { return big.NewInt(0) }
func (h *helper) ProposalBonus() *big.Int                           { return big.NewInt(0) }
func (h *helper) PackBonus() *big.Int                               { return big.NewInt(0) }
func (h *helper) VerifyHash(*types.Block) common.Hash               { return common.Hash{} }
func (h *helper) CheckProveRoot(*types.BlockHeader) (bool, error)   { return true, nil }
func (h *helper) VerifyNewBlock(*types.BlockHeader, *types.BlockHeader) (bool, error) {
	return true, nil
}
func (h *helper) VerifyBlockHeader(*types.BlockHeader) (bool, error) { return true, nil }
func (h *helper) VerifyGroupSign([]byte, common.Hash, []byte) (bool, error) {
	return true, nil
}
func (h *helper) CheckGroup(*types.Group) (bool, error) { return true, nil }
func (h *helper) VerifyMemberInfo(*types.BlockHeader, *types.BlockHeader) (bool, error) {
	return true, nil
}
func (h *helper) VerifyGroupForFork(*types.Group, *types.Group, *types.Group, *types.Block) (bool, error) {
	return true, nil
}

func mk(id byte, pre, parent []byte) *types.Group {
	i := make([]byte, 32)
	i[31] = id
	return &types.Group{Id: i, Header: &types.GroupHeader{PreGroup: pre, Parent: parent}}
}

func main() {
	common.Init(0, "c19.ini", "dev")
	notify.BUS = notify.NewBus()
	mysql.InitMySql()
	g0 := mk(1, nil, nil)
	core.VerifGCInit(&helper{g0})
	gc := core.GetGroupChain()
	show := func(tag string) {
		fmt.Printf("%s: count=%d last=%x mysql=%d\n", tag, gc.Count(), gc.LastGroup().Id[31:], mysql.CountGroups())
		for i := uint64(0); i < gc.Count()+3; i++ {
			g := gc.GetGroupByHeight(i)
			if g == nil {
				fmt.Printf("  h%d: nil\n", i)
			} else {
				fmt.Printf("  h%d: %x (GroupHeight %d)\n", i, g.Id[31:], g.GroupHeight)
			}
		}
	}
	show("init")
	g1 := mk(2, g0.Id, g0.Id)
	fmt.Println("add g1:", gc.AddGroup(g1))
	show("after add")
	fmt.Println("remove last:", core.VerifGCRemoveLast())
	show("after remove")
	fmt.Println("sync after last:", len(gc.GetSyncGroupsById(gc.LastGroup().Id)))
	core.VerifGCRestart()
	gc = core.GetGroupChain()
	show("after restart")
	g2 := mk(3, g0.Id, g0.Id)
	fmt.Println("add g2:", gc.AddGroup(g2))
	show("after add g2")
}
