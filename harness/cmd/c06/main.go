// C06 harness: native-token conservation / non-negativity.
// Every generated transaction is executed as its own block by the REAL VMExecutor loop
// (core.VerifC06ExecuteBlockCtx -> executors -> EVM -> AccountDB) on an in-memory state;
// (a) the property is evaluated directly on the implementation: balances over the closed address
//
//	universe + locked stake + refund escrow before/after, allowing only self-suicide burns;
//
// (b) the same block is written as a model case: for contract txs the EVM ledger trace is recorded at
//
//	the StateDB interface (nodehx.ExtractContract) and replayed through coq/C06/Model.v.
package main

import (
	"encoding/json"
	"fmt"
	"math/big"
	"sort"
	"strconv"
	"strings"

	"com.tuntun.rangers/node/src/common"
	"com.tuntun.rangers/node/src/middleware/types"
	"com.tuntun.rangers/node/src/service"
	"com.tuntun.rangers/node/src/utility"
	"verif/harness/hx"
	nx "verif/harness/nodehx"
)

var (
	e18      = new(big.Int).Exp(big.NewInt(10), big.NewInt(18), nil)
	gwei     = big.NewInt(1000000000)
	fee      = nx.Wei("0.001")
	tenTok   = nx.Tokens(10)
	refundIn = uint64(36000)
)

// ---- world ----
type world struct {
	*nx.World
	S          []common.Address // senders
	T          []common.Address // plain targets
	C          []common.Address // contract slots (code installed per case)
	KM         common.Address   // contract that is a miner account (STAKE / UNSTAKE programs)
	MN         common.Address   // main node contract (operator-node tx)
	Auth       common.Address   // authority whose AUTH signature the attacker holds
	AuthCD     map[common.Address][]byte
	base       []common.Address
	minerId    [][]byte // every miner id ever applied in this world
	heights    map[uint64]bool
	h          uint64
	proposerId []byte
	groupId    []byte
}

func newWorld(r *hx.Rng) *world {
	w := &world{World: nx.NewWorld(), heights: map[uint64]bool{}, h: 20, AuthCD: map[common.Address][]byte{}}
	for i := 0; i < 4; i++ {
		w.S = append(w.S, nx.Addr(1+i))
	}
	w.T = []common.Address{nx.Addr(0x11), nx.Addr(0x12)}
	w.C = []common.Address{nx.Addr(0x21), nx.Addr(0x22), nx.Addr(0x23)}
	w.KM = nx.Addr(0x31)
	w.MN = common.MainNodeContract()
	priv := make([]byte, 32)
	priv[31] = 7
	var commit [32]byte
	for _, c := range w.C {
		cd, a := nx.AuthSig(priv, common.GetChainId(100), c, commit)
		w.AuthCD[c] = cd
		w.Auth = a
	}
	adb := w.ADB
	adb.SetBalance(w.S[0], nx.Tokens(1000000))
	adb.SetBalance(w.S[1], nx.Tokens(5000))
	adb.SetBalance(w.S[2], nx.Wei("0.0015"))
	// S[3] holds nothing
	adb.SetBalance(w.T[1], nx.Wei("3.25"))
	for _, c := range append(append([]common.Address{}, w.C...), w.KM, w.MN) {
		adb.SetNonce(c, 1)
		adb.SetCode(c, []byte{nx.STOP})
	}
	adb.SetBalance(w.C[1], nx.Wei("2"))
	adb.SetBalance(w.KM, nx.Tokens(1000))
	// KM: program chosen by calldata word 0 = amount; byte layout: ADDRESS; CALLDATALOAD(0); <op>; ...
	// main node contract: four LOG0 of 32 bytes, the last one carrying the new account address
	mn := &nx.Asm{}
	mn.PushAddr(nx.Addr(0x41)).PushU(0).Op(nx.MSTORE)
	for i := 0; i < 4; i++ {
		mn.PushU(32).PushU(0).Op(nx.LOG0)
	}
	mn.Op(nx.STOP)
	adb.SetCode(w.MN, mn.B)
	w.base = []common.Address{common.FeeAccount}
	w.base = append(w.base, w.S...)
	w.base = append(w.base, w.T...)
	w.base = append(w.base, w.C...)
	w.base = append(w.base, w.KM, w.MN, w.Auth, nx.TokenContract, common.ValidatorDBAddress, common.ProposerDBAddress, nx.Addr(0x41))
	w.Boundary()
	return w
}

func (w *world) lockedTotal() *big.Int {
	s := new(big.Int)
	seen := map[string]bool{}
	for _, id := range w.minerId {
		if seen[string(id)] {
			continue
		}
		seen[string(id)] = true
		if m := service.MinerManagerImpl.GetMiner(id, w.ADB); m != nil {
			s.Add(s, nx.Tokens(m.Stake))
		}
	}
	return s
}

func (w *world) sortedHeights() []uint64 {
	hs := make([]uint64, 0, len(w.heights))
	for h := range w.heights {
		hs = append(hs, h)
	}
	sort.Slice(hs, func(i, j int) bool { return hs[i] < hs[j] })
	return hs
}

type escrowEntry struct {
	H uint64
	A common.Address
	V *big.Int
}

func (w *world) escrow() []escrowEntry {
	var es []escrowEntry
	for _, h := range w.sortedHeights() {
		m := nx.Escrow(w.ADB, h)
		as := make([]common.Address, 0, len(m))
		for a := range m {
			as = append(as, a)
		}
		sort.Slice(as, func(i, j int) bool { return as[i].GetHexString() < as[j].GetHexString() })
		for _, a := range as {
			es = append(es, escrowEntry{h, a, m[a]})
		}
	}
	return es
}

func escTotal(es []escrowEntry) *big.Int {
	s := new(big.Int)
	for _, e := range es {
		s.Add(s, e.V)
	}
	return s
}

// ---- amount strings ----
var amountZoo = []string{"0", "1", "1.5", "0.000000000000000001", "0.0000000000000000001", "0.1234567890123456789012", "-1", "-0.5",
	"1000000000000000000000000000000", "abc", "", "1e3", "1e-19", "0x10", " 2", "5000", "4999.9", "2.000000000000000000", "999999.9", ".5", "+3", "--1", "1.2.3", "NaN", "Inf"}

func pickAmount(r *hx.Rng) string {
	if r.Intn(2) == 0 {
		return strconv.Itoa(r.Intn(3000)) + "." + strconv.Itoa(r.Intn(1000000))
	}
	return amountZoo[r.Intn(len(amountZoo))]
}

func parseAmt(s string) (*big.Int, bool) {
	v, err := utility.StrToBigInt(s)
	if err != nil {
		return nil, false
	}
	return v, true
}

// ---- EVM program generator ----
type prog struct {
	code []byte
	desc []string
}

func (w *world) valueExpr(r *hx.Rng, a *nx.Asm, d *[]string) {
	switch r.Intn(8) {
	case 0:
		a.PushU(0)
		*d = append(*d, "v=0")
	case 1:
		a.PushU(1)
		*d = append(*d, "v=1wei")
	case 2:
		a.Op(nx.CALLVALUE)
		*d = append(*d, "v=callvalue")
	case 3:
		a.Op(nx.SELFBALANCE)
		*d = append(*d, "v=selfbalance")
	case 4:
		a.PushU(1).Op(nx.SELFBALANCE, nx.ADD)
		*d = append(*d, "v=selfbalance+1")
	case 5:
		a.Push(nx.Wei("0.25"))
		*d = append(*d, "v=0.25")
	case 6:
		a.Op(nx.ORIGIN, nx.BALANCE)
		*d = append(*d, "v=balance(origin)")
	default:
		a.Push(new(big.Int).Lsh(big.NewInt(1), 255))
		*d = append(*d, "v=2^255")
	}
}

func (w *world) anyAddr(r *hx.Rng, self common.Address) common.Address {
	cands := []common.Address{w.T[0], w.T[1], w.S[0], w.S[3], w.C[0], w.C[1], w.C[2], self, common.FeeAccount, nx.Addr(0x51)}
	return cands[r.Intn(len(cands))]
}

var childInit = map[string][]byte{}

func init() {
	childInit["stop"] = nx.Initcode([]byte{nx.STOP})
	childInit["suicide-self"] = (&nx.Asm{}).Op(nx.ADDRESS, nx.SELFDESTRUCT).B
	childInit["revert"] = (&nx.Asm{}).PushU(0).PushU(0).Op(nx.REVERT).B
	childInit["invalid"] = []byte{nx.INVALID}
	childInit["runtime-suicide-self"] = nx.Initcode((&nx.Asm{}).Op(nx.ADDRESS, nx.SELFDESTRUCT).B)
}

// genProg builds runtime code: a sequence of value-moving actions and a terminal.
func (w *world) genProg(r *hx.Rng, self common.Address, depth int) prog {
	a := &nx.Asm{}
	var d []string
	n := r.Intn(4)
	for i := 0; i < n; i++ {
		switch k := r.Intn(10); {
		case k < 5: // CALL
			to := w.anyAddr(r, self)
			gas := uint64(0xffffffff)
			if r.Intn(5) == 0 {
				gas = uint64(r.Intn(3)) * 2300
			}
			a.PushU(0).PushU(0).PushU(0).PushU(0)
			w.valueExpr(r, a, &d)
			a.PushAddr(to).PushU(gas).Op(nx.CALL, nx.POP)
			d = append(d, "call:"+short(w, to))
		case k < 7: // CREATE
			names := []string{"stop", "suicide-self", "revert", "invalid", "runtime-suicide-self"}
			nm := names[r.Intn(len(names))]
			ic := childInit[nm]
			// store initcode at memory 0 via PUSH32 chunks
			for off := 0; off < len(ic); off += 32 {
				chunk := make([]byte, 32)
				copy(chunk, ic[off:])
				a.PushBytes(chunk).PushU(uint64(off)).Op(nx.MSTORE)
			}
			a.PushU(uint64(len(ic))).PushU(0)
			w.valueExpr(r, a, &d)
			a.Op(nx.CREATE, nx.POP)
			d = append(d, "create:"+nm)
		case k < 8: // CALLCODE with value (value stays with self)
			to := w.C[1+r.Intn(2)]
			a.PushU(0).PushU(0).PushU(0).PushU(0)
			w.valueExpr(r, a, &d)
			a.PushAddr(to).PushU(0xffffff).Op(nx.CALLCODE, nx.POP)
			d = append(d, "callcode:"+short(w, to))
		default: // AUTH + AUTHCALL: value is taken from the tx origin
			cd := w.AuthCD[self]
			if cd == nil {
				continue
			}
			for off := 0; off < 128; off += 32 {
				a.PushBytes(cd[off : off+32]).PushU(uint64(off)).Op(nx.MSTORE)
			}
			a.PushU(128).PushU(0).PushAddr(w.Auth).Op(nx.AUTH, nx.POP)
			to := w.anyAddr(r, self)
			a.PushU(0).PushU(0).PushU(0).PushU(0).PushU(0)
			w.valueExpr(r, a, &d)
			a.PushAddr(to).PushU(0).PushU(0).Op(nx.AUTHCALL, nx.POP)
			d = append(d, "authcall:"+short(w, to))
		}
	}
	switch k := r.Intn(12); {
	case k < 5:
		a.Op(nx.STOP)
		d = append(d, "stop")
	case k < 7:
		a.PushU(0).PushU(0).Op(nx.REVERT)
		d = append(d, "revert")
	case k < 8:
		a.Op(nx.INVALID)
		d = append(d, "invalid")
	case k < 9:
		a.Op(nx.JUMPDEST).PushU(uint64(len(a.B) - 1)).Op(nx.JUMP)
		d = append(d, "loop-oog")
	default:
		to := w.anyAddr(r, self)
		if r.Intn(2) == 0 {
			to = self
		}
		a.PushAddr(to).Op(nx.SELFDESTRUCT)
		d = append(d, "selfdestruct:"+short(w, to))
	}
	return prog{a.B, d}
}

func short(w *world, a common.Address) string {
	names := map[common.Address]string{common.FeeAccount: "fee", w.KM: "KM", w.MN: "MN", w.Auth: "auth"}
	for i, x := range w.S {
		names[x] = fmt.Sprintf("S%d", i)
	}
	for i, x := range w.T {
		names[x] = fmt.Sprintf("T%d", i)
	}
	for i, x := range w.C {
		names[x] = fmt.Sprintf("C%d", i)
	}
	if n, ok := names[a]; ok {
		return n
	}
	return a.GetHexString()[:10]
}

// ---- one generated block ----
type gen struct {
	kind   string // transfer | call | create | lock | refund | feeonly | opnode | custom | idle
	tx     *types.Transaction
	desc   map[string]interface{}
	model  func(idx func(common.Address) int, info *nx.ContractInfo, rc *types.Receipt) (string, bool) // Coq tx term
	custom string                                                                                      // "stake" | "unstake" for custom-opcode programs (searched only)
	negVal bool
}

func contractData(gas, val string, data []byte) string {
	b, _ := json.Marshal(types.ContractData{GasLimit: gas, TransferValue: val, AbiData: common.ToHex(data)})
	return string(b)
}

func zlit(v *big.Int) string {
	if v.Sign() < 0 {
		return "(" + v.String() + ")"
	}
	return v.String()
}

func optZ(v *big.Int, ok bool) string {
	if !ok {
		return "None"
	}
	return "(Some " + zlit(v) + ")"
}

var gasZoo = []string{"", "0", "3000000", "30000000", "700000", "100000", "21000", "900000001", "99999999999", "abc", "-1", "5000000"}

func (w *world) generate(r *hx.Rng) gen {
	src := w.S[[]int{0, 0, 0, 0, 0, 0, 1, 1, 1, 1, 2, 3}[r.Intn(12)]]
	srcHex := nx.AddrHex(src)
	k := r.Intn(100)
	switch {
	case k < 24: // transfer
		n := 1
		if r.Intn(3) == 0 {
			n = 2 + r.Intn(2)
		}
		targets := map[string]types.TransferData{}
		type ta struct {
			a   common.Address
			amt string
		}
		var tl []ta
		cands := []common.Address{w.T[0], w.T[1], w.S[3], w.C[0], common.FeeAccount, w.S[1]}
		if n == 1 && r.Intn(6) == 0 {
			cands = []common.Address{src} // self-transfer only alone: ChangeAssets ranges over a Go map (C01)
		}
		for i := 0; i < n; i++ {
			t := cands[r.Intn(len(cands))]
			if t == src && n > 1 {
				continue
			}
			if _, dup := targets[nx.AddrHex(t)]; dup {
				continue
			}
			amt := pickAmount(r)
			if r.Intn(5) == 0 {
				amt = utility.BigIntToStr(w.ADB.GetBalance(src)) // everything (the fee is taken first, so this fails)
			}
			targets[nx.AddrHex(t)] = types.TransferData{Balance: amt}
			tl = append(tl, ta{t, amt})
		}
		extra, _ := json.Marshal(targets)
		if r.Intn(25) == 0 {
			extra = []byte("{not json")
			tl = nil
		}
		tx := nx.NewTx(types.TransactionTypeOperatorEvent, srcHex, "", "", string(extra))
		bad := string(extra) == "{not json"
		return gen{kind: "transfer", tx: tx, desc: map[string]interface{}{"src": short(w, src), "extra": string(extra)},
			model: func(idx func(common.Address) int, _ *nx.ContractInfo, _ *types.Receipt) (string, bool) {
				var ps []string
				if bad {
					ps = append(ps, fmt.Sprintf("(%d%%N, None)", idx(src)))
				}
				for _, t := range tl {
					v, ok := parseAmt(t.amt)
					ps = append(ps, fmt.Sprintf("(%d%%N, %s)", idx(t.a), optZ(v, ok)))
				}
				return fmt.Sprintf("TTransfer %d%%N [%s]", idx(src), strings.Join(ps, "; ")), true
			}}
	case k < 62: // contract call
		self := w.C[0]
		p := w.genProg(r, self, 0)
		if r.Intn(12) == 0 { // the frame moves the origin's whole balance away (AUTHCALL takes its value from the origin)
			a := &nx.Asm{}
			cd := w.AuthCD[self]
			for off := 0; off < 128; off += 32 {
				a.PushBytes(cd[off : off+32]).PushU(uint64(off)).Op(nx.MSTORE)
			}
			a.PushU(128).PushU(0).PushAddr(w.Auth).Op(nx.AUTH, nx.POP)
			a.PushU(0).PushU(0).PushU(0).PushU(0).PushU(0).Op(nx.ORIGIN, nx.BALANCE).PushAddr(w.T[0]).PushU(0).PushU(0).Op(nx.AUTHCALL, nx.POP, nx.STOP)
			p = prog{a.B, []string{"auth", "v=balance(origin)", "authcall:T0", "stop"}}
		}
		c1 := w.genProg(r, w.C[1], 1)
		c2 := w.genProg(r, w.C[2], 1)
		w.ADB.SetCode(self, p.code)
		w.ADB.SetCode(w.C[1], c1.code)
		w.ADB.SetCode(w.C[2], c2.code)
		val := pickAmount(r)
		if r.Intn(3) == 0 {
			val = "0"
		}
		gas := gasZoo[r.Intn(len(gasZoo))]
		if r.Intn(4) > 0 {
			gas = []string{"3000000", "5000000", "30000000", ""}[r.Intn(4)]
		}
		tgt := self
		if r.Intn(12) == 0 {
			tgt = w.T[0]
		}
		tx := nx.NewTx(types.TransactionTypeContract, srcHex, nx.AddrHex(tgt), contractData(gas, val, nil), "")
		if r.Intn(40) == 0 {
			tx = nx.NewTx(types.TransactionTypeContract, srcHex, nx.AddrHex(tgt), "{bad", "")
		}
		v, vok := parseAmt(val)
		return gen{kind: "call", tx: tx, negVal: vok && v.Sign() < 0,
			desc:  map[string]interface{}{"src": short(w, src), "to": short(w, tgt), "gas": gas, "value": val, "C0": p.desc, "C1": c1.desc, "C2": c2.desc, "code": common.ToHex(p.code)},
			model: contractModel(src)}
	case k < 70: // contract creation
		names := []string{"stop", "suicide-self", "revert", "invalid", "runtime-suicide-self"}
		nm := names[r.Intn(len(names))]
		val := pickAmount(r)
		gas := "3000000"
		if r.Intn(4) == 0 {
			gas = gasZoo[r.Intn(len(gasZoo))]
		}
		tx := nx.NewTx(types.TransactionTypeContract, srcHex, "", contractData(gas, val, childInit[nm]), "")
		v, vok := parseAmt(val)
		return gen{kind: "create", tx: tx, negVal: vok && v.Sign() < 0,
			desc: map[string]interface{}{"src": short(w, src), "init": nm, "gas": gas, "value": val}, model: contractModel(src)}
	case k < 80: // miner apply / add
		return w.genLock(r, src)
	case k < 86: // miner refund
		return w.genRefund(r, src)
	case k < 90: // change account that is refused, or unknown miner: fee only
		m := types.Miner{Id: []byte{0xde, 0xad}, Account: w.T[0].Bytes()}
		md, _ := json.Marshal(m)
		tx := nx.NewTx(types.TransactionTypeMinerChangeAccount, srcHex, "", string(md), "")
		return gen{kind: "feeonly", tx: tx, desc: map[string]interface{}{"src": short(w, src), "what": "change-account of unknown miner"},
			model: func(idx func(common.Address) int, _ *nx.ContractInfo, _ *types.Receipt) (string, bool) {
				return fmt.Sprintf("TFeeOnly %d%%N", idx(src)), true
			}}
	case k < 93: // operator node
		tx := nx.NewTx(types.TransactionTypeOperatorNode, srcHex, "", "", "")
		return gen{kind: "opnode", tx: tx, desc: map[string]interface{}{"src": short(w, src)},
			model: func(idx func(common.Address) int, _ *nx.ContractInfo, rc *types.Receipt) (string, bool) {
				// the registry-side outcome (miner found by account, create2 call) is taken from the receipt
				return fmt.Sprintf("TOperatorNode %d%%N %s", idx(src), hx.CoqBool(rc != nil && rc.Status == 1)), true
			}}
	case k < 97: // custom opcodes on the miner contract (searched only)
		return w.genCustom(r, src)
	default:
		return gen{kind: "idle", desc: map[string]interface{}{}}
	}
}

func contractModel(src common.Address) func(idx func(common.Address) int, info *nx.ContractInfo, rc *types.Receipt) (string, bool) {
	return func(idx func(common.Address) int, info *nx.ContractInfo, rc *types.Receipt) (string, bool) {
		if info == nil || (info.Ran && !info.Parsed) {
			return "", false
		}
		var evs []string
		for _, e := range info.Trace {
			switch e.Kind {
			case "V":
				evs = append(evs, fmt.Sprintf("V %d%%N %d%%N %s", idx(e.A), idx(e.B), zlit(e.V)))
			case "K":
				evs = append(evs, fmt.Sprintf("K %d%%N %d%%N", idx(e.A), idx(e.B)))
			case "S":
				evs = append(evs, fmt.Sprintf("S %d%%N", e.Id))
			case "R":
				evs = append(evs, fmt.Sprintf("R %d%%N", e.Id))
			}
		}
		evmOK := rc != nil && rc.Status == 1
		gasFee := new(big.Int)
		if rc != nil {
			gasFee.Mul(new(big.Int).SetUint64(rc.GasUsed), gwei)
		}
		return fmt.Sprintf("TContract %d%%N %s %s %s %s [%s] %s %s None", idx(src), hx.CoqBool(info.DecodeOK), zlit(info.LimitFee), zlit(info.Value),
			hx.CoqBool(info.IntrinsicOK), strings.Join(evs, "; "), hx.CoqBool(evmOK), zlit(gasFee)), true
	}
}

var nextMiner = 1

func (w *world) accountHeld(acc []byte) bool {
	for _, id := range w.minerId {
		if m := service.MinerManagerImpl.GetMiner(id, w.ADB); m != nil && string(m.Account) == string(acc) {
			return true
		}
	}
	return false
}

func (w *world) genLock(r *hx.Rng, src common.Address) gen {
	srcHex := nx.AddrHex(src)
	if len(w.minerId) > 0 && r.Intn(2) == 0 { // add stake
		id := w.minerId[r.Intn(len(w.minerId))]
		if r.Intn(6) == 0 {
			id = []byte{0xde, 0xad}
		}
		delta := []uint64{0, 1, 100, 400, 5000, 999999}[r.Intn(6)]
		md, _ := json.Marshal(types.Miner{Id: id, Stake: delta})
		tx := nx.NewTx(types.TransactionTypeMinerAdd, srcHex, "", string(md), "")
		exists := service.MinerManagerImpl.GetMiner(id, w.ADB) != nil
		regOK := delta == 0 || exists
		return gen{kind: "lock", tx: tx, desc: map[string]interface{}{"src": short(w, src), "add": delta, "id": common.ToHex(id)},
			model: func(idx func(common.Address) int, _ *nx.ContractInfo, _ *types.Receipt) (string, bool) {
				return fmt.Sprintf("TLock %d%%N %s %s", idx(src), nx.Tokens(delta).String(), hx.CoqBool(regOK)), true
			}}
	}
	typ := byte(r.Intn(2))
	if r.Intn(10) == 0 {
		typ = 2
	}
	stake := []uint64{400, 399, 2000, 1999, 800, 0, 2500, 6000}[r.Intn(8)]
	id := []byte{0x70, byte(nextMiner >> 8), byte(nextMiner)}
	nextMiner++
	if len(w.minerId) > 0 && r.Intn(6) == 0 {
		id = w.minerId[r.Intn(len(w.minerId))]
	}
	acct := src.Bytes()
	if r.Intn(6) == 0 {
		acct = w.T[r.Intn(2)].Bytes()
	}
	pk := []byte{1, 2}
	if r.Intn(12) == 0 {
		pk = nil
	}
	m := types.Miner{Id: id, PublicKey: pk, VrfPublicKey: []byte{3}, Type: typ, Stake: stake, Account: acct}
	md, _ := json.Marshal(m)
	tx := nx.NewTx(types.TransactionTypeMinerApply, srcHex, "", string(md), "")
	min := common.ValidatorStake
	if typ == common.MinerTypeProposer {
		min = common.ProposerStake
	}
	regOK := typ <= 1 && stake >= min && len(pk) > 0 && service.MinerManagerImpl.GetMiner(id, w.ADB) == nil && !w.accountHeld(acct)
	w.minerId = append(w.minerId, id)
	return gen{kind: "lock", tx: tx, desc: map[string]interface{}{"src": short(w, src), "apply": stake, "type": typ, "id": common.ToHex(id), "account": common.ToHex(acct)},
		model: func(idx func(common.Address) int, _ *nx.ContractInfo, _ *types.Receipt) (string, bool) {
			return fmt.Sprintf("TLock %d%%N %s %s", idx(src), nx.Tokens(stake).String(), hx.CoqBool(regOK)), true
		}}
}

func (w *world) genRefund(r *hx.Rng, src common.Address) gen {
	id := []byte{0xde, 0xad}
	if len(w.minerId) > 0 {
		id = w.minerId[r.Intn(len(w.minerId))]
		// prefer a miner controlled by one of the senders, and let that sender ask
		for _, c := range w.minerId {
			if m := service.MinerManagerImpl.GetMiner(c, w.ADB); m != nil && r.Intn(3) > 0 {
				for _, s := range w.S {
					if string(m.Account) == string(s.Bytes()) {
						id = c
						if r.Intn(8) > 0 {
							src = s
						}
					}
				}
			}
		}
	}
	srcHex := nx.AddrHex(src)
	amts := []string{"0", "1", "100", "100", "400", "400", "2000", "18446744073709551615", "99999", "abc", "-1", "1.5", "50", "399"}
	amt := amts[r.Intn(len(amts))]
	data, _ := json.Marshal(map[string]string{"Amount": amt, "MinerId": common.ToHex(id)})
	tx := nx.NewTx(types.TransactionTypeMinerRefund, srcHex, "", string(data), "")
	m := service.MinerManagerImpl.GetMiner(id, w.ADB)
	val, perr := strconv.ParseUint(amt, 10, 64)
	regOK := perr == nil && m != nil && string(m.Account) == string(src.Bytes())
	released := uint64(0)
	if regOK {
		released = val
		if val == ^uint64(0) {
			released = m.Stake
		}
		if released > m.Stake {
			regOK = false
		}
	}
	h := w.h + refundIn
	return gen{kind: "refund", tx: tx, desc: map[string]interface{}{"src": short(w, src), "amount": amt, "id": common.ToHex(id)},
		model: func(idx func(common.Address) int, _ *nx.ContractInfo, _ *types.Receipt) (string, bool) {
			return fmt.Sprintf("TRefundReq %d%%N %s %d%%N %d%%N %s", idx(src), nx.Tokens(released).String(), h, idx(src), hx.CoqBool(regOK)), true
		}}
}

// custom opcodes: the miner contract KM runs STAKE / UNSTAKE / UNSTAKEALL with an amount from calldata
func (w *world) genCustom(r *hx.Rng, src common.Address) gen {
	op := []byte{nx.STAKE, nx.UNSTAKE, nx.UNSTAKE, nx.UNSTAKE}[r.Intn(4)]
	a := &nx.Asm{}
	a.Op(nx.ADDRESS).PushU(0).Op(nx.CALLDATALOAD, op, nx.POP, nx.STOP)
	w.ADB.SetCode(w.KM, a.B)
	amts := []string{"0.5", "1", "100", "0.000000000000000001", "399.5", "1.5", "400", "115792089237316195423570985008687907853269984665640564039457"}
	amt := nx.Wei(amts[r.Intn(len(amts))])
	tx := nx.NewTx(types.TransactionTypeContract, nx.AddrHex(src), nx.AddrHex(w.KM), contractData("3000000", "0", utility.LeftPadBytes(amt.Bytes(), 32)), "")
	name := "stake"
	if op == nx.UNSTAKE {
		name = "unstake"
	}
	return gen{kind: "custom", tx: tx, custom: name, desc: map[string]interface{}{"src": short(w, src), "op": name, "amount": amt.String()}}
}

// burnOf replays the primitive-level trace to find what self-suicides destroyed (net of reverts).
func burnOf(tr []nx.Ev) *big.Int {
	type fr struct {
		id   int
		burn *big.Int
	}
	cur := new(big.Int)
	var st []fr
	for _, e := range tr {
		switch e.Kind {
		case "K":
			if e.A == e.B {
				cur = new(big.Int).Add(cur, e.V)
			}
		case "S":
			st = append(st, fr{e.Id, new(big.Int).Set(cur)})
		case "R":
			for i := len(st) - 1; i >= 0; i-- {
				if st[i].id == e.Id {
					cur = st[i].burn
					st = st[:i]
					break
				}
			}
		}
	}
	return cur
}

func main() {
	a := hx.ParseArgs()
	rng := hx.NewRng(a.Seed)
	res := hx.NewResult("a block is non-trivial when its transaction passed the fee step and either moved value (balances, stake or escrow changed beyond the fee) or was rejected after BeforeExecute; distinct = distinct (kind, outcome, program/amount description)")
	cs := hx.NewCases(a.Out, "From V.C06 Require Import Model Harness.", "list Z * list (N * addr * Z) * list op * obs", "check", 150)
	nx.Boot(20)

	var w *world
	blocksPerWorld := 120
	for i := 0; i < a.N; i++ {
		if w == nil || i%blocksPerWorld == 0 {
			w = newWorld(rng)
			w.setupMiners()
		}
		violated = false
		w.step(rng, res, cs)
		if violated {
			w = nil // a violated ledger (e.g. minted supply) must not leak into later cases: start a fresh world
		}
	}
	cs.Close()
	res.ModelCases = cs.Total()
	res.Write(a.Out)
	fmt.Printf("c06: %d evaluations, %d model cases, histogram %v\n", res.Evaluations, cs.Total(), res.Histogram)
}

// setupMiners: KM (a contract) becomes the account of a validator so that STAKE/UNSTAKE programs find a miner;
// S0 becomes the account of a proposer used as block castor (reward path).
func (w *world) setupMiners() {
	id := []byte{0x6b, 0x6d}
	m := types.Miner{Id: id, PublicKey: []byte{1}, VrfPublicKey: []byte{2}, Type: common.MinerTypeValidator, Stake: 800, Account: w.KM.Bytes()}
	md, _ := json.Marshal(m)
	w.h++
	rs := nx.RunBlock(w.World, w.h, nil, nx.NewTx(types.TransactionTypeMinerApply, nx.AddrHex(w.S[0]), "", string(md), ""))
	if len(rs) != 1 || rs[0].Status != 1 {
		panic("setup: miner apply for KM failed: " + rs[0].Msg)
	}
	w.minerId = append(w.minerId, id)
	pid := []byte{0x70, 0x70}
	pm := types.Miner{Id: pid, PublicKey: []byte{1}, VrfPublicKey: []byte{2}, Type: common.MinerTypeProposer, Stake: 2000, Account: w.T[1].Bytes()}
	pd, _ := json.Marshal(pm)
	w.h++
	rs = nx.RunBlock(w.World, w.h, nil, nx.NewTx(types.TransactionTypeMinerApply, nx.AddrHex(w.S[0]), "", string(pd), ""))
	if len(rs) != 1 || rs[0].Status != 1 {
		panic("setup: proposer apply failed: " + rs[0].Msg)
	}
	w.minerId = append(w.minerId, pid)
	w.proposerId = pid
	w.groupId = []byte{0x67, 0x31}
	nx.Groups[string(w.groupId)] = &types.Group{Id: w.groupId, Members: [][]byte{id}}
	w.Boundary()
}

func (w *world) step(r *hx.Rng, res *hx.Result, cs *hx.Cases) {
	// height: usually the next one; sometimes jump to a height at which escrow is due
	w.h++
	var due []uint64
	for _, h := range w.sortedHeights() {
		if h > w.h && len(nx.Escrow(w.ADB, h)) > 0 {
			due = append(due, h)
		}
	}
	jumped := false
	if len(due) > 0 && r.Intn(6) == 0 {
		w.h = due[0]
		jumped = true
	}
	w.ADB.SetNonce(w.Auth, 0) // AUTHCALL bumps the authority's nonce; the generated programs always pass nonce 0
	g := w.generate(r)
	if jumped && r.Intn(2) == 0 {
		g = gen{kind: "idle", desc: map[string]interface{}{}}
	}
	var groupId []byte
	rewardH := ((w.h + 35999) / 36000) * 36000
	// a reward scheduled for the block's own height is credited by the same block's CheckAndMove: not separable
	withReward := r.Intn(7) == 0 && rewardH != w.h
	if withReward {
		groupId = w.groupId
		w.heights[rewardH] = true
	}
	w.heights[w.h+refundIn] = true
	w.heights[w.h] = true

	var info *nx.ContractInfo
	var txs []*types.Transaction
	if g.tx != nil {
		txs = []*types.Transaction{g.tx}
		if g.kind == "call" || g.kind == "create" || g.kind == "custom" {
			ci := nx.ExtractContract(w.ADB, g.tx, nx.Header(w.h))
			info = &ci
		}
	}
	// universe of this case
	uni := append([]common.Address{}, w.base...)
	pos := map[common.Address]int{}
	for i, x := range uni {
		pos[x] = i
	}
	idx := func(x common.Address) int {
		if p, ok := pos[x]; ok {
			return p
		}
		pos[x] = len(uni)
		uni = append(uni, x)
		return pos[x]
	}
	if info != nil {
		for _, e := range info.Trace {
			if e.Kind == "V" || e.Kind == "K" {
				idx(e.A)
				idx(e.B)
			}
		}
		if info.Created != (common.Address{}) {
			idx(info.Created)
		}
	}
	escBefore := w.escrow()
	for _, e := range escBefore {
		idx(e.A)
	}
	balBefore := make([]*big.Int, len(uni))
	for i, x := range uni {
		balBefore[i] = w.ADB.GetBalance(x)
	}
	lockedBefore := w.lockedTotal()
	nUni := len(uni)

	// ---- the real thing ----
	hd := w.h
	var rs []*types.Receipt
	var panicked interface{}
	func() {
		defer func() { panicked = recover() }()
		rs = runBlockCastor(w, hd, groupId, txs)
	}()
	if panicked != nil {
		res.Count("panic", fmt.Sprint(g.desc), true)
		violate(res, "C06/total:executor-panic", fmt.Sprintf("block execution panicked: %v", panicked), g.desc)
		w.Boundary()
		return
	}
	var rc *types.Receipt
	if len(rs) == 1 {
		rc = rs[0]
	}
	escAfter := w.escrow()
	for _, e := range escAfter {
		idx(e.A)
	}
	lateAddr := len(uni) != nUni // an escrow beneficiary outside the universe appeared: its balance before is unknown
	for i := nUni; i < len(uni); i++ {
		balBefore = append(balBefore, new(big.Int))
	}
	balAfter := make([]*big.Int, len(uni))
	for i, x := range uni {
		balAfter[i] = w.ADB.GetBalance(x)
	}
	lockedAfter := w.lockedTotal()
	w.Boundary()

	// ---- direct evaluation of the property on the implementation ----
	sum := func(bs []*big.Int) *big.Int {
		s := new(big.Int)
		for _, b := range bs {
			s.Add(s, b)
		}
		return s
	}
	wealthBefore := new(big.Int).Add(new(big.Int).Add(sum(balBefore), lockedBefore), escTotal(escBefore))
	wealthAfter := new(big.Int).Add(new(big.Int).Add(sum(balAfter), lockedAfter), escTotal(escAfter))
	// reward scheduled by this block = growth of the escrow at the reward height not explained by refunds (refunds go to h+36000)
	reward := new(big.Int)
	var rewardEntries []escrowEntry
	if withReward {
		bm := map[common.Address]*big.Int{}
		for _, e := range escBefore {
			if e.H == rewardH {
				bm[e.A] = e.V
			}
		}
		for _, e := range escAfter {
			if e.H == rewardH {
				d := new(big.Int).Set(e.V)
				if b, ok := bm[e.A]; ok {
					d.Sub(d, b)
				}
				if d.Sign() != 0 {
					reward.Add(reward, d)
					rewardEntries = append(rewardEntries, escrowEntry{rewardH, e.A, d})
				}
			}
		}
		if rewardH == hd+refundIn { // ambiguous attribution: do not model this block
			rewardEntries = nil
		}
	}
	burn := new(big.Int)
	success := rc != nil && rc.Status == 1
	if info != nil && info.Ran && success {
		burn = burnOf(info.Trace)
	}
	delta := new(big.Int).Sub(wealthAfter, wealthBefore)
	delta.Sub(delta, reward)
	delta.Add(delta, burn)
	class := g.kind
	if rc != nil {
		if success {
			class += ":ok"
		} else {
			class += ":fail"
		}
	}
	if info != nil && info.Ran {
		hasK, hasR, hasV := false, false, false
		for _, e := range info.Trace {
			switch e.Kind {
			case "K":
				hasK = true
			case "R":
				hasR = true
			case "V":
				if e.V.Sign() != 0 {
					hasV = true
				}
			}
		}
		if hasV {
			class += "+value"
		}
		if hasK {
			class += "+suicide"
		}
		if hasR {
			class += "+revert"
		}
		if burn.Sign() != 0 {
			class += "+burn"
		}
		if info.EvmErr != "" && strings.Contains(info.EvmErr, "out of gas") {
			class += "+oog"
		}
	} else if info != nil {
		switch {
		case !info.DecodeOK && !info.BeforeOK:
			class += ":before-rejected"
		case !info.BeforeOK:
			class += ":precheck"
		case !info.IntrinsicOK:
			class += ":intrinsic"
		}
	}
	if jumped {
		class += "@due"
	}
	if withReward {
		class += "+reward"
	}
	feePaid := balAfter[0].Cmp(balBefore[0]) != 0
	moved := false
	for i := 1; i < len(uni) && i < len(balBefore); i++ {
		d := new(big.Int).Sub(balAfter[i], balBefore[i])
		if d.Sign() != 0 && !(uni[i] == srcOf(g) && new(big.Int).Neg(d).Cmp(fee) == 0) {
			moved = true
		}
	}
	nontrivial := feePaid && (moved || !success || lockedAfter.Cmp(lockedBefore) != 0)
	descJ, _ := json.Marshal(g.desc)
	res.Count(class, g.kind+"|"+class+"|"+string(descJ), nontrivial)
	if res.Evaluations%97 == 1 {
		res.Sample(map[string]interface{}{"kind": g.kind, "class": class, "height": hd, "tx": g.desc, "wealth_before": wealthBefore.String(), "wealth_after": wealthAfter.String(), "burn": burn.String(), "reward": reward.String()})
	}
	input := map[string]interface{}{"kind": g.kind, "height": hd, "tx": g.desc, "wealth_before": wealthBefore.String(), "wealth_after": wealthAfter.String(),
		"allowed_burn": burn.String(), "reward": reward.String(), "unexplained_delta": delta.String()}
	if rc != nil {
		input["receipt"] = map[string]interface{}{"status": rc.Status, "msg": rc.Msg, "gasUsed": rc.GasUsed}
	}
	if delta.Sign() != 0 {
		key, what := "", ""
		gasFee := new(big.Int)
		if rc != nil {
			gasFee.Mul(new(big.Int).SetUint64(rc.GasUsed), gwei)
		}
		switch {
		case g.custom == "unstake" && delta.Sign() > 0:
			key = "C06/refund-exact:unstake-opcode-credits-requested-amount"
			what = "UNSTAKE opcode schedules the requested amount for the origin although the stake released is smaller (fractional amounts are truncated, oversized ones clamp to the whole stake): stake + escrow + balances grew by " + delta.String()
		case g.kind == "opnode" && success && new(big.Int).Neg(delta).Cmp(tenTok) == 0:
			key = "C06/decrease-only:operator-node-charge-destroyed"
			what = "a successful operator-node tx debits 10 tokens from the source and credits nobody: the sum decreases by something that is neither stake nor a self-destruct"
		case (g.kind == "call" || g.kind == "create") && success && delta.Sign() > 0 && delta.Cmp(gasFee) <= 0 && w.balOf(srcOf(g)).Sign() == 0 && !g.negVal:
			key = "C06/gas-mint:unchecked-sub-after-origin-drained"
			what = "contract executor credited the gas fee to the fee account without debiting the drained origin: supply grew by " + delta.String()
		case g.negVal && delta.Sign() > 0:
			key = "C06/negative-value:vm-cantransfer-unsigned"
			what = "contract tx with a negative transferValue credited sender and recipient: supply grew by " + delta.String()
		case delta.Sign() > 0:
			key = "C06/mint:" + class
			what = "balances + locked stake + escrow grew by " + delta.String() + " without a scheduled reward"
		default:
			key = "C06/decrease-only:" + class
			what = "balances + locked stake + escrow shrank by " + new(big.Int).Neg(delta).String() + " beyond stake locking and self-destruct burns"
		}
		violate(res, key, what, input)
	}
	for i, b := range balAfter {
		if b.Sign() < 0 || b.BitLen() > 256 {
			violate(res, "C06/nonneg:"+short(w, uni[i]), "balance negative or wider than a 256-bit slot: "+b.String(), input)
		}
	}

	// ---- model case ----
	if g.kind == "custom" || (withReward && rewardEntries == nil && reward.Sign() != 0) || lateAddr {
		return // custom opcodes are searched, not modelled
	}
	var ops []string
	if g.model != nil {
		t, ok := g.model(idx, info, rc)
		if !ok {
			res.Note("trace of a contract tx did not parse into model events; case skipped: " + string(descJ))
			return
		}
		if info != nil && info.Ran && rc != nil {
			// the extraction run must have seen what the real run did
			if (info.EvmErr == "") != success || info.GasUsed != rc.GasUsed {
				violate(res, "C06/correspondence:extraction-diverged", fmt.Sprintf("trace extraction (err=%q gas=%d) and real execution (status=%d gas=%d) disagree", info.EvmErr, info.GasUsed, rc.Status, rc.GasUsed), input)
				return
			}
		}
		ops = append(ops, "OTx ("+t+")")
	}
	if len(rewardEntries) > 0 {
		var ps []string
		for _, e := range rewardEntries {
			ps = append(ps, fmt.Sprintf("(%d%%N, %s)", idx(e.A), zlit(e.V)))
		}
		ops = append(ops, fmt.Sprintf("OReward %d%%N [%s]", rewardH, strings.Join(ps, "; ")))
	}
	ops = append(ops, fmt.Sprintf("OCheckAndMove %d%%N", hd))
	var sc []string
	for _, e := range escBefore {
		sc = append(sc, fmt.Sprintf("(%d%%N, %d%%N, %s)", e.H, idx(e.A), zlit(e.V)))
	}
	zs := func(bs []*big.Int) string {
		ss := make([]string, len(bs))
		for i, b := range bs {
			ss[i] = zlit(b)
		}
		return "[" + strings.Join(ss, "; ") + "]"
	}
	term := fmt.Sprintf("(%s, [%s], [%s], Ob %s %s %s)", zs(balBefore), strings.Join(sc, "; "), strings.Join(ops, "; "), zs(balAfter),
		zlit(new(big.Int).Sub(lockedAfter, lockedBefore)), zlit(escTotal(escAfter)))
	term = strings.ReplaceAll(term, "(-", "(-") // negative literals are already parenthesised
	cs.Add("("+term+")%Z", map[string]interface{}{"kind": g.kind, "class": class, "height": hd, "tx": g.desc, "ops": ops})
}

var violated bool

func violate(res *hx.Result, key, what string, input interface{}) {
	violated = true
	res.Violate(key, what, input)
}

func srcOf(g gen) common.Address {
	if g.tx == nil {
		return common.Address{}
	}
	return common.HexToAddress(g.tx.Source)
}

func (w *world) balOf(a common.Address) *big.Int { return w.ADB.GetBalance(a) }

func runBlockCastor(w *world, h uint64, groupId []byte, txs []*types.Transaction) []*types.Receipt {
	return nx.RunBlockWith(w.World, h, w.proposerId, groupId, txs...)
}
