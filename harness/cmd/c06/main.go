// C06 harness: native-token conservation / non-negativity.
// Every generated transaction is executed as its own block by the REAL VMExecutor loop
// (core.VerifC06ExecuteBlockCtx -> executors -> EVM -> AccountDB) on an in-memory state;
// (a) the property is evaluated directly on the implementation: balances over the closed address
//
//	universe + locked stake + refund escrow before/after, allowing only self-suicide burns;
//
// (b) the same block is written as a model case: for contract txs the EVM ledger trace is recorded at
//
//	the StateDB interface (nodehx.ExtractContract) and replayed through coq/C06/Model.v.
package main

import (
	"encoding/json"
	"fmt"
	"math/big"
	"os"
	"sort"
	"strconv"
	"strings"

	"com.tuntun.rangers/node/src/common"
	"com.tuntun.rangers/node/src/middleware/types"
	"com.tuntun.rangers/node/src/service"
	"com.tuntun.rangers/node/src/storage/account"
	"com.tuntun.rangers/node/src/utility"
	"verif/harness/hx"
	nx "verif/harness/nodehx"
)

var (
	e18      = new(big.Int).Exp(big.NewInt(10), big.NewInt(18), nil)
	gwei     = big.NewInt(1000000000)
	fee      = nx.Wei("0.001")
	tenTok   = nx.Tokens(10)
	refundIn = uint64(36000)
)

// ---- world ----
type world struct {
	*nx.World
	S            []common.Address // senders
	T            []common.Address // plain targets
	C            []common.Address // contract slots (code installed per case)
	KM           common.Address   // contract that is a miner account (STAKE / UNSTAKE programs)
	MN           common.Address   // main node contract (operator-node tx)
	Auth         common.Address   // authority whose AUTH signature the attacker holds
	AuthCD       map[common.Address][]byte
	Auths        []common.Address            // authorities with harness-held keys: Auths[0] holds 10 tokens, Auths[1] 20000
	AuthCDs      []map[common.Address][]byte // per authority: invoker contract -> AUTH calldata (v, r, s, commit) signed by its key
	base         []common.Address
	minerId      [][]byte // every miner id ever applied in this world
	heights      map[uint64]bool
	h            uint64
	proposerId   []byte
	groupId      []byte
	progDesc     map[string]interface{} // programs currently installed on C0..C2
	rewardFamily int                    // which miners share a reward account (see setupMiners)
	tokenCode    bool                   // this world's bound token contract has code (minimal ERC20 over the balance slots)
	kmOp         byte                   // custom opcode KM's current code runs first (0: none)
	c0Arg        *big.Int               // amount C0's current code forwards to KM (nil: C0 does not call KM)
}

func newWorld(r *hx.Rng, withTokenCode bool) *world {
	w := &world{World: nx.NewWorld(), heights: map[uint64]bool{}, h: 20, AuthCD: map[common.Address][]byte{}, tokenCode: withTokenCode}
	if withTokenCode {
		w.ADB.SetNonce(nx.TokenContract, 1)
		w.ADB.SetCode(nx.TokenContract, tokenCode())
	}
	for i := 0; i < 5; i++ {
		w.S = append(w.S, nx.Addr(1+i))
	}
	w.T = []common.Address{nx.Addr(0x11), nx.Addr(0x12)}
	w.C = []common.Address{nx.Addr(0x21), nx.Addr(0x22), nx.Addr(0x23)}
	w.KM = nx.Addr(0x31)
	w.MN = common.MainNodeContract()
	priv := make([]byte, 32)
	priv[31] = 7
	var commit [32]byte
	for _, c := range w.C {
		cd, a := nx.AuthSig(priv, common.GetChainId(100), c, commit)
		w.AuthCD[c] = cd
		w.Auth = a
	}
	// real secp256k1 AUTH signatures of third-party authorities (distinct from every origin) over the message opAuth
	// checks (0x03 || chainId || invoker || commit), one per invoker contract
	for k, key := range []byte{7, 9} {
		pk := make([]byte, 32)
		pk[31] = key
		m := map[common.Address][]byte{}
		var au common.Address
		for _, c := range append(append([]common.Address{}, w.C...), w.KM) {
			m[c], au = nx.AuthSig(pk, common.GetChainId(100), c, commit)
		}
		w.Auths = append(w.Auths, au)
		w.AuthCDs = append(w.AuthCDs, m)
		_ = k
	}
	adb := w.ADB
	adb.SetBalance(w.Auths[0], nx.Tokens(10))
	adb.SetBalance(w.Auths[1], nx.Tokens(20000))
	adb.SetBalance(w.S[4], nx.Wei("0.05")) // can pay fee and gas, poorer than both authorities
	adb.SetBalance(w.S[0], nx.Tokens(1000000))
	adb.SetBalance(w.S[1], nx.Tokens(5000))
	adb.SetBalance(w.S[2], nx.Wei("0.0015"))
	// S[3] holds nothing
	adb.SetBalance(w.T[1], nx.Wei("3.25"))
	for _, c := range append(append([]common.Address{}, w.C...), w.KM, w.MN) {
		adb.SetNonce(c, 1)
		adb.SetCode(c, []byte{nx.STOP})
	}
	adb.SetBalance(w.C[1], nx.Wei("2"))
	adb.SetBalance(w.KM, nx.Tokens(1000))
	// KM: program chosen by calldata word 0 = amount; byte layout: ADDRESS; CALLDATALOAD(0); <op>; ...
	// main node contract: four LOG0 of 32 bytes, the last one carrying the new account address
	mn := &nx.Asm{}
	mn.PushAddr(nx.Addr(0x41)).PushU(0).Op(nx.MSTORE)
	for i := 0; i < 4; i++ {
		mn.PushU(32).PushU(0).Op(nx.LOG0)
	}
	mn.Op(nx.STOP)
	adb.SetCode(w.MN, mn.B)
	w.base = []common.Address{common.FeeAccount}
	w.base = append(w.base, w.S...)
	w.base = append(w.base, w.T...)
	w.base = append(w.base, w.C...)
	w.base = append(w.base, w.Auths[1], reserve)
	w.base = append(w.base, w.KM, w.MN, w.Auth, nx.TokenContract, common.ValidatorDBAddress, common.ProposerDBAddress, nx.Addr(0x41))
	w.Boundary()
	return w
}

func (w *world) lockedTotal() *big.Int { return w.lockedTotalOn(w.ADB) }

func (w *world) lockedTotalOn(adb *account.AccountDB) *big.Int {
	s := new(big.Int)
	seen := map[string]bool{}
	for _, id := range w.minerId {
		if seen[string(id)] {
			continue
		}
		seen[string(id)] = true
		if m := service.MinerManagerImpl.GetMiner(id, adb); m != nil {
			s.Add(s, nx.Tokens(m.Stake))
		}
	}
	return s
}

func (w *world) sortedHeights() []uint64 {
	hs := make([]uint64, 0, len(w.heights))
	for h := range w.heights {
		hs = append(hs, h)
	}
	sort.Slice(hs, func(i, j int) bool { return hs[i] < hs[j] })
	return hs
}

type escrowEntry struct {
	H uint64
	A common.Address
	V *big.Int
}

func (w *world) escrow() []escrowEntry { return w.escrowOn(w.ADB) }

func (w *world) escrowOn(adb *account.AccountDB) []escrowEntry {
	var es []escrowEntry
	for _, h := range w.sortedHeights() {
		m := nx.Escrow(adb, h)
		as := make([]common.Address, 0, len(m))
		for a := range m {
			as = append(as, a)
		}
		sort.Slice(as, func(i, j int) bool { return as[i].GetHexString() < as[j].GetHexString() })
		for _, a := range as {
			es = append(es, escrowEntry{h, a, m[a]})
		}
	}
	return es
}

func escTotal(es []escrowEntry) *big.Int {
	s := new(big.Int)
	for _, e := range es {
		s.Add(s, e.V)
	}
	return s
}

// ---- amount strings ----
var amountZoo = []string{"0", "1", "1.5", "0.000000000000000001", "0.0000000000000000001", "0.1234567890123456789012", "-1", "-0.5",
	"1000000000000000000000000000000", "abc", "", "1e3", "1e-19", "0x10", " 2", "5000", "4999.9", "2.000000000000000000", "999999.9", ".5", "+3", "--1", "1.2.3", "NaN", "Inf"}

func pickAmount(r *hx.Rng) string {
	switch k := r.Intn(20); {
	case k < 13:
		return strconv.Itoa(r.Intn(40)) + "." + strconv.Itoa(r.Intn(1000000))
	case k < 16:
		return strconv.Itoa(r.Intn(6000)) + "." + strconv.Itoa(r.Intn(1000000))
	}
	return amountZoo[r.Intn(len(amountZoo))]
}

// transferValue of a contract tx
func pickValue(r *hx.Rng) string {
	switch k := r.Intn(20); {
	case k < 6:
		return "0"
	case k < 14:
		return strconv.Itoa(r.Intn(20)) + "." + strconv.Itoa(r.Intn(1000))
	case k < 16:
		return strconv.Itoa(r.Intn(6000)) + "." + strconv.Itoa(r.Intn(1000000))
	}
	return amountZoo[r.Intn(len(amountZoo))]
}

func parseAmt(s string) (*big.Int, bool) {
	v, err := utility.StrToBigInt(s)
	if err != nil {
		return nil, false
	}
	return v, true
}

// ---- EVM program generator ----
type prog struct {
	code []byte
	desc []string
}

func (w *world) valueExpr(r *hx.Rng, a *nx.Asm, d *[]string) {
	switch r.Intn(8) {
	case 0:
		a.PushU(0)
		*d = append(*d, "v=0")
	case 1:
		a.PushU(1)
		*d = append(*d, "v=1wei")
	case 2:
		a.Op(nx.CALLVALUE)
		*d = append(*d, "v=callvalue")
	case 3:
		a.Op(nx.SELFBALANCE)
		*d = append(*d, "v=selfbalance")
	case 4:
		a.PushU(1).Op(nx.SELFBALANCE, nx.ADD)
		*d = append(*d, "v=selfbalance+1")
	case 5:
		a.Push(nx.Wei("0.25"))
		*d = append(*d, "v=0.25")
	case 6:
		a.Op(nx.ORIGIN, nx.BALANCE)
		*d = append(*d, "v=balance(origin)")
	default:
		a.Push(new(big.Int).Lsh(big.NewInt(1), 255))
		*d = append(*d, "v=2^255")
	}
}

func precompile(n byte) common.Address {
	var a common.Address
	a[len(a)-1] = n
	return a
}

func (w *world) anyAddr(r *hx.Rng, self common.Address) common.Address {
	cands := []common.Address{w.T[0], w.T[1], w.S[0], w.S[3], w.C[0], w.C[1], w.C[2], self, common.FeeAccount, nx.Addr(0x51), w.KM,
		precompile(4), precompile(2)} // identity, sha256
	return cands[r.Intn(len(cands))]
}

var childInit = map[string][]byte{}

func init() {
	childInit["stop"] = nx.Initcode([]byte{nx.STOP})
	childInit["suicide-self"] = (&nx.Asm{}).Op(nx.ADDRESS, nx.SELFDESTRUCT).B
	childInit["revert"] = (&nx.Asm{}).PushU(0).PushU(0).Op(nx.REVERT).B
	childInit["invalid"] = []byte{nx.INVALID}
	childInit["runtime-suicide-self"] = nx.Initcode((&nx.Asm{}).Op(nx.ADDRESS, nx.SELFDESTRUCT).B)
}

// genProg builds runtime code: a sequence of value-moving actions and a terminal.
func (w *world) genProg(r *hx.Rng, self common.Address, depth int) prog {
	a := &nx.Asm{}
	var d []string
	n := r.Intn(4)
	for i := 0; i < n; i++ {
		switch k := r.Intn(17); {
		case k >= 10 && k < 12: // CREATE2 with value
			names := []string{"stop", "suicide-self", "revert", "runtime-suicide-self"}
			nm := names[r.Intn(len(names))]
			ic := childInit[nm]
			for off := 0; off < len(ic); off += 32 {
				chunk := make([]byte, 32)
				copy(chunk, ic[off:])
				a.PushBytes(chunk).PushU(uint64(off)).Op(nx.MSTORE)
			}
			salt := uint64(r.Intn(3))
			a.PushU(salt).PushU(uint64(len(ic))).PushU(0)
			w.valueExpr(r, a, &d)
			a.Op(nx.CREATE2, nx.POP)
			d = append(d, fmt.Sprintf("create2:%s/salt%d", nm, salt))
		case k == 12: // DELEGATECALL: the callee's code moves the CALLER's funds
			to := w.C[1+r.Intn(2)]
			a.PushU(0).PushU(0).PushU(0).PushU(0).PushAddr(to).PushU(0xffffff).Op(nx.DELEGATECALL, nx.POP)
			d = append(d, "delegatecall:"+short(w, to))
		case k == 13: // STATICCALL: value movements inside must fail
			to := []common.Address{w.C[1], w.C[2], w.KM}[r.Intn(3)]
			a.PushU(0).PushU(0).PushU(0).PushU(0).PushAddr(to).PushU(0xffffff).Op(nx.STATICCALL, nx.POP)
			d = append(d, "staticcall:"+short(w, to))
		case k == 14: // SSTORE set then clear: gas refund path
			a.PushU(1).PushU(uint64(r.Intn(2))).Op(nx.SSTORE).PushU(0).PushU(uint64(r.Intn(2))).Op(nx.SSTORE)
			d = append(d, "sstore-set-clear")
		case k >= 15: // a stake opcode run by this contract itself (it controls no miner unless it is KM)
			op := []byte{nx.STAKE, nx.UNSTAKE, nx.UNSTAKEALL}[r.Intn(3)]
			if op == nx.UNSTAKEALL {
				if r.Intn(3) > 0 {
					continue // without a miner UNSTAKEALL aborts the frame: keep it rare
				}
				a.Op(nx.ADDRESS, op, nx.POP)
			} else {
				a.Op(nx.ADDRESS).Push(nx.Wei([]string{"1", "0.5", "400", "0"}[r.Intn(4)])).Op(op, nx.POP)
			}
			d = append(d, fmt.Sprintf("op%#x", op))
		case k < 5: // CALL
			to := w.anyAddr(r, self)
			gas := uint64(0xffffffff)
			if r.Intn(5) == 0 {
				gas = uint64(r.Intn(3)) * 2300
			}
			a.PushU(0).PushU(0).PushU(0).PushU(0)
			w.valueExpr(r, a, &d)
			a.PushAddr(to).PushU(gas).Op(nx.CALL, nx.POP)
			d = append(d, "call:"+short(w, to))
		case k < 7: // CREATE
			names := []string{"stop", "suicide-self", "revert", "invalid", "runtime-suicide-self"}
			nm := names[r.Intn(len(names))]
			ic := childInit[nm]
			// store initcode at memory 0 via PUSH32 chunks
			for off := 0; off < len(ic); off += 32 {
				chunk := make([]byte, 32)
				copy(chunk, ic[off:])
				a.PushBytes(chunk).PushU(uint64(off)).Op(nx.MSTORE)
			}
			a.PushU(uint64(len(ic))).PushU(0)
			w.valueExpr(r, a, &d)
			a.Op(nx.CREATE, nx.POP)
			d = append(d, "create:"+nm)
		case k < 8: // CALLCODE with value (value stays with self)
			to := w.C[1+r.Intn(2)]
			a.PushU(0).PushU(0).PushU(0).PushU(0)
			w.valueExpr(r, a, &d)
			a.PushAddr(to).PushU(0xffffff).Op(nx.CALLCODE, nx.POP)
			d = append(d, "callcode:"+short(w, to))
		default: // AUTH + AUTHCALL: the call is made in the authority's name, the value is taken from the tx origin
			k := r.Intn(len(w.Auths))
			cd := w.AuthCDs[k][self]
			if cd == nil {
				continue
			}
			for off := 0; off < 128; off += 32 {
				a.PushBytes(cd[off : off+32]).PushU(uint64(off)).Op(nx.MSTORE)
			}
			a.PushU(128).PushU(0).PushAddr(w.Auths[k]).Op(nx.AUTH, nx.POP)
			to := w.anyAddr(r, self)
			a.PushU(0).PushU(0).PushU(0).PushU(0).PushU(0)
			// boundary amounts around the two balances that could be consulted: the sponsor's (origin) and the authority's
			switch r.Intn(9) {
			case 0:
				a.PushU(0)
				d = append(d, "v=0")
			case 1:
				a.PushU(1)
				d = append(d, "v=1wei")
			case 2:
				a.Op(nx.ORIGIN, nx.BALANCE)
				d = append(d, "v=balance(origin)")
			case 3:
				a.PushU(1).Op(nx.ORIGIN, nx.BALANCE, nx.ADD)
				d = append(d, "v=balance(origin)+1")
			case 4:
				a.PushAddr(w.Auths[k]).Op(nx.BALANCE)
				d = append(d, "v=balance(authority)")
			case 5:
				a.PushU(1).PushAddr(w.Auths[k]).Op(nx.BALANCE, nx.ADD)
				d = append(d, "v=balance(authority)+1")
			case 6:
				a.Push(nx.Wei("0.25"))
				d = append(d, "v=0.25")
			default:
				w.valueExpr(r, a, &d)
			}
			a.PushAddr(to).PushU(0).PushU(0).Op(nx.AUTHCALL, nx.POP)
			d = append(d, fmt.Sprintf("authcall[auth%d]:%s", k, short(w, to)))
		}
	}
	switch k := r.Intn(12); {
	case k < 5:
		a.Op(nx.STOP)
		d = append(d, "stop")
	case k < 7:
		a.PushU(0).PushU(0).Op(nx.REVERT)
		d = append(d, "revert")
	case k < 8:
		a.Op(nx.INVALID)
		d = append(d, "invalid")
	case k < 9:
		a.Op(nx.JUMPDEST).PushU(uint64(len(a.B) - 1)).Op(nx.JUMP)
		d = append(d, "loop-oog")
	default:
		to := w.anyAddr(r, self)
		if r.Intn(2) == 0 {
			to = self
		}
		a.PushAddr(to).Op(nx.SELFDESTRUCT)
		d = append(d, "selfdestruct:"+short(w, to))
	}
	return prog{a.B, d}
}

func short(w *world, a common.Address) string {
	names := map[common.Address]string{common.FeeAccount: "fee", w.KM: "KM", w.MN: "MN", w.Auth: "auth"}
	if len(w.Auths) == 2 {
		names[w.Auths[1]] = "auth1"
	}
	for i, x := range w.S {
		names[x] = fmt.Sprintf("S%d", i)
	}
	for i, x := range w.T {
		names[x] = fmt.Sprintf("T%d", i)
	}
	for i, x := range w.C {
		names[x] = fmt.Sprintf("C%d", i)
	}
	if n, ok := names[a]; ok {
		return n
	}
	return a.GetHexString()[:10]
}

// ---- one generated transaction ----
// mctx is what a model-term builder may look at: the state just before its tx inside the block (a copy of the
// committed state on which the preceding txs of the block were executed by the real loop), the recorded EVM
// ledger trace of a contract tx, its receipt from the real run and the stale gasUsed left in the executor context.
type mctx struct {
	idx     func(common.Address) int
	pre     *account.AccountDB
	pre0    *account.AccountDB // the state at the start of the block
	info    *nx.ContractInfo
	rc      *types.Receipt
	stale   *uint64
	h       uint64
	results []string // values pushed by the stake opcodes of this tx, in order (observed)
}

type gen struct {
	kind   string // transfer | call | create | lock | refund | feeonly | opnode | custom
	tx     *types.Transaction
	desc   map[string]interface{}
	model  func(m *mctx) (string, bool) // Coq tx term
	custom *customOp                    // STAKE / UNSTAKE / UNSTAKEALL run by the miner contract KM
	negVal bool
	ledger string // name of the ledger-contract-write sequence this tx belongs to
}

// cparams: the contract tx as it arrives, for the model's contract_tx (decode / precheck / intrinsic gas are the model's).
type cparams struct {
	jsonOK   bool
	gas, val string
	data     []byte
	creation bool
}

func (c cparams) coq() string {
	g := "GBad"
	if c.gas == "" || c.gas == "0" {
		g = "GDefault"
	} else if n, err := strconv.ParseUint(c.gas, 10, 64); err == nil {
		g = fmt.Sprintf("(GNum %d)", n)
	}
	v, ok := parseAmt(c.val)
	nz := 0
	for _, b := range c.data {
		if b != 0 {
			nz++
		}
	}
	return fmt.Sprintf("%s %s %s %s %d %d", hx.CoqBool(c.jsonOK), g, optZ(v, ok), hx.CoqBool(c.creation), nz, len(c.data)-nz)
}

type customOp struct {
	op     byte
	amount *big.Int
}

func contractData(gas, val string, data []byte) string {
	b, _ := json.Marshal(types.ContractData{GasLimit: gas, TransferValue: val, AbiData: common.ToHex(data)})
	return string(b)
}

func zlit(v *big.Int) string {
	if v.Sign() < 0 {
		return "(" + v.String() + ")"
	}
	return v.String()
}

func optZ(v *big.Int, ok bool) string {
	if !ok {
		return "None"
	}
	return "(Some " + zlit(v) + ")"
}

var gasZoo = []string{"", "0", "3000000", "30000000", "700000", "100000", "21000", "900000001", "99999999999", "abc", "-1", "5000000"}

// generate one tx. installed: the block already holds a tx that installed contract code (the programs are shared).
func (w *world) generate(r *hx.Rng, installed *bool) gen {
	src := w.S[[]int{0, 0, 0, 0, 0, 0, 0, 1, 1, 1, 1, 1, 2, 3, 4, 4, 4}[r.Intn(17)]]
	srcHex := nx.AddrHex(src)
	k := r.Intn(100)
	switch {
	case k < 24: // transfer
		n := 1
		if r.Intn(3) == 0 {
			n = 2 + r.Intn(2)
		}
		targets := map[string]types.TransferData{}
		type ta struct {
			a   common.Address
			amt string
		}
		var tl []ta
		cands := []common.Address{w.T[0], w.T[1], w.S[3], w.C[0], common.FeeAccount, w.S[1], src}
		if n == 1 && r.Intn(8) == 0 {
			cands = []common.Address{src}
		}
		for i := 0; i < n; i++ {
			t := cands[r.Intn(len(cands))]
			if _, dup := targets[nx.AddrHex(t)]; dup {
				continue
			}
			amt := pickAmount(r)
			if r.Intn(8) == 0 {
				amt = utility.BigIntToStr(w.ADB.GetBalance(src)) // everything (the fee is taken first, so this fails)
			}
			if r.Intn(10) == 0 { // everything but the fee: succeeds alone, fails in the middle of a multi-target transfer
				amt = utility.BigIntToStr(new(big.Int).Sub(w.ADB.GetBalance(src), fee))
			}
			targets[nx.AddrHex(t)] = types.TransferData{Balance: amt}
			tl = append(tl, ta{t, amt})
		}
		// ChangeAssets visits the targets in sorted key order (fix c254982 of property C01): so does the model
		sort.Slice(tl, func(i, j int) bool { return nx.AddrHex(tl[i].a) < nx.AddrHex(tl[j].a) })
		extra, _ := json.Marshal(targets)
		if r.Intn(25) == 0 {
			extra = []byte("{not json")
			tl = nil
		}
		tx := nx.NewTx(types.TransactionTypeOperatorEvent, srcHex, "", "", string(extra))
		bad := string(extra) == "{not json"
		return gen{kind: "transfer", tx: tx, desc: map[string]interface{}{"src": short(w, src), "extra": string(extra)},
			model: func(m *mctx) (string, bool) {
				var ps []string
				if bad {
					ps = append(ps, fmt.Sprintf("(%d%%N, None)", m.idx(src)))
				}
				for _, t := range tl {
					v, ok := parseAmt(t.amt)
					ps = append(ps, fmt.Sprintf("(%d%%N, %s)", m.idx(t.a), optZ(v, ok)))
				}
				return fmt.Sprintf("TTransfer %d%%N [%s]", m.idx(src), strings.Join(ps, "; ")), true
			}}
	case k < 58: // contract call
		self := w.C[0]
		var desc map[string]interface{}
		if !*installed {
			*installed = true
			p := w.genProg(r, self, 0)
			if r.Intn(10) == 0 { // the frame moves the origin's whole balance away (AUTHCALL takes its value from the origin)
				a := &nx.Asm{}
				cd := w.AuthCD[self]
				for off := 0; off < 128; off += 32 {
					a.PushBytes(cd[off : off+32]).PushU(uint64(off)).Op(nx.MSTORE)
				}
				a.PushU(128).PushU(0).PushAddr(w.Auth).Op(nx.AUTH, nx.POP)
				a.PushU(0).PushU(0).PushU(0).PushU(0).PushU(0).Op(nx.ORIGIN, nx.BALANCE).PushAddr(w.T[0]).PushU(0).PushU(0).Op(nx.AUTHCALL, nx.POP, nx.STOP)
				p = prog{a.B, []string{"auth", "v=balance(origin)", "authcall:T0", "stop"}}
			}
			c1 := w.genProg(r, w.C[1], 1)
			c2 := w.genProg(r, w.C[2], 1)
			w.c0Arg = nil
			w.ADB.SetCode(self, p.code)
			w.ADB.SetCode(w.C[1], c1.code)
			w.ADB.SetCode(w.C[2], c2.code)
			w.progDesc = map[string]interface{}{"C0": p.desc, "C1": c1.desc, "C2": c2.desc, "code": common.ToHex(p.code)}
		}
		desc = map[string]interface{}{}
		for k, v := range w.progDesc {
			desc[k] = v
		}
		val := pickValue(r)
		gas := []string{"3000000", "5000000", "30000000", ""}[r.Intn(4)]
		if r.Intn(6) == 0 {
			gas = gasZoo[r.Intn(len(gasZoo))]
		}
		tgt := self
		switch r.Intn(14) {
		case 0:
			tgt = w.T[0]
		case 1:
			tgt = w.C[1]
		}
		tx := nx.NewTx(types.TransactionTypeContract, srcHex, nx.AddrHex(tgt), contractData(gas, val, nil), "")
		cp := cparams{true, gas, val, nil, false}
		if r.Intn(40) == 0 {
			tx = nx.NewTx(types.TransactionTypeContract, srcHex, nx.AddrHex(tgt), "{bad", "")
			cp.jsonOK = false
		}
		v, vok := parseAmt(val)
		desc["src"], desc["to"], desc["gas"], desc["value"] = short(w, src), short(w, tgt), gas, val
		return gen{kind: "call", tx: tx, negVal: vok && v.Sign() < 0, desc: desc, model: w.contractModel(src, cp)}
	case k < 66: // contract creation
		names := []string{"stop", "suicide-self", "revert", "invalid", "runtime-suicide-self"}
		nm := names[r.Intn(len(names))]
		val := pickValue(r)
		gas := "3000000"
		if r.Intn(4) == 0 {
			gas = gasZoo[r.Intn(len(gasZoo))]
		}
		tx := nx.NewTx(types.TransactionTypeContract, srcHex, "", contractData(gas, val, childInit[nm]), "")
		v, vok := parseAmt(val)
		return gen{kind: "create", tx: tx, negVal: vok && v.Sign() < 0,
			desc: map[string]interface{}{"src": short(w, src), "init": nm, "gas": gas, "value": val}, model: w.contractModel(src, cparams{true, gas, val, childInit[nm], true})}
	case k < 77: // miner apply / add
		return w.genLock(r, src)
	case k < 85: // miner refund
		return w.genRefund(r, src)
	case k < 88: // change account of an unknown miner: fee only
		m := types.Miner{Id: []byte{0xde, 0xad}, Account: w.T[0].Bytes()}
		md, _ := json.Marshal(m)
		tx := nx.NewTx(types.TransactionTypeMinerChangeAccount, srcHex, "", string(md), "")
		return gen{kind: "feeonly", tx: tx, desc: map[string]interface{}{"src": short(w, src), "what": "change-account of unknown miner"},
			model: func(m *mctx) (string, bool) {
				return fmt.Sprintf("TFeeOnly %d%%N", m.idx(src)), true
			}}
	case k < 91: // operator node
		tx := nx.NewTx(types.TransactionTypeOperatorNode, srcHex, "", "", "")
		return gen{kind: "opnode", tx: tx, desc: map[string]interface{}{"src": short(w, src)},
			model: func(m *mctx) (string, bool) {
				// the registry-side outcome (miner found by account, create2 call) is taken from the receipt
				return fmt.Sprintf("TOperatorNode %d%%N %s", m.idx(src), hx.CoqBool(m.rc != nil && m.rc.Status == 1)), true
			}}
	default: // custom opcodes on the miner contract
		if *installed {
			return w.generate(r, installed)
		}
		*installed = true
		return w.genCustom(r, src)
	}
}

// txArg: calldata word 0 of the tx (what KM's CALLDATALOAD(0) sees when the tx calls KM directly).
func (w *world) contractModel(src common.Address, cp cparams) func(m *mctx) (string, bool) {
	return func(m *mctx) (string, bool) {
		info := m.info
		if info == nil || (info.Ran && !info.Parsed) {
			return "", false
		}
		// the opcode-level event list as recorded while the real EVM ran this tx (nothing is predicted here)
		var evs []string
		for _, e := range info.Trace {
			switch e.Kind {
			case "V":
				evs = append(evs, fmt.Sprintf("V %d%%N %d%%N %s", m.idx(e.A), m.idx(e.B), zlit(e.V)))
			case "A":
				if e.A != src {
					return "", false // AUTHCALL's sponsor is the tx origin
				}
				evs = append(evs, fmt.Sprintf("A %d%%N %d%%N %d%%N %s", m.idx(e.A), m.idx(e.Auth), m.idx(e.B), zlit(e.V)))
				if e.V.Sign() != 0 {
					m.results = append(m.results, zlit(e.Res)) // did the value move
				}
			case "TV": // the bound token contract's code moved value by writing two balance slots
				evs = append(evs, fmt.Sprintf("V %d%%N %d%%N %s", m.idx(e.A), m.idx(e.B), zlit(e.V)))
			case "TB": // ... destroyed value: accounted as a movement to the reserve pseudo account
				evs = append(evs, fmt.Sprintf("V %d%%N %d%%N %s", m.idx(e.A), m.idx(reserve), zlit(e.V)))
			case "TM": // ... created value: a movement from the reserve
				evs = append(evs, fmt.Sprintf("V %d%%N %d%%N %s", m.idx(reserve), m.idx(e.B), zlit(e.V)))
			case "K":
				evs = append(evs, fmt.Sprintf("K %d%%N %d%%N", m.idx(e.A), m.idx(e.B)))
			case "S":
				evs = append(evs, fmt.Sprintf("S %d%%N", e.Id))
			case "R":
				evs = append(evs, fmt.Sprintf("R %d%%N", e.Id))
			case "St":
				evs = append(evs, fmt.Sprintf("St %d%%N %s %s", m.idx(e.A), zlit(e.V), hx.CoqBool(e.HasMiner)))
				m.results = append(m.results, zlit(e.Res))
			case "Us":
				evs = append(evs, fmt.Sprintf("Us %d%%N %d%%N %s %d %s %d%%N", m.idx(src), m.idx(e.A), zlit(e.V), e.Stake, hx.CoqBool(e.HasMiner), m.h))
				m.results = append(m.results, zlit(e.Res))
			case "Ua":
				evs = append(evs, fmt.Sprintf("Ua %d%%N %d%%N %d %s %d%%N", m.idx(src), m.idx(e.A), e.Stake, hx.CoqBool(e.HasMiner), m.h))
				m.results = append(m.results, zlit(e.Res))
			}
		}
		evmOK := m.rc != nil && m.rc.Status == 1
		gasUsed := uint64(0)
		if m.rc != nil && info.Ran {
			gasUsed = m.rc.GasUsed
		}
		stale := "None"
		if m.stale != nil {
			stale = "(Some " + new(big.Int).Mul(new(big.Int).SetUint64(*m.stale), gwei).String() + ")"
		}
		return fmt.Sprintf("HC %d%%N %s [%s] %s %d %s", m.idx(src), cp.coq(), strings.Join(evs, "; "), hx.CoqBool(evmOK), gasUsed, stale), true
	}
}

var nextMiner = 1
var nextAcct = 0x60

func (w *world) genLock(r *hx.Rng, src common.Address) gen {
	srcHex := nx.AddrHex(src)
	if len(w.minerId) > 0 && r.Intn(5) < 2 { // add stake
		id := w.minerId[r.Intn(len(w.minerId))]
		if r.Intn(8) == 0 {
			id = []byte{0xde, 0xad}
		}
		delta := []uint64{0, 1, 100, 400, 5000, 999999}[r.Intn(6)]
		md, _ := json.Marshal(types.Miner{Id: id, Stake: delta})
		tx := nx.NewTx(types.TransactionTypeMinerAdd, srcHex, "", string(md), "")
		return gen{kind: "lock", tx: tx, desc: map[string]interface{}{"src": short(w, src), "add": delta, "id": common.ToHex(id)},
			model: func(m *mctx) (string, bool) {
				// AddStake: delta 0 succeeds without touching anything; balance check (the model's); then the miner must exist
				regOK := delta == 0 || service.MinerManagerImpl.GetMiner(id, m.pre) != nil
				return fmt.Sprintf("TLock %d%%N %s %s", m.idx(src), utility.Float64ToBigInt(float64(delta)).String(), hx.CoqBool(regOK)), true
			}}
	}
	typ := byte(r.Intn(2))
	if r.Intn(12) == 0 {
		typ = 2
	}
	stake := []uint64{400, 400, 800, 401, 399, 0, 2500}[r.Intn(7)]
	if typ == common.MinerTypeProposer {
		stake = []uint64{2000, 2000, 2500, 6000, 1999, 800, 2001}[r.Intn(7)]
	}
	id := []byte{0x70, byte(nextMiner >> 8), byte(nextMiner)}
	nextMiner++
	if len(w.minerId) > 0 && r.Intn(8) == 0 {
		id = w.minerId[r.Intn(len(w.minerId))]
	}
	acct := src.Bytes()
	switch r.Intn(8) {
	case 0, 1, 2:
		nextAcct++
		acct = nx.Addr(nextAcct).Bytes()
		w.base = append(w.base, nx.Addr(nextAcct))
	case 3:
		acct = w.T[r.Intn(2)].Bytes()
	}
	pk := []byte{1, 2}
	if r.Intn(14) == 0 {
		pk = nil
	}
	return w.mkApply(src, types.Miner{Id: id, PublicKey: pk, VrfPublicKey: []byte{3}, Type: typ, Stake: stake, Account: acct})
}

func (w *world) mkApply(src common.Address, mi types.Miner) gen {
	id, pk, typ, stake, acct := mi.Id, mi.PublicKey, mi.Type, mi.Stake, mi.Account
	md, _ := json.Marshal(mi)
	tx := nx.NewTx(types.TransactionTypeMinerApply, nx.AddrHex(src), "", string(md), "")
	min := common.ValidatorStake
	if typ == common.MinerTypeProposer {
		min = common.ProposerStake
	}
	w.minerId = append(w.minerId, id)
	return gen{kind: "lock", tx: tx, desc: map[string]interface{}{"src": short(w, src), "apply": stake, "type": typ, "id": common.ToHex(id), "account": common.ToHex(acct)},
		model: func(m *mctx) (string, bool) {
			// AddMiner's registry-side checks, read from the registry just before the tx with the node's own lookups
			// (id through GetMiner, account through the iterator-based GetMinerIdByAccount: property C20)
			regOK := typ <= 1 && stake >= min && len(pk) > 0 && service.MinerManagerImpl.GetMiner(id, m.pre) == nil && !w.accountHeld(acct, m)
			return fmt.Sprintf("TLock %d%%N %s %s", m.idx(src), utility.Float64ToBigInt(float64(stake)).String(), hx.CoqBool(regOK)), true
		}}
}

// accountHeld answers AddMiner's "an account controls at most one miner" check the way the code does inside a block:
// GetMinerIdByAccount walks the registry entries COMMITTED at the start of the block and reads their account / status
// through GetData, which sees the writes of the block's earlier transactions (property C20: a miner applied earlier in
// the same block is not seen). An aborted miner still holds its account (Current() returns it together with an error
// that GetMinerIdByAccount ignores).
func (w *world) accountHeld(acct []byte, m *mctx) bool {
	seen := map[string]bool{}
	for _, id := range w.minerId {
		if seen[string(id)] {
			continue
		}
		seen[string(id)] = true
		if service.MinerManagerImpl.GetMiner(id, m.pre0) == nil {
			continue
		}
		if mi := service.MinerManagerImpl.GetMiner(id, m.pre); mi != nil && string(mi.Account) == string(acct) {
			return true
		}
	}
	return false
}

func (w *world) genRefund(r *hx.Rng, src common.Address) gen {
	id := []byte{0xde, 0xad}
	if len(w.minerId) > 0 {
		id = w.minerId[r.Intn(len(w.minerId))]
		// prefer a miner controlled by one of the senders, and let that sender ask
		var own [][2]int
		for ci, c := range w.minerId {
			if m := service.MinerManagerImpl.GetMiner(c, w.ADB); m != nil {
				for si, s := range w.S {
					if string(m.Account) == string(s.Bytes()) {
						own = append(own, [2]int{ci, si})
					}
				}
			}
		}
		if len(own) > 0 && r.Intn(8) > 0 {
			o := own[r.Intn(len(own))]
			id = w.minerId[o[0]]
			if r.Intn(10) > 0 {
				src = w.S[o[1]]
			}
		}
	}
	amts := []string{"0", "1", "100", "100", "400", "400", "50", "399", "1600", "2000", "18446744073709551615", "18446744073709551615", "99999", "abc", "-1", "1.5"}
	return w.mkRefund(id, src, amts[r.Intn(len(amts))])
}

// owned: (index into minerId, index into S) of the miners whose account is one of the senders.
func (w *world) owned() [][2]int {
	var own [][2]int
	for ci, c := range w.minerId {
		if m := service.MinerManagerImpl.GetMiner(c, w.ADB); m != nil {
			for si, s := range w.S {
				if string(m.Account) == string(s.Bytes()) {
					own = append(own, [2]int{ci, si})
				}
			}
		}
	}
	return own
}

func (w *world) mkRefund(id []byte, src common.Address, amt string) gen {
	srcHex := nx.AddrHex(src)
	data, _ := json.Marshal(map[string]string{"Amount": amt, "MinerId": common.ToHex(id)})
	tx := nx.NewTx(types.TransactionTypeMinerRefund, srcHex, "", string(data), "")
	return gen{kind: "refund", tx: tx, desc: map[string]interface{}{"src": short(w, src), "amount": amt, "id": common.ToHex(id)},
		model: func(m *mctx) (string, bool) {
			mi := service.MinerManagerImpl.GetMiner(id, m.pre)
			val, perr := strconv.ParseUint(amt, 10, 64)
			regOK := perr == nil && mi != nil && string(mi.Account) == string(src.Bytes())
			released := uint64(0)
			if regOK {
				released = val
				if val == ^uint64(0) {
					released = mi.Stake
				}
				if released > mi.Stake {
					regOK, released = false, 0
				}
			}
			return fmt.Sprintf("TRefundReq %d%%N %s %d%%N %d%%N %s", m.idx(src), nx.Tokens(released).String(), m.h+refundIn, m.idx(src), hx.CoqBool(regOK)), true
		}}
}

// ---- the ledger moved by the bound token contract's own code ----
func (w *world) tokenTx(r *hx.Rng, src common.Address, op uint64, a, b common.Address, amt *big.Int, seq string) gen {
	data := tokenCall(op, a, b, amt)
	gas := "3000000"
	tx := nx.NewTx(types.TransactionTypeContract, nx.AddrHex(src), nx.AddrHex(nx.TokenContract), contractData(gas, "0", data), "")
	return gen{kind: "token", tx: tx, ledger: seq,
		desc:  map[string]interface{}{"src": short(w, src), "token-op": []string{"", "transfer", "transferFrom", "burn", "mint"}[op], "A": short(w, a), "B": short(w, b), "amount": amt.String()},
		model: w.contractModel(src, cparams{true, gas, "0", data, false})}
}

func (w *world) genLedgerSeq(r *hx.Rng, installed *bool) []gen {
	tag := func(gs []gen, seq string) []gen {
		for i := range gs {
			gs[i].ledger = seq
			gs[i].desc["sequence"] = seq
		}
		return gs
	}
	switch r.Intn(4) {
	case 0:
		// X's balance is read by a fee check that refuses (precheck: gas*price + value > balance, no revert follows);
		// a third party moves most of X's funds through the token contract; X spends natively
		seq := "precheck-read;third-party-transferFrom;native-transfer"
		x := w.S[1]
		bal := w.ADB.GetBalance(x)
		g1 := gen{kind: "call", tx: nx.NewTx(types.TransactionTypeContract, nx.AddrHex(x), nx.AddrHex(w.T[0]), contractData("3000000", "999999", nil), ""),
			desc: map[string]interface{}{"src": short(w, x), "to": "T0", "gas": "3000000", "value": "999999"}, model: w.contractModel(x, cparams{true, "3000000", "999999", nil, false})}
		move := new(big.Int).Sub(bal, nx.Wei("1"))
		if move.Sign() < 0 {
			move = new(big.Int)
		}
		g2 := w.tokenTx(r, w.S[0], 2, x, w.T[0], move, seq)
		amt := []string{"100", "0.9", "2"}[r.Intn(3)]
		targets := map[string]types.TransferData{nx.AddrHex(w.T[1]): {Balance: amt}}
		extra, _ := json.Marshal(targets)
		g3 := gen{kind: "transfer", tx: nx.NewTx(types.TransactionTypeOperatorEvent, nx.AddrHex(x), "", "", string(extra)),
			desc: map[string]interface{}{"src": short(w, x), "extra": string(extra)},
			model: func(m *mctx) (string, bool) {
				v, ok := parseAmt(amt)
				return fmt.Sprintf("TTransfer %d%%N [(%d%%N, %s)]", m.idx(x), m.idx(w.T[1]), optZ(v, ok)), true
			}}
		gs := []gen{g1, g2, g3}
		if r.Intn(2) == 0 { // or X spends through a contract call carrying value
			gs[2] = gen{kind: "call", tx: nx.NewTx(types.TransactionTypeContract, nx.AddrHex(x), nx.AddrHex(w.T[1]), contractData("3000000", amt, nil), ""),
				desc: map[string]interface{}{"src": short(w, x), "to": "T1", "gas": "3000000", "value": amt}, model: w.contractModel(x, cparams{true, "3000000", amt, nil, false})}
			seq = "precheck-read;third-party-transferFrom;native-call-value"
		}
		return tag(gs, seq)
	case 1:
		// inside one tx: C0 reads BALANCE(ORIGIN), makes the token contract move the origin's funds away (the call is C0's,
		// not the origin's), optionally AUTHCALLs a value in the origin's name; then the executor charges the origin's gas
		seq := "origin-balance-read;code-moves-origin;gas-charge"
		*installed = true
		src := w.S[1+3*r.Intn(2)] // S1 or S4
		a := &nx.Asm{}
		a.Op(nx.ORIGIN, nx.BALANCE, nx.POP)
		a.PushU(2).PushU(0).Op(nx.MSTORE).Op(nx.ORIGIN).PushU(32).Op(nx.MSTORE).PushAddr(w.T[0]).PushU(64).Op(nx.MSTORE)
		part := r.Intn(3)
		switch part {
		case 0:
			a.Op(nx.ORIGIN, nx.BALANCE)
		case 1:
			a.PushU(1).Op(nx.ORIGIN, nx.BALANCE, nx.SUB) // balance - 1
		default:
			a.Push(nx.Wei("0.01"))
		}
		a.PushU(96).Op(nx.MSTORE)
		a.PushU(0).PushU(0).PushU(128).PushU(0).PushU(0).PushAddr(nx.TokenContract).PushU(0xffffff).Op(nx.CALL, nx.POP)
		d := []string{"balance(origin)", fmt.Sprintf("token.transferFrom(origin,T0,part%d)", part)}
		if r.Intn(2) == 0 {
			seq = "origin-balance-read;code-moves-origin;authcall-value"
			k := r.Intn(len(w.Auths))
			cd := w.AuthCDs[k][w.C[0]]
			for off := 0; off < 128; off += 32 {
				a.PushBytes(cd[off : off+32]).PushU(uint64(off)).Op(nx.MSTORE)
			}
			a.PushU(128).PushU(0).PushAddr(w.Auths[k]).Op(nx.AUTH, nx.POP)
			a.PushU(0).PushU(0).PushU(0).PushU(0).PushU(0).Push(nx.Wei("0.25")).PushAddr(w.T[1]).PushU(0).PushU(0).Op(nx.AUTHCALL, nx.POP)
			d = append(d, "authcall:T1 0.25")
		}
		if r.Intn(4) == 0 {
			a.PushU(0).PushU(0).Op(nx.REVERT)
			d = append(d, "revert")
		} else {
			a.Op(nx.STOP)
			d = append(d, "stop")
		}
		w.c0Arg = nil
		w.ADB.SetCode(w.C[0], a.B)
		w.progDesc = map[string]interface{}{"C0": d, "C1": w.progDesc["C1"], "C2": w.progDesc["C2"]}
		tx := nx.NewTx(types.TransactionTypeContract, nx.AddrHex(src), nx.AddrHex(w.C[0]), contractData("3000000", "0", nil), "")
		g := gen{kind: "call", tx: tx, desc: map[string]interface{}{"src": short(w, src), "to": "C0", "gas": "3000000", "value": "0", "C0": d},
			model: w.contractModel(src, cparams{true, "3000000", "0", nil, false})}
		return tag([]gen{g}, seq)
	default:
		// plain use of the token contract: transfers by the owner, by a third party, burns and mints (accounted through
		// the reserve), amounts around the balance
		seq := "token-ops"
		var gs []gen
		for i := 0; i < 1+r.Intn(3); i++ {
			src := w.S[[]int{0, 1, 1, 4}[r.Intn(4)]]
			people := []common.Address{w.S[1], w.S[4], w.T[0], w.T[1], w.C[0], src, w.S[3]}
			a, b := people[r.Intn(len(people))], people[r.Intn(len(people))]
			op := uint64(1 + r.Intn(4))
			from := a
			if op == 1 {
				from = src
			}
			bal := w.ADB.GetBalance(from)
			amt := []*big.Int{new(big.Int), big.NewInt(1), nx.Wei("0.5"), bal, new(big.Int).Add(bal, big.NewInt(1)), nx.Wei("3")}[r.Intn(6)]
			gs = append(gs, w.tokenTx(r, src, op, a, b, amt, seq))
		}
		return tag(gs, seq)
	}
}

// custom opcodes: the miner contract KM runs STAKE / UNSTAKE / UNSTAKEALL with an amount from calldata and then stops
// or reverts; it is called directly by the tx or through C0 (so that a reverting KM frame inside a succeeding tx
// must take its stake / escrow effect back).
func (w *world) genCustom(r *hx.Rng, src common.Address) gen {
	op := []byte{nx.STAKE, nx.STAKE, nx.UNSTAKE, nx.UNSTAKE, nx.UNSTAKE, nx.UNSTAKEALL}[r.Intn(6)]
	a := &nx.Asm{}
	if op == nx.UNSTAKEALL {
		a.Op(nx.ADDRESS, op, nx.POP)
	} else {
		a.Op(nx.ADDRESS).PushU(0).Op(nx.CALLDATALOAD, op, nx.POP)
	}
	term := "stop"
	if r.Intn(3) == 0 {
		term = "revert"
		a.PushU(0).PushU(0).Op(nx.REVERT)
	} else {
		a.Op(nx.STOP)
	}
	host := w.KM
	if r.Intn(5) == 0 {
		host = w.C[2] // controls no miner: STAKE / UNSTAKE push 0, UNSTAKEALL aborts the frame
	}
	w.ADB.SetCode(host, a.B)
	w.kmOp = op
	amts := []string{"0.5", "1", "100", "0.000000000000000001", "399.5", "1.5", "400", "401", "50", "2.25", "0", "115792089237316195423570985008687907853269984665640564039457", "20000000000"}
	amt := nx.Wei(amts[r.Intn(len(amts))])
	name := map[byte]string{nx.STAKE: "stake", nx.UNSTAKE: "unstake", nx.UNSTAKEALL: "unstakeall"}[op]
	arg := utility.LeftPadBytes(amt.Bytes(), 32)
	cust := &customOp{op, amt}
	via := "direct"
	tgt := host
	if r.Intn(3) == 0 { // through C0: MSTORE the amount, CALL KM with it, then move a little value and stop
		via = "via-C0"
		tgt = w.C[0]
		c := &nx.Asm{}
		c.PushBytes(arg).PushU(0).Op(nx.MSTORE)
		c.PushU(0).PushU(0).PushU(32).PushU(0).PushU(0).PushAddr(host).PushU(0xffffffff).Op(nx.CALL, nx.POP)
		c.PushU(0).PushU(0).PushU(0).PushU(0).PushU(1).PushAddr(w.T[0]).PushU(0xffff).Op(nx.CALL, nx.POP, nx.STOP)
		w.ADB.SetCode(w.C[0], c.B)
		w.c0Arg = amt
		w.progDesc = map[string]interface{}{"C0": []string{"call KM(" + name + ")", "call:T0 1wei", "stop"}, "C1": []string{}, "C2": []string{}}
	}
	val := "0"
	if r.Intn(4) == 0 {
		val = "1.5"
	}
	tx := nx.NewTx(types.TransactionTypeContract, nx.AddrHex(src), nx.AddrHex(tgt), contractData("3000000", val, arg), "")
	return gen{kind: "custom", tx: tx, custom: cust,
		desc:  map[string]interface{}{"src": short(w, src), "op": name, "amount": amt.String(), "km": term, "via": via, "value": val, "host": short(w, host)},
		model: w.contractModel(src, cparams{true, "3000000", val, arg, false})}
}

// burnOf replays the primitive-level trace to find what self-suicides destroyed (net of reverts).
func burnOf(tr []nx.Ev) *big.Int {
	b, _ := ledgerNet(tr)
	return b
}

// ledgerNet: what survived the reverts of a trace: tokens destroyed by self-suicides, and the net amount the bound
// token contract's own code created (mint - burn through SSTORE into balance slots).
func ledgerNet(tr []nx.Ev) (*big.Int, *big.Int) {
	type fr struct {
		id         int
		burn, code *big.Int
	}
	cur, code := new(big.Int), new(big.Int)
	var st []fr
	for _, e := range tr {
		switch e.Kind {
		case "K":
			if e.A == e.B {
				cur = new(big.Int).Add(cur, e.V)
			}
		case "TM":
			code = new(big.Int).Add(code, e.V)
		case "TB":
			code = new(big.Int).Sub(code, e.V)
		case "S":
			st = append(st, fr{e.Id, new(big.Int).Set(cur), new(big.Int).Set(code)})
		case "R":
			for i := len(st) - 1; i >= 0; i-- {
				if st[i].id == e.Id {
					cur, code = st[i].burn, st[i].code
					st = st[:i]
					break
				}
			}
		}
	}
	return cur, code
}

// ---- the bound token contract WITH code: a minimal ERC20 over the storage layout of the native binding ----
// calldata: word0 = op (1 transfer: from = CALLER; 2 transferFrom: from = word1; 3 burn: from = word1; 4 mint), word1 = A,
// word2 = B (recipient), word3 = amount; balance slot = keccak(addr . 3). Debit requires balance >= amount (else REVERT).
var reserve = nx.Addr(0x7777) // pseudo account standing for "created / destroyed by the token contract's code"
var reserve0 = new(big.Int).Lsh(big.NewInt(1), 200)

func tokenCode() []byte {
	var b []byte
	labels := map[string]int{}
	fix := map[int]string{}
	op := func(x ...byte) { b = append(b, x...) }
	jmp := func(l string) { op(0x61, 0, 0); fix[len(b)-2] = l } // PUSH2 label
	lab := func(l string) { labels[l] = len(b); op(0x5b) }
	keyOf := func() { op(0x60, 0, 0x52, 0x60, 3, 0x60, 0x20, 0x52, 0x60, 0x40, 0x60, 0, 0x20) } // MSTORE(0, top); MSTORE(32, 3); KECCAK256(0, 64)
	op(0x60, 0x60, 0x35)                                                                        // amt
	op(0x60, 0, 0x35)                                                                           // amt op
	op(0x80, 0x60, 1, 0x14)                                                                     // amt op isT
	op(0x60, 0x20, 0x35, 0x33, 0x03, 0x02)                                                      // amt op isT*(CALLER-A)
	op(0x60, 0x20, 0x35, 0x01)                                                                  // amt op from
	op(0x90)                                                                                    // amt from op
	op(0x80, 0x60, 4, 0x14)
	jmp("credit")
	op(0x57)
	op(0x81)
	keyOf()        // amt from op key
	op(0x80, 0x54) // amt from op key bal
	op(0x84, 0x81, 0x10)
	jmp("fail")
	op(0x57)             // bal < amt -> fail
	op(0x84, 0x90, 0x03) // amt from op key bal-amt
	op(0x90, 0x55)       // SSTORE(key, bal-amt)
	lab("credit")        // amt from op
	op(0x60, 3, 0x14)
	jmp("end")
	op(0x57) // amt from
	op(0x60, 0x40, 0x35)
	keyOf()                    // amt from key
	op(0x80, 0x54, 0x83, 0x01) // amt from key bal+amt
	op(0x90, 0x55)
	lab("end")
	op(0x00)
	lab("fail")
	op(0x60, 0, 0x60, 0, 0xfd)
	for at, l := range fix {
		b[at], b[at+1] = byte(labels[l]>>8), byte(labels[l])
	}
	return b
}

func tokenCall(op uint64, a, bb common.Address, amt *big.Int) []byte {
	d := make([]byte, 128)
	d[31] = byte(op)
	copy(d[32+12:], a.Bytes())
	copy(d[64+12:], bb.Bytes())
	copy(d[96:], utility.LeftPadBytes(amt.Bytes(), 32))
	return d
}

func main() {
	a := hx.ParseArgs()
	rng := hx.NewRng(a.Seed)
	res := hx.NewResult("one evaluation = one transaction executed inside a block by the real VMExecutor loop (or one empty block); non-trivial when the transaction passed the fee step and either moved value (balances, stake or escrow changed beyond the fee) or was rejected after BeforeExecute; distinct = distinct (kind, outcome class, program/amount description)")
	cs := hx.NewCases(a.Out, "From V.C06 Require Import Model Harness.", "list Z * list (N * addr * Z) * list hop * obs * option rinfo", "check", 300)
	nx.Boot(20)

	var w *world
	blocksPerWorld := 100
	for i := 0; i < a.N; i++ {
		if w == nil || i%blocksPerWorld == 0 {
			nWorlds++
			w = newWorld(rng, nWorlds%2 == 0)
			w.setupMiners()
		}
		violated = false
		w.step(rng, res, cs)
		if violated {
			w = nil // a violated ledger (e.g. minted supply) must not leak into later cases: start a fresh world
		}
	}
	cs.Close()
	res.ModelCases = cs.Total()
	res.Write(a.Out)
	fmt.Printf("c06: %d evaluations, %d model cases, histogram %v\n", res.Evaluations, cs.Total(), res.Histogram)
}

// setupMiners: KM (a contract) becomes the account of a validator so that STAKE/UNSTAKE programs find a miner;
// T1 becomes the account of a proposer used as block castor (reward path).
func (w *world) setupMiners() {
	id := []byte{0x6b, 0x6d}
	m := types.Miner{Id: id, PublicKey: []byte{1}, VrfPublicKey: []byte{2}, Type: common.MinerTypeValidator, Stake: 800, Account: w.KM.Bytes()}
	md, _ := json.Marshal(m)
	w.h++
	rs := nx.RunBlock(w.World, w.h, nil, nx.NewTx(types.TransactionTypeMinerApply, nx.AddrHex(w.S[0]), "", string(md), ""))
	if len(rs) != 1 || rs[0].Status != 1 {
		panic("setup: miner apply for KM failed: " + rs[0].Msg)
	}
	w.minerId = append(w.minerId, id)
	pid := []byte{0x70, 0x70}
	pm := types.Miner{Id: pid, PublicKey: []byte{1}, VrfPublicKey: []byte{2}, Type: common.MinerTypeProposer, Stake: 2000, Account: w.T[1].Bytes()}
	pd, _ := json.Marshal(pm)
	// reward families: several miners paid to ONE account, with unequal stakes. An account may control one miner only, but
	// the registry's account check walks committed entries (property C20), so applications inside one block all pass:
	//   0: one validator, one proposer, distinct accounts      1: two validators of the group share account A
	//   2: a validator shares the block proposer's account      3: two validators and the block proposer share one account
	w.rewardFamily = nWorlds % 4
	acctA := nx.Addr(0x5a)
	w.base = append(w.base, acctA)
	txs := []*types.Transaction{nx.NewTx(types.TransactionTypeMinerApply, nx.AddrHex(w.S[0]), "", string(pd), "")}
	v2, v3 := []byte{0x76, 0x32}, []byte{0x76, 0x33}
	mk := func(vid []byte, stake uint64, acct common.Address) {
		vm := types.Miner{Id: vid, PublicKey: []byte{1}, VrfPublicKey: []byte{2}, Type: common.MinerTypeValidator, Stake: stake, Account: acct.Bytes()}
		vd, _ := json.Marshal(vm)
		txs = append(txs, nx.NewTx(types.TransactionTypeMinerApply, nx.AddrHex(w.S[0]), "", string(vd), ""))
		w.minerId = append(w.minerId, vid)
	}
	members := [][]byte{id}
	switch w.rewardFamily {
	case 1:
		mk(v2, 500, acctA)
		mk(v3, 700, acctA)
		members = [][]byte{id, v2, v3}
	case 2:
		mk(v2, 450, w.T[1])
		members = [][]byte{id, v2}
	case 3:
		mk(v2, 500, w.T[1])
		mk(v3, 1300, w.T[1])
		members = [][]byte{v2, v3}
	}
	w.h++
	rs = nx.RunBlock(w.World, w.h, nil, txs...)
	for _, rc := range rs {
		if rc.Status != 1 {
			panic("setup: miner apply failed: " + rc.Msg)
		}
	}
	if len(rs) != len(txs) {
		panic("setup: receipts missing")
	}
	w.minerId = append(w.minerId, pid)
	w.proposerId = pid
	w.groupId = []byte{0x67, 0x31}
	nx.Groups[string(w.groupId)] = &types.Group{Id: w.groupId, Members: members}
	w.Boundary()
}

// ---- reading a ledger ----
type snap struct {
	bal     []*big.Int
	locked  *big.Int
	esc     []escrowEntry
	pending *big.Int // refund requests collected in the executor context, not yet handed to RefundManager.Add
}

func (s snap) wealth() *big.Int {
	t := new(big.Int).Add(s.locked, escTotal(s.esc))
	t.Add(t, s.pending)
	for _, b := range s.bal {
		t.Add(t, b)
	}
	return t
}

func (w *world) read(adb *account.AccountDB, uni []common.Address, ctx map[string]interface{}) snap {
	s := snap{locked: w.lockedTotalOn(adb), esc: w.escrowOn(adb), pending: new(big.Int)}
	for _, x := range uni {
		s.bal = append(s.bal, adb.GetBalance(x))
	}
	if ctx != nil {
		if m, ok := ctx["refund"].(map[uint64]types.RefundInfoList); ok {
			for _, l := range m {
				for _, e := range l.List {
					s.pending.Add(s.pending, e.Value)
				}
			}
		}
	}
	return s
}

func (w *world) step(r *hx.Rng, res *hx.Result, cs *hx.Cases) {
	// height: usually the next one; sometimes jump to a height at which escrow is due
	w.h++
	var due []uint64
	for _, h := range w.sortedHeights() {
		if h > w.h && len(nx.Escrow(w.ADB, h)) > 0 {
			due = append(due, h)
		}
	}
	jumped := false
	if len(due) > 0 && r.Intn(6) == 0 {
		w.h = due[0]
		jumped = true
	}
	hd := w.h
	// senders drained by earlier frames (AUTHCALL of the origin's balance) are usually topped up again, outside any tx
	if r.Intn(4) > 0 {
		if w.ADB.GetBalance(w.S[0]).Cmp(nx.Tokens(20000)) < 0 {
			w.ADB.SetBalance(w.S[0], nx.Tokens(1000000))
		}
		if w.ADB.GetBalance(w.S[1]).Cmp(nx.Tokens(2500)) < 0 {
			w.ADB.SetBalance(w.S[1], nx.Tokens(5000))
		}
	}
	for _, au := range w.Auths { // AUTHCALL bumps the authority's nonce; the generated programs always pass nonce 0
		w.ADB.SetNonce(au, 0)
	}
	if w.ADB.GetBalance(w.S[4]).Cmp(nx.Wei("0.01")) < 0 && r.Intn(4) > 0 {
		w.ADB.SetBalance(w.S[4], nx.Wei("0.05"))
	}
	nTx := []int{1, 1, 1, 1, 1, 2, 2, 3, 4, 0}[r.Intn(10)]
	if jumped && r.Intn(2) == 0 {
		nTx = 0
	}
	installed := false
	var gens []gen
	if own := w.owned(); nTx > 0 && r.Intn(12) == 0 {
		// several accounts ask for refunds in one block (their requests meet in one per-height list of the executor context)
		seen := map[int]bool{}
		for _, o := range own {
			if !seen[o[1]] && len(gens) < 3 {
				seen[o[1]] = true
				gens = append(gens, w.mkRefund(w.minerId[o[0]], w.S[o[1]], []string{"1", "50", "100", "18446744073709551615"}[r.Intn(4)]))
			}
		}
		nTx = 0
		if r.Intn(2) == 0 {
			nTx = 1
		}
	}
	if nTx > 0 && len(gens) == 0 && r.Intn(25) == 0 {
		// two applications naming the same account in one block (the registry's account check walks committed entries
		// only - property C20): both stakes must still be debited and locked exactly
		nextAcct++
		acct := nx.Addr(nextAcct)
		w.base = append(w.base, acct)
		for i := 0; i < 2; i++ {
			id := []byte{0x70, byte(nextMiner >> 8), byte(nextMiner)}
			nextMiner++
			mi := types.Miner{Id: id, PublicKey: []byte{1, 2}, VrfPublicKey: []byte{3}, Type: common.MinerTypeValidator, Stake: 400 + uint64(i), Account: acct.Bytes()}
			gens = append(gens, w.mkApply(w.S[r.Intn(2)], mi))
		}
		nTx = r.Intn(2)
	}
	if w.tokenCode && nTx > 0 && len(gens) == 0 && r.Intn(5) == 0 {
		gens = w.genLedgerSeq(r, &installed)
		nTx = 0
		if r.Intn(3) == 0 {
			nTx = 1
		}
	}
	for i := 0; i < nTx; i++ {
		g := w.generate(r, &installed)
		gens = append(gens, g)

	}
	// the first contract tx of a block is sometimes sent as a JSON-RPC (ETHTX) transaction: same executor core behind a
	// nonce check; a refused one is dropped without receipt, so only funded senders with the right nonce are used
	if len(gens) > 0 && (gens[0].kind == "call" || gens[0].kind == "create" || gens[0].kind == "custom" || gens[0].kind == "token") && r.Intn(4) == 0 {
		g := &gens[0]
		src := srcOf(*g)
		if w.ADB.GetBalance(src).Cmp(fee) >= 0 {
			g.tx.Type = types.TransactionTypeETHTX
			g.tx.Nonce = w.ADB.GetNonce(src)
			g.tx.Hash = g.tx.GenHash()
			g.desc["as"] = "ethtx"
		}
	}
	// rarely the block sits at the Proposal004 fork height: after() then also runs CheckAndMove(0) over the escrow kept
	// under height 0 (pre-fork refunds without a due height); some is put there first, outside any tx
	fork004 := r.Intn(40) == 0
	if fork004 {
		l := types.RefundInfoList{}
		l.AddRefundInfo(w.T[0].Bytes(), nx.Wei("2.5"))
		l.AddRefundInfo(w.S[3].Bytes(), big.NewInt(int64(1+r.Intn(1000))))
		service.RefundManagerImpl.Add(map[uint64]types.RefundInfoList{0: l}, w.ADB)
		w.heights[0] = true
		common.LocalChainConfig.Proposal004Block = hd
		defer func() { common.LocalChainConfig.Proposal004Block = 0 }()
	}
	w.Boundary() // the installed programs are committed: the prefix copies below start from this root
	var groupId []byte
	rewardH := ((hd + 35999) / 36000) * 36000
	// a reward scheduled for the block's own height is credited by the same block's CheckAndMove: not separable
	withReward := r.Intn(7) == 0 && rewardH != hd
	if withReward {
		groupId = w.groupId
		w.heights[rewardH] = true
	}
	w.heights[hd+refundIn] = true
	w.heights[hd] = true

	nx.LedgerAddrs = w.base
	txs := make([]*types.Transaction, len(gens))
	for i, g := range gens {
		txs[i] = g.tx
	}
	// ---- intermediate states: copy k = committed state + txs[0..k) executed one by one WITHOUT finalisation in between
	// (nx.Stepper: what tx k really sees inside the block, e.g. a contract that self-destructed earlier in the block and
	// is still callable); checked below against the real loop: same receipts, same ledger after the last tx ----
	n := len(gens)
	pre := make([]*account.AccountDB, n+1)
	pctx := make([]map[string]interface{}, n+1)
	type srec struct {
		ok      bool
		gasUsed uint64
	}
	var prs []srec
	var loopRs []*types.Receipt
	var loopADB *account.AccountDB
	infos := make([]*nx.ContractInfo, n)
	var panicked interface{}
	func() {
		defer func() { panicked = recover() }()
		for k := 0; k <= n; k++ {
			adb, err := account.NewAccountDB(w.Root, w.TDB)
			if err != nil {
				panic(err)
			}
			pre[k] = adb
			st := nx.NewStepper(adb, headerOf(w, hd, groupId))
			var rec []srec
			for _, tx := range txs[:k] {
				ok, gu, skipped := st.Step(tx)
				if skipped {
					panic("stepper: transaction refused without receipt")
				}
				rec = append(rec, srec{ok, gu})
			}
			pctx[k] = st.Ctx
			prs = rec
		}
		// the real loop on the same txs without its after() phase: the reference for the stepper
		var err error
		if loopADB, err = account.NewAccountDB(w.Root, w.TDB); err != nil {
			panic(err)
		}
		loopRs, _ = nx.RunPrefix(loopADB, hd, w.proposerId, groupId, txs)
		for k, g := range gens {
			if g.kind == "call" || g.kind == "create" || g.kind == "custom" || g.kind == "token" {
				ci := nx.ExtractContract(pre[k], g.tx, headerOf(w, hd, groupId))
				infos[k] = &ci
			}
		}
	}()
	if panicked != nil {
		res.Count("panic", fmt.Sprint(descs(gens)), true)
		violate(res, "C06/total:executor-panic", fmt.Sprintf("block execution panicked: %v", panicked), descs(gens))
		return
	}
	for k, info := range infos {
		if info != nil && info.Ran && !info.Parsed {
			violate(res, "C06/correspondence:trace-unparsed", fmt.Sprintf("the recorded primitives of tx %d do not group into known events (a new way of moving value?)", k), descs(gens))
			return
		}
	}
	// ---- universe of this case ----
	uni := append([]common.Address{}, w.base...)
	pos := map[common.Address]int{}
	for i, x := range uni {
		pos[x] = i
	}
	idx := func(x common.Address) int {
		if p, ok := pos[x]; ok {
			return p
		}
		pos[x] = len(uni)
		uni = append(uni, x)
		return pos[x]
	}
	for _, info := range infos {
		if info == nil {
			continue
		}
		for _, e := range info.Trace {
			switch e.Kind {
			case "A":
				idx(e.A)
				idx(e.B)
				idx(e.Auth)
			case "V", "K", "TV":
				idx(e.A)
				idx(e.B)
			case "TB":
				idx(e.A)
			case "TM":
				idx(e.B)
			case "St", "Us", "Ua":
				idx(e.A)
			}
		}
		if info.Created != (common.Address{}) {
			idx(info.Created)
		}
	}
	// every read of the pre-block ledger goes through a separate AccountDB on the same root: reading through the
	// AccountDB the block will run on populates its caches, and accountObject.empty() looks at them (property C04), which
	// changes the gas of a later SELFDESTRUCT / CALL to that address
	reader, rerr := account.NewAccountDB(w.Root, w.TDB)
	if rerr != nil {
		panic(rerr)
	}
	escBefore := w.escrowOn(reader)
	for _, e := range escBefore {
		idx(e.A)
	}
	for k := 1; k <= n; k++ {
		for _, e := range w.escrowOn(pre[k]) {
			idx(e.A)
		}
		if m, ok := pctx[k]["refund"].(map[uint64]types.RefundInfoList); ok {
			for _, l := range m {
				for _, e := range l.List {
					idx(common.BytesToAddress(e.Id))
				}
			}
		}
	}
	nUni := len(uni)

	// ---- the real thing: the whole block with its after() phase ----
	before := w.read(reader, uni, nil)
	var rs []*types.Receipt
	func() {
		defer func() { panicked = recover() }()
		rs = nx.RunBlockWith(w.World, hd, w.proposerId, groupId, txs...)
	}()
	if panicked != nil {
		res.Count("panic", fmt.Sprint(descs(gens)), true)
		violate(res, "C06/total:executor-panic", fmt.Sprintf("block execution panicked: %v", panicked), descs(gens))
		w.Boundary()
		return
	}
	escAfter := w.escrowOn(w.ADB)
	for _, e := range escAfter {
		idx(e.A)
	}
	after := w.read(w.ADB, uni, nil)
	if len(uni) != nUni { // a reward beneficiary outside the universe appeared: read its balance at the pre-block root
		old, err := account.NewAccountDB(w.Root, w.TDB)
		if err != nil {
			panic(err)
		}
		for i := len(before.bal); i < len(uni); i++ {
			before.bal = append(before.bal, old.GetBalance(uni[i]))
		}
	}
	nAll := len(uni)
	w.Boundary()
	if len(rs) != n || len(prs) != n || len(loopRs) != n {
		violate(res, "C06/correspondence:receipt-count", fmt.Sprintf("block of %d txs produced %d receipts (prefix run %d)", n, len(rs), len(prs)), descs(gens))
		return
	}

	// the stepper, the replay of each contract tx on its intermediate state and the real loop must agree
	for k := 0; k < n; k++ {
		if prs[k].ok != (rs[k].Status == 1) || prs[k].gasUsed != rs[k].GasUsed || loopRs[k].Status != rs[k].Status || loopRs[k].GasUsed != rs[k].GasUsed {
			violate(res, "C06/correspondence:stepper-diverged", fmt.Sprintf("tx %d: stepper (ok=%v gas=%d), real loop without after() (status=%d gas=%d) and real block (status=%d gas=%d) disagree", k, prs[k].ok, prs[k].gasUsed, loopRs[k].Status, loopRs[k].GasUsed, rs[k].Status, rs[k].GasUsed), descs(gens))
			return
		}
		if info := infos[k]; info != nil && info.Ran && ((info.EvmErr == "") != (rs[k].Status == 1) || info.GasUsed != rs[k].GasUsed) {
			violate(res, "C06/correspondence:extraction-diverged", fmt.Sprintf("trace extraction (err=%q gas=%d) and real execution (status=%d gas=%d) disagree on tx %d", info.EvmErr, info.GasUsed, rs[k].Status, rs[k].GasUsed, k), descs(gens))
			return
		}
	}
	{
		a, b := w.read(pre[n], uni[:nUni], pctx[n]), w.read(loopADB, uni[:nUni], nil)
		same := a.locked.Cmp(b.locked) == 0 && escTotal(a.esc).Cmp(escTotal(b.esc)) == 0
		for i := range a.bal {
			same = same && a.bal[i].Cmp(b.bal[i]) == 0
		}
		if !same {
			violate(res, "C06/correspondence:stepper-ledger-diverged", "the ledger after the last tx differs between the stepper and the real loop", descs(gens))
			return
		}
	}

	// ---- direct evaluation of the property on the implementation, per transaction (prefix k -> k+1) ----
	snaps := make([]snap, n+1)
	for k := 0; k <= n; k++ {
		snaps[k] = w.read(pre[k], uni[:nUni], pctx[k])
	}
	// the reserve pseudo account: what the token contract's own code created so far in this block leaves it
	ri := pos[reserve]
	codeNet := new(big.Int)
	snaps[0].bal[ri] = new(big.Int).Set(reserve0)
	for k := 0; k < n; k++ {
		if info := infos[k]; info != nil && info.Ran && rs[k].Status == 1 {
			_, c := ledgerNet(info.Trace)
			codeNet.Add(codeNet, c)
		}
		snaps[k+1].bal[ri] = new(big.Int).Sub(reserve0, codeNet)
	}
	before.bal[ri] = new(big.Int).Set(reserve0)
	after.bal[ri] = new(big.Int).Sub(reserve0, codeNet)
	totalBurn := new(big.Int)
	classes := make([]string, n)
	for k, g := range gens {
		rc, info := rs[k], infos[k]
		success := rc.Status == 1
		burn := new(big.Int)
		if info != nil && info.Ran && success {
			burn = burnOf(info.Trace)
		}
		totalBurn.Add(totalBurn, burn)
		delta := new(big.Int).Sub(snaps[k+1].wealth(), snaps[k].wealth())
		delta.Add(delta, burn)
		class := g.kind
		if success {
			class += ":ok"
		} else {
			class += ":fail"
		}
		if g.custom != nil {
			class += ":" + g.desc["op"].(string) + "/" + g.desc["km"].(string) + "/" + g.desc["via"].(string)
		}
		if info != nil && info.Ran {
			hasK, hasR, hasV := false, false, false
			for _, e := range info.Trace {
				switch e.Kind {
				case "K":
					hasK = true
				case "R":
					hasR = true
				case "V":
					if e.V.Sign() != 0 {
						hasV = true
					}
				}
			}
			if hasV {
				class += "+value"
			}
			if hasK {
				class += "+suicide"
			}
			if hasR {
				class += "+revert"
			}
			if burn.Sign() != 0 {
				class += "+burn"
			}
			if strings.Contains(info.EvmErr, "out of gas") {
				class += "+oog"
			}
		} else if info != nil {
			switch {
			case !info.DecodeOK && !info.BeforeOK:
				class += ":before-rejected"
			case !info.BeforeOK:
				class += ":precheck"
			case !info.IntrinsicOK:
				class += ":intrinsic"
				if pctx[k] != nil && pctx[k]["gasUsed"] != nil {
					class += "+stale-gas"
				}
			}
		}
		if k > 0 {
			class += "#later"
		}
		classes[k] = class
		if os.Getenv("C06_DEBUG") != "" && !success {
			fmt.Printf("FAIL %s | %.60s\n", g.kind, rc.Msg)
		}
		src := srcOf(g)
		feePaid := snaps[k+1].bal[0].Cmp(snaps[k].bal[0]) != 0
		moved := false
		for i := 1; i < nUni; i++ {
			d := new(big.Int).Sub(snaps[k+1].bal[i], snaps[k].bal[i])
			if d.Sign() != 0 && !(uni[i] == src && new(big.Int).Neg(d).Cmp(fee) == 0) {
				moved = true
			}
		}
		lockChanged := snaps[k+1].locked.Cmp(snaps[k].locked) != 0
		nontrivial := feePaid && (moved || !success || lockChanged)
		descJ, _ := json.Marshal(g.desc)
		res.Count(class, g.kind+"|"+class+"|"+string(descJ), nontrivial)
		input := map[string]interface{}{"kind": g.kind, "height": hd, "position_in_block": k, "block": descs(gens), "tx": g.desc,
			"wealth_before": snaps[k].wealth().String(), "wealth_after": snaps[k+1].wealth().String(),
			"allowed_burn": burn.String(), "unexplained_delta": delta.String(),
			"receipt": map[string]interface{}{"status": rc.Status, "msg": rc.Msg, "gasUsed": rc.GasUsed}}
		if res.Evaluations%131 == 1 {
			res.Sample(input)
		}
		if delta.Sign() != 0 {
			key, what := "", ""
			gasFee := new(big.Int).Mul(new(big.Int).SetUint64(rc.GasUsed), gwei)
			switch {
			case (g.custom != nil && g.custom.op == nx.UNSTAKE || info != nil && w.kmOp == nx.UNSTAKE && reachesKM(w, info)) && delta.Sign() > 0:
				key = "C06/refund-exact:unstake-opcode-credits-requested-amount"
				what = "UNSTAKE opcode schedules the requested amount for the origin although the stake released is smaller (fractional amounts are truncated, oversized ones clamp to the whole stake): stake + escrow + balances grew by " + delta.String()
			case g.kind == "opnode" && success && new(big.Int).Neg(delta).Cmp(tenTok) == 0:
				key = "C06/decrease-only:operator-node-charge-destroyed"
				what = "a successful operator-node tx debits 10 tokens from the source and credits nobody: the sum decreases by something that is neither stake nor a self-destruct"
			case (g.kind == "call" || g.kind == "create" || g.kind == "custom" || g.kind == "token") && success && delta.Sign() > 0 && delta.Cmp(gasFee) <= 0 && pre[k+1].GetBalance(src).Sign() == 0 && !g.negVal:
				key = "C06/gas-mint:unchecked-sub-after-origin-drained"
				what = "contract executor credited the gas fee to the fee account without debiting the drained origin: supply grew by " + delta.String()
			case g.negVal && delta.Sign() > 0:
				key = "C06/negative-value:vm-cantransfer-unsigned"
				what = "contract tx with a negative transferValue credited sender and recipient: supply grew by " + delta.String()
			case g.ledger != "" && delta.Sign() > 0:
				key = "C06/mint:ledger-contract-write:" + g.ledger
				what = "after the bound token contract's code lowered a balance slot, a native spend of the old balance went through: balances + stake + escrow grew by " + delta.String()
			case g.kind == "refund" && delta.Sign() < 0:
				key = "C06/refund-exact:stake-released-but-not-scheduled"
				what = "a miner refund released stake that was not scheduled for anybody: stake + escrow shrank by " + new(big.Int).Neg(delta).String()
			case delta.Sign() > 0:
				key = "C06/mint:" + strings.TrimSuffix(class, "#later")
				what = "balances + locked stake + escrow grew by " + delta.String() + " without a scheduled reward"
			default:
				key = "C06/decrease-only:" + strings.TrimSuffix(class, "#later")
				what = "balances + locked stake + escrow shrank by " + new(big.Int).Neg(delta).String() + " beyond stake locking and self-destruct burns"
			}
			violate(res, key, what, input)
		}
		for i, b := range snaps[k+1].bal {
			if b.Sign() < 0 || b.BitLen() > 256 {
				violate(res, "C06/nonneg:"+short(w, uni[i]), "balance negative or wider than a 256-bit slot: "+b.String(), input)
			}
		}
		// a failed contract tx may leave nothing behind but fees
		if (g.kind == "call" || g.kind == "create" || g.kind == "custom" || g.kind == "token") && !success {
			for i := 1; i < nUni; i++ {
				if uni[i] != src && snaps[k+1].bal[i].Cmp(snaps[k].bal[i]) != 0 {
					violate(res, "C06/failed-tx:balance-of-third-party-changed", "a failed contract tx changed the balance of "+short(w, uni[i]), input)
				}
			}
			if lockChanged || escTotal(snaps[k+1].esc).Cmp(escTotal(snaps[k].esc)) != 0 {
				violate(res, "C06/failed-tx:stake-or-escrow-changed", "a failed contract tx changed the locked stake or the refund escrow", input)
			}
		}
	}
	if fork004 {
		res.Count("block:fork004-checkandmove0", fmt.Sprintf("fork004|%d", n), true)
	}
	if n == 0 {
		cl := "idle"
		if jumped {
			cl += "@due"
		}
		res.Count(cl, cl, false)
	}

	// ---- the block as a whole, with its after() phase (refund scheduling, reward, CheckAndMove) ----
	// reward scheduled by this block = growth of the escrow at the reward height (refunds go to h+36000)
	reward := new(big.Int)
	var rewardEntries []escrowEntry
	if withReward {
		bm := map[common.Address]*big.Int{}
		for _, e := range escBefore {
			if e.H == rewardH {
				bm[e.A] = e.V
			}
		}
		for _, e := range escAfter {
			if e.H == rewardH {
				d := new(big.Int).Set(e.V)
				if b, ok := bm[e.A]; ok {
					d.Sub(d, b)
				}
				if d.Sign() != 0 {
					reward.Add(reward, d)
					rewardEntries = append(rewardEntries, escrowEntry{rewardH, e.A, d})
				}
			}
		}
		if rewardH == hd+refundIn { // ambiguous attribution: do not model this block
			rewardEntries = nil
		}
	}
	bdelta := new(big.Int).Sub(after.wealth(), before.wealth())
	bdelta.Sub(bdelta, reward)
	bdelta.Add(bdelta, totalBurn)
	binput := map[string]interface{}{"height": hd, "block": descs(gens), "wealth_before": before.wealth().String(), "wealth_after": after.wealth().String(),
		"allowed_burn": totalBurn.String(), "reward": reward.String(), "unexplained_delta": bdelta.String(),
		"escrow_before": escStr(w, escBefore), "escrow_after": escStr(w, escAfter), "locked_before": before.locked.String(), "locked_after": after.locked.String()}
	if bdelta.Sign() != 0 && !violated {
		// every transaction balanced on its own: the after() phase (RefundManager.Add / reward / CheckAndMove) lost or created value
		violate(res, "C06/block:after-phase", "the block's transactions balance one by one but the block as a whole does not: unexplained "+bdelta.String(), binput)
	}
	if withReward && reward.Sign() > 0 {
		// whatever the miner -> account map, a block never schedules more than the per-block reward of its height:
		// T = 7350000 * (23/25)^epoch * (2/25) / blocksPerEpoch tokens (float64 slack: 2^-40 relative + 64 wei)
		bpe := int64(common.GetBlocksPerEpoch())
		epoch := int64(hd) / bpe
		t := new(big.Rat).SetFrac(new(big.Int).Mul(big.NewInt(7350000*2), new(big.Int).Exp(big.NewInt(23), big.NewInt(epoch), nil)),
			new(big.Int).Mul(new(big.Int).Exp(big.NewInt(25), big.NewInt(epoch+1), nil), big.NewInt(bpe)))
		t.Mul(t, new(big.Rat).SetInt(e18))
		limit := new(big.Int).Quo(t.Num(), t.Denom())
		limit.Add(limit, new(big.Int).Rsh(limit, 40))
		limit.Add(limit, big.NewInt(64))
		if reward.Cmp(limit) > 0 {
			binput["scheduled_reward_of_height"] = limit.String()
			binput["reward_family"] = w.rewardFamily
			violate(res, fmt.Sprintf("C06/reward:exceeds-scheduled:family%d", w.rewardFamily), "the block scheduled "+reward.String()+" wei of rewards, more than the per-block reward of its height", binput)
		}
	}
	if withReward && reward.Sign() < 0 {
		violate(res, "C06/reward:negative", "the escrow at the reward height shrank", binput)
	}
	for i, b := range after.bal {
		if b.Sign() < 0 || b.BitLen() > 256 {
			violate(res, "C06/nonneg:"+short(w, uni[i]), "balance negative or wider than a 256-bit slot: "+b.String(), binput)
		}
	}

	// ---- model case ----
	if withReward && rewardEntries == nil && reward.Sign() != 0 {
		return
	}
	var ops, results []string
	for k, g := range gens {
		m := &mctx{idx: idx, pre: pre[k], pre0: pre[0], info: infos[k], rc: rs[k], h: hd}
		if pctx[k] != nil {
			if gu, ok := pctx[k]["gasUsed"].(uint64); ok {
				m.stale = &gu
			}
		}
		descJ, _ := json.Marshal(g.desc)
		t, ok := g.model(m)
		if !ok {
			res.Note("trace of a contract tx did not parse into model events; case skipped: " + string(descJ))
			return
		}
		if strings.HasPrefix(t, "HC ") {
			ops = append(ops, t)
		} else {
			ops = append(ops, "HO (OTx ("+t+"))")
		}
		results = append(results, m.results...)
	}
	if len(uni) != nAll {
		return // a model-term builder named an address whose balance was not read
	}
	if len(rewardEntries) > 0 {
		var ps []string
		for _, e := range rewardEntries {
			ps = append(ps, fmt.Sprintf("(%d%%N, %s)", idx(e.A), zlit(e.V)))
		}
		ops = append(ops, fmt.Sprintf("HO (OReward %d%%N [%s])", rewardH, strings.Join(ps, "; ")))
	}
	ops = append(ops, fmt.Sprintf("HO (OCheckAndMove %d%%N)", hd))
	if fork004 {
		ops = append(ops, "HO (OCheckAndMove 0%N)")
	}
	var sc []string
	for _, e := range escBefore {
		sc = append(sc, fmt.Sprintf("(%d%%N, %d%%N, %s)", e.H, idx(e.A), zlit(e.V)))
	}
	zs := func(bs []*big.Int) string {
		ss := make([]string, len(bs))
		for i, b := range bs {
			ss[i] = zlit(b)
		}
		return "[" + strings.Join(ss, "; ") + "]"
	}
	// the inputs of the reward formula, read with the node's own registry functions on the state the after() phase sees
	// (all txs executed, nothing finalised); the formula itself is Model.reward_weights
	rinfo := "None"
	if len(rewardEntries) > 0 {
		adb := pre[n]
		castor := common.Address{}
		if m := service.MinerManagerImpl.GetMinerById(w.proposerId, common.MinerTypeProposer, adb); m != nil {
			castor = common.BytesToAddress(m.Account)
		}
		_, pm := service.MinerManagerImpl.GetProposerTotalStakeWithDetail(hd, adb)
		var pids []string
		for id := range pm {
			pids = append(pids, id)
		}
		sort.Strings(pids)
		var ps, vs []string
		for _, id := range pids {
			acct := common.Address{}
			if m := service.MinerManagerImpl.GetMinerById(common.FromHex(id), common.MinerTypeProposer, adb); m != nil {
				acct = common.BytesToAddress(m.Account)
			}
			ps = append(ps, fmt.Sprintf("(%d%%N, %d)", idx(acct), pm[id]))
		}
		if g := nx.Groups[string(groupId)]; g != nil {
			// one (account, stake) entry per group member, read per miner: the per-account sums and the denominator are
			// the specification's (Model.per_account), not the code's GetValidatorsStake
			for _, member := range g.Members {
				if m := service.MinerManagerImpl.GetMinerById(member, common.MinerTypeValidator, adb); m != nil && m.Stake != 0 {
					vs = append(vs, fmt.Sprintf("(%d%%N, %d)", idx(common.BytesToAddress(m.Account)), m.Stake))
				}
			}
		}
		rinfo = fmt.Sprintf("(Some (%d, %d, %d%%N, [%s], [%s]))", hd, common.GetBlocksPerEpoch(), idx(castor), strings.Join(ps, "; "), strings.Join(vs, "; "))
		if len(uni) != nAll {
			return
		}
	}
	term := fmt.Sprintf("(%s, [%s], [%s], Ob %s %s %s [%s], %s)", zs(before.bal), strings.Join(sc, "; "), strings.Join(ops, "; "), zs(after.bal),
		zlit(new(big.Int).Sub(after.locked, before.locked)), zlit(escTotal(escAfter)), strings.Join(results, "; "), rinfo)
	cs.Add("("+term+")%Z", map[string]interface{}{"classes": classes, "height": hd, "block": descs(gens), "ops": ops})
}

func escStr(w *world, es []escrowEntry) []string {
	var out []string
	for _, e := range es {
		out = append(out, fmt.Sprintf("%d:%s:%s", e.H, short(w, e.A), e.V.String()))
	}
	return out
}

func reachesKM(w *world, info *nx.ContractInfo) bool {
	for _, e := range info.Trace {
		if e.Kind == "V" && e.B == w.KM {
			return true
		}
	}
	return false
}

func descs(gs []gen) []map[string]interface{} {
	out := make([]map[string]interface{}, len(gs))
	for i, g := range gs {
		d := map[string]interface{}{"kind": g.kind}
		for k, v := range g.desc {
			d[k] = v
		}
		out[i] = d
	}
	return out
}

func headerOf(w *world, h uint64, groupId []byte) *types.BlockHeader {
	hd := nx.Header(h)
	if w.proposerId != nil {
		hd.Castor = w.proposerId
	}
	hd.GroupId = groupId
	return hd
}

var violated bool
var nWorlds int

func violate(res *hx.Result, key, what string, input interface{}) {
	violated = true
	res.Violate(key, what, input)
}

func srcOf(g gen) common.Address {
	if g.tx == nil {
		return common.Address{}
	}
	return common.HexToAddress(g.tx.Source)
}
