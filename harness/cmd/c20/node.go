// Node boot + in-memory world for the C20 harness (boot sequence: CONVENTIONS.md env notes; same wiring as
// harness/nodehx, copied so that this harness does not depend on a package another property owns).
package main

import (
	"math/big"
	"reflect"
	"strings"
	"strconv"
	"time"

	"com.tuntun.rangers/node/src/common"
	"com.tuntun.rangers/node/src/core"
	"com.tuntun.rangers/node/src/executor"
	"com.tuntun.rangers/node/src/middleware"
	"com.tuntun.rangers/node/src/middleware/types"
	"com.tuntun.rangers/node/src/service"
	"com.tuntun.rangers/node/src/storage/account"
	"com.tuntun.rangers/node/src/utility"
	"com.tuntun.rangers/node/src/vm"
)

type stubChain struct{}

func (stubChain) GetBlockHash(h uint64) common.Hash { return common.Hash{} }
func (stubChain) QueryBlockHeaderByHeight(height interface{}, cache bool) *types.BlockHeader {
	return nil
}
func (stubChain) GetAvailableGroupsByMinerId(height uint64, minerId []byte) []*types.Group {
	return nil
}
func (stubChain) GetGroupById(id []byte) *types.Group {
	if g, ok := groups[string(id)]; ok {
		return g
	}
	return nil
}
func (stubChain) GetBlockHeader(height uint64) *types.BlockHeader { return nil }

var chain = stubChain{}

// groups known to the stub group chain (id -> group), read by the reward calculator
var groups = map[string]*types.Group{}

// probeType: transaction type of the probe executor (executor.VerifC20RegisterProbe)
const probeType = int32(9020)

var probeFn func(tag string, adb *account.AccountDB)

var mainCast uint64
var devCfg = map[string]uint64{}

// activate sets the chain configuration for everything that follows.
//   sub: a sub chain is a node started with a genesis.json (common.Genesis != nil = common.IsSub()); the native balance
//        then lives in another slot position of the token contract, so a world keeps its configuration for its whole life;
//   regime: which proposal gates are open at the heights of this world - 0: all (dev configuration), 1: all but
//        proposal002 / proposal003 (their fork heights moved above every height used), 2: none.
func activate(sub bool, regime int) {
	if sub {
		common.Genesis = &common.GenesisConf{Name: "verif-sub", ChainId: "9527", Cast: mainCast}
	} else {
		common.Genesis = nil
	}
	v := reflect.ValueOf(&common.LocalChainConfig).Elem()
	for i := 0; i < v.NumField(); i++ {
		name := v.Type().Field(i).Name
		if !strings.HasPrefix(name, "Proposal") || !strings.HasSuffix(name, "Block") || v.Field(i).Kind() != reflect.Uint64 {
			continue
		}
		if _, ok := devCfg[name]; !ok {
			devCfg[name] = v.Field(i).Uint()
		}
		val := devCfg[name]
		if regime == 2 || (regime == 1 && (name == "Proposal002Block" || name == "Proposal003Block")) {
			val = 1000000000
		}
		v.Field(i).SetUint(val)
	}
}

// putGroup stores a group in the group chain stub the sub-chain after() phase reads
var putGroup func(g *types.Group)

// ---- configuration switches on the execution path ----
// switchFns: the zero-argument switches of package common (version.go); switchCover[family][name] = values seen
var switchFns = map[string]func() bool{
	"IsSub": common.IsSub, "IsMainnet": common.IsMainnet, "IsRobin": common.IsRobin, "IsDEV": common.IsDEV,
	"IsProposal002": common.IsProposal002, "IsProposal003": common.IsProposal003, "IsProposal004": common.IsProposal004,
	"IsProposal005": common.IsProposal005, "IsProposal006": common.IsProposal006, "IsProposal007": common.IsProposal007,
	"IsProposal008": common.IsProposal008, "IsProposal009": common.IsProposal009, "IsProposal012": common.IsProposal012,
	"IsProposal013": common.IsProposal013, "IsProposal015": common.IsProposal015, "IsProposal016": common.IsProposal016,
	"IsProposal017": common.IsProposal017, "IsProposal018": common.IsProposal018, "IsProposal020": common.IsProposal020,
	"IsProposal021": common.IsProposal021, "IsProposal023": common.IsProposal023, "IsProposal026": common.IsProposal026,
	"IsProposal027": common.IsProposal027,
}
var switchCover = map[string]map[string]map[bool]int{}

var families = []string{"main-chain worlds", "sub-chain worlds", "worlds before proposal002/003", "worlds before every proposal"}

func switchSeen(sub bool, regime int) {
	fam := families[0]
	if sub {
		fam = families[1]
	} else if regime > 0 {
		fam = families[1+regime]
	}
	if switchCover[fam] == nil {
		switchCover[fam] = map[string]map[bool]int{}
	}
	for n, f := range switchFns {
		if switchCover[fam][n] == nil {
			switchCover[fam][n] = map[bool]int{}
		}
		switchCover[fam][n][f()]++
	}
}

// tokenContract is the address the native balance is bound to (storage slots keccak(addr.3)).
var tokenContract = common.HexToAddress("0x71d9cfd1b7adb1e8eb4c193ce6ffbe19b4aee0db")

// boot starts the node services the executors need. cwd receives storage0/, logs/, p.ini.
func boot(height uint64) {
	common.Init(0, "p.ini", "dev")
	common.SetBlockHeight(height)
	middleware.InitMiddleware()
	service.InitService()
	service.InitRefundManager(chain, chain)
	service.InitRewardCalculator(chain, chain, chain)
	vm.InitVM()
	executor.InitExecutors()
	core.VerifC06InitLoggers()
	account.Init() // the package logger of storage/account (IncreaseNonce logs through it before proposal006)
	mainCast = common.GetCastingInterval()
	common.GetRewardBlocks()
	common.GetRefundBlocks()
	common.GetBlocksPerEpoch()
	putGroup = core.VerifC20InstallGroupStore()
	executor.VerifC20RegisterProbe(probeType, func(tx *types.Transaction, _ *types.BlockHeader, adb *account.AccountDB) {
		if probeFn != nil {
			probeFn(tx.Data, adb)
		}
	})
}

// nodeWorld: one trie database in memory, a sequence of AccountDBs over it.
type nodeWorld struct {
	TDB  account.AccountDatabase
	ADB  *account.AccountDB
	Root common.Hash
	Sub  bool // sub-chain configuration
	Regime int // proposal-gate regime (see activate)
}

func newNodeWorld() *nodeWorld {
	// the state database of the node's AccountDBManager: the consensus-side readers (consensus/access) open states
	// by root hash through it, so the worlds of this harness must live there
	w := &nodeWorld{}
	adb, err := middleware.AccountDBManagerInstance.GetAccountDBByHash(common.Hash{})
	if err != nil {
		panic(err)
	}
	w.TDB = adb.Database()
	w.ADB = adb
	adb.AddERC20Binding(common.BLANCE_NAME, tokenContract, 3, 18)
	adb.GetBalance(common.FeeAccount) // make the binding visible to the process-global cache
	return w
}

// boundary = block boundary: IntermediateRoot + Commit, then a fresh AccountDB on the new root
// (what the chain does between blocks).
func (w *nodeWorld) boundary() common.Hash {
	w.ADB.IntermediateRoot(true)
	root, err := w.ADB.Commit(true)
	if err != nil {
		panic(err)
	}
	if err := w.TDB.TrieDB().Commit(root, false); err != nil {
		panic(err)
	}
	adb, err := account.NewAccountDB(root, w.TDB)
	if err != nil {
		panic(err)
	}
	w.ADB, w.Root = adb, root
	return root
}

func header(height uint64) *types.BlockHeader {
	return &types.BlockHeader{Height: height, CurTime: time.Unix(1700000000+int64(height), 0), Castor: []byte{0xca, 0x57}}
}

func wei(s string) *big.Int {
	v, err := utility.StrToBigInt(s)
	if err != nil {
		panic(err)
	}
	return v
}

func tokens(n uint64) *big.Int { return utility.Uint64ToBigInt(n) }

func addr(i int) common.Address {
	var a common.Address
	a[0] = 0xA0
	a[18] = byte(i >> 8)
	a[19] = byte(i)
	return a
}

func refundAddress(height uint64) common.Address {
	return common.BytesToAddress(common.Sha256(utility.StrToBytes("refund" + strconv.FormatUint(height, 10))))
}

// escrowOf returns the pending (addr -> amount) map of one height, zero entries dropped.
// GetAllRefund creates the account object when it is missing: only read existing ones.
func escrowOf(adb *account.AccountDB, height uint64) map[common.Address]*big.Int {
	res := map[common.Address]*big.Int{}
	if !adb.Exist(refundAddress(height)) {
		return res
	}
	for a, v := range adb.GetAllRefund(refundAddress(height)) {
		if v.Sign() != 0 {
			res[a] = v
		}
	}
	return res
}

var reqId uint64

func newTx(typ int32, src, data string) *types.Transaction {
	reqId++
	t := &types.Transaction{Source: src, Type: typ, Data: data, RequestId: reqId, Nonce: reqId, Sign: &common.Sign{}} // the nonce makes equal requests distinct transactions
	t.Hash = t.GenHash()
	return t
}

// runBlock executes one block the way the chain does: the real VMExecutor loop (BeforeExecute / snapshot /
// Execute / revert), the real after() phase (situation other than "testing": RefundManager.Add of the block's refund
// requests, RewardCalculator.CalculateReward + Add - no reward when the header has no group id -, CheckAndMove) and
// IntermediateRoot. After every transaction a probe transaction hands the running AccountDB to probe(i, adb).
func runBlock(w *nodeWorld, h uint64, castor, groupId []byte, txs []*types.Transaction, probe func(i int, adb *account.AccountDB)) []*types.Receipt {
	common.SetBlockHeight(h)
	activate(w.Sub, w.Regime)
	switchSeen(w.Sub, w.Regime)
	hd := header(h)
	hd.Castor = castor
	hd.GroupId = groupId
	var all []*types.Transaction
	for i, t := range txs {
		all = append(all, t)
		if probe != nil {
			all = append(all, newTx(probeType, "", strconv.Itoa(i)))
		}
	}
	for _, t := range all { // the loop sorts by request id: keep the interleaved order
		reqId++
		t.RequestId = reqId
	}
	probeFn = func(tag string, adb *account.AccountDB) {
		i, _ := strconv.Atoi(tag)
		probe(i, adb)
	}
	defer func() { probeFn = nil }()
	b := &types.Block{Header: hd, Transactions: all}
	_, rs, _ := core.VerifC06ExecuteBlockCtx(w.ADB, b, "verif")
	return rs
}
